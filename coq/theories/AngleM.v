(* AngleM: item-by-item Gallina transcription of /repo/src/angle.rs (non-test part).
   One definition per Rust item, control flow transcribed literally, no algebraic
   simplification.  usize / i64 arithmetic is modelled in unbounded Z (faithful
   whenever no machine overflow occurs; the correspondence skips and counts cases
   whose model blades leave [0, 2^62]). *)
From Coq Require Import ZArith List Bool.
From Flocq Require Import Core BinarySingleNaN.
Require Import GV.FloatBase.
Import ListNotations.
Open Scope Z_scope.

Record angle := mkAngle { rem : F; blade : Z }.

(* libm: the one abstraction (see Libm.v for its specification) *)
Record libm := mkLibm {
  cosF : F -> F; sinF : F -> F; asinF : F -> F; acosF : F -> F;
  expF : F -> F; tanhF : F -> F; lnF : F -> F;
  atan2F : F -> F -> F;      (* atan2F y x  =  y.atan2(x) *)
  powF : F -> F -> F         (* powF x n    =  x.powf(n)  *)
}.

(* fn normalize_boundaries(&self) -> Self *)
Definition normalize_boundaries (a : angle) : angle :=
  let quarter_pi := Q in
  if flt (fabs (fsub (rem a) quarter_pi)) eps10 then
    {| rem := zero; blade := blade a + 1 |}
  else if fge (rem a) quarter_pi then
    let additional_blades := f2usize (fdiv (rem a) quarter_pi) in
    let final_rem := ffmod (rem a) quarter_pi in
    if flt (fabs (fsub final_rem quarter_pi)) eps10 then
      {| rem := zero; blade := blade a + additional_blades + 1 |}
    else
      {| rem := final_rem; blade := blade a + additional_blades |}
  else a.

(* pub fn new(pi_radians: f64, divisor: f64) -> Self *)
Definition new (pi_radians divisor : F) : angle :=
  let quarter_pi := Q in
  if feq divisor two && feq (ffract pi_radians) zero then
    let normalized_quarters :=
      if flt pi_radians zero then
        let full_rotations := fmul (fceil (fdiv (fadd (fneg pi_radians) three) four)) four in
        f2usize (fadd pi_radians full_rotations)
      else f2usize pi_radians in
    {| rem := zero; blade := normalized_quarters |}
  else
    let total_angle := fdiv (fmul pi_radians PI) divisor in
    let normalized_total :=
      if flt total_angle zero then
        let full_rotations := fceil (fdiv (fabs total_angle) (fmul four quarter_pi)) in
        let lifted := fadd total_angle (fmul (fmul full_rotations four) quarter_pi) in
        if flt lifted zero then fadd lifted (fmul four quarter_pi) else lifted
      else total_angle in
    let r := ffmod normalized_total quarter_pi in
    let b := f2usize (fround (fdiv (fsub normalized_total r) quarter_pi)) in
    normalize_boundaries {| rem := r; blade := b |}.

(* fn geometric_add(&self, other: &Self) -> Self *)
Definition geometric_add (a b : angle) : angle :=
  let total_blade := blade a + blade b in
  let total_rem := fadd (rem a) (rem b) in
  let quarter_pi := Q in
  if feq total_rem zero then {| rem := zero; blade := total_blade |}
  else if flt (fabs (fsub total_rem quarter_pi)) eps15 then
    {| rem := zero; blade := total_blade + 1 |}
  else normalize_boundaries {| rem := total_rem; blade := total_blade |}.

(* round a negative i64 blade count up by whole turns: ((-d + 3) / 4) * 4 with
   Rust's truncating division (operand is positive here, so Z.div agrees) *)
Definition lift_blade (d : Z) : Z :=
  if d <? 0 then d + ((- d + 3) / 4) * 4 else d.

(* fn geometric_sub(&self, other: &Self) -> Self *)
Definition geometric_sub (a b : angle) : angle :=
  let blade_diff := blade a - blade b in
  let rem_diff := fsub (rem a) (rem b) in
  if flt (fabs rem_diff) eps15 then
    {| rem := zero; blade := lift_blade blade_diff |}
  else
    let '(intermediate_blade, intermediate_rem) :=
      if flt rem_diff zero then (blade_diff - 1, fadd rem_diff Q) else (blade_diff, rem_diff) in
    normalize_boundaries {| rem := intermediate_rem; blade := lift_blade intermediate_blade |}.

(* the twelve + eight operator impl blocks: each is its own definition *)
Definition add_vv (a b : angle) := geometric_add a b.   (* impl Add for Angle *)
Definition add_vr (a b : angle) := geometric_add a b.   (* impl Add<&Angle> for Angle *)
Definition add_rv (a b : angle) := geometric_add a b.   (* impl Add<Angle> for &Angle *)
Definition add_rr (a b : angle) := geometric_add a b.   (* impl Add<&Angle> for &Angle *)
Definition sub_vv (a b : angle) := geometric_sub a b.
Definition sub_vr (a b : angle) := geometric_sub a b.
Definition sub_rv (a b : angle) := geometric_sub a b.
Definition sub_rr (a b : angle) := geometric_sub a b.
Definition mul_vv (a b : angle) := geometric_add a b.
Definition mul_vr (a b : angle) := geometric_add a b.
Definition mul_rv (a b : angle) := geometric_add a b.
Definition mul_rr (a b : angle) := geometric_add a b.
Definition diva_vv (a b : angle) := geometric_sub a b.
Definition diva_vr (a b : angle) := geometric_sub a b.
Definition diva_rv (a b : angle) := geometric_sub a b.
Definition diva_rr (a b : angle) := geometric_sub a b.

(* impl Div<f64> for Angle / for &Angle *)
Definition divf_v (a : angle) (divisor : F) : angle :=
  let total_angle := fadd (fmul (of_Z (blade a)) (fdiv PI two)) (rem a) in
  let divided_angle := fdiv total_angle divisor in
  new divided_angle PI.
Definition divf_r (a : angle) (divisor : F) : angle :=
  let total_angle := fadd (fmul (of_Z (blade a)) (fdiv PI two)) (rem a) in
  let divided_angle := fdiv total_angle divisor in
  new divided_angle PI.

(* pub fn new_with_blade(added_blade: usize, pi_radians: f64, divisor: f64) *)
Definition new_with_blade (added_blade : Z) (pi_radians divisor : F) : angle :=
  let base_angle := new pi_radians divisor in
  let blade_increment := new (of_Z added_blade) two in
  add_vv base_angle blade_increment.

(* pub fn new_from_cartesian(x: f64, y: f64) *)
Definition new_from_cartesian (L : libm) (x y : F) : angle :=
  let angle_radians := atan2F L y x in
  let pi_radians := fdiv angle_radians PI in
  new pi_radians one.

Definition rotate (a delta : angle) : angle := add_vv a delta.
Definition grade (a : angle) : Z := blade a mod 4.
Definition is_scalar (a : angle) : bool := grade a =? 0.
Definition is_vector (a : angle) : bool := grade a =? 1.
Definition is_bivector (a : angle) : bool := grade a =? 2.
Definition is_trivector (a : angle) : bool := grade a =? 3.
Definition base_angle (a : angle) : angle := {| rem := rem a; blade := grade a |}.

(* pub fn is_opposite(&self, other: &Angle) -> bool  (usize::abs_diff) *)
Definition is_opposite (a b : angle) : bool :=
  let blade_diff := Z.abs (blade a - blade b) in
  let rems_match := flt (fabs (fsub (rem a) (rem b))) eps15 in
  (blade_diff =? 2) && rems_match.

Definition dual (a : angle) : angle := add_vv a (new_with_blade 2 zero one).
Definition undual (a : angle) : angle := dual a.
Definition conjugate (a : angle) : angle := add_vv a (new one one).
Definition negate (a : angle) : angle := add_vv a (new one one).

(* self.grade() as f64 * PI / 2.0 + self.rem *)
Definition grade_angle (a : angle) : F :=
  fadd (fdiv (fmul (of_Z (grade a)) PI) two) (rem a).

(* pub fn project(&self, onto: Angle) -> f64 *)
Definition aproject (L : libm) (a onto : angle) : F :=
  let angle_diff := sub_vv onto a in
  cosF L (grade_angle angle_diff).

(* impl PartialEq for Angle *)
Definition aeqb (a b : angle) : bool :=
  if negb (blade a =? blade b) then false
  else
    let rem_diff := fabs (fsub (rem a) (rem b)) in
    if flt rem_diff eps15 then true else feq (rem a) (rem b).

(* impl Ord for Angle: None models the panic of `.unwrap()` on an unordered pair *)
Definition acmp (a b : angle) : option comparison :=
  match blade a ?= blade b with
  | Eq => fcmp (rem a) (rem b)
  | c => Some c
  end.
(* impl PartialOrd: Some(self.cmp(other)) *)
Definition apartial_cmp (a b : angle) : option (option comparison) :=
  match acmp a b with Some c => Some (Some c) | None => None end.
