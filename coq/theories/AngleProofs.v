(* AngleProofs: lemmas about AngleM (angle.rs). *)
From Coq Require Import ZArith List Bool Reals Lra Lia Psatz.
From Flocq Require Import Core BinarySingleNaN.
Require Import GV.FloatBase GV.FloatLemmas GV.AngleM.
Open Scope R_scope.

(* the library's own total: blade * q + rem, with q the double nearest pi/2 *)
Definition theta (a : angle) : R := IZR (blade a) * R_ Q + R_ (rem a).

(* canonical angle: canonical remainder, non-negative blade *)
Definition Canon (a : angle) : Prop := canonp (rem a) /\ (0 <= blade a)%Z.

(* numerical equality of angles (+0 and -0 remainders identified) *)
Definition aeq (a b : angle) : Prop := blade a = blade b /\ R_ (rem a) = R_ (rem b).

Definition zero_angle : angle := new zero one.
Lemma zero_angle_val : zero_angle = {| rem := zero; blade := 0 |}.
Proof. vm_compute. reflexivity. Qed.

(* ---------- spellings ---------- *)
Lemma add_spellings a b :
  add_vv a b = geometric_add a b /\ add_vr a b = geometric_add a b /\
  add_rv a b = geometric_add a b /\ add_rr a b = geometric_add a b /\
  mul_vv a b = geometric_add a b /\ mul_vr a b = geometric_add a b /\
  mul_rv a b = geometric_add a b /\ mul_rr a b = geometric_add a b /\
  rotate a b = geometric_add a b.
Proof. repeat split; reflexivity. Qed.

Lemma sub_spellings a b :
  sub_vv a b = geometric_sub a b /\ sub_vr a b = geometric_sub a b /\
  sub_rv a b = geometric_sub a b /\ sub_rr a b = geometric_sub a b /\
  diva_vv a b = geometric_sub a b /\ diva_vr a b = geometric_sub a b /\
  diva_rv a b = geometric_sub a b /\ diva_rr a b = geometric_sub a b.
Proof. repeat split; reflexivity. Qed.

(* ---------- commutativity, bit for bit ---------- *)
Lemma geometric_add_comm a b : geometric_add a b = geometric_add b a.
Proof. unfold geometric_add. rewrite (fadd_comm (rem b) (rem a)), (Z.add_comm (blade b) (blade a)). reflexivity. Qed.

(* ---------- the sum of two canonical remainders ---------- *)
Lemma sum_bounds ra rb : canonp ra -> canonp rb ->
  let tr := fadd ra rb in
  fin tr /\ R_ tr = rnd (R_ ra + R_ rb) /\ 0 <= R_ tr <= R_ V0.
Proof.
intros (Fa&A0&A1) (Fb&B0&B1) tr.
destruct V0_ok as [FV [V1 V2]]. pose proof E10pos as E10p.
assert (Hsm : Rabs (R_ ra + R_ rb) <= bpow radix2 1000).
{ apply small_le_1000. rewrite Rabs_pos_eq by lra. rewrite Qval, E10val in *. lra. }
destruct (fadd_R ra rb Fa Fb Hsm) as [V Ft]. fold tr in V, Ft.
split; [exact Ft|]. split; [exact V|]. split.
- rewrite V; apply rnd_ge0; lra.
- rewrite V. rewrite <- (round_generic radix2 fexp ZnearestE (R_ V0)) by apply fmt_R.
  apply round_le; auto with typeclass_instances. lra.
Qed.

(* normalize_boundaries on a remainder in [0, V0] *)
Lemma normalize_range t b : fin t -> 0 <= R_ t <= R_ V0 ->
  let n := normalize_boundaries {| rem := t; blade := b |} in
  canonp (rem n) /\
  ( (blade n = b /\ R_ (rem n) = R_ t /\ R_ t <= R_ Q - R_ eps10)
 \/ (blade n = (b + 1)%Z /\ R_ (rem n) = 0 /\ Rabs (R_ t - R_ Q) <= R_ eps10 + / 4503599627370496)
 \/ (blade n = (b + 1)%Z /\ R_ t = R_ Q + R_ (rem n)) ).
Proof.
intros Ft [T0 T1] n. destruct V0_ok as [FV [V1 V2]]. pose proof E10pos as E10p. pose proof Qpos as Qp.
unfold n, normalize_boundaries. cbn [rem blade]. fold (near10 t).
destruct (near10 t) eqn:N1.
{ split. apply canonp_zero. right; left. cbn [rem blade]. split; [reflexivity|]. split; [reflexivity|].
  rewrite near10_spec in N1; auto. 2:{ rewrite Qval, E10val in *; lra. }
  destruct (Rlt_bool_spec (Rabs (rnd (R_ t - R_ Q))) (R_ eps10)) as [H|H]; [|discriminate].
  assert (E := rnd_err_4 (R_ t - R_ Q)).
  assert (Rabs (R_ t - R_ Q) < 4). { apply Rabs_def1; rewrite Qval, E10val in *; lra. }
  specialize (E H0).
  replace (R_ t - R_ Q) with (rnd (R_ t - R_ Q) - (rnd (R_ t - R_ Q) - (R_ t - R_ Q))) at 1 by ring.
  eapply Rle_trans. apply Rabs_triang. rewrite Rabs_Ropp. lra. }
rewrite fge_R by auto using fin_Q.
destruct (Rle_bool_spec (R_ Q) (R_ t)) as [L|L].
- destruct (ffmod_pos' t Q Ft fin_Q ltac:(lra) Qp) as (Ff & [F0 F1] & k & Hk0 & Hk).
  assert (k = 1)%Z.
  { destruct (Z_le_gt_dec k 0) as [K|K]. { apply IZR_le in K. rewrite Qval, E10val in *. nra. }
    destruct (Z_le_gt_dec 2 k) as [K2|K2]. { apply IZR_le in K2. rewrite Qval, E10val in *. nra. }
    lia. }
  subst k. rewrite Rmult_1_l in Hk.
  rewrite (f2usize_div t Ft (conj L T1)).
  assert (Fb1 : R_ (ffmod t Q) <= R_ Q - R_ eps10) by lra.
  fold (near10 (ffmod t Q)). rewrite (below_not_near _ Ff F0 Fb1).
  cbn [rem blade]. split. split; auto. right; right. split; [reflexivity|exact Hk].
- assert (Cn := not_near_below t Ft (conj T0 L) N1).
  cbn [rem blade]. split. split; auto. left. auto.
Qed.

(* geometric_add preserves the canonical invariant, carries at most one blade *)
Lemma geometric_add_canon a b : canonp (rem a) -> canonp (rem b) ->
  canonp (rem (geometric_add a b)) /\
  (blade (geometric_add a b) = blade a + blade b \/ blade (geometric_add a b) = blade a + blade b + 1)%Z.
Proof.
intros Ca Cb. destruct (sum_bounds _ _ Ca Cb) as (Ft & V & T01).
unfold geometric_add. set (tr := fadd (rem a) (rem b)) in *.
destruct (feq tr zero). { split. apply canonp_zero. now left. }
destruct (flt (fabs (fsub tr Q)) eps15). { split. apply canonp_zero. now right. }
destruct (normalize_range tr (blade a + blade b)%Z Ft T01) as (Cn & [(B&_)|[(B&_)|(B&_)]]);
  (split; [exact Cn|]); rewrite B; auto.
Qed.

Lemma Canon_add a b : Canon a -> Canon b -> Canon (geometric_add a b).
Proof.
intros [Ca Ba] [Cb Bb]. destruct (geometric_add_canon a b Ca Cb) as [C [B|B]]; split; auto; rewrite B; lia.
Qed.

(* total of the sum: off by at most the 1e-10 boundary tolerance plus one rounding *)
Lemma geometric_add_total a b : canonp (rem a) -> canonp (rem b) ->
  Rabs (theta (geometric_add a b) - (theta a + theta b)) <= R_ eps10 + / 2251799813685248.
Proof.
intros Ca Cb. destruct (sum_bounds _ _ Ca Cb) as (Ft & V & [T0 T1]).
destruct V0_ok as [FV [V1 V2]]. pose proof E10pos as E10p. pose proof E15pos as E15p. pose proof Qpos as Qp.
destruct Ca as (Fa&A0&A1). destruct Cb as (Fb&B0&B1).
assert (Hs4 : Rabs (R_ (rem a) + R_ (rem b)) < 4). { apply Rabs_def1; rewrite Qval, E10val in *; lra. }
assert (Er := rnd_err_4 _ Hs4). rewrite <- V in Er.
unfold theta, geometric_add. set (tr := fadd (rem a) (rem b)) in *.
rewrite feq_R by auto using fin_zero. rewrite R_zero.
destruct (Req_bool_spec (R_ tr) 0) as [Z|NZ].
{ cbn [rem blade]. rewrite plus_IZR, R_zero.
  replace (_ - _) with (R_ tr - (R_ (rem a) + R_ (rem b))) by (rewrite Z; ring).
  lra. }
destruct (fsub_R tr Q Ft fin_Q) as [VS FS].
{ apply small_le_1000. apply Rabs_le. rewrite Qval, E10val in *; lra. }
rewrite flt_R by auto using fin_fabs, fin_eps15. rewrite fabs_R, VS.
destruct (Rlt_bool_spec (Rabs (rnd (R_ tr - R_ Q))) (R_ eps15)) as [N15|N15].
{ cbn [rem blade]. rewrite !plus_IZR, R_zero.
  assert (H4 : Rabs (R_ tr - R_ Q) < 4). { apply Rabs_def1; rewrite Qval, E10val in *; lra. }
  assert (E2 := rnd_err_4 _ H4).
  replace (_ - _) with (- (rnd (R_ tr - R_ Q)) + (rnd (R_ tr - R_ Q) - (R_ tr - R_ Q)) + (R_ tr - (R_ (rem a) + R_ (rem b)))) by ring.
  eapply Rle_trans. apply Rabs_triang. eapply Rle_trans. apply Rplus_le_compat_r. apply Rabs_triang.
  rewrite Rabs_Ropp. rewrite E15val, E10val in *. lra. }
destruct (normalize_range tr (blade a + blade b)%Z Ft (conj T0 T1)) as (Cn & [(B&Rr&_)|[(B&Rr&Nr)|(B&Rr)]]).
- rewrite B, Rr, plus_IZR.
  replace (_ - _) with (R_ tr - (R_ (rem a) + R_ (rem b))) by ring. lra.
- rewrite B, Rr, !plus_IZR.
  replace (_ - _) with (- (R_ tr - R_ Q) + (R_ tr - (R_ (rem a) + R_ (rem b)))) by ring.
  eapply Rle_trans. apply Rabs_triang. rewrite Rabs_Ropp. lra.
- rewrite B, !plus_IZR.
  replace (_ - _) with (R_ tr - (R_ (rem a) + R_ (rem b))) by (rewrite Rr; ring). lra.
Qed.

(* zero is an exact identity (numerically: a -0.0 remainder comes back as +0.0) *)
Lemma not_near15 t : fin t -> 0 <= R_ t <= R_ Q - R_ eps10 ->
  flt (fabs (fsub t Q)) eps15 = false.
Proof.
intros Ft [T0 T1]. pose proof E10pos.
destruct (fsub_R t Q Ft fin_Q) as [VS FS].
{ apply small_le_1000. apply Rabs_le. rewrite Qval, E10val in *; lra. }
rewrite flt_R by auto using fin_fabs, fin_eps15. rewrite fabs_R, VS.
apply Rlt_bool_false.
assert (rnd (R_ t - R_ Q) <= - R_ eps10).
{ rewrite <- (round_generic radix2 fexp ZnearestE (- R_ eps10)).
  apply round_le; auto with typeclass_instances. lra.
  apply generic_format_opp, fmt_R. }
rewrite Rabs_left1 by lra. rewrite E15val, E10val in *. lra.
Qed.

Lemma fadd_zero_r x : fin x -> R_ (fadd x zero) = R_ x /\ fin (fadd x zero).
Proof.
intros Fx. destruct x as [s|s| |s m e H]; try discriminate; simpl.
- destruct s; split; reflexivity.
- split; reflexivity.
Qed.

Lemma geometric_add_zero_r a : Canon a -> aeq (geometric_add a zero_angle) a.
Proof.
intros [(Fa&A0&A1) Ba]. rewrite zero_angle_val. unfold geometric_add, aeq. cbn [rem blade].
destruct (fadd_zero_r (rem a) Fa) as [V Ft]. set (tr := fadd (rem a) zero) in *.
rewrite Z.add_0_r.
rewrite feq_R by auto using fin_zero. rewrite R_zero.
destruct (Req_bool_spec (R_ tr) 0) as [Z|NZ].
{ cbn [rem blade]. split; [reflexivity|]. rewrite R_zero. lra. }
rewrite (not_near15 tr Ft) by lra.
unfold normalize_boundaries. cbn [rem blade]. fold (near10 tr).
rewrite (below_not_near tr Ft) by lra.
rewrite fge_R by auto using fin_Q.
pose proof E10pos.
rewrite Rle_bool_false by lra. cbn [rem blade]. split; [reflexivity|exact V].
Qed.

Lemma geometric_add_zero_l a : Canon a -> aeq (geometric_add zero_angle a) a.
Proof. intros C. rewrite geometric_add_comm. now apply geometric_add_zero_r. Qed.

(* ================= subtraction ================= *)
Lemma lift_blade_nonneg d : (d < 0)%Z -> (0 <= lift_blade d <= 3)%Z /\ (lift_blade d mod 4 = d mod 4)%Z.
Proof.
intros H. unfold lift_blade. destruct (Z.ltb_spec d 0); [|lia].
assert (E : (((- d + 3) / 4) * 4 = - d + 3 - (- d + 3) mod 4)%Z).
{ pose proof (Z_div_mod_eq_full (- d + 3) 4). lia. }
pose proof (Z.mod_pos_bound (- d + 3) 4 ltac:(lia)).
split. lia.
rewrite Z.mod_add by lia. reflexivity.
Qed.

Lemma lift_blade_pos d : (0 <= d)%Z -> lift_blade d = d.
Proof. intros H. unfold lift_blade. destruct (Z.ltb_spec d 0); lia. Qed.

Lemma lift_blade_ge0 d : (0 <= lift_blade d)%Z.
Proof. destruct (Z_lt_ge_dec d 0). now apply lift_blade_nonneg. rewrite lift_blade_pos; lia. Qed.

Lemma fsub_self r : fin r -> fsub r r = zero.
Proof.
intros Fr. destruct r as [s|s| |s m e H]; try discriminate.
- destruct s; reflexivity.
- unfold fsub.
  generalize (Bminus_correct prec emax _ _ mode_NE (B754_finite s m e H) (B754_finite s m e H) eq_refl eq_refl).
  rewrite Rminus_diag_eq by reflexivity. rewrite round_0 by auto with typeclass_instances.
  rewrite Rabs_R0, Rlt_bool_true by apply bpow_gt_0.
  rewrite Rcompare_Eq by reflexivity.
  intros (V & Fn & S).
  destruct (Bminus mode_NE (B754_finite s m e H) (B754_finite s m e H)) as [s'|s'| |s' m' e' H'] eqn:E; try discriminate.
  + simpl in S. rewrite S. destruct s; reflexivity.
  + exfalso. destruct s'; simpl in V.
    * assert (K := F2R_lt_0 radix2 (Float radix2 (Z.neg m') e') ltac:(simpl; lia)). lra.
    * assert (K := F2R_gt_0 radix2 (Float radix2 (Z.pos m') e') ltac:(simpl; lia)). lra.
Qed.

Lemma geometric_sub_self a : fin (rem a) -> geometric_sub a a = {| rem := zero; blade := 0 |}.
Proof.
intros Fa. unfold geometric_sub. rewrite (fsub_self _ Fa), Z.sub_diag.
replace (flt (fabs zero) eps15) with true by (vm_compute; reflexivity).
reflexivity.
Qed.

(* difference of two canonical remainders *)
Lemma diff_bounds ra rb : canonp ra -> canonp rb ->
  let rd := fsub ra rb in
  fin rd /\ R_ rd = rnd (R_ ra - R_ rb) /\ - R_ Q <= R_ rd <= R_ Q.
Proof.
intros (Fa&A0&A1) (Fb&B0&B1) rd. pose proof E10pos.
destruct (fsub_R ra rb Fa Fb) as [V Fd].
{ apply small_le_1000. apply Rabs_le. rewrite Qval, E10val in *. lra. }
fold rd in V, Fd. split; auto. split; auto.
rewrite V. split.
- rewrite <- (round_generic radix2 fexp ZnearestE (- R_ Q)) by (apply generic_format_opp, fmt_R).
  apply round_le; auto with typeclass_instances. lra.
- rewrite <- (round_generic radix2 fexp ZnearestE (R_ Q)) by apply fmt_R.
  apply round_le; auto with typeclass_instances. lra.
Qed.

Lemma Q_le_V0 : R_ Q <= R_ V0.
Proof. destruct V0_ok as [_ [V1 _]]. rewrite Qval, E10val in *. lra. Qed.

(* geometric_sub preserves the canonical invariant and never returns a negative blade *)
Lemma geometric_sub_canon a b : canonp (rem a) -> canonp (rem b) ->
  canonp (rem (geometric_sub a b)) /\ (0 <= blade (geometric_sub a b))%Z.
Proof.
intros Ca Cb. destruct (diff_bounds _ _ Ca Cb) as (Fd & V & [D0 D1]).
pose proof Q_le_V0 as QV. pose proof Qpos as Qp.
unfold geometric_sub. set (rd := fsub (rem a) (rem b)) in *.
destruct (flt (fabs rd) eps15).
{ cbn [rem blade]. split. apply canonp_zero. apply lift_blade_ge0. }
rewrite flt_R by auto using fin_zero. rewrite R_zero.
destruct (Rlt_bool_spec (R_ rd) 0) as [Neg|Pos].
- destruct (fadd_R rd Q Fd fin_Q) as [VA FA].
  { apply small_le_1000. apply Rabs_le. rewrite Qval in *. lra. }
  assert (A0 : 0 <= R_ (fadd rd Q)) by (rewrite VA; apply rnd_ge0; lra).
  assert (A1 : R_ (fadd rd Q) <= R_ V0).
  { rewrite VA. apply Rle_trans with (R_ Q); [|exact QV].
    rewrite <- (round_generic radix2 fexp ZnearestE (R_ Q)) at 2 by apply fmt_R.
    apply round_le; auto with typeclass_instances. lra. }
  destruct (normalize_range (fadd rd Q) (lift_blade (blade a - blade b - 1)) FA (conj A0 A1)) as (Cn & B).
  split; [exact Cn|]. pose proof (lift_blade_ge0 (blade a - blade b - 1)).
  destruct B as [(B&_)|[(B&_)|(B&_)]]; rewrite B; lia.
- destruct (normalize_range rd (lift_blade (blade a - blade b)) Fd (conj Pos (Rle_trans _ _ _ D1 QV))) as (Cn & B).
  split; [exact Cn|]. pose proof (lift_blade_ge0 (blade a - blade b)).
  destruct B as [(B&_)|[(B&_)|(B&_)]]; rewrite B; lia.
Qed.

Lemma Canon_sub a b : Canon a -> Canon b -> Canon (geometric_sub a b).
Proof. intros [Ca _] [Cb _]. destruct (geometric_sub_canon a b Ca Cb). split; auto. Qed.

(* blade of the difference: the lifted blade difference (minus a borrow), plus at most one carry *)
Lemma geometric_sub_blade a b : canonp (rem a) -> canonp (rem b) ->
  exists borrow carry : Z, (0 <= borrow <= 1)%Z /\ (0 <= carry <= 1)%Z /\
    blade (geometric_sub a b) = (lift_blade (blade a - blade b - borrow) + carry)%Z.
Proof.
intros Ca Cb. destruct (diff_bounds _ _ Ca Cb) as (Fd & V & [D0 D1]).
pose proof Q_le_V0 as QV. pose proof Qpos as Qp.
unfold geometric_sub. set (rd := fsub (rem a) (rem b)) in *.
destruct (flt (fabs rd) eps15).
{ exists 0%Z, 0%Z. cbn [rem blade]. rewrite Z.sub_0_r, Z.add_0_r. repeat split; lia. }
rewrite flt_R by auto using fin_zero. rewrite R_zero.
destruct (Rlt_bool_spec (R_ rd) 0) as [Neg|Pos].
- destruct (fadd_R rd Q Fd fin_Q) as [VA FA].
  { apply small_le_1000. apply Rabs_le. rewrite Qval in *. lra. }
  assert (A0 : 0 <= R_ (fadd rd Q)) by (rewrite VA; apply rnd_ge0; lra).
  assert (A1 : R_ (fadd rd Q) <= R_ V0).
  { rewrite VA. apply Rle_trans with (R_ Q); [|exact QV].
    rewrite <- (round_generic radix2 fexp ZnearestE (R_ Q)) at 2 by apply fmt_R.
    apply round_le; auto with typeclass_instances. lra. }
  destruct (normalize_range (fadd rd Q) (lift_blade (blade a - blade b - 1)) FA (conj A0 A1)) as (Cn & B).
  destruct B as [(B&_)|[(B&_)|(B&_)]]; rewrite B.
  + exists 1%Z, 0%Z. repeat split; lia.
  + exists 1%Z, 1%Z. repeat split; lia.
  + exists 1%Z, 1%Z. repeat split; lia.
- destruct (normalize_range rd (lift_blade (blade a - blade b)) Fd (conj Pos (Rle_trans _ _ _ D1 QV))) as (Cn & B).
  destruct B as [(B&_)|[(B&_)|(B&_)]]; rewrite B.
  + exists 0%Z, 0%Z. rewrite Z.sub_0_r. repeat split; lia.
  + exists 0%Z, 1%Z. rewrite Z.sub_0_r. repeat split; lia.
  + exists 0%Z, 1%Z. rewrite Z.sub_0_r. repeat split; lia.
Qed.

(* total of the difference when no wrap-around is needed: off by at most 1e-10 + 3 roundings *)
Lemma geometric_sub_total a b : canonp (rem a) -> canonp (rem b) -> (blade b + 1 <= blade a)%Z ->
  Rabs (theta (geometric_sub a b) - (theta a - theta b)) <= R_ eps10 + 3 * / 4503599627370496.
Proof.
intros Ca Cb Hb. destruct (diff_bounds _ _ Ca Cb) as (Fd & V & [D0 D1]).
pose proof Q_le_V0 as QV. pose proof Qpos as Qp. pose proof E10pos as E10p. pose proof E15pos as E15p.
destruct Ca as (Fa&A0&A1). destruct Cb as (Fb&B0&B1).
assert (Hd4 : Rabs (R_ (rem a) - R_ (rem b)) < 4). { apply Rabs_def1; rewrite Qval, E10val in *; lra. }
assert (Er := rnd_err_4 _ Hd4). rewrite <- V in Er. apply Rabs_le_inv in Er.
unfold theta, geometric_sub. set (rd := fsub (rem a) (rem b)) in *.
rewrite flt_R by auto using fin_fabs, fin_eps15. rewrite fabs_R.
destruct (Rlt_bool_spec (Rabs (R_ rd)) (R_ eps15)) as [N15|N15].
{ cbn [rem blade]. rewrite lift_blade_pos by lia. rewrite minus_IZR, R_zero.
  apply Rabs_def2 in N15. apply Rabs_le. rewrite E15val, E10val in *. lra. }
rewrite flt_R by auto using fin_zero. rewrite R_zero.
destruct (Rlt_bool_spec (R_ rd) 0) as [Neg|Pos].
- destruct (fadd_R rd Q Fd fin_Q) as [VA FA].
  { apply small_le_1000. apply Rabs_le. rewrite Qval in *. lra. }
  assert (A40 : Rabs (R_ rd + R_ Q) < 4). { apply Rabs_def1; rewrite Qval in *; lra. }
  assert (Ea := rnd_err_4 _ A40). rewrite <- VA in Ea. apply Rabs_le_inv in Ea.
  assert (T0 : 0 <= R_ (fadd rd Q)) by (rewrite VA; apply rnd_ge0; lra).
  assert (T1 : R_ (fadd rd Q) <= R_ V0).
  { rewrite VA. apply Rle_trans with (R_ Q); [|exact QV].
    rewrite <- (round_generic radix2 fexp ZnearestE (R_ Q)) at 2 by apply fmt_R.
    apply round_le; auto with typeclass_instances. lra. }
  rewrite lift_blade_pos by lia.
  destruct (normalize_range (fadd rd Q) (blade a - blade b - 1) FA (conj T0 T1)) as (Cn & [(B&Rr&_)|[(B&Rr&Nr)|(B&Rr)]]);
    rewrite B; rewrite ?plus_IZR, ?minus_IZR.
  + rewrite Rr. apply Rabs_le. lra.
  + rewrite Rr. apply Rabs_le_inv in Nr. apply Rabs_le. lra.
  + apply Rabs_le. lra.
- rewrite lift_blade_pos by lia.
  destruct (normalize_range rd (blade a - blade b) Fd (conj Pos (Rle_trans _ _ _ D1 QV))) as (Cn & [(B&Rr&_)|[(B&Rr&Nr)|(B&Rr)]]);
    rewrite B; rewrite ?plus_IZR, ?minus_IZR.
  + rewrite Rr. apply Rabs_le. lra.
  + rewrite Rr. apply Rabs_le_inv in Nr. apply Rabs_le. rewrite Qval in *. lra.
  + apply Rabs_le. lra.
Qed.

(* ================= blade-step operators ================= *)
Lemma new_0_1 : new zero one = {| rem := zero; blade := 0 |}. Proof. vm_compute; reflexivity. Qed.
Lemma new_1_1 : new one one = {| rem := zero; blade := 2 |}. Proof. vm_compute; reflexivity. Qed.
Lemma new_1_2 : new one two = {| rem := zero; blade := 1 |}. Proof. vm_compute; reflexivity. Qed.
Lemma new_3_2 : new three two = {| rem := zero; blade := 3 |}. Proof. vm_compute; reflexivity. Qed.
Lemma new_m1_2 : new (fneg one) two = {| rem := zero; blade := 3 |}. Proof. vm_compute; reflexivity. Qed.
Lemma new_4_1 : new four one = {| rem := zero; blade := 8 |}. Proof. vm_compute; reflexivity. Qed.
Lemma nwb_2_0_1 : new_with_blade 2 zero one = {| rem := zero; blade := 2 |}. Proof. vm_compute; reflexivity. Qed.

(* adding a pure blade count k: the blade grows by exactly k, the remainder is untouched *)
Lemma geometric_add_blade_k a k : canonp (rem a) ->
  aeq (geometric_add a {| rem := zero; blade := k |}) {| rem := rem a; blade := blade a + k |}
  /\ fin (rem (geometric_add a {| rem := zero; blade := k |})).
Proof.
intros (Fa&A0&A1). unfold geometric_add, aeq. cbn [rem blade].
destruct (fadd_zero_r (rem a) Fa) as [V Ft]. set (tr := fadd (rem a) zero) in *.
rewrite feq_R by auto using fin_zero. rewrite R_zero.
destruct (Req_bool_spec (R_ tr) 0) as [Z|NZ].
{ cbn [rem blade]. split; [split; [reflexivity|rewrite R_zero; lra]|reflexivity]. }
rewrite (not_near15 tr Ft) by lra.
unfold normalize_boundaries. cbn [rem blade]. fold (near10 tr).
rewrite (below_not_near tr Ft) by lra.
rewrite fge_R by auto using fin_Q.
pose proof E10pos.
rewrite Rle_bool_false by lra. cbn [rem blade]. split; [split; [reflexivity|exact V]|exact Ft].
Qed.

Lemma canonp_ext r r' : canonp r -> fin r' -> R_ r' = R_ r -> canonp r'.
Proof. intros (F0&H) F' E. split; auto. now rewrite E. Qed.

Definition steps_to (a a' : angle) (k : Z) : Prop :=
  blade a' = (blade a + k)%Z /\ R_ (rem a') = R_ (rem a) /\ fin (rem a').

Lemma step_by_k a k : canonp (rem a) -> steps_to a (geometric_add a {| rem := zero; blade := k |}) k.
Proof. intros C. destruct (geometric_add_blade_k a k C) as [[B R] F]. repeat split; auto. Qed.

Lemma dual_step a : canonp (rem a) -> steps_to a (dual a) 2.
Proof. intros C. unfold dual, add_vv. rewrite nwb_2_0_1. now apply step_by_k. Qed.
Lemma undual_step a : canonp (rem a) -> steps_to a (undual a) 2.
Proof. exact (dual_step a). Qed.
Lemma negate_step a : canonp (rem a) -> steps_to a (negate a) 2.
Proof. intros C. unfold negate, add_vv. rewrite new_1_1. now apply step_by_k. Qed.
Lemma conjugate_step a : canonp (rem a) -> steps_to a (conjugate a) 2.
Proof. intros C. unfold conjugate, add_vv. rewrite new_1_1. now apply step_by_k. Qed.

Lemma steps_canon a a' k : canonp (rem a) -> steps_to a a' k -> canonp (rem a').
Proof. intros C (B&R&F). now apply (canonp_ext (rem a)). Qed.

Lemma steps_trans a b c j k : steps_to a b j -> steps_to b c k -> steps_to a c (j + k).
Proof. intros (B1&R1&F1) (B2&R2&F2). repeat split; auto. lia. congruence. Qed.

(* base_angle / grade *)
Lemma base_angle_spec a : blade (base_angle a) = (blade a mod 4)%Z /\ rem (base_angle a) = rem a.
Proof. split; reflexivity. Qed.
Lemma grade_range a : (0 <= grade a < 4)%Z.
Proof. unfold grade. apply Z.mod_pos_bound. lia. Qed.

Lemma steps_refl a : canonp (rem a) -> steps_to a a 0.
Proof. intros (F&_). repeat split; auto. lia. Qed.

Lemma steps_history_gen (ops : list (angle -> angle)) (ks : list Z) :
  Forall2 (fun f k => forall x, canonp (rem x) -> steps_to x (f x) k) ops ks ->
  forall a0 a k0, canonp (rem a0) -> steps_to a0 a k0 ->
  steps_to a0 (fold_left (fun x f => f x) ops a) (fold_left Z.add ks k0).
Proof.
induction 1 as [|f k ops ks Hf Hrest IH]; intros a0 a k0 C0 S; simpl; [exact S|].
apply IH; [exact C0|].
eapply steps_trans; [exact S|]. apply Hf. eapply steps_canon; eauto.
Qed.

Lemma steps_history (ops : list (angle -> angle)) (ks : list Z) a :
  Forall2 (fun f k => forall x, canonp (rem x) -> steps_to x (f x) k) ops ks ->
  canonp (rem a) ->
  steps_to a (fold_left (fun x f => f x) ops a) (fold_left Z.add ks 0%Z).
Proof. intros H C. apply steps_history_gen; auto. now apply steps_refl. Qed.

(* associativity up to four addition tolerances (each side is within two of the real sum) *)
Lemma geometric_add_assoc a b c : canonp (rem a) -> canonp (rem b) -> canonp (rem c) ->
  Rabs (theta (geometric_add (geometric_add a b) c) - theta (geometric_add a (geometric_add b c)))
    <= 4 * (R_ eps10 + / 2251799813685248).
Proof.
intros Ca Cb Cc.
destruct (geometric_add_canon a b Ca Cb) as [Cab _]. destruct (geometric_add_canon b c Cb Cc) as [Cbc _].
pose proof (geometric_add_total a b Ca Cb) as H1. pose proof (geometric_add_total (geometric_add a b) c Cab Cc) as H2.
pose proof (geometric_add_total b c Cb Cc) as H3. pose proof (geometric_add_total a (geometric_add b c) Ca Cbc) as H4.
apply Rabs_le_inv in H1. apply Rabs_le_inv in H2. apply Rabs_le_inv in H3. apply Rabs_le_inv in H4.
apply Rabs_le. lra.
Qed.

(* (a + b) - b returns a: totals within the sum of one addition and one subtraction tolerance,
   whenever a carries at least one blade (no wrap-around can occur) *)
Lemma add_sub_roundtrip a b : canonp (rem a) -> canonp (rem b) -> (1 <= blade a)%Z ->
  Rabs (theta (geometric_sub (geometric_add a b) b) - theta a)
    <= 2 * R_ eps10 + 5 * / 4503599627370496.
Proof.
intros Ca Cb Ha. destruct (geometric_add_canon a b Ca Cb) as [Cab Bab].
assert (Hb : (blade b + 1 <= blade (geometric_add a b))%Z) by (destruct Bab as [E|E]; rewrite E; lia).
pose proof (geometric_add_total a b Ca Cb) as H1.
pose proof (geometric_sub_total (geometric_add a b) b Cab Cb Hb) as H2.
apply Rabs_le_inv in H1. apply Rabs_le_inv in H2. apply Rabs_le. lra.
Qed.

(* grade_angle stays inside [0, 2pi): for a canonical angle it is below 4q - 1e-10 + rounding *)
