(* AngleProofs: lemmas about AngleM (angle.rs). *)
From Coq Require Import ZArith List Bool Reals Lra Lia Psatz.
From Flocq Require Import Core BinarySingleNaN.
Require Import GV.FloatBase GV.FloatLemmas GV.AngleM.
Open Scope R_scope.

(* the library's own total: blade * q + rem, with q the double nearest pi/2 *)
Definition theta (a : angle) : R := IZR (blade a) * R_ Q + R_ (rem a).

(* canonical angle: canonical remainder, non-negative blade *)
Definition Canon (a : angle) : Prop := canonp (rem a) /\ (0 <= blade a)%Z.

(* numerical equality of angles (+0 and -0 remainders identified) *)
Definition aeq (a b : angle) : Prop := blade a = blade b /\ R_ (rem a) = R_ (rem b).

Definition zero_angle : angle := new zero one.
Lemma zero_angle_val : zero_angle = {| rem := zero; blade := 0 |}.
Proof. vm_compute. reflexivity. Qed.

(* ---------- spellings ---------- *)
Lemma add_spellings a b :
  add_vv a b = geometric_add a b /\ add_vr a b = geometric_add a b /\
  add_rv a b = geometric_add a b /\ add_rr a b = geometric_add a b /\
  mul_vv a b = geometric_add a b /\ mul_vr a b = geometric_add a b /\
  mul_rv a b = geometric_add a b /\ mul_rr a b = geometric_add a b /\
  rotate a b = geometric_add a b.
Proof. repeat split; reflexivity. Qed.

Lemma sub_spellings a b :
  sub_vv a b = geometric_sub a b /\ sub_vr a b = geometric_sub a b /\
  sub_rv a b = geometric_sub a b /\ sub_rr a b = geometric_sub a b /\
  diva_vv a b = geometric_sub a b /\ diva_vr a b = geometric_sub a b /\
  diva_rv a b = geometric_sub a b /\ diva_rr a b = geometric_sub a b.
Proof. repeat split; reflexivity. Qed.

(* ---------- commutativity, bit for bit ---------- *)
Lemma geometric_add_comm a b : geometric_add a b = geometric_add b a.
Proof. unfold geometric_add. rewrite (fadd_comm (rem b) (rem a)), (Z.add_comm (blade b) (blade a)). reflexivity. Qed.

(* ---------- the sum of two canonical remainders ---------- *)
Lemma sum_bounds ra rb : canonp ra -> canonp rb ->
  let tr := fadd ra rb in
  fin tr /\ R_ tr = rnd (R_ ra + R_ rb) /\ 0 <= R_ tr <= R_ V0.
Proof.
intros (Fa&A0&A1) (Fb&B0&B1) tr.
destruct V0_ok as [FV [V1 V2]]. pose proof E10pos as E10p.
assert (Hsm : Rabs (R_ ra + R_ rb) <= bpow radix2 1000).
{ apply small_le_1000. rewrite Rabs_pos_eq by lra. rewrite Qval, E10val in *. lra. }
destruct (fadd_R ra rb Fa Fb Hsm) as [V Ft]. fold tr in V, Ft.
split; [exact Ft|]. split; [exact V|]. split.
- rewrite V; apply rnd_ge0; lra.
- rewrite V. rewrite <- (round_generic radix2 fexp ZnearestE (R_ V0)) by apply fmt_R.
  apply round_le; auto with typeclass_instances. lra.
Qed.

(* normalize_boundaries on a remainder in [0, V0] *)
Lemma normalize_range t b : fin t -> 0 <= R_ t <= R_ V0 ->
  let n := normalize_boundaries {| rem := t; blade := b |} in
  canonp (rem n) /\
  ( (blade n = b /\ R_ (rem n) = R_ t /\ R_ t <= R_ Q - R_ eps10)
 \/ (blade n = (b + 1)%Z /\ R_ (rem n) = 0 /\ Rabs (R_ t - R_ Q) <= R_ eps10 + / 4503599627370496)
 \/ (blade n = (b + 1)%Z /\ R_ t = R_ Q + R_ (rem n)) ).
Proof.
intros Ft [T0 T1] n. destruct V0_ok as [FV [V1 V2]]. pose proof E10pos as E10p. pose proof Qpos as Qp.
unfold n, normalize_boundaries. cbn [rem blade]. fold (near10 t).
destruct (near10 t) eqn:N1.
{ split. apply canonp_zero. right; left. cbn [rem blade]. split; [reflexivity|]. split; [reflexivity|].
  rewrite near10_spec in N1; auto. 2:{ rewrite Qval, E10val in *; lra. }
  destruct (Rlt_bool_spec (Rabs (rnd (R_ t - R_ Q))) (R_ eps10)) as [H|H]; [|discriminate].
  assert (E := rnd_err_4 (R_ t - R_ Q)).
  assert (Rabs (R_ t - R_ Q) < 4). { apply Rabs_def1; rewrite Qval, E10val in *; lra. }
  specialize (E H0).
  replace (R_ t - R_ Q) with (rnd (R_ t - R_ Q) - (rnd (R_ t - R_ Q) - (R_ t - R_ Q))) at 1 by ring.
  eapply Rle_trans. apply Rabs_triang. rewrite Rabs_Ropp. lra. }
rewrite fge_R by auto using fin_Q.
destruct (Rle_bool_spec (R_ Q) (R_ t)) as [L|L].
- destruct (ffmod_pos' t Q Ft fin_Q ltac:(lra) Qp) as (Ff & [F0 F1] & k & Hk0 & Hk).
  assert (k = 1)%Z.
  { destruct (Z_le_gt_dec k 0) as [K|K]. { apply IZR_le in K. rewrite Qval, E10val in *. nra. }
    destruct (Z_le_gt_dec 2 k) as [K2|K2]. { apply IZR_le in K2. rewrite Qval, E10val in *. nra. }
    lia. }
  subst k. rewrite Rmult_1_l in Hk.
  rewrite (f2usize_div t Ft (conj L T1)).
  assert (Fb1 : R_ (ffmod t Q) <= R_ Q - R_ eps10) by lra.
  fold (near10 (ffmod t Q)). rewrite (below_not_near _ Ff F0 Fb1).
  cbn [rem blade]. split. split; auto. right; right. split; [reflexivity|exact Hk].
- assert (Cn := not_near_below t Ft (conj T0 L) N1).
  cbn [rem blade]. split. split; auto. left. auto.
Qed.

(* geometric_add preserves the canonical invariant, carries at most one blade *)
Lemma geometric_add_canon a b : canonp (rem a) -> canonp (rem b) ->
  canonp (rem (geometric_add a b)) /\
  (blade (geometric_add a b) = blade a + blade b \/ blade (geometric_add a b) = blade a + blade b + 1)%Z.
Proof.
intros Ca Cb. destruct (sum_bounds _ _ Ca Cb) as (Ft & V & T01).
unfold geometric_add. set (tr := fadd (rem a) (rem b)) in *.
destruct (feq tr zero). { split. apply canonp_zero. now left. }
destruct (flt (fabs (fsub tr Q)) eps15). { split. apply canonp_zero. now right. }
destruct (normalize_range tr (blade a + blade b)%Z Ft T01) as (Cn & [(B&_)|[(B&_)|(B&_)]]);
  (split; [exact Cn|]); rewrite B; auto.
Qed.

Lemma Canon_add a b : Canon a -> Canon b -> Canon (geometric_add a b).
Proof.
intros [Ca Ba] [Cb Bb]. destruct (geometric_add_canon a b Ca Cb) as [C [B|B]]; split; auto; rewrite B; lia.
Qed.

(* total of the sum: off by at most the 1e-10 boundary tolerance plus one rounding *)
Lemma geometric_add_total a b : canonp (rem a) -> canonp (rem b) ->
  Rabs (theta (geometric_add a b) - (theta a + theta b)) <= R_ eps10 + / 2251799813685248.
Proof.
intros Ca Cb. destruct (sum_bounds _ _ Ca Cb) as (Ft & V & [T0 T1]).
destruct V0_ok as [FV [V1 V2]]. pose proof E10pos as E10p. pose proof E15pos as E15p. pose proof Qpos as Qp.
destruct Ca as (Fa&A0&A1). destruct Cb as (Fb&B0&B1).
assert (Hs4 : Rabs (R_ (rem a) + R_ (rem b)) < 4). { apply Rabs_def1; rewrite Qval, E10val in *; lra. }
assert (Er := rnd_err_4 _ Hs4). rewrite <- V in Er.
unfold theta, geometric_add. set (tr := fadd (rem a) (rem b)) in *.
rewrite feq_R by auto using fin_zero. rewrite R_zero.
destruct (Req_bool_spec (R_ tr) 0) as [Z|NZ].
{ cbn [rem blade]. rewrite plus_IZR, R_zero.
  replace (_ - _) with (R_ tr - (R_ (rem a) + R_ (rem b))) by (rewrite Z; ring).
  lra. }
destruct (fsub_R tr Q Ft fin_Q) as [VS FS].
{ apply small_le_1000. apply Rabs_le. rewrite Qval, E10val in *; lra. }
rewrite flt_R by auto using fin_fabs, fin_eps15. rewrite fabs_R, VS.
destruct (Rlt_bool_spec (Rabs (rnd (R_ tr - R_ Q))) (R_ eps15)) as [N15|N15].
{ cbn [rem blade]. rewrite !plus_IZR, R_zero.
  assert (H4 : Rabs (R_ tr - R_ Q) < 4). { apply Rabs_def1; rewrite Qval, E10val in *; lra. }
  assert (E2 := rnd_err_4 _ H4).
  replace (_ - _) with (- (rnd (R_ tr - R_ Q)) + (rnd (R_ tr - R_ Q) - (R_ tr - R_ Q)) + (R_ tr - (R_ (rem a) + R_ (rem b)))) by ring.
  eapply Rle_trans. apply Rabs_triang. eapply Rle_trans. apply Rplus_le_compat_r. apply Rabs_triang.
  rewrite Rabs_Ropp. rewrite E15val, E10val in *. lra. }
destruct (normalize_range tr (blade a + blade b)%Z Ft (conj T0 T1)) as (Cn & [(B&Rr&_)|[(B&Rr&Nr)|(B&Rr)]]).
- rewrite B, Rr, plus_IZR.
  replace (_ - _) with (R_ tr - (R_ (rem a) + R_ (rem b))) by ring. lra.
- rewrite B, Rr, !plus_IZR.
  replace (_ - _) with (- (R_ tr - R_ Q) + (R_ tr - (R_ (rem a) + R_ (rem b)))) by ring.
  eapply Rle_trans. apply Rabs_triang. rewrite Rabs_Ropp. lra.
- rewrite B, !plus_IZR.
  replace (_ - _) with (R_ tr - (R_ (rem a) + R_ (rem b))) by (rewrite Rr; ring). lra.
Qed.

(* zero is an exact identity (numerically: a -0.0 remainder comes back as +0.0) *)
Lemma not_near15 t : fin t -> 0 <= R_ t <= R_ Q - R_ eps10 ->
  flt (fabs (fsub t Q)) eps15 = false.
Proof.
intros Ft [T0 T1]. pose proof E10pos.
destruct (fsub_R t Q Ft fin_Q) as [VS FS].
{ apply small_le_1000. apply Rabs_le. rewrite Qval, E10val in *; lra. }
rewrite flt_R by auto using fin_fabs, fin_eps15. rewrite fabs_R, VS.
apply Rlt_bool_false.
assert (rnd (R_ t - R_ Q) <= - R_ eps10).
{ rewrite <- (round_generic radix2 fexp ZnearestE (- R_ eps10)).
  apply round_le; auto with typeclass_instances. lra.
  apply generic_format_opp, fmt_R. }
rewrite Rabs_left1 by lra. rewrite E15val, E10val in *. lra.
Qed.

Lemma fadd_zero_r x : fin x -> R_ (fadd x zero) = R_ x /\ fin (fadd x zero).
Proof.
intros Fx. destruct x as [s|s| |s m e H]; try discriminate; simpl.
- destruct s; split; reflexivity.
- split; reflexivity.
Qed.

Lemma geometric_add_zero_r a : Canon a -> aeq (geometric_add a zero_angle) a.
Proof.
intros [(Fa&A0&A1) Ba]. rewrite zero_angle_val. unfold geometric_add, aeq. cbn [rem blade].
destruct (fadd_zero_r (rem a) Fa) as [V Ft]. set (tr := fadd (rem a) zero) in *.
rewrite Z.add_0_r.
rewrite feq_R by auto using fin_zero. rewrite R_zero.
destruct (Req_bool_spec (R_ tr) 0) as [Z|NZ].
{ cbn [rem blade]. split; [reflexivity|]. rewrite R_zero. lra. }
rewrite (not_near15 tr Ft) by lra.
unfold normalize_boundaries. cbn [rem blade]. fold (near10 tr).
rewrite (below_not_near tr Ft) by lra.
rewrite fge_R by auto using fin_Q.
pose proof E10pos.
rewrite Rle_bool_false by lra. cbn [rem blade]. split; [reflexivity|exact V].
Qed.

Lemma geometric_add_zero_l a : Canon a -> aeq (geometric_add zero_angle a) a.
Proof. intros C. rewrite geometric_add_comm. now apply geometric_add_zero_r. Qed.
