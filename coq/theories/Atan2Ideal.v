(* Atan2Ideal: the libm accuracy premises of C06_cartesian are jointly satisfiable. *)
From Coq Require Import ZArith List Bool Reals Lra Lia Psatz.
From Flocq Require Import Core BinarySingleNaN.
Require Import GV.FloatBase GV.FloatLemmas GV.AngleM GV.AngleProofs GV.NewProofs GV.CtorProofs GV.GeonumM GV.GeonumProofs
  GV.ClosureProofs GV.SumUpper GV.PiBounds GV.TrigProofs GV.DotValue GV.DistValue GV.DirProofs GV.SumDir.
Open Scope R_scope.

(* rounding a real of magnitude at most 4 to a double *)
Lemma round_real_acc4 c : Rabs c <= 4 ->
  fin (round_real c) /\ Rabs (R_ (round_real c) - c) <= / 1125899906842624.
Proof.
intros Hc. unfold round_real. set (m := ZnearestE (c * bpow radix2 1074)).
assert (Hm : Rabs (IZR m - c * bpow radix2 1074) <= / 2).
{ rewrite <- Rabs_Ropp. replace (- (IZR m - c * bpow radix2 1074)) with (c * bpow radix2 1074 - IZR m) by ring. apply Znearest_half. }
set (y := F2R (Float radix2 m (-1074))).
assert (Yc : Rabs (y - c) <= bpow radix2 (-1075)).
{ unfold y, F2R. simpl Fnum. simpl Fexp.
  replace (IZR m * bpow radix2 (-1074) - c) with ((IZR m - c * bpow radix2 1074) * bpow radix2 (-1074)).
  2:{ rewrite Rmult_minus_distr_r, Rmult_assoc, <- bpow_plus. simpl (1074 + -1074)%Z. simpl (bpow radix2 0). ring. }
  rewrite Rabs_mult, (Rabs_pos_eq (bpow radix2 (-1074))) by apply bpow_ge_0.
  replace (bpow radix2 (-1075)) with (/ 2 * bpow radix2 (-1074)).
  2:{ change (/ 2) with (bpow radix2 (-1)). rewrite <- bpow_plus. reflexivity. }
  apply Rmult_le_compat_r. apply bpow_ge_0. exact Hm. }
assert (T : bpow radix2 (-1075) <= / 1073741824 / 1073741824 / 1073741824).
{ apply Rle_trans with (bpow radix2 (-90)). apply bpow_le; lia. simpl. lra. }
pose proof (bpow_gt_0 radix2 (-1075)) as Tp.
assert (Yb : Rabs y <= 5). { apply Rabs_le_inv in Yc. apply Rabs_le_inv in Hc. apply Rabs_le. lra. }
generalize (binary_normalize_correct prec emax Hprec Hmax mode_NE m (-1074) false). cbv zeta. fold y.
change (round radix2 (SpecFloat.fexp prec emax) (round_mode mode_NE) y) with (rnd y).
rewrite Rlt_bool_true.
2:{ apply rnd_small_lt_emax. apply small_le_1000. lra. }
intros (V & Fn & _). split; [exact Fn|]. rewrite V.
pose proof (rnd_rel y) as E.
apply Rabs_le_inv in E. apply Rabs_le_inv in Yc. pose proof (Rabs_le_inv _ _ Yb) as Yb'.
assert (Ey : Rabs y <= 5) by exact Yb.
apply Rabs_le. lra.
Qed.

(* the angle of a point: acos(x/r) mirrored for y < 0 (any angle at the origin) *)
Definition angle_of (y x : R) : R :=
  let r := sqrt (x * x + y * y) in
  if Req_EM_T r 0 then 0 else if Rle_dec 0 y then acos (x / r) else - acos (x / r).

Lemma angle_of_spec y x : let r := sqrt (x * x + y * y) in let th := angle_of y x in
  - Rtrigo1.PI <= th <= Rtrigo1.PI /\ x = r * cos th /\ y = r * sin th.
Proof.
intros r th. unfold th, angle_of. fold r. pose proof PI_RGT_0 as Pp.
assert (S0 : 0 <= x * x + y * y) by nra.
assert (R0 : 0 <= r) by apply sqrt_pos.
assert (RR : r * r = x * x + y * y) by (unfold r; apply sqrt_sqrt; exact S0).
destruct (Req_EM_T r 0) as [Z|NZ].
- rewrite Z in RR. assert (x = 0) by nra. assert (y = 0) by nra. subst. rewrite Z. split; [lra|]. split; ring.
- assert (Rp : 0 < r) by lra.
  set (c := x / r).
  assert (Cb : -1 <= c <= 1).
  { unfold c. split.
    - apply Rmult_le_reg_r with r; [exact Rp|]. unfold Rdiv. rewrite Rmult_assoc, Rinv_l by lra. nra.
    - apply Rmult_le_reg_r with r; [exact Rp|]. unfold Rdiv. rewrite Rmult_assoc, Rinv_l by lra. nra. }
  pose proof (acos_bound c) as AB. pose proof (cos_acos c Cb) as CA.
  assert (XC : x = r * c) by (unfold c; field; lra).
  assert (SA : 0 <= sin (acos c)) by (apply sin_ge_0; lra).
  pose proof (sin2_cos2 (acos c)) as P. unfold Rsqr in P. rewrite CA in P.
  assert (SY : (r * sin (acos c)) * (r * sin (acos c)) = y * y) by nra.
  destruct (Rle_dec 0 y) as [Yp|Yn].
  + split; [lra|]. split; [rewrite CA; exact XC|].
    assert (0 <= r * sin (acos c)) by (apply Rmult_le_pos; lra). nra.
  + split; [lra|]. rewrite cos_neg, sin_neg. split; [rewrite CA; exact XC|].
    assert (0 <= r * sin (acos c)) by (apply Rmult_le_pos; lra). nra.
Qed.

(* clamp a double into [-PI, PI] *)
Definition clamp_pi (v : F) : F :=
  if Rle_dec (R_ v) (R_ PI) then (if Rle_dec (- R_ PI) (R_ v) then v else fneg PI) else PI.

Definition ideal_libm2 : libm :=
  {| cosF := fun x => round_real (cos (R_ x)); sinF := fun x => round_real (sin (R_ x));
     asinF := fun _ => zero; acosF := fun _ => zero; expF := fun _ => one; tanhF := fun _ => zero;
     lnF := fun _ => zero; atan2F := fun y x => clamp_pi (round_real (angle_of (R_ y) (R_ x))); powF := fun x _ => x |}.

Lemma ideal2_hyps : cos_acc ideal_libm2 (/ 4503599627370496) /\ sin_acc ideal_libm2 (/ 4503599627370496) /\
  atan2_acc ideal_libm2 (/ 1125899906842624) /\ / 4503599627370496 <= / 1000.
Proof.
split; [|split; [|split; [|lra]]].
- intros x _ _. cbn [ideal_libm2 cosF]. apply round_real_acc. apply Rabs_le. pose proof (COS_bound (R_ x)); lra.
- intros x _ _. cbn [ideal_libm2 sinF]. apply round_real_acc. apply Rabs_le. pose proof (SIN_bound (R_ x)); lra.
- intros y x _ _. cbn [ideal_libm2 atan2F].
  destruct (angle_of_spec (R_ y) (R_ x)) as ([T0 T1] & Xc & Ys). set (th := angle_of (R_ y) (R_ x)) in *.
  pose proof PI_RGT_0 as Pp. pose proof PI_4 as P4.
  destruct (round_real_acc4 th ltac:(apply Rabs_le; lra)) as [Fv Ev]. set (v := round_real th) in *.
  destruct PIval as [VP FP]. pose proof Qpos as Qp.
  pose proof q_close_to_half_pi as QP. rewrite <- Qval in QP. apply Rabs_le_inv in QP.
  assert (PP : Rabs (R_ PI - Rtrigo1.PI) <= 2 / 10000000000000000) by (rewrite VP; apply Rabs_le; lra).
  apply Rabs_le_inv in PP. apply Rabs_le_inv in Ev.
  unfold clamp_pi. destruct (Rle_dec (R_ v) (R_ PI)) as [Hi|Hi]; [destruct (Rle_dec (- R_ PI) (R_ v)) as [Lo|Lo]|].
  + split; [exact Fv|]. split; [apply Rabs_le; lra|]. exists th. split; [apply Rabs_le; lra|]. split; assumption.
  + split; [apply fin_fneg; exact FP|]. rewrite fneg_R. split; [rewrite Rabs_Ropp, Rabs_pos_eq; lra|].
    exists th. split; [apply Rabs_le; lra|]. split; assumption.
  + split; [exact FP|]. split; [rewrite Rabs_pos_eq; lra|].
    exists th. split; [apply Rabs_le; lra|]. split; assumption.
Qed.
