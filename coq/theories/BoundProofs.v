(* BoundProofs: bounds under explicit range hypotheses on libm (C09, C19). *)
From Coq Require Import ZArith List Bool Reals Lra Lia.
From Flocq Require Import Core BinarySingleNaN.
Require Import GV.FloatBase GV.FloatLemmas GV.AngleM GV.AngleProofs GV.GeonumM GV.GeonumProofs GV.TraitsM GV.TraitsProofs.
Open Scope R_scope.

(* ================= bounds under explicit range hypotheses on libm ================= *)
Definition cos_range (L : libm) : Prop := forall x, fin (cosF L x) /\ Rabs (R_ (cosF L x)) <= 1.
Definition tanh_range (L : libm) : Prop := forall x, fin (tanhF L x) /\ Rabs (R_ (tanhF L x)) <= 1.

(* multiplying by a factor of absolute value at most 1 never increases the absolute value (monotone rounding) *)
Lemma fmul_contracts x c : fin x -> fin c -> Rabs (R_ c) <= 1 -> Rabs (R_ x) <= bpow radix2 1000 ->
  fin (fmul x c) /\ Rabs (R_ (fmul x c)) <= Rabs (R_ x).
Proof.
intros Fx Fc Hc Hx.
assert (P : Rabs (R_ x * R_ c) <= Rabs (R_ x)).
{ rewrite Rabs_mult. pose proof (Rabs_pos (R_ x)). nra. }
destruct (fmul_R x c Fx Fc (Rle_trans _ _ _ P Hx)) as [V F]. split; [exact F|].
rewrite V. apply abs_round_le_generic; auto with typeclass_instances.
apply generic_format_abs, fmt_R.
Qed.

Section Bounds.
Context (L : libm).

(* |a . b| <= fl(|a||b|) *)
Lemma dot_bound a b : cos_range L -> fin (fmul (mag a) (mag b)) ->
  Rabs (R_ (fmul (mag a) (mag b))) <= bpow radix2 1000 ->
  fin (dot_value L a b) /\ R_ (mag (dot L a b)) <= Rabs (R_ (fmul (mag a) (mag b))).
Proof.
intros HL Fm Bm. unfold dot_value.
destruct (HL (grade_angle (sub_vv (ang b) (ang a)))) as [Fc Bc].
destruct (fmul_contracts _ _ Fm Fc Bc Bm) as [Fv Bv]. split; [exact Fv|].
rewrite (dot_encoding L a b Fv). cbn [mag]. rewrite fabs_R. exact Bv.
Qed.

(* |tanh output| <= magnitude *)
Lemma tanh_activation_bound g : tanh_range L -> fin (mag g) -> Rabs (R_ (mag g)) <= bpow radix2 1000 ->
  Rabs (R_ (mag (activate L g Tanh))) <= Rabs (R_ (mag g)).
Proof.
intros HL Fm Bm. cbn [activate mag].
destruct (HL (cosF L (grade_angle (ang g)))) as [Ft Bt].
now destruct (fmul_contracts _ _ Fm Ft Bt Bm).
Qed.
End Bounds.

(* the range hypotheses are satisfiable *)
Lemma range_hyps_inhabited : exists L, cos_range L /\ tanh_range L.
Proof.
exists {| cosF := fun _ => one; sinF := fun _ => zero; asinF := fun _ => zero; acosF := fun _ => zero;
          expF := fun _ => one; tanhF := fun _ => zero; lnF := fun _ => zero;
          atan2F := fun _ _ => zero; powF := fun x _ => x |}.
split; intros x; cbn [cosF tanhF]; (split; [reflexivity|]).
- replace (R_ one) with 1 by (vm_compute one; unfold B2R, F2R; simpl; lra). rewrite Rabs_R1. lra.
- rewrite R_zero, Rabs_R0. lra.
Qed.
