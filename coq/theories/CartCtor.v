(* CartCtor: the Cartesian constructors reproduce the vector they are given (C02), REAL pi. *)
From Coq Require Import ZArith List Bool Reals Lra Lia Psatz.
From Flocq Require Import Core BinarySingleNaN.
Require Import GV.FloatBase GV.FloatLemmas GV.AngleM GV.AngleProofs GV.NewProofs GV.CtorProofs GV.GeonumM GV.GeonumProofs
  GV.ClosureProofs GV.SumUpper GV.PiBounds GV.TrigProofs GV.DotValue GV.DistValue GV.DirProofs GV.SumDir GV.ProdProofs.
Open Scope R_scope.

Lemma fast_path_one p : fast_path p one = false.
Proof. unfold fast_path. replace (feq one two) with false by (vm_compute; reflexivity). reflexivity. Qed.

(* Angle::new(at / PI, 1.0) for an atan2 result at in [-PI, PI]: canonical, at most one turn, and (REAL pi)
   pointing along at modulo whole turns within 1e-10 + 3e-14 *)
Lemma new_of_radians (at_ : F) : fin at_ -> Rabs (R_ at_) <= R_ PI ->
  let a := new (fdiv at_ PI) one in
  Canon a /\ (blade a <= 4)%Z /\
  exists J : Z, (0 <= J)%Z /\ Rabs (dirR a - (R_ at_ + 2 * Rtrigo1.PI * IZR J)) <= R_ eps10 + 3 / 100000000000000.
Proof.
intros Fa Ba a. destruct PIval as [VP FP]. destruct one_R as [V1 F1].
assert (P : R_ PI = 14148475504056880 / 4503599627370496) by (rewrite VP, Qval; lra).
assert (Tiny : bpow radix2 (-1075) <= / 1267650600228229401496703205376).
{ apply Rle_trans with (bpow radix2 (-100)). apply bpow_le; lia. simpl. lra. }
pose proof (bpow_gt_0 radix2 (-1075)) as Tp.
rewrite P in Ba. pose proof (Rabs_le_inv _ _ Ba) as Ba'.
(* p = at / PI *)
destruct (fdiv_R at_ PI Fa) as [Vp Fp]. { rewrite P; lra. }
{ apply small_le_1000. rewrite P. apply Rabs_div_le; lra. }
rewrite P in Vp. pose proof (rnd_rel (R_ at_ / (14148475504056880 / 4503599627370496))) as Ep. rewrite <- Vp in Ep.
assert (Qb : Rabs (R_ at_ / (14148475504056880 / 4503599627370496)) <= 1) by (apply Rabs_div_le; lra).
set (p := fdiv at_ PI) in *.
assert (Pb : Rabs (R_ p) <= 2).
{ replace (R_ p) with ((R_ p - R_ at_ / (14148475504056880 / 4503599627370496)) + R_ at_ / (14148475504056880 / 4503599627370496)) by ring.
  eapply Rle_trans; [apply Rabs_triang|]. lra. }
(* m = p * PI *)
destruct (fmul_R p PI Fp FP) as [Vm Fm]. { apply small_le_1000. rewrite P, Rabs_mult, (Rabs_pos_eq (14148475504056880 / 4503599627370496)) by lra. pose proof (Rabs_pos (R_ p)). lra. }
rewrite P in Vm. pose proof (rnd_rel (R_ p * (14148475504056880 / 4503599627370496))) as Em. rewrite <- Vm in Em.
rewrite Rabs_mult, (Rabs_pos_eq (14148475504056880 / 4503599627370496)) in Em by lra.
set (m := fmul p PI) in *.
assert (MA : Rabs (R_ m - R_ at_) <= 2 / 1000000000000000).
{ replace (R_ m - R_ at_) with ((R_ m - R_ p * (14148475504056880 / 4503599627370496)) + (R_ p - R_ at_ / (14148475504056880 / 4503599627370496)) * (14148475504056880 / 4503599627370496)) by (field; lra).
  eapply Rle_trans; [apply Rabs_triang|]. rewrite Rabs_mult, (Rabs_pos_eq (14148475504056880 / 4503599627370496)) by lra.
  pose proof (Rabs_pos (R_ p)). pose proof (Rabs_pos (R_ p - R_ at_ / (14148475504056880 / 4503599627370496))). nra. }
assert (Mb : Rabs (R_ m) <= 4).
{ replace (R_ m) with ((R_ m - R_ at_) + R_ at_) by ring. eapply Rle_trans; [apply Rabs_triang|]. lra. }
(* t = m / 1 = m *)
destruct (fdiv_R m one Fm) as [Vt Ft]. { rewrite V1; lra. }
{ apply small_le_1000. rewrite V1. unfold Rdiv. rewrite Rinv_1, Rmult_1_r. lra. }
rewrite V1 in Vt. unfold Rdiv in Vt. rewrite Rinv_1, Rmult_1_r in Vt. rewrite round_generic in Vt by (auto with typeclass_instances; apply fmt_R).
change (fdiv m one) with (total_angle p one) in Vt, Ft.
assert (Bt : Rabs (R_ (total_angle p one)) <= bpow radix2 42).
{ rewrite Vt. apply Rle_trans with 4; [exact Mb|]. change 4 with (bpow radix2 2). apply bpow_le; lia. }
assert (T4 : R_ (total_angle p one) <= 4) by (rewrite Vt; apply Rabs_le_inv in Mb; lra).
split; [exact (new_canon p one Ft Bt)|].
destruct (new_blade_upper p one (fast_path_one p) Ft Bt T4) as [U4 _]. split; [exact U4|].
destruct (new_dirR p one (fast_path_one p) Ft Bt) as (J & J0 & ED). exists J. split; [exact J0|].
fold a in ED. rewrite Vt in ED.
assert (TA : Rabs (R_ m) / 1000000000000000 <= 4 / 1000000000000000) by (unfold Rdiv; apply Rmult_le_compat_r; lra).
replace (dirR a - (R_ at_ + 2 * Rtrigo1.PI * IZR J)) with ((dirR a - (R_ m + 2 * Rtrigo1.PI * IZR J)) + (R_ m - R_ at_)) by ring.
eapply Rle_trans; [apply Rabs_triang|]. lra.
Qed.

Section Cart.
Context (L : libm) (u2 : R).

(* C02: Angle::new_from_cartesian(x, y) points along (x, y): its cosine and sine (REAL pi) are those of an
   angle theta with (x, y) = r (cos theta, sin theta), within u2 + 1e-10 + 3e-14 *)
Lemma new_from_cartesian_dir x y : atan2_acc L u2 -> fin x -> fin y ->
  let a := new_from_cartesian L x y in
  Canon a /\ (blade a <= 4)%Z /\
  exists theta, R_ x = sqrt (R_ x * R_ x + R_ y * R_ y) * cos theta /\ R_ y = sqrt (R_ x * R_ x + R_ y * R_ y) * sin theta /\
    Rabs (cos (dirR a) - cos theta) <= u2 + R_ eps10 + 3 / 100000000000000 /\
    Rabs (sin (dirR a) - sin theta) <= u2 + R_ eps10 + 3 / 100000000000000.
Proof.
intros HA Fx Fy a. destruct (HA y x Fy Fx) as (Fat & Bat & th & Eth & Xc & Ys).
destruct (new_of_radians _ Fat Bat) as (Cn & B4 & J & J0 & ED).
unfold a, new_from_cartesian. split; [exact Cn|]. split; [exact B4|].
exists th. split; [exact Xc|]. split; [exact Ys|].
set (phi := dirR (new (fdiv (atan2F L y x) PI) one)) in *.
assert (PD : Rabs (phi - (th + 2 * IZR J * Rtrigo1.PI)) <= u2 + R_ eps10 + 3 / 100000000000000).
{ replace (phi - (th + 2 * IZR J * Rtrigo1.PI)) with ((phi - (R_ (atan2F L y x) + 2 * Rtrigo1.PI * IZR J)) + (R_ (atan2F L y x) - th)) by ring.
  eapply Rle_trans; [apply Rabs_triang|]. lra. }
split.
- rewrite <- (cos_period th (Z.to_nat J)). rewrite INR_IZR_INZ, Z2Nat.id by exact J0. eapply Rle_trans; [apply cos_lip|exact PD].
- rewrite <- (sin_period th (Z.to_nat J)). rewrite INR_IZR_INZ, Z2Nat.id by exact J0. eapply Rle_trans; [apply sin_lip|exact PD].
Qed.

(* sqrt(x*x + y*y) in floating point, away from underflow: relative error 6*2^-53 *)
Lemma hypot_value x y : fin (fsqrt (fadd (fmul x x) (fmul y y))) -> fin (fadd (fmul x x) (fmul y y)) ->
  bpow radix2 (-1000) <= R_ x * R_ x + R_ y * R_ y ->
  let r := sqrt (R_ x * R_ x + R_ y * R_ y) in
  Rabs (R_ (fsqrt (fadd (fmul x x) (fmul y y))) - r) <= 6 * / 9007199254740992 * r.
Proof.
intros Fq Fs HD r.
destruct (fadd_fin_R _ _ Fs) as (F1 & F2 & Vs).
destruct (fmul_fin_R _ _ F1) as (_ & _ & V1). destruct (fmul_fin_R _ _ F2) as (_ & _ & V2).
set (A := R_ x * R_ x) in *. set (B := R_ y * R_ y) in *. set (D := A + B) in *.
assert (A0 : 0 <= A) by (unfold A; nra). assert (B0 : 0 <= B) by (unfold B; nra).
pose proof (bpow_gt_0 radix2 (-1000)) as H1000. pose proof (bpow_gt_0 radix2 (-1075)) as Hp.
assert (ETA : bpow radix2 (-1075) <= / 9007199254740992 * / 1048576 * D).
{ apply Rle_trans with (/ 9007199254740992 * / 1048576 * bpow radix2 (-1000)); [|apply Rmult_le_compat_l; lra].
  replace (/ 9007199254740992 * / 1048576) with (bpow radix2 (-73)) by (simpl; lra). rewrite <- bpow_plus. apply bpow_le. lia. }
set (eta := bpow radix2 (-1075)) in *.
pose proof (rnd_rel A) as E1. rewrite (Rabs_pos_eq _ A0) in E1. pose proof (rnd_ge0 _ A0) as T1.
pose proof (rnd_rel B) as E2. rewrite (Rabs_pos_eq _ B0) in E2. pose proof (rnd_ge0 _ B0) as T2.
rewrite <- V1 in E1, T1. rewrite <- V2 in E2, T2.
set (t1 := R_ (fmul x x)) in *. set (t2 := R_ (fmul y y)) in *.
assert (T12 : 0 <= t1 + t2) by lra.
pose proof (rnd_rel (t1 + t2)) as Es. rewrite (Rabs_pos_eq _ T12) in Es. pose proof (rnd_ge0 _ T12) as Ts. rewrite <- Vs in Es, Ts.
set (Rd := R_ (fadd (fmul x x) (fmul y y))) in *.
fold eta in E1, E2, Es.
apply Rabs_le_inv in E1. apply Rabs_le_inv in E2. apply Rabs_le_inv in Es.
assert (DD : D = A + B) by reflexivity.
assert (RD : Rabs (Rd - D) <= 4 * / 9007199254740992 * D) by (apply Rabs_le; lra).
(* sqrt *)
assert (Fin0 : 0 <= Rd) by exact Ts.
generalize (Bsqrt_correct prec emax Hprec Hmax mode_NE (fadd (fmul x x) (fmul y y))). intros (Vq & _ & _).
change (Bsqrt mode_NE (fadd (fmul x x) (fmul y y))) with (fsqrt (fadd (fmul x x) (fmul y y))) in Vq.
change (round radix2 (SpecFloat.fexp prec emax) (round_mode mode_NE) (sqrt (R_ (fadd (fmul x x) (fmul y y))))) with (rnd (sqrt Rd)) in Vq.
rewrite Vq.
assert (Dp : 0 < D) by lra.
set (a := sqrt Rd). set (b := sqrt D). fold b in r. unfold r.
assert (a0 : 0 <= a) by apply sqrt_pos. assert (bp : 0 < b) by (apply sqrt_lt_R0; exact Dp).
assert (aa : a * a = Rd) by (apply sqrt_sqrt; exact Fin0). assert (bb : b * b = D) by (apply sqrt_sqrt; lra).
assert (AB : Rabs (a - b) <= 4 * / 9007199254740992 * b).
{ apply Rabs_le_inv in RD. rewrite <- aa, <- bb in RD. apply Rabs_le. split.
  - apply Rmult_le_reg_r with (a + b); [lra|]. nra.
  - apply Rmult_le_reg_r with (a + b); [lra|]. nra. }
pose proof (rnd_rel a) as Ea. rewrite (Rabs_pos_eq _ a0) in Ea. fold eta in Ea.
assert (ETb : eta <= / 9007199254740992 * / 1024 * b).
{ (* eta <= 2^-73 D = 2^-73 b*b and b >= 2^-500 ... use b <= 1 or b >= 1 *)
  destruct (Rle_lt_dec 1 b) as [G|S].
  - apply Rle_trans with (/ 9007199254740992 * / 1048576 * 1).
    + apply Rle_trans with (bpow radix2 (-73)); [unfold eta; apply bpow_le; lia|]. simpl. lra.
    + nra.
  - (* b < 1: b*b <= b *) assert (D <= b) by nra. nra. }
apply Rabs_le_inv in AB. apply Rabs_le_inv in Ea. apply Rabs_le. lra.
Qed.

(* C02: Geonum::new_from_cartesian(x, y) reproduces the vector (x, y), REAL pi / cos / sin *)
Lemma gnew_from_cartesian_value x y : atan2_acc L u2 -> fin x -> fin y ->
  fin (fsqrt (fadd (fmul x x) (fmul y y))) -> fin (fadd (fmul x x) (fmul y y)) ->
  bpow radix2 (-1000) <= R_ x * R_ x + R_ y * R_ y ->
  let g := gnew_from_cartesian L x y in
  let r := sqrt (R_ x * R_ x + R_ y * R_ y) in
  let T := r * (6 * / 9007199254740992 + u2 + R_ eps10 + 3 / 100000000000000) in
  Canon (ang g) /\ Rabs (R_ (mag g) * cos (dirR (ang g)) - R_ x) <= T /\ Rabs (R_ (mag g) * sin (dirR (ang g)) - R_ y) <= T.
Proof.
intros HA Fx Fy Fq Fs HD g r T.
destruct (new_from_cartesian_dir x y HA Fx Fy) as (Cn & _ & th & Xc & Ys & Ec & Es).
pose proof (hypot_value x y Fq Fs HD) as Em. fold r in Em, Xc, Ys.
unfold g, gnew_from_cartesian. cbn [mag ang]. split; [exact Cn|].
set (m := R_ (fsqrt (fadd (fmul x x) (fmul y y)))) in *. set (phi := dirR (new_from_cartesian L x y)) in *.
assert (r0 : 0 <= r) by apply sqrt_pos.
pose proof (COS_bound phi) as CP. pose proof (SIN_bound phi) as SP.
assert (TT : T = 6 * / 9007199254740992 * r + r * (u2 + R_ eps10 + 3 / 100000000000000)) by (unfold T; ring).
rewrite TT. split.
- replace (m * cos phi - R_ x) with ((m - r) * cos phi + r * (cos phi - cos th)) by (rewrite Xc; ring).
  eapply Rle_trans; [apply Rabs_triang|]. rewrite !Rabs_mult, (Rabs_pos_eq r) by exact r0.
  assert (Rabs (cos phi) <= 1) by (apply Rabs_le; lra).
  pose proof (Rabs_pos (m - r)). pose proof (Rabs_pos (cos phi - cos th)). pose proof (Rabs_pos (cos phi)).
  assert (Q1 : Rabs (m - r) * Rabs (cos phi) <= 6 * / 9007199254740992 * r) by nra.
  assert (Q2 : r * Rabs (cos phi - cos th) <= r * (u2 + R_ eps10 + 3 / 100000000000000)) by (apply Rmult_le_compat_l; lra).
  lra.
- replace (m * sin phi - R_ y) with ((m - r) * sin phi + r * (sin phi - sin th)) by (rewrite Ys; ring).
  eapply Rle_trans; [apply Rabs_triang|]. rewrite !Rabs_mult, (Rabs_pos_eq r) by exact r0.
  assert (Rabs (sin phi) <= 1) by (apply Rabs_le; lra).
  pose proof (Rabs_pos (m - r)). pose proof (Rabs_pos (sin phi - sin th)). pose proof (Rabs_pos (sin phi)).
  assert (Q1 : Rabs (m - r) * Rabs (sin phi) <= 6 * / 9007199254740992 * r) by nra.
  assert (Q2 : r * Rabs (sin phi - sin th) <= r * (u2 + R_ eps10 + 3 / 100000000000000)) by (apply Rmult_le_compat_l; lra).
  lra.
Qed.
End Cart.
