(* ClosureProofs: special values under minimal explicit libm hypotheses (C09, C10) and closure of
   canonical angles under every Geonum operation (C01). *)
From Coq Require Import ZArith List Bool Reals Lra Lia.
From Flocq Require Import Core BinarySingleNaN.
Require Import GV.FloatBase GV.FloatLemmas GV.AngleM GV.AngleProofs GV.GeonumM GV.GeonumProofs GV.NewProofs GV.CtorProofs.
Open Scope R_scope.

(* ---- explicit, minimal libm hypotheses used by the special-value theorems ---- *)
Definition cos_zero_one (L : libm) : Prop := cosF L zero = one.
Definition sin_zero_zero (L : libm) : Prop := sinF L zero = zero.

Lemma grade_angle_zero : grade_angle {| rem := zero; blade := 0 |} = zero.
Proof. vm_compute. reflexivity. Qed.

Lemma fabs_id x : Bsign x = false -> fabs x = x.
Proof. destruct x as [s|s| |s m e H]; simpl; intros E; try rewrite E; reflexivity. Qed.

Lemma fmul_self_nonneg x : fin (fmul x x) -> Bsign (fmul x x) = false /\ 0 <= R_ (fmul x x).
Proof.
intros Fm. unfold fmul in *.
generalize (Bmult_correct prec emax _ _ mode_NE x x).
destruct (Rlt_bool _ _).
- intros (V & _ & S). split.
  + rewrite S by (now apply fin_not_nan). apply xorb_nilpotent.
  + rewrite V. apply rnd_ge0_mode. apply Rle_0_sqr.
- intros V. exfalso. unfold fin in Fm. destruct (Bmult mode_NE x x); try discriminate; simpl in V; unfold binary_overflow in V; simpl in V; try discriminate;
    destruct (overflow_to_inf _ _); discriminate.
Qed.

Section Special.
Context (L : libm).

(* a . a = |a|^2 at angle exactly 0 *)
Lemma dot_self a : cos_zero_one L -> fin (rem (ang a)) -> fin (fmul (mag a) (mag a)) ->
  dot L a a = {| mag := fmul (mag a) (mag a); ang := {| rem := zero; blade := 0 |} |}.
Proof.
intros HL Fr Fm.
assert (E : dot_value L a a = fmul (mag a) (mag a)).
{ unfold dot_value, sub_vv. rewrite (geometric_sub_self _ Fr), grade_angle_zero, HL. now apply fmul_one_r. }
destruct (fmul_self_nonneg _ Fm) as [S P].
rewrite dot_encoding by (rewrite E; exact Fm). rewrite E.
rewrite Rlt_bool_false by exact P. now rewrite (fabs_id _ S).
Qed.

(* identical angles: the wedge vanishes exactly *)
Lemma wedge_parallel a b : sin_zero_zero L -> fin (rem (ang a)) -> ang b = ang a ->
  fin (fmul (mag a) (mag b)) -> R_ (mag (wedge L a b)) = 0.
Proof.
intros HL Fr Eb Fm. destruct (wedge_spec L a b) as [M _]. rewrite M. clear M.
unfold sub_vv. rewrite Eb, (geometric_sub_self _ Fr), grade_angle_zero, HL.
replace (fabs zero) with zero by reflexivity.
generalize (Bmult_correct prec emax _ _ mode_NE (fmul (mag a) (mag b)) zero).
change (B2R zero) with 0. rewrite Rmult_0_r, round_0 by auto with typeclass_instances.
rewrite Rabs_R0, Rlt_bool_true by apply bpow_gt_0. intros (V & _). exact V.
Qed.

End Special.


(* non-vacuity of the two special-value hypotheses: a (trivial, computable) libm satisfies both *)
Definition trivial_libm : libm :=
  {| cosF := fun _ => one; sinF := fun _ => zero; asinF := fun _ => zero; acosF := fun _ => zero;
     expF := fun _ => one; tanhF := fun _ => zero; lnF := fun _ => zero;
     atan2F := fun _ _ => zero; powF := fun x _ => x |}.
Lemma special_hyps_inhabited : cos_zero_one trivial_libm /\ sin_zero_zero trivial_libm.
Proof. split; reflexivity. Qed.

(* ================= canonical angles are closed under the Geonum operations ================= *)
Lemma nwb_k_0_1 k : (0 <= k < 2 ^ 53)%Z -> new_with_blade k zero one = {| rem := zero; blade := k |}.
Proof.
intros Hk. unfold new_with_blade, add_vv. rewrite new_0_1, (new_quarter_turns k Hk).
unfold geometric_add. cbn [rem blade].
replace (feq (fadd zero zero) zero) with true by (vm_compute; reflexivity). reflexivity.
Qed.

Section Closure.
Context (L : libm).

Definition CanonG (g : geonum) : Prop := Canon (ang g).

Lemma Canon_steps a a' k : Canon a -> (0 <= k)%Z -> steps_to a a' k -> Canon a'.
Proof. exact (Canon_step a a' k). Qed.

(* operations that do not touch libm *)
Lemma closure_pure g h r f : CanonG g -> CanonG h -> Canon r -> fin f ->
  CanonG (gmul_vv g h) /\ CanonG (grotate g r) /\ CanonG (gscale g f) /\ CanonG (gnegate g) /\
  CanonG (gdual g) /\ CanonG (gundual g) /\ CanonG (differentiate g) /\ CanonG (integrate g) /\
  CanonG (increment_blade g) /\ CanonG (decrement_blade g) /\ CanonG (gbase_angle g) /\
  CanonG (reflect g h) /\ CanonG (scale_rotate g f r) /\
  (forall i, inv g = Some i -> CanonG i) /\ (forall q, gdiv_vv g h = Some q -> CanonG q).
Proof.
intros Cg Ch Cr Ff. unfold CanonG in *.
pose proof (gstep_specs g (proj1 Cg)) as (S1 & S2 & S3 & S4 & S5 & S6 & S7).
assert (Neg : Canon (negate (ang g))) by (apply (Canon_steps (ang g) _ 2 Cg ltac:(lia)); apply negate_step, Cg).
split. { cbn [gmul_vv ang]. unfold add_vv. now apply Canon_add. }
split. { cbn [grotate ang]. unfold rotate, add_vv. now apply Canon_add. }
split. { destruct (gscale_spec g f Ff (proj1 Cg)) as [_ S]. destruct (Rle_bool 0 (R_ f)); [apply (Canon_steps (ang g) _ 0 Cg ltac:(lia) S)|apply (Canon_steps (ang g) _ 2 Cg ltac:(lia) S)]. }
split. { apply (Canon_steps (ang g) _ 2 Cg ltac:(lia)). apply S3. }
split. { apply (Canon_steps (ang g) _ 2 Cg ltac:(lia)). apply S1. }
split. { apply (Canon_steps (ang g) _ 2 Cg ltac:(lia)). apply S2. }
split. { apply (Canon_steps (ang g) _ 1 Cg ltac:(lia)). apply S4. }
split. { apply (Canon_steps (ang g) _ 3 Cg ltac:(lia)). apply S6. }
split. { apply (Canon_steps (ang g) _ 1 Cg ltac:(lia)). apply S5. }
split. { apply (Canon_steps (ang g) _ 3 Cg ltac:(lia)). apply S7. }
split. { apply steps_closed. exact Cg. }
split. { destruct (reflect_spec g h (proj1 Cg) Ch) as (_ & C & B). split; [exact C|]. destruct Ch as [_ Bh]. lia. }
split. { rewrite scale_rotate_spec. destruct (flt f zero); cbn [ang]; unfold add_vv; now apply Canon_add. }
split.
- intros i Hi. destruct (inv_spec g) as [_ H]. destruct (H i Hi) as [_ E]. rewrite E. exact Neg.
- intros q Hq. unfold gdiv_vv, omap in Hq. destruct (inv h) as [ih|] eqn:E; [|discriminate]. inversion Hq; subst.
  cbn [gmul_vv ang]. unfold add_vv. apply Canon_add; [exact Cg|].
  destruct (inv_spec h) as [_ H]. destruct (H ih E) as [_ E2]. rewrite E2.
  apply (Canon_steps (ang h) _ 2 Ch ltac:(lia)). apply negate_step, Ch.
Qed.

(* operations whose angle is fixed by a sign encoding: canonical whatever libm returns *)
Lemma closure_encoded g h a : CanonG g -> CanonG h -> Canon a -> (blade (ang g) < 2 ^ 53)%Z ->
  CanonG (distance_to L g h) /\ CanonG (project_to_angle L g a) /\
  (fin (dot_value L g h) -> CanonG (dot L g h)) /\
  (fin (cosF L (grade_angle a)) -> CanonG (gcos L a)) /\
  (fin (sinF L (grade_angle a)) -> CanonG (gsin L a)) /\
  CanonG (wedge L g h) /\ CanonG (gproject L g h) .
Proof.
intros Cg Ch Ca Bg53. unfold CanonG in *.
assert (Z0 : forall k, (0 <= k)%Z -> Canon {| rem := zero; blade := k |}) by (intros k Hk; split; [apply canonp_zero|exact Hk]).
split. { destruct (distance_encoding L g h) as [E _]. rewrite E. apply Z0; lia. }
split. { rewrite project_to_angle_enc. cbv zeta. destruct (fge _ zero); cbn [ang]; apply Z0; lia. }
split. { intros F. rewrite (dot_encoding L g h F). cbn [ang]. destruct (Rlt_bool _ 0); apply Z0; lia. }
split. { intros F. rewrite (gcos_encoding L a F). cbn [ang]. destruct (Rlt_bool _ 0); apply Z0; lia. }
split. { intros F. rewrite (gsin_encoding L a F). cbn [ang]. destruct (Rlt_bool _ 0); apply Z0; lia. }
split. { destruct (wedge_blades L g h (proj1 Cg) (proj1 Ch)) as [C B]. split; [exact C|]. destruct Cg as [_ Bg], Ch as [_ Bh]. lia. }
destruct (gproject_struct L g h) as [P1 P2].
destruct (flt (fabs (mag h)) EPSILON) eqn:E.
- rewrite (P1 eq_refl). cbn [ang]. rewrite nwb_k_0_1 by (destruct Cg; lia). apply Z0. destruct Cg; lia.
- rewrite (P2 eq_refl). cbv zeta. cbn [ang]. destruct (fge _ zero); [exact Ch|].
  unfold add_vv. rewrite new_1_1. apply (Canon_steps (ang h) _ 2 Ch ltac:(lia)). apply step_by_k, Ch.
Qed.

(* Geonum + Geonum: canonical on every path *)
Lemma closure_gadd g h : CanonG g -> CanonG h -> (blade (ang g) + blade (ang h) < 2 ^ 53)%Z ->
  (aeqb (ang g) (ang h) = false ->
   aeqb (add_vv (ang g) (new one one)) (ang h) || aeqb (add_vv (ang h) (new one one)) (ang g) = false ->
   fin (total_angle (sum_adjusted L g h) PI) /\ Rabs (R_ (total_angle (sum_adjusted L g h) PI)) <= bpow radix2 42) ->
  CanonG (gadd_vv L g h).
Proof.
intros Cg Ch Hc Hgen. unfold CanonG in *.
destruct Cg as [Cg Bg]. destruct Ch as [Ch Bh].
destruct (gadd_paths L g h) as (P1 & P2 & _).
destruct (aeqb (ang g) (ang h)) eqn:E1.
- rewrite (P1 eq_refl). split; assumption.
- destruct (aeqb (add_vv (ang g) (new one one)) (ang h) || aeqb (add_vv (ang h) (new one one)) (ang g)) eqn:E2.
  + rewrite (P2 eq_refl eq_refl). cbv zeta.
    destruct (flt _ EPSILON).
    * cbn [ang]. rewrite nwb_k_0_1 by lia. split; [apply canonp_zero|cbn [blade]; lia].
    * destruct (fgt _ zero); cbn [ang]; split; assumption.
  + destruct (Hgen eq_refl eq_refl) as [Ft Bt].
    destruct (gadd_general_history L g h E1 E2 ltac:(lia) Ft Bt) as [C B]. split; [exact C|lia].
Qed.
End Closure.
