(* CollM: /repo/src/geocollection.rs as functions on `list geonum`
   (Vec<Geonum> is modelled by list; std's iterator plumbing is modelled by
   filter / map / fold_left). *)
From Coq Require Import ZArith List Bool.
From Flocq Require Import Core BinarySingleNaN.
Require Import GV.FloatBase GV.AngleM GV.GeonumM.
Import ListNotations.
Open Scope Z_scope.

Definition coll := list geonum.

Definition cnew : coll := [].
Definition clen (c : coll) : Z := Z.of_nat (length c).
Definition cis_empty (c : coll) : bool := match c with [] => true | _ => false end.
Definition citer (c : coll) : list geonum := c.
Definition cfrom (v : list geonum) : coll := v.
Definition cfrom_iter (v : list geonum) : coll := v.
(* Index<usize>: None models the out-of-bounds panic of Vec indexing *)
Definition cindex (c : coll) (i : Z) : option geonum :=
  if (i <? 0) || (Z.of_nat (length c) <=? i) then None else nth_error c (Z.to_nat i).
Definition cinto_iter (c : coll) : list geonum := c.
Definition cas_ref (c : coll) : list geonum := c.

Definition truncate (c : coll) (threshold : F) : coll :=
  filter (fun g => fgt (mag g) threshold) c.

Section WithLibm.
Context (L : libm).

Definition cone_pred (direction : geonum) (half_angle : F) (g : geonum) : bool :=
  let magnitude := fmul (mag g) (mag direction) in
  if feq magnitude zero then false
  else
    let d := dot L g direction in
    let signed_cos := fmul (fdiv (mag d) magnitude) (aproject L (ang d) (new zero one)) in
    let angle_between := acosF L (fclamp signed_cos (fneg one) one) in
    fle angle_between half_angle.

Definition select_cone (c : coll) (direction : geonum) (half_angle : F) : coll :=
  filter (cone_pred direction half_angle) c.

(* Iterator::sum::<f64>() starts from -0.0 *)
Definition total_magnitude (c : coll) : F :=
  fold_left (fun acc g => fadd acc (mag g)) c nzero.

(* Iterator::max_by = reduce(|x, y| if cmp(x,y) == Greater { x } else { y });
   outer None = the panic of partial_cmp().unwrap() on NaN *)
Definition dominant (c : coll) : option (option geonum) :=
  match c with
  | [] => Some None
  | x :: rest =>
      omap Some
        (fold_left (fun acc y =>
                      obind acc (fun x =>
                        match fcmp (mag x) (mag y) with
                        | None => None
                        | Some Gt => Some x
                        | Some _ => Some y
                        end)) rest (Some x))
  end.

Definition scale_all (c : coll) (factor : F) : coll := map (fun g => gscale g factor) c.
Definition rotate_all (c : coll) (rotation : angle) : coll := map (fun g => grotate g rotation) c.

End WithLibm.
