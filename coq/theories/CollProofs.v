(* CollProofs: GeoCollection operations as exact filters and element-wise maps (C17). *)
From Coq Require Import ZArith List Bool Reals Lra Lia.
From Flocq Require Import Core BinarySingleNaN.
Require Import GV.FloatBase GV.FloatLemmas GV.AngleM GV.GeonumM GV.CollM GV.OrderProofs.
Import ListNotations.
Open Scope R_scope.

(* order-preserving sub-list *)
Inductive Subseq {A} : list A -> list A -> Prop :=
| sub_nil : Subseq [] []
| sub_skip x l l' : Subseq l l' -> Subseq l (x :: l')
| sub_keep x l l' : Subseq l l' -> Subseq (x :: l) (x :: l').

Lemma filter_subseq {A} (p : A -> bool) l : Subseq (filter p l) l.
Proof. induction l as [|x t IH]; simpl. constructor. destruct (p x); now constructor. Qed.

Section WithLibm.
Context (L : libm).

(* truncate keeps exactly the members strictly above the threshold, in order *)
Lemma truncate_spec c t :
  truncate c t = filter (fun g => fgt (mag g) t) c /\
  Subseq (truncate c t) c /\
  (forall g, In g (truncate c t) <-> In g c /\ fgt (mag g) t = true).
Proof.
split; [reflexivity|]. split; [apply filter_subseq|]. intros g. unfold truncate. apply filter_In.
Qed.

Lemma truncate_strict c t g : fin (mag g) -> fin t ->
  (In g (truncate c t) <-> In g c /\ R_ t < R_ (mag g)).
Proof.
intros Fg Ft. destruct (truncate_spec c t) as (_&_&H). rewrite H. rewrite fgt_R by assumption.
split; intros [I C]; split; auto.
- destruct (Rlt_bool_spec (R_ t) (R_ (mag g))); [assumption|discriminate].
- now apply Rlt_bool_true.
Qed.

(* cone selection is a filter; zero-magnitude members and zero axes are never selected *)
Lemma select_cone_spec c d h :
  select_cone L c d h = filter (cone_pred L d h) c /\
  Subseq (select_cone L c d h) c /\
  (forall g, In g (select_cone L c d h) <-> In g c /\ cone_pred L d h g = true).
Proof.
split; [reflexivity|]. split; [apply filter_subseq|]. intros g. unfold select_cone. apply filter_In.
Qed.

Lemma cone_excludes_zero d h g : cone_pred L d h g = true -> feq (fmul (mag g) (mag d)) zero = false.
Proof. unfold cone_pred. destruct (feq (fmul (mag g) (mag d)) zero); [discriminate|reflexivity]. Qed.

(* element-wise maps: length and order preserved *)
Lemma scale_all_spec c f :
  scale_all c f = map (fun g => gscale g f) c /\ length (scale_all c f) = length c /\
  (forall i, nth_error (scale_all c f) i = option_map (fun g => gscale g f) (nth_error c i)).
Proof.
split; [reflexivity|]. split; [apply map_length|]. intros i. unfold scale_all. apply nth_error_map.
Qed.

Lemma rotate_all_spec c r :
  rotate_all c r = map (fun g => grotate g r) c /\ length (rotate_all c r) = length c /\
  (forall i, nth_error (rotate_all c r) i = option_map (fun g => grotate g r) (nth_error c i)).
Proof.
split; [reflexivity|]. split; [apply map_length|]. intros i. unfold rotate_all. apply nth_error_map.
Qed.

Lemma total_magnitude_spec c : total_magnitude c = fold_left (fun acc g => fadd acc (mag g)) c nzero.
Proof. reflexivity. Qed.

(* dominant: None exactly when empty; otherwise a member none of whose fellows is larger *)
Lemma dominant_fold rest x0 :
  fin (mag x0) -> Forall (fun g => fin (mag g)) rest ->
  exists d, fold_left (fun acc y => obind acc (fun x =>
                match fcmp (mag x) (mag y) with
                | None => None | Some Gt => Some x | Some _ => Some y end)) rest (Some x0) = Some d
            /\ In d (x0 :: rest) /\ fin (mag d) /\ R_ (mag x0) <= R_ (mag d)
            /\ Forall (fun g => R_ (mag g) <= R_ (mag d)) rest.
Proof.
revert x0. induction rest as [|y t IH]; intros x0 F0 Fr.
- exists x0. simpl. repeat split; auto. lra.
- inversion Fr as [|? ? Fy Ft]; subst. simpl. rewrite fcmp_R by assumption.
  destruct (Rcompare_spec (R_ (mag x0)) (R_ (mag y))) as [Hc|Hc|Hc].
  + destruct (IH y Fy Ft) as (d & E & I & Fd & Ld & Fa). exists d. rewrite E.
    split; [reflexivity|]. split; [destruct I; [right; left; assumption|right; right; assumption]|].
    split; [assumption|]. split; [lra|]. constructor; assumption.
  + destruct (IH y Fy Ft) as (d & E & I & Fd & Ld & Fa). exists d. rewrite E.
    split; [reflexivity|]. split; [destruct I; [right; left; assumption|right; right; assumption]|].
    split; [assumption|]. split; [lra|]. constructor; assumption.
  + destruct (IH x0 F0 Ft) as (d & E & I & Fd & Ld & Fa). exists d. rewrite E.
    split; [reflexivity|]. split; [destruct I; [left; assumption|right; right; assumption]|].
    split; [assumption|]. split; [assumption|]. constructor; [lra|assumption].
Qed.

Lemma dominant_spec c : Forall (fun g => fin (mag g)) c ->
  (dominant c = Some None <-> c = []) /\
  (c <> [] -> exists d, dominant c = Some (Some d) /\ In d c /\ Forall (fun g => R_ (mag g) <= R_ (mag d)) c).
Proof.
intros Fc. destruct c as [|x rest].
- split. split; reflexivity. intros H; contradiction H; reflexivity.
- inversion Fc as [|? ? Fx Fr]; subst.
  destruct (dominant_fold rest x Fx Fr) as (d & E & I & Fd & Ld & Fa).
  unfold dominant. rewrite E. simpl. split.
  + split; discriminate.
  + intros _. exists d. split; [reflexivity|]. split; [assumption|]. constructor; assumption.
Qed.

End WithLibm.

(* conversions, indexing and iteration preserve content and order *)
Lemma conversions_identity (v : list geonum) :
  cfrom v = v /\ cfrom_iter v = v /\ citer v = v /\ cinto_iter v = v /\ cas_ref v = v /\
  clen v = Z.of_nat (length v) /\ (cis_empty v = true <-> v = []).
Proof. repeat split; try reflexivity. destruct v; [reflexivity|discriminate]. intros ->; reflexivity. Qed.

Lemma cindex_spec (c : list geonum) i :
  cindex c i = if ((i <? 0) || (Z.of_nat (length c) <=? i))%Z then None else nth_error c (Z.to_nat i).
Proof. reflexivity. Qed.
