(* CommProofs: a + b and b + a carry the same angle on the general path (C14); Lagrange identity (C10). *)
From Coq Require Import ZArith List Bool Reals Lra Lia Psatz.
From Flocq Require Import Core BinarySingleNaN.
Require Import GV.FloatBase GV.FloatLemmas GV.AngleM GV.AngleProofs GV.NewProofs GV.CtorProofs GV.GeonumM GV.GeonumProofs
  GV.ClosureProofs GV.PiBounds GV.TrigProofs GV.DotValue GV.DirProofs.
Open Scope R_scope.

Section Comm.
Context (L : libm).

Lemma sum_adjusted_comm a b : sum_adjusted L a b = sum_adjusted L b a.
Proof.
unfold sum_adjusted.
rewrite (fadd_comm (fmul (mag a) (sinF L (grade_angle (ang a)))) (fmul (mag b) (sinF L (grade_angle (ang b))))).
rewrite (fadd_comm (fmul (mag a) (cosF L (grade_angle (ang a)))) (fmul (mag b) (cosF L (grade_angle (ang b))))).
rewrite (Z.add_comm (blade (ang a)) (blade (ang b))). reflexivity.
Qed.

(* C14: on the general path a + b and b + a carry bit-for-bit the same angle (blade history and remainder),
   for every libm and every operand *)
Lemma gadd_general_angle_comm a b : aeqb (ang a) (ang b) = false -> aeqb (ang b) (ang a) = false ->
  aeqb (add_vv (ang a) (new one one)) (ang b) || aeqb (add_vv (ang b) (new one one)) (ang a) = false ->
  ang (gadd_vv L a b) = ang (gadd_vv L b a).
Proof.
intros N1 N1' N2.
assert (N2' : aeqb (add_vv (ang b) (new one one)) (ang a) || aeqb (add_vv (ang a) (new one one)) (ang b) = false)
  by (rewrite orb_comm; exact N2).
rewrite (gadd_general_form L a b N1 N2), (gadd_general_form L b a N1' N2').
rewrite (sum_adjusted_comm a b), (Z.add_comm (blade (ang a)) (blade (ang b))). reflexivity.
Qed.
End Comm.

Section Lagrange.
Context (L : libm) (u : R).

(* C10: |a.b|^2 + |a^b|^2 = |a|^2 |b|^2 up to the value tolerances *)
Lemma lagrange a b : cos_acc L u -> sin_acc L u -> u <= / 1000 ->
  canonp (rem (ang a)) -> canonp (rem (ang b)) -> (0 <= blade (ang a))%Z -> (0 <= blade (ang b))%Z ->
  fin (dot_value L a b) -> fin (mag (wedge L a b)) ->
  let P := R_ (mag a) * R_ (mag b) in
  let e := Rabs P * (u + 10002 / 100000000000000) + bpow radix2 (-1073) in
  Rabs (R_ (dot_value L a b) * R_ (dot_value L a b) + R_ (mag (wedge L a b)) * R_ (mag (wedge L a b)) - P * P)
    <= 2 * e * (2 * Rabs P + e).
Proof.
intros HC HS Hu Ca Cb Ha Hb Fd Fw P e.
pose proof (dot_value_real L u a b HC Hu Ca Cb Ha Hb Fd) as Ed. fold P e in Ed.
pose proof (wedge_mag_value L u a b HS Hu Ca Cb Ha Hb Fw) as Ew. fold P e in Ew.
set (c := cos (dir (ang b) - dir (ang a))) in *. set (s := sin (dir (ang b) - dir (ang a))) in *.
set (d := R_ (dot_value L a b)) in *. set (w := R_ (mag (wedge L a b))) in *.
pose proof (sin2_cos2 (dir (ang b) - dir (ang a))) as PY. unfold Rsqr in PY. fold c s in PY.
pose proof (COS_bound (dir (ang b) - dir (ang a))) as CB. pose proof (SIN_bound (dir (ang b) - dir (ang a))) as SB. fold c in CB. fold s in SB.
assert (SS : Rabs s * Rabs s = s * s) by (rewrite <- Rabs_mult; apply Rabs_pos_eq; nra).
assert (ID : d * d + w * w - P * P = (d - P * c) * (d + P * c) + (w - P * Rabs s) * (w + P * Rabs s)) by nra.
rewrite ID.
assert (e0 : 0 <= e) by (pose proof (Rabs_pos (d - P * c)); lra).
assert (PP : 0 <= Rabs P) by apply Rabs_pos.
assert (B1 : Rabs (d + P * c) <= 2 * Rabs P + e).
{ replace (d + P * c) with ((d - P * c) + 2 * (P * c)) by ring. eapply Rle_trans; [apply Rabs_triang|].
  rewrite Rabs_mult, (Rabs_pos_eq 2) by lra. rewrite (Rabs_mult P c).
  assert (Rabs c <= 1) by (apply Rabs_le; lra). pose proof (Rabs_pos c). nra. }
assert (B2 : Rabs (w + P * Rabs s) <= 2 * Rabs P + e).
{ replace (w + P * Rabs s) with ((w - P * Rabs s) + 2 * (P * Rabs s)) by ring. eapply Rle_trans; [apply Rabs_triang|].
  rewrite Rabs_mult, (Rabs_pos_eq 2) by lra. rewrite (Rabs_mult P (Rabs s)), Rabs_Rabsolu.
  assert (Rabs s <= 1) by (apply Rabs_le; lra). pose proof (Rabs_pos s). nra. }
eapply Rle_trans; [apply Rabs_triang|]. rewrite !Rabs_mult.
pose proof (Rabs_pos (d - P * c)). pose proof (Rabs_pos (w - P * Rabs s)).
pose proof (Rabs_pos (d + P * c)). pose proof (Rabs_pos (w + P * Rabs s)).
assert (T1 : Rabs (d - P * c) * Rabs (d + P * c) <= e * (2 * Rabs P + e)) by (apply Rmult_le_compat; lra).
assert (T2 : Rabs (w - P * Rabs s) * Rabs (w + P * Rabs s) <= e * (2 * Rabs P + e)) by (apply Rmult_le_compat; lra).
lra.
Qed.
End Lagrange.
