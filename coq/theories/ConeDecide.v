(* ConeDecide: what select_cone DECIDES (C17), under an explicit accuracy premise on libm's acos: a kept member's unsigned
   angle to the axis is at most the half-angle, a dropped member's exceeds it - both in cosine form and up to the stated
   tolerances. *)
From Coq Require Import ZArith List Bool Reals Lra Lia Psatz.
From Flocq Require Import Core BinarySingleNaN.
Require Import GV.FloatBase GV.FloatLemmas GV.AngleM GV.AngleProofs GV.NewProofs GV.CtorProofs GV.GeonumM GV.GeonumProofs
  GV.CollM GV.CollProofs GV.TraitsM GV.TraitsProofs GV.BoundProofs GV.ClosureProofs GV.SumUpper GV.PiBounds GV.TrigProofs
  GV.DotValue GV.ProdProofs GV.DistValue GV.DirProofs GV.FieldProofs GV.ConeProofs GV.Atan2Ideal.
Open Scope R_scope.

(* acos accurate to ua on [-1, 1] *)
Definition acos_acc (L : libm) (ua : R) : Prop :=
  forall x, fin x -> -1 <= R_ x <= 1 -> fin (acosF L x) /\ Rabs (R_ (acosF L x) - acos (R_ x)) <= ua.

Lemma fclamp_unit x : fin x ->
  fin (fclamp x (fneg one) one) /\ -1 <= R_ (fclamp x (fneg one) one) <= 1 /\
  forall t, -1 <= t <= 1 -> Rabs (R_ (fclamp x (fneg one) one) - t) <= Rabs (R_ x - t).
Proof.
intros Fx. destruct one_R as [O1 F1].
assert (Fm : fin (fneg one)) by (apply fin_fneg; exact F1).
assert (Rm : R_ (fneg one) = -1) by (rewrite fneg_R, O1; reflexivity).
unfold fclamp. rewrite (flt_R x (fneg one) Fx Fm), Rm.
destruct (Rlt_bool_spec (R_ x) (-1)) as [Lo|Lo].
- rewrite (fgt_R (fneg one) one Fm F1), O1, Rm.
  destruct (Rlt_bool_spec 1 (-1)) as [Ab|_]; [lra|].
  split; [exact Fm|]. rewrite Rm. split; [lra|]. intros t Ht.
  unfold Rabs. destruct (Rcase_abs (-1 - t)), (Rcase_abs (R_ x - t)); lra.
- rewrite (fgt_R x one Fx F1), O1.
  destruct (Rlt_bool_spec 1 (R_ x)) as [Hi|Hi].
  + split; [exact F1|]. rewrite O1. split; [lra|]. intros t Ht.
    unfold Rabs. destruct (Rcase_abs (1 - t)), (Rcase_abs (R_ x - t)); lra.
  + split; [exact Fx|]. split; [lra|]. intros t Ht. lra.
Qed.

Section Decide.
Context (L : libm) (ua : R).
Hypothesis AC : acos_acc L ua.

(* the decision in cosine form, for ANY reference cosine c that the signed cosine approximates within e *)
Lemma cone_decision direction half g (c e : R) :
  fin half -> fin (cone_signed_cos L direction g) -> -1 <= c <= 1 ->
  Rabs (R_ (cone_signed_cos L direction g) - c) <= e ->
  feq (fmul (mag g) (mag direction)) zero = false ->
  (cone_pred L direction half g = true ->
     0 <= R_ half + ua /\ (R_ half + ua <= Rtrigo1.PI -> cos (R_ half + ua) - e <= c)) /\
  (cone_pred L direction half g = false ->
     R_ half - ua < Rtrigo1.PI /\ (0 <= R_ half - ua -> c < cos (R_ half - ua) + e)).
Proof.
intros Fh Fs Hc He Hz. rewrite cone_pred_unfold, Hz.
destruct (fclamp_unit _ Fs) as (Fc & Bc & Dc).
set (C := fclamp (cone_signed_cos L direction g) (fneg one) one) in *.
destruct (AC C Fc Bc) as [Fa Ea].
pose proof (acos_bound (R_ C)) as [A0 A1].
pose proof (cos_acos (R_ C) Bc) as CA.
pose proof (Dc c Hc) as Dc'.
assert (Cc : Rabs (R_ C - c) <= e) by lra.
apply Rabs_le_inv in Cc. apply Rabs_le_inv in Ea.
rewrite (fle_R _ _ Fa Fh).
split; intros K.
- destruct (Rle_bool_spec (R_ (acosF L C)) (R_ half)) as [Le|Gt]; [|discriminate K].
  split; [lra|]. intros Hp.
  assert (Hle : acos (R_ C) <= R_ half + ua) by lra.
  destruct (Rle_lt_or_eq_dec _ _ Hle) as [Hlt|Heq].
  + pose proof (cos_decreasing_1 (acos (R_ C)) (R_ half + ua) A0 A1 ltac:(lra) Hp Hlt). lra.
  + rewrite <- Heq. lra.
- destruct (Rle_bool_spec (R_ (acosF L C)) (R_ half)) as [Le|Gt]; [discriminate K|].
  split; [lra|]. intros Hp.
  assert (Hlt : R_ half - ua < acos (R_ C)) by lra.
  pose proof (cos_decreasing_1 (R_ half - ua) (acos (R_ C)) Hp ltac:(lra) A0 A1 Hlt). lra.
Qed.

(* with the REAL direction difference as the reference: e = 2.1 u + 2.01e-10 *)
Theorem cone_decides_angle (u : R) direction half g : cos_acc L u -> u <= / 1000 ->
  canonp (rem (ang g)) -> canonp (rem (ang direction)) -> (0 <= blade (ang g))%Z -> (0 <= blade (ang direction))%Z ->
  fin (dot_value L g direction) -> fin (cone_signed_cos L direction g) -> fin half ->
  bpow radix2 (-500) <= R_ (mag g) * R_ (mag direction) <= bpow radix2 500 ->
  feq (fmul (mag g) (mag direction)) zero = false ->
  let c := cos (dir (ang direction) - dir (ang g)) in
  let e := 21 / 10 * u + 201 / 1000000000000 in
  (cone_pred L direction half g = true ->
     0 <= R_ half + ua /\ (R_ half + ua <= Rtrigo1.PI -> cos (R_ half + ua) - e <= c)) /\
  (cone_pred L direction half g = false ->
     R_ half - ua < Rtrigo1.PI /\ (0 <= R_ half - ua -> c < cos (R_ half - ua) + e)).
Proof.
intros CA' Hu Cg Cd Bg Bd Fd Fs Fh Hm Hz c e.
apply cone_decision; try assumption.
- unfold c. pose proof (COS_bound (dir (ang direction) - dir (ang g))). lra.
- unfold c, e. eapply cone_signed_cos_value; eassumption.
Qed.

End Decide.

(* the premises are jointly satisfiable: correctly rounded real cos and acos *)
Definition ideal_libm3 : libm :=
  {| cosF := fun x => round_real (cos (R_ x)); sinF := fun x => round_real (sin (R_ x));
     asinF := fun _ => zero; acosF := fun x => round_real (acos (R_ x)); expF := fun _ => one; tanhF := fun _ => zero;
     lnF := fun _ => zero; atan2F := fun _ _ => zero; powF := fun x _ => x |}.

Lemma ideal3_hyps : cos_acc ideal_libm3 (/ 4503599627370496) /\ acos_acc ideal_libm3 (/ 1125899906842624) /\
  / 4503599627370496 <= / 1000.
Proof.
split; [|split; [|lra]].
- intros x _ _. cbn [ideal_libm3 cosF]. apply round_real_acc. apply Rabs_le. pose proof (COS_bound (R_ x)); lra.
- intros x _ _. cbn [ideal_libm3 acosF]. apply round_real_acc4.
  pose proof (acos_bound (R_ x)) as [A0 A1]. pose proof PI_4. apply Rabs_le. lra.
Qed.
