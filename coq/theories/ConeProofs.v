(* ConeProofs: the numeric reading of the cone predicate (C17): the signed cosine it feeds to acos is the cosine of the
   real direction difference. *)
From Coq Require Import ZArith List Bool Reals Lra Lia Psatz.
From Flocq Require Import Core BinarySingleNaN.
Require Import GV.FloatBase GV.FloatLemmas GV.AngleM GV.AngleProofs GV.NewProofs GV.CtorProofs GV.GeonumM GV.GeonumProofs
  GV.CollM GV.CollProofs GV.TraitsM GV.TraitsProofs GV.BoundProofs GV.ClosureProofs GV.SumUpper GV.PiBounds GV.TrigProofs
  GV.DotValue GV.ProdProofs GV.DistValue GV.DirProofs GV.FieldProofs.
Open Scope R_scope.

Definition cone_signed_cos (L : libm) (direction g : geonum) : F :=
  let magnitude := fmul (mag g) (mag direction) in
  let d := dot L g direction in
  fmul (fdiv (mag d) magnitude) (aproject L (ang d) (new zero one)).

Lemma cone_pred_unfold L direction half g :
  cone_pred L direction half g =
    if feq (fmul (mag g) (mag direction)) zero then false
    else fle (acosF L (fclamp (cone_signed_cos L direction g) (fneg one) one)) half.
Proof. reflexivity. Qed.


Section Cone.
Context (L : libm) (u : R).

(* C17: the signed cosine that select_cone feeds to acos is the cosine of the real direction difference between the
   member and the axis, within 2.1 u + 2.01e-10 (magnitude product in [2^-500, 2^500]) *)
Lemma cone_signed_cos_value direction g : cos_acc L u -> u <= / 1000 ->
  canonp (rem (ang g)) -> canonp (rem (ang direction)) -> (0 <= blade (ang g))%Z -> (0 <= blade (ang direction))%Z ->
  fin (dot_value L g direction) -> fin (cone_signed_cos L direction g) ->
  bpow radix2 (-500) <= R_ (mag g) * R_ (mag direction) <= bpow radix2 500 ->
  Rabs (R_ (cone_signed_cos L direction g) - cos (dir (ang direction) - dir (ang g)))
    <= 21 / 10 * u + 201 / 1000000000000.
Proof.
intros HL Hu Cg Cd Hg Hd Fdv Fsc [P0 P1]. unfold cone_signed_cos in *.
pose proof (dot_value_real L u g direction HL Hu Cg Cd Hg Hd Fdv) as Edv.
rewrite (dot_encoding L g direction Fdv) in *. cbn [mag ang] in *.
set (dv := dot_value L g direction) in *. set (C := cos (dir (ang direction) - dir (ang g))) in *.
set (P := R_ (mag g) * R_ (mag direction)) in *.
pose proof (bpow_gt_0 radix2 (-500)) as H500. assert (Pp : 0 < P) by lra.
rewrite (Rabs_pos_eq P) in Edv by lra.
assert (u0 : 0 <= u) by (apply (acc_u_nonneg L u); now left).
pose proof (COS_bound (dir (ang direction) - dir (ang g))) as CB. fold C in CB.
set (e := / 4503599627370496) in *. assert (E0 : 0 < e < / 1000000) by (unfold e; lra).
(* structure of the float computation *)
destruct (fmul_fin_R _ _ Fsc) as (Fq & Fc & Vsc).
set (Pf := fmul (mag g) (mag direction)) in *.
assert (NPf : R_ Pf <> 0 /\ fin Pf /\ P * (1 - e) <= R_ Pf <= P * (1 + e)).
{ assert (FPf : fin Pf).
  { destruct (fmul_R (mag g) (mag direction)) as [_ F]; auto.
    - destruct (mag g); try discriminate; try reflexivity; exfalso; unfold P in Pp; simpl in Pp; lra.
    - destruct (mag direction); try discriminate; try reflexivity; exfalso; unfold P in Pp; simpl in Pp; try lra; rewrite Rmult_0_r in Pp; lra.
    - fold P. rewrite Rabs_pos_eq by lra. apply Rle_trans with (bpow radix2 500); [lra|apply bpow_le; lia]. }
  destruct (fmul_fin_R _ _ FPf) as (_ & _ & V). fold P in V.
  assert (L600 : bpow radix2 (-600) <= P) by (apply Rle_trans with (bpow radix2 (-500)); [apply bpow_le; lia|lra]).
  pose proof (rnd_rel_mid P L600) as Er. rewrite <- V in Er. fold e in Er. fold Pf in Er.
  assert (0 < P * (1 - e)) by (apply Rmult_lt_0_compat; lra). assert (0 < R_ Pf) by lra. split; [lra|]. split; [exact FPf|exact Er]. }
destruct NPf as (NPf & FPf & EPf).
destruct (fdiv_fin_R' _ _ Fq NPf) as (_ & Vq). rewrite fabs_R in Vq.
(* the sign factor *)
set (ad := {| rem := zero; blade := if Rlt_bool (R_ dv) 0 then 2 else 0 |}) in *.
assert (Cad : canonp (rem ad) /\ (0 <= blade ad)%Z) by (unfold ad; cbn [rem blade]; split; [apply canonp_zero|destruct (Rlt_bool (R_ dv) 0); lia]).
destruct Cad as [Cad Bad].
rewrite new_0_1 in *.
destruct (aproject_value L u ad {| rem := zero; blade := 0 |} HL Cad canonp_zero Bad ltac:(cbn [blade]; lia)) as (_ & Ec).
set (c := aproject L ad {| rem := zero; blade := 0 |}) in *.
set (sg := if Rlt_bool (R_ dv) 0 then -1 else 1).
assert (DS : cos (dir {| rem := zero; blade := 0 |} - dir ad) = sg).
{ unfold ad, sg, dir, grade. cbn [rem blade]. rewrite R_zero. destruct (Rlt_bool (R_ dv) 0).
  - change (2 mod 4)%Z with 2%Z. change (0 mod 4)%Z with 0%Z. simpl (IZR _).
    replace (0 * (Rtrigo1.PI / 2) + 0 - (2 * (Rtrigo1.PI / 2) + 0)) with (- Rtrigo1.PI) by field. rewrite cos_neg. apply cos_PI.
  - change (0 mod 4)%Z with 0%Z. simpl (IZR _). replace (0 * (Rtrigo1.PI / 2) + 0 - (0 * (Rtrigo1.PI / 2) + 0)) with 0 by ring. apply cos_0. }
rewrite DS in Ec.
assert (SD : sg * Rabs (R_ dv) = R_ dv).
{ unfold sg. destruct (Rlt_bool_spec (R_ dv) 0) as [N|Pd]; [rewrite Rabs_left by exact N|rewrite Rabs_pos_eq by exact Pd]; ring. }
assert (SG : Rabs sg = 1) by (unfold sg; destruct (Rlt_bool (R_ dv) 0); [rewrite Rabs_left|rewrite Rabs_pos_eq]; lra).
(* the quotient *)
pose proof (bpow_gt_0 radix2 (-1075)) as Hp.
assert (Tiny : bpow radix2 (-1073) <= / 1000000000000000000 * bpow radix2 (-500)).
{ change (-1073)%Z with (-573 + -500)%Z. rewrite bpow_plus. apply Rmult_le_compat_r; [lra|].
  apply Rle_trans with (bpow radix2 (-60)); [apply bpow_le; lia|simpl; lra]. }
assert (Tiny2 : bpow radix2 (-1075) <= / 1000000000000000000) by (apply Rle_trans with (bpow radix2 (-60)); [apply bpow_le; lia|simpl; lra]).
set (w2 := u + 10002 / 100000000000000) in *.
set (a := Rabs (R_ dv)) in *. assert (A0 : 0 <= a) by apply Rabs_pos.
assert (AP : a <= P * (1 + w2) + bpow radix2 (-1073)).
{ unfold a. replace (R_ dv) with ((R_ dv - P * C) + P * C) by ring. eapply Rle_trans; [apply Rabs_triang|].
  rewrite (Rabs_mult P C), (Rabs_pos_eq P) by lra. assert (Rabs C <= 1) by (apply Rabs_le; lra). nra. }
assert (AQ : a / R_ Pf <= 1002 / 1000).
{ apply Rmult_le_reg_r with (R_ Pf); [nra|]. unfold Rdiv. rewrite Rmult_assoc, Rinv_l by exact NPf. unfold w2 in AP. nra. }
assert (AQ0 : 0 <= a / R_ Pf) by (apply Rmult_le_pos; [exact A0|left; apply Rinv_0_lt_compat; nra]).
pose proof (rnd_rel (a / R_ Pf)) as Eq. rewrite <- Vq in Eq. rewrite (Rabs_pos_eq _ AQ0) in Eq.
set (q := R_ (fdiv (fabs dv) Pf)) in *.
assert (QP : Rabs (a / R_ Pf - a / P) <= 2 * e).
{ replace (a / R_ Pf - a / P) with ((a / R_ Pf) * ((P - R_ Pf) / P)) by (field; split; [lra|exact NPf]).
  rewrite Rabs_mult, (Rabs_pos_eq _ AQ0).
  assert (Rabs ((P - R_ Pf) / P) <= e). { apply Rabs_div_le; [lra|]. apply Rabs_le. lra. }
  pose proof (Rabs_pos ((P - R_ Pf) / P)). nra. }
assert (QA : Rabs (q - a / P) <= 4 * e).
{ replace (q - a / P) with ((q - a / R_ Pf) + (a / R_ Pf - a / P)) by ring. eapply Rle_trans; [apply Rabs_triang|]. unfold e in *. lra. }
assert (APb : a / P <= 1002 / 1000).
{ apply Rmult_le_reg_r with P; [lra|]. unfold Rdiv. rewrite Rmult_assoc, Rinv_l by lra. unfold w2 in AP. nra. }
assert (AP0 : 0 <= a / P) by (apply Rmult_le_pos; [exact A0|left; apply Rinv_0_lt_compat; lra]).
(* the product *)
rewrite Vsc. fold q.
pose proof (rnd_rel (q * R_ c)) as Es.
assert (Qb : Rabs q <= 1003 / 1000). { replace q with ((q - a / P) + a / P) by ring. eapply Rle_trans; [apply Rabs_triang|]. rewrite (Rabs_pos_eq (a / P)) by exact AP0. unfold e in *. lra. }
assert (Cb : Rabs (R_ c) <= 1002 / 1000). { replace (R_ c) with ((R_ c - sg) + sg) by ring. eapply Rle_trans; [apply Rabs_triang|]. rewrite SG. lra. }
assert (QC : Rabs (q * R_ c) <= 1006 / 1000). { rewrite Rabs_mult. pose proof (Rabs_pos q). pose proof (Rabs_pos (R_ c)). nra. }
(* dv / P against C *)
assert (DC : Rabs (R_ dv / P - C) <= w2 + / 1000000000000000000).
{ replace (R_ dv / P - C) with ((R_ dv - P * C) / P) by (field; lra). apply Rabs_div_le; [lra|]. nra. }
(* q c against dv / P = sg * a / P *)
assert (QD : Rabs (q * R_ c - R_ dv / P) <= 4 * e * (1002 / 1000) + 1002 / 1000 * (u + 10001 / 100000000000000)).
{ replace (q * R_ c - R_ dv / P) with ((q - a / P) * R_ c + (a / P) * (R_ c - sg)) by (rewrite <- SD; field; lra).
  eapply Rle_trans; [apply Rabs_triang|]. rewrite !Rabs_mult, (Rabs_pos_eq (a / P)) by exact AP0.
  pose proof (Rabs_pos (q - a / P)). pose proof (Rabs_pos (R_ c)). pose proof (Rabs_pos (R_ c - sg)).
  assert (T1 : Rabs (q - a / P) * Rabs (R_ c) <= 4 * e * (1002 / 1000)) by (apply Rmult_le_compat; lra).
  assert (T2 : a / P * Rabs (R_ c - sg) <= 1002 / 1000 * (u + 10001 / 100000000000000)) by (apply Rmult_le_compat; lra).
  lra. }
replace (rnd (q * R_ c) - C) with ((rnd (q * R_ c) - q * R_ c) + (q * R_ c - R_ dv / P) + (R_ dv / P - C)) by ring.
eapply Rle_trans; [apply Rabs_triang|]. eapply Rle_trans; [apply Rplus_le_compat_r, Rabs_triang|].
unfold w2, e in *. lra.
Qed.
End Cone.
