(* CtorProofs: constructors denote what they are given (C02): exact fast path, explicit blade offsets,
   exact quotient/remainder agreement on the general path (the repaired defect F2). *)
From Coq Require Import ZArith List Bool Reals Lra Lia Psatz.
From Flocq Require Import Core BinarySingleNaN Relative.
Require Import GV.FloatBase GV.FloatLemmas GV.AngleM GV.AngleProofs GV.NewProofs GV.GeonumM GV.GeonumProofs.
Open Scope R_scope.

(* integers below 2^53 are represented exactly *)
Lemma of_Z_R k : (Z.abs k <= 2 ^ 53)%Z -> R_ (of_Z k) = IZR k /\ fin (of_Z k).
Proof.
intros Hk. unfold of_Z.
generalize (binary_normalize_correct prec emax _ _ mode_NE k 0 false). cbv zeta.
replace (F2R (Float radix2 k 0)) with (IZR k) by (unfold F2R; simpl; ring).
change (round radix2 (SpecFloat.fexp prec emax) (round_mode mode_NE) (IZR k)) with (rnd (IZR k)).
rewrite (round_generic radix2 fexp ZnearestE (IZR k)) by (auto with typeclass_instances; now apply fmt_IZR).
rewrite Rlt_bool_true.
- intros (V & Fn & _). split; assumption.
- rewrite <- abs_IZR. apply Rle_lt_trans with (IZR (2^53)). apply IZR_le; exact Hk.
  change (IZR (2^53)) with (bpow radix2 53). apply bpow_lt. unfold emax; lia.
Qed.

Lemma round_FIX_Z (rnd0 : R -> Z) y : round radix2 (FIX_exp 0) rnd0 y = IZR (rnd0 y).
Proof. unfold round, scaled_mantissa, cexp, FIX_exp, F2R. simpl. now rewrite 2!Rmult_1_r. Qed.

Lemma ftrunc_R x : fin x -> R_ (ftrunc x) = IZR (Ztrunc (R_ x)) /\ fin (ftrunc x).
Proof.
intros Fx. destruct (Bnearbyint_correct prec emax Hmax mode_ZR x) as (V & Fn & _).
split. unfold ftrunc. rewrite V. apply round_FIX_Z. unfold fin, ftrunc. now rewrite Fn.
Qed.

Lemma fround_R x : fin x -> R_ (fround x) = IZR (ZnearestA (R_ x)) /\ fin (fround x).
Proof.
intros Fx. destruct (Bnearbyint_correct prec emax Hmax mode_NA x) as (V & Fn & _).
split. unfold fround. rewrite V. apply round_FIX_Z. unfold fin, fround. now rewrite Fn.
Qed.

(* a finite float whose value is the integer k in usize range casts to exactly k *)
Lemma f2usize_int x k : fin x -> R_ x = IZR k -> (0 <= k <= USIZE_MAX)%Z -> f2usize x = k.
Proof.
intros Fx V Hk. unfold f2usize.
assert (Bt : Btrunc x = k).
{ apply eq_IZR. rewrite Btrunc_correct by exact Hmax. rewrite round_trunc_FIX, V. now rewrite Ztrunc_IZR. }
destruct x as [s|s| |s m e H]; try discriminate; rewrite Bt;
  (destruct (Z.ltb_spec k 0); [lia|]); (destruct (k >? USIZE_MAX)%Z eqn:E; [apply Z.gtb_lt in E; lia|reflexivity]).
Qed.

Lemma ffract_int x k : fin x -> R_ x = IZR k -> feq (ffract x) zero = true.
Proof.
intros Fx V. unfold ffract. destruct (ftrunc_R x Fx) as [VT FT]. rewrite V, Ztrunc_IZR in VT.
destruct (fsub_R x (ftrunc x) Fx FT) as [VS FS].
{ rewrite V, VT, Rminus_diag_eq by reflexivity. rewrite Rabs_R0. apply bpow_ge_0. }
rewrite feq_R by auto using fin_zero. rewrite VS, V, VT, Rminus_diag_eq by reflexivity.
rewrite round_0 by auto with typeclass_instances. rewrite R_zero. now apply Req_bool_true.
Qed.

(* fast path: Angle::new(k, 2.0) = exactly k quarter turns, remainder 0 *)
Lemma new_quarter_turns k : (0 <= k < 2 ^ 53)%Z -> new (of_Z k) two = {| rem := zero; blade := k |}.
Proof.
intros Hk. destruct (of_Z_R k ltac:(lia)) as [V Fk].
rewrite new_unfold. unfold fast_path.
replace (feq two two) with true by (vm_compute; reflexivity).
rewrite (ffract_int _ k Fk V). cbn [andb]. unfold fast_blade.
rewrite flt_R by auto using fin_zero. rewrite V, R_zero.
rewrite Rlt_bool_false by (apply IZR_le; lia).
rewrite (f2usize_int _ k Fk V). reflexivity. unfold USIZE_MAX. lia.
Qed.

Lemma create_dimension_exact m k : (0 <= k < 2 ^ 53)%Z ->
  create_dimension m k = {| mag := m; ang := {| rem := zero; blade := k |} |}.
Proof. intros Hk. unfold create_dimension. now rewrite new_quarter_turns. Qed.

(* explicit blade offset: exactly n more quarter turns, remainder untouched *)
Lemma new_with_blade_adds n p d : (0 <= n < 2 ^ 53)%Z -> canonp (rem (new p d)) ->
  steps_to (new p d) (new_with_blade n p d) n.
Proof.
intros Hn C. unfold new_with_blade, add_vv. rewrite (new_quarter_turns n Hn). now apply step_by_k.
Qed.

(* ---- general path: quotient and remainder agree (repaired defect F2) ---- *)
Lemma rnd_upper x : 0 <= x -> rnd x <= x * (1 + / 9007199254740992) + bpow radix2 (-1075).
Proof.
intros Hx. destruct (error_N_FLT radix2 (3 - emax - prec) prec ltac:(unfold prec; lia) (fun z => negb (Z.even z)) x)
  as (eps & eta & He & Ht & _ & E).
change (round radix2 (FLT_exp (3 - emax - prec) prec) (Znearest (fun z : Z => negb (Z.even z))) x) with (rnd x) in E.
rewrite E.
replace (/ 2 * bpow radix2 (- prec + 1)) with (/ 9007199254740992) in He by (unfold prec; simpl; lra).
assert (Ht' : Rabs eta <= bpow radix2 (-1075)).
{ eapply Rle_trans. exact Ht. unfold emax, prec. replace (3 - 1024 - 53)%Z with (-1074)%Z by lia.
  replace (bpow radix2 (-1074)) with (2 * bpow radix2 (-1075)) by (change 2 with (bpow radix2 1); rewrite <- bpow_plus; reflexivity).
  pose proof (bpow_gt_0 radix2 (-1075)). lra. }
apply Rabs_le_inv in He. apply Rabs_le_inv in Ht'.
nra.
Qed.

Lemma from_total_blade nt : fin nt -> 0 < R_ nt <= bpow radix2 43 ->
  exists k : Z, (0 <= k)%Z /\ R_ nt = IZR k * R_ Q + R_ (ffmod nt Q) /\ 0 <= R_ (ffmod nt Q) < R_ Q /\
    f2usize (fround (fdiv (fsub nt (ffmod nt Q)) Q)) = k.
Proof.
intros Fn [Pos Bnd]. pose proof Qpos as Qp.
destruct (ffmod_pos' nt Q Fn fin_Q Pos Qp) as (Fr & [R0 R1] & k & Hk0 & Hk).
exists k. split; [exact Hk0|]. split; [exact Hk|]. split; [split; assumption|].
set (r := ffmod nt Q) in *.
assert (B43 : bpow radix2 43 = 8796093022208) by (simpl; lra).
rewrite B43 in Bnd.
assert (Tiny : bpow radix2 (-1075) <= / 1073741824).
{ apply Rle_trans with (bpow radix2 (-30)). apply bpow_le; lia. simpl. lra. }
pose proof (bpow_gt_0 radix2 (-1075)) as Tp.
assert (KR : 0 <= IZR k) by (apply IZR_le; exact Hk0).
assert (KQ : IZR k * R_ Q <= 8796093022208) by lra.
assert (KU : IZR k <= 8796093022208). { rewrite Qval in *. nra. }
(* s = nt - r = rnd(k q) *)
destruct (fsub_R nt r Fn Fr) as [VS FS].
{ apply Rle_trans with (bpow radix2 44); [|apply bpow_le; lia]. apply Rabs_le.
  assert (B44 : bpow radix2 44 = 17592186044416) by (simpl; lra). rewrite B44. rewrite Qval in R1. lra. }
replace (R_ nt - R_ r) with (IZR k * R_ Q) in VS by lra.
set (s := fsub nt r) in *.
assert (S0 : 0 <= IZR k * R_ Q) by (apply Rmult_le_pos; lra).
pose proof (rnd_lower _ S0) as SL. pose proof (rnd_upper _ S0) as SU. rewrite <- VS in SL, SU.
assert (Ss : 0 <= R_ s) by (rewrite VS; now apply rnd_ge0).
(* y = s / q *)
assert (Qnz : R_ Q <> 0) by lra.
assert (YB : 0 <= R_ s / R_ Q <= 17592186044416).
{ split. apply Rmult_le_pos; [lra|]. apply Rlt_le, Rinv_0_lt_compat; lra.
  apply Rmult_le_reg_r with (R_ Q); [lra|]. unfold Rdiv. rewrite Rmult_assoc, Rinv_l, Rmult_1_r by lra.
  rewrite Qval in *. nra. }
destruct (fdiv_R s Q FS Qnz) as [VY FY].
{ rewrite Rabs_pos_eq by lra. apply Rle_trans with (bpow radix2 45); [|apply bpow_le; lia].
  assert (B45 : bpow radix2 45 = 35184372088832) by (simpl; lra). rewrite B45. lra. }
set (y := fdiv s Q) in *.
pose proof (rnd_lower _ (proj1 YB)) as YL. pose proof (rnd_upper _ (proj1 YB)) as YU. rewrite <- VY in YL, YU.
(* |y - k| < 1/2 *)
assert (SQ : IZR k * (1 - / 9007199254740992) - / 1048576 <= R_ s / R_ Q <= IZR k * (1 + / 9007199254740992) + / 1048576).
{ split.
  - apply Rmult_le_reg_r with (R_ Q); [lra|]. unfold Rdiv. rewrite Rmult_assoc, Rinv_l, Rmult_1_r by lra. rewrite Qval in *. nra.
  - apply Rmult_le_reg_r with (R_ Q); [lra|]. unfold Rdiv. rewrite Rmult_assoc, Rinv_l, Rmult_1_r by lra. rewrite Qval in *. nra. }
assert (Near : Rabs (R_ y - IZR k) < / 2).
{ apply Rabs_def1; nra. }
destruct (fround_R y FY) as [VR FR].
assert (NA : ZnearestA (R_ y) = k) by (apply Znearest_imp; exact Near).
rewrite NA in VR.
apply (f2usize_int _ k FR VR). split; [exact Hk0|].
apply le_IZR. unfold USIZE_MAX. apply Rle_trans with 8796093022208; [exact KU|].
apply IZR_le. lia.
Qed.

(* the general path decomposes the total exactly: blade = floor(total / q) with the matching remainder,
   or the 1e-10 boundary snap fired (one more blade, remainder 0) *)
Lemma from_total_decomp nt : fin nt -> 0 < R_ nt <= bpow radix2 43 ->
  exists k : Z, (0 <= k)%Z /\ R_ nt = IZR k * R_ Q + R_ (ffmod nt Q) /\ 0 <= R_ (ffmod nt Q) < R_ Q /\
    ( (blade (from_total nt) = k /\ R_ (rem (from_total nt)) = R_ (ffmod nt Q))
   \/ (blade (from_total nt) = (k + 1)%Z /\ R_ (rem (from_total nt)) = 0 /\
       Rabs (R_ (ffmod nt Q) - R_ Q) <= R_ eps10 + / 4503599627370496) ).
Proof.
intros Fn Bn. destruct (from_total_blade nt Fn Bn) as (k & Hk0 & Hk & [R0 R1] & Hb).
exists k. split; [exact Hk0|]. split; [exact Hk|]. split; [split; assumption|].
unfold from_total. rewrite Hb. pose proof Q_le_V0 as QV.
assert (Fr : fin (ffmod nt Q)).
{ destruct (ffmod_pos' nt Q Fn fin_Q (proj1 Bn) Qpos) as (Ff & _). exact Ff. }
destruct (normalize_range (ffmod nt Q) k Fr (conj R0 (Rle_trans _ _ _ (Rlt_le _ _ R1) QV))) as (Cn & [(B&Rr&_)|[(B&Rr&Nr)|(B&Rr)]]).
- left. split; assumption.
- right. split; [exact B|]. split; assumption.
- exfalso. destruct Cn as (_ & C0 & _). lra.
Qed.

(* F2 regression: the pre-repair quotient (total / q) as usize rounds up to 38 while the exact
   remainder is q - tiny (37 whole quarter turns): the boundary snap then produced blade 39 *)
Example F2_witness :
  let nt := total_angle (of_Z 19) (of_Z 1) in
  f2usize (fdiv nt Q) = 38%Z /\ f2usize (fround (fdiv (fsub nt (ffmod nt Q)) Q)) = 37%Z /\
  blade (new (of_Z 19) (of_Z 1)) = 38%Z /\ to_bits (rem (new (of_Z 19) (of_Z 1))) = 0%Z.
Proof. vm_compute. repeat split; reflexivity. Qed.

Lemma from_total_value nt : fin nt -> 0 < R_ nt <= bpow radix2 43 ->
  Rabs (theta (from_total nt) - R_ nt) <= R_ eps10 + / 4503599627370496.
Proof.
intros Fn Bn. destruct (from_total_decomp nt Fn Bn) as (k & Hk0 & Hk & [R0 R1] & [[B R]|[B [R N]]]).
- unfold theta. rewrite B, R, Hk. replace (_ - _) with 0 by ring. rewrite Rabs_R0. pose proof E10pos. lra.
- unfold theta. rewrite B, R, Hk, plus_IZR. apply Rabs_le_inv in N. apply Rabs_le. lra.
Qed.

(* ================= Geonum + Geonum, general path: blade history is never lost ================= *)
Section GeneralSum.
Context (L : libm).

Definition sum_adjusted (a b : geonum) : F :=
  let angle1 := grade_angle (ang a) in
  let angle2 := grade_angle (ang b) in
  let opp_sum := fadd (fmul (mag a) (sinF L angle1)) (fmul (mag b) (sinF L angle2)) in
  let adj_sum := fadd (fmul (mag a) (cosF L angle1)) (fmul (mag b) (cosF L angle2)) in
  fsub (atan2F L opp_sum adj_sum) (fdiv (fmul (of_Z (blade (ang a) + blade (ang b))) PI) two).

Lemma gadd_general_form a b : aeqb (ang a) (ang b) = false ->
  aeqb (add_vv (ang a) (new one one)) (ang b) || aeqb (add_vv (ang b) (new one one)) (ang a) = false ->
  ang (gadd_vv L a b) = new_with_blade (blade (ang a) + blade (ang b)) (sum_adjusted a b) PI.
Proof. intros H1 H2. unfold gadd_vv. rewrite H1, H2. reflexivity. Qed.

(* on the general path the sum's angle is canonical and its blade count is at least the sum of the
   operands' blade counts, provided the re-encoded total (atan2 result minus the blade shift, times
   PI / PI) is finite and at most 2^42 in magnitude - which the domain guarantees (blades <= 2^40) *)
Lemma gadd_general_history a b : aeqb (ang a) (ang b) = false ->
  aeqb (add_vv (ang a) (new one one)) (ang b) || aeqb (add_vv (ang b) (new one one)) (ang a) = false ->
  (0 <= blade (ang a) + blade (ang b) < 2 ^ 53)%Z ->
  fin (total_angle (sum_adjusted a b) PI) -> Rabs (R_ (total_angle (sum_adjusted a b) PI)) <= bpow radix2 42 ->
  canonp (rem (ang (gadd_vv L a b))) /\ (blade (ang a) + blade (ang b) <= blade (ang (gadd_vv L a b)))%Z.
Proof.
intros H1 H2 Hc Ft Bt. rewrite (gadd_general_form a b H1 H2).
destruct (new_canon _ _ Ft Bt) as [Cn Bn].
pose proof (new_with_blade_adds (blade (ang a) + blade (ang b)) (sum_adjusted a b) PI Hc Cn) as S.
split. eapply steps_canon; eauto. destruct S as (E & _). rewrite E. lia.
Qed.

End GeneralSum.

(* ================= grade_angle stays in [0, 4q) ================= *)
Lemma PIval : R_ PI = 2 * R_ Q /\ fin PI.
Proof. split; [|reflexivity]. rewrite Qval. vm_compute PI. unfold B2R, F2R. simpl. lra. Qed.
Lemma two_val : R_ two = 2 /\ fin two.
Proof. split; [|reflexivity]. vm_compute two. unfold B2R, F2R. simpl. lra. Qed.

Lemma grade_angle_range a : canonp (rem a) ->
  fin (grade_angle a) /\ 0 <= R_ (grade_angle a) < 4 * R_ Q.
Proof.
intros (Fr & R0 & R1). unfold grade_angle.
pose proof (grade_range a) as Hg. set (g := grade a) in *.
destruct (of_Z_R g ltac:(lia)) as [Vg Fg].
destruct PIval as [VP FP]. destruct two_val as [V2 F2]. pose proof Qpos as Qp. pose proof E10pos as Ep.
assert (G : 0 <= IZR g <= 3). { split; apply IZR_le; lia. }
assert (Tiny : bpow radix2 (-1075) <= / 1073741824 / 1073741824).
{ apply Rle_trans with (bpow radix2 (-60)). apply bpow_le; lia. simpl. lra. }
pose proof (bpow_gt_0 radix2 (-1075)) as Tp.
destruct (fmul_R (of_Z g) PI Fg FP) as [V1 F1].
{ apply small_le_1000. rewrite Vg, VP, Qval. apply Rabs_le. nra. }
rewrite Vg, VP in V1.
assert (P0 : 0 <= IZR g * (2 * R_ Q)) by nra.
pose proof (rnd_upper _ P0) as U1. pose proof (rnd_ge0 _ P0) as L1. rewrite <- V1 in U1, L1.
set (x1 := fmul (of_Z g) PI) in *.
destruct (fdiv_R x1 two F1) as [V3 F3].
{ rewrite V2; lra. }
{ apply small_le_1000. rewrite V2. apply Rabs_le. rewrite Qval in *. nra. }
rewrite V2 in V3.
assert (D0 : 0 <= R_ x1 / 2) by lra.
pose proof (rnd_upper _ D0) as U3. pose proof (rnd_ge0 _ D0) as L3. rewrite <- V3 in U3, L3.
set (x3 := fdiv x1 two) in *.
destruct (fadd_R x3 (rem a) F3 Fr) as [V4 F4].
{ apply small_le_1000. apply Rabs_le. rewrite Qval, E10val in *. nra. }
split; [exact F4|]. rewrite V4.
assert (S0 : 0 <= R_ x3 + R_ (rem a)) by lra.
split. now apply rnd_ge0.
eapply Rle_lt_trans. apply (rnd_upper _ S0). rewrite Qval, E10val in *. nra.
Qed.

(* ================= fast path for negative quarter turns; copy_blade ================= *)
Lemma three_val : R_ three = 3 /\ fin three.
Proof. split; [|reflexivity]. vm_compute three. unfold B2R, F2R. simpl. lra. Qed.

Lemma rnd_IZR z : (Z.abs z <= 2 ^ 53)%Z -> rnd (IZR z) = IZR z.
Proof. intros H. apply round_generic; auto with typeclass_instances. now apply fmt_IZR. Qed.

Lemma Zceil_div4 m : Zceil (IZR m / 4) = ((m + 3) / 4)%Z.
Proof.
apply Zceil_imp.
pose proof (Z_div_mod_eq_full (m + 3) 4) as E. pose proof (Z.mod_pos_bound (m + 3) 4 ltac:(lia)) as B.
set (k := ((m + 3) / 4)%Z) in *. set (r := ((m + 3) mod 4)%Z) in *.
assert (Em : IZR m = 4 * IZR k + IZR r - 3).
{ replace m with (4 * k + r - 3)%Z at 1 by lia. rewrite minus_IZR, plus_IZR, mult_IZR. simpl. ring. }
assert (R0 : 0 <= IZR r <= 3). { split; apply IZR_le; lia. }
rewrite minus_IZR. simpl. split; lra.
Qed.

Lemma new_neg_quarter_turns d : (- 2 ^ 50 < d < 0)%Z ->
  new (of_Z d) two = {| rem := zero; blade := d + 4 * ((- d + 6) / 4) |}.
Proof.
intros Hd. destruct (of_Z_R d ltac:(lia)) as [V Fp].
destruct three_val as [V3 F3]. destruct four_val as [V4 F4].
rewrite new_unfold. unfold fast_path.
replace (feq two two) with true by (vm_compute; reflexivity).
rewrite (ffract_int _ d Fp V). cbn [andb]. unfold fast_blade.
rewrite flt_R by auto using fin_zero. rewrite V, R_zero.
rewrite Rlt_bool_true by (apply IZR_lt; lia).
set (k := ((- d + 6) / 4)%Z).
assert (Kb : (0 < k <= 2 ^ 49)%Z).
{ unfold k. split. apply Z.div_str_pos; lia. apply Z.div_le_upper_bound; lia. }
assert (Kd : (3 <= d + 4 * k <= 6)%Z).
{ unfold k. pose proof (Z_div_mod_eq_full (- d + 6) 4). pose proof (Z.mod_pos_bound (- d + 6) 4 ltac:(lia)). lia. }
(* -p + 3 *)
destruct (fadd_R (fneg (of_Z d)) three (fin_fneg _ Fp) F3) as [VA FA].
{ rewrite fneg_R, V, V3. apply Rle_trans with (bpow radix2 52); [|apply bpow_le; lia].
  rewrite <- opp_IZR, <- plus_IZR, <- abs_IZR. change (bpow radix2 52) with (IZR (2 ^ 52)). apply IZR_le. lia. }
rewrite fneg_R, V, V3, <- opp_IZR, <- plus_IZR in VA. rewrite rnd_IZR in VA by lia.
(* / 4 *)
destruct (fdiv_R (fadd (fneg (of_Z d)) three) four FA) as [VD FD].
{ rewrite V4; lra. }
{ rewrite VA, V4. apply Rle_trans with (bpow radix2 52); [|apply bpow_le; lia].
  rewrite Rabs_pos_eq. 2:{ apply Rmult_le_pos; [apply IZR_le; lia|lra]. }
  change (bpow radix2 52) with (IZR (2 ^ 52)). assert (IZR (- d + 3) <= IZR (2 ^ 52)) by (apply IZR_le; lia). lra. }
rewrite VA, V4 in VD.
assert (FQ : fmt (IZR (- d + 3) / 4)).
{ replace (IZR (- d + 3) / 4) with (F2R (Float radix2 (- d + 3) (-2))) by (unfold F2R; simpl; lra).
  apply generic_format_FLT. apply FLT_spec with (Float radix2 (- d + 3) (-2)); simpl; auto; unfold emax, prec; lia. }
rewrite round_generic in VD by (auto with typeclass_instances).
(* ceil *)
destruct (fceil_R _ FD) as [VC FC]. rewrite VD, Zceil_div4 in VC.
replace (- d + 3 + 3)%Z with (- d + 6)%Z in VC by lia. fold k in VC.
(* * 4 *)
destruct (fmul_R _ four FC F4) as [VM FM].
{ rewrite VC, V4. apply Rle_trans with (bpow radix2 52); [|apply bpow_le; lia].
  rewrite Rabs_pos_eq. 2:{ apply Rmult_le_pos; [apply IZR_le; lia|lra]. }
  change (bpow radix2 52) with (IZR (2 ^ 52)). assert (IZR k <= IZR (2 ^ 49)) by (apply IZR_le; lia). simpl in *. lra. }
rewrite VC, V4 in VM. replace (IZR k * 4) with (IZR (k * 4)) in VM by (rewrite mult_IZR; simpl; ring).
rewrite rnd_IZR in VM by lia.
(* p + that *)
destruct (fadd_R (of_Z d) _ Fp FM) as [VS FS].
{ rewrite V, VM, <- plus_IZR, <- abs_IZR. apply Rle_trans with (IZR 6). apply IZR_le. lia.
  apply Rle_trans with (bpow radix2 3); [simpl; lra|apply bpow_le; lia]. }
rewrite V, VM, <- plus_IZR in VS. rewrite rnd_IZR in VS by lia.
rewrite (f2usize_int _ (d + k * 4) FS VS) by (unfold USIZE_MAX; lia).
f_equal. lia.
Qed.

(* copy_blade: reaches the other's exact blade when that is not smaller; otherwise a blade congruent
   to it modulo 4, between 3 and 6 above the current one; remainder and magnitude untouched *)
Lemma copy_blade_spec g other : canonp (rem (ang g)) ->
  (0 <= blade (ang g) < 2 ^ 50)%Z -> (0 <= blade (ang other) < 2 ^ 50)%Z ->
  mag (copy_blade g other) = mag g /\
  R_ (rem (ang (copy_blade g other))) = R_ (rem (ang g)) /\
  ((blade (ang g) <= blade (ang other))%Z -> blade (ang (copy_blade g other)) = blade (ang other)) /\
  ((blade (ang other) < blade (ang g))%Z ->
     (blade (ang g) + 3 <= blade (ang (copy_blade g other)) <= blade (ang g) + 6)%Z /\
     (blade (ang (copy_blade g other)) mod 4 = blade (ang other) mod 4)%Z).
Proof.
intros C Bg Bo. unfold copy_blade. cbn [mag ang]. unfold add_vv.
set (d := (blade (ang other) - blade (ang g))%Z).
split; [reflexivity|].
destruct (Z_lt_ge_dec d 0) as [Neg|Pos].
- rewrite (new_neg_quarter_turns d ltac:(lia)).
  set (k := ((- d + 6) / 4)%Z).
  destruct (step_by_k (ang g) (d + 4 * k) C) as (B & R & _).
  split; [exact R|]. split; [intros H; unfold d in Neg; lia|]. intros _. rewrite B.
  assert (Kd : (3 <= d + 4 * k <= 6)%Z).
  { unfold k. pose proof (Z_div_mod_eq_full (- d + 6) 4). pose proof (Z.mod_pos_bound (- d + 6) 4 ltac:(lia)). lia. }
  split; [lia|].
  replace (blade (ang g) + (d + 4 * k))%Z with (blade (ang other) + k * 4)%Z by (unfold d; lia).
  apply Z.mod_add. lia.
- rewrite (new_quarter_turns d ltac:(lia)).
  destruct (step_by_k (ang g) d C) as (B & R & _).
  split; [exact R|]. split. intros _. rewrite B. unfold d. lia. intros H. unfold d in Pos. lia.
Qed.

(* ================= the constructor denotes p * PI / d ================= *)
(* two-sided relative error of rounding, any sign, with the absolute underflow term *)
Lemma rnd_rel x : Rabs (rnd x - x) <= / 9007199254740992 * Rabs x + bpow radix2 (-1075).
Proof.
destruct (error_N_FLT radix2 (3 - emax - prec) prec ltac:(unfold prec; lia) (fun z => negb (Z.even z)) x)
  as (eps & eta & He & Ht & _ & E).
change (round radix2 (FLT_exp (3 - emax - prec) prec) (Znearest (fun z : Z => negb (Z.even z))) x) with (rnd x) in E.
rewrite E.
replace (/ 2 * bpow radix2 (- prec + 1)) with (/ 9007199254740992) in He by (unfold prec; simpl; lra).
assert (Ht' : Rabs eta <= bpow radix2 (-1075)).
{ eapply Rle_trans. exact Ht. unfold emax, prec. replace (3 - 1024 - 53)%Z with (-1074)%Z by lia.
  replace (bpow radix2 (-1074)) with (2 * bpow radix2 (-1075)) by (change 2 with (bpow radix2 1); rewrite <- bpow_plus; reflexivity).
  pose proof (bpow_gt_0 radix2 (-1075)). lra. }
replace (x * (1 + eps) + eta - x) with (x * eps + eta) by ring.
eapply Rle_trans. apply Rabs_triang. rewrite Rabs_mult.
apply Rplus_le_compat; [|exact Ht'].
rewrite Rmult_comm. apply Rmult_le_compat_r. apply Rabs_pos. exact He.
Qed.

(* the constructor's computed total p * PI / d is within 2^-51 relative (plus underflow) of the
   real quotient R p * R PI / R d: two roundings *)
Lemma total_angle_value p d : fin p -> fin d -> R_ d <> 0 ->
  Rabs (R_ p * R_ PI) <= bpow radix2 1000 -> Rabs (R_ p * R_ PI / R_ d) <= bpow radix2 998 -> bpow radix2 (-1000) <= Rabs (R_ d) ->
  fin (total_angle p d) /\
  Rabs (R_ (total_angle p d) - R_ p * R_ PI / R_ d) <= / 2251799813685248 * Rabs (R_ p * R_ PI / R_ d) + bpow radix2 (-70).
Proof.
intros Fp Fd Dnz B1 B2 Bd. unfold total_angle. destruct PIval as [_ FP].
destruct (fmul_R p PI Fp FP B1) as [V1 F1].
set (x := R_ p * R_ PI) in *. set (x1 := fmul p PI) in *.
pose proof (rnd_rel x) as E1. rewrite <- V1 in E1.
assert (Tp : 0 < bpow radix2 (-1075)) by apply bpow_gt_0.
assert (T1 : bpow radix2 (-1075) <= bpow radix2 (-1000) * bpow radix2 (-75)) by (rewrite <- bpow_plus; apply bpow_le; lia).
assert (Dp : 0 < Rabs (R_ d)) by (apply Rabs_pos_lt; exact Dnz).
assert (Q1 : Rabs (R_ x1 / R_ d - x / R_ d) <= / 9007199254740992 * Rabs (x / R_ d) + bpow radix2 (-75)).
{ replace (R_ x1 / R_ d - x / R_ d) with ((R_ x1 - x) / R_ d) by (field; exact Dnz).
  unfold Rdiv at 1. rewrite Rabs_mult, Rabs_inv.
  unfold Rdiv. rewrite Rabs_mult, Rabs_inv.
  apply Rle_trans with ((/ 9007199254740992 * Rabs x + bpow radix2 (-1075)) * / Rabs (R_ d)).
  apply Rmult_le_compat_r. left; now apply Rinv_0_lt_compat. exact E1.
  rewrite Rmult_plus_distr_r. apply Rplus_le_compat. right; ring.
  apply Rle_trans with (bpow radix2 (-1000) * bpow radix2 (-75) * / Rabs (R_ d)).
  apply Rmult_le_compat_r. left; now apply Rinv_0_lt_compat. exact T1.
  assert (bpow radix2 (-1000) * / Rabs (R_ d) <= 1).
  { apply Rmult_le_reg_r with (Rabs (R_ d)); [exact Dp|]. rewrite Rmult_assoc, Rinv_l, Rmult_1_r, Rmult_1_l by lra. exact Bd. }
  pose proof (bpow_gt_0 radix2 (-75)). nra. }
assert (B75 : bpow radix2 (-75) <= 1) by (change 1 with (bpow radix2 0); apply bpow_le; lia).
assert (B999 : bpow radix2 999 + bpow radix2 999 <= bpow radix2 1000).
{ replace (bpow radix2 1000) with (2 * bpow radix2 999) by (change 2 with (bpow radix2 1); rewrite <- bpow_plus; reflexivity). lra. }
assert (P999 : 1 <= bpow radix2 999) by (change 1 with (bpow radix2 0); apply bpow_le; lia).
set (y := R_ x1 / R_ d) in *. set (t := x / R_ d) in *.
assert (Yb : Rabs y <= Rabs t * (1 + / 9007199254740992) + bpow radix2 (-75)).
{ replace y with (t + (y - t)) by ring. eapply Rle_trans. apply Rabs_triang. lra. }
destruct (fdiv_R x1 d F1 Dnz) as [V2 F2].
{ fold y. fold t in B2. pose proof (Rabs_pos t).
  assert (Y2 : Rabs y <= 2 * Rabs t + 1) by nra.
  assert (B998 : bpow radix2 998 + bpow radix2 998 = bpow radix2 999).
  { replace (bpow radix2 999) with (2 * bpow radix2 998) by (change 2 with (bpow radix2 1); rewrite <- bpow_plus; reflexivity). lra. }
  lra. }
split; [exact F2|].
pose proof (rnd_rel y) as E2. fold y in V2. rewrite <- V2 in E2.
assert (T2 : bpow radix2 (-1075) <= bpow radix2 (-75)) by (apply bpow_le; lia).
assert (T70 : 4 * bpow radix2 (-75) <= bpow radix2 (-70)).
{ replace (bpow radix2 (-70)) with (32 * bpow radix2 (-75)) by (change 32 with (bpow radix2 5); rewrite <- bpow_plus; reflexivity).
  pose proof (bpow_gt_0 radix2 (-75)). lra. }
replace (R_ (fdiv x1 d) - t) with ((R_ (fdiv x1 d) - y) + (y - t)) by ring.
eapply Rle_trans. apply Rabs_triang.
pose proof (Rabs_pos t). pose proof (bpow_gt_0 radix2 (-75)). nra.
Qed.

(* Angle::new(p, d) denotes p * PI / d: the library total is within the 1e-10 boundary tolerance plus
   two roundings of the real quotient (general path, non-negative total) *)
Lemma new_value_pd p d : fin p -> fin d -> R_ d <> 0 ->
  Rabs (R_ p * R_ PI) <= bpow radix2 1000 -> Rabs (R_ p * R_ PI / R_ d) <= bpow radix2 998 -> bpow radix2 (-1000) <= Rabs (R_ d) ->
  fast_path p d = false -> 0 < R_ (total_angle p d) <= bpow radix2 43 ->
  Rabs (theta (new p d) - R_ p * R_ PI / R_ d)
    <= R_ eps10 + / 4503599627370496 + / 2251799813685248 * Rabs (R_ p * R_ PI / R_ d) + bpow radix2 (-70).
Proof.
intros Fp Fd Dnz B1 B2 Bd Hf Ht.
destruct (total_angle_value p d Fp Fd Dnz B1 B2 Bd) as [Ft Vt].
rewrite new_unfold, Hf.
assert (L : lift_total (total_angle p d) = total_angle p d).
{ unfold lift_total. rewrite flt_R by auto using fin_zero. rewrite R_zero. rewrite Rlt_bool_false by lra. reflexivity. }
rewrite L.
pose proof (from_total_value _ Ft Ht) as Vn.
replace (theta (from_total (total_angle p d)) - R_ p * R_ PI / R_ d)
  with ((theta (from_total (total_angle p d)) - R_ (total_angle p d)) + (R_ (total_angle p d) - R_ p * R_ PI / R_ d)) by ring.
eapply Rle_trans. apply Rabs_triang. lra.
Qed.

(* ================= Angle / f64 divides the total ================= *)
(* the float total of an angle: fl(fl(blade * q) + rem) is within 2^-51 relative of theta *)
Definition float_total (a : angle) : F := fadd (fmul (of_Z (blade a)) (fdiv PI two)) (rem a).

Lemma float_total_value a : Canon a -> (blade a < 2 ^ 50)%Z ->
  fin (float_total a) /\ 0 <= R_ (float_total a) /\
  Rabs (R_ (float_total a) - theta a) <= / 2251799813685248 * theta a + bpow radix2 (-1000).
Proof.
intros [(Fr & R0 & R1) Bb] Hb. unfold float_total. change (fdiv PI two) with Q.
destruct (of_Z_R (blade a) ltac:(lia)) as [Vb Fb].
pose proof Qpos as Qp. pose proof E10pos as Ep.
assert (Bz : 0 <= IZR (blade a) <= 1125899906842624).
{ split. apply IZR_le; lia. apply IZR_le. lia. }
destruct (fmul_R (of_Z (blade a)) Q Fb fin_Q) as [V1 F1].
{ rewrite Vb. rewrite Rabs_pos_eq by nra. apply Rle_trans with (bpow radix2 52); [|apply bpow_le; lia].
  assert (bpow radix2 52 = 4503599627370496) by (simpl; lra). rewrite Qval in *. nra. }
rewrite Vb in V1.
assert (P1 : 0 <= IZR (blade a) * R_ Q) by nra.
pose proof (rnd_rel (IZR (blade a) * R_ Q)) as E1. rewrite <- V1 in E1. rewrite (Rabs_pos_eq _ P1) in E1.
pose proof (rnd_ge0 _ P1) as L1. rewrite <- V1 in L1.
set (x1 := fmul (of_Z (blade a)) Q) in *.
assert (T1 : bpow radix2 (-1075) <= bpow radix2 (-1002)) by (apply bpow_le; lia).
pose proof (bpow_gt_0 radix2 (-1075)) as Tp.
assert (X1u : R_ x1 <= bpow radix2 52).
{ apply Rabs_le_inv in E1. assert (bpow radix2 52 = 4503599627370496) by (simpl; lra). rewrite Qval in *.
  assert (bpow radix2 (-1075) <= 1). { change 1 with (bpow radix2 0). apply bpow_le; lia. } nra. }
destruct (fadd_R x1 (rem a) F1 Fr) as [V2 F2].
{ apply Rle_trans with (bpow radix2 53); [|apply bpow_le; lia]. rewrite Rabs_pos_eq by lra.
  assert (bpow radix2 53 = 2 * bpow radix2 52) by (change 2 with (bpow radix2 1); rewrite <- bpow_plus; reflexivity).
  assert (B52 : bpow radix2 52 = 4503599627370496) by (simpl; lra). rewrite Qval, E10val in *. lra. }
split; [exact F2|].
assert (P2 : 0 <= R_ x1 + R_ (rem a)) by lra.
split. rewrite V2. now apply rnd_ge0.
pose proof (rnd_rel (R_ x1 + R_ (rem a))) as E2. rewrite <- V2 in E2. rewrite (Rabs_pos_eq _ P2) in E2.
unfold theta.
assert (T2 : 4 * bpow radix2 (-1002) <= bpow radix2 (-1000)).
{ replace (bpow radix2 (-1000)) with (4 * bpow radix2 (-1002)) by (change 4 with (bpow radix2 2); rewrite <- bpow_plus; reflexivity). lra. }
pose proof (bpow_gt_0 radix2 (-1002)).
apply Rabs_le_inv in E1. apply Rabs_le_inv in E2. apply Rabs_le. nra.
Qed.

Lemma feq_PI_two : feq PI two = false. Proof. vm_compute. reflexivity. Qed.

(* a / k divides the total by k: within the 1e-10 boundary tolerance plus a few roundings *)
Lemma divf_value a k : Canon a -> (blade a < 2 ^ 50)%Z -> fin k ->
  bpow radix2 (-900) <= R_ k <= bpow radix2 900 -> theta a / R_ k <= bpow radix2 41 ->
  0 < R_ (total_angle (fdiv (float_total a) k) PI) ->
  Canon (divf_v a k) /\
  Rabs (theta (divf_v a k) - theta a / R_ k)
    <= R_ eps10 + / 4503599627370496 + bpow radix2 (-69) + bpow radix2 (-49) * (theta a / R_ k).
Proof.
intros Ca Hb Fk [K0 K1] HW Hpos.
destruct (float_total_value a Ca Hb) as (FT & T0 & ET).
assert (Th0 : 0 <= theta a).
{ destruct Ca as [(Fr & R0 & R1) Bb]. unfold theta. pose proof Qpos. assert (0 <= IZR (blade a)) by (apply IZR_le; lia). nra. }
assert (Kp : 0 < R_ k). { pose proof (bpow_gt_0 radix2 (-900)). lra. }
assert (Knz : R_ k <> 0) by lra.
set (W := theta a / R_ k) in *.
assert (W0 : 0 <= W). { unfold W. apply Rmult_le_pos; [exact Th0|]. left. now apply Rinv_0_lt_compat. }
set (T := float_total a) in *.
assert (B41 : bpow radix2 41 = 2199023255552) by (simpl; lra).
assert (ik : 0 < / R_ k <= bpow radix2 900).
{ split. now apply Rinv_0_lt_compat.
  replace (bpow radix2 900) with (/ bpow radix2 (-900)) by (rewrite <- bpow_opp; reflexivity).
  apply Rinv_le_contravar; [apply bpow_gt_0|exact K0]. }
(* T / k versus W *)
assert (TW : Rabs (R_ T / R_ k - W) <= / 2251799813685248 * W + bpow radix2 (-100)).
{ unfold W. replace (R_ T / R_ k - theta a / R_ k) with ((R_ T - theta a) * / R_ k) by (field; exact Knz).
  rewrite Rabs_mult, (Rabs_pos_eq (/ R_ k)) by lra.
  apply Rle_trans with ((/ 2251799813685248 * theta a + bpow radix2 (-1000)) * / R_ k).
  apply Rmult_le_compat_r; [lra|exact ET].
  assert (bpow radix2 (-1000) * / R_ k <= bpow radix2 (-100)).
  { replace (bpow radix2 (-100)) with (bpow radix2 (-1000) * bpow radix2 900) by (rewrite <- bpow_plus; reflexivity).
    apply Rmult_le_compat_l; [apply bpow_ge_0|lra]. }
  unfold Rdiv. nra. }
assert (TK0 : 0 <= R_ T / R_ k). { apply Rmult_le_pos; [exact T0|lra]. }
assert (P100 : bpow radix2 (-100) <= / 1073741824). { apply Rle_trans with (bpow radix2 (-30)). apply bpow_le; lia. simpl; lra. }
pose proof (bpow_gt_0 radix2 (-100)) as P100p.
apply Rabs_le_inv in TW.
assert (TKu : R_ T / R_ k <= 4398046511104). { rewrite B41 in HW. lra. }
(* D = T / k rounded *)
destruct (fdiv_R T k FT Knz) as [VD FD].
{ rewrite Rabs_pos_eq by exact TK0. apply Rle_trans with (bpow radix2 43); [|apply bpow_le; lia]. simpl. lra. }
set (D := fdiv T k) in *.
pose proof (rnd_rel (R_ T / R_ k)) as ED. rewrite <- VD in ED. rewrite (Rabs_pos_eq _ TK0) in ED.
assert (D0 : 0 <= R_ D) by (rewrite VD; now apply rnd_ge0).
assert (T1075 : bpow radix2 (-1075) <= bpow radix2 (-100)) by (apply bpow_le; lia).
pose proof (bpow_gt_0 radix2 (-1075)) as Tp.
apply Rabs_le_inv in ED.
assert (Du : R_ D <= 8796093022208) by lra.
(* new D PI *)
destruct PIval as [VP FP]. pose proof Qpos as Qp.
assert (PInz : R_ PI <> 0) by (rewrite VP; lra).
assert (E1 : R_ D * R_ PI / R_ PI = R_ D) by (field; exact PInz).
destruct (total_angle_value D PI FD FP PInz) as [Ftot Vtot].
{ rewrite Rabs_pos_eq by (rewrite VP; nra). apply Rle_trans with (bpow radix2 47); [|apply bpow_le; lia].
  assert (bpow radix2 47 = 140737488355328) by (simpl; lra). rewrite VP, Qval. nra. }
{ rewrite E1, Rabs_pos_eq by exact D0. apply Rle_trans with (bpow radix2 44); [|apply bpow_le; lia]. simpl; lra. }
{ rewrite Rabs_pos_eq by (rewrite VP; lra). apply Rle_trans with 1. change 1 with (bpow radix2 0). apply bpow_le; lia. rewrite VP, Qval; lra. }
rewrite E1, (Rabs_pos_eq _ D0) in Vtot.
set (nt := total_angle D PI) in *.
apply Rabs_le_inv in Vtot.
assert (P70 : bpow radix2 (-70) <= / 1073741824). { apply Rle_trans with (bpow radix2 (-30)). apply bpow_le; lia. simpl; lra. }
pose proof (bpow_gt_0 radix2 (-70)) as P70p.
assert (NTu : R_ nt <= bpow radix2 43). { assert (bpow radix2 43 = 8796093022208) by (simpl; lra). lra. }
assert (Hf : fast_path D PI = false) by (unfold fast_path; rewrite feq_PI_two; reflexivity).
assert (L : lift_total nt = nt).
{ unfold lift_total. rewrite flt_R by auto using fin_zero. rewrite R_zero. rewrite Rlt_bool_false by lra. reflexivity. }
unfold divf_v. fold (float_total a). fold T. fold D.
split.
- apply new_canon; fold nt; [exact Ftot|]. rewrite Rabs_pos_eq by lra. apply Rle_trans with (bpow radix2 43 / 2); [|].
  2:{ replace (bpow radix2 43) with (2 * bpow radix2 42) by (change 2 with (bpow radix2 1); rewrite <- bpow_plus; reflexivity). lra. }
  assert (bpow radix2 43 = 8796093022208) by (simpl; lra). lra.
- rewrite new_unfold, Hf. fold nt. rewrite L.
  pose proof (from_total_value nt Ftot (conj Hpos NTu)) as Vn. apply Rabs_le_inv in Vn.
  assert (B69 : bpow radix2 (-69) = 2 * bpow radix2 (-70)) by (change 2 with (bpow radix2 1); rewrite <- bpow_plus; reflexivity).
  assert (B49 : bpow radix2 (-49) = / 562949953421312) by (simpl; lra).
  assert (S100 : 4 * bpow radix2 (-100) <= bpow radix2 (-70)).
  { apply Rle_trans with (bpow radix2 (-98)). replace (bpow radix2 (-98)) with (4 * bpow radix2 (-100)) by (change 4 with (bpow radix2 2); rewrite <- bpow_plus; reflexivity). lra. apply bpow_le; lia. }
  apply Rabs_le. rewrite B69, B49. nra.
Qed.
