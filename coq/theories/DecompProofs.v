(* DecompProofs: the rejection is orthogonal to the target (C11), REAL pi / cos / sin. *)
From Coq Require Import ZArith List Bool Reals Lra Lia Psatz.
From Flocq Require Import Core BinarySingleNaN.
Require Import GV.FloatBase GV.FloatLemmas GV.AngleM GV.AngleProofs GV.NewProofs GV.CtorProofs GV.GeonumM GV.GeonumProofs
  GV.ClosureProofs GV.SumUpper GV.PiBounds GV.TrigProofs GV.DotValue GV.DistValue GV.DirProofs GV.SumDir.
Open Scope R_scope.

Section Decomp.
Context (L : libm) (u u2 : R).

(* the Cartesian point of the projection against the true projection (g . o) o *)
Lemma project_signed g onto : cos_acc L u -> u <= / 1000 -> 0 <= R_ (mag g) ->
  canonp (rem (ang g)) -> canonp (rem (ang onto)) -> (0 <= blade (ang g))%Z -> (0 <= blade (ang onto))%Z ->
  flt (fabs (mag onto)) EPSILON = false -> fin (mag (gproject L g onto)) ->
  let p := gproject L g onto in
  let w := u + 10002 / 100000000000000 in
  canonp (rem (ang p)) /\ (0 <= blade (ang p))%Z /\
  exists sg : R, (sg = 1 \/ sg = -1) /\
    cos (dirR (ang p)) = sg * cos (dir (ang onto)) /\ sin (dirR (ang p)) = sg * sin (dir (ang onto)) /\
    Rabs (R_ (mag g) * cos (dir (ang onto) - dir (ang g)) - sg * R_ (mag p)) <= 3 * R_ (mag g) * w + bpow radix2 (-1075).
Proof.
intros HL Hu M0 Cg Co Hg Ho Hm Fv p w.
pose proof (gproject_mag_value L u g onto HL Hu Cg Co Hg Ho Hm Fv) as EM. fold p in EM.
destruct (aproject_value L u (ang g) (ang onto) HL Cg Co Hg Ho) as (Fpf & Epf).
destruct (gproject_struct L g onto) as [_ ES]. specialize (ES Hm). cbv zeta in ES.
set (pf := aproject L (ang g) (ang onto)) in *. set (cd := cos (dir (ang onto) - dir (ang g))) in *.
rewrite (Rabs_pos_eq (R_ (mag g)) M0) in EM.
pose proof (COS_bound (dir (ang onto) - dir (ang g))) as CB. fold cd in CB.
assert (u0 : 0 <= u) by (apply (acc_u_nonneg L u); now left).
assert (W0 : 0 <= w) by (unfold w; lra).
assert (Ew : Rabs (R_ pf - cd) <= w) by (unfold w; lra).
apply Rabs_le_inv in EM. apply Rabs_le_inv in Ew.
assert (GW : 0 <= R_ (mag g) * w) by (apply Rmult_le_pos; lra).
set (w0 := u + 10002 / 100000000000000) in *. assert (WD : w = w0) by reflexivity. clearbody w0. subst w.
rewrite fge_R in ES by (auto; reflexivity). rewrite R_zero in ES.
destruct (Rle_bool_spec 0 (R_ pf)) as [Pp|Pn].
- (* along onto *)
  assert (EA : ang p = ang onto) by (unfold p; rewrite ES; reflexivity).
  rewrite EA. split; [exact Co|]. split; [exact Ho|]. exists 1. split; [now left|].
  rewrite (cos_dirR _ Ho), (sin_dirR _ Ho). split; [ring|]. split; [ring|].
  destruct (Rle_lt_dec 0 cd) as [C0|C0].
  + rewrite (Rabs_pos_eq cd C0) in EM. apply Rabs_le. lra.
  + rewrite (Rabs_left cd C0) in EM. assert (- w0 <= cd) by lra.
    assert (R_ (mag g) * (- cd) <= R_ (mag g) * w0) by (apply Rmult_le_compat_l; lra).
    apply Rabs_le. nra.
- (* along onto + pi *)
  assert (EA : ang p = add_vv (ang onto) (new one one)) by (unfold p; rewrite ES; reflexivity).
  pose proof (step_by_k (ang onto) 2 Co) as S2. unfold add_vv in EA. rewrite new_1_1 in EA. rewrite EA.
  split; [eapply steps_canon; eauto|]. split; [destruct S2 as (B & _); lia|].
  exists (-1). split; [now right|].
  rewrite (steps_dirR _ _ _ S2). simpl (IZR 2). replace (dirR (ang onto) + 2 * (Rtrigo1.PI / 2)) with (dirR (ang onto) + Rtrigo1.PI) by field.
  rewrite neg_cos, neg_sin, (cos_dirR _ Ho), (sin_dirR _ Ho). split; [ring|]. split; [ring|].
  destruct (Rle_lt_dec 0 cd) as [C0|C0].
  + rewrite (Rabs_pos_eq cd C0) in EM. assert (cd <= w0) by lra.
    assert (R_ (mag g) * cd <= R_ (mag g) * w0) by (apply Rmult_le_compat_l; lra).
    apply Rabs_le. nra.
  + rewrite (Rabs_left cd C0) in EM. apply Rabs_le. lra.
Qed.

(* C11: the rejection g - project(g, onto) is orthogonal to onto: the component of its Cartesian point along
   onto's direction vanishes up to the tolerances of the projection and of the subtraction (general path) *)
Lemma reject_orthogonal g onto : cos_acc L u -> sin_acc L u -> atan2_acc L u2 -> u <= / 1000 -> 0 <= R_ (mag g) ->
  canonp (rem (ang g)) -> canonp (rem (ang onto)) -> (0 <= blade (ang g))%Z -> (0 <= blade (ang onto))%Z ->
  flt (fabs (mag onto)) EPSILON = false -> fin (mag (gproject L g onto)) ->
  let np := gnegate (gproject L g onto) in
  aeqb (ang g) (ang np) = false ->
  aeqb (add_vv (ang g) (new one one)) (ang np) || aeqb (add_vv (ang np) (new one one)) (ang g) = false ->
  (0 <= blade (ang g) + blade (ang np) < 2 ^ 40)%Z ->
  fin (gadd_rad L g np) ->
  fin (fadd (fmul (mag g) (sinF L (grade_angle (ang g)))) (fmul (mag np) (sinF L (grade_angle (ang np))))) ->
  fin (fadd (fmul (mag g) (cosF L (grade_angle (ang g)))) (fmul (mag np) (cosF L (grade_angle (ang np))))) ->
  let r := reject L g onto in
  let M := Rabs (R_ (mag g)) + Rabs (R_ (mag np)) in
  let E := M * (u + 3 / 1000000000000000) + 4 * bpow radix2 (-1075) in
  let S := R_ (mag g) * R_ (mag g) + R_ (mag np) * R_ (mag np) in
  let Bnd := S * (u + 1 / 100000000000000) + 10 * bpow radix2 (-1075) in
  let tolN := R_ eps10 + 3 / 100000000000000 + IZR (blade (ang g) + blade (ang np)) * (4 / 1000000000000000) in
  let Vx := R_ (mag g) * cos (dir (ang g)) + R_ (mag np) * cos (dir (ang np)) in
  let Vy := R_ (mag g) * sin (dir (ang g)) + R_ (mag np) * sin (dir (ang np)) in
  let T := sqrt Bnd * (1 + / 9007199254740992) + / 9007199254740992 * sqrt (Vx * Vx + Vy * Vy) + bpow radix2 (-1075)
           + 3 * E + (M + 2 * E) * (u2 + tolN) in
  Rabs (R_ (mag r) * (cos (dirR (ang r)) * cos (dir (ang onto)) + sin (dirR (ang r)) * sin (dir (ang onto))))
    <= 2 * T + 3 * R_ (mag g) * (u + 10002 / 100000000000000) + bpow radix2 (-1075).
Proof.
intros HC HS HA Hu M0 Cg Co Hg Ho Hm Fv np N1 N2 Hn Frad Fopp Fadj r M E S Bnd tolN Vx Vy T.
destruct (project_signed g onto HC Hu M0 Cg Co Hg Ho Hm Fv) as (Cp & Bp & sg & Hsg & Ecs & Esn & EP).
set (p := gproject L g onto) in *.
pose proof (negate_step (ang p) Cp) as SN.
assert (Cnp : canonp (rem (ang np))) by (unfold np; cbn [gnegate ang]; eapply steps_canon; eauto).
assert (Bnp : (0 <= blade (ang np))%Z) by (unfold np; cbn [gnegate ang]; destruct SN as (B & _); lia).
destruct (gadd_cartesian L u u2 g np HC HS HA Hu Cg Cnp N1 N2 Hn Frad Fopp Fadj) as [EX EY].
fold M E S Bnd tolN Vx Vy T in EX, EY.
assert (ER : gadd_vv L g np = r) by reflexivity. rewrite ER in EX, EY.
set (mr := R_ (mag r)) in *. set (phi := dirR (ang r)) in *.
set (co := cos (dir (ang onto))) in *. set (so := sin (dir (ang onto))) in *.
(* the direction of -p *)
assert (CN : cos (dir (ang np)) = - (sg * co) /\ sin (dir (ang np)) = - (sg * so)).
{ rewrite <- (cos_dirR _ Bnp), <- (sin_dirR _ Bnp). unfold np. cbn [gnegate ang].
  rewrite (negate_dirR (ang p) Cp), neg_cos, neg_sin, Ecs, Esn. split; ring. }
destruct CN as [CNc CNs].
assert (MN : R_ (mag np) = R_ (mag p)) by reflexivity.
pose proof (sin2_cos2 (dir (ang onto))) as PY. unfold Rsqr in PY. fold co so in PY.
assert (DOT : Vx * co + Vy * so = R_ (mag g) * cos (dir (ang onto) - dir (ang g)) - sg * R_ (mag p)).
{ unfold Vx, Vy. rewrite CNc, CNs, MN, cos_minus. fold co so.
  transitivity (R_ (mag g) * (co * cos (dir (ang g)) + so * sin (dir (ang g))) - sg * R_ (mag p) * (so * so + co * co)); [ring|].
  rewrite PY. ring. }
assert (CO1 : Rabs co <= 1) by (unfold co; apply Rabs_le; pose proof (COS_bound (dir (ang onto))); lra).
assert (SO1 : Rabs so <= 1) by (unfold so; apply Rabs_le; pose proof (SIN_bound (dir (ang onto))); lra).
assert (T0 : 0 <= T) by (pose proof (Rabs_pos (mr * cos phi - Vx)); lra).
replace (mr * (cos phi * co + sin phi * so)) with ((mr * cos phi - Vx) * co + (mr * sin phi - Vy) * so + (Vx * co + Vy * so)) by ring.
rewrite DOT.
eapply Rle_trans; [apply Rabs_triang|]. eapply Rle_trans; [apply Rplus_le_compat_r, Rabs_triang|].
rewrite !Rabs_mult.
pose proof (Rabs_pos (mr * cos phi - Vx)). pose proof (Rabs_pos (mr * sin phi - Vy)). pose proof (Rabs_pos co). pose proof (Rabs_pos so).
assert (Q1 : Rabs (mr * cos phi - Vx) * Rabs co <= T) by nra.
assert (Q2 : Rabs (mr * sin phi - Vy) * Rabs so <= T) by nra.
lra.
Qed.
End Decomp.
