(* DirProofs: directions with the REAL pi for addition, the step operators, rotation and reflection. *)
From Coq Require Import ZArith List Bool Reals Lra Lia Psatz.
From Flocq Require Import Core BinarySingleNaN.
Require Import GV.FloatBase GV.FloatLemmas GV.AngleM GV.AngleProofs GV.NewProofs GV.CtorProofs GV.GeonumM GV.GeonumProofs GV.PiBounds GV.TrigProofs GV.DotValue.
Open Scope R_scope.

Lemma theta_dirR a : theta a = dirR a - IZR (blade a) * (Rtrigo1.PI / 2 - R_ Q).
Proof. unfold theta, dirR. ring. Qed.

Lemma delta_small : 0 < Rtrigo1.PI / 2 - R_ Q <= 7 / 100000000000000000.
Proof.
pose proof q_close_to_half_pi as QP. pose proof q_below_half_pi as QB. rewrite <- Qval in QP, QB.
apply Rabs_le_inv in QP. lra.
Qed.

(* C03: the sum points along dirR a + dirR b (no wrap: blades only grow) *)
Lemma geometric_add_dirR a b : canonp (rem a) -> canonp (rem b) ->
  Rabs (dirR (geometric_add a b) - (dirR a + dirR b)) <= R_ eps10 + / 2251799813685248 + 1 / 10000000000000000.
Proof.
intros Ca Cb. pose proof (geometric_add_total a b Ca Cb) as E.
destruct (geometric_add_canon a b Ca Cb) as (_ & Hb).
rewrite !theta_dirR in E. pose proof delta_small as D. set (dl := Rtrigo1.PI / 2 - R_ Q) in *.
apply Rabs_le_inv in E. apply Rabs_le.
destruct Hb as [B|B]; rewrite B in E; rewrite ?plus_IZR in E; simpl (IZR 1) in E; lra.
Qed.

(* C07: a step operator turns the direction by exactly k quarter turns of the REAL pi *)
Lemma steps_dirR a a' k : steps_to a a' k -> dirR a' = dirR a + IZR k * (Rtrigo1.PI / 2).
Proof. intros (B & R & _). unfold dirR. rewrite B, R, plus_IZR. ring. Qed.

Lemma dual_dirR a : canonp (rem a) -> dirR (dual a) = dirR a + Rtrigo1.PI.
Proof. intros C. rewrite (steps_dirR _ _ _ (dual_step a C)). simpl (IZR 2). lra. Qed.
Lemma undual_dirR a : canonp (rem a) -> dirR (undual a) = dirR a + Rtrigo1.PI.
Proof. intros C. rewrite (steps_dirR _ _ _ (undual_step a C)). simpl (IZR 2). lra. Qed.
Lemma negate_dirR a : canonp (rem a) -> dirR (negate a) = dirR a + Rtrigo1.PI.
Proof. intros C. rewrite (steps_dirR _ _ _ (negate_step a C)). simpl (IZR 2). lra. Qed.
Lemma conjugate_dirR a : canonp (rem a) -> dirR (conjugate a) = dirR a + Rtrigo1.PI.
Proof. intros C. rewrite (steps_dirR _ _ _ (conjugate_step a C)). simpl (IZR 2). lra. Qed.

(* hence cos and sin flip sign exactly under each of them *)
Lemma dual_cos_sin a : canonp (rem a) -> cos (dirR (dual a)) = - cos (dirR a) /\ sin (dirR (dual a)) = - sin (dirR a).
Proof. intros C. rewrite (dual_dirR a C). split; [apply neg_cos|apply neg_sin]. Qed.

(* base_angle keeps the direction modulo whole turns: dirR (base_angle a) = dir a *)
Lemma base_angle_dirR a : dirR (base_angle a) = dir a.
Proof. reflexivity. Qed.

(* C12: rotation adds the directions *)
Lemma grotate_dirR g r : canonp (rem (ang g)) -> canonp (rem r) ->
  mag (grotate g r) = mag g /\
  Rabs (dirR (ang (grotate g r)) - (dirR (ang g) + dirR r)) <= R_ eps10 + / 2251799813685248 + 1 / 10000000000000000.
Proof. intros Cg Cr. destruct (grotate_spec g r) as [M A]. rewrite A. split; [exact M|]. now apply geometric_add_dirR. Qed.

(* C12: the reflected direction is 2*axis - point, plus exactly two whole turns (4 pi) of blade history *)
Lemma reflect_dirR g axis : canonp (rem (ang g)) -> Canon (ang axis) -> (0 <= blade (ang g))%Z ->
  Rabs (dirR (ang (reflect g axis)) - (2 * dirR (ang axis) - dir (ang g) + 4 * Rtrigo1.PI))
    <= 3 * R_ eps10 + 7 * / 4503599627370496 + 3 / 10000000000000000.
Proof.
intros Cg Ca Hg. pose proof (reflect_law g axis Cg Ca) as E. destruct Ca as [Ca Ba].
destruct (reflect_spec g axis Cg (conj Ca Ba)) as (_ & Cr & _).
unfold theta in E. unfold dirR, dir. change (blade (base_angle (ang g))) with (grade (ang g)) in E.
change (rem (base_angle (ang g))) with (rem (ang g)) in E.
set (r := ang (reflect g axis)) in *.
pose proof delta_small as D. set (dl := Rtrigo1.PI / 2 - R_ Q) in *.
assert (HP : Rtrigo1.PI = 2 * (R_ Q + dl)) by (unfold dl; field).
clearbody dl. rewrite HP. clear HP.
set (k := (blade r - 2 * blade (ang axis) - 8 + grade (ang g))%Z).
assert (Ek : IZR (blade r) = 2 * IZR (blade (ang axis)) + 8 - IZR (grade (ang g)) + IZR k).
{ unfold k. rewrite plus_IZR, !minus_IZR, mult_IZR. simpl. ring. }
rewrite Ek in *. apply Rabs_le_inv in E.
destruct Cr as (Fr & R0 & R1). destruct Ca as (Fa & A0 & A1). destruct Cg as (Fg & G0 & G1).
rewrite Qval, E10val in *.
assert (Kb : (-3 < k < 3)%Z) by (split; apply lt_IZR; simpl; lra).
assert (Kr : -2 <= IZR k <= 2) by (split; apply IZR_le; lia).
apply Rabs_le. nra.
Qed.

(* a concrete canonical remainder: the double nearest pi/4 (used by the non-vacuity examples) *)
Lemma quarter_pi_val : R_ (of_bits 4605249457297304856) = 7074237752028440 / 9007199254740992.
Proof. vm_compute (of_bits 4605249457297304856). unfold B2R, F2R. simpl. lra. Qed.
Lemma quarter_pi_canon : canonp (of_bits 4605249457297304856).
Proof. split; [reflexivity|]. rewrite quarter_pi_val, Qval, E10val. lra. Qed.
