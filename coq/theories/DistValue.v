(* DistValue: the law-of-cosines value of distance_to with the REAL pi and cos. *)
From Coq Require Import ZArith List Bool Reals Lra Lia Psatz.
From Flocq Require Import Core BinarySingleNaN Mult_error.
Require Import GV.FloatBase GV.FloatLemmas GV.AngleM GV.AngleProofs GV.NewProofs GV.CtorProofs GV.GeonumM GV.GeonumProofs GV.PiBounds GV.TrigProofs GV.DotValue.
Open Scope R_scope.

Lemma fadd_fin_R x y : fin (fadd x y) -> fin x /\ fin y /\ R_ (fadd x y) = rnd (R_ x + R_ y).
Proof.
intros Fs.
assert (Fx : fin x /\ fin y).
{ unfold fin, fadd in *. destruct x as [sx|sx| |sx mx ex Hx]; destruct y as [sy|sy| |sy my ey Hy];
    try (split; reflexivity); try discriminate Fs; exfalso; simpl in Fs; try discriminate Fs;
    destruct (Bool.eqb sx sy); discriminate Fs. }
destruct Fx as [Fx Fy]. split; [exact Fx|]. split; [exact Fy|].
generalize (Bplus_correct prec emax Hprec Hmax mode_NE x y Fx Fy).
destruct (Rlt_bool _ _).
- intros (A & _). exact A.
- intros (O & _). exfalso. unfold fin, fadd in Fs. rewrite <- is_finite_SF_B2SF, O in Fs. discriminate.
Qed.

Lemma fsub_fin_R x y : fin (fsub x y) -> fin x /\ fin y /\ R_ (fsub x y) = rnd (R_ x - R_ y).
Proof.
intros Fs.
assert (Fx : fin x /\ fin y).
{ unfold fin, fsub in *. destruct x as [sx|sx| |sx mx ex Hx]; destruct y as [sy|sy| |sy my ey Hy];
    try (split; reflexivity); try discriminate Fs; exfalso; simpl in Fs; try discriminate Fs;
    destruct (Bool.eqb sx (negb sy)); discriminate Fs. }
destruct Fx as [Fx Fy]. split; [exact Fx|]. split; [exact Fy|].
generalize (Bminus_correct prec emax Hprec Hmax mode_NE x y Fx Fy).
destruct (Rlt_bool _ _).
- intros (A & _). exact A.
- intros (O & _). exfalso. unfold fin, fsub in Fs. rewrite <- is_finite_SF_B2SF, O in Fs. discriminate.
Qed.

Lemma two_R : R_ two = 2. Proof. destruct two_val as [V _]. exact V. Qed.

Lemma fmul_two_exact x : fin (fmul two x) -> fin x /\ R_ (fmul two x) = 2 * R_ x.
Proof.
intros Fm. destruct (fmul_fin_R _ _ Fm) as (_ & Fx & V). split; [exact Fx|].
rewrite V, two_R. apply round_generic; auto with typeclass_instances.
replace (2 * R_ x) with (R_ x * bpow radix2 1) by (change (bpow radix2 1) with 2; ring).
apply mult_bpow_pos_exact_FLT; [apply fmt_R|lia].
Qed.

(* sqrt(max(x, 0.0)) of a finite x *)
Lemma fsqrt_fmax_R x : fin x ->
  fin (fsqrt (fmax x zero)) /\ R_ (fsqrt (fmax x zero)) = rnd (sqrt (Rmax (R_ x) 0)).
Proof.
intros Fx. unfold fsqrt, fmax.
destruct x as [s|s| |s m e H]; try discriminate Fx.
- change (R_ (B754_zero s)) with 0. rewrite Rmax_left by lra.
  destruct s; simpl; rewrite sqrt_0, round_0; auto with typeclass_instances.
- cbn [fis_nan zero of_bits]. change (fis_nan zero) with false. cbv iota.
  rewrite flt_neg_finite. destruct s.
  + assert (K := F2R_lt_0 radix2 (Float radix2 (Z.neg m) e) ltac:(simpl; lia)).
    change (R_ (B754_finite true m e H)) with (F2R (Float radix2 (Z.neg m) e)).
    rewrite Rmax_right by lra. change (Bsqrt mode_NE zero) with zero. rewrite R_zero, sqrt_0, round_0; auto with typeclass_instances.
  + assert (K := F2R_gt_0 radix2 (Float radix2 (Z.pos m) e) ltac:(simpl; lia)).
    generalize (Bsqrt_correct prec emax Hprec Hmax mode_NE (B754_finite false m e H)). intros (V & Fn & _).
    split; [exact Fn|]. rewrite V.
    change (R_ (B754_finite false m e H)) with (F2R (Float radix2 (Z.pos m) e)).
    rewrite Rmax_left by lra. reflexivity.
Qed.

Lemma sqrt_diff_le x y : 0 <= x -> 0 <= y -> Rabs (sqrt x - sqrt y) <= sqrt (Rabs (x - y)).
Proof.
assert (K : forall p q, 0 <= q -> q <= p -> sqrt p - sqrt q <= sqrt (p - q)).
{ intros p q Hq Hpq. assert (Hd : 0 <= p - q) by lra.
  pose proof (sqrt_pos q) as S1. pose proof (sqrt_pos (p - q)) as S2.
  assert (sqrt p <= sqrt q + sqrt (p - q)); [|lra].
  rewrite <- (sqrt_square (sqrt q + sqrt (p - q))) by lra.
  apply sqrt_le_1_alt.
  replace ((sqrt q + sqrt (p - q)) * (sqrt q + sqrt (p - q)))
    with (sqrt q * sqrt q + sqrt (p - q) * sqrt (p - q) + 2 * sqrt q * sqrt (p - q)) by ring.
  rewrite !sqrt_sqrt by lra. nra. }
intros Hx Hy. destruct (Rle_lt_dec y x) as [L|L].
- rewrite (Rabs_pos_eq (x - y)) by lra. rewrite Rabs_pos_eq. now apply K.
  assert (sqrt y <= sqrt x) by (apply sqrt_le_1_alt; lra). lra.
- rewrite (Rabs_left (x - y)) by lra. rewrite Rabs_left1.
  + replace (- (sqrt x - sqrt y)) with (sqrt y - sqrt x) by ring. replace (- (x - y)) with (y - x) by ring. apply K; lra.
  + assert (sqrt x <= sqrt y) by (apply sqrt_le_1_alt; lra). lra.
Qed.


(* ---- the law-of-cosines radicand, over the reals: s = fl(fl(ma^2) + fl(mb^2)), p ~ 2 ma mb C ---- *)
Lemma radicand_core (ma mb p C w : R) :
  Rabs C <= 1 -> 0 <= w -> w <= 12 / 10000 ->
  Rabs (p - 2 * ma * mb * C) <= Rabs (2 * ma * mb) * w + 4 * bpow radix2 (-1075) ->
  let S := ma * ma + mb * mb in
  let D := S - 2 * ma * mb * C in
  0 <= D /\
  Rabs (rnd (rnd (rnd (ma * ma) + rnd (mb * mb)) - p) - D) <= S * (w + 8 / 10000000000000000) + 10 * bpow radix2 (-1075).
Proof.
intros HC w0 Hw Ep S D.
pose proof (bpow_gt_0 radix2 (-1075)) as Hp. set (eta := bpow radix2 (-1075)) in *.
assert (A0 : 0 <= ma * ma) by nra. assert (B0 : 0 <= mb * mb) by nra.
assert (PS : Rabs (2 * ma * mb) <= S).
{ unfold S. pose proof (Rle_0_sqr (ma + mb)) as Q1. pose proof (Rle_0_sqr (ma - mb)) as Q2. unfold Rsqr in Q1, Q2.
  apply Rabs_le; split; lra. }
assert (PC : Rabs (2 * ma * mb * C) <= S).
{ rewrite Rabs_mult. pose proof (Rabs_pos (2 * ma * mb)). pose proof (Rabs_pos C). nra. }
assert (D0 : 0 <= D). { unfold D. apply Rabs_le_inv in PC. lra. }
split; [exact D0|].
pose proof (rnd_rel (ma * ma)) as E1. rewrite (Rabs_pos_eq _ A0) in E1. pose proof (rnd_ge0 _ A0) as T1.
pose proof (rnd_rel (mb * mb)) as E2. rewrite (Rabs_pos_eq _ B0) in E2. pose proof (rnd_ge0 _ B0) as T2.
set (t1 := rnd (ma * ma)) in *. set (t2 := rnd (mb * mb)) in *.
assert (T12 : 0 <= t1 + t2) by lra.
pose proof (rnd_rel (t1 + t2)) as Es. rewrite (Rabs_pos_eq _ T12) in Es. pose proof (rnd_ge0 _ T12) as Ts.
set (s := rnd (t1 + t2)) in *.
pose proof (rnd_rel (s - p)) as Ed. set (d := rnd (s - p)) in *.
fold eta in E1, E2, Es, Ed.
apply Rabs_le_inv in E1. apply Rabs_le_inv in E2. apply Rabs_le_inv in Es.
set (T := Rabs (2 * ma * mb) * w) in *.
assert (TS : T <= S * w) by (apply Rmult_le_compat_r; lra).
assert (T0 : 0 <= T) by (unfold T; pose proof (Rabs_pos (2 * ma * mb)); nra).
assert (S0 : 0 <= S) by (unfold S; lra).
assert (SU1 : S * w <= S * (12 / 10000)) by (apply Rmult_le_compat_l; lra).
assert (Pb : Rabs p <= S + T + 4 * eta).
{ replace p with ((p - 2 * ma * mb * C) + 2 * ma * mb * C) by ring. eapply Rle_trans; [apply Rabs_triang|]. lra. }
assert (Sb : s <= 2 * S + 4 * eta) by (unfold S; lra).
assert (SPb : Rabs (s - p) <= 4 * S + 9 * eta).
{ eapply Rle_trans; [apply Rabs_triang|]. rewrite Rabs_Ropp, (Rabs_pos_eq s) by exact Ts. lra. }
replace (d - D) with ((d - (s - p)) + (s - S) - (p - 2 * ma * mb * C)) by (unfold D; ring).
eapply Rle_trans; [apply Rabs_triang|]. eapply Rle_trans; [apply Rplus_le_compat_r, Rabs_triang|].
rewrite Rabs_Ropp.
assert (SS : Rabs (s - S) <= 3 / 9007199254740992 * S + 4 * eta) by (apply Rabs_le; unfold S; lra).
lra.
Qed.

(* sqrt(max(d, 0)) rounded, against sqrt of the exact radicand *)
Lemma sqrt_stage (d D Bnd : R) : 0 <= D -> Rabs (d - D) <= Bnd ->
  Rabs (rnd (sqrt (Rmax d 0)) - sqrt D)
    <= sqrt Bnd * (1 + / 9007199254740992) + / 9007199254740992 * sqrt D + bpow radix2 (-1075).
Proof.
intros D0 E. set (r := Rmax d 0).
assert (R0 : 0 <= r) by apply Rmax_r.
assert (RD : Rabs (r - D) <= Bnd).
{ eapply Rle_trans; [|exact E]. unfold r, Rmax. destruct (Rle_dec d 0) as [Ln|Gp]; [|lra].
  rewrite (Rabs_left1 (0 - D)) by lra. rewrite (Rabs_left1 (d - D)) by lra. lra. }
pose proof (sqrt_pos r) as Sr. pose proof (sqrt_pos D) as SD. pose proof (sqrt_pos Bnd) as SB.
pose proof (rnd_rel (sqrt r)) as Er. rewrite (Rabs_pos_eq _ Sr) in Er.
pose proof (sqrt_diff_le r D R0 D0) as Sd.
assert (Sq : sqrt (Rabs (r - D)) <= sqrt Bnd) by (apply sqrt_le_1_alt; exact RD).
apply Rabs_le_inv in Er. assert (Sd' := Rle_trans _ _ _ Sd Sq). apply Rabs_le_inv in Sd'.
apply Rabs_le. lra.
Qed.

Section DistValue.
Context (L : libm) (u : R).

Definition dist_sq (a b : geonum) : F :=
  fsub (fadd (fmul (mag a) (mag a)) (fmul (mag b) (mag b)))
       (fmul (fmul (fmul two (mag a)) (mag b)) (cosF L (grade_angle (sub_vv (ang b) (ang a))))).

Lemma distance_unfold a b : mag (distance_to L a b) = fabs (fsqrt (fmax (dist_sq a b) zero)).
Proof. reflexivity. Qed.

(* the three-factor product 2|a||b|c against 2|a||b|C *)
Lemma cross_term_value x y c (C w : R) : fin (fmul (fmul (fmul two x) y) c) ->
  Rabs C <= 1 -> Rabs (R_ c - C) <= w -> w <= 11 / 10000 ->
  Rabs (R_ (fmul (fmul (fmul two x) y) c) - 2 * R_ x * R_ y * C)
    <= Rabs (2 * R_ x * R_ y) * (w + 4 / 10000000000000000) + 4 * bpow radix2 (-1075).
Proof.
intros Fp HC Ec Hw.
destruct (fmul_fin_R _ _ Fp) as (Fxm & _ & _). destruct (fmul_fin_R _ _ Fxm) as (Fx2 & _ & _).
destruct (fmul_two_exact _ Fx2) as (_ & V2x).
pose proof (fmul3_value _ _ _ C _ Fp HC Ec Hw) as Ep. rewrite V2x in Ep.
replace (bpow radix2 (-1073)) with (4 * bpow radix2 (-1075)) in Ep; [exact Ep|].
change (-1073)%Z with (2 + -1075)%Z. rewrite bpow_plus. simpl (bpow radix2 2). lra.
Qed.

(* C13: the computed radicand is |a|^2 + |b|^2 - 2|a||b|cos(direction difference) *)
Lemma dist_sq_value a b : cos_acc L u -> u <= / 1000 ->
  canonp (rem (ang a)) -> canonp (rem (ang b)) -> (0 <= blade (ang a))%Z -> (0 <= blade (ang b))%Z ->
  fin (dist_sq a b) ->
  let S := R_ (mag a) * R_ (mag a) + R_ (mag b) * R_ (mag b) in
  let D := S - 2 * R_ (mag a) * R_ (mag b) * cos (dir (ang b) - dir (ang a)) in
  0 <= D /\ Rabs (R_ (dist_sq a b) - D) <= S * (u + 10003 / 100000000000000) + 10 * bpow radix2 (-1075).
Proof.
intros HL Hu Ca Cb Ha Hb Fd S D. unfold dist_sq, sub_vv in *.
destruct (dot_cos_value L u (ang a) (ang b) HL Ca Cb Ha Hb) as (Fc & Ec).
set (c := cosF L (grade_angle (geometric_sub (ang b) (ang a)))) in *.
pose proof (COS_bound (dir (ang b) - dir (ang a))) as CB.
assert (u0 : 0 <= u) by (apply (acc_u_nonneg L u); now left).
destruct (fsub_fin_R _ _ Fd) as (Fs & Fp & Vd).
destruct (fadd_fin_R _ _ Fs) as (F1 & F2 & Vs).
destruct (fmul_fin_R _ _ F1) as (_ & _ & V1). destruct (fmul_fin_R _ _ F2) as (_ & _ & V2).
assert (HC : Rabs (cos (dir (ang b) - dir (ang a))) <= 1) by (apply Rabs_le; lra).
assert (Hw : u + 10001 / 100000000000000 <= 11 / 10000) by lra.
pose proof (cross_term_value _ _ _ _ _ Fp HC Ec Hw) as Ep.
rewrite Vd, Vs, V1, V2.
destruct (radicand_core _ _ _ _ (u + 10001 / 100000000000000 + 4 / 10000000000000000) HC ltac:(lra) ltac:(lra) Ep) as (D0 & E).
split; [exact D0|]. eapply Rle_trans; [exact E|].
assert (0 <= R_ (mag a) * R_ (mag a) + R_ (mag b) * R_ (mag b)) by nra.
unfold S. nra.
Qed.

(* C13: distance_to is the Euclidean distance sqrt(D) up to the square root of the radicand error *)
Lemma distance_value a b : cos_acc L u -> u <= / 1000 ->
  canonp (rem (ang a)) -> canonp (rem (ang b)) -> (0 <= blade (ang a))%Z -> (0 <= blade (ang b))%Z ->
  fin (dist_sq a b) ->
  let S := R_ (mag a) * R_ (mag a) + R_ (mag b) * R_ (mag b) in
  let D := S - 2 * R_ (mag a) * R_ (mag b) * cos (dir (ang b) - dir (ang a)) in
  let Bnd := S * (u + 10003 / 100000000000000) + 10 * bpow radix2 (-1075) in
  Rabs (R_ (mag (distance_to L a b)) - sqrt D)
    <= sqrt Bnd * (1 + / 9007199254740992) + / 9007199254740992 * sqrt D + bpow radix2 (-1075).
Proof.
intros HL Hu Ca Cb Ha Hb Fd S D Bnd.
destruct (dist_sq_value a b HL Hu Ca Cb Ha Hb Fd) as (D0 & E). fold S D Bnd in D0, E.
rewrite distance_unfold, fabs_R. destruct (fsqrt_fmax_R _ Fd) as (Ff & V). rewrite V.
rewrite (Rabs_pos_eq (rnd (sqrt (Rmax (R_ (dist_sq a b)) 0)))) by (apply rnd_ge0, sqrt_pos).
now apply sqrt_stage.
Qed.

(* ---- C06: the general path of Geonum + Geonum ---- *)
Definition gadd_rad (a b : geonum) : F :=
  fadd (fadd (fpowi2 (mag a)) (fpowi2 (mag b)))
       (fmul (fmul (fmul two (mag a)) (mag b)) (cosF L (fsub (grade_angle (ang b)) (grade_angle (ang a))))).

Lemma gadd_general_mag a b : aeqb (ang a) (ang b) = false ->
  aeqb (add_vv (ang a) (new one one)) (ang b) || aeqb (add_vv (ang b) (new one one)) (ang a) = false ->
  mag (gadd_vv L a b) = fsqrt (fmax (gadd_rad a b) zero).
Proof. intros E1 E2. unfold gadd_vv. rewrite E1, E2. reflexivity. Qed.

Lemma gadd_cos_value a b : cos_acc L u -> canonp (rem a) -> canonp (rem b) ->
  let c := cosF L (fsub (grade_angle b) (grade_angle a)) in
  fin c /\ Rabs (R_ c - cos (dir b - dir a)) <= u + 6 / 1000000000000000.
Proof.
intros HL Ca Cb c.
destruct (grade_angle_range a Ca) as (Fa & A0 & A1). destruct (grade_angle_range b Cb) as (Fb & B0 & B1).
pose proof (grade_angle_dir a Ca) as Da. pose proof (grade_angle_dir b Cb) as Db.
rewrite Qval in A1, B1.
destruct (fsub_R (grade_angle b) (grade_angle a) Fb Fa) as [V Fs].
{ apply small_le_1000. apply Rabs_le. lra. }
pose proof (rnd_rel (R_ (grade_angle b) - R_ (grade_angle a))) as Er. rewrite <- V in Er.
assert (Ab : Rabs (R_ (grade_angle b) - R_ (grade_angle a)) <= 7) by (apply Rabs_le; lra).
assert (Tiny : bpow radix2 (-1075) <= / 1073741824 / 1073741824 / 1073741824).
{ apply Rle_trans with (bpow radix2 (-90)). apply bpow_le; lia. simpl. lra. }
set (x := fsub (grade_angle b) (grade_angle a)) in *.
assert (B8 : Rabs (R_ x) <= 8).
{ replace (R_ x) with ((R_ x - (R_ (grade_angle b) - R_ (grade_angle a))) + (R_ (grade_angle b) - R_ (grade_angle a))) by ring.
  eapply Rle_trans; [apply Rabs_triang|]. lra. }
destruct (HL _ Fs B8) as [Fc Ec]. fold c in Fc, Ec. split; [exact Fc|].
pose proof (cos_lip (R_ x) (dir b - dir a)) as Lp.
assert (Dx : Rabs (R_ x - (dir b - dir a)) <= 58 / 10000000000000000).
{ replace (R_ x - (dir b - dir a)) with ((R_ x - (R_ (grade_angle b) - R_ (grade_angle a))) + (R_ (grade_angle b) - dir b) - (R_ (grade_angle a) - dir a)) by ring.
  eapply Rle_trans; [apply Rabs_triang|]. eapply Rle_trans; [apply Rplus_le_compat_r, Rabs_triang|]. rewrite Rabs_Ropp. lra. }
replace (R_ c - cos (dir b - dir a)) with ((R_ c - cos (R_ x)) + (cos (R_ x) - cos (dir b - dir a))) by ring.
eapply Rle_trans; [apply Rabs_triang|]. lra.
Qed.

(* C06: on the general path the magnitude of a + b is the Euclidean length of the Cartesian sum,
   sqrt(|a|^2 + |b|^2 + 2|a||b|cos(direction difference)) *)
Lemma gadd_mag_value a b : cos_acc L u -> u <= / 1000 ->
  canonp (rem (ang a)) -> canonp (rem (ang b)) ->
  aeqb (ang a) (ang b) = false ->
  aeqb (add_vv (ang a) (new one one)) (ang b) || aeqb (add_vv (ang b) (new one one)) (ang a) = false ->
  fin (gadd_rad a b) ->
  let S := R_ (mag a) * R_ (mag a) + R_ (mag b) * R_ (mag b) in
  let D := S + 2 * R_ (mag a) * R_ (mag b) * cos (dir (ang b) - dir (ang a)) in
  let Bnd := S * (u + 1 / 100000000000000) + 10 * bpow radix2 (-1075) in
  0 <= D /\
  Rabs (R_ (mag (gadd_vv L a b)) - sqrt D)
    <= sqrt Bnd * (1 + / 9007199254740992) + / 9007199254740992 * sqrt D + bpow radix2 (-1075).
Proof.
intros HL Hu Ca Cb N1 N2 Fd S D Bnd. rewrite (gadd_general_mag a b N1 N2).
destruct (fsqrt_fmax_R _ Fd) as (Ff & V). rewrite V. unfold gadd_rad, fpowi2 in *.
destruct (gadd_cos_value (ang a) (ang b) HL Ca Cb) as (Fc & Ec).
set (c := cosF L (fsub (grade_angle (ang b)) (grade_angle (ang a)))) in *.
pose proof (COS_bound (dir (ang b) - dir (ang a))) as CB.
assert (u0 : 0 <= u) by (apply (acc_u_nonneg L u); now left).
destruct (fadd_fin_R _ _ Fd) as (Fs & Fp & Vd).
destruct (fadd_fin_R _ _ Fs) as (F1 & F2 & Vs).
destruct (fmul_fin_R _ _ F1) as (_ & _ & V1). destruct (fmul_fin_R _ _ F2) as (_ & _ & V2).
assert (HC : Rabs (cos (dir (ang b) - dir (ang a))) <= 1) by (apply Rabs_le; lra).
assert (Hw : u + 6 / 1000000000000000 <= 11 / 10000) by lra.
pose proof (cross_term_value _ _ _ _ _ Fp HC Ec Hw) as Ep.
set (p := R_ (fmul (fmul (fmul two (mag a)) (mag b)) c)) in *.
set (C := cos (dir (ang b) - dir (ang a))) in *.
assert (HC' : Rabs (- C) <= 1) by (rewrite Rabs_Ropp; exact HC).
assert (Ep' : Rabs (- p - 2 * R_ (mag a) * R_ (mag b) * - C)
   <= Rabs (2 * R_ (mag a) * R_ (mag b)) * (u + 6 / 1000000000000000 + 4 / 10000000000000000) + 4 * bpow radix2 (-1075)).
{ replace (- p - 2 * R_ (mag a) * R_ (mag b) * - C) with (- (p - 2 * R_ (mag a) * R_ (mag b) * C)) by ring. rewrite Rabs_Ropp. exact Ep. }
destruct (radicand_core _ _ _ _ (u + 6 / 1000000000000000 + 4 / 10000000000000000) HC' ltac:(lra) ltac:(lra) Ep') as (D0 & E).
assert (ED : R_ (mag a) * R_ (mag a) + R_ (mag b) * R_ (mag b) - 2 * R_ (mag a) * R_ (mag b) * - C = D) by (unfold D, S; ring).
rewrite ED in D0, E. split; [exact D0|].
rewrite Vd, Vs, V1, V2. fold p.
replace (rnd (R_ (mag a) * R_ (mag a)) + rnd (R_ (mag b) * R_ (mag b))) with (rnd (R_ (mag a) * R_ (mag a)) + rnd (R_ (mag b) * R_ (mag b))) by reflexivity.
replace (rnd (rnd (R_ (mag a) * R_ (mag a)) + rnd (R_ (mag b) * R_ (mag b))) + p)
  with (rnd (rnd (R_ (mag a) * R_ (mag a)) + rnd (R_ (mag b) * R_ (mag b))) - - p) by ring.
apply sqrt_stage; [exact D0|].
eapply Rle_trans; [exact E|].
assert (0 <= S) by (unfold S; nra). fold S. unfold Bnd. nra.
Qed.
End DistValue.
