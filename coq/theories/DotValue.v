(* DotValue: numeric value theorems for the angle difference and the dot product with the REAL pi. *)
From Coq Require Import ZArith List Bool Reals Lra Lia Psatz.
From Flocq Require Import Core BinarySingleNaN.
Require Import GV.FloatBase GV.FloatLemmas GV.AngleM GV.AngleProofs GV.NewProofs GV.CtorProofs GV.GeonumM GV.GeonumProofs GV.PiBounds GV.TrigProofs.
Open Scope R_scope.

Lemma lift_blade_form d : exists j : Z, (0 <= j)%Z /\ lift_blade d = (d + 4 * j)%Z.
Proof.
unfold lift_blade. destruct (Z.ltb_spec d 0).
- exists ((- d + 3) / 4)%Z. split. apply Z.div_pos; lia. lia.
- exists 0%Z. split; lia.
Qed.

(* total of the difference for ALL blade differences: the forward lift adds whole turns 4 j q *)
Lemma geometric_sub_total_gen a b : canonp (rem a) -> canonp (rem b) ->
  exists j : Z, (0 <= j)%Z /\
  Rabs (theta (geometric_sub a b) - (theta a - theta b) - IZR (4 * j) * R_ Q) <= R_ eps10 + 3 * / 4503599627370496.
Proof.
intros Ca Cb. destruct (diff_bounds _ _ Ca Cb) as (Fd & V & [D0 D1]).
pose proof Q_le_V0 as QV. pose proof Qpos as Qp. pose proof E10pos as E10p. pose proof E15pos as E15p.
destruct Ca as (Fa&A0&A1). destruct Cb as (Fb&B0&B1).
assert (Hd4 : Rabs (R_ (rem a) - R_ (rem b)) < 4). { apply Rabs_def1; rewrite Qval, E10val in *; lra. }
assert (Er := rnd_err_4 _ Hd4). rewrite <- V in Er. apply Rabs_le_inv in Er.
unfold theta, geometric_sub. set (rd := fsub (rem a) (rem b)) in *.
rewrite flt_R by auto using fin_fabs, fin_eps15. rewrite fabs_R.
destruct (Rlt_bool_spec (Rabs (R_ rd)) (R_ eps15)) as [N15|N15].
{ destruct (lift_blade_form (blade a - blade b)) as (j & Hj & Ej). exists j. split; [exact Hj|].
  cbn [rem blade]. rewrite Ej. rewrite !plus_IZR, !minus_IZR, R_zero.
  apply Rabs_def2 in N15. apply Rabs_le. rewrite E15val, E10val in *. lra. }
rewrite flt_R by auto using fin_zero. rewrite R_zero.
destruct (Rlt_bool_spec (R_ rd) 0) as [Neg|Pos].
- destruct (fadd_R rd Q Fd fin_Q) as [VA FA].
  { apply small_le_1000. apply Rabs_le. rewrite Qval in *. lra. }
  assert (A40 : Rabs (R_ rd + R_ Q) < 4). { apply Rabs_def1; rewrite Qval in *; lra. }
  assert (Ea := rnd_err_4 _ A40). rewrite <- VA in Ea. apply Rabs_le_inv in Ea.
  assert (T0 : 0 <= R_ (fadd rd Q)) by (rewrite VA; apply rnd_ge0; lra).
  assert (T1 : R_ (fadd rd Q) <= R_ V0).
  { rewrite VA. apply Rle_trans with (R_ Q); [|exact QV].
    rewrite <- (round_generic radix2 fexp ZnearestE (R_ Q)) at 2 by apply fmt_R.
    apply round_le; auto with typeclass_instances. lra. }
  destruct (lift_blade_form (blade a - blade b - 1)) as (j & Hj & Ej). exists j. split; [exact Hj|].
  set (lb := lift_blade (blade a - blade b - 1)) in *.
  assert (Elr : IZR lb = IZR (blade a) - IZR (blade b) - 1 + 4 * IZR j).
  { rewrite Ej. rewrite plus_IZR, !minus_IZR, mult_IZR. simpl. ring. }
  rewrite mult_IZR. simpl (IZR 4).
  destruct (normalize_range (fadd rd Q) lb FA (conj T0 T1)) as (Cn & [(B&Rr&_)|[(B&Rr&Nr)|(B&Rr)]]);
    rewrite B; rewrite ?plus_IZR; rewrite Elr.
  + rewrite Rr. apply Rabs_le. lra.
  + rewrite Rr. apply Rabs_le_inv in Nr. apply Rabs_le. lra.
  + apply Rabs_le. lra.
- destruct (lift_blade_form (blade a - blade b)) as (j & Hj & Ej). exists j. split; [exact Hj|].
  set (lb := lift_blade (blade a - blade b)) in *.
  assert (Elr : IZR lb = IZR (blade a) - IZR (blade b) + 4 * IZR j).
  { rewrite Ej. rewrite plus_IZR, minus_IZR, mult_IZR. simpl. ring. }
  rewrite mult_IZR. simpl (IZR 4).
  destruct (normalize_range rd lb Fd (conj Pos (Rle_trans _ _ _ D1 QV))) as (Cn & [(B&Rr&_)|[(B&Rr&Nr)|(B&Rr)]]);
    rewrite B; rewrite ?plus_IZR; rewrite Elr.
  + rewrite Rr. apply Rabs_le. lra.
  + rewrite Rr. apply Rabs_le_inv in Nr. apply Rabs_le. rewrite Qval in *. lra.
  + apply Rabs_le. lra.
Qed.

(* ---- directions with the REAL pi ---- *)
Definition dirR (a : angle) : R := IZR (blade a) * (Rtrigo1.PI / 2) + R_ (rem a).

Lemma dirR_dir a : (0 <= blade a)%Z ->
  dirR a = dir a + 2 * INR (Z.to_nat (blade a / 4)) * Rtrigo1.PI.
Proof.
intros Hb. unfold dirR, dir, grade.
rewrite INR_IZR_INZ, Z2Nat.id by (apply Z.div_pos; lia).
rewrite (Z.div_mod (blade a) 4) at 1 by lia. rewrite plus_IZR, mult_IZR. simpl (IZR 4). lra.
Qed.

Lemma cos_dirR a : (0 <= blade a)%Z -> cos (dirR a) = cos (dir a).
Proof. intros Hb. rewrite dirR_dir by exact Hb. apply cos_period. Qed.
Lemma sin_dirR a : (0 <= blade a)%Z -> sin (dirR a) = sin (dir a).
Proof. intros Hb. rewrite dirR_dir by exact Hb. apply sin_period. Qed.

Lemma cos_dir_diff a b : (0 <= blade a)%Z -> (0 <= blade b)%Z ->
  cos (dirR a - dirR b) = cos (dir a - dir b).
Proof.
intros Ha Hb. rewrite (dirR_dir a Ha), (dirR_dir b Hb).
set (m := Z.to_nat (blade a / 4)). set (n := Z.to_nat (blade b / 4)).
replace (dir a + 2 * INR m * Rtrigo1.PI - (dir b + 2 * INR n * Rtrigo1.PI))
  with ((dir a - dir b - 2 * INR n * Rtrigo1.PI) + 2 * INR m * Rtrigo1.PI) by ring.
rewrite cos_period. rewrite <- (cos_period (dir a - dir b - 2 * INR n * Rtrigo1.PI) n).
f_equal. ring.
Qed.

(* the subtraction result points, with the real pi, along dirR a - dirR b up to whole turns *)
Lemma geometric_sub_dirR a b : canonp (rem a) -> canonp (rem b) ->
  exists j : Z, (0 <= j)%Z /\
  Rabs (dirR (geometric_sub a b) - (dirR a - dirR b) - 2 * IZR j * Rtrigo1.PI)
    <= R_ eps10 + 3 * / 4503599627370496 + 2 / 10000000000000000.
Proof.
intros Ca Cb. destruct (geometric_sub_total_gen a b Ca Cb) as (j & Hj & E).
destruct (geometric_sub_canon a b Ca Cb) as ((Fs & S0 & S1) & _).
exists j. split; [exact Hj|].
destruct Ca as (Fa & A0 & A1). destruct Cb as (Fb & B0 & B1).
unfold theta in E. unfold dirR. set (s := geometric_sub a b) in *.
set (k := (blade s - (blade a - blade b) - 4 * j)%Z).
assert (Ek : IZR (blade s) = IZR (blade a) - IZR (blade b) + 4 * IZR j + IZR k).
{ unfold k. rewrite !minus_IZR, mult_IZR. simpl (IZR 4). ring. }
rewrite mult_IZR in E. simpl (IZR 4) in E. rewrite Ek in *.
apply Rabs_le_inv in E. pose proof Qpos as Qp. pose proof E10pos as Ep.
assert (Kb : (-3 < k < 2)%Z).
{ split; apply lt_IZR; rewrite Qval, E10val in *; nra. }
assert (Kr : -2 <= IZR k <= 1). { split; apply IZR_le; lia. }
pose proof q_close_to_half_pi as QP. rewrite <- Qval in QP. apply Rabs_le_inv in QP.
apply Rabs_le. rewrite E10val in *. nra.
Qed.

Lemma cos_sub_dir a b : canonp (rem a) -> canonp (rem b) -> (0 <= blade a)%Z -> (0 <= blade b)%Z ->
  Rabs (cos (dir (geometric_sub a b)) - cos (dir a - dir b))
    <= R_ eps10 + 3 * / 4503599627370496 + 2 / 10000000000000000.
Proof.
intros Ca Cb Ha Hb. destruct (geometric_sub_dirR a b Ca Cb) as (j & Hj & E).
destruct (geometric_sub_canon a b Ca Cb) as (_ & Hs).
rewrite <- (cos_dirR _ Hs), <- (cos_dir_diff a b Ha Hb).
rewrite <- (cos_period (dirR a - dirR b) (Z.to_nat j)).
rewrite INR_IZR_INZ, Z2Nat.id by exact Hj.
eapply Rle_trans; [apply cos_lip|].
replace (dirR (geometric_sub a b) - (dirR a - dirR b + 2 * IZR j * Rtrigo1.PI))
  with (dirR (geometric_sub a b) - (dirR a - dirR b) - 2 * IZR j * Rtrigo1.PI) by ring.
exact E.
Qed.

Lemma sin_sub_dir a b : canonp (rem a) -> canonp (rem b) -> (0 <= blade a)%Z -> (0 <= blade b)%Z ->
  Rabs (sin (dir (geometric_sub a b)) - sin (dir a - dir b))
    <= R_ eps10 + 3 * / 4503599627370496 + 2 / 10000000000000000.
Proof.
intros Ca Cb Ha Hb. destruct (geometric_sub_dirR a b Ca Cb) as (j & Hj & E).
destruct (geometric_sub_canon a b Ca Cb) as (_ & Hs).
assert (Sd : sin (dirR a - dirR b) = sin (dir a - dir b)).
{ rewrite (dirR_dir a Ha), (dirR_dir b Hb).
  set (m := Z.to_nat (blade a / 4)). set (n := Z.to_nat (blade b / 4)).
  replace (dir a + 2 * INR m * Rtrigo1.PI - (dir b + 2 * INR n * Rtrigo1.PI))
    with ((dir a - dir b - 2 * INR n * Rtrigo1.PI) + 2 * INR m * Rtrigo1.PI) by ring.
  rewrite sin_period. rewrite <- (sin_period (dir a - dir b - 2 * INR n * Rtrigo1.PI) n).
  f_equal. ring. }
rewrite <- (sin_dirR _ Hs), <- Sd.
rewrite <- (sin_period (dirR a - dirR b) (Z.to_nat j)).
rewrite INR_IZR_INZ, Z2Nat.id by exact Hj.
eapply Rle_trans; [apply sin_lip|].
replace (dirR (geometric_sub a b) - (dirR a - dirR b + 2 * IZR j * Rtrigo1.PI))
  with (dirR (geometric_sub a b) - (dirR a - dirR b) - 2 * IZR j * Rtrigo1.PI) by ring.
exact E.
Qed.

(* a finite product was computed without overflow *)
Lemma fmul_fin_R x y : fin (fmul x y) -> fin x /\ fin y /\ R_ (fmul x y) = rnd (R_ x * R_ y).
Proof.
intros Fm. generalize (Bmult_correct prec emax Hprec Hmax mode_NE x y).
destruct (Rlt_bool _ _).
- intros (A & B & _). unfold fin, fmul in *. rewrite Fm in B. symmetry in B.
  apply andb_true_iff in B. destruct B. repeat split; auto.
- intros O. exfalso. unfold fin, fmul in Fm. rewrite <- is_finite_SF_B2SF, O in Fm. discriminate.
Qed.

(* a finite two-factor product x*c where c approximates a real C in [-1,1] within w *)
Lemma fmul_value x c (C w : R) : fin (fmul x c) -> Rabs C <= 1 -> Rabs (R_ c - C) <= w -> w <= 11 / 10000 ->
  Rabs (R_ (fmul x c) - R_ x * C) <= Rabs (R_ x) * (w + 2 / 10000000000000000) + bpow radix2 (-1075).
Proof.
intros Fv HC Ec Hw. destruct (fmul_fin_R _ _ Fv) as (Fx & Fc & V). rewrite V.
pose proof (rnd_rel (R_ x * R_ c)) as E. rewrite Rabs_mult in E.
assert (Wc : Rabs (R_ c) <= 1 + w).
{ replace (R_ c) with ((R_ c - C) + C) by ring. eapply Rle_trans; [apply Rabs_triang|]. lra. }
replace (rnd (R_ x * R_ c) - R_ x * C) with ((rnd (R_ x * R_ c) - R_ x * R_ c) + R_ x * (R_ c - C)) by ring.
eapply Rle_trans; [apply Rabs_triang|]. rewrite Rabs_mult.
pose proof (Rabs_pos (R_ x)). pose proof (Rabs_pos (R_ c)). pose proof (Rabs_pos (R_ c - C)).
assert (T1 : Rabs (R_ x) * Rabs (R_ c) <= Rabs (R_ x) * (1 + w)) by (apply Rmult_le_compat_l; lra).
assert (T3 : Rabs (R_ x) * Rabs (R_ c - C) <= Rabs (R_ x) * w) by (apply Rmult_le_compat_l; lra).
nra.
Qed.

(* a finite three-factor product (x*y)*c *)
Lemma fmul3_value x y c (C w : R) : fin (fmul (fmul x y) c) -> Rabs C <= 1 -> Rabs (R_ c - C) <= w -> w <= 11 / 10000 ->
  Rabs (R_ (fmul (fmul x y) c) - R_ x * R_ y * C) <= Rabs (R_ x * R_ y) * (w + 4 / 10000000000000000) + bpow radix2 (-1073).
Proof.
intros Fv HC Ec Hw. pose proof (fmul_value _ _ C w Fv HC Ec Hw) as E1.
destruct (fmul_fin_R _ _ Fv) as (Fp & _ & _). destruct (fmul_fin_R _ _ Fp) as (_ & _ & Vp).
rewrite Vp in E1. set (P := R_ x * R_ y) in *. pose proof (rnd_rel P) as E2. set (p1 := rnd P) in *.
assert (Eta : bpow radix2 (-1073) = 4 * bpow radix2 (-1075)).
{ change (-1073)%Z with (2 + -1075)%Z. rewrite bpow_plus. simpl (bpow radix2 2). lra. }
pose proof (bpow_gt_0 radix2 (-1075)) as Hp. set (eta := bpow radix2 (-1075)) in *. rewrite Eta.
assert (w0 : 0 <= w) by (pose proof (Rabs_pos (R_ c - C)); lra).
assert (P1 : Rabs p1 <= Rabs P * (1 + / 9007199254740992) + eta).
{ replace p1 with ((p1 - P) + P) by ring. eapply Rle_trans; [apply Rabs_triang|]. lra. }
replace (R_ (fmul (fmul x y) c) - P * C) with ((R_ (fmul (fmul x y) c) - p1 * C) + (p1 - P) * C) by ring.
eapply Rle_trans; [apply Rabs_triang|]. rewrite Rabs_mult.
pose proof (Rabs_pos P). pose proof (Rabs_pos p1). pose proof (Rabs_pos (p1 - P)). pose proof (Rabs_pos C).
assert (T2 : Rabs (p1 - P) * Rabs C <= / 9007199254740992 * Rabs P + eta) by nra.
assert (T1 : Rabs p1 * (w + 2 / 10000000000000000) <= (Rabs P * (1 + / 9007199254740992) + eta) * (w + 2 / 10000000000000000)) by (apply Rmult_le_compat_r; lra).
nra.
Qed.

Section DotValue.
Context (L : libm) (u : R).

Lemma acc_u_nonneg : cos_acc L u \/ sin_acc L u -> 0 <= u.
Proof.
intros [HL|HL]; destruct (HL zero fin_zero) as [_ H]; try (rewrite R_zero, Rabs_R0; lra).
- pose proof (Rabs_pos (R_ (cosF L zero) - cos (R_ zero))). lra.
- pose proof (Rabs_pos (R_ (sinF L zero) - sin (R_ zero))). lra.
Qed.

(* C09 / C11: the cosine factor is the cosine of the real direction difference *)
Lemma dot_cos_value a b : cos_acc L u -> canonp (rem a) -> canonp (rem b) -> (0 <= blade a)%Z -> (0 <= blade b)%Z ->
  let c := cosF L (grade_angle (geometric_sub b a)) in
  fin c /\ Rabs (R_ c - cos (dir b - dir a)) <= u + 10001 / 100000000000000.
Proof.
intros HL Ca Cb Ha Hb c.
destruct (geometric_sub_canon b a Cb Ca) as (Cs & Hs).
destruct (gcos_value L u _ HL Cs) as (Fc & Ec & _). fold c in Fc, Ec.
split; [exact Fc|].
pose proof (cos_sub_dir b a Cb Ca Hb Ha) as D.
replace (R_ c - cos (dir b - dir a)) with
  ((R_ c - cos (dir (geometric_sub b a))) + (cos (dir (geometric_sub b a)) - cos (dir b - dir a))) by ring.
eapply Rle_trans; [apply Rabs_triang|]. rewrite E10val in D. lra.
Qed.

(* C10: the sine factor of wedge is the sine of the real direction difference *)
Lemma wedge_sin_value a b : sin_acc L u -> canonp (rem a) -> canonp (rem b) -> (0 <= blade a)%Z -> (0 <= blade b)%Z ->
  let s := sinF L (grade_angle (geometric_sub b a)) in
  fin s /\ Rabs (R_ s - sin (dir b - dir a)) <= u + 10001 / 100000000000000.
Proof.
intros HL Ca Cb Ha Hb s.
destruct (geometric_sub_canon b a Cb Ca) as (Cs & Hs).
destruct (gsin_value L u _ HL Cs) as (Fc & Ec & _). fold s in Fc, Ec.
split; [exact Fc|].
pose proof (sin_sub_dir b a Cb Ca Hb Ha) as D.
replace (R_ s - sin (dir b - dir a)) with
  ((R_ s - sin (dir (geometric_sub b a))) + (sin (dir (geometric_sub b a)) - sin (dir b - dir a))) by ring.
eapply Rle_trans; [apply Rabs_triang|]. rewrite E10val in D. lra.
Qed.

(* C09: the dot value is |a||b|cos(direction difference) within a relative u + 1.0002e-10 *)
Lemma dot_value_real a b : cos_acc L u -> u <= / 1000 ->
  canonp (rem (ang a)) -> canonp (rem (ang b)) -> (0 <= blade (ang a))%Z -> (0 <= blade (ang b))%Z ->
  fin (dot_value L a b) ->
  Rabs (R_ (dot_value L a b) - R_ (mag a) * R_ (mag b) * cos (dir (ang b) - dir (ang a)))
    <= Rabs (R_ (mag a) * R_ (mag b)) * (u + 10002 / 100000000000000) + bpow radix2 (-1073).
Proof.
intros HL Hu Ca Cb Ha Hb Fv. unfold dot_value, sub_vv in *.
destruct (dot_cos_value (ang a) (ang b) HL Ca Cb Ha Hb) as (Fc & Ec).
pose proof (COS_bound (dir (ang b) - dir (ang a))) as CB.
eapply Rle_trans.
- apply (fmul3_value _ _ _ (cos (dir (ang b) - dir (ang a))) (u + 10001 / 100000000000000) Fv).
  + apply Rabs_le; lra.
  + exact Ec.
  + lra.
- pose proof (Rabs_pos (R_ (mag a) * R_ (mag b))). nra.
Qed.

(* C09: a pair reported orthogonal has |a||b||cos| below 1e-10 plus the stated slack *)
Lemma orthogonal_value a b : cos_acc L u -> u <= / 1000 ->
  canonp (rem (ang a)) -> canonp (rem (ang b)) -> (0 <= blade (ang a))%Z -> (0 <= blade (ang b))%Z ->
  fin (dot_value L a b) -> is_orthogonal L a b = true ->
  Rabs (R_ (mag a) * R_ (mag b) * cos (dir (ang b) - dir (ang a)))
    < R_ EPSILON + Rabs (R_ (mag a) * R_ (mag b)) * (u + 10002 / 100000000000000) + bpow radix2 (-1073).
Proof.
intros HL Hu Ca Cb Ha Hb Fv Ho. pose proof (dot_value_real a b HL Hu Ca Cb Ha Hb Fv) as E.
rewrite is_orthogonal_spec, (dot_encoding L a b Fv) in Ho. cbn [mag] in Ho.
rewrite flt_R in Ho by (try apply fin_fabs; try apply fin_fabs; auto; reflexivity).
rewrite !fabs_R, Rabs_Rabsolu in Ho.
destruct (Rlt_bool_spec (Rabs (R_ (dot_value L a b))) (R_ EPSILON)) as [Hlt|]; [|discriminate].
set (v := R_ (dot_value L a b)) in *. set (t := R_ (mag a) * R_ (mag b) * cos (dir (ang b) - dir (ang a))) in *.
replace t with (v - (v - t)) by ring.
eapply Rle_lt_trans; [apply Rabs_triang|]. rewrite Rabs_Ropp. lra.
Qed.

(* C10: the wedge magnitude is |a||b||sin(direction difference)| within a relative u + 1.0002e-10 *)
Lemma wedge_mag_value a b : sin_acc L u -> u <= / 1000 ->
  canonp (rem (ang a)) -> canonp (rem (ang b)) -> (0 <= blade (ang a))%Z -> (0 <= blade (ang b))%Z ->
  fin (mag (wedge L a b)) ->
  Rabs (R_ (mag (wedge L a b)) - R_ (mag a) * R_ (mag b) * Rabs (sin (dir (ang b) - dir (ang a))))
    <= Rabs (R_ (mag a) * R_ (mag b)) * (u + 10002 / 100000000000000) + bpow radix2 (-1073).
Proof.
intros HL Hu Ca Cb Ha Hb Fv. destruct (wedge_spec L a b) as [Em _]. rewrite Em in *. unfold sub_vv in *.
destruct (wedge_sin_value (ang a) (ang b) HL Ca Cb Ha Hb) as (Fc & Ec).
pose proof (SIN_bound (dir (ang b) - dir (ang a))) as CB.
eapply Rle_trans.
- apply (fmul3_value _ _ _ (Rabs (sin (dir (ang b) - dir (ang a)))) (u + 10001 / 100000000000000) Fv).
  + rewrite Rabs_Rabsolu. apply Rabs_le; lra.
  + rewrite fabs_R. eapply Rle_trans; [apply Rabs_triang_inv2|]. exact Ec.
  + lra.
- pose proof (Rabs_pos (R_ (mag a) * R_ (mag b))). nra.
Qed.

(* C11: Angle::project is the cosine of the direction difference *)
Lemma aproject_value a onto : cos_acc L u -> canonp (rem a) -> canonp (rem onto) -> (0 <= blade a)%Z -> (0 <= blade onto)%Z ->
  fin (aproject L a onto) /\ Rabs (R_ (aproject L a onto) - cos (dir onto - dir a)) <= u + 10001 / 100000000000000.
Proof. intros HL Ca Co Ha Ho. exact (dot_cos_value a onto HL Ca Co Ha Ho). Qed.

(* C11: the projected length is |g||cos(direction difference)| *)
Lemma gproject_mag_value g onto : cos_acc L u -> u <= / 1000 ->
  canonp (rem (ang g)) -> canonp (rem (ang onto)) -> (0 <= blade (ang g))%Z -> (0 <= blade (ang onto))%Z ->
  flt (fabs (mag onto)) EPSILON = false -> fin (mag (gproject L g onto)) ->
  Rabs (R_ (mag (gproject L g onto)) - R_ (mag g) * Rabs (cos (dir (ang onto) - dir (ang g))))
    <= Rabs (R_ (mag g)) * (u + 10002 / 100000000000000) + bpow radix2 (-1075).
Proof.
intros HL Hu Cg Co Hg Ho Hm Fv. destruct (gproject_struct L g onto) as [_ E]. rewrite (E Hm) in *. cbn [mag] in *.
destruct (aproject_value (ang g) (ang onto) HL Cg Co Hg Ho) as (Fc & Ec).
pose proof (COS_bound (dir (ang onto) - dir (ang g))) as CB.
eapply Rle_trans.
- apply (fmul_value _ _ (Rabs (cos (dir (ang onto) - dir (ang g)))) (u + 10001 / 100000000000000) Fv).
  + rewrite Rabs_Rabsolu. apply Rabs_le; lra.
  + rewrite fabs_R. eapply Rle_trans; [apply Rabs_triang_inv2|]. exact Ec.
  + lra.
- pose proof (Rabs_pos (R_ (mag g))). nra.
Qed.

Lemma project_to_angle_mag_value g onto : cos_acc L u -> u <= / 1000 ->
  canonp (rem (ang g)) -> canonp (rem onto) -> (0 <= blade (ang g))%Z -> (0 <= blade onto)%Z ->
  fin (mag (project_to_angle L g onto)) ->
  Rabs (R_ (mag (project_to_angle L g onto)) - R_ (mag g) * Rabs (cos (dir onto - dir (ang g))))
    <= Rabs (R_ (mag g)) * (u + 10002 / 100000000000000) + bpow radix2 (-1075).
Proof.
intros HL Hu Cg Co Hg Ho Fv. rewrite (project_to_angle_enc L g onto) in *. unfold sub_vv in *.
destruct (dot_cos_value (ang g) onto HL Cg Co Hg Ho) as (Fc & Ec).
set (c := cosF L (grade_angle (geometric_sub onto (ang g)))) in *. cbv zeta in Fv |- *.
pose proof (COS_bound (dir onto - dir (ang g))) as CB.
assert (A1 : Rabs (Rabs (cos (dir onto - dir (ang g)))) <= 1) by (rewrite Rabs_Rabsolu; apply Rabs_le; lra).
assert (A3 : u + 10001 / 100000000000000 <= 11 / 10000) by lra.
pose proof (Rabs_pos (R_ (mag g))).
rewrite fge_R in * by (auto; reflexivity). rewrite R_zero in *.
destruct (Rle_bool_spec 0 (R_ c)) as [Pc|Nc]; cbn [mag] in *.
- eapply Rle_trans.
  + apply (fmul_value _ _ (Rabs (cos (dir onto - dir (ang g)))) (u + 10001 / 100000000000000) Fv A1); [|exact A3].
    rewrite <- (Rabs_pos_eq (R_ c)) at 1 by exact Pc. eapply Rle_trans; [apply Rabs_triang_inv2|]. exact Ec.
  + nra.
- eapply Rle_trans.
  + apply (fmul_value _ _ (Rabs (cos (dir onto - dir (ang g)))) (u + 10001 / 100000000000000) Fv A1); [|exact A3].
    rewrite fneg_R. rewrite <- (Rabs_left (R_ c)) at 1 by exact Nc. eapply Rle_trans; [apply Rabs_triang_inv2|]. exact Ec.
  + nra.
Qed.
End DotValue.

(* non-vacuity: the accuracy hypotheses hold for the ideal libm with u = 2^-52 <= 1/1000 *)
Lemma dot_hyps_inhabited : cos_acc ideal_libm (/ 4503599627370496) /\ sin_acc ideal_libm (/ 4503599627370496) /\ / 4503599627370496 <= / 1000.
Proof. destruct acc_hyps_inhabited as [A B]. split; [exact A|]. split; [exact B|]. lra. Qed.
