(* FeatureModel: the configuration structure of the crate (property C20).  The table itself is
   generated from Cargo.toml and the #[cfg] attributes by tools/cfg2coq.py (coq/gen/FeaturesGen.v). *)
From Coq Require Import List String Bool.
Import ListNotations.
Open Scope string_scope.

Inductive feat := F_optics | F_projection | F_ml | F_em | F_waves | F_affine.
Definition all_feats : list feat := [F_optics; F_projection; F_ml; F_em; F_waves; F_affine].
Definition feat_name (f : feat) : string :=
  match f with F_optics => "optics" | F_projection => "projection" | F_ml => "ml"
             | F_em => "em" | F_waves => "waves" | F_affine => "affine" end.
Definition feat_eqb (a b : feat) : bool :=
  match a, b with
  | F_optics, F_optics | F_projection, F_projection | F_ml, F_ml | F_em, F_em | F_waves, F_waves | F_affine, F_affine => true
  | _, _ => false
  end.

Inductive cfg := CTrue | CTest | CFeat (f : feat) | COther (s : string) | CNot (c : cfg) | CAll (l : list cfg) | CAny (l : list cfg).

(* a configuration: which of the six optional features are on (a non-test build) *)
Record config := mkCfg { on_optics : bool; on_projection : bool; on_ml : bool; on_em : bool; on_waves : bool; on_affine : bool }.
Definition has (S : config) (f : feat) : bool :=
  match f with F_optics => on_optics S | F_projection => on_projection S | F_ml => on_ml S
             | F_em => on_em S | F_waves => on_waves S | F_affine => on_affine S end.

Fixpoint eval (S : config) (c : cfg) : bool :=
  match c with
  | CTrue => true | CTest => false | CFeat f => has S f | COther _ => false
  | CNot c => negb (eval S c)
  | CAll l => (fix all l := match l with [] => true | c :: t => eval S c && all t end) l
  | CAny l => (fix any l := match l with [] => false | c :: t => eval S c || any t end) l
  end.

(* does a cfg expression mention only `test` and the given feature? *)
Fixpoint only_feat (o : option feat) (c : cfg) : bool :=
  match c with
  | CTrue | CTest => true
  | CFeat f => match o with Some g => feat_eqb f g | None => false end
  | COther _ => false
  | CNot c => only_feat o c
  | CAll l => (fix all l := match l with [] => true | c :: t => only_feat o c && all t end) l
  | CAny l => (fix all l := match l with [] => true | c :: t => only_feat o c && all t end) l
  end.
(* does it mention no feature at all? *)
Fixpoint feature_free (c : cfg) : bool :=
  match c with
  | CTrue | CTest => true | CFeat _ => false | COther _ => false
  | CNot c => feature_free c
  | CAll l => (fix all l := match l with [] => true | c :: t => feature_free c && all t end) l
  | CAny l => (fix all l := match l with [] => true | c :: t => feature_free c && all t end) l
  end.

Record item := mkItem { iname : string; ifile : string; igate : cfg; irefs : list string; icore : bool; iowner : option feat }.

Definition enabled (S : config) (i : item) : bool := eval S (igate i).

Definition all_configs : list config :=
  flat_map (fun a => flat_map (fun b => flat_map (fun c => flat_map (fun d => flat_map (fun e =>
    map (fun f => mkCfg a b c d e f) [false; true]) [false; true]) [false; true]) [false; true]) [false; true]) [false; true].

Lemma all_configs_complete (S : config) : In S all_configs.
Proof. destruct S as [[] [] [] [] [] []]; vm_compute; tauto. Qed.

Section Table.
Context (items : list item).

Definition find_item (n : string) : option item := find (fun i => String.eqb (iname i) n) items.

(* closure: every item enabled under S refers only to items that exist and are enabled under S *)
Definition closed_under (S : config) : bool :=
  forallb (fun i => negb (enabled S i) ||
            forallb (fun r => match find_item r with Some j => enabled S j | None => false end) (irefs i)) items.

(* usability: with f on, f's module, its trait definitions, its impl for Geonum and a public path are enabled *)
Definition owned_by (f : feat) (i : item) : bool :=
  match iowner i with Some g => feat_eqb f g | None => false end.
Definition has_prefix (p s : string) : bool := String.prefix p s.
Definition usable (S : config) (f : feat) : bool :=
  negb (has S f) ||
  ( existsb (fun i => owned_by f i && has_prefix "impl:" (iname i) && enabled S i) items
 && existsb (fun i => owned_by f i && has_prefix "def:" (iname i) && enabled S i) items
 && forallb (fun i => negb (owned_by f i) || enabled S i) items
 && existsb (fun i => has_prefix "reexport:traits::" (iname i) && enabled S i &&
                      existsb (fun r => match find_item r with Some j => owned_by f j | None => false end) (irefs i)) items ).

(* items belonging to a feature are disabled when the feature is off *)
Definition helpers_off (S : config) : bool :=
  forallb (fun i => match iowner i with Some g => has S g || negb (enabled S i) | None => true end) items.

(* core files carry no feature gate; feature files mention only their own feature *)
Definition core_cfg_free : bool := forallb (fun i => negb (icore i) || feature_free (igate i)) items.
Definition own_feature_only : bool :=
  forallb (fun i => match iowner i with Some g => only_feat (Some g) (igate i) | None => true end) items.

End Table.

Definition empty_config : config := mkCfg false false false false false false.
Definition config_of (l : list string) : config :=
  let m := fun s => existsb (String.eqb s) l in
  mkCfg (m "optics") (m "projection") (m "ml") (m "em") (m "waves") (m "affine").
