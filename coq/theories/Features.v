(* Features: theorems about the generated configuration table (property C20).  Every theorem is
   over the finite space of all 64 subsets of the six optional features; the bound is in the
   statement (forall S : config, a record of six booleans). *)
From Coq Require Import List String Bool.
Require Import GV.FeatureModel GVgen.FeaturesGen.
Import ListNotations.
Open Scope string_scope.

Lemma forall_configs (P : config -> bool) : forallb P all_configs = true -> forall S, P S = true.
Proof. intros H S. rewrite forallb_forall in H. apply H. apply all_configs_complete. Qed.

(* every subset is closed: nothing enabled refers to something disabled or missing *)
Theorem closed_all : forall S, closed_under items S = true.
Proof. apply forall_configs. vm_compute. reflexivity. Qed.

(* every enabled feature is usable: trait, impl for Geonum, everything it owns, and a public path *)
Theorem usable_all : forall S f, usable items S f = true.
Proof.
intros S f. revert S. apply (forall_configs (fun S => usable items S f)). destruct f; vm_compute; reflexivity.
Qed.

(* helpers of a feature that is off are absent; in particular the default configuration has none *)
Theorem helpers_off_all : forall S, helpers_off items S = true.
Proof. apply forall_configs. vm_compute. reflexivity. Qed.

Theorem default_is_empty : default_features = [] /\ config_of default_features = empty_config.
Proof. split; reflexivity. Qed.

Theorem all_alias_complete :
  config_of all_alias = mkCfg true true true true true true /\
  forallb (fun d => match snd d with [] => true | _ => false end) feature_deps = true /\
  map feat_name all_feats = declared_features.
Proof. repeat split; reflexivity. Qed.

(* the core files carry no feature gate, feature files mention only their own feature, and no
   cfg!() / cfg_attr occurs anywhere: every modelled function has ONE definition independent of S *)
Theorem core_is_cfg_free :
  core_cfg_free items = true /\ own_feature_only items = true /\ inline_cfg_uses = [].
Proof. repeat split; vm_compute; reflexivity. Qed.
