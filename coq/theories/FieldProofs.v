(* FieldProofs: sigmoid bound (C19). *)
From Coq Require Import ZArith List Bool Reals Lra Lia Psatz.
From Flocq Require Import Core BinarySingleNaN.
Require Import GV.FloatBase GV.FloatLemmas GV.AngleM GV.AngleProofs GV.NewProofs GV.CtorProofs GV.GeonumM GV.GeonumProofs
  GV.TraitsM GV.TraitsProofs GV.BoundProofs GV.PiBounds GV.TrigProofs GV.DotValue GV.ProdProofs GV.ClosureProofs GV.SumUpper GV.DistValue.
Open Scope R_scope.

Lemma fdiv_fin_R' x y : fin (fdiv x y) -> R_ y <> 0 -> fin x /\ R_ (fdiv x y) = rnd (R_ x / R_ y).
Proof.
intros Fd Ny. generalize (Bdiv_correct prec emax Hprec Hmax mode_NE x y Ny).
destruct (Rlt_bool _ _).
- intros (A & B & _). unfold fin, fdiv in *. rewrite Fd in B. split; [now symmetry|exact A].
- intros O. exfalso. unfold fin, fdiv in Fd. rewrite <- is_finite_SF_B2SF, O in Fd. discriminate.
Qed.

(* exp returns a finite non-negative value not above 2^999 (range premise, explicit) *)
Definition exp_range (L : libm) : Prop := forall x, fin (expF L x) /\ 0 <= R_ (expF L x) <= bpow radix2 999.

Section Fields.
Context (L : libm).

(* C19: the sigmoid activation keeps the angle and stays within [0, magnitude] *)
Lemma sigmoid_bound g : exp_range L -> fin (mag g) -> 0 <= R_ (mag g) <= bpow radix2 1000 ->
  let r := activate L g Sigmoid in
  ang r = ang g /\ fin (mag r) /\ 0 <= R_ (mag r) <= R_ (mag g).
Proof.
intros HE Fm [M0 M1] r. unfold r. cbn [activate mag ang]. split; [reflexivity|].
destruct (HE (fneg (cosF L (grade_angle (ang g))))) as (Fe & E0 & E1). set (e := expF L (fneg (cosF L (grade_angle (ang g))))) in *.
destruct one_R as [V1 F1].
assert (B999 : bpow radix2 1000 = 2 * bpow radix2 999) by (change 1000%Z with (1 + 999)%Z; rewrite bpow_plus; simpl (bpow radix2 1); lra).
assert (G1 : 1 <= bpow radix2 999) by (change 1 with (bpow radix2 0); apply bpow_le; lia).
destruct (fadd_R one e F1 Fe) as [Vd Fd]. { rewrite V1, Rabs_pos_eq by lra. lra. }
rewrite V1 in Vd. set (den := fadd one e) in *.
assert (D1 : 1 <= R_ den).
{ rewrite Vd. rewrite <- (round_generic radix2 fexp ZnearestE 1) at 1.
  apply round_le; auto with typeclass_instances. lra. change 1 with (IZR 1). apply fmt_IZR. simpl. lia. }
assert (Q : 0 <= R_ (mag g) / R_ den <= R_ (mag g)).
{ split. apply Rmult_le_pos; [lra|left; apply Rinv_0_lt_compat; lra].
  apply Rmult_le_reg_r with (R_ den); [lra|]. unfold Rdiv. rewrite Rmult_assoc, Rinv_l by lra. nra. }
destruct (fdiv_R (mag g) den Fm) as [Vr Fr]. { lra. } { rewrite Rabs_pos_eq; lra. }
split; [exact Fr|]. rewrite Vr. split.
- apply rnd_ge0. lra.
- rewrite <- (round_generic radix2 fexp ZnearestE (R_ (mag g))) at 2 by apply fmt_R.
  apply round_le; auto with typeclass_instances. lra.
Qed.
End Fields.

Section Fields2.
Context (L : libm) (up : R).

(* a quotient a / b of mid-range positive reals computed from approximations *)
Lemma quotient_rel (a b a' b' ea eb : R) : 0 < a -> 0 < b -> 0 <= ea <= / 100 -> 0 <= eb <= / 100 ->
  Rabs (a' - a) <= ea * a -> Rabs (b' - b) <= eb * b ->
  0 < b' /\ Rabs (a' / b' - a / b) <= (ea + eb) * (1 + / 50) * (a / b).
Proof.
intros Ha Hb [Ea0 Ea1] [Eb0 Eb1] EA EB. apply Rabs_le_inv in EA. apply Rabs_le_inv in EB.
assert (Bp : 0 < b') by nra. split; [exact Bp|].
assert (Q : 0 < a / b) by (apply Rmult_lt_0_compat; [lra|apply Rinv_0_lt_compat; lra]).
assert (E : a' / b' - a / b = (a' * b - a * b') / (b' * b)) by (field; lra).
rewrite E. apply Rabs_div_le; [nra|].
assert (A1 : (a / b) * (b' * b) = a * b') by (field; lra).
replace ((ea + eb) * (1 + / 50) * (a / b) * (b' * b)) with ((ea + eb) * (1 + / 50) * ((a / b) * (b' * b))) by ring. rewrite A1.
set (ab := a * b). assert (AB0 : 0 < ab) by (unfold ab; nra).
assert (F1 : - (ea * ab) <= (a' - a) * b <= ea * ab) by (unfold ab; split; nra).
assert (F2 : - (eb * ab) <= a * (b' - b) <= eb * ab) by (unfold ab; split; nra).
assert (EBb : eb * b <= / 100 * b) by (apply Rmult_le_compat_r; lra).
assert (B99 : 99 / 100 * b <= b') by lra.
assert (F3 : 99 / 100 * ab <= a * b').
{ unfold ab. replace (99 / 100 * (a * b)) with (a * (99 / 100 * b)) by ring. apply Rmult_le_compat_l; lra. }
assert (F4 : (ea + eb) * (99 / 100 * ab) <= (ea + eb) * (a * b')) by (apply Rmult_le_compat_l; lra).
assert (F5 : 0 <= ea * ab /\ 0 <= eb * ab) by (split; apply Rmult_le_pos; lra).
replace (a' * b - a * b') with ((a' - a) * b - a * (b' - b)) by ring.
replace ((ea + eb) * (1 + / 50) * (a * b')) with ((1 + / 50) * ((ea + eb) * (a * b'))) by ring.
replace ((ea + eb) * (99 / 100 * ab)) with (99 / 100 * (ea * ab + eb * ab)) in F4 by ring.
apply Rabs_le. lra.
Qed.

(* C19: the inverse-power field has magnitude k q / r^n (real power) within a relative up + 3*2^-52, scaled by 1.02 *)
Lemma inverse_field_value charge distance power a constant : 0 <= up <= / 200 ->
  (* explicit premise on THIS pow call: finite and within a relative up of the real power r^n = exp(n ln r) *)
  fin (powF L (mag distance) (mag power)) ->
  Rabs (R_ (powF L (mag distance) (mag power)) - Rpower (R_ (mag distance)) (R_ (mag power)))
    <= up * Rpower (R_ (mag distance)) (R_ (mag power)) ->
  fin (mag (inverse_field L charge distance power a constant)) ->
  bpow radix2 (-500) <= R_ (mag constant) * R_ (mag charge) ->
  bpow radix2 (-500) <= R_ (mag constant) * R_ (mag charge) / Rpower (R_ (mag distance)) (R_ (mag power)) ->
  let ideal := R_ (mag constant) * R_ (mag charge) / Rpower (R_ (mag distance)) (R_ (mag power)) in
  Rabs (R_ (mag (inverse_field L charge distance power a constant)) - ideal)
    <= (up + 3 * / 4503599627370496) * (1 + / 25) * ideal.
Proof.
intros [U0 U1] Fpw Epw Fv H1 H2 ideal. unfold inverse_field in *. cbn [gnew_with_angle mag] in *.
set (pw := powF L (mag distance) (mag power)) in *. set (rp := Rpower (R_ (mag distance)) (R_ (mag power))) in *.
assert (RP : 0 < rp) by (unfold rp, Rpower; apply exp_pos).
pose proof (bpow_gt_0 radix2 (-500)) as H500.
assert (PWp : 0 < R_ pw). { apply Rabs_le_inv in Epw. nra. }
assert (Npw : R_ pw <> 0) by lra.
destruct (fdiv_fin_R' _ _ Fv Npw) as (Fkq & Vv).
destruct (fmul_fin_R _ _ Fkq) as (_ & _ & Vkq).
set (kq := R_ (mag constant) * R_ (mag charge)) in *.
set (e := / 4503599627370496) in *.
assert (L600 : bpow radix2 (-600) <= bpow radix2 (-500)) by (apply bpow_le; lia).
pose proof (rnd_rel_mid kq ltac:(lra)) as Ekq. rewrite <- Vkq in Ekq. fold e in Ekq.
set (kq' := R_ (fmul (mag constant) (mag charge))) in *.
assert (EA : Rabs (kq' - kq) <= e * kq) by (apply Rabs_le; lra).
assert (E0 : 0 < e < / 1000) by (unfold e; lra).
destruct (quotient_rel kq rp kq' (R_ pw) e up ltac:(lra) RP ltac:(lra) ltac:(lra) EA Epw) as (_ & EQ). fold ideal in EQ.
assert (IP : 0 < ideal) by (unfold ideal; lra).
assert (QL : bpow radix2 (-600) <= kq' / R_ pw).
{ assert (K : (e + up) * (1 + / 50) <= / 100) by nra.
  assert (K2 : (e + up) * (1 + / 50) * ideal <= / 100 * ideal) by (apply Rmult_le_compat_r; lra).
  apply Rabs_le_inv in EQ. assert (B6 : bpow radix2 (-600) <= 99 / 100 * bpow radix2 (-500)).
  { change (-500)%Z with (100 + -600)%Z. rewrite bpow_plus. pose proof (bpow_gt_0 radix2 (-600)).
    assert (2 <= bpow radix2 100) by (change 2 with (bpow radix2 1); apply bpow_le; lia). nra. }
  unfold ideal in *. lra. }
pose proof (rnd_rel_mid (kq' / R_ pw) QL) as Ev. rewrite <- Vv in Ev. fold e in Ev.
set (v := R_ (fdiv (fmul (mag constant) (mag charge)) pw)) in *. set (qq := kq' / R_ pw) in *.
assert (K : (e + up) * (1 + / 50) <= / 100) by nra.
assert (K2 : (e + up) * (1 + / 50) * ideal <= / 100 * ideal) by (apply Rmult_le_compat_r; lra).
apply Rabs_le_inv in EQ.
assert (QU : qq <= 101 / 100 * ideal) by lra. assert (Q0 : 0 <= qq) by (pose proof (bpow_gt_0 radix2 (-600)); lra).
assert (EVb : Rabs (v - qq) <= e * (101 / 100 * ideal)).
{ apply Rabs_le. assert (e * qq <= e * (101 / 100 * ideal)) by (apply Rmult_le_compat_l; lra). lra. }
apply Rabs_le_inv in EVb.
replace ((up + 3 * e) * (1 + / 25) * ideal) with ((e + up) * (1 + / 50) * ideal + (2 * e * (1 + / 25) + (up + e) * / 50) * ideal) by field.
assert (EX : e * (101 / 100 * ideal) <= (2 * e * (1 + / 25) + (up + e) * / 50) * ideal).
{ replace (e * (101 / 100 * ideal)) with ((e * (101 / 100)) * ideal) by ring. apply Rmult_le_compat_r; [lra|]. nra. }
apply Rabs_le. lra.
Qed.

(* C19: the magnetic field of a straight wire is mu I / (2 pi r) with the REAL pi, relative error 4.2*2^-52 *)
Lemma wire_field_value r current permeability :
  fin (mag (wire_magnetic_field r current permeability)) ->
  bpow radix2 (-500) <= R_ (mag permeability) * R_ (mag current) ->
  bpow radix2 (-500) <= R_ (mag r) <= bpow radix2 500 ->
  bpow radix2 (-500) <= R_ (mag permeability) * R_ (mag current) / (2 * Rtrigo1.PI * R_ (mag r)) ->
  let ideal := R_ (mag permeability) * R_ (mag current) / (2 * Rtrigo1.PI * R_ (mag r)) in
  Rabs (R_ (mag (wire_magnetic_field r current permeability)) - ideal) <= 42 / 10 * / 4503599627370496 * ideal.
Proof.
intros Fv H1 [R0 R1] H2 ideal. unfold wire_magnetic_field in *. cbn [gnew_with_angle mag] in *.
pose proof (bpow_gt_0 radix2 (-500)) as H500. pose proof PI_RGT_0 as Pp.
set (e := / 4503599627370496) in *. assert (E0 : 0 < e < / 1000) by (unfold e; lra).
destruct PIval as [VP FP]. destruct two_val as [V2 F2].
assert (P : R_ PI = 14148475504056880 / 4503599627370496) by (rewrite VP, Qval; lra).
pose proof q_close_to_half_pi as QP. apply Rabs_le_inv in QP.
(* 2 * PI exact *)
assert (F2P : fin (fmul two PI)) by reflexivity.
destruct (fmul_two_exact PI F2P) as (_ & V2P). rewrite P in V2P.
assert (L600 : bpow radix2 (-600) <= bpow radix2 (-500)) by (apply bpow_le; lia).
(* denominator *)
assert (Nb : R_ (fmul (fmul two PI) (mag r)) <> 0 /\ fin (fmul (fmul two PI) (mag r))).
{ destruct (fmul_R (fmul two PI) (mag r) F2P) as [V F].
  - destruct (mag r); try discriminate; try reflexivity; simpl in R0; lra.
  - rewrite V2P. apply Rle_trans with (bpow radix2 503); [|apply bpow_le; lia]. rewrite Rabs_pos_eq by nra.
    change 503%Z with (3 + 500)%Z. rewrite bpow_plus. simpl (bpow radix2 3). nra.
  - split; [|exact F]. rewrite V, V2P. pose proof (rnd_rel_mid (2 * (14148475504056880 / 4503599627370496) * R_ (mag r)) ltac:(nra)). nra. }
destruct Nb as [Nb Fb].
destruct (fdiv_fin_R' _ _ Fv Nb) as (Fa & Vv). destruct (fmul_fin_R _ _ Fa) as (_ & _ & Va).
destruct (fmul_fin_R _ _ Fb) as (_ & _ & Vb). rewrite V2P in Vb.
set (a := R_ (mag permeability) * R_ (mag current)) in *.
set (b := 2 * Rtrigo1.PI * R_ (mag r)) in *. assert (Bp : 0 < b) by (unfold b; nra).
set (b0 := 2 * (14148475504056880 / 4503599627370496) * R_ (mag r)) in *. assert (B0p : bpow radix2 (-600) <= b0) by (unfold b0; nra).
pose proof (rnd_rel_mid a ltac:(lra)) as Ea. rewrite <- Va in Ea. fold e in Ea.
pose proof (rnd_rel_mid b0 B0p) as Eb. rewrite <- Vb in Eb. fold e in Eb.
set (a' := R_ (fmul (mag permeability) (mag current))) in *. set (b' := R_ (fmul (fmul two PI) (mag r))) in *.
assert (EA : Rabs (a' - a) <= e * a) by (apply Rabs_le; lra).
assert (BB : Rabs (b0 - b) <= 21 / 100 * e * b).
{ unfold b0, b. replace (2 * (14148475504056880 / 4503599627370496) * R_ (mag r) - 2 * Rtrigo1.PI * R_ (mag r))
    with (2 * R_ (mag r) * (14148475504056880 / 4503599627370496 - Rtrigo1.PI)) by ring.
  rewrite Rabs_mult, (Rabs_pos_eq (2 * R_ (mag r))) by lra.
  assert (P3 : 3 < Rtrigo1.PI) by (pose proof PI2_3_2; unfold PI2 in *; lra).
  assert (Rabs (14148475504056880 / 4503599627370496 - Rtrigo1.PI) <= 21 / 100 * e * Rtrigo1.PI) by (unfold e; apply Rabs_le; split; nra).
  nra. }
assert (EB : Rabs (b' - b) <= (123 / 100 * e) * b).
{ apply Rabs_le_inv in BB. apply Rabs_le. nra. }
destruct (quotient_rel a b a' b' e (123 / 100 * e) ltac:(lra) Bp ltac:(lra) ltac:(lra) EA EB) as (B'p & EQ). fold ideal in EQ.
assert (IP : 0 < ideal) by (unfold ideal; lra).
set (c := (e + 123 / 100 * e) * (1 + / 50)) in *.
assert (Cc : c <= 23 / 10 * e) by (unfold c; nra).
assert (CI : c * ideal <= 23 / 10 * e * ideal) by (apply Rmult_le_compat_r; lra).
apply Rabs_le_inv in EQ.
assert (QL : bpow radix2 (-600) <= a' / b').
{ assert (B6 : bpow radix2 (-600) <= 99 / 100 * bpow radix2 (-500)).
  { change (-500)%Z with (100 + -600)%Z. rewrite bpow_plus. pose proof (bpow_gt_0 radix2 (-600)).
    assert (2 <= bpow radix2 100) by (change 2 with (bpow radix2 1); apply bpow_le; lia). nra. }
  assert (23 / 10 * e * ideal <= / 100 * ideal) by nra. unfold ideal in *. lra. }
pose proof (rnd_rel_mid (a' / b') QL) as Ev. rewrite <- Vv in Ev. fold e in Ev.
set (v := R_ (fdiv (fmul (mag permeability) (mag current)) (fmul (fmul two PI) (mag r)))) in *. set (qq := a' / b') in *.
assert (QU : qq <= 101 / 100 * ideal) by nra.
assert (EVb : e * qq <= e * (101 / 100 * ideal)) by (apply Rmult_le_compat_l; lra).
assert (EI : 0 < e * ideal) by nra.
apply Rabs_le. lra.
Qed.
End Fields2.

Lemma exp_range_inhabited : exists L, exp_range L.
Proof.
exists trivial_libm. intros x. cbn [trivial_libm expF]. destruct one_R as [V1 F1]. split; [exact F1|]. rewrite V1.
split; [lra|]. change 1 with (bpow radix2 0). apply bpow_le. lia.
Qed.
