(* FloatBase: executable IEEE-754 binary64 layer (Flocq BinarySingleNaN) used by
   every model file.  Definitions only; lemmas live in FloatLemmas.v. *)
From Coq Require Import ZArith List Bool.
From Flocq Require Import Core BinarySingleNaN.
Import ListNotations.
Open Scope Z_scope.

Definition prec := 53.
Definition emax := 1024.
Definition F := binary_float prec emax.
Lemma Hprec : FLX.Prec_gt_0 prec. Proof. reflexivity. Qed.
Lemma Hmax : Prec_lt_emax prec emax. Proof. reflexivity. Qed.
#[global] Existing Instance Hprec.
#[global] Existing Instance Hmax.

(* arithmetic: round to nearest even everywhere, as Rust on x86-64/SSE2 *)
Definition fadd : F -> F -> F := Bplus mode_NE.
Definition fsub : F -> F -> F := Bminus mode_NE.
Definition fmul : F -> F -> F := Bmult mode_NE.
Definition fdiv : F -> F -> F := Bdiv mode_NE.
Definition fsqrt : F -> F := Bsqrt mode_NE.
Definition fabs : F -> F := Babs.
Definition fneg : F -> F := Bopp.
Definition flt : F -> F -> bool := Bltb.
Definition fle : F -> F -> bool := Bleb.
Definition feq : F -> F -> bool := Beqb.
Definition fgt (x y : F) : bool := Bltb y x.
Definition fge (x y : F) : bool := Bleb y x.
Definition fcmp : F -> F -> option comparison := Bcompare.
Definition fceil : F -> F := Bnearbyint mode_UP.
Definition ftrunc : F -> F := Bnearbyint mode_ZR.
Definition fround : F -> F := Bnearbyint mode_NA.      (* f64::round: ties away from zero *)
Definition ffract (x : F) : F := fsub x (ftrunc x).     (* f64::fract = self - self.trunc() *)
Definition fis_nan (x : F) : bool := match x with B754_nan => true | _ => false end.
Definition ffinite (x : F) : bool := is_finite x.

Definition of_Z (z : Z) : F := binary_normalize prec emax _ _ mode_NE z 0 false.

(* bit patterns <-> floats (any NaN maps to the canonical quiet NaN) *)
Definition of_bits (b : Z) : F :=
  let s := Z.testbit b 63 in
  let e := Z.land (Z.shiftr b 52) 2047 in
  let m := Z.land b (2^52 - 1) in
  if e =? 2047 then (if m =? 0 then B754_infinity s else B754_nan)
  else if e =? 0 then binary_normalize prec emax _ _ mode_NE (if s then - m else m) (-1074) s
  else binary_normalize prec emax _ _ mode_NE (if s then - (m + 2^52) else (m + 2^52)) (e - 1075) s.

Definition to_bits (x : F) : Z :=
  match x with
  | B754_zero s => if s then 2^63 else 0
  | B754_infinity s => (if s then 2^63 else 0) + 2047 * 2^52
  | B754_nan => 2047 * 2^52 + 2^51
  | B754_finite s m e _ =>
      (if s then 2^63 else 0) +
      (if Z.pos m <? 2^52 then Z.pos m else (e + 1075) * 2^52 + (Z.pos m - 2^52))
  end.

(* Rust `%` on f64 = C fmod: exact, sign of the dividend *)
Definition ffmod (x y : F) : F :=
  match x, y with
  | B754_nan, _ | _, B754_nan | B754_infinity _, _ | _, B754_zero _ => B754_nan
  | B754_zero s, _ => x
  | _, B754_infinity _ => x
  | B754_finite sx mx ex _, B754_finite sy my ey _ =>
      let e := Z.min ex ey in
      let a := Z.pos mx * 2 ^ (ex - e) in
      let b := Z.pos my * 2 ^ (ey - e) in
      let r := a mod b in
      binary_normalize prec emax _ _ mode_NE (if sx then - r else r) e sx
  end.

(* Rust `x as usize` (saturating; NaN -> 0) *)
Definition USIZE_MAX : Z := 2^64 - 1.
Definition f2usize (x : F) : Z :=
  match x with
  | B754_nan => 0
  | B754_infinity s => if s then 0 else USIZE_MAX
  | _ => let t := Btrunc x in if t <? 0 then 0 else if t >? USIZE_MAX then USIZE_MAX else t
  end.

(* f64::max (IEEE maxNum as lowered on x86-64: NaN loses; ties between zeros
   keep the first operand when the second compares not-greater) *)
Definition fmax (x y : F) : F :=
  if fis_nan x then y else if fis_nan y then x else if flt x y then y else x.

(* f64::clamp(min,max) as in core: two comparisons, NaN passes through *)
Definition fclamp (x lo hi : F) : F :=
  let x1 := if flt x lo then lo else x in
  if fgt x1 hi then hi else x1.

(* constants *)
Definition zero : F := B754_zero false.
Definition nzero : F := B754_zero true.
Definition one : F := of_Z 1.
Definition two : F := of_Z 2.
Definition three : F := of_Z 3.
Definition four : F := of_Z 4.
Definition PI : F := of_bits 0x400921FB54442D18.
Definition Q : F := fdiv PI two.                       (* PI / 2.0 *)
Definition eps10 : F := of_bits 0x3DDB7CDFD9D7BDBB.    (* 1e-10 *)
Definition eps15 : F := of_bits 0x3CD203AF9EE75616.    (* 1e-15 *)

Definition fpowi2 (x : F) : F := fmul x x.             (* powi(2) = __powidf2(x,2) = x*x *)
