(* FloatLemmas: real-number facts about the executable float layer. *)
From Coq Require Import ZArith List Bool Reals Lra Lia Psatz.
From Flocq Require Import Core BinarySingleNaN Sterbenz.
Require Import GV.FloatBase.
Open Scope R_scope.

Notation R_ := (B2R (prec:=prec) (emax:=emax)).
Definition fin (x : F) := is_finite x = true.
Notation fexp := (FLT_exp (3 - emax - prec) prec).
Notation rnd := (round radix2 fexp ZnearestE).
Notation fmt := (generic_format radix2 fexp).

Lemma fmt_R x : fmt (R_ x). Proof. apply generic_format_B2R. Qed.

Lemma rnd_small_lt_emax x : Rabs x <= bpow radix2 1000 -> Rabs (rnd x) < bpow radix2 emax.
Proof.
intros H. apply Rle_lt_trans with (bpow radix2 1000).
- apply abs_round_le_generic; auto with typeclass_instances.
  apply generic_format_bpow. unfold FLT_exp, emax, prec. simpl. lia.
- apply bpow_lt. unfold emax; lia.
Qed.

Lemma small_le_1000 x : Rabs x <= 16 -> Rabs x <= bpow radix2 1000.
Proof. intros. apply Rle_trans with (1:=H). change 16 with (bpow radix2 4). apply bpow_le; lia. Qed.

Lemma fadd_R x y : fin x -> fin y -> Rabs (R_ x + R_ y) <= bpow radix2 1000 ->
  R_ (fadd x y) = rnd (R_ x + R_ y) /\ fin (fadd x y).
Proof.
intros Hx Hy Hb. generalize (Bplus_correct prec emax _ _ mode_NE x y Hx Hy).
rewrite Rlt_bool_true. intros (A&B&_). split; auto. now apply rnd_small_lt_emax.
Qed.

Lemma fsub_R x y : fin x -> fin y -> Rabs (R_ x - R_ y) <= bpow radix2 1000 ->
  R_ (fsub x y) = rnd (R_ x - R_ y) /\ fin (fsub x y).
Proof.
intros Hx Hy Hb. generalize (Bminus_correct prec emax _ _ mode_NE x y Hx Hy).
rewrite Rlt_bool_true. intros (A&B&_). split; auto. now apply rnd_small_lt_emax.
Qed.

Lemma fmul_R x y : fin x -> fin y -> Rabs (R_ x * R_ y) <= bpow radix2 1000 ->
  R_ (fmul x y) = rnd (R_ x * R_ y) /\ fin (fmul x y).
Proof.
intros Hx Hy Hb. generalize (Bmult_correct prec emax _ _ mode_NE x y).
rewrite Rlt_bool_true. intros (A&B&_). split; auto. unfold fin, fmul. rewrite B. now rewrite Hx, Hy.
now apply rnd_small_lt_emax.
Qed.

Lemma fdiv_R x y : fin x -> R_ y <> 0 -> Rabs (R_ x / R_ y) <= bpow radix2 1000 ->
  R_ (fdiv x y) = rnd (R_ x / R_ y) /\ fin (fdiv x y).
Proof.
intros Hx Hy Hb. generalize (Bdiv_correct prec emax _ _ mode_NE x y Hy).
rewrite Rlt_bool_true. intros (A&B&_). split; auto. unfold fin, fdiv. now rewrite B.
now apply rnd_small_lt_emax.
Qed.

Lemma fabs_R x : R_ (fabs x) = Rabs (R_ x). Proof. apply B2R_Babs. Qed.
Lemma fin_fabs x : fin x -> fin (fabs x). Proof. unfold fin, fabs. now rewrite is_finite_Babs. Qed.
Lemma fneg_R x : R_ (fneg x) = - R_ x. Proof. apply B2R_Bopp. Qed.
Lemma fin_fneg x : fin x -> fin (fneg x). Proof. unfold fin, fneg. now rewrite is_finite_Bopp. Qed.

Lemma flt_R x y : fin x -> fin y -> flt x y = Rlt_bool (R_ x) (R_ y).
Proof. intros; now apply Bltb_correct. Qed.
Lemma fle_R x y : fin x -> fin y -> fle x y = Rle_bool (R_ x) (R_ y).
Proof. intros; now apply Bleb_correct. Qed.
Lemma feq_R x y : fin x -> fin y -> feq x y = Req_bool (R_ x) (R_ y).
Proof. intros; now apply Beqb_correct. Qed.
Lemma fge_R x y : fin x -> fin y -> fge x y = Rle_bool (R_ y) (R_ x).
Proof. intros; unfold fge; now apply Bleb_correct. Qed.
Lemma fgt_R x y : fin x -> fin y -> fgt x y = Rlt_bool (R_ y) (R_ x).
Proof. intros; unfold fgt; now apply Bltb_correct. Qed.

Lemma rnd_ge0 x : 0 <= x -> 0 <= rnd x.
Proof. intros. rewrite <- (round_0 radix2 fexp ZnearestE). apply round_le; auto with typeclass_instances. Qed.
Lemma rnd_le0 x : x <= 0 -> rnd x <= 0.
Proof. intros. rewrite <- (round_0 radix2 fexp ZnearestE). apply round_le; auto with typeclass_instances. Qed.

Lemma rnd_ge0_mode x : 0 <= x -> 0 <= round radix2 (SpecFloat.fexp prec emax) (round_mode mode_NE) x.
Proof. exact (rnd_ge0 x). Qed.

(* constants *)
Lemma fin_Q : fin Q. Proof. reflexivity. Qed.
Lemma fin_PI : fin PI. Proof. reflexivity. Qed.
Lemma fin_eps10 : fin eps10. Proof. reflexivity. Qed.
Lemma fin_eps15 : fin eps15. Proof. reflexivity. Qed.
Lemma fin_zero : fin zero. Proof. reflexivity. Qed.
Lemma R_zero : R_ zero = 0. Proof. reflexivity. Qed.

Lemma Qval : R_ Q = 7074237752028440 / 4503599627370496.
Proof. vm_compute Q. unfold B2R, F2R. simpl. lra. Qed.
Lemma E10val : R_ eps10 = 7737125245533627 / 77371252455336267181195264.
Proof. vm_compute eps10. unfold B2R, F2R. simpl. lra. Qed.
Lemma E15val : R_ eps15 = 5070602400912918 / 5070602400912917605986812821504.
Proof. vm_compute eps15. unfold B2R, F2R. simpl. lra. Qed.
Lemma Qpos : 0 < R_ Q. Proof. rewrite Qval; lra. Qed.
Lemma E10pos : 0 < R_ eps10. Proof. rewrite E10val; lra. Qed.
Lemma E15pos : 0 < R_ eps15. Proof. rewrite E15val; lra. Qed.

Lemma pred_Q : pred radix2 fexp (R_ Q) = 7074237752028439 / 4503599627370496.
Proof.
rewrite Qval. replace (7074237752028440 / 4503599627370496) with (F2R (Float radix2 7074237752028440 (-52))) by (unfold F2R; simpl; lra).
rewrite pred_eq_pos by (apply F2R_ge_0; simpl; lia).
unfold pred_pos. rewrite Req_bool_false.
2:{ rewrite mag_F2R_Zdigits by lia. vm_compute Zdigits. unfold F2R; simpl. lra. }
rewrite ulp_neq_0 by (unfold F2R; simpl; lra).
unfold cexp. rewrite mag_F2R_Zdigits by lia. vm_compute Zdigits. unfold FLT_exp, F2R; simpl. lra.
Qed.

(* ---- exact fmod ---- *)
Lemma bounded_digits mx ex : SpecFloat.bounded prec emax mx ex = true ->
  (Z.pos mx < 2 ^ 53)%Z /\ (-1074 <= ex)%Z.
Proof.
intros H. apply andb_prop in H. destruct H as [H1 H2].
apply Zeq_bool_eq in H1. apply Zle_bool_imp_le in H2.
unfold FLT_exp, SpecFloat.fexp, SpecFloat.emin, emax, prec in *.
rewrite Zpos_digits2_pos in H1.
split.
- assert (Hd: (Zdigits radix2 (Z.pos mx) <= 53)%Z) by lia.
  apply (Zpower_gt_Zdigits radix2 53 (Z.pos mx)) in Hd. simpl in Hd. lia.
- lia.
Qed.

Lemma ffmod_pos mx ex Hx my ey Hy :
  let x := B754_finite false mx ex Hx : F in
  let y := B754_finite false my ey Hy : F in
  fin (ffmod x y) /\ 0 <= R_ (ffmod x y) < R_ y /\
  exists k:Z, (0 <= k)%Z /\ R_ x = IZR k * R_ y + R_ (ffmod x y).
Proof.
intros x y. unfold ffmod, x, y.
set (e := Z.min ex ey).
set (a := (Z.pos mx * 2 ^ (ex - e))%Z).
set (b := (Z.pos my * 2 ^ (ey - e))%Z).
destruct (bounded_digits _ _ Hx) as [Dx Ex].
destruct (bounded_digits _ _ Hy) as [Dy Ey].
assert (Hb : (0 < b)%Z). { unfold b. apply Z.mul_pos_pos. lia. apply Z.pow_pos_nonneg; lia. }
assert (Ha : (0 <= a)%Z). { unfold a. apply Z.mul_nonneg_nonneg. lia. apply Z.pow_nonneg; lia. }
pose proof (Z.mod_pos_bound a b Hb) as Hr.
pose proof (Z_div_mod_eq_full a b) as Hdm.
set (r := (a mod b)%Z) in *.
assert (Hrs : (r < 2^53)%Z).
{ destruct (Z.min_spec ex ey) as [[Hlt He]|[Hle He]]; fold e in He.
  - assert (a = Z.pos mx) by (unfold a; rewrite He, Z.sub_diag; simpl; lia).
    pose proof (Z.mod_le a b Ha Hb). fold r in H0. lia.
  - assert (b = Z.pos my) by (unfold b; rewrite He, Z.sub_diag; simpl; lia). lia. }
assert (He : (-1074 <= e)%Z) by (unfold e; lia).
assert (RX : R_ (B754_finite false mx ex Hx) = IZR a * bpow radix2 e).
{ unfold B2R, F2R, a; simpl Fnum; simpl Fexp. rewrite mult_IZR, (IZR_Zpower radix2) by (unfold e; lia).
  rewrite Rmult_assoc, <- bpow_plus. f_equal. f_equal. lia. }
assert (RY : R_ (B754_finite false my ey Hy) = IZR b * bpow radix2 e).
{ unfold B2R, F2R, b; simpl Fnum; simpl Fexp. rewrite mult_IZR, (IZR_Zpower radix2) by (unfold e; lia).
  rewrite Rmult_assoc, <- bpow_plus. f_equal. f_equal. lia. }
assert (FMT : generic_format radix2 (FLT_exp (3-emax-prec) prec) (F2R (Float radix2 r e))).
{ apply generic_format_FLT. apply FLT_spec with (Float radix2 r e); simpl; auto.
  unfold prec. rewrite Z.abs_eq by lia. exact Hrs. }
generalize (binary_normalize_correct prec emax _ _ mode_NE r e false).
cbv zeta. simpl round_mode. rewrite round_generic; auto with typeclass_instances.
rewrite Rlt_bool_true.
2:{ unfold F2R; simpl. rewrite Rabs_mult, Rabs_pos_eq, Rabs_pos_eq; try apply bpow_ge_0; try (apply IZR_le; lia).
    apply Rlt_le_trans with (R_ (B754_finite false my ey Hy)).
    rewrite RY. apply Rmult_lt_compat_r. apply bpow_gt_0. apply IZR_lt; lia.
    apply Rlt_le. generalize (abs_B2R_lt_emax prec emax (B754_finite false my ey Hy)).
    rewrite Rabs_pos_eq. auto. rewrite RY. apply Rmult_le_pos. apply IZR_le; lia. apply bpow_ge_0. }
intros (V & Fn & _).
split; [exact Fn|]. rewrite V. unfold F2R; simpl.
pose proof (bpow_gt_0 radix2 e) as Hp.
split; [split|].
- apply Rmult_le_pos. apply IZR_le; lia. lra.
- change (F2R {| Fnum := Z.pos my; Fexp := ey |}) with (R_ (B754_finite false my ey Hy)). rewrite RY. apply Rmult_lt_compat_r; auto. apply IZR_lt; lia.
- exists (a / b)%Z. split. apply Z.div_pos; lia.
  change (F2R {| Fnum := Z.pos my; Fexp := ey |}) with (R_ (B754_finite false my ey Hy)).
  change (F2R {| Fnum := Z.pos mx; Fexp := ex |}) with (R_ (B754_finite false mx ex Hx)).
  rewrite RX, RY. rewrite <- Rmult_assoc, <- mult_IZR, <- Rmult_plus_distr_r, <- plus_IZR.
  f_equal. f_equal. unfold r. lia.
Qed.

Lemma ffmod_pos' x y : fin x -> fin y -> 0 < R_ x -> 0 < R_ y ->
  fin (ffmod x y) /\ 0 <= R_ (ffmod x y) < R_ y /\
  exists k:Z, (0 <= k)%Z /\ R_ x = IZR k * R_ y + R_ (ffmod x y).
Proof.
destruct x as [sx|sx| |sx mx ex Hx]; try discriminate; intros _.
- intros _ H; simpl in H; lra.
- destruct y as [sy|sy| |sy my ey Hy]; try discriminate; intros _.
  + intros _ H; simpl in H; lra.
  + intros H1 H2.
    destruct sx. { exfalso. assert (K := F2R_lt_0 radix2 (Float radix2 (Z.neg mx) ex) ltac:(simpl; lia)). simpl in H1. lra. }
    destruct sy. { exfalso. assert (K := F2R_lt_0 radix2 (Float radix2 (Z.neg my) ey) ltac:(simpl; lia)). simpl in H2. lra. }
    apply ffmod_pos.
Qed.

(* ---- the 1e-10 boundary test ---- *)
Definition near10 (r : F) := flt (fabs (fsub r Q)) eps10.

Lemma near10_spec r : fin r -> 0 <= R_ r <= 4 ->
  near10 r = Rlt_bool (Rabs (rnd (R_ r - R_ Q))) (R_ eps10).
Proof.
intros Fr Hr. unfold near10.
destruct (fsub_R r Q Fr fin_Q) as [V Fs].
{ apply small_le_1000. rewrite Qval. apply Rabs_le. lra. }
rewrite flt_R; auto using fin_fabs, fin_eps10. now rewrite fabs_R, V.
Qed.

Lemma not_near_below r : fin r -> 0 <= R_ r < R_ Q -> near10 r = false ->
  R_ r <= R_ Q - R_ eps10.
Proof.
intros Fr Hr Hn. rewrite near10_spec in Hn; auto. 2:{ rewrite Qval in Hr; lra. }
destruct (Rle_lt_dec (R_ Q / 2) (R_ r)) as [Hh|Hh].
- assert (Fm : fmt (R_ r - R_ Q)).
  { apply sterbenz; auto using fmt_R with typeclass_instances. rewrite Qval in *. lra. }
  rewrite round_generic in Hn; auto with typeclass_instances.
  destruct (Rlt_bool_spec (Rabs (R_ r - R_ Q)) (R_ eps10)) as [H|H]; [discriminate|].
  assert (Hneg : R_ r - R_ Q <= 0) by (destruct Hr; lra). rewrite (Rabs_left1 _ Hneg) in H. lra.
- rewrite Qval, E10val in *. lra.
Qed.

Lemma below_not_near r : fin r -> 0 <= R_ r -> R_ r <= R_ Q - R_ eps10 -> near10 r = false.
Proof.
intros Fr H0 H1. rewrite near10_spec; auto. 2:{ rewrite Qval, E10val in *; lra. }
apply Rlt_bool_false.
assert (rnd (R_ r - R_ Q) <= - R_ eps10).
{ rewrite <- (round_generic radix2 fexp ZnearestE (- R_ eps10)).
  apply round_le; auto with typeclass_instances. lra.
  apply generic_format_opp, fmt_R. }
pose proof E10pos.
rewrite Rabs_left1; lra.
Qed.

(* canonical remainder: the invariant every normalising exit establishes *)
Definition canonp (r : F) := fin r /\ 0 <= R_ r <= R_ Q - R_ eps10.

Lemma canonp_zero : canonp zero.
Proof. split. reflexivity. rewrite R_zero, Qval, E10val. lra. Qed.
Lemma canonp_lt r : canonp r -> 0 <= R_ r < R_ Q.
Proof. intros (F0&H0&H1). pose proof E10pos. lra. Qed.

(* a concrete float between 2q - 2e10 and 2q - e10 *)
Definition V0 : F := fsub (fmul two Q) (fmul (of_bits 0x3FF8000000000000) eps10).
Lemma V0_ok : fin V0 /\ 2 * R_ Q - 2 * R_ eps10 <= R_ V0 <= 2 * R_ Q - R_ eps10.
Proof. split. reflexivity. rewrite Qval, E10val. vm_compute V0. unfold B2R, F2R.
cbv -[IZR Rmult Rinv Rle Rlt Rminus Rdiv Rplus Ropp]. lra. Qed.

Lemma round_trunc_FIX y : round radix2 (FIX_exp 0) Ztrunc y = IZR (Ztrunc y).
Proof. unfold round, scaled_mantissa, cexp, FIX_exp, F2R. simpl. now rewrite 2!Rmult_1_r. Qed.

Lemma f2usize_div t : fin t -> R_ Q <= R_ t <= R_ V0 -> f2usize (fdiv t Q) = 1%Z.
Proof.
intros Ft [H1 H2]. destruct V0_ok as [_ [_ V2]].
assert (Qnz : R_ Q <> 0) by (rewrite Qval; lra).
pose proof E10pos as E10p.
set (C := F2R (Float radix2 (2^35-1) (-34))).
assert (Cv : C = 2 - / 17179869184) by (unfold C, F2R; simpl; lra).
assert (FC : fmt C).
{ apply generic_format_FLT. apply FLT_spec with (Float radix2 (2^35-1) (-34)); simpl; auto; lia. }
assert (F1 : fmt 1).
{ change 1 with (bpow radix2 0). apply generic_format_bpow. unfold FLT_exp; simpl; lia. }
assert (Hq : 1 <= R_ t / R_ Q <= C).
{ rewrite Cv. rewrite Qval, E10val in *. split.
  - apply Rmult_le_reg_r with (7074237752028440 / 4503599627370496). lra. field_simplify. lra.
  - apply Rmult_le_reg_r with (7074237752028440 / 4503599627370496). lra. field_simplify. lra. }
assert (Hr : 1 <= rnd (R_ t / R_ Q) <= C).
{ split.
  - rewrite <- (round_generic radix2 fexp ZnearestE 1 F1). apply round_le; auto with typeclass_instances. lra.
  - rewrite <- (round_generic radix2 fexp ZnearestE C FC). apply round_le; auto with typeclass_instances. lra. }
destruct (fdiv_R t Q Ft Qnz) as [V Fd].
{ apply small_le_1000. rewrite Rabs_pos_eq by lra. rewrite Cv in Hq. lra. }
unfold f2usize. destruct (fdiv t Q) as [s|s| |s m e Hm] eqn:E; try discriminate Fd.
- change (R_ (B754_zero s)) with 0 in V. lra.
- assert (Bt : Btrunc (B754_finite s m e Hm) = 1%Z).
  { apply eq_IZR. rewrite Btrunc_correct, round_trunc_FIX. rewrite V. f_equal.
    rewrite Ztrunc_floor by lra. apply Zfloor_imp. rewrite plus_IZR. rewrite Cv in Hr. lra. exact Hmax. }
  rewrite Bt. reflexivity.
Qed.

(* ---- commutativity of addition, bit for bit ---- *)
Lemma fadd_comm x y : fadd x y = fadd y x.
Proof.
unfold fadd.
destruct x as [sx|sx| |sx mx ex Hx], y as [sy|sy| |sy my ey Hy]; simpl; try reflexivity.
- destruct sx, sy; reflexivity.
- destruct sx, sy; reflexivity.
- rewrite (Z.min_comm ey ex). unfold Fplus_naive. rewrite Z.add_comm. reflexivity.
Qed.


(* rounding error of one operation whose result stays below 4: at most 2^-52 *)
Lemma rnd_err_4 x : Rabs x < 4 -> Rabs (rnd x - x) <= / 4503599627370496.
Proof.
intros Hx.
destruct (Req_dec x 0) as [->|Nz]. { rewrite round_0; auto with typeclass_instances. rewrite Rminus_0_r, Rabs_R0. lra. }
apply Rle_trans with (/2 * ulp radix2 fexp x).
- apply error_le_half_ulp; auto with typeclass_instances.
- assert (ulp radix2 fexp x <= bpow radix2 (-51)).
  { rewrite ulp_neq_0 by assumption. apply bpow_le. unfold cexp, FLT_exp.
    assert (mag radix2 x <= 2)%Z.
    { apply mag_le_bpow; auto. }
    unfold prec, emax. apply Z.max_lub; lia. }
  replace (/ 4503599627370496) with (/2 * bpow radix2 (-51)) by (simpl; lra). lra.
Qed.
