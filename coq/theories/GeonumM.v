(* GeonumM: item-by-item transcription of /repo/src/geonum_mod.rs (non-test part).
   Functions that can reach one of the three documented `panic!`s return
   `option`: None is the panic. *)
From Coq Require Import ZArith List Bool.
From Flocq Require Import Core BinarySingleNaN.
Require Import GV.FloatBase GV.AngleM.
Import ListNotations.
Open Scope Z_scope.

Record geonum := mkGeo { mag : F; ang : angle }.

Definition EPSILON : F := eps10.

Definition obind {A B} (x : option A) (f : A -> option B) : option B :=
  match x with Some a => f a | None => None end.
Definition omap {A B} (f : A -> B) (x : option A) : option B :=
  match x with Some a => Some (f a) | None => None end.

Section WithLibm.
Context (L : libm).

Definition gnew (m p d : F) : geonum := {| mag := m; ang := new p d |}.
Definition gnew_with_angle (m : F) (a : angle) : geonum := {| mag := m; ang := a |}.
Definition gnew_from_cartesian (x y : F) : geonum :=
  let m := fsqrt (fadd (fmul x x) (fmul y y)) in
  let a := new_from_cartesian L x y in
  {| mag := m; ang := a |}.
Definition gnew_with_blade (m : F) (b : Z) (p d : F) : geonum :=
  {| mag := m; ang := new_with_blade b p d |}.
Definition create_dimension (m : F) (k : Z) : geonum :=
  {| mag := m; ang := new (of_Z k) two |}.
Definition scalar (v : F) : geonum :=
  {| mag := fabs v; ang := if fge v zero then new zero one else new one one |}.

Definition increment_blade (g : geonum) : geonum :=
  let quarter_turn := new one two in
  {| mag := mag g; ang := add_vv (ang g) quarter_turn |}.
Definition decrement_blade (g : geonum) : geonum :=
  let neg_quarter_turn := new (fneg one) two in
  {| mag := mag g; ang := add_vv (ang g) neg_quarter_turn |}.
Definition gdual (g : geonum) : geonum := gnew_with_angle (mag g) (dual (ang g)).
Definition gundual (g : geonum) : geonum := gnew_with_angle (mag g) (undual (ang g)).
Definition copy_blade (g other : geonum) : geonum :=
  let current_blade := blade (ang g) in
  let target_blade := blade (ang other) in
  let blade_diff := target_blade - current_blade in
  let rotation := new (of_Z blade_diff) two in
  {| mag := mag g; ang := add_vv (ang g) rotation |}.
Definition differentiate (g : geonum) : geonum :=
  let quarter_turn := new one two in
  {| mag := mag g; ang := add_vv (ang g) quarter_turn |}.
Definition integrate (g : geonum) : geonum :=
  let three_quarter_turns := new three two in
  {| mag := mag g; ang := add_vv (ang g) three_quarter_turns |}.

(* panics iff self.mag == 0.0 *)
Definition inv (g : geonum) : option geonum :=
  if feq (mag g) zero then None
  else Some {| mag := fdiv one (mag g); ang := negate (ang g) |}.

(* impl Mul for Geonum and its three delegating spellings *)
Definition gmul_vv (a b : geonum) : geonum :=
  {| mag := fmul (mag a) (mag b); ang := add_vv (ang a) (ang b) |}.
Definition gmul_rr (a b : geonum) : geonum := gmul_vv a b.
Definition gmul_rv (a b : geonum) : geonum := gmul_vv a b.
Definition gmul_vr (a b : geonum) : geonum := gmul_vv a b.

(* impl Div for Geonum: self.mul(other.inv()) *)
Definition gdiv_vv (a b : geonum) : option geonum := omap (gmul_vv a) (inv b).
Definition gdiv_rr (a b : geonum) : option geonum := gdiv_vv a b.
Definition gdiv_rv (a b : geonum) : option geonum := gdiv_vv a b.
Definition gdiv_vr (a b : geonum) : option geonum := gdiv_vv a b.
(* pub fn div(&self, other: &Geonum): *self * other.inv() *)
Definition gdiv_method (a b : geonum) : option geonum := omap (gmul_vv a) (inv b).

Definition normalize (g : geonum) : option geonum :=
  if feq (mag g) zero then None else Some {| mag := one; ang := ang g |}.

(* fn signed_at(value: f64, base: Angle) -> Geonum *)
Definition signed_at (value : F) (base : angle) : geonum :=
  let a := if flt value zero then add_vv base (new one one) else base in
  gnew_with_angle (fabs value) a.

Definition dot (a b : geonum) : geonum :=
  let angle_diff := sub_vv (ang b) (ang a) in
  let cos_component := cosF L (grade_angle angle_diff) in
  let scalar_value := fmul (fmul (mag a) (mag b)) cos_component in
  signed_at scalar_value (new zero one).

Definition project_to_dimension (g : geonum) (k : Z) : F :=
  let target_axis := new_with_blade k zero one in
  fmul (mag g) (aproject L (ang g) target_axis).

Definition wedge (a b : geonum) : geonum :=
  let angle_diff := sub_vv (ang b) (ang a) in
  let sin_value := sinF L (grade_angle angle_diff) in
  let m := fmul (fmul (mag a) (mag b)) (fabs sin_value) in
  let quarter_turn := new one two in
  let a0 := add_vv (add_vv (ang a) (ang b)) quarter_turn in
  let a1 := if flt sin_value zero then add_vv a0 (new one one) else a0 in
  {| mag := m; ang := a1 |}.

(* impl Add for Geonum *)
Definition gadd_vv (a b : geonum) : geonum :=
  if aeqb (ang a) (ang b) then {| mag := fadd (mag a) (mag b); ang := ang a |}
  else
    let pi_rotation := new one one in
    if aeqb (add_vv (ang a) pi_rotation) (ang b) || aeqb (add_vv (ang b) pi_rotation) (ang a) then
      let diff := fsub (mag a) (mag b) in
      if flt (fabs diff) EPSILON then
        let combined_blade_count := blade (ang a) + blade (ang b) in
        {| mag := zero; ang := new_with_blade combined_blade_count zero one |}
      else if fgt diff zero then {| mag := diff; ang := ang a |}
      else {| mag := fneg diff; ang := ang b |}
    else
      let angle1 := grade_angle (ang a) in
      let angle2 := grade_angle (ang b) in
      let opp_sum := fadd (fmul (mag a) (sinF L angle1)) (fmul (mag b) (sinF L angle2)) in
      let adj_sum := fadd (fmul (mag a) (cosF L angle1)) (fmul (mag b) (cosF L angle2)) in
      let result_angle := atan2F L opp_sum adj_sum in
      let angle_diff := fsub angle2 angle1 in
      let result_mag :=
        fsqrt (fmax (fadd (fadd (fpowi2 (mag a)) (fpowi2 (mag b)))
                          (fmul (fmul (fmul two (mag a)) (mag b)) (cosF L angle_diff))) zero) in
      let combined_blade_count := blade (ang a) + blade (ang b) in
      let blade_shift := fdiv (fmul (of_Z combined_blade_count) PI) two in
      let adjusted_angle := fsub result_angle blade_shift in
      gnew_with_blade result_mag combined_blade_count adjusted_angle PI.
Definition gadd_rr (a b : geonum) : geonum := gadd_vv a b.
Definition gadd_rv (a b : geonum) : geonum := gadd_vv a b.
Definition gadd_vr (a b : geonum) : geonum := gadd_vv a b.

Definition gnegate (g : geonum) : geonum := {| mag := mag g; ang := negate (ang g) |}.

(* impl Sub for Geonum: self.add(other.negate()) *)
Definition gsub_vv (a b : geonum) : geonum := gadd_vv a (gnegate b).
Definition gsub_rr (a b : geonum) : geonum := gsub_vv a b.
Definition gsub_rv (a b : geonum) : geonum := gsub_vv a b.
Definition gsub_vr (a b : geonum) : geonum := gsub_vv a b.

(* Angle * Geonum, Angle * &Geonum, Angle + Geonum, Angle + &Geonum *)
Definition amulg_v (a : angle) (g : geonum) : geonum := {| mag := mag g; ang := add_vv a (ang g) |}.
Definition amulg_r (a : angle) (g : geonum) : geonum := {| mag := mag g; ang := add_vv a (ang g) |}.
Definition aaddg_v (a : angle) (g : geonum) : geonum := {| mag := mag g; ang := add_vv a (ang g) |}.
Definition aaddg_r (a : angle) (g : geonum) : geonum := {| mag := mag g; ang := add_vv a (ang g) |}.

Definition geo (a b : geonum) : geonum :=
  let dot_part := dot a b in
  let wedge_part := wedge a b in
  gadd_vv dot_part wedge_part.

Definition grotate (g : geonum) (rotation : angle) : geonum :=
  {| mag := mag g; ang := rotate (ang g) rotation |}.

Definition reflect (g axis : geonum) : geonum :=
  let complement := sub_vv (new four one) (base_angle (ang g)) in
  let reflected_angle := add_vv (add_vv (ang axis) (ang axis)) complement in
  gnew_with_angle (mag g) reflected_angle.

Definition gproject (g onto : geonum) : geonum :=
  if flt (fabs (mag onto)) EPSILON then
    {| mag := zero; ang := new_with_blade (blade (ang g)) zero one |}
  else
    let projection_factor := aproject L (ang g) (ang onto) in
    let m := fmul (mag g) (fabs projection_factor) in
    let a := if fge projection_factor zero then ang onto else add_vv (ang onto) (new one one) in
    gnew_with_angle m a.

Definition reject (g from : geonum) : geonum :=
  let projection := gproject g from in
  gsub_vv g projection.

Definition is_orthogonal (a b : geonum) : bool :=
  let dot_result := dot a b in
  flt (fabs (mag dot_result)) EPSILON.

Definition mag_diff (a b : geonum) : F := fabs (fsub (mag a) (mag b)).

Definition gpow (g : geonum) (n : F) : geonum :=
  {| mag := powF L (mag g) n; ang := mul_vv (ang g) (new n one) |}.

Definition meet (a b : geonum) : geonum :=
  let dual_self := gdual a in
  let dual_other := gdual b in
  let dual_join := wedge dual_self dual_other in
  gdual dual_join.

Definition gscale (g : geonum) (factor : F) : geonum := gmul_vv g (scalar factor).

Definition invert_circle (g center : geonum) (radius : F) : option geonum :=
  let offset := gsub_vv g center in
  if feq (mag offset) zero then None
  else
    let inverted_offset :=
      gnew_with_angle (fdiv (fmul radius radius) (mag offset)) (ang offset) in
    Some (gadd_vv center inverted_offset).

Definition gbase_angle (g : geonum) : geonum := {| mag := mag g; ang := base_angle (ang g) |}.

Definition scale_rotate (g : geonum) (scale_factor : F) (rotation : angle) : geonum :=
  if flt scale_factor zero then
    gnew_with_angle (fmul (mag g) (fabs scale_factor)) (add_vv (negate (ang g)) rotation)
  else
    gnew_with_angle (fmul (mag g) scale_factor) (add_vv (ang g) rotation).

Definition distance_to (a b : geonum) : geonum :=
  let angle_between := sub_vv (ang b) (ang a) in
  let distance_squared :=
    fsub (fadd (fmul (mag a) (mag a)) (fmul (mag b) (mag b)))
         (fmul (fmul (fmul two (mag a)) (mag b)) (cosF L (grade_angle angle_between))) in
  let distance := fsqrt (fmax distance_squared zero) in
  scalar distance.

Definition gcos (a : angle) : geonum :=
  let v := cosF L (grade_angle a) in
  signed_at v (new zero one).
Definition gsin (a : angle) : geonum :=
  let v := sinF L (grade_angle a) in
  signed_at v (new one two).
Definition gtan (a : angle) : option geonum :=
  let s := gsin a in
  let c := gcos a in
  gdiv_vr s c.

Definition adj (g : geonum) : geonum := gscale (gcos (ang g)) (mag g).
Definition opp (g : geonum) : geonum := gscale (gsin (ang g)) (mag g).

Definition project_to_angle (g : geonum) (onto : angle) : geonum :=
  let angle_diff := sub_vv onto (ang g) in
  let cos_component := cosF L (grade_angle angle_diff) in
  if fge cos_component zero then
    gnew_with_angle (fmul (mag g) cos_component) (new zero one)
  else
    gnew_with_angle (fmul (mag g) (fneg cos_component)) (new one one).

End WithLibm.

(* #[derive(PartialEq)]: self.mag == other.mag && self.angle == other.angle *)
Definition geqb (a b : geonum) : bool := feq (mag a) (mag b) && aeqb (ang a) (ang b).

(* impl Ord for Geonum *)
Definition gcmp (a b : geonum) : option comparison :=
  match acmp (ang a) (ang b) with
  | Some Eq => match fcmp (mag a) (mag b) with Some c => Some c | None => Some Eq end
  | r => r
  end.
Definition gpartial_cmp (a b : geonum) : option (option comparison) :=
  match gcmp a b with Some c => Some (Some c) | None => None end.
