(* GeonumProofs: structural lemmas about GeonumM (geonum_mod.rs). *)
From Coq Require Import ZArith List Bool Reals Lra Lia Psatz.
From Flocq Require Import Core BinarySingleNaN.
Require Import GV.FloatBase GV.FloatLemmas GV.AngleM GV.AngleProofs GV.GeonumM.
Open Scope R_scope.

Lemma fin_not_nan (x : F) : fin x -> is_nan x = false.
Proof. destruct x; try discriminate; reflexivity. Qed.

Lemma fmul_comm x y : fmul x y = fmul y x.
Proof.
unfold fmul.
destruct x as [sx|sx| |sx mx ex Hx], y as [sy|sy| |sy my ey Hy]; try reflexivity;
  try (simpl; rewrite xorb_comm; reflexivity).
generalize (Bmult_correct prec emax _ _ mode_NE (B754_finite sx mx ex Hx) (B754_finite sy my ey Hy)).
generalize (Bmult_correct prec emax _ _ mode_NE (B754_finite sy my ey Hy) (B754_finite sx mx ex Hx)).
rewrite (Rmult_comm (B2R (B754_finite sy my ey Hy))).
case Rlt_bool.
- intros (V1&F1&S1) (V2&F2&S2).
  apply B2R_Bsign_inj; try (rewrite ?F1, ?F2; reflexivity). congruence.
  rewrite S1, S2 by (apply fin_not_nan; unfold fin; rewrite ?F1, ?F2; reflexivity).
  simpl. apply xorb_comm.
- intros H1 H2. apply B2SF_inj. rewrite H1, H2. simpl. now rewrite xorb_comm.
Qed.

(* x * 1.0 = x, bit for bit, for every finite x *)
Lemma fmul_one_r x : fin x -> fmul x one = x.
Proof.
intros Fx. unfold fmul.
generalize (Bmult_correct prec emax _ _ mode_NE x one).
replace (B2R one) with 1 by (vm_compute one; unfold B2R, F2R; simpl; lra).
rewrite Rmult_1_r. rewrite round_generic by (auto with typeclass_instances; apply generic_format_B2R).
rewrite Rlt_bool_true by apply abs_B2R_lt_emax.
intros (V&Fn&S).
assert (Fm : is_finite (Bmult mode_NE x one) = true) by (rewrite Fn, Fx; reflexivity).
apply B2R_Bsign_inj; auto.
rewrite S by now apply fin_not_nan. replace (Bsign one) with false by reflexivity. now rewrite xorb_false_r.
Qed.

Section WithLibm.
Context (L : libm).

(* ---- products ---- *)
Lemma gmul_spec a b :
  mag (gmul_vv a b) = fmul (mag a) (mag b) /\ ang (gmul_vv a b) = geometric_add (ang a) (ang b).
Proof. split; reflexivity. Qed.

Lemma gmul_spellings a b :
  gmul_rr a b = gmul_vv a b /\ gmul_rv a b = gmul_vv a b /\ gmul_vr a b = gmul_vv a b.
Proof. repeat split; reflexivity. Qed.

Lemma gmul_comm a b : gmul_vv a b = gmul_vv b a.
Proof. unfold gmul_vv, add_vv. now rewrite fmul_comm, geometric_add_comm. Qed.

Definition gone : geonum := {| mag := one; ang := zero_angle |}.

Lemma gmul_one_r g : fin (mag g) -> Canon (ang g) ->
  mag (gmul_vv g gone) = mag g /\ aeq (ang (gmul_vv g gone)) (ang g).
Proof.
intros Fm Ca. split.
- cbn [gmul_vv mag gone]. now apply fmul_one_r.
- cbn [gmul_vv ang gone]. unfold add_vv. now apply geometric_add_zero_r.
Qed.

Lemma gdiv_spellings a b :
  gdiv_rr a b = gdiv_vv a b /\ gdiv_rv a b = gdiv_vv a b /\ gdiv_vr a b = gdiv_vv a b /\
  gdiv_method a b = gdiv_vv a b /\ gdiv_vv a b = omap (gmul_vv a) (inv b).
Proof. repeat split; reflexivity. Qed.

(* inverse: panics exactly on zero magnitude; otherwise reciprocal magnitude, half turn added *)
Lemma inv_spec g :
  (inv g = None <-> feq (mag g) zero = true) /\
  (forall r, inv g = Some r -> mag r = fdiv one (mag g) /\ ang r = negate (ang g)).
Proof.
unfold inv. destruct (feq (mag g) zero).
- split. split; reflexivity. intros r H; discriminate.
- split. split; discriminate. intros r H. inversion H; subst. split; reflexivity.
Qed.

Lemma normalize_spec g :
  (normalize g = None <-> feq (mag g) zero = true) /\
  (forall r, normalize g = Some r -> mag r = one /\ ang r = ang g).
Proof.
unfold normalize. destruct (feq (mag g) zero).
- split. split; reflexivity. intros r H; discriminate.
- split. split; discriminate. intros r H. inversion H; subst. split; reflexivity.
Qed.

(* Angle * Geonum, Angle + Geonum: magnitude untouched, angle added *)
Lemma angle_times_geonum a g :
  amulg_v a g = {| mag := mag g; ang := geometric_add a (ang g) |} /\
  amulg_r a g = amulg_v a g /\ aaddg_v a g = amulg_v a g /\ aaddg_r a g = amulg_v a g.
Proof. repeat split; reflexivity. Qed.

(* scalar(v): |v| at angle 0 (v >= 0, including -0.0) or pi (v < 0) *)
Lemma scalar_spec v : fin v ->
  mag (scalar v) = fabs v /\
  ang (scalar v) = if Rle_bool 0 (R_ v) then {| rem := zero; blade := 0 |} else {| rem := zero; blade := 2 |}.
Proof.
intros Fv. unfold scalar. cbn [mag ang]. split; [reflexivity|].
rewrite fge_R by auto using fin_zero. rewrite R_zero, new_0_1, new_1_1. reflexivity.
Qed.

(* scale: magnitude times |factor|, a half turn added iff the factor is negative *)
Lemma gscale_spec g f : fin f -> canonp (rem (ang g)) ->
  mag (gscale g f) = fmul (mag g) (fabs f) /\
  steps_to (ang g) (ang (gscale g f)) (if Rle_bool 0 (R_ f) then 0 else 2).
Proof.
intros Ff Cg. unfold gscale. destruct (scalar_spec f Ff) as [M A].
cbn [gmul_vv mag ang]. rewrite M, A. split; [reflexivity|].
unfold add_vv. destruct (Rle_bool 0 (R_ f)); now apply step_by_k.
Qed.

(* ---- blade-step operators on geometric numbers ---- *)
Lemma gstep_specs g : canonp (rem (ang g)) ->
  (mag (gdual g) = mag g /\ steps_to (ang g) (ang (gdual g)) 2) /\
  (mag (gundual g) = mag g /\ steps_to (ang g) (ang (gundual g)) 2) /\
  (mag (gnegate g) = mag g /\ steps_to (ang g) (ang (gnegate g)) 2) /\
  (mag (differentiate g) = mag g /\ steps_to (ang g) (ang (differentiate g)) 1) /\
  (mag (increment_blade g) = mag g /\ steps_to (ang g) (ang (increment_blade g)) 1) /\
  (mag (integrate g) = mag g /\ steps_to (ang g) (ang (integrate g)) 3) /\
  (mag (decrement_blade g) = mag g /\ steps_to (ang g) (ang (decrement_blade g)) 3).
Proof.
intros C. repeat split; try reflexivity;
  try (apply (dual_step (ang g) C)); try (apply (negate_step (ang g) C));
  cbn [differentiate increment_blade integrate decrement_blade ang]; unfold add_vv;
  rewrite ?new_1_2, ?new_3_2, ?new_m1_2; apply (step_by_k _ _ C).
Qed.

Lemma gbase_angle_spec g :
  mag (gbase_angle g) = mag g /\ blade (ang (gbase_angle g)) = (blade (ang g) mod 4)%Z /\
  rem (ang (gbase_angle g)) = rem (ang g).
Proof. repeat split; reflexivity. Qed.

(* ---- sign encoding shared by dot / cos / sin / project_to_angle ---- *)
Lemma signed_at_spec v k : fin v ->
  signed_at v {| rem := zero; blade := k |} =
  {| mag := fabs v; ang := {| rem := zero; blade := if Rlt_bool (R_ v) 0 then k + 2 else k |} |}.
Proof.
intros Fv. unfold signed_at, gnew_with_angle. rewrite flt_R by auto using fin_zero. rewrite R_zero.
destruct (Rlt_bool (R_ v) 0); [|reflexivity].
rewrite new_1_1. unfold add_vv, geometric_add. cbn [rem blade].
replace (feq (fadd zero zero) zero) with true by (vm_compute; reflexivity). reflexivity.
Qed.

Lemma signed_at_nan k : signed_at B754_nan {| rem := zero; blade := k |} =
  {| mag := B754_nan; ang := {| rem := zero; blade := k |} |}.
Proof. reflexivity. Qed.

(* dot: the value |a||b|cosF(..) returned as |value| at blade 0 (value >= 0) or 2 (value < 0), remainder 0 *)
Definition dot_value (a b : geonum) : F :=
  fmul (fmul (mag a) (mag b)) (cosF L (grade_angle (sub_vv (ang b) (ang a)))).

Lemma dot_encoding a b : fin (dot_value a b) ->
  dot L a b = {| mag := fabs (dot_value a b);
                 ang := {| rem := zero; blade := if Rlt_bool (R_ (dot_value a b)) 0 then 2 else 0 |} |}.
Proof. intros Fv. unfold dot. fold (dot_value a b). rewrite new_0_1. now rewrite signed_at_spec. Qed.

Lemma is_orthogonal_spec a b : is_orthogonal L a b = flt (fabs (mag (dot L a b))) EPSILON.
Proof. reflexivity. Qed.

Lemma gcos_encoding a : fin (cosF L (grade_angle a)) ->
  gcos L a = {| mag := fabs (cosF L (grade_angle a));
               ang := {| rem := zero; blade := if Rlt_bool (R_ (cosF L (grade_angle a))) 0 then 2 else 0 |} |}.
Proof. intros Fv. unfold gcos. rewrite new_0_1. now rewrite signed_at_spec. Qed.

Lemma gsin_encoding a : fin (sinF L (grade_angle a)) ->
  gsin L a = {| mag := fabs (sinF L (grade_angle a));
               ang := {| rem := zero; blade := if Rlt_bool (R_ (sinF L (grade_angle a))) 0 then 3 else 1 |} |}.
Proof. intros Fv. unfold gsin. rewrite new_1_2. now rewrite signed_at_spec. Qed.

Lemma gtan_def a : gtan L a = gdiv_vv (gsin L a) (gcos L a).
Proof. reflexivity. Qed.

(* ---- definitional identities ---- *)
Lemma geo_def a b : geo L a b = gadd_vv L (dot L a b) (wedge L a b).
Proof. reflexivity. Qed.
Lemma meet_def a b : meet L a b = gdual (wedge L (gdual a) (gdual b)).
Proof. reflexivity. Qed.
Lemma reject_def a b : reject L a b = gsub_vv L a (gproject L a b).
Proof. reflexivity. Qed.
Lemma gsub_def a b :
  gsub_vv L a b = gadd_vv L a (gnegate b) /\ gsub_rr L a b = gsub_vv L a b /\
  gsub_rv L a b = gsub_vv L a b /\ gsub_vr L a b = gsub_vv L a b.
Proof. repeat split; reflexivity. Qed.
Lemma gadd_spellings a b :
  gadd_rr L a b = gadd_vv L a b /\ gadd_rv L a b = gadd_vv L a b /\ gadd_vr L a b = gadd_vv L a b.
Proof. repeat split; reflexivity. Qed.
Lemma grotate_spec g r : mag (grotate g r) = mag g /\ ang (grotate g r) = geometric_add (ang g) r.
Proof. split; reflexivity. Qed.
Lemma mag_diff_spec a b : mag_diff a b = fabs (fsub (mag a) (mag b)).
Proof. reflexivity. Qed.
Lemma adj_opp_def g : adj L g = gscale (gcos L (ang g)) (mag g) /\ opp L g = gscale (gsin L (ang g)) (mag g).
Proof. split; reflexivity. Qed.

Lemma four_more g : canonp (rem (ang g)) ->
  steps_to (ang g) (ang (differentiate (differentiate (differentiate (differentiate g))))) 4 /\
  steps_to (ang g) (ang (gdual (gdual g))) 4 /\
  steps_to (ang g) (ang (integrate (differentiate g))) 4.
Proof.
intros C.
assert (D : forall h, canonp (rem (ang h)) -> steps_to (ang h) (ang (differentiate h)) 1)
  by (intros h Ch; apply (gstep_specs h Ch)).
assert (I : forall h, canonp (rem (ang h)) -> steps_to (ang h) (ang (integrate h)) 3)
  by (intros h Ch; apply (gstep_specs h Ch)).
assert (U : forall h, canonp (rem (ang h)) -> steps_to (ang h) (ang (gdual h)) 2)
  by (intros h Ch; apply (gstep_specs h Ch)).
pose proof (D g C) as S1. pose proof (steps_canon _ _ _ C S1) as C1.
pose proof (D _ C1) as S2. pose proof (steps_canon _ _ _ C1 S2) as C2.
pose proof (D _ C2) as S3. pose proof (steps_canon _ _ _ C2 S3) as C3.
pose proof (D _ C3) as S4.
pose proof (U g C) as T1. pose proof (steps_canon _ _ _ C T1) as CT.
pose proof (U _ CT) as T2.
pose proof (I _ C1) as J.
split; [|split].
- exact (steps_trans _ _ _ 1 3 S1 (steps_trans _ _ _ 1 2 S2 (steps_trans _ _ _ 1 1 S3 S4))).
- exact (steps_trans _ _ _ 2 2 T1 T2).
- exact (steps_trans _ _ _ 1 3 S1 J).
Qed.

End WithLibm.

(* ================= totality of the square-root sites, for every libm ================= *)
Definition nonneg_or_inf (x : F) : Prop :=
  is_nan x = false /\ (is_finite x = true -> 0 <= R_ x) /\ (forall s, x = B754_infinity s -> s = false).

Lemma flt_neg_finite s m e H : flt (B754_finite s m e H) zero = s.
Proof.
unfold flt. rewrite Bltb_correct by reflexivity. change (B2R zero) with 0.
destruct s.
- apply Rlt_bool_true. assert (K := F2R_lt_0 radix2 (Float radix2 (Z.neg m) e) ltac:(simpl; lia)). exact K.
- apply Rlt_bool_false. assert (K := F2R_gt_0 radix2 (Float radix2 (Z.pos m) e) ltac:(simpl; lia)). simpl. lra.
Qed.

(* sqrt(max(x, 0.0)) is never NaN and never negative, whatever x is (NaN included) *)
Lemma sqrt_max_total x : nonneg_or_inf (fsqrt (fmax x zero)).
Proof.
unfold nonneg_or_inf, fsqrt, fmax.
destruct x as [s|s| |s m e H]; simpl.
- (* zero *) destruct s; simpl; repeat split; try reflexivity; try (intros; simpl; lra); intros s0 E; discriminate.
- (* infinity *) destruct s; simpl; repeat split; try reflexivity; try (intros; simpl; lra); try discriminate;
    intros s0 E; inversion E; reflexivity.
- (* nan *) repeat split; try reflexivity; try (intros; simpl; lra); intros s0 E; discriminate.
- rewrite flt_neg_finite. destruct s.
  + simpl. repeat split; try reflexivity; try (intros; simpl; lra); intros s0 E; discriminate.
  + generalize (Bsqrt_correct prec emax _ _ mode_NE (B754_finite false m e H)).
    intros (V & Fn & S).
    assert (Fin : is_finite (Bsqrt mode_NE (B754_finite false m e H)) = true) by exact Fn.
    split. { destruct (Bsqrt mode_NE (B754_finite false m e H)); try discriminate; reflexivity. }
    split.
    * intros _. rewrite V. apply rnd_ge0_mode. apply sqrt_ge_0.
    * intros s0 E. rewrite E in Fin. discriminate.
Qed.

Section WithLibm2.
Context (L : libm).

(* distance_to is ALWAYS at angle exactly 0 with a magnitude that is never NaN / negative *)
Lemma fge_zero_nonneg x : nonneg_or_inf x -> fge x zero = true.
Proof.
intros (Nn & Pos & Inf). unfold fge, fle.
destruct x as [s|s| |s m e H]; try discriminate.
- destruct s; reflexivity.
- rewrite (Inf s eq_refl). reflexivity.
- rewrite Bleb_correct by reflexivity. apply Rle_bool_true. change (B2R zero) with 0. now apply Pos.
Qed.

Lemma fabs_nonneg x : nonneg_or_inf x -> nonneg_or_inf (fabs x).
Proof.
intros (Nn & Pos & Inf). destruct x as [s|s| |s m e H]; try discriminate; unfold nonneg_or_inf, fabs; simpl.
- repeat split; auto; try (intros; lra); intros s0 E; discriminate.
- repeat split; auto; try discriminate. intros s0 E; inversion E; reflexivity.
- repeat split; auto. intros _. apply F2R_ge_0. simpl. lia. intros s0 E; discriminate.
Qed.

Lemma distance_encoding a b :
  ang (distance_to L a b) = {| rem := zero; blade := 0 |} /\ nonneg_or_inf (mag (distance_to L a b)).
Proof.
unfold distance_to.
set (d2 := fsub _ _).
pose proof (sqrt_max_total d2) as T.
unfold scalar. cbn [mag ang]. rewrite (fge_zero_nonneg _ T), new_0_1. split; [reflexivity|now apply fabs_nonneg].
Qed.

(* the general-path magnitude of Geonum + Geonum is never NaN / negative *)
Lemma gadd_paths a b :
  (aeqb (ang a) (ang b) = true -> gadd_vv L a b = {| mag := fadd (mag a) (mag b); ang := ang a |}) /\
  (aeqb (ang a) (ang b) = false ->
   aeqb (add_vv (ang a) (new one one)) (ang b) || aeqb (add_vv (ang b) (new one one)) (ang a) = true ->
   let diff := fsub (mag a) (mag b) in
   gadd_vv L a b =
     if flt (fabs diff) EPSILON then {| mag := zero; ang := new_with_blade (blade (ang a) + blade (ang b)) zero one |}
     else if fgt diff zero then {| mag := diff; ang := ang a |} else {| mag := fneg diff; ang := ang b |}) /\
  (aeqb (ang a) (ang b) = false ->
   aeqb (add_vv (ang a) (new one one)) (ang b) || aeqb (add_vv (ang b) (new one one)) (ang a) = false ->
   nonneg_or_inf (mag (gadd_vv L a b))).
Proof.
unfold gadd_vv. split; [|split].
- intros ->. reflexivity.
- intros -> ->. reflexivity.
- intros -> ->. cbn [gnew_with_blade mag]. apply sqrt_max_total.
Qed.

(* projection: structure, independent of the length of the target *)
Lemma gproject_struct g onto :
  (flt (fabs (mag onto)) EPSILON = true ->
     gproject L g onto = {| mag := zero; ang := new_with_blade (blade (ang g)) zero one |}) /\
  (flt (fabs (mag onto)) EPSILON = false ->
     let pf := aproject L (ang g) (ang onto) in
     gproject L g onto =
       {| mag := fmul (mag g) (fabs pf);
          ang := if fge pf zero then ang onto else add_vv (ang onto) (new one one) |}).
Proof. unfold gproject. split; intros ->; reflexivity. Qed.

Lemma gproject_length_free g o1 o2 : ang o1 = ang o2 ->
  flt (fabs (mag o1)) EPSILON = false -> flt (fabs (mag o2)) EPSILON = false ->
  gproject L g o1 = gproject L g o2.
Proof. intros E H1 H2. unfold gproject. now rewrite H1, H2, E. Qed.

(* reflection: magnitude untouched, never fewer blades than twice the axis's *)
Lemma reflect_spec g axis : canonp (rem (ang g)) -> Canon (ang axis) ->
  mag (reflect g axis) = mag g /\ canonp (rem (ang (reflect g axis))) /\
  (2 * blade (ang axis) <= blade (ang (reflect g axis)))%Z.
Proof.
intros Cg [Ca Ba]. split; [reflexivity|].
unfold reflect. cbn [gnew_with_angle ang]. unfold add_vv, sub_vv. rewrite new_4_1.
set (cmpl := geometric_sub _ _).
assert (Cc : canonp (rem cmpl) /\ (0 <= blade cmpl)%Z).
{ apply geometric_sub_canon. apply canonp_zero. exact Cg. }
destruct Cc as [Cc Bc].
destruct (geometric_add_canon (ang axis) (ang axis) Ca Ca) as [C2 B2].
destruct (geometric_add_canon (geometric_add (ang axis) (ang axis)) cmpl C2 Cc) as [C3 B3].
split; [exact C3|]. destruct B2 as [B2|B2], B3 as [B3|B3]; rewrite B3, B2; lia.
Qed.

Lemma reflect_axis_length_free g a1 a2 : ang a1 = ang a2 -> reflect g a1 = reflect g a2.
Proof. intros E. unfold reflect. now rewrite E. Qed.

(* wedge magnitude and angle skeleton *)
Lemma wedge_spec a b :
  let sv := sinF L (grade_angle (sub_vv (ang b) (ang a))) in
  mag (wedge L a b) = fmul (fmul (mag a) (mag b)) (fabs sv) /\
  ang (wedge L a b) =
    let a0 := add_vv (add_vv (ang a) (ang b)) (new one two) in
    if flt sv zero then add_vv a0 (new one one) else a0.
Proof. split; reflexivity. Qed.

(* scale_rotate structure *)
Lemma scale_rotate_spec g f r :
  scale_rotate g f r =
    if flt f zero then {| mag := fmul (mag g) (fabs f); ang := add_vv (negate (ang g)) r |}
    else {| mag := fmul (mag g) f; ang := add_vv (ang g) r |}.
Proof. unfold scale_rotate. destruct (flt f zero); reflexivity. Qed.

Lemma invert_circle_spec g c r :
  (invert_circle L g c r = None <-> feq (mag (gsub_vv L g c)) zero = true).
Proof. unfold invert_circle. destruct (feq (mag (gsub_vv L g c)) zero); split; congruence. Qed.

Lemma project_to_angle_enc g onto :
  let c := cosF L (grade_angle (sub_vv onto (ang g))) in
  project_to_angle L g onto =
    if fge c zero then {| mag := fmul (mag g) c; ang := {| rem := zero; blade := 0 |} |}
    else {| mag := fmul (mag g) (fneg c); ang := {| rem := zero; blade := 2 |} |}.
Proof. unfold project_to_angle. rewrite new_0_1, new_1_1. destruct (fge _ zero); reflexivity. Qed.

End WithLibm2.

Section WithLibm3.
Context (L : libm).

Lemma add_same a b : aeqb (ang a) (ang b) = true ->
  ang (gadd_vv L a b) = ang a /\ mag (gadd_vv L a b) = fadd (mag a) (mag b).
Proof. intros H. destruct (gadd_paths L a b) as [P _]. rewrite (P H). split; reflexivity. Qed.

Lemma add_opposite a b : aeqb (ang a) (ang b) = false ->
  aeqb (add_vv (ang a) (new one one)) (ang b) || aeqb (add_vv (ang b) (new one one)) (ang a) = true ->
  let diff := fsub (mag a) (mag b) in
  gadd_vv L a b =
    if flt (fabs diff) EPSILON then {| mag := zero; ang := new_with_blade (blade (ang a) + blade (ang b)) zero one |}
    else if fgt diff zero then {| mag := diff; ang := ang a |} else {| mag := fneg diff; ang := ang b |}.
Proof. intros H1 H2. destruct (gadd_paths L a b) as [_ [P _]]. exact (P H1 H2). Qed.

Lemma wedge_blades a b : canonp (rem (ang a)) -> canonp (rem (ang b)) ->
  canonp (rem (ang (wedge L a b))) /\
  (blade (ang a) + blade (ang b) + 1 <= blade (ang (wedge L a b)) <= blade (ang a) + blade (ang b) + 4)%Z.
Proof.
intros Ca Cb. destruct (wedge_spec L a b) as [_ E]. rewrite E. clear E.
unfold add_vv. rewrite new_1_2, new_1_1.
destruct (geometric_add_canon (ang a) (ang b) Ca Cb) as [C1 B1].
pose proof (step_by_k (geometric_add (ang a) (ang b)) 1 C1) as S1.
pose proof (steps_canon _ _ _ C1 S1) as C2.
destruct S1 as (B2 & _ & _).
cbv zeta. destruct (flt _ zero).
- pose proof (step_by_k _ 2 C2) as S2. pose proof (steps_canon _ _ _ C2 S2) as C3.
  destruct S2 as (B3 & _ & _). split; [exact C3|]. rewrite B3, B2. destruct B1 as [B1|B1]; rewrite B1; lia.
- split; [exact C2|]. rewrite B2. destruct B1 as [B1|B1]; rewrite B1; lia.
Qed.

End WithLibm3.

(* ================= reflection law, angle level (S2) ================= *)
Lemma reflect_law g axis : canonp (rem (ang g)) -> Canon (ang axis) ->
  Rabs (theta (ang (reflect g axis)) - (2 * theta (ang axis) + 8 * R_ Q - theta (base_angle (ang g))))
    <= 3 * R_ eps10 + 7 * / 4503599627370496.
Proof.
intros Cg [Ca Ba].
unfold reflect. cbn [gnew_with_angle ang]. unfold add_vv, sub_vv. rewrite new_4_1.
set (c8 := {| rem := zero; blade := 8 |}).
set (bp := base_angle (ang g)).
assert (Cb : canonp (rem bp)) by exact Cg.
assert (Bb : (blade bp + 1 <= blade c8)%Z).
{ unfold bp, c8, base_angle, grade. cbn [blade]. pose proof (Z.mod_pos_bound (blade (ang g)) 4 ltac:(lia)). lia. }
pose proof (geometric_sub_total c8 bp canonp_zero Cb Bb) as S1.
destruct (geometric_sub_canon c8 bp canonp_zero Cb) as [Cc _].
pose proof (geometric_add_total (ang axis) (ang axis) Ca Ca) as S2.
destruct (geometric_add_canon (ang axis) (ang axis) Ca Ca) as [C2 _].
pose proof (geometric_add_total (geometric_add (ang axis) (ang axis)) (geometric_sub c8 bp) C2 Cc) as S3.
assert (T8 : theta c8 = 8 * R_ Q). { unfold theta, c8. cbn [rem blade]. rewrite R_zero. ring. }
rewrite T8 in S1.
apply Rabs_le_inv in S1. apply Rabs_le_inv in S2. apply Rabs_le_inv in S3.
apply Rabs_le. lra.
Qed.
