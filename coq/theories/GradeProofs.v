(* GradeProofs: the grade of a sum is fixed by the quadrant of the Cartesian sum (C14), REAL pi / cos / sin. *)
From Coq Require Import ZArith List Bool Reals Lra Lia Psatz.
From Flocq Require Import Core BinarySingleNaN.
Require Import GV.FloatBase GV.FloatLemmas GV.AngleM GV.AngleProofs GV.NewProofs GV.CtorProofs GV.GeonumM GV.GeonumProofs
  GV.ClosureProofs GV.SumUpper GV.PiBounds GV.TrigProofs GV.DotValue GV.DistValue GV.DirProofs GV.SumDir.
Open Scope R_scope.

(* the signs of cos and sin of dirR a (canonical a) determine the grade *)
Lemma grade_of_signs a : Canon a ->
  (0 < cos (dirR a) -> 0 < sin (dirR a) -> grade a = 0%Z) /\
  (cos (dirR a) < 0 -> 0 < sin (dirR a) -> grade a = 1%Z) /\
  (cos (dirR a) < 0 -> sin (dirR a) < 0 -> grade a = 2%Z) /\
  (0 < cos (dirR a) -> sin (dirR a) < 0 -> grade a = 3%Z).
Proof.
intros [(Fr & R0 & R1) Bb]. rewrite (cos_dirR a Bb), (sin_dirR a Bb). unfold dir.
pose proof (grade_range a) as Hg. pose proof PI_RGT_0 as Pp.
pose proof q_below_half_pi as QB. rewrite <- Qval in QB. pose proof E10pos as Ep.
set (r := R_ (rem a)) in *. assert (Rr : 0 <= r < Rtrigo1.PI / 2) by lra.
assert (C0 : 0 < cos r) by (apply cos_gt_0; lra).
assert (S0 : 0 <= sin r) by (apply sin_ge_0; lra).
assert (G : grade a = 0%Z \/ grade a = 1%Z \/ grade a = 2%Z \/ grade a = 3%Z) by lia.
destruct G as [G|[G|[G|G]]]; rewrite G; simpl (IZR _).
- replace (0 * (Rtrigo1.PI / 2) + r) with r by ring. repeat split; intros; try reflexivity; exfalso; lra.
- replace (1 * (Rtrigo1.PI / 2) + r) with (Rtrigo1.PI / 2 + r) by ring. replace (cos (Rtrigo1.PI / 2 + r)) with (- sin r) by (rewrite (sin_cos r); ring). rewrite <- (cos_sin r). repeat split; intros; try reflexivity; exfalso; lra.
- replace (2 * (Rtrigo1.PI / 2) + r) with (r + Rtrigo1.PI) by field. rewrite neg_cos, neg_sin. repeat split; intros; try reflexivity; exfalso; lra.
- replace (3 * (Rtrigo1.PI / 2) + r) with ((Rtrigo1.PI / 2 + r) + Rtrigo1.PI) by field. rewrite neg_cos, neg_sin. replace (cos (Rtrigo1.PI / 2 + r)) with (- sin r) by (rewrite (sin_cos r); ring). rewrite <- (cos_sin r). repeat split; intros; try reflexivity; exfalso; lra.
Qed.

Section GradeDir.
Context (L : libm) (u u2 : R).

(* C14: on the general path the grade of a + b is the quadrant of the Cartesian sum V, whenever V is further than
   the tolerance T of C06_cartesian from both coordinate axes *)
Lemma gadd_grade_from_direction a b : cos_acc L u -> sin_acc L u -> atan2_acc L u2 -> u <= / 1000 ->
  canonp (rem (ang a)) -> canonp (rem (ang b)) ->
  aeqb (ang a) (ang b) = false ->
  aeqb (add_vv (ang a) (new one one)) (ang b) || aeqb (add_vv (ang b) (new one one)) (ang a) = false ->
  (0 <= blade (ang a) + blade (ang b) < 2 ^ 40)%Z ->
  fin (gadd_rad L a b) ->
  fin (fadd (fmul (mag a) (sinF L (grade_angle (ang a)))) (fmul (mag b) (sinF L (grade_angle (ang b))))) ->
  fin (fadd (fmul (mag a) (cosF L (grade_angle (ang a)))) (fmul (mag b) (cosF L (grade_angle (ang b))))) ->
  fin (total_angle (sum_adjusted L a b) PI) -> Rabs (R_ (total_angle (sum_adjusted L a b) PI)) <= bpow radix2 42 ->
  let r := gadd_vv L a b in
  let Vx := R_ (mag a) * cos (dir (ang a)) + R_ (mag b) * cos (dir (ang b)) in
  let Vy := R_ (mag a) * sin (dir (ang a)) + R_ (mag b) * sin (dir (ang b)) in
  let M := Rabs (R_ (mag a)) + Rabs (R_ (mag b)) in
  let E := M * (u + 3 / 1000000000000000) + 4 * bpow radix2 (-1075) in
  let S := R_ (mag a) * R_ (mag a) + R_ (mag b) * R_ (mag b) in
  let Bnd := S * (u + 1 / 100000000000000) + 10 * bpow radix2 (-1075) in
  let tolN := R_ eps10 + 3 / 100000000000000 + IZR (blade (ang a) + blade (ang b)) * (4 / 1000000000000000) in
  let T := sqrt Bnd * (1 + / 9007199254740992) + / 9007199254740992 * sqrt (Vx * Vx + Vy * Vy) + bpow radix2 (-1075)
           + 3 * E + (M + 2 * E) * (u2 + tolN) in
  (T < Vx -> T < Vy -> grade (ang r) = 0%Z) /\
  (Vx < - T -> T < Vy -> grade (ang r) = 1%Z) /\
  (Vx < - T -> Vy < - T -> grade (ang r) = 2%Z) /\
  (T < Vx -> Vy < - T -> grade (ang r) = 3%Z).
Proof.
intros HC HS HA Hu Ca Cb N1 N2 Hn Frad Fopp Fadj Ft Bt r Vx Vy M E S Bnd tolN T.
assert (M0 : 0 <= R_ (mag r)).
{ unfold r. rewrite (gadd_general_mag L a b N1 N2). destruct (fsqrt_fmax_R _ Frad) as (_ & V). rewrite V. apply rnd_ge0, sqrt_pos. }
destruct (gadd_cartesian L u u2 a b HC HS HA Hu Ca Cb N1 N2 Hn Frad Fopp Fadj) as [EX EY].
fold r Vx Vy M E S Bnd tolN T in EX, EY.
assert (Hn53 : (0 <= blade (ang a) + blade (ang b) < 2 ^ 53)%Z) by lia.
destruct (gadd_general_history L a b N1 N2 Hn53 Ft Bt) as [Cr Br]. fold r in Cr, Br.
assert (CR : Canon (ang r)) by (split; [exact Cr|lia]).
destruct (grade_of_signs (ang r) CR) as (G0 & G1 & G2 & G3).
set (m := R_ (mag r)) in *. set (c := cos (dirR (ang r))) in *. set (s := sin (dirR (ang r))) in *.
apply Rabs_le_inv in EX. apply Rabs_le_inv in EY.
assert (Pos : forall x, 0 < m * x -> 0 < x). { intros x H. destruct (Rle_lt_dec x 0) as [L0|G]; [|exact G]. exfalso. nra. }
assert (Neg : forall x, m * x < 0 -> x < 0). { intros x H. destruct (Rle_lt_dec 0 x) as [L0|G]; [|exact G]. exfalso. nra. }
repeat split; intros H1 H2.
- apply G0; [apply Pos|apply Pos]; lra.
- apply G1; [apply Neg|apply Pos]; lra.
- apply G2; [apply Neg|apply Neg]; lra.
- apply G3; [apply Pos|apply Neg]; lra.
Qed.
End GradeDir.
