(* Interp: the op-program language shared with /verif/harness (Rust executor).
   One opcode per public API entry point and per operator spelling.  `run`
   evaluates a program on the model; `check_case` compares the model's registers
   with the serialised registers the implementation produced. *)
From Coq Require Import ZArith List Bool.
From Flocq Require Import Core BinarySingleNaN.
Require Import GV.FloatBase GV.AngleM GV.GeonumM GV.CollM GV.TraitsM.
Import ListNotations.
Open Scope Z_scope.

Inductive op :=
| FImm | UImm
| ANew | ANewBlade | ANewCart | ARotate | ARem | ABlade | AGrade | AIsGrade | ABase | AIsOpp
| ADual | AUndual | AConj | ANeg | AGradeAngle | AProject | AEq | ANe
| AAdd | ASub | AMul | ADivA | ADivF | ACmp | APartialCmp | ARel
| GNew | GNewAngle | GNewCart | GNewBlade | GDim | GScalar
| GIncr | GDecr | GDual | GUndual | GDiff | GInt | GNeg | GBase | GCopyBlade
| GInv | GDivM | GNormalize | GDot | GProjDim | GWedge | GGeo | GRotate | GReflect
| GProject | GReject | GIsOrth | GMagDiff | GPow | GMeet | GMag | GAngle | GScale
| GInvCircle | GScaleRotate | GDist | GAdj | GOpp | GCos | GSin | GTan | GProjAngle
| GAdd | GSub | GMul | GDiv | AMulG | AAddG | GEq | GNe | GCmp | GPartialCmp | GRel
| CNew | CDefault | CFrom | CFromIter | CLen | CIsEmpty | CIter | CIndex | CIntoIter
| CIntoIterRef | CAsRefVec | CAsRefSlice | CTruncate | CCone | CTotal | CDominant
| CScaleAll | CRotateAll | CSort
| TTranslate | TShear | TArea | TView | TCompose | TRefract | TAberrate | TOtf | TAbcd
| TMagnify | TInvField | TEPot | TEField | TPoynting | TWireA | TWireB | TSphWave | TConst
| TPropagate | TDisperse | TFreq | TWavenum | TRegression | TPerceptron | TForward | TActivate.

Inductive value :=
| VA (a : angle) | VG (g : geonum) | VF (x : F) | VU (n : Z) | VB (b : bool)
| VO (c : option comparison) | VC (c : list geonum) | VOG (o : option geonum)
| VPanic | VErr.

Definition instr := (op * list Z)%type.
Definition prog := list instr.

(* recorded libm table: (fn id, arg bits, arg bits, result bits);
   ids: 0 cos 1 sin 2 atan2 3 asin 4 acos 5 exp 6 tanh 7 log 8 pow.
   A miss yields NaN, hence a reported mismatch. *)
Definition tbl := list (Z * Z * Z * Z).
Fixpoint look (t : tbl) (f a b : Z) : F :=
  match t with
  | [] => B754_nan
  | (f', a', b', r) :: t' =>
      if (f =? f') && (a =? a') && (b =? b') then of_bits r else look t' f a b
  end.
Definition libm_of_tbl (t : tbl) : libm :=
  {| cosF := fun x => look t 0 (to_bits x) 0;
     sinF := fun x => look t 1 (to_bits x) 0;
     atan2F := fun y x => look t 2 (to_bits y) (to_bits x);
     asinF := fun x => look t 3 (to_bits x) 0;
     acosF := fun x => look t 4 (to_bits x) 0;
     expF := fun x => look t 5 (to_bits x) 0;
     tanhF := fun x => look t 6 (to_bits x) 0;
     lnF := fun x => look t 7 (to_bits x) 0;
     powF := fun x y => look t 8 (to_bits x) (to_bits y) |}.

(* reference for Vec::sort (stable): insertion sort by the model's comparison.
   None = a comparison hit the `unwrap()` panic of Angle::cmp on an unordered
   (NaN) remainder pair. *)
Fixpoint insert_sorted (x : geonum) (l : list geonum) : option (list geonum) :=
  match l with
  | [] => Some [x]
  | y :: t =>
      match gcmp x y with
      | None => None
      | Some Gt => match insert_sorted x t with Some r => Some (y :: r) | None => None end
      | Some _ => Some (x :: l)
      end
  end.
Definition sort_model (l : list geonum) : option (list geonum) :=
  fold_right (fun x acc => match acc with Some a => insert_sorted x a | None => None end) (Some []) l.

Section Run.
Context (L : libm).

Definition reg (rs : list value) (i : Z) : value :=
  if (i <? 0) || (Z.of_nat (length rs) <=? i) then VErr else nth (Z.to_nat i) rs VErr.

Definition getA rs i := match reg rs i with VA a => Some a | _ => None end.
Definition getG rs i := match reg rs i with VG g => Some g | _ => None end.
Definition getF rs i := match reg rs i with VF x => Some x | _ => None end.
Definition getU rs i := match reg rs i with VU n => Some n | _ => None end.
Definition getC rs i := match reg rs i with VC c => Some c | _ => None end.
Fixpoint getGs rs (is : list Z) : option (list geonum) :=
  match is with
  | [] => Some []
  | i :: t => match getG rs i, getGs rs t with Some g, Some l => Some (g :: l) | _, _ => None end
  end.

Definition vres (o : option geonum) : value := match o with Some g => VG g | None => VPanic end.
Definition ocmp (o : option comparison) : value :=
  match o with Some c => VO (Some c) | None => VPanic end.
Definition opcmp (o : option (option comparison)) : value :=
  match o with Some c => VO c | None => VPanic end.

Definition spell2 {A} (sp : Z) (f0 f1 f2 f3 : A) : option A :=
  if sp =? 0 then Some f0 else if sp =? 1 then Some f1 else if sp =? 2 then Some f2
  else if sp =? 3 then Some f3 else None.

Definition relb (k : Z) (c : option comparison) : value :=
  match c with
  | None => VPanic
  | Some c =>
      if k =? 0 then VB (match c with Lt => true | _ => false end)
      else if k =? 1 then VB (match c with Gt => false | _ => true end)
      else if k =? 2 then VB (match c with Gt => true | _ => false end)
      else if k =? 3 then VB (match c with Lt => false | _ => true end)
      else VErr
  end.

Notation "'do' x <- e ; k" := (match e with Some x => k | None => VErr end)
  (at level 200, x pattern, e at level 100, k at level 200).

Definition step (rs : list value) (i : instr) : value :=
  let '(o, x) := i in
  match o, x with
  | FImm, [b] => VF (of_bits b)
  | UImm, [n] => VU n
  (* ---- Angle ---- *)
  | ANew, [p; d] => do p <- getF rs p; do d <- getF rs d; VA (new p d)
  | ANewBlade, [n; p; d] => do n <- getU rs n; do p <- getF rs p; do d <- getF rs d; VA (new_with_blade n p d)
  | ANewCart, [a; b] => do a <- getF rs a; do b <- getF rs b; VA (new_from_cartesian L a b)
  | ARotate, [a; b] => do a <- getA rs a; do b <- getA rs b; VA (rotate a b)
  | ARem, [a] => do a <- getA rs a; VF (rem a)
  | ABlade, [a] => do a <- getA rs a; VU (blade a)
  | AGrade, [a] => do a <- getA rs a; VU (grade a)
  | AIsGrade, [k; a] =>
      do a <- getA rs a;
      if k =? 0 then VB (is_scalar a) else if k =? 1 then VB (is_vector a)
      else if k =? 2 then VB (is_bivector a) else if k =? 3 then VB (is_trivector a) else VErr
  | ABase, [a] => do a <- getA rs a; VA (base_angle a)
  | AIsOpp, [a; b] => do a <- getA rs a; do b <- getA rs b; VB (is_opposite a b)
  | ADual, [a] => do a <- getA rs a; VA (dual a)
  | AUndual, [a] => do a <- getA rs a; VA (undual a)
  | AConj, [a] => do a <- getA rs a; VA (conjugate a)
  | ANeg, [a] => do a <- getA rs a; VA (negate a)
  | AGradeAngle, [a] => do a <- getA rs a; VF (grade_angle a)
  | AProject, [a; b] => do a <- getA rs a; do b <- getA rs b; VF (aproject L a b)
  | AEq, [a; b] => do a <- getA rs a; do b <- getA rs b; VB (aeqb a b)
  | ANe, [a; b] => do a <- getA rs a; do b <- getA rs b; VB (negb (aeqb a b))
  | AAdd, [sp; a; b] => do a <- getA rs a; do b <- getA rs b;
      do r <- spell2 sp (add_vv a b) (add_vr a b) (add_rv a b) (add_rr a b); VA r
  | ASub, [sp; a; b] => do a <- getA rs a; do b <- getA rs b;
      do r <- spell2 sp (sub_vv a b) (sub_vr a b) (sub_rv a b) (sub_rr a b); VA r
  | AMul, [sp; a; b] => do a <- getA rs a; do b <- getA rs b;
      do r <- spell2 sp (mul_vv a b) (mul_vr a b) (mul_rv a b) (mul_rr a b); VA r
  | ADivA, [sp; a; b] => do a <- getA rs a; do b <- getA rs b;
      do r <- spell2 sp (diva_vv a b) (diva_vr a b) (diva_rv a b) (diva_rr a b); VA r
  | ADivF, [sp; a; d] => do a <- getA rs a; do d <- getF rs d;
      if sp =? 0 then VA (divf_v a d) else if sp =? 1 then VA (divf_r a d) else VErr
  | ACmp, [a; b] => do a <- getA rs a; do b <- getA rs b; ocmp (acmp a b)
  | APartialCmp, [a; b] => do a <- getA rs a; do b <- getA rs b; opcmp (apartial_cmp a b)
  | ARel, [k; a; b] => do a <- getA rs a; do b <- getA rs b; relb k (acmp a b)
  (* ---- Geonum ---- *)
  | GNew, [m; p; d] => do m <- getF rs m; do p <- getF rs p; do d <- getF rs d; VG (gnew m p d)
  | GNewAngle, [m; a] => do m <- getF rs m; do a <- getA rs a; VG (gnew_with_angle m a)
  | GNewCart, [a; b] => do a <- getF rs a; do b <- getF rs b; VG (gnew_from_cartesian L a b)
  | GNewBlade, [m; n; p; d] => do m <- getF rs m; do n <- getU rs n; do p <- getF rs p; do d <- getF rs d;
      VG (gnew_with_blade m n p d)
  | GDim, [m; k] => do m <- getF rs m; do k <- getU rs k; VG (create_dimension m k)
  | GScalar, [v] => do v <- getF rs v; VG (scalar v)
  | GIncr, [g] => do g <- getG rs g; VG (increment_blade g)
  | GDecr, [g] => do g <- getG rs g; VG (decrement_blade g)
  | GDual, [g] => do g <- getG rs g; VG (gdual g)
  | GUndual, [g] => do g <- getG rs g; VG (gundual g)
  | GDiff, [g] => do g <- getG rs g; VG (differentiate g)
  | GInt, [g] => do g <- getG rs g; VG (integrate g)
  | GNeg, [g] => do g <- getG rs g; VG (gnegate g)
  | GBase, [g] => do g <- getG rs g; VG (gbase_angle g)
  | GCopyBlade, [g; h] => do g <- getG rs g; do h <- getG rs h; VG (copy_blade g h)
  | GInv, [g] => do g <- getG rs g; vres (inv g)
  | GDivM, [g; h] => do g <- getG rs g; do h <- getG rs h; vres (gdiv_method g h)
  | GNormalize, [g] => do g <- getG rs g; vres (normalize g)
  | GDot, [g; h] => do g <- getG rs g; do h <- getG rs h; VG (dot L g h)
  | GProjDim, [g; k] => do g <- getG rs g; do k <- getU rs k; VF (project_to_dimension L g k)
  | GWedge, [g; h] => do g <- getG rs g; do h <- getG rs h; VG (wedge L g h)
  | GGeo, [g; h] => do g <- getG rs g; do h <- getG rs h; VG (geo L g h)
  | GRotate, [g; a] => do g <- getG rs g; do a <- getA rs a; VG (grotate g a)
  | GReflect, [g; h] => do g <- getG rs g; do h <- getG rs h; VG (reflect g h)
  | GProject, [g; h] => do g <- getG rs g; do h <- getG rs h; VG (gproject L g h)
  | GReject, [g; h] => do g <- getG rs g; do h <- getG rs h; VG (reject L g h)
  | GIsOrth, [g; h] => do g <- getG rs g; do h <- getG rs h; VB (is_orthogonal L g h)
  | GMagDiff, [g; h] => do g <- getG rs g; do h <- getG rs h; VF (mag_diff g h)
  | GPow, [g; n] => do g <- getG rs g; do n <- getF rs n; VG (gpow L g n)
  | GMeet, [g; h] => do g <- getG rs g; do h <- getG rs h; VG (meet L g h)
  | GMag, [g] => do g <- getG rs g; VF (mag g)
  | GAngle, [g] => do g <- getG rs g; VA (ang g)
  | GScale, [g; f] => do g <- getG rs g; do f <- getF rs f; VG (gscale g f)
  | GInvCircle, [g; c; r] => do g <- getG rs g; do c <- getG rs c; do r <- getF rs r;
      vres (invert_circle L g c r)
  | GScaleRotate, [g; f; a] => do g <- getG rs g; do f <- getF rs f; do a <- getA rs a;
      VG (scale_rotate g f a)
  | GDist, [g; h] => do g <- getG rs g; do h <- getG rs h; VG (distance_to L g h)
  | GAdj, [g] => do g <- getG rs g; VG (adj L g)
  | GOpp, [g] => do g <- getG rs g; VG (opp L g)
  | GCos, [a] => do a <- getA rs a; VG (gcos L a)
  | GSin, [a] => do a <- getA rs a; VG (gsin L a)
  | GTan, [a] => do a <- getA rs a; vres (gtan L a)
  | GProjAngle, [g; a] => do g <- getG rs g; do a <- getA rs a; VG (project_to_angle L g a)
  | GAdd, [sp; a; b] => do a <- getG rs a; do b <- getG rs b;
      do r <- spell2 sp (gadd_vv L a b) (gadd_vr L a b) (gadd_rv L a b) (gadd_rr L a b); VG r
  | GSub, [sp; a; b] => do a <- getG rs a; do b <- getG rs b;
      do r <- spell2 sp (gsub_vv L a b) (gsub_vr L a b) (gsub_rv L a b) (gsub_rr L a b); VG r
  | GMul, [sp; a; b] => do a <- getG rs a; do b <- getG rs b;
      do r <- spell2 sp (gmul_vv a b) (gmul_vr a b) (gmul_rv a b) (gmul_rr a b); VG r
  | GDiv, [sp; a; b] => do a <- getG rs a; do b <- getG rs b;
      do r <- spell2 sp (gdiv_vv a b) (gdiv_vr a b) (gdiv_rv a b) (gdiv_rr a b); vres r
  | AMulG, [sp; a; g] => do a <- getA rs a; do g <- getG rs g;
      if sp =? 0 then VG (amulg_v a g) else if sp =? 1 then VG (amulg_r a g) else VErr
  | AAddG, [sp; a; g] => do a <- getA rs a; do g <- getG rs g;
      if sp =? 0 then VG (aaddg_v a g) else if sp =? 1 then VG (aaddg_r a g) else VErr
  | GEq, [a; b] => do a <- getG rs a; do b <- getG rs b; VB (geqb a b)
  | GNe, [a; b] => do a <- getG rs a; do b <- getG rs b; VB (negb (geqb a b))
  | GCmp, [a; b] => do a <- getG rs a; do b <- getG rs b; ocmp (gcmp a b)
  | GPartialCmp, [a; b] => do a <- getG rs a; do b <- getG rs b; opcmp (gpartial_cmp a b)
  | GRel, [k; a; b] => do a <- getG rs a; do b <- getG rs b; relb k (gcmp a b)
  (* ---- GeoCollection ---- *)
  | CNew, [] => VC cnew
  | CDefault, [] => VC cnew
  | CFrom, gs => do l <- getGs rs gs; VC (cfrom l)
  | CFromIter, gs => do l <- getGs rs gs; VC (cfrom_iter l)
  | CLen, [c] => do c <- getC rs c; VU (clen c)
  | CIsEmpty, [c] => do c <- getC rs c; VB (cis_empty c)
  | CIter, [c] => do c <- getC rs c; VC (citer c)
  | CIndex, [c; i] => do c <- getC rs c; do i <- getU rs i; vres (cindex c i)
  | CIntoIter, [c] => do c <- getC rs c; VC (cinto_iter c)
  | CIntoIterRef, [c] => do c <- getC rs c; VC (cinto_iter c)
  | CAsRefVec, [c] => do c <- getC rs c; VC (cas_ref c)
  | CAsRefSlice, [c] => do c <- getC rs c; VC (cas_ref c)
  | CTruncate, [c; t] => do c <- getC rs c; do t <- getF rs t; VC (truncate c t)
  | CCone, [c; d; h] => do c <- getC rs c; do d <- getG rs d; do h <- getF rs h; VC (select_cone L c d h)
  | CTotal, [c] => do c <- getC rs c; VF (total_magnitude c)
  | CDominant, [c] => do c <- getC rs c;
      match dominant c with Some o => VOG o | None => VPanic end
  | CScaleAll, [c; f] => do c <- getC rs c; do f <- getF rs f; VC (scale_all c f)
  | CRotateAll, [c; a] => do c <- getC rs c; do a <- getA rs a; VC (rotate_all c a)
  | CSort, [c] => do c <- getC rs c; match sort_model c with Some r => VC r | None => VPanic end
  (* ---- traits ---- *)
  | TTranslate, [g; h] => do g <- getG rs g; do h <- getG rs h; VG (translate L g h)
  | TShear, [g; a] => do g <- getG rs g; do a <- getA rs a; VG (shear g a)
  | TArea, [a; b; c; d] => do a <- getG rs a; do b <- getG rs b; do c <- getG rs c; do d <- getG rs d;
      VF (area_quadrilateral L a b c d)
  | TView, [g; a] => do g <- getG rs g; do a <- getA rs a; VG (view g a)
  | TCompose, [g; h] => do g <- getG rs g; do h <- getG rs h; VG (compose g h)
  | TRefract, [g; h] => do g <- getG rs g; do h <- getG rs h; VG (refract L g h)
  | TAberrate, g :: zs => do g <- getG rs g; do l <- getGs rs zs; VG (aberrate L g l)
  | TOtf, [g; f; w] => do g <- getG rs g; do f <- getG rs f; do w <- getG rs w; VG (otf g f w)
  | TAbcd, [g; a; b; c; d] => do g <- getG rs g; do a <- getG rs a; do b <- getG rs b;
      do c <- getG rs c; do d <- getG rs d; VG (abcd_transform g a b c d)
  | TMagnify, [g; m] => do g <- getG rs g; do m <- getG rs m; VG (magnify L g m)
  | TInvField, [c; d; p; a; k] => do c <- getG rs c; do d <- getG rs d; do p <- getG rs p;
      do a <- getA rs a; do k <- getG rs k; VG (inverse_field L c d p a k)
  | TEPot, [c; d] => do c <- getG rs c; do d <- getG rs d; vres (electric_potential c d)
  | TEField, [c; d] => do c <- getG rs c; do d <- getG rs d; VG (electric_field L c d)
  | TPoynting, [g; b] => do g <- getG rs g; do b <- getG rs b; VG (poynting_vector L g b)
  | TWireA, [r; c; p] => do r <- getG rs r; do c <- getG rs c; do p <- getG rs p;
      VG (wire_vector_potential L r c p)
  | TWireB, [r; c; p] => do r <- getG rs r; do c <- getG rs c; do p <- getG rs p;
      VG (wire_magnetic_field r c p)
  | TSphWave, [r; t; k; s] => do r <- getG rs r; do t <- getG rs t; do k <- getG rs k; do s <- getG rs s;
      VG (spherical_wave_potential L r t k s)
  | TConst, [k] =>
      if k =? 0 then VF SPEED_OF_LIGHT else if k =? 1 then VF VACUUM_PERMEABILITY
      else if k =? 2 then VF VACUUM_PERMITTIVITY else if k =? 3 then VF VACUUM_IMPEDANCE
      else if k =? 4 then VF EPSILON else VErr
  | TPropagate, [g; t; p; v] => do g <- getG rs g; do t <- getG rs t; do p <- getG rs p; do v <- getG rs v;
      VG (propagate L g t p v)
  | TDisperse, [p; t; k; w] => do p <- getG rs p; do t <- getG rs t; do k <- getG rs k; do w <- getG rs w;
      VG (disperse L p t k w)
  | TFreq, [g; h; t] => do g <- getG rs g; do h <- getG rs h; do t <- getG rs t; VG (wfrequency L g h t)
  | TWavenum, [g; h; t] => do g <- getG rs g; do h <- getG rs h; do t <- getG rs t; VG (wwavenumber L g h t)
  | TRegression, [c; v] => do c <- getF rs c; do v <- getF rs v; VG (regression_from L c v)
  | TPerceptron, [g; lr; e; i] => do g <- getG rs g; do lr <- getF rs lr; do e <- getF rs e; do i <- getG rs i;
      VG (perceptron_update g lr e i)
  | TForward, [g; w; b] => do g <- getG rs g; do w <- getG rs w; do b <- getG rs b; VG (forward_pass g w b)
  | TActivate, [k; g] => do g <- getG rs g;
      if k =? 0 then VG (activate L g ReLU) else if k =? 1 then VG (activate L g Sigmoid)
      else if k =? 2 then VG (activate L g Tanh) else if k =? 3 then VG (activate L g Identity) else VErr
  | _, _ => VErr
  end.

Definition run (p : prog) : list value :=
  fold_left (fun rs i => rs ++ [step rs i]) p [].

End Run.

(* canonical serialisation, identical to the harness's *)
Definition ser_g (g : geonum) : list Z := [to_bits (mag g); to_bits (rem (ang g)); blade (ang g)].
Definition ser (v : value) : list Z :=
  match v with
  | VA a => [1; to_bits (rem a); blade a]
  | VG g => 2 :: ser_g g
  | VF x => [3; to_bits x]
  | VU n => [4; n]
  | VB b => [5; if b then 1 else 0]
  | VO (Some Lt) => [6; 0] | VO (Some Eq) => [6; 1] | VO (Some Gt) => [6; 2] | VO None => [6; 3]
  | VC c => 7 :: Z.of_nat (length c) :: flat_map ser_g c
  | VOG None => [8; 0]
  | VOG (Some g) => 8 :: 1 :: ser_g g
  | VPanic => [9]
  | VErr => [10]
  end.

Fixpoint zlist_eqb (a b : list Z) : bool :=
  match a, b with
  | [], [] => true
  | x :: a', y :: b' => (x =? y) && zlist_eqb a' b'
  | _, _ => false
  end.

(* the model's integer arithmetic is unbounded; cases whose blades leave
   [0, 2^62] are outside what it claims to represent *)
Definition BLADE_LIMIT : Z := 2^62.
Definition blade_ok (b : Z) : bool := (0 <=? b) && (b <=? BLADE_LIMIT).
Definition value_in_range (v : value) : bool :=
  match v with
  | VA a => blade_ok (blade a)
  | VG g => blade_ok (blade (ang g))
  | VU n => blade_ok n
  | VC c => forallb (fun g => blade_ok (blade (ang g))) c
  | VOG (Some g) => blade_ok (blade (ang g))
  | _ => true
  end.

Record case := mkCase { c_id : Z; c_prog : prog; c_tbl : tbl; c_expect : list (list Z) }.

(* first index at which two register lists differ, or -1 *)
Fixpoint first_diff (i : Z) (m e : list (list Z)) : Z :=
  match m, e with
  | [], [] => -1
  | x :: m', y :: e' => if zlist_eqb x y then first_diff (i + 1) m' e' else i
  | _, _ => i
  end.

(* result per case: (id, status, index, model serialisation at index)
   status 0 = agree, 1 = DISAGREE, 2 = out of modelled integer range (skipped) *)
Definition check_case (c : case) : Z * Z * Z * list Z :=
  let vs := run (libm_of_tbl (c_tbl c)) (c_prog c) in
  let ms := map ser vs in
  let d := first_diff 0 ms (c_expect c) in
  if d =? -1 then (c_id c, 0, -1, [])
  else if forallb value_in_range vs then (c_id c, 1, d, nth (Z.to_nat d) ms [])
  else (c_id c, 2, d, []).

Definition check_all (cs : list case) : list (Z * Z * Z * list Z) := map check_case cs.
