(* InvertProofs: circle inversion (C13), REAL pi / cos / sin. *)
From Coq Require Import ZArith List Bool Reals Lra Lia Psatz.
From Flocq Require Import Core BinarySingleNaN.
Require Import GV.FloatBase GV.FloatLemmas GV.AngleM GV.AngleProofs GV.NewProofs GV.CtorProofs GV.GeonumM GV.GeonumProofs
  GV.TraitsM GV.TraitsProofs GV.BoundProofs GV.ClosureProofs GV.SumUpper GV.PiBounds GV.TrigProofs GV.DotValue GV.ProdProofs
  GV.DistValue GV.DirProofs GV.SumDir GV.FieldProofs.
Open Scope R_scope.

Section Invert.
Context (L : libm) (u u2 : R).

(* the structure of the inversion: p' = c + [fl(fl(r r) / |p - c|), angle of (p - c)] *)
Lemma invert_circle_form g c r q : invert_circle L g c r = Some q ->
  let off := gsub_vv L g c in
  feq (mag off) zero = false /\
  q = gadd_vv L c {| mag := fdiv (fmul r r) (mag off); ang := ang off |}.
Proof.
intros E off. unfold invert_circle in E. fold off in E. destruct (feq (mag off) zero); [discriminate|].
split; [reflexivity|]. inversion E. reflexivity.
Qed.

(* the inverted offset has length r^2 / |p - c| (relative 3*2^-52) on the SAME RAY: it carries the offset's angle bit for bit *)
Lemma inverted_offset_value (off : geonum) (r : F) :
  fin (fdiv (fmul r r) (mag off)) -> fin (mag off) ->
  bpow radix2 (-500) <= R_ r * R_ r -> bpow radix2 (-500) <= R_ (mag off) ->
  bpow radix2 (-500) <= R_ r * R_ r / R_ (mag off) ->
  let io := {| mag := fdiv (fmul r r) (mag off); ang := ang off |} in
  ang io = ang off /\
  Rabs (R_ (mag io) * R_ (mag off) - R_ r * R_ r) <= 3 * / 4503599627370496 * (R_ r * R_ r).
Proof.
intros Fv Fo H1 H2 H3 io. split; [reflexivity|]. unfold io. cbn [mag].
pose proof (bpow_gt_0 radix2 (-500)) as H500.
assert (No : R_ (mag off) <> 0) by lra.
destruct (fdiv_fin_R' _ _ Fv No) as (Frr & Vv). destruct (fmul_fin_R _ _ Frr) as (_ & _ & Vrr).
set (e := / 4503599627370496) in *. assert (E0 : 0 < e < / 1000) by (unfold e; lra).
assert (L600 : bpow radix2 (-600) <= bpow radix2 (-500)) by (apply bpow_le; lia).
set (rr := R_ r * R_ r) in *. set (om := R_ (mag off)) in *.
pose proof (rnd_rel_mid rr ltac:(lra)) as Err. rewrite <- Vrr in Err. fold e in Err.
set (rr' := R_ (fmul r r)) in *.
assert (Q : bpow radix2 (-600) <= rr' / om).
{ assert (rr * (1 - e) / om <= rr' / om) by (unfold Rdiv; apply Rmult_le_compat_r; [left; apply Rinv_0_lt_compat; lra|lra]).
  assert (rr * (1 - e) / om = (rr / om) * (1 - e)) by (field; lra).
  assert (B6 : bpow radix2 (-600) <= 99 / 100 * bpow radix2 (-500)).
  { change (-500)%Z with (100 + -600)%Z. rewrite bpow_plus. pose proof (bpow_gt_0 radix2 (-600)).
    assert (2 <= bpow radix2 100) by (change 2 with (bpow radix2 1); apply bpow_le; lia). nra. }
  nra. }
pose proof (rnd_rel_mid (rr' / om) Q) as Ev. rewrite <- Vv in Ev. fold e in Ev.
set (v := R_ (fdiv (fmul r r) (mag off))) in *.
assert (VM : (rr' / om) * om = rr') by (field; lra).
assert (Q0 : 0 <= rr' / om) by (pose proof (bpow_gt_0 radix2 (-600)); lra).
assert (T1 : rr' * (1 - e) <= v * om <= rr' * (1 + e)).
{ destruct Ev as [Ev1 Ev2]. split.
  - apply Rle_trans with ((rr' / om * (1 - e)) * om); [right; field; lra|apply Rmult_le_compat_r; lra].
  - apply Rle_trans with ((rr' / om * (1 + e)) * om); [apply Rmult_le_compat_r; lra|right; field; lra]. }
apply Rabs_le. nra.
Qed.

(* C13: inversion in the circle (c, r): p' = c + v with v on the SAME RAY as the computed offset p - c (it carries
   the offset's angle bit for bit), |v| |p - c| = r^2 within 3*2^-52 r^2, and the Cartesian point of p' is the
   Cartesian point of c plus that of v within the tolerance T of C06_cartesian (general path of the final sum) *)
Lemma invert_circle_value g c r q : cos_acc L u -> sin_acc L u -> atan2_acc L u2 -> u <= / 1000 ->
  invert_circle L g c r = Some q ->
  let off := gsub_vv L g c in
  let io := {| mag := fdiv (fmul r r) (mag off); ang := ang off |} in
  canonp (rem (ang c)) -> canonp (rem (ang off)) ->
  fin (mag io) -> fin (mag off) ->
  bpow radix2 (-500) <= R_ r * R_ r -> bpow radix2 (-500) <= R_ (mag off) ->
  bpow radix2 (-500) <= R_ r * R_ r / R_ (mag off) ->
  aeqb (ang c) (ang io) = false ->
  aeqb (add_vv (ang c) (new one one)) (ang io) || aeqb (add_vv (ang io) (new one one)) (ang c) = false ->
  (0 <= blade (ang c) + blade (ang io) < 2 ^ 40)%Z ->
  fin (gadd_rad L c io) ->
  fin (fadd (fmul (mag c) (sinF L (grade_angle (ang c)))) (fmul (mag io) (sinF L (grade_angle (ang io))))) ->
  fin (fadd (fmul (mag c) (cosF L (grade_angle (ang c)))) (fmul (mag io) (cosF L (grade_angle (ang io))))) ->
  let Vx := R_ (mag c) * cos (dir (ang c)) + R_ (mag io) * cos (dir (ang off)) in
  let Vy := R_ (mag c) * sin (dir (ang c)) + R_ (mag io) * sin (dir (ang off)) in
  let M := Rabs (R_ (mag c)) + Rabs (R_ (mag io)) in
  let E := M * (u + 3 / 1000000000000000) + 4 * bpow radix2 (-1075) in
  let S := R_ (mag c) * R_ (mag c) + R_ (mag io) * R_ (mag io) in
  let Bnd := S * (u + 1 / 100000000000000) + 10 * bpow radix2 (-1075) in
  let tolN := R_ eps10 + 3 / 100000000000000 + IZR (blade (ang c) + blade (ang io)) * (4 / 1000000000000000) in
  let T := sqrt Bnd * (1 + / 9007199254740992) + / 9007199254740992 * sqrt (Vx * Vx + Vy * Vy) + bpow radix2 (-1075)
           + 3 * E + (M + 2 * E) * (u2 + tolN) in
  Rabs (R_ (mag io) * R_ (mag off) - R_ r * R_ r) <= 3 * / 4503599627370496 * (R_ r * R_ r) /\
  Rabs (R_ (mag q) * cos (dirR (ang q)) - Vx) <= T /\ Rabs (R_ (mag q) * sin (dirR (ang q)) - Vy) <= T.
Proof.
intros HC HS HA Hu Eq off io Cc Co Fio Fo H1 H2 H3 N1 N2 Hn Frad Fopp Fadj Vx Vy M E S Bnd tolN T.
destruct (invert_circle_form g c r q Eq) as (_ & Eqq). fold off in Eqq. fold io in Eqq.
destruct (inverted_offset_value off r Fio Fo H1 H2 H3) as (_ & EV). fold io in EV.
split; [exact EV|].
assert (Cio : canonp (rem (ang io))) by exact Co.
destruct (gadd_cartesian L u u2 c io HC HS HA Hu Cc Cio N1 N2 Hn Frad Fopp Fadj) as [EX EY].
rewrite <- Eqq in EX, EY. split; [exact EX|exact EY].
Qed.
End Invert.
