(* MetricProofs: distance equals |a - b| and obeys the triangle inequality (C13), REAL pi / cos. *)
From Coq Require Import ZArith List Bool Reals Lra Lia Psatz.
From Flocq Require Import Core BinarySingleNaN.
Require Import GV.FloatBase GV.FloatLemmas GV.AngleM GV.AngleProofs GV.NewProofs GV.CtorProofs GV.GeonumM GV.GeonumProofs
  GV.ClosureProofs GV.SumUpper GV.PiBounds GV.TrigProofs GV.DotValue GV.DistValue GV.DirProofs GV.SumDir.
Open Scope R_scope.

(* the Cartesian point of a geometric number, REAL pi *)
Definition px (g : geonum) : R := R_ (mag g) * cos (dir (ang g)).
Definition py (g : geonum) : R := R_ (mag g) * sin (dir (ang g)).

(* the law-of-cosines radicand IS the squared Euclidean distance of the Cartesian points *)
Lemma law_of_cosines a b :
  R_ (mag a) * R_ (mag a) + R_ (mag b) * R_ (mag b) - 2 * R_ (mag a) * R_ (mag b) * cos (dir (ang b) - dir (ang a))
  = (px a - px b) * (px a - px b) + (py a - py b) * (py a - py b).
Proof.
unfold px, py. rewrite cos_minus.
pose proof (sin2_cos2 (dir (ang a))) as Pa. pose proof (sin2_cos2 (dir (ang b))) as Pb. unfold Rsqr in Pa, Pb. nra.
Qed.

(* Euclidean triangle inequality in the plane *)
Lemma euclid_triangle (x1 y1 x2 y2 : R) :
  sqrt ((x1 + x2) * (x1 + x2) + (y1 + y2) * (y1 + y2)) <= sqrt (x1 * x1 + y1 * y1) + sqrt (x2 * x2 + y2 * y2).
Proof.
set (n1 := sqrt (x1 * x1 + y1 * y1)). set (n2 := sqrt (x2 * x2 + y2 * y2)).
assert (N1 : 0 <= n1) by apply sqrt_pos. assert (N2 : 0 <= n2) by apply sqrt_pos.
assert (Q1 : n1 * n1 = x1 * x1 + y1 * y1) by (apply sqrt_sqrt; nra).
assert (Q2 : n2 * n2 = x2 * x2 + y2 * y2) by (apply sqrt_sqrt; nra).
rewrite <- (sqrt_square (n1 + n2)) by lra. apply sqrt_le_1_alt.
(* Cauchy-Schwarz: x1 x2 + y1 y2 <= n1 n2 *)
assert (CS : x1 * x2 + y1 * y2 <= n1 * n2).
{ destruct (Rle_lt_dec (x1 * x2 + y1 * y2) 0) as [Neg|Pos]; [nra|].
  assert (SQ : (x1 * x2 + y1 * y2) * (x1 * x2 + y1 * y2) <= (n1 * n2) * (n1 * n2)).
  { replace ((n1 * n2) * (n1 * n2)) with ((n1 * n1) * (n2 * n2)) by ring. rewrite Q1, Q2.
    pose proof (Rle_0_sqr (x1 * y2 - x2 * y1)) as H0. unfold Rsqr in H0. nra. }
  assert (0 <= n1 * n2) by nra. nra. }
nra.
Qed.

Section Metric.
Context (L : libm) (u : R).

Definition dist_tol (a b : geonum) : R :=
  let S := R_ (mag a) * R_ (mag a) + R_ (mag b) * R_ (mag b) in
  let Bnd := S * (u + 10003 / 100000000000000) + 10 * bpow radix2 (-1075) in
  sqrt Bnd * (1 + / 9007199254740992) + bpow radix2 (-1075).

(* distance_to against the Euclidean distance of the Cartesian points *)
Lemma distance_euclid a b : cos_acc L u -> u <= / 1000 ->
  canonp (rem (ang a)) -> canonp (rem (ang b)) -> (0 <= blade (ang a))%Z -> (0 <= blade (ang b))%Z ->
  fin (dist_sq L a b) ->
  let e := sqrt ((px a - px b) * (px a - px b) + (py a - py b) * (py a - py b)) in
  Rabs (R_ (mag (distance_to L a b)) - e) <= dist_tol a b + / 9007199254740992 * e.
Proof.
intros HL Hu Ca Cb Ha Hb Fd e. pose proof (distance_value L u a b HL Hu Ca Cb Ha Hb Fd) as E. cbv zeta in E.
rewrite (law_of_cosines a b) in E. fold e in E. unfold dist_tol. lra.
Qed.

(* C13: the triangle inequality, up to the three value tolerances *)
Lemma distance_triangle a b c : cos_acc L u -> u <= / 1000 ->
  canonp (rem (ang a)) -> canonp (rem (ang b)) -> canonp (rem (ang c)) ->
  (0 <= blade (ang a))%Z -> (0 <= blade (ang b))%Z -> (0 <= blade (ang c))%Z ->
  fin (dist_sq L a b) -> fin (dist_sq L b c) -> fin (dist_sq L a c) ->
  R_ (mag (distance_to L a c)) * (1 - / 9007199254740992)
    <= (R_ (mag (distance_to L a b)) + R_ (mag (distance_to L b c))) * (1 + / 4503599627370496)
       + 2 * (dist_tol a b + dist_tol b c + dist_tol a c).
Proof.
intros HL Hu Ca Cb Cc Ha Hb Hc Fab Fbc Fac.
pose proof (distance_euclid a b HL Hu Ca Cb Ha Hb Fab) as Eab.
pose proof (distance_euclid b c HL Hu Cb Cc Hb Hc Fbc) as Ebc.
pose proof (distance_euclid a c HL Hu Ca Cc Ha Hc Fac) as Eac. cbv zeta in Eab, Ebc, Eac.
pose proof (euclid_triangle (px a - px b) (py a - py b) (px b - px c) (py b - py c)) as T.
replace (px a - px b + (px b - px c)) with (px a - px c) in T by ring.
replace (py a - py b + (py b - py c)) with (py a - py c) in T by ring.
set (eab := sqrt ((px a - px b) * (px a - px b) + (py a - py b) * (py a - py b))) in *.
set (ebc := sqrt ((px b - px c) * (px b - px c) + (py b - py c) * (py b - py c))) in *.
set (eac := sqrt ((px a - px c) * (px a - px c) + (py a - py c) * (py a - py c))) in *.
assert (P1 : 0 <= eab) by apply sqrt_pos. assert (P2 : 0 <= ebc) by apply sqrt_pos. assert (P3 : 0 <= eac) by apply sqrt_pos.
assert (T1 : 0 <= dist_tol a b). { unfold dist_tol. pose proof (sqrt_pos (R_ (mag a) * R_ (mag a) + R_ (mag b) * R_ (mag b)) ). 
  match goal with |- 0 <= sqrt ?x * _ + _ => pose proof (sqrt_pos x) end. pose proof (bpow_gt_0 radix2 (-1075)). nra. }
assert (T2 : 0 <= dist_tol b c). { unfold dist_tol. match goal with |- 0 <= sqrt ?x * _ + _ => pose proof (sqrt_pos x) end. pose proof (bpow_gt_0 radix2 (-1075)). nra. }
assert (T3 : 0 <= dist_tol a c). { unfold dist_tol. match goal with |- 0 <= sqrt ?x * _ + _ => pose proof (sqrt_pos x) end. pose proof (bpow_gt_0 radix2 (-1075)). nra. }
apply Rabs_le_inv in Eab. apply Rabs_le_inv in Ebc. apply Rabs_le_inv in Eac.
set (dab := R_ (mag (distance_to L a b))) in *. set (dbc := R_ (mag (distance_to L b c))) in *. set (dac := R_ (mag (distance_to L a c))) in *.
nra.
Qed.

(* C13: distance_to(a, b) equals the magnitude of a - b (general path of the subtraction), both being the
   Euclidean distance of the Cartesian points up to their value tolerances *)
Lemma distance_equals_sub a b : cos_acc L u -> u <= / 1000 ->
  canonp (rem (ang a)) -> canonp (rem (ang b)) -> (0 <= blade (ang a))%Z -> (0 <= blade (ang b))%Z ->
  aeqb (ang a) (negate (ang b)) = false ->
  aeqb (add_vv (ang a) (new one one)) (negate (ang b)) || aeqb (add_vv (negate (ang b)) (new one one)) (ang a) = false ->
  fin (dist_sq L a b) -> fin (gadd_rad L a (gnegate b)) ->
  let S := R_ (mag a) * R_ (mag a) + R_ (mag b) * R_ (mag b) in
  let e := sqrt ((px a - px b) * (px a - px b) + (py a - py b) * (py a - py b)) in
  let Bnd := S * (u + 10003 / 100000000000000) + 10 * bpow radix2 (-1075) in
  Rabs (R_ (mag (distance_to L a b)) - R_ (mag (gsub_vv L a b)))
    <= 2 * (sqrt Bnd * (1 + / 9007199254740992) + / 9007199254740992 * e + bpow radix2 (-1075)).
Proof.
intros HL Hu Ca Cb Ha Hb N1 N2 Fd Fr S e Bnd.
pose proof (distance_value L u a b HL Hu Ca Cb Ha Hb Fd) as E1. cbv zeta in E1. rewrite (law_of_cosines a b) in E1. fold e S Bnd in E1.
pose proof (negate_step (ang b) Cb) as SN. assert (Cn : canonp (rem (negate (ang b)))) by (eapply steps_canon; eauto).
destruct (gadd_mag_value L u a (gnegate b) HL Hu Ca Cn N1 N2 Fr) as (_ & E2). cbn [gnegate mag ang] in E2.
assert (Bn : (0 <= blade (negate (ang b)))%Z) by (destruct SN as (B & _); lia).
assert (CN : cos (dir (negate (ang b)) - dir (ang a)) = - cos (dir (ang b) - dir (ang a))).
{ rewrite <- (cos_dir_diff (negate (ang b)) (ang a) Bn Ha), <- (cos_dir_diff (ang b) (ang a) Hb Ha).
  rewrite (negate_dirR (ang b) Cb). replace (dirR (ang b) + Rtrigo1.PI - dirR (ang a)) with ((dirR (ang b) - dirR (ang a)) + Rtrigo1.PI) by ring.
  apply neg_cos. }
match type of E2 with Rabs (_ - sqrt ?X) <= _ =>
  replace X with ((px a - px b) * (px a - px b) + (py a - py b) * (py a - py b)) in E2 end.
2:{ rewrite <- (law_of_cosines a b). rewrite CN. ring. }
fold e in E2. fold S in E2.
assert (BB : sqrt (S * (u + 1 / 100000000000000) + 10 * bpow radix2 (-1075)) <= sqrt Bnd).
{ apply sqrt_le_1_alt. unfold Bnd. assert (0 <= S) by (unfold S; nra). nra. }
unfold gsub_vv.
replace (R_ (mag (distance_to L a b)) - R_ (mag (gadd_vv L a (gnegate b))))
  with ((R_ (mag (distance_to L a b)) - e) - (R_ (mag (gadd_vv L a (gnegate b))) - e)) by ring.
eapply Rle_trans; [apply Rabs_triang|]. rewrite Rabs_Ropp. lra.
Qed.
End Metric.
