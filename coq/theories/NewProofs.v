(* NewProofs: Angle::new is canonical (C01 / C02), including the repaired defect F1:
   the lifted total of a negative angle is never negative. *)
From Coq Require Import ZArith List Bool Reals Lra Lia Psatz.
From Flocq Require Import Core BinarySingleNaN Relative.
Require Import GV.FloatBase GV.FloatLemmas GV.AngleM GV.AngleProofs.
Open Scope R_scope.

Definition total_angle (p d : F) : F := fdiv (fmul p PI) d.
Definition lift_total (t : F) : F :=
  if flt t zero then
    let fr := fceil (fdiv (fabs t) (fmul four Q)) in
    let lifted := fadd t (fmul (fmul fr four) Q) in
    if flt lifted zero then fadd lifted (fmul four Q) else lifted
  else t.
Definition fast_path (p d : F) : bool := feq d two && feq (ffract p) zero.
Definition fast_blade (p : F) : Z :=
  if flt p zero then f2usize (fadd p (fmul (fceil (fdiv (fadd (fneg p) three) four)) four)) else f2usize p.
Definition from_total (nt : F) : angle :=
  let r := ffmod nt Q in
  normalize_boundaries {| rem := r; blade := f2usize (fround (fdiv (fsub nt r) Q)) |}.

(* `new` is exactly these pieces *)
Lemma new_unfold p d :
  new p d = if fast_path p d then {| rem := zero; blade := fast_blade p |}
            else from_total (lift_total (total_angle p d)).
Proof. reflexivity. Qed.

Lemma clamp_nonneg t : (0 <= (if t <? 0 then 0 else if t >? USIZE_MAX then USIZE_MAX else t))%Z.
Proof.
destruct (Z.ltb_spec t 0); [lia|]. destruct (t >? USIZE_MAX)%Z; [|assumption]. unfold USIZE_MAX. lia.
Qed.

Lemma f2usize_nonneg x : (0 <= f2usize x)%Z.
Proof.
unfold f2usize. destruct x as [s|s| |s m e H].
- apply clamp_nonneg.
- destruct s; unfold USIZE_MAX; lia.
- lia.
- apply clamp_nonneg.
Qed.

Lemma new_fast_canon p d : fast_path p d = true -> Canon (new p d).
Proof.
intros H. rewrite new_unfold, H. split; cbn [rem blade]. apply canonp_zero.
unfold fast_blade. destruct (flt p zero); apply f2usize_nonneg.
Qed.

(* general path: from any finite non-negative total the result is canonical *)
Lemma from_total_canon nt : fin nt -> 0 <= R_ nt -> Canon (from_total nt).
Proof.
intros Fn Pos. unfold from_total. pose proof Qpos as Qp. pose proof Q_le_V0 as QV.
assert (Hr : fin (ffmod nt Q) /\ 0 <= R_ (ffmod nt Q) < R_ Q).
{ destruct (Req_dec (R_ nt) 0) as [Z|NZ].
  - destruct nt as [s|s| |s m e H]; try discriminate.
    + assert (E : ffmod (B754_zero s) Q = B754_zero s) by (destruct s; vm_compute; reflexivity).
      rewrite E. split; [reflexivity|]. change (R_ (B754_zero s)) with 0. lra.
    + exfalso. destruct s; simpl in Z.
      * assert (K := F2R_lt_0 radix2 (Float radix2 (Z.neg m) e) ltac:(simpl; lia)). lra.
      * assert (K := F2R_gt_0 radix2 (Float radix2 (Z.pos m) e) ltac:(simpl; lia)). lra.
  - destruct (ffmod_pos' nt Q Fn fin_Q ltac:(lra) Qp) as (Ff & B & _). split; assumption. }
destruct Hr as [Fr [R0 R1]].
set (b := f2usize _).
destruct (normalize_range (ffmod nt Q) b Fr (conj R0 (Rle_trans _ _ _ (Rlt_le _ _ R1) QV))) as (Cn & Bn).
split; [exact Cn|]. pose proof (f2usize_nonneg (fround (fdiv (fsub nt (ffmod nt Q)) Q))) as Hb. fold b in Hb.
destruct Bn as [(B&_)|[(B&_)|(B&_)]]; rewrite B; lia.
Qed.

(* ---- the lift of a negative total ---- *)
Lemma four_val : R_ four = 4 /\ fin four.
Proof. split; [|reflexivity]. vm_compute four. unfold B2R, F2R. simpl. lra. Qed.
Lemma fq_val : R_ (fmul four Q) = 4 * R_ Q /\ fin (fmul four Q).
Proof.
destruct four_val as [V4 F4].
destruct (fmul_R four Q F4 fin_Q) as [V F].
{ apply small_le_1000. rewrite V4, Qval. apply Rabs_le. lra. }
split; [|exact F]. rewrite V, V4. apply round_generic; auto with typeclass_instances.
rewrite Qval. replace (4 * (7074237752028440 / 4503599627370496)) with (F2R (Float radix2 7074237752028440 (-50))) by (unfold F2R; simpl; lra).
apply generic_format_FLT. apply FLT_spec with (Float radix2 7074237752028440 (-50)); simpl; auto; unfold emax, prec; lia.
Qed.

Lemma round_FIX_ceil y : round radix2 (FIX_exp 0) Zceil y = IZR (Zceil y).
Proof. unfold round, scaled_mantissa, cexp, FIX_exp, F2R. simpl. now rewrite 2!Rmult_1_r. Qed.

Lemma fceil_R x : fin x -> R_ (fceil x) = IZR (Zceil (R_ x)) /\ fin (fceil x).
Proof.
intros Fx. destruct (Bnearbyint_correct prec emax Hmax mode_UP x) as (V & Fn & _).
split. unfold fceil. rewrite V. apply round_FIX_ceil. unfold fin, fceil. now rewrite Fn.
Qed.

(* relative error of rounding to nearest, one-sided, for non-negative arguments *)
Lemma rnd_lower x : 0 <= x -> x * (1 - / 9007199254740992) - bpow radix2 (-1075) <= rnd x.
Proof.
intros Hx. destruct (error_N_FLT radix2 (3 - emax - prec) prec ltac:(unfold prec; lia) (fun z => negb (Z.even z)) x)
  as (eps & eta & He & Ht & _ & E).
change (round radix2 (FLT_exp (3 - emax - prec) prec) (Znearest (fun z : Z => negb (Z.even z))) x) with (rnd x) in E.
rewrite E.
replace (/ 2 * bpow radix2 (- prec + 1)) with (/ 9007199254740992) in He by (unfold prec; simpl; lra).
assert (Ht' : Rabs eta <= bpow radix2 (-1075)).
{ eapply Rle_trans. exact Ht. unfold emax, prec. replace (3 - 1024 - 53)%Z with (-1074)%Z by lia.
  replace (bpow radix2 (-1074)) with (2 * bpow radix2 (-1075)) by (change 2 with (bpow radix2 1); rewrite <- bpow_plus; reflexivity).
  pose proof (bpow_gt_0 radix2 (-1075)). lra. }
apply Rabs_le_inv in He. apply Rabs_le_inv in Ht'.
nra.
Qed.

Lemma fmt_IZR z : (Z.abs z <= 2 ^ 53)%Z -> fmt (IZR z).
Proof.
intros H. destruct (Z.eq_dec (Z.abs z) (2^53)) as [E|NE].
- assert (IZR z = bpow radix2 53 \/ IZR z = - bpow radix2 53).
  { destruct (Z.abs_spec z) as [[_ A]|[_ A]]; rewrite A in E.
    left. rewrite E. simpl. reflexivity. right. replace z with (- 2^53)%Z by lia. simpl. lra. }
  destruct H0 as [-> | ->]; [|apply generic_format_opp]; apply generic_format_bpow; unfold FLT_exp, emax, prec; simpl; lia.
- replace (IZR z) with (F2R (Float radix2 z 0)) by (unfold F2R; simpl; ring).
  apply generic_format_FLT. apply FLT_spec with (Float radix2 z 0); simpl; auto; unfold emax, prec; lia.
Qed.

Lemma lift_total_nonneg t : fin t -> Rabs (R_ t) <= bpow radix2 42 ->
  fin (lift_total t) /\ 0 <= R_ (lift_total t).
Proof.
intros Ft Bt. unfold lift_total.
rewrite flt_R by auto using fin_zero. rewrite R_zero.
destruct (Rlt_bool_spec (R_ t) 0) as [Neg|Pos]; [|split; assumption].
destruct fq_val as [FQv FQf]. destruct four_val as [V4 F4]. pose proof Qpos as Qp.
assert (B42 : bpow radix2 42 = 4398046511104) by (simpl; lra).
set (a := - R_ t). assert (Ha : 0 < a <= 4398046511104).
{ unfold a. rewrite <- B42. apply Rabs_le_inv in Bt. lra. }
assert (RA : R_ (fabs t) = a) by (rewrite fabs_R, Rabs_left by assumption; reflexivity).
(* x1 = |t| / (4q) *)
assert (Qnz : R_ (fmul four Q) <> 0) by (rewrite FQv; lra).
assert (X1r : 0 <= a / (4 * R_ Q) <= 4398046511104).
{ rewrite Qval. split. apply Rmult_le_pos; [lra|]. apply Rlt_le, Rinv_0_lt_compat; lra.
  apply Rmult_le_reg_r with (4 * (7074237752028440 / 4503599627370496)); [lra|]. field_simplify; lra. }
destruct (fdiv_R (fabs t) (fmul four Q) (fin_fabs _ Ft) Qnz) as [VX FX].
{ rewrite RA, FQv. rewrite Rabs_pos_eq by lra. apply Rle_trans with 4398046511104; [lra|].
  rewrite <- B42. apply bpow_le; lia. }
rewrite RA, FQv in VX.
set (x1 := fdiv (fabs t) (fmul four Q)) in *.
assert (X1u : R_ x1 <= 4398046511104).
{ rewrite VX, <- B42. rewrite <- (round_generic radix2 fexp ZnearestE (bpow radix2 42)).
  apply round_le; auto with typeclass_instances. rewrite B42; lra.
  apply generic_format_bpow. unfold FLT_exp, emax, prec; simpl; lia. }
assert (X1l : a / (4 * R_ Q) * (1 - / 9007199254740992) - bpow radix2 (-1075) <= R_ x1).
{ rewrite VX. apply rnd_lower. lra. }
assert (X10 : 0 <= R_ x1) by (rewrite VX; apply rnd_ge0; lra).
(* fr = ceil x1 *)
destruct (fceil_R x1 FX) as [VF FF]. set (n := Zceil (R_ x1)) in *.
assert (Nl : R_ x1 <= IZR n) by apply Zceil_ub.
assert (Nu : (n <= 4398046511104)%Z) by (apply Zceil_glb; simpl; exact X1u).
assert (N0 : (0 <= n)%Z). { apply le_IZR. simpl. lra. }
(* m1 = fr * 4, exact *)
destruct (fmul_R (fceil x1) four FF F4) as [VM1 FM1].
{ rewrite VF, V4. rewrite Rabs_pos_eq. 2:{ apply Rmult_le_pos; [apply IZR_le; lia|lra]. }
  apply Rle_trans with (4398046511104 * 4). apply Rmult_le_compat_r; [lra|]. apply IZR_le in Nu. exact Nu.
  apply Rle_trans with (bpow radix2 45); [simpl; lra|apply bpow_le; lia]. }
rewrite VF, V4 in VM1.
assert (E1 : rnd (IZR n * 4) = IZR n * 4).
{ apply round_generic; auto with typeclass_instances. replace (IZR n * 4) with (IZR (n * 4)) by (rewrite mult_IZR; reflexivity).
  apply fmt_IZR. rewrite Z.abs_eq by lia. lia. }
rewrite E1 in VM1.
(* m2 = m1 * q *)
assert (NR : 0 <= IZR n <= 4398046511104). { split; [apply IZR_le in N0|apply IZR_le in Nu]; lra. }
destruct (fmul_R (fmul (fceil x1) four) Q FM1 fin_Q) as [VM2 FM2].
{ rewrite VM1. rewrite Rabs_pos_eq. 2:{ apply Rmult_le_pos; lra. }
  apply Rle_trans with (bpow radix2 46); [|apply bpow_le; lia]. rewrite Qval. simpl. nra. }
rewrite VM1 in VM2.
set (m2 := fmul (fmul (fceil x1) four) Q) in *.
assert (M2l : IZR n * 4 * R_ Q * (1 - / 9007199254740992) - bpow radix2 (-1075) <= R_ m2).
{ rewrite VM2. apply rnd_lower. apply Rmult_le_pos; lra. }
assert (M2u : R_ m2 <= bpow radix2 46).
{ rewrite VM2. rewrite <- (round_generic radix2 fexp ZnearestE (bpow radix2 46)).
  apply round_le; auto with typeclass_instances. rewrite Qval. simpl. nra.
  apply generic_format_bpow. unfold FLT_exp, emax, prec; simpl; lia. }
assert (M20 : 0 <= R_ m2). { rewrite VM2. apply rnd_ge0. apply Rmult_le_pos; lra. }
(* lifted = t + m2 *)
assert (T : R_ t = - a) by (unfold a; ring).
destruct (fadd_R t m2 Ft FM2) as [VL FL].
{ apply Rle_trans with (bpow radix2 47); [|apply bpow_le; lia]. apply Rabs_le. rewrite T.
  assert (bpow radix2 46 = 70368744177664) by (simpl; lra). assert (bpow radix2 47 = 140737488355328) by (simpl; lra). lra. }
set (lifted := fadd t m2) in *.
assert (Tiny : bpow radix2 (-1075) <= / 1073741824).
{ apply Rle_trans with (bpow radix2 (-30)). apply bpow_le; lia. simpl. lra. }
pose proof (bpow_gt_0 radix2 (-1075)) as Tp.
assert (Sum : - / 512 <= R_ t + R_ m2).
{ rewrite T.
  assert (K1 : a * (1 - / 9007199254740992) - 8 * bpow radix2 (-1075) <= IZR n * 4 * R_ Q).
  { assert (4 * R_ Q * R_ x1 <= IZR n * 4 * R_ Q) by nra.
    assert (4 * R_ Q * (a / (4 * R_ Q) * (1 - / 9007199254740992) - bpow radix2 (-1075)) <= 4 * R_ Q * R_ x1) by nra.
    assert (4 * R_ Q * (a / (4 * R_ Q)) = a) by (field; lra).
    rewrite Qval in *. nra. }
  nra. }
assert (Ll : - / 512 <= R_ lifted).
{ rewrite VL. rewrite <- (round_generic radix2 fexp ZnearestE (- / 512)).
  apply round_le; auto with typeclass_instances.
  apply generic_format_opp. replace (/ 512) with (bpow radix2 (-9)) by (simpl; lra).
  apply generic_format_bpow. unfold FLT_exp, emax, prec; simpl; lia. }
cbv zeta. fold x1. fold m2. fold lifted.
rewrite flt_R by auto using fin_zero. rewrite R_zero.
destruct (Rlt_bool_spec (R_ lifted) 0) as [LN|LP]; [|split; assumption].
destruct (fadd_R lifted (fmul four Q) FL FQf) as [VE FE].
{ apply small_le_1000. rewrite FQv, Qval. apply Rabs_le. lra. }
split; [exact FE|]. rewrite VE. apply rnd_ge0. rewrite FQv, Qval. lra.
Qed.

(* Angle::new is canonical whenever the computed total p*PI/d is finite and at most 2^42 in magnitude
   (the domain |2p/d| <= 2^40 gives |total| < 2^41; the overflow of p*PI is known finding F7) *)
Lemma new_canon p d : fin (total_angle p d) -> Rabs (R_ (total_angle p d)) <= bpow radix2 42 ->
  Canon (new p d).
Proof.
intros Ft Bt. destruct (fast_path p d) eqn:Hf. now apply new_fast_canon.
rewrite new_unfold, Hf. destruct (lift_total_nonneg _ Ft Bt) as [Fl Pl]. now apply from_total_canon.
Qed.

(* F1 regression: the pre-repair lift (without the extra turn) left this total negative *)
Example F1_witness :
  let t := total_angle (of_Z (-49980)) (of_Z 3) in
  let fr := fceil (fdiv (fabs t) (fmul four Q)) in
  flt (fadd t (fmul (fmul fr four) Q)) zero = true /\ flt (lift_total t) zero = false.
Proof. vm_compute. split; reflexivity. Qed.

(* ---- histories: canonical-ness is an invariant of every sequence of angle operations ---- *)
Inductive aop :=
| OpAdd (b : angle) | OpSub (b : angle) | OpRsub (b : angle)
| OpDual | OpUndual | OpNegate | OpConj | OpBase.

Definition apply_aop (a : angle) (o : aop) : angle :=
  match o with
  | OpAdd b => geometric_add a b | OpSub b => geometric_sub a b | OpRsub b => geometric_sub b a
  | OpDual => dual a | OpUndual => undual a | OpNegate => negate a | OpConj => conjugate a
  | OpBase => base_angle a
  end.

Definition aop_ok (o : aop) : Prop :=
  match o with OpAdd b | OpSub b | OpRsub b => Canon b | _ => True end.

Lemma Canon_step a a' k : Canon a -> (0 <= k)%Z -> steps_to a a' k -> Canon a'.
Proof. intros [C B] K S. split. eapply steps_canon; eauto. destruct S as (E&_). lia. Qed.

Lemma apply_aop_canon a o : Canon a -> aop_ok o -> Canon (apply_aop a o).
Proof.
intros Ca Ho. destruct o; cbn [apply_aop aop_ok] in *.
- now apply Canon_add.
- now apply Canon_sub.
- now apply Canon_sub.
- apply (Canon_step a _ 2 Ca ltac:(lia)). apply dual_step, Ca.
- apply (Canon_step a _ 2 Ca ltac:(lia)). apply undual_step, Ca.
- apply (Canon_step a _ 2 Ca ltac:(lia)). apply negate_step, Ca.
- apply (Canon_step a _ 2 Ca ltac:(lia)). apply conjugate_step, Ca.
- destruct Ca as [C B]. split. exact C. unfold base_angle, grade. cbn [blade]. apply Z.mod_pos_bound. lia.
Qed.

Lemma history_canon ops a : Canon a -> Forall aop_ok ops -> Canon (fold_left apply_aop ops a).
Proof.
revert a. induction ops as [|o t IH]; intros a Ca Ho; simpl; [exact Ca|].
inversion Ho; subst. apply IH; [|assumption]. now apply apply_aop_canon.
Qed.

Lemma steps_closed a : Canon a ->
  Canon (dual a) /\ Canon (undual a) /\ Canon (negate a) /\ Canon (conjugate a) /\ Canon (base_angle a).
Proof.
intros Ca.
pose proof (apply_aop_canon a OpDual Ca I). pose proof (apply_aop_canon a OpUndual Ca I).
pose proof (apply_aop_canon a OpNegate Ca I). pose proof (apply_aop_canon a OpConj Ca I).
pose proof (apply_aop_canon a OpBase Ca I). cbn [apply_aop] in *. split; [|split; [|split; [|split]]]; assumption.
Qed.

Require Import GV.GeonumM GV.GeonumProofs.
Lemma gdiv_none h g : gdiv_vv h g = None <-> inv g = None.
Proof. unfold gdiv_vv, omap. destruct (inv g); split; intros H; try discriminate; reflexivity. Qed.

Lemma panics_spec (L : libm) g h r :
  (inv g = None <-> feq (mag g) zero = true) /\
  (normalize g = None <-> feq (mag g) zero = true) /\
  (gdiv_vv h g = None <-> feq (mag g) zero = true) /\
  (invert_circle L h g r = None <-> feq (mag (gsub_vv L h g)) zero = true).
Proof.
split; [apply inv_spec|]. split; [apply normalize_spec|]. split; [|apply invert_circle_spec].
rewrite gdiv_none. apply inv_spec.
Qed.

Lemma sqrt_sites (L : libm) a b :
  nonneg_or_inf (mag (distance_to L a b)) /\
  (aeqb (ang a) (ang b) = false ->
   aeqb (add_vv (ang a) (new one one)) (ang b) || aeqb (add_vv (ang b) (new one one)) (ang a) = false ->
   nonneg_or_inf (mag (gadd_vv L a b))).
Proof. split. apply distance_encoding. apply gadd_paths. Qed.

Lemma angle_closed a b : Canon a -> Canon b -> Canon (geometric_add a b) /\ Canon (geometric_sub a b).
Proof. intros Ca Cb. split; [now apply Canon_add|now apply Canon_sub]. Qed.
