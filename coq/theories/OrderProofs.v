(* OrderProofs: equality and ordering of Angle / Geonum (C16). *)
From Coq Require Import ZArith List Bool Reals Lra Lia Sorting.Permutation Sorting.Sorted.
From Flocq Require Import Core BinarySingleNaN.
Require Import GV.FloatBase GV.FloatLemmas GV.AngleM GV.AngleProofs GV.GeonumM GV.Interp.
Import ListNotations.
Open Scope R_scope.

Lemma fcmp_R x y : fin x -> fin y -> fcmp x y = Some (Rcompare (R_ x) (R_ y)).
Proof. intros; now apply Bcompare_correct. Qed.

(* the mathematical order the library implements: lexicographic on (blade, rem) *)
Definition alex (a b : angle) : comparison :=
  match (blade a ?= blade b)%Z with
  | Eq => Rcompare (R_ (rem a)) (R_ (rem b))
  | c => c
  end.

Definition finA (a : angle) := fin (rem a).
Definition finG (g : geonum) := fin (mag g) /\ fin (rem (ang g)).

Lemma acmp_alex a b : finA a -> finA b -> acmp a b = Some (alex a b).
Proof.
intros Fa Fb. unfold acmp, alex. destruct (blade a ?= blade b)%Z; try reflexivity. now apply fcmp_R.
Qed.

Lemma Rcompare_opp x y : Rcompare y x = CompOpp (Rcompare x y).
Proof. destruct (Rcompare_spec x y); destruct (Rcompare_spec y x); simpl; try reflexivity; lra. Qed.

Lemma alex_antisym a b : alex b a = CompOpp (alex a b).
Proof.
unfold alex. rewrite (Z.compare_antisym (blade a) (blade b)).
destruct (blade a ?= blade b)%Z; simpl; try reflexivity. apply Rcompare_opp.
Qed.

Lemma alex_refl a : alex a a = Eq.
Proof. unfold alex. rewrite Z.compare_refl. apply Rcompare_Eq. reflexivity. Qed.

Lemma alex_eq a b : alex a b = Eq <-> blade a = blade b /\ R_ (rem a) = R_ (rem b).
Proof.
unfold alex. destruct (Z.compare_spec (blade a) (blade b)).
- split. intros H0. split; auto. now apply Rcompare_Eq_inv. intros [_ E]. now apply Rcompare_Eq.
- split; [discriminate|]. intros [E _]; lia.
- split; [discriminate|]. intros [E _]; lia.
Qed.

Lemma alex_lt a b : alex a b = Lt <-> (blade a < blade b)%Z \/ (blade a = blade b /\ R_ (rem a) < R_ (rem b)).
Proof.
unfold alex. destruct (Z.compare_spec (blade a) (blade b)).
- split. intros H0. right. split; auto. now apply Rcompare_Lt_inv.
  intros [L|[_ L]]. lia. now apply Rcompare_Lt.
- split; [intros _; left; assumption|reflexivity].
- split; [discriminate|]. intros [L|[E _]]; lia.
Qed.

Lemma alex_trans a b c : alex a b = Lt -> alex b c = Lt -> alex a c = Lt.
Proof. rewrite !alex_lt. intros [H1|[E1 L1]] [H2|[E2 L2]]; [left; lia|left; lia|left; lia|right; split; [lia|lra]]. Qed.

(* PartialOrd always agrees with Ord *)
Lemma apartial_cmp_agrees a b : finA a -> finA b -> apartial_cmp a b = Some (acmp a b).
Proof. intros Fa Fb. unfold apartial_cmp. now rewrite acmp_alex. Qed.

(* equality: blade-exact, remainders within the 1e-15 test *)
Lemma aeqb_true a b : canonp (rem a) -> canonp (rem b) -> aeqb a b = true ->
  blade a = blade b /\ (Rabs (rnd (R_ (rem a) - R_ (rem b))) < R_ eps15 \/ R_ (rem a) = R_ (rem b)).
Proof.
intros (Fa&A0&A1) (Fb&B0&B1). unfold aeqb. pose proof E10pos.
destruct (Z.eqb_spec (blade a) (blade b)) as [E|N]; simpl; [|discriminate].
intros H0. split; [exact E|].
destruct (fsub_R _ _ Fa Fb) as [V Fs].
{ apply small_le_1000. apply Rabs_le. rewrite Qval, E10val in *. lra. }
rewrite flt_R in H0 by auto using fin_fabs, fin_eps15. rewrite fabs_R, V in H0.
destruct (Rlt_bool_spec (Rabs (rnd (R_ (rem a) - R_ (rem b)))) (R_ eps15)) as [K|K]; [left; exact K|].
right. rewrite feq_R in H0 by assumption.
destruct (Req_bool_spec (R_ (rem a)) (R_ (rem b))); [assumption|discriminate].
Qed.

(* cmp = Equal implies == (the converse fails inside the 1e-15 band: see eq_cmp_band_refuted) *)
Lemma acmp_eq_aeqb a b : finA a -> finA b -> acmp a b = Some Eq -> aeqb a b = true.
Proof.
intros Fa Fb. rewrite acmp_alex by assumption. intros H. inversion H as [H1]. apply alex_eq in H1. destruct H1 as [E R].
unfold aeqb. rewrite E, Z.eqb_refl. simpl.
destruct (flt (fabs (fsub (rem a) (rem b))) eps15); [reflexivity|].
rewrite feq_R by assumption. now apply Req_bool_true.
Qed.

(* F6: a concrete pair of canonical angles with a == b but cmp a b = Less *)
Definition band_a : angle := new (of_Z 1) (of_Z 7).
Definition band_b : angle := geometric_add band_a (new (of_bits 0x3CB59E05F1E2674D) PI).
Lemma eq_cmp_band_refuted :
  aeqb band_a band_b = true /\ acmp band_a band_b = Some Lt /\ blade band_a = blade band_b.
Proof. vm_compute. repeat split; reflexivity. Qed.

(* ---- Geonum ---- *)
Definition glex (a b : geonum) : comparison :=
  match alex (ang a) (ang b) with
  | Eq => Rcompare (R_ (mag a)) (R_ (mag b))
  | c => c
  end.

Lemma gcmp_glex a b : finG a -> finG b -> gcmp a b = Some (glex a b).
Proof.
intros [Ma Ra] [Mb Rb]. unfold gcmp, glex. rewrite acmp_alex by assumption.
destruct (alex (ang a) (ang b)); try reflexivity. now rewrite fcmp_R.
Qed.

Lemma glex_antisym a b : glex b a = CompOpp (glex a b).
Proof.
unfold glex. rewrite (alex_antisym (ang a) (ang b)).
destruct (alex (ang a) (ang b)); simpl; try reflexivity. apply Rcompare_opp.
Qed.

Lemma glex_refl a : glex a a = Eq.
Proof. unfold glex. rewrite alex_refl. now apply Rcompare_Eq. Qed.

Lemma glex_lt a b : glex a b = Lt <->
  alex (ang a) (ang b) = Lt \/ (alex (ang a) (ang b) = Eq /\ R_ (mag a) < R_ (mag b)).
Proof.
unfold glex. destruct (alex (ang a) (ang b)) eqn:E.
- split. intros H; right; split; auto. now apply Rcompare_Lt_inv. intros [H|[_ H]]; [discriminate|now apply Rcompare_Lt].
- split; auto.
- split; [discriminate|]. intros [H|[H _]]; discriminate.
Qed.

Lemma alex_eq_trans_lt a b c : alex a b = Eq -> alex b c = Lt -> alex a c = Lt.
Proof. rewrite alex_eq, !alex_lt. intros [E R] [L|[E2 L]]; [left; lia|right; split; [lia|lra]]. Qed.
Lemma alex_lt_trans_eq a b c : alex a b = Lt -> alex b c = Eq -> alex a c = Lt.
Proof. rewrite alex_eq, !alex_lt. intros [L|[E2 L]] [E R]; [left; lia|right; split; [lia|lra]]. Qed.
Lemma alex_eq_trans a b c : alex a b = Eq -> alex b c = Eq -> alex a c = Eq.
Proof. rewrite !alex_eq. intros [E R] [E2 R2]. split; [lia|lra]. Qed.

Lemma glex_trans a b c : glex a b = Lt -> glex b c = Lt -> glex a c = Lt.
Proof.
rewrite !glex_lt. intros [H1|[E1 L1]] [H2|[E2 L2]].
- left. eapply alex_trans; eauto.
- left. eapply alex_lt_trans_eq; eauto.
- left. eapply alex_eq_trans_lt; eauto.
- right. split. eapply alex_eq_trans; eauto. lra.
Qed.

Lemma gpartial_cmp_agrees a b : finG a -> finG b -> gpartial_cmp a b = Some (gcmp a b).
Proof. intros Fa Fb. unfold gpartial_cmp. now rewrite gcmp_glex. Qed.

Lemma geqb_true a b : fin (mag a) -> fin (mag b) -> canonp (rem (ang a)) -> canonp (rem (ang b)) ->
  geqb a b = true -> R_ (mag a) = R_ (mag b) /\ blade (ang a) = blade (ang b).
Proof.
intros Ma Mb Ra Rb. unfold geqb. rewrite andb_true_iff. intros [H1 H2].
rewrite feq_R in H1 by assumption.
split. destruct (Req_bool_spec (R_ (mag a)) (R_ (mag b))); [assumption|discriminate].
now destruct (aeqb_true _ _ Ra Rb H2).
Qed.

(* ---- sorting: the reference sort returns a sorted permutation whenever cmp is defined ---- *)
Definition gle_lex (a b : geonum) : Prop := glex a b <> Gt.

Lemma insert_sorted_ok x l : finG x -> Forall finG l -> Sorted gle_lex l ->
  exists r, insert_sorted x l = Some r /\ Permutation (x :: l) r /\ Sorted gle_lex r /\ Forall finG r /\
            (forall y, HdRel gle_lex y l -> gle_lex y x -> HdRel gle_lex y r).
Proof.
intros Fx. induction l as [|y t IH]; intros Fl Sl.
- exists [x]. simpl. split; [reflexivity|]. split; [apply Permutation_refl|]. split; [repeat constructor|].
  split; [constructor; [exact Fx|constructor]|]. intros z _ Hz. constructor. exact Hz.
- inversion Fl as [|? ? Fy Ft]; subst. inversion Sl as [|? ? St Hd]; subst.
  simpl. rewrite gcmp_glex by assumption.
  assert (Front : glex x y <> Gt ->
    Permutation (x :: y :: t) (x :: y :: t) /\ Sorted gle_lex (x :: y :: t) /\ Forall finG (x :: y :: t) /\
    (forall z, HdRel gle_lex z (y :: t) -> gle_lex z x -> HdRel gle_lex z (x :: y :: t))).
  { intros C. split; [apply Permutation_refl|]. split; [constructor; [exact Sl|constructor; exact C]|].
    split; [constructor; assumption|]. intros z _ Hz. constructor. exact Hz. }
  destruct (glex x y) eqn:C.
  + exists (x :: y :: t). split; [reflexivity|]. apply Front. discriminate.
  + exists (x :: y :: t). split; [reflexivity|]. apply Front. discriminate.
  + destruct (IH Ft St) as (r & E & P & S & Fr & Hh). rewrite E.
    exists (y :: r). split; [reflexivity|]. split; [|split; [|split]].
    * eapply perm_trans. apply perm_swap. now constructor.
    * constructor; [exact S|]. apply Hh; [exact Hd|]. unfold gle_lex. rewrite glex_antisym, C. discriminate.
    * constructor; assumption.
    * intros z Hz _. inversion Hz; subst. now constructor.
Qed.

Lemma sort_model_ok l : Forall finG l ->
  exists r, sort_model l = Some r /\ Permutation l r /\ Sorted gle_lex r /\ Forall finG r.
Proof.
induction l as [|x t IH]; intros Fl.
- exists []. split; [reflexivity|]. split; [apply Permutation_refl|]. split; constructor.
- inversion Fl as [|? ? Fx Ft]; subst. destruct (IH Ft) as (r & E & P & S & Fr).
  unfold sort_model in *. simpl. rewrite E.
  destruct (insert_sorted_ok x r Fx Fr S) as (r' & E' & P' & S' & Fr' & _).
  exists r'. split; [exact E'|]. split; [eapply perm_trans; [|exact P']; now constructor|]. split; assumption.
Qed.

Lemma order_laws :
  (forall a, alex a a = Eq) /\ (forall a b, alex b a = CompOpp (alex a b)) /\
  (forall a b c, alex a b = Lt -> alex b c = Lt -> alex a c = Lt) /\
  (forall a b, alex a b = Eq <-> blade a = blade b /\ R_ (rem a) = R_ (rem b)).
Proof. split; [exact alex_refl|]. split; [exact alex_antisym|]. split; [exact alex_trans|exact alex_eq]. Qed.
Lemma gorder_laws :
  (forall a, glex a a = Eq) /\ (forall a b, glex b a = CompOpp (glex a b)) /\
  (forall a b c, glex a b = Lt -> glex b c = Lt -> glex a c = Lt).
Proof. split; [exact glex_refl|]. split; [exact glex_antisym|exact glex_trans]. Qed.
