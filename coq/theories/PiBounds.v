(* PiBounds: the two numeric facts about the real pi used by the value theorems, proved by the
   Interval tactic (which brings in the primitive-integer axioms of the standard library). *)
From Coq Require Import Reals Lra.
From Interval Require Import Tactic.
Open Scope R_scope.
Lemma q_close_to_half_pi : Rabs (7074237752028440 / 4503599627370496 - PI / 2) <= 7 / 100000000000000000.
Proof. interval with (i_prec 120). Qed.
Lemma q_below_half_pi : 7074237752028440 / 4503599627370496 < PI / 2.
Proof. interval with (i_prec 120). Qed.
