From Coq Require Import ZArith List Bool Reals Lra Lia Psatz.
From Flocq Require Import Core BinarySingleNaN.
Require Import GV.FloatBase GV.FloatLemmas GV.AngleM GV.AngleProofs GV.NewProofs GV.CtorProofs GV.GeonumM GV.GeonumProofs
  GV.TraitsM GV.TraitsProofs GV.ClosureProofs GV.PiBounds GV.TrigProofs GV.DotValue GV.FieldProofs.
Open Scope R_scope.

Lemma mu0_val : fin VACUUM_PERMEABILITY /\ R_ VACUUM_PERMEABILITY = 5934300740056779 * / 4722366482869645213696.
Proof. split; [vm_compute; reflexivity|]. vm_compute VACUUM_PERMEABILITY. unfold B2R, F2R. simpl. lra. Qed.

Section PV.
Context (L : libm) (u : R).

(* Poynting vector: |S| = |E||B||sin(angle between)| / mu0 with mu0 the double 4 pi 1e-7, angle = the wedge's *)
Lemma poynting_value a b : sin_acc L u -> u <= / 1000 ->
  canonp (rem (ang a)) -> canonp (rem (ang b)) -> (0 <= blade (ang a))%Z -> (0 <= blade (ang b))%Z ->
  fin (mag (wedge L a b)) -> fin (mag (poynting_vector L a b)) ->
  let mu := R_ VACUUM_PERMEABILITY in
  let X := R_ (mag a) * R_ (mag b) * Rabs (sin (dir (ang b) - dir (ang a))) in
  let B := Rabs (R_ (mag a) * R_ (mag b)) * (u + 10002 / 100000000000000) + bpow radix2 (-1073) in
  ang (poynting_vector L a b) = ang (wedge L a b) /\
  Rabs (R_ (mag (poynting_vector L a b)) - X / mu) <= (B + / 9007199254740992 * (Rabs X + B)) / mu + bpow radix2 (-1075).
Proof.
intros HL Hu Ca Cb Ha Hb Fw Fp mu X B.
pose proof (wedge_mag_value L u a b HL Hu Ca Cb Ha Hb Fw) as EW. fold X B in EW.
destruct mu0_val as [Fm Vm].
assert (Mp : 0 < mu) by (unfold mu; rewrite Vm; lra).
unfold poynting_vector, gnew_with_angle in *. cbn [mag ang] in *. split; [reflexivity|].
destruct (fdiv_fin_R' _ _ Fp ltac:(fold mu; lra)) as [_ Ev]. rewrite Ev. fold mu.
set (W := R_ (mag (wedge L a b))) in *.
pose proof (rnd_rel (W / mu)) as RR.
assert (Wb : Rabs W <= Rabs X + B).
{ replace W with ((W - X) + X) by ring. eapply Rle_trans; [apply Rabs_triang|]. lra. }
assert (Aq : Rabs (W / mu) = Rabs W / mu).
{ unfold Rdiv. rewrite Rabs_mult, (Rabs_pos_eq (/ mu)); [reflexivity|]. left. apply Rinv_0_lt_compat; exact Mp. }
assert (Dq : Rabs (W / mu - X / mu) = Rabs (W - X) / mu).
{ replace (W / mu - X / mu) with ((W - X) / mu) by (field; lra). unfold Rdiv. rewrite Rabs_mult, (Rabs_pos_eq (/ mu)); [reflexivity|]. left. apply Rinv_0_lt_compat; exact Mp. }
replace (rnd (W / mu) - X / mu) with ((rnd (W / mu) - W / mu) + (W / mu - X / mu)) by ring.
eapply Rle_trans; [apply Rabs_triang|]. rewrite Dq. rewrite Aq in RR.
assert (Im : 0 < / mu) by (apply Rinv_0_lt_compat; exact Mp).
assert (T1 : Rabs (W - X) / mu <= B / mu) by (unfold Rdiv; apply Rmult_le_compat_r; lra).
assert (T2 : / 9007199254740992 * (Rabs W / mu) <= / 9007199254740992 * (Rabs X + B) / mu).
{ unfold Rdiv. rewrite <- Rmult_assoc. apply Rmult_le_compat_r; [lra|]. apply Rmult_le_compat_l; lra. }
replace ((B + / 9007199254740992 * (Rabs X + B)) / mu) with (B / mu + / 9007199254740992 * (Rabs X + B) / mu) by (field; lra).
lra.
Qed.
End PV.
