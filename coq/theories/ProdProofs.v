(* ProdProofs: the product is associative up to rounding and the boundary tolerance (C05). *)
From Coq Require Import ZArith List Bool Reals Lra Lia Psatz.
From Flocq Require Import Core BinarySingleNaN.
Require Import GV.FloatBase GV.FloatLemmas GV.AngleM GV.AngleProofs GV.NewProofs GV.CtorProofs GV.GeonumM GV.GeonumProofs
  GV.PiBounds GV.TrigProofs GV.DotValue GV.DirProofs.
Open Scope R_scope.

Lemma rnd3_left (a b c : R) : Rabs c <= bpow radix2 500 ->
  Rabs (rnd (rnd (a * b) * c) - a * b * c)
    <= (2 * / 9007199254740992 + / 9007199254740992 * / 9007199254740992) * Rabs (a * b * c) + bpow radix2 (-573).
Proof.
intros Hc.
pose proof (rnd_rel (a * b)) as E1. pose proof (rnd_rel (rnd (a * b) * c)) as E2.
pose proof (bpow_gt_0 radix2 (-1075)) as Hp.
assert (HB : bpow radix2 (-573) = bpow radix2 (-1075) * bpow radix2 502) by (rewrite <- bpow_plus; reflexivity).
assert (B502 : bpow radix2 502 = 4 * bpow radix2 500) by (change 502%Z with (2 + 500)%Z; rewrite bpow_plus; simpl (bpow radix2 2); lra).
pose proof (bpow_gt_0 radix2 500) as H500.
assert (B1 : 1 <= bpow radix2 500) by (change 1 with (bpow radix2 0); apply bpow_le; lia).
set (eta := bpow radix2 (-1075)) in *. set (p := rnd (a * b)) in *.
rewrite Rabs_mult in E2.
pose proof (Rabs_pos (a * b)) as P0. pose proof (Rabs_pos c) as C0. pose proof (Rabs_pos p) as Pp.
assert (Pb : Rabs p <= Rabs (a * b) * (1 + / 9007199254740992) + eta).
{ replace p with ((p - a * b) + a * b) by ring. eapply Rle_trans; [apply Rabs_triang|]. lra. }
replace (rnd (p * c) - a * b * c) with ((rnd (p * c) - p * c) + (p - a * b) * c) by ring.
eapply Rle_trans; [apply Rabs_triang|]. rewrite (Rabs_mult (p - a * b) c).
rewrite (Rabs_mult (a * b) c). rewrite HB, B502.
assert (T1 : Rabs p * Rabs c <= (Rabs (a * b) * (1 + / 9007199254740992) + eta) * Rabs c) by (apply Rmult_le_compat_r; lra).
assert (T2 : Rabs (p - a * b) * Rabs c <= (/ 9007199254740992 * Rabs (a * b) + eta) * Rabs c) by (apply Rmult_le_compat_r; lra).
assert (T3 : eta * Rabs c <= eta * bpow radix2 500) by (apply Rmult_le_compat_l; lra).
nra.
Qed.

(* (a*b)*c and a*(b*c) in floating point agree within 5*2^-53 relative (plus an underflow term) *)
Lemma fmul_assoc_value x y z : fin (fmul (fmul x y) z) -> fin (fmul x (fmul y z)) ->
  Rabs (R_ x) <= bpow radix2 500 -> Rabs (R_ z) <= bpow radix2 500 ->
  Rabs (R_ (fmul (fmul x y) z) - R_ (fmul x (fmul y z)))
    <= 5 * / 9007199254740992 * Rabs (R_ x * R_ y * R_ z) + bpow radix2 (-572).
Proof.
intros F1 F2 Hx Hz.
destruct (fmul_fin_R _ _ F1) as (Fxy & _ & V1). destruct (fmul_fin_R _ _ Fxy) as (_ & _ & Vxy).
destruct (fmul_fin_R _ _ F2) as (_ & Fyz & V2). destruct (fmul_fin_R _ _ Fyz) as (_ & _ & Vyz).
rewrite V1, Vxy, V2, Vyz.
pose proof (rnd3_left (R_ x) (R_ y) (R_ z) Hz) as L.
pose proof (rnd3_left (R_ z) (R_ y) (R_ x) Hx) as R.
replace (rnd (R_ z * R_ y) * R_ x) with (R_ x * rnd (R_ y * R_ z)) in R by (rewrite (Rmult_comm (R_ z) (R_ y)); ring).
replace (R_ z * R_ y * R_ x) with (R_ x * R_ y * R_ z) in R by ring.
assert (HB : bpow radix2 (-572) = 2 * bpow radix2 (-573)) by (change (-572)%Z with (1 + -573)%Z; rewrite bpow_plus; simpl (bpow radix2 1); lra).
pose proof (Rabs_pos (R_ x * R_ y * R_ z)) as P0. rewrite HB.
set (t := R_ x * R_ y * R_ z) in *.
replace (rnd (rnd (R_ x * R_ y) * R_ z) - rnd (R_ x * rnd (R_ y * R_ z)))
  with ((rnd (rnd (R_ x * R_ y) * R_ z) - t) - (rnd (R_ x * rnd (R_ y * R_ z)) - t)) by ring.
eapply Rle_trans; [apply Rabs_triang|]. rewrite Rabs_Ropp. nra.
Qed.

(* C05: the geometric product is associative up to rounding (magnitude) and the boundary tolerance (angle) *)
Lemma gmul_assoc a b c : canonp (rem (ang a)) -> canonp (rem (ang b)) -> canonp (rem (ang c)) ->
  fin (mag (gmul_vv (gmul_vv a b) c)) -> fin (mag (gmul_vv a (gmul_vv b c))) ->
  Rabs (R_ (mag a)) <= bpow radix2 500 -> Rabs (R_ (mag c)) <= bpow radix2 500 ->
  Rabs (R_ (mag (gmul_vv (gmul_vv a b) c)) - R_ (mag (gmul_vv a (gmul_vv b c))))
    <= 5 * / 9007199254740992 * Rabs (R_ (mag a) * R_ (mag b) * R_ (mag c)) + bpow radix2 (-572) /\
  Rabs (theta (ang (gmul_vv (gmul_vv a b) c)) - theta (ang (gmul_vv a (gmul_vv b c))))
    <= 4 * (R_ eps10 + / 2251799813685248) /\
  Rabs (dirR (ang (gmul_vv (gmul_vv a b) c)) - dirR (ang (gmul_vv a (gmul_vv b c))))
    <= 4 * (R_ eps10 + / 2251799813685248) + 2 / 10000000000000000.
Proof.
intros Ca Cb Cc F1 F2 Ha Hc. cbn [gmul_vv mag ang] in *. unfold add_vv.
split; [now apply fmul_assoc_value|].
pose proof (geometric_add_assoc (ang a) (ang b) (ang c) Ca Cb Cc) as A. split; [exact A|].
(* blades of the two associations differ by at most one *)
destruct (geometric_add_canon (ang a) (ang b) Ca Cb) as (Cab & Bab).
destruct (geometric_add_canon (ang b) (ang c) Cb Cc) as (Cbc & Bbc).
destruct (geometric_add_canon _ (ang c) Cab Cc) as (_ & B1).
destruct (geometric_add_canon (ang a) _ Ca Cbc) as (_ & B2).
rewrite !theta_dirR in A.
set (l := geometric_add (geometric_add (ang a) (ang b)) (ang c)) in *.
set (r := geometric_add (ang a) (geometric_add (ang b) (ang c))) in *.
pose proof delta_small as D. set (dl := Rtrigo1.PI / 2 - R_ Q) in *.
assert (K : -2 <= IZR (blade l) - IZR (blade r) <= 2).
{ rewrite <- minus_IZR. split; apply IZR_le; lia. }
apply Rabs_le_inv in A. apply Rabs_le. nra.
Qed.

(* ---- inverse of the inverse ---- *)
Lemma one_R : R_ one = 1 /\ fin one.
Proof. split; [|reflexivity]. vm_compute one. unfold B2R, F2R. simpl. lra. Qed.

(* rounding with a purely relative error on [2^-600, 2^600] (the underflow term is absorbed) *)
Lemma rnd_rel_mid x : bpow radix2 (-600) <= x -> 
  x * (1 - / 4503599627370496) <= rnd x <= x * (1 + / 4503599627370496).
Proof.
intros Hx. pose proof (rnd_rel x) as E. pose proof (bpow_gt_0 radix2 (-600)) as Hp.
rewrite (Rabs_pos_eq x) in E by lra.
assert (T : bpow radix2 (-1075) <= / 9007199254740992 * x).
{ apply Rle_trans with (/ 9007199254740992 * bpow radix2 (-600)); [|apply Rmult_le_compat_l; lra].
  replace (/ 9007199254740992) with (bpow radix2 (-53)) by (simpl; lra). rewrite <- bpow_plus. apply bpow_le. lia. }
apply Rabs_le_inv in E. lra.
Qed.

Lemma inv_inv_mag m : fin m -> bpow radix2 (-500) <= R_ m <= bpow radix2 500 ->
  fin (fdiv one (fdiv one m)) /\ feq (fdiv one m) zero = false /\
  Rabs (R_ (fdiv one (fdiv one m)) - R_ m) <= 5 * / 4503599627370496 * R_ m.
Proof.
intros Fm [M0 M1]. destruct one_R as [V1 F1].
pose proof (bpow_gt_0 radix2 (-500)) as Hp. set (e := / 4503599627370496) in *.
assert (Mp : 0 < R_ m) by lra.
assert (I1 : bpow radix2 (-500) <= / R_ m <= bpow radix2 500).
{ split.
  - rewrite <- (Rinv_inv (bpow radix2 (-500))). apply Rinv_le; [lra|].
    rewrite <- bpow_opp. simpl (- -500)%Z. exact M1.
  - replace (bpow radix2 500) with (/ bpow radix2 (-500)) by (rewrite <- bpow_opp; reflexivity).
    apply Rinv_le; lra. }
destruct (fdiv_R one m F1) as [Vx Fx]. { lra. }
{ rewrite V1. unfold Rdiv. rewrite Rmult_1_l, Rabs_pos_eq by lra. apply Rle_trans with (bpow radix2 500); [lra|apply bpow_le; lia]. }
rewrite V1 in Vx. unfold Rdiv in Vx. rewrite Rmult_1_l in Vx.
assert (L600 : bpow radix2 (-600) <= bpow radix2 (-500)) by (apply bpow_le; lia).
pose proof (rnd_rel_mid (/ R_ m) ltac:(lra)) as Ex. rewrite <- Vx in Ex. fold e in Ex.
set (x := fdiv one m) in *.
assert (E0 : 0 < e < / 1000) by (unfold e; lra).
assert (Xp : 0 < R_ x). { destruct Ex as [Exl _]. assert (0 < / R_ m * (1 - e)) by (apply Rmult_lt_0_compat; lra). lra. }
assert (Xl : bpow radix2 (-501) <= R_ x).
{ apply Rle_trans with (bpow radix2 (-500) * (1 - e)).
  - change (-500)%Z with (1 + -501)%Z. rewrite bpow_plus. simpl (bpow radix2 1). pose proof (bpow_gt_0 radix2 (-501)). nra.
  - apply Rle_trans with (/ R_ m * (1 - e)); [apply Rmult_le_compat_r; lra|lra]. }
assert (Xu : R_ x <= bpow radix2 501).
{ apply Rle_trans with (bpow radix2 500 * (1 + e)).
  - apply Rle_trans with (/ R_ m * (1 + e)); [lra|apply Rmult_le_compat_r; lra].
  - change 501%Z with (1 + 500)%Z. rewrite bpow_plus. simpl (bpow radix2 1). pose proof (bpow_gt_0 radix2 500). nra. }
pose proof (bpow_gt_0 radix2 (-501)) as Hp1.
assert (I2 : bpow radix2 (-501) <= / R_ x <= bpow radix2 501).
{ split.
  - rewrite <- (Rinv_inv (bpow radix2 (-501))). apply Rinv_le; [lra|].
    rewrite <- bpow_opp. simpl (- -501)%Z. exact Xu.
  - replace (bpow radix2 501) with (/ bpow radix2 (-501)) by (rewrite <- bpow_opp; reflexivity).
    apply Rinv_le; lra. }
destruct (fdiv_R one x F1) as [Vy Fy]. { lra. }
{ rewrite V1. unfold Rdiv. rewrite Rmult_1_l, Rabs_pos_eq by lra. apply Rle_trans with (bpow radix2 501); [lra|apply bpow_le; lia]. }
rewrite V1 in Vy. unfold Rdiv in Vy. rewrite Rmult_1_l in Vy.
assert (L601 : bpow radix2 (-600) <= bpow radix2 (-501)) by (apply bpow_le; lia).
pose proof (rnd_rel_mid (/ R_ x) ltac:(lra)) as Ey. rewrite <- Vy in Ey. fold e in Ey.
split; [exact Fy|]. split.
{ rewrite feq_R by auto using fin_zero. rewrite R_zero. apply Req_bool_false. lra. }
(* 1/x between m/(1+e) and m/(1-e) *)
assert (Ix : R_ m * (1 - 2 * e) <= / R_ x <= R_ m * (1 + 2 * e)).
{ split.
  - apply Rmult_le_reg_r with (R_ x); [exact Xp|]. rewrite Rinv_l by lra.
    apply Rle_trans with (R_ m * (1 - 2 * e) * (/ R_ m * (1 + e))); [apply Rmult_le_compat_l; [nra|lra]|].
    replace (R_ m * (1 - 2 * e) * (/ R_ m * (1 + e))) with ((R_ m * / R_ m) * ((1 - 2 * e) * (1 + e))) by ring.
    rewrite Rinv_r by lra. nra.
  - apply Rmult_le_reg_r with (R_ x); [exact Xp|]. rewrite Rinv_l by lra.
    apply Rle_trans with (R_ m * (1 + 2 * e) * (/ R_ m * (1 - e))); [|apply Rmult_le_compat_l; [nra|lra]].
    replace (R_ m * (1 + 2 * e) * (/ R_ m * (1 - e))) with ((R_ m * / R_ m) * ((1 + 2 * e) * (1 - e))) by ring.
    rewrite Rinv_r by lra. nra. }
apply Rabs_le. nra.
Qed.

(* C05: the inverse of the inverse has the original magnitude within 5*2^-52 relative and the original
   angle plus exactly four blades (two half turns), remainder untouched *)
Lemma inv_inv g : canonp (rem (ang g)) -> fin (mag g) -> bpow radix2 (-500) <= R_ (mag g) <= bpow radix2 500 ->
  exists i r, inv g = Some i /\ inv i = Some r /\
    Rabs (R_ (mag r) - R_ (mag g)) <= 5 * / 4503599627370496 * R_ (mag g) /\ steps_to (ang g) (ang r) 4.
Proof.
intros Cg Fm Hm. destruct (inv_inv_mag (mag g) Fm Hm) as (Fy & Nz & E).
pose proof (bpow_gt_0 radix2 (-500)) as Hp.
assert (Nm : feq (mag g) zero = false). { rewrite feq_R by auto using fin_zero. rewrite R_zero. apply Req_bool_false. lra. }
exists {| mag := fdiv one (mag g); ang := negate (ang g) |}.
exists {| mag := fdiv one (fdiv one (mag g)); ang := negate (negate (ang g)) |}.
unfold inv. rewrite Nm. cbn [mag ang]. rewrite Nz. split; [reflexivity|]. split; [reflexivity|]. split; [exact E|].
pose proof (negate_step (ang g) Cg) as S1.
assert (Cn : canonp (rem (negate (ang g)))) by (eapply steps_canon; eauto).
pose proof (negate_step _ Cn) as S2. exact (steps_trans _ _ _ 2 2 S1 S2).
Qed.
