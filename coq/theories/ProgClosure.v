(* ProgClosure: canonical angles are an invariant of WHOLE PROGRAMS of the op language shared with the
   correspondence harness - every register of every program over the closed operation set is canonical,
   whatever libm returns (induction over the instruction list, data flow through registers included). *)
From Coq Require Import ZArith List Bool Reals Lra Lia.
From Flocq Require Import Core BinarySingleNaN.
Require Import GV.FloatBase GV.FloatLemmas GV.AngleM GV.AngleProofs GV.NewProofs GV.CtorProofs GV.GeonumM GV.GeonumProofs
  GV.CollM GV.TraitsM GV.Interp GV.ClosureProofs GV.OrderProofs.
Import ListNotations.

Definition okv (v : value) : Prop :=
  match v with
  | VA a => Canon a
  | VG g => CanonG g
  | VC l => Forall CanonG l
  | VOG (Some g) => CanonG g
  | _ => True
  end.

(* the operations whose result is canonical for canonical operands with no further premise *)
Definition closed_op (o : op) : bool :=
  match o with
  | FImm | UImm
  | ARotate | ARem | ABlade | AGrade | AIsGrade | ABase | AIsOpp | ADual | AUndual | AConj | ANeg
  | AGradeAngle | AProject | AEq | ANe | AAdd | ASub | AMul | ADivA | ACmp | APartialCmp | ARel
  | GNewAngle | GScalar | GIncr | GDecr | GDual | GUndual | GDiff | GInt | GNeg | GBase
  | GInv | GDivM | GNormalize | GProjDim | GWedge | GRotate | GReflect | GIsOrth | GMagDiff | GMag | GAngle
  | GDist | GProjAngle | GMul | GDiv | AMulG | AAddG | GEq | GNe | GCmp | GPartialCmp | GRel
  | CNew | CDefault | CFrom | CFromIter | CLen | CIsEmpty | CIter | CIndex | CIntoIter | CIntoIterRef
  | CAsRefVec | CAsRefSlice | CTruncate | CCone | CTotal | CDominant | CRotateAll | CSort => true
  | _ => false
  end.

Section Prog.
Context (L : libm).

Lemma reg_ok rs i : Forall okv rs -> okv (reg rs i).
Proof.
intros H. unfold reg. destruct ((i <? 0)%Z || (Z.of_nat (length rs) <=? i)%Z); [exact I|].
destruct (nth_in_or_default (Z.to_nat i) rs VErr) as [In|E]; [|rewrite E; exact I].
rewrite Forall_forall in H. now apply H.
Qed.

Lemma getA_ok rs i a : Forall okv rs -> getA rs i = Some a -> Canon a.
Proof. intros H E. unfold getA in E. pose proof (reg_ok rs i H) as K. destruct (reg rs i); try discriminate. inversion E; subst. exact K. Qed.
Lemma getG_ok rs i g : Forall okv rs -> getG rs i = Some g -> CanonG g.
Proof. intros H E. unfold getG in E. pose proof (reg_ok rs i H) as K. destruct (reg rs i); try discriminate. inversion E; subst. exact K. Qed.
Lemma getC_ok rs i c : Forall okv rs -> getC rs i = Some c -> Forall CanonG c.
Proof. intros H E. unfold getC in E. pose proof (reg_ok rs i H) as K. destruct (reg rs i); try discriminate. inversion E; subst. exact K. Qed.
Lemma getGs_ok rs is l : Forall okv rs -> getGs rs is = Some l -> Forall CanonG l.
Proof.
intros H. revert l. induction is as [|i t IH]; intros l E; cbn [getGs] in E.
- inversion E; subst. constructor.
- destruct (getG rs i) as [g|] eqn:Eg; [|discriminate]. destruct (getGs rs t) as [l'|]; [|discriminate].
  inversion E; subst. constructor; [exact (getG_ok rs i g H Eg)|now apply IH].
Qed.

Lemma spell2_cases {A} sp (f0 f1 f2 f3 r : A) : spell2 sp f0 f1 f2 f3 = Some r -> r = f0 \/ r = f1 \/ r = f2 \/ r = f3.
Proof.
unfold spell2. destruct (sp =? 0)%Z; [intros E; inversion E; auto|]. destruct (sp =? 1)%Z; [intros E; inversion E; auto|].
destruct (sp =? 2)%Z; [intros E; inversion E; auto|]. destruct (sp =? 3)%Z; [intros E; inversion E; auto|discriminate].
Qed.

Lemma insert_sorted_ok_canon x l r : CanonG x -> Forall CanonG l -> insert_sorted x l = Some r -> Forall CanonG r.
Proof.
intros Cx. revert r. induction l as [|y t IH]; intros r Hl E; cbn [insert_sorted] in E.
- inversion E; subst. constructor; [exact Cx|constructor].
- inversion Hl as [|? ? Cy Ct]; subst. destruct (gcmp x y) as [[| |]|]; try discriminate.
  + inversion E; subst. constructor; assumption.
  + inversion E; subst. constructor; assumption.
  + destruct (insert_sorted x t) as [r'|] eqn:Er; [|discriminate]. inversion E; subst. constructor; [exact Cy|now apply IH].
Qed.

Lemma sort_model_canon l r : Forall CanonG l -> sort_model l = Some r -> Forall CanonG r.
Proof.
unfold sort_model. revert r. induction l as [|x t IH]; intros r Hl E; cbn [fold_right] in E.
- inversion E; subst. constructor.
- inversion Hl as [|? ? Cx Ct]; subst.
  destruct (fold_right (fun x acc => match acc with Some a => insert_sorted x a | None => None end) (Some []) t) as [a|] eqn:Ea; [|discriminate].
  exact (insert_sorted_ok_canon x a r Cx (IH a Ct eq_refl) E).
Qed.

Lemma filter_canon (f : geonum -> bool) l : Forall CanonG l -> Forall CanonG (filter f l).
Proof. intros H. rewrite Forall_forall in *. intros x Hx. apply filter_In in Hx. apply H, Hx. Qed.

Lemma dominant_canon c o : Forall CanonG c -> dominant c = Some (Some o) -> CanonG o.
Proof.
intros H. unfold dominant. destruct c as [|x rest]; [discriminate|].
inversion H as [|? ? Cx Cr]; subst.
assert (K : forall l acc r, Forall CanonG l -> (forall a, acc = Some a -> CanonG a) ->
   fold_left (fun acc y => obind acc (fun x => match fcmp (mag x) (mag y) with None => None | Some Gt => Some x | Some _ => Some y end)) l acc = Some r -> CanonG r).
{ induction l as [|y t IH]; intros acc r Hl Ha E; cbn [fold_left] in E.
  - now apply Ha.
  - inversion Hl as [|? ? Cy Ct]; subst. eapply IH; [exact Ct| |exact E].
    intros a Ea. destruct acc as [x0|]; cbn [obind] in Ea; [|discriminate].
    destruct (fcmp (mag x0) (mag y)) as [[| |]|]; inversion Ea; subst; auto. }
intros E. unfold omap in E.
destruct (fold_left _ rest (Some x)) as [r|] eqn:Er; [|discriminate]. inversion E; subst.
eapply K; [exact Cr| |exact Er]. intros a Ea. inversion Ea; subst. exact Cx.
Qed.

Ltac canon_steps g Cg :=
  pose proof (gstep_specs g (proj1 Cg)) as (S1 & S2 & S3 & S4 & S5 & S6 & S7).

(* one instruction *)
Lemma step_closed rs (i : instr) : Forall okv rs -> closed_op (fst i) = true -> okv (step L rs i).
Proof.
intros Hrs Hc. destruct i as [o x]. cbn [fst] in Hc.
destruct o; try discriminate Hc; clear Hc; cbn [step];
  repeat match goal with
  | |- okv (match ?l with [] => _ | _ :: _ => _ end) => destruct l
  | |- okv VErr => exact I
  end;
  repeat match goal with
  | |- okv (match getA rs ?i with Some _ => _ | None => _ end) => let E := fresh "EA" in destruct (getA rs i) eqn:E; [apply (getA_ok rs _ _ Hrs) in E|exact I]
  | |- okv (match getG rs ?i with Some _ => _ | None => _ end) => let E := fresh "EG" in destruct (getG rs i) eqn:E; [apply (getG_ok rs _ _ Hrs) in E|exact I]
  | |- okv (match getC rs ?i with Some _ => _ | None => _ end) => let E := fresh "EC" in destruct (getC rs i) eqn:E; [apply (getC_ok rs _ _ Hrs) in E|exact I]
  | |- okv (match getGs rs ?i with Some _ => _ | None => _ end) => let E := fresh "EL" in destruct (getGs rs i) eqn:E; [apply (getGs_ok rs _ _ Hrs) in E|exact I]
  | |- okv (match getF rs ?i with Some _ => _ | None => _ end) => destruct (getF rs i); [|exact I]
  | |- okv (match getU rs ?i with Some _ => _ | None => _ end) => destruct (getU rs i); [|exact I]
  end;
  try exact I.
all: try (match goal with |- okv (match spell2 ?sp ?a ?b ?c ?d with Some _ => _ | None => _ end) =>
       let E := fresh "ES" in destruct (spell2 sp a b c d) eqn:E; [apply spell2_cases in E|exact I] end).
all: try (repeat match goal with |- okv (if ?c then _ else _) => destruct c end; try exact I).
(* finish by the shape of the goal *)
all: cbn [okv].
all: try match goal with ES : _ \/ _ |- _ => destruct ES as [->|[->|[->| ->]]] end.
all: unfold rotate, add_vv, add_vr, add_rv, add_rr, mul_vv, mul_vr, mul_rv, mul_rr, sub_vv, sub_vr, sub_rv, sub_rr,
       diva_vv, diva_vr, diva_rv, diva_rr, gmul_vr, gmul_rv, gmul_rr, gdiv_vr, gdiv_rv, gdiv_rr,
       cfrom, cfrom_iter, citer, cinto_iter, cas_ref, cnew, relb, ocmp, opcmp.
all: try match goal with |- Canon (geometric_add _ _) => apply Canon_add; assumption | |- Canon (geometric_sub _ _) => apply Canon_sub; assumption end.
all: try match goal with H : Canon ?a |- Canon (_ ?a) => destruct (steps_closed a H) as (?&?&?&?&?); assumption end.
all: try assumption.
all: try match goal with |- Forall _ [] => constructor end.
all: try (repeat match goal with |- okv (match ?e with _ => _ end) => destruct e | |- okv (if ?c then _ else _) => destruct c end; exact I).
all: try (apply filter_canon; assumption).
all: try match goal with
  | Hg : CanonG ?g, Hh : CanonG ?h |- CanonG (gmul_vv ?g ?h) =>
      destruct (closure_pure g h (ang g) zero Hg Hh Hg fin_zero) as (P1&P2&P3&P4&P5&P6&P7&P8&P9&P10&P11&P12&P13&P14&P15); assumption
  | Hg : CanonG ?g, Hh : CanonG ?h |- CanonG (reflect ?g ?h) =>
      destruct (closure_pure g h (ang g) zero Hg Hh Hg fin_zero) as (P1&P2&P3&P4&P5&P6&P7&P8&P9&P10&P11&P12&P13&P14&P15); assumption
  | Hg : CanonG ?g, Ha : Canon ?a |- CanonG (grotate ?g ?a) =>
      destruct (closure_pure g g a zero Hg Hg Ha fin_zero) as (P1&P2&P3&P4&P5&P6&P7&P8&P9&P10&P11&P12&P13&P14&P15); assumption
  | Hg : CanonG ?g |- CanonG (_ ?g) =>
      destruct (closure_pure g g (ang g) zero Hg Hg Hg fin_zero) as (P1&P2&P3&P4&P5&P6&P7&P8&P9&P10&P11&P12&P13&P14&P15); assumption
  | Hg : CanonG ?g, Hh : CanonG ?h |- okv (vres (gdiv_vv ?g ?h)) =>
      destruct (closure_pure g h (ang g) zero Hg Hh Hg fin_zero) as (P1&P2&P3&P4&P5&P6&P7&P8&P9&P10&P11&P12&P13&P14&P15);
      destruct (gdiv_vv g h) eqn:Ed; [exact (P15 _ eq_refl)|exact I]
  | Hg : CanonG ?g, Hh : CanonG ?h |- okv (vres (gdiv_method ?g ?h)) =>
      destruct (closure_pure g h (ang g) zero Hg Hh Hg fin_zero) as (P1&P2&P3&P4&P5&P6&P7&P8&P9&P10&P11&P12&P13&P14&P15);
      change (gdiv_method g h) with (gdiv_vv g h); destruct (gdiv_vv g h) eqn:Ed; [exact (P15 _ eq_refl)|exact I]
  | Hg : CanonG ?g |- okv (vres (inv ?g)) =>
      destruct (closure_pure g g (ang g) zero Hg Hg Hg fin_zero) as (P1&P2&P3&P4&P5&P6&P7&P8&P9&P10&P11&P12&P13&P14&P15);
      destruct (inv g) eqn:Ed; [exact (P14 _ eq_refl)|exact I]
  | Hg : CanonG ?g |- okv (vres (normalize ?g)) =>
      destruct (normalize g) eqn:Ed; [|exact I]; destruct (normalize_spec g) as [_ Hn]; destruct (Hn _ Ed) as [_ En];
      cbn [vres okv]; unfold CanonG; rewrite En; exact Hg
  | |- CanonG (scalar ?v) => unfold CanonG, scalar; cbn [ang]; rewrite new_0_1, new_1_1; destruct (fge v zero); (split; [apply canonp_zero|cbn [blade]; lia])
  | Hg : CanonG ?g, Hh : CanonG ?h |- CanonG (wedge L ?g ?h) =>
      destruct (wedge_blades L g h (proj1 Hg) (proj1 Hh)) as [C B]; split; [exact C|]; destruct Hg as [_ Bg], Hh as [_ Bh]; lia
  | |- CanonG (distance_to L ?g ?h) =>
      destruct (distance_encoding L g h) as [E _]; unfold CanonG; rewrite E; split; [apply canonp_zero|cbn [blade]; lia]
  | |- CanonG (project_to_angle L ?g ?a) =>
      unfold CanonG; rewrite project_to_angle_enc; cbv zeta; destruct (fge _ zero); cbn [ang]; (split; [apply canonp_zero|cbn [blade]; lia])
  | Hg : CanonG ?g, Ha : Canon ?a |- CanonG (amulg_v ?a ?g) => unfold CanonG; cbn [amulg_v ang]; unfold add_vv; apply Canon_add; assumption
  | Hg : CanonG ?g, Ha : Canon ?a |- CanonG (amulg_r ?a ?g) => unfold CanonG; cbn [amulg_r ang]; unfold add_vv; apply Canon_add; assumption
  | Hg : CanonG ?g, Ha : Canon ?a |- CanonG (aaddg_v ?a ?g) => unfold CanonG; cbn [aaddg_v ang]; unfold add_vv; apply Canon_add; assumption
  | Hg : CanonG ?g, Ha : Canon ?a |- CanonG (aaddg_r ?a ?g) => unfold CanonG; cbn [aaddg_r ang]; unfold add_vv; apply Canon_add; assumption
  | Hl : Forall CanonG ?l |- okv (vres (cindex ?l ?z)) =>
      unfold cindex; destruct ((z <? 0)%Z || (Z.of_nat (length l) <=? z)%Z); [exact I|];
      destruct (nth_error l (Z.to_nat z)) eqn:En; [|exact I]; cbn [vres okv]; rewrite Forall_forall in Hl; apply Hl; eapply nth_error_In; exact En
  | Hl : Forall CanonG ?l |- okv (match sort_model ?l with _ => _ end) =>
      destruct (sort_model l) eqn:Es; [exact (sort_model_canon l _ Hl Es)|exact I]
  | Hl : Forall CanonG ?l |- okv (match dominant ?l with _ => _ end) =>
      destruct (dominant l) as [[o|]|] eqn:Es; [exact (dominant_canon l o Hl Es)|exact I|exact I]
  | Hl : Forall CanonG ?l, Ha : Canon ?a |- Forall CanonG (rotate_all ?l ?a) =>
      unfold rotate_all; rewrite Forall_forall in *; intros x Hx; apply in_map_iff in Hx; destruct Hx as (y & <- & Hy);
      destruct (closure_pure y y a zero (Hl y Hy) (Hl y Hy) Ha fin_zero) as (P1&P2&_); exact P2
  end.
Qed.

(* every register of every program over the closed operation set is canonical *)
Lemma run_from_closed (p : prog) : forall rs, Forall okv rs -> forallb (fun i => closed_op (fst i)) p = true ->
  Forall okv (fold_left (fun rs i => rs ++ [step L rs i]) p rs).
Proof.
induction p as [|i p IH]; intros rs Hrs Hp; cbn [fold_left]; [exact Hrs|].
cbn [forallb] in Hp. apply andb_true_iff in Hp. destruct Hp as [Hi Hp].
apply IH; [|exact Hp]. apply Forall_app. split; [exact Hrs|]. constructor; [|constructor]. now apply step_closed.
Qed.

Theorem program_closed (p : prog) : forallb (fun i => closed_op (fst i)) p = true -> Forall okv (run L p).
Proof. intros Hp. unfold run. apply run_from_closed; [constructor|exact Hp]. Qed.
End Prog.

(* non-vacuity: a concrete program over the closed set that starts from nothing (a float immediate made
   into a scalar), derives angles, multiplies, builds a collection and sorts it *)
Example closed_program_example :
  let p : prog := [(FImm, [4613937818241073152%Z]); (GScalar, [0%Z]); (GAngle, [1%Z]); (ADual, [2%Z]);
                   (AAdd, [0%Z; 2%Z; 3%Z]); (GNewAngle, [0%Z; 4%Z]); (GMul, [0%Z; 5%Z; 1%Z]);
                   (CFrom, [5%Z; 6%Z; 1%Z]); (CSort, [7%Z]); (CRotateAll, [8%Z; 3%Z]); (CIndex, [9%Z; 0%Z])] in
  forallb (fun i => closed_op (fst i)) p = true.
Proof. reflexivity. Qed.
