(* C01 - angles stay canonical and core operations stay total.  Pinned theorems only. *)
From Coq Require Import ZArith List Bool Reals Lra.
From Flocq Require Import Core BinarySingleNaN.
Require Import GV.FloatBase GV.FloatLemmas GV.AngleM GV.AngleProofs GV.GeonumM GV.GeonumProofs GV.NewProofs GV.CtorProofs GV.ClosureProofs GV.CollM GV.TraitsM GV.Interp GV.ProgClosure.
Import ListNotations.
Open Scope R_scope.

(* Canon a : finite remainder with 0 <= rem <= q - 1e-10 (q the double nearest pi/2), blade >= 0 *)
Theorem C01_angle_closed : forall a b, Canon a -> Canon b ->
  Canon (geometric_add a b) /\ Canon (geometric_sub a b).
Proof. exact angle_closed. Qed.
Print Assumptions C01_angle_closed.

Theorem C01_steps_closed : forall a, Canon a ->
  Canon (dual a) /\ Canon (undual a) /\ Canon (negate a) /\ Canon (conjugate a) /\ Canon (base_angle a).
Proof. exact steps_closed. Qed.
Print Assumptions C01_steps_closed.

(* Angle::new = fast path | general path, exactly *)
Theorem C01_new_fast : forall p d, fast_path p d = true -> Canon (new p d).
Proof. exact new_fast_canon. Qed.
Print Assumptions C01_new_fast.

Theorem C01_new_general : forall nt, fin nt -> 0 <= R_ nt -> Canon (from_total nt).
Proof. exact from_total_canon. Qed.
Print Assumptions C01_new_general.

(* the whole constructor: canonical whenever the computed total p*PI/d is finite and |total| <= 2^42.
   (|2p/d| <= 2^40 gives |total| < 2^41; the excluded overflow of p*PI is known finding F7.)
   The negative branch is the repaired defect F1: the lifted total is proved non-negative. *)
Theorem C01_new_total : forall p d, fin (total_angle p d) -> Rabs (R_ (total_angle p d)) <= bpow radix2 42 ->
  Canon (new p d).
Proof. exact new_canon. Qed.
Print Assumptions C01_new_total.

(* the two square-root sites never return NaN or a negative magnitude: any input, any libm *)
Theorem C01_sqrt_sites : forall (L : libm) a b,
  nonneg_or_inf (mag (distance_to L a b)) /\
  (aeqb (ang a) (ang b) = false ->
   aeqb (add_vv (ang a) (new one one)) (ang b) || aeqb (add_vv (ang b) (new one one)) (ang a) = false ->
   nonneg_or_inf (mag (gadd_vv L a b))).
Proof. exact sqrt_sites. Qed.
Print Assumptions C01_sqrt_sites.

(* the documented panics happen exactly on zero magnitude *)
Theorem C01_panics : forall (L : libm) g h r,
  (inv g = None <-> feq (mag g) zero = true) /\
  (normalize g = None <-> feq (mag g) zero = true) /\
  (gdiv_vv h g = None <-> feq (mag g) zero = true) /\
  (invert_circle L h g r = None <-> feq (mag (gsub_vv L h g)) zero = true).
Proof. exact panics_spec. Qed.
Print Assumptions C01_panics.

(* canonical-ness is an invariant of every history of angle operations *)
Theorem C01_history : forall ops a, Canon a -> Forall aop_ok ops -> Canon (fold_left apply_aop ops a).
Proof. exact history_canon. Qed.
Print Assumptions C01_history.

(* non-vacuity: the F1 witness Angle::new(-49980, 3) meets the hypotheses of C01_new_total
   (total = -52338.93360881595..., finite, far below 2^42) and is canonical after the repair *)
Example C01_new_total_inhabited :
  fin (total_angle (of_Z (-49980)) (of_Z 3)) /\
  to_bits (total_angle (of_Z (-49980)) (of_Z 3)) = 13900798258699014939%Z /\
  (to_bits (rem (new (of_Z (-49980)) (of_Z 3))), blade (new (of_Z (-49980)) (of_Z 3))) = (0%Z, 4%Z).
Proof. split; [reflexivity|]. split; vm_compute; reflexivity. Qed.

(* canonical angles are closed under every Geonum operation (CanonG g := Canon (ang g)) *)
Theorem C01_geonum_closed_pure : forall g h r f, CanonG g -> CanonG h -> Canon r -> fin f ->
  CanonG (gmul_vv g h) /\ CanonG (grotate g r) /\ CanonG (gscale g f) /\ CanonG (gnegate g) /\
  CanonG (gdual g) /\ CanonG (gundual g) /\ CanonG (differentiate g) /\ CanonG (integrate g) /\
  CanonG (increment_blade g) /\ CanonG (decrement_blade g) /\ CanonG (gbase_angle g) /\
  CanonG (reflect g h) /\ CanonG (scale_rotate g f r) /\
  (forall i, inv g = Some i -> CanonG i) /\ (forall q, gdiv_vv g h = Some q -> CanonG q).
Proof. exact closure_pure. Qed.
Print Assumptions C01_geonum_closed_pure.

(* ... including the ones that call libm, whatever libm returns *)
Theorem C01_geonum_closed_encoded : forall (L : libm) g h a, CanonG g -> CanonG h -> Canon a -> (blade (ang g) < 2 ^ 53)%Z ->
  CanonG (distance_to L g h) /\ CanonG (project_to_angle L g a) /\
  (fin (dot_value L g h) -> CanonG (dot L g h)) /\
  (fin (cosF L (grade_angle a)) -> CanonG (gcos L a)) /\
  (fin (sinF L (grade_angle a)) -> CanonG (gsin L a)) /\
  CanonG (wedge L g h) /\ CanonG (gproject L g h).
Proof. exact closure_encoded. Qed.
Print Assumptions C01_geonum_closed_encoded.

Theorem C01_geonum_closed_add : forall (L : libm) g h, CanonG g -> CanonG h -> (blade (ang g) + blade (ang h) < 2 ^ 53)%Z ->
  (aeqb (ang g) (ang h) = false ->
   aeqb (add_vv (ang g) (new one one)) (ang h) || aeqb (add_vv (ang h) (new one one)) (ang g) = false ->
   fin (total_angle (sum_adjusted L g h) PI) /\ Rabs (R_ (total_angle (sum_adjusted L g h) PI)) <= bpow radix2 42) ->
  CanonG (gadd_vv L g h).
Proof. exact closure_gadd. Qed.
Print Assumptions C01_geonum_closed_add.

(* WHOLE PROGRAMS: starting from ANY register file of canonical values, every register written by ANY program
   over the closed operation set (closed_op: 79 opcodes of the op language shared with the correspondence
   harness - angle and geonum arithmetic in all spellings, step operators, products, quotients, reflection,
   wedge, distance, collections incl. sort) is canonical, for every libm: induction over the instruction
   list with data flow through registers *)
Theorem C01_program_closed : forall (L : libm) (p : prog) rs, Forall okv rs ->
  forallb (fun i => closed_op (fst i)) p = true ->
  Forall okv (fold_left (fun rs i => rs ++ [step L rs i]) p rs).
Proof. exact run_from_closed. Qed.
Print Assumptions C01_program_closed.

Theorem C01_program_closed_run : forall (L : libm) (p : prog),
  forallb (fun i => closed_op (fst i)) p = true -> Forall okv (run L p).
Proof. exact program_closed. Qed.
Print Assumptions C01_program_closed_run.

Theorem C01_okv_def : forall v, okv v = match v with VA a => Canon a | VG g => CanonG g | VC l => Forall CanonG l
                                        | VOG (Some g) => CanonG g | _ => True end.
Proof. reflexivity. Qed.
Print Assumptions C01_okv_def.
