(* C02 - constructors denote exactly the angle and vector they are given.  Pinned theorems only. *)
From Coq Require Import ZArith List Bool Reals Lra.
From Flocq Require Import Core BinarySingleNaN.
Require Import GV.FloatBase GV.FloatLemmas GV.AngleM GV.AngleProofs GV.GeonumM GV.GeonumProofs GV.NewProofs GV.CtorProofs GV.ClosureProofs GV.SumUpper GV.PiBounds GV.TrigProofs GV.DotValue GV.DistValue GV.DirProofs GV.SumDir GV.ProdProofs GV.CartCtor GV.Atan2Ideal GV.RealPi.
Open Scope R_scope.

(* k quarter turns written as Angle::new(k, 2.0): exactly blade k, remainder 0 *)
Theorem C02_fast_path : forall k, (0 <= k < 2 ^ 53)%Z -> new (of_Z k) two = {| rem := zero; blade := k |}.
Proof. exact new_quarter_turns. Qed.
Print Assumptions C02_fast_path.

Theorem C02_dimension : forall m k, (0 <= k < 2 ^ 53)%Z ->
  create_dimension m k = {| mag := m; ang := {| rem := zero; blade := k |} |}.
Proof. exact create_dimension_exact. Qed.
Print Assumptions C02_dimension.

(* an explicit blade offset adds exactly that many quarter turns and leaves the remainder untouched *)
Theorem C02_with_blade : forall n p d, (0 <= n < 2 ^ 53)%Z -> canonp (rem (new p d)) ->
  steps_to (new p d) (new_with_blade n p d) n.
Proof. exact new_with_blade_adds. Qed.
Print Assumptions C02_with_blade.

(* scalar: |v| at angle 0 for v >= 0 (incl. -0.0), at pi (blade 2) for v < 0 *)
Theorem C02_scalar : forall v, fin v ->
  mag (scalar v) = fabs v /\
  ang (scalar v) = if Rle_bool 0 (R_ v) then {| rem := zero; blade := 0 |} else {| rem := zero; blade := 2 |}.
Proof. exact scalar_spec. Qed.
Print Assumptions C02_scalar.

(* general path (repaired defect F2): with t the (lifted) total, the result holds exactly
   k = floor(t / q) quarter turns and the exact remainder t - k q, or the 1e-10 snap fired *)
Theorem C02_decomp_exact : forall nt, fin nt -> 0 < R_ nt <= bpow radix2 43 ->
  exists k : Z, (0 <= k)%Z /\ R_ nt = IZR k * R_ Q + R_ (ffmod nt Q) /\ 0 <= R_ (ffmod nt Q) < R_ Q /\
    ( (blade (from_total nt) = k /\ R_ (rem (from_total nt)) = R_ (ffmod nt Q))
   \/ (blade (from_total nt) = (k + 1)%Z /\ R_ (rem (from_total nt)) = 0 /\
       Rabs (R_ (ffmod nt Q) - R_ Q) <= R_ eps10 + / 4503599627370496) ).
Proof. exact from_total_decomp. Qed.
Print Assumptions C02_decomp_exact.

Theorem C02_new_is_from_total : forall p d,
  new p d = if fast_path p d then {| rem := zero; blade := fast_blade p |}
            else from_total (lift_total (total_angle p d)).
Proof. exact new_unfold. Qed.
Print Assumptions C02_new_is_from_total.

(* consequently theta(new p d) = lifted total within the snap tolerance *)
Theorem C02_new_value : forall nt, fin nt -> 0 < R_ nt <= bpow radix2 43 ->
  Rabs (theta (from_total nt) - R_ nt) <= R_ eps10 + / 4503599627370496.
Proof. exact from_total_value. Qed.
Print Assumptions C02_new_value.

(* negative quarter turns written with divisor 2: a forward rotation of between 3 and 6 blades,
   congruent to d modulo 4 (so fewer than two turns), remainder exactly 0 *)
Theorem C02_fast_path_negative : forall d, (- 2 ^ 50 < d < 0)%Z ->
  new (of_Z d) two = {| rem := zero; blade := d + 4 * ((- d + 6) / 4) |}.
Proof. exact new_neg_quarter_turns. Qed.
Print Assumptions C02_fast_path_negative.

(* Angle::new(p, d) denotes p * PI / d (PI the double): on the general path with a non-negative total
   the library total is within 1e-10 + 2^-52 + 2^-51 |x| + 2^-70 of the real quotient x = p * PI / d *)
Theorem C02_new_value_pd : forall p d, fin p -> fin d -> R_ d <> 0 ->
  Rabs (R_ p * R_ PI) <= bpow radix2 1000 -> Rabs (R_ p * R_ PI / R_ d) <= bpow radix2 998 -> bpow radix2 (-1000) <= Rabs (R_ d) ->
  fast_path p d = false -> 0 < R_ (total_angle p d) <= bpow radix2 43 ->
  Rabs (theta (new p d) - R_ p * R_ PI / R_ d)
    <= R_ eps10 + / 4503599627370496 + / 2251799813685248 * Rabs (R_ p * R_ PI / R_ d) + bpow radix2 (-70).
Proof. exact new_value_pd. Qed.
Print Assumptions C02_new_value_pd.

(* a negative p/d (general path) yields a forward rotation of AT MOST ONE TURN: at most 4 blades, and exactly
   4 only with a remainder below 2^-8 (the rounding of the lift at totals up to 2^42; 0 in exact arithmetic) *)
Theorem C02_negative_at_most_one_turn : forall p d, fast_path p d = false ->
  fin (total_angle p d) -> Rabs (R_ (total_angle p d)) <= bpow radix2 42 -> R_ (total_angle p d) < 0 ->
  (0 <= blade (new p d) <= 4)%Z /\ (blade (new p d) = 4%Z -> R_ (rem (new p d)) <= / 256).
Proof.
intros p d Hf Ft Bt Ng. destruct (new_blade_upper p d Hf Ft Bt ltac:(lra)) as [U V].
destruct (new_canon p d Ft Bt) as [_ B0]. split; [split; assumption|exact V].
Qed.
Print Assumptions C02_negative_at_most_one_turn.

(* the lift of a negative total lands in [0, 2 pi + 2^-8] (4q = the double 2 pi) *)
Theorem C02_lift_range : forall t, fin t -> Rabs (R_ t) <= bpow radix2 42 -> R_ t < 0 ->
  fin (lift_total t) /\ 0 <= R_ (lift_total t) <= 4 * R_ Q + / 256.
Proof.
intros t Ft Bt Ng. destruct (lift_total_nonneg t Ft Bt) as [F P]. split; [exact F|]. split; [exact P|].
now apply lift_total_upper.
Qed.
Print Assumptions C02_lift_range.

(* Angle::new_from_cartesian(x, y) points along (x, y) (REAL pi): canonical, at most one turn, and its cosine and
   sine are those of an angle theta with (x, y) = r (cos theta, sin theta) within u2 + 1e-10 + 3e-14, for any
   libm whose atan2 satisfies atan2_acc with u2 *)
Theorem C02_from_cartesian_direction : forall (L : libm) (u2 : R) x y, atan2_acc L u2 -> fin x -> fin y ->
  let a := new_from_cartesian L x y in
  Canon a /\ (blade a <= 4)%Z /\
  exists theta, R_ x = sqrt (R_ x * R_ x + R_ y * R_ y) * cos theta /\ R_ y = sqrt (R_ x * R_ x + R_ y * R_ y) * sin theta /\
    Rabs (cos (dirR a) - cos theta) <= u2 + R_ eps10 + 3 / 100000000000000 /\
    Rabs (sin (dirR a) - sin theta) <= u2 + R_ eps10 + 3 / 100000000000000.
Proof. exact new_from_cartesian_dir. Qed.
Print Assumptions C02_from_cartesian_direction.

(* Geonum::new_from_cartesian(x, y) reproduces the vector (x, y) component by component within
   r (6*2^-53 + u2 + 1e-10 + 3e-14), r = sqrt(x^2 + y^2) >= 2^-500 *)
Theorem C02_from_cartesian_value : forall (L : libm) (u2 : R) x y, atan2_acc L u2 -> fin x -> fin y ->
  fin (fsqrt (fadd (fmul x x) (fmul y y))) -> fin (fadd (fmul x x) (fmul y y)) ->
  bpow radix2 (-1000) <= R_ x * R_ x + R_ y * R_ y ->
  let g := gnew_from_cartesian L x y in
  let r := sqrt (R_ x * R_ x + R_ y * R_ y) in
  let T := r * (6 * / 9007199254740992 + u2 + R_ eps10 + 3 / 100000000000000) in
  Canon (ang g) /\ Rabs (R_ (mag g) * cos (dirR (ang g)) - R_ x) <= T /\ Rabs (R_ (mag g) * sin (dirR (ang g)) - R_ y) <= T.
Proof. exact gnew_from_cartesian_value. Qed.
Print Assumptions C02_from_cartesian_value.

(* Angle::new(at / PI, 1.0) for a finite at in [-PI, PI] (no libm): canonical, at most one turn, pointing along
   at modulo whole turns within 1e-10 + 3e-14 *)
Theorem C02_radians_direction : forall (at_ : F), fin at_ -> Rabs (R_ at_) <= R_ PI ->
  let a := new (fdiv at_ PI) one in
  Canon a /\ (blade a <= 4)%Z /\
  exists J : Z, (0 <= J)%Z /\ Rabs (dirR a - (R_ at_ + 2 * Rtrigo1.PI * IZR J)) <= R_ eps10 + 3 / 100000000000000.
Proof. exact new_of_radians. Qed.
Print Assumptions C02_radians_direction.

(* the general path of Angle::new with the REAL pi: the result points along the computed total modulo whole turns *)
Theorem C02_new_direction : forall p d, fast_path p d = false ->
  fin (total_angle p d) -> Rabs (R_ (total_angle p d)) <= bpow radix2 42 ->
  exists J : Z, (0 <= J)%Z /\
    Rabs (dirR (new p d) - (R_ (total_angle p d) + 2 * Rtrigo1.PI * IZR J))
      <= R_ eps10 + 2 / 100000000000000 + Rabs (R_ (total_angle p d)) / 1000000000000000.
Proof. exact new_dirR. Qed.
Print Assumptions C02_new_direction.

Theorem C02_atan2_premise_inhabited : exists L : libm, atan2_acc L (/ 1125899906842624).
Proof. exists ideal_libm2. destruct ideal2_hyps as (_ & _ & H & _). exact H. Qed.
Print Assumptions C02_atan2_premise_inhabited.

(* the relation to the REAL pi: the computed total fl(fl(p*PI)/d) is the real p*pi/d within 5e-16 relative, and
   Angle::new(p, d) on the general path denotes p*pi/d modulo whole turns (J >= 0 of them: negative angles are
   lifted forward) within 1e-10 + 3e-14 + |t|*2e-15 - for |d| >= 2^-500 *)
Theorem C02_total_real_pi : forall p d, fin (total_angle p d) -> bpow radix2 (-500) <= Rabs (R_ d) ->
  Rabs (R_ (total_angle p d) - R_ p * Rtrigo1.PI / R_ d)
    <= 5 / 10000000000000000 * Rabs (R_ (total_angle p d)) + bpow radix2 (-570).
Proof. exact total_real_pi. Qed.
Print Assumptions C02_total_real_pi.

Theorem C02_new_real_pi : forall p d, fast_path p d = false ->
  fin (total_angle p d) -> Rabs (R_ (total_angle p d)) <= bpow radix2 42 -> bpow radix2 (-500) <= Rabs (R_ d) ->
  exists J : Z, (0 <= J)%Z /\
    Rabs (dirR (new p d) - (R_ p * Rtrigo1.PI / R_ d + 2 * Rtrigo1.PI * IZR J))
      <= R_ eps10 + 3 / 100000000000000 + Rabs (R_ (total_angle p d)) * (2 / 1000000000000000).
Proof. exact new_real_pi. Qed.
Print Assumptions C02_new_real_pi.
