(* C02 - constructors denote exactly the angle and vector they are given.  Pinned theorems only. *)
From Coq Require Import ZArith List Bool Reals Lra.
From Flocq Require Import Core BinarySingleNaN.
Require Import GV.FloatBase GV.FloatLemmas GV.AngleM GV.AngleProofs GV.GeonumM GV.GeonumProofs GV.NewProofs GV.CtorProofs GV.ClosureProofs GV.SumUpper.
Open Scope R_scope.

(* k quarter turns written as Angle::new(k, 2.0): exactly blade k, remainder 0 *)
Theorem C02_fast_path : forall k, (0 <= k < 2 ^ 53)%Z -> new (of_Z k) two = {| rem := zero; blade := k |}.
Proof. exact new_quarter_turns. Qed.
Print Assumptions C02_fast_path.

Theorem C02_dimension : forall m k, (0 <= k < 2 ^ 53)%Z ->
  create_dimension m k = {| mag := m; ang := {| rem := zero; blade := k |} |}.
Proof. exact create_dimension_exact. Qed.
Print Assumptions C02_dimension.

(* an explicit blade offset adds exactly that many quarter turns and leaves the remainder untouched *)
Theorem C02_with_blade : forall n p d, (0 <= n < 2 ^ 53)%Z -> canonp (rem (new p d)) ->
  steps_to (new p d) (new_with_blade n p d) n.
Proof. exact new_with_blade_adds. Qed.
Print Assumptions C02_with_blade.

(* scalar: |v| at angle 0 for v >= 0 (incl. -0.0), at pi (blade 2) for v < 0 *)
Theorem C02_scalar : forall v, fin v ->
  mag (scalar v) = fabs v /\
  ang (scalar v) = if Rle_bool 0 (R_ v) then {| rem := zero; blade := 0 |} else {| rem := zero; blade := 2 |}.
Proof. exact scalar_spec. Qed.
Print Assumptions C02_scalar.

(* general path (repaired defect F2): with t the (lifted) total, the result holds exactly
   k = floor(t / q) quarter turns and the exact remainder t - k q, or the 1e-10 snap fired *)
Theorem C02_decomp_exact : forall nt, fin nt -> 0 < R_ nt <= bpow radix2 43 ->
  exists k : Z, (0 <= k)%Z /\ R_ nt = IZR k * R_ Q + R_ (ffmod nt Q) /\ 0 <= R_ (ffmod nt Q) < R_ Q /\
    ( (blade (from_total nt) = k /\ R_ (rem (from_total nt)) = R_ (ffmod nt Q))
   \/ (blade (from_total nt) = (k + 1)%Z /\ R_ (rem (from_total nt)) = 0 /\
       Rabs (R_ (ffmod nt Q) - R_ Q) <= R_ eps10 + / 4503599627370496) ).
Proof. exact from_total_decomp. Qed.
Print Assumptions C02_decomp_exact.

Theorem C02_new_is_from_total : forall p d,
  new p d = if fast_path p d then {| rem := zero; blade := fast_blade p |}
            else from_total (lift_total (total_angle p d)).
Proof. exact new_unfold. Qed.
Print Assumptions C02_new_is_from_total.

(* consequently theta(new p d) = lifted total within the snap tolerance *)
Theorem C02_new_value : forall nt, fin nt -> 0 < R_ nt <= bpow radix2 43 ->
  Rabs (theta (from_total nt) - R_ nt) <= R_ eps10 + / 4503599627370496.
Proof. exact from_total_value. Qed.
Print Assumptions C02_new_value.

(* negative quarter turns written with divisor 2: a forward rotation of between 3 and 6 blades,
   congruent to d modulo 4 (so fewer than two turns), remainder exactly 0 *)
Theorem C02_fast_path_negative : forall d, (- 2 ^ 50 < d < 0)%Z ->
  new (of_Z d) two = {| rem := zero; blade := d + 4 * ((- d + 6) / 4) |}.
Proof. exact new_neg_quarter_turns. Qed.
Print Assumptions C02_fast_path_negative.

(* Angle::new(p, d) denotes p * PI / d (PI the double): on the general path with a non-negative total
   the library total is within 1e-10 + 2^-52 + 2^-51 |x| + 2^-70 of the real quotient x = p * PI / d *)
Theorem C02_new_value_pd : forall p d, fin p -> fin d -> R_ d <> 0 ->
  Rabs (R_ p * R_ PI) <= bpow radix2 1000 -> Rabs (R_ p * R_ PI / R_ d) <= bpow radix2 998 -> bpow radix2 (-1000) <= Rabs (R_ d) ->
  fast_path p d = false -> 0 < R_ (total_angle p d) <= bpow radix2 43 ->
  Rabs (theta (new p d) - R_ p * R_ PI / R_ d)
    <= R_ eps10 + / 4503599627370496 + / 2251799813685248 * Rabs (R_ p * R_ PI / R_ d) + bpow radix2 (-70).
Proof. exact new_value_pd. Qed.
Print Assumptions C02_new_value_pd.

(* a negative p/d (general path) yields a forward rotation of AT MOST ONE TURN: at most 4 blades, and exactly
   4 only with a remainder below 2^-8 (the rounding of the lift at totals up to 2^42; 0 in exact arithmetic) *)
Theorem C02_negative_at_most_one_turn : forall p d, fast_path p d = false ->
  fin (total_angle p d) -> Rabs (R_ (total_angle p d)) <= bpow radix2 42 -> R_ (total_angle p d) < 0 ->
  (0 <= blade (new p d) <= 4)%Z /\ (blade (new p d) = 4%Z -> R_ (rem (new p d)) <= / 256).
Proof.
intros p d Hf Ft Bt Ng. destruct (new_blade_upper p d Hf Ft Bt ltac:(lra)) as [U V].
destruct (new_canon p d Ft Bt) as [_ B0]. split; [split; assumption|exact V].
Qed.
Print Assumptions C02_negative_at_most_one_turn.

(* the lift of a negative total lands in [0, 2 pi + 2^-8] (4q = the double 2 pi) *)
Theorem C02_lift_range : forall t, fin t -> Rabs (R_ t) <= bpow radix2 42 -> R_ t < 0 ->
  fin (lift_total t) /\ 0 <= R_ (lift_total t) <= 4 * R_ Q + / 256.
Proof.
intros t Ft Bt Ng. destruct (lift_total_nonneg t Ft Bt) as [F P]. split; [exact F|]. split; [exact P|].
now apply lift_total_upper.
Qed.
Print Assumptions C02_lift_range.
