(* C03 - angle addition conserves the quarter-turn count.  Pinned theorems only. *)
From Coq Require Import ZArith Reals Lra.
From Flocq Require Import Core BinarySingleNaN.
Require Import GV.FloatBase GV.FloatLemmas GV.AngleM GV.AngleProofs GV.NewProofs GV.CtorProofs GV.GeonumM GV.GeonumProofs GV.PiBounds GV.TrigProofs GV.DotValue GV.DirProofs.
Open Scope R_scope.

(* all nine spellings (+ x4, * x4, rotate) are the same function *)
Theorem C03_spellings : forall a b,
  add_vv a b = geometric_add a b /\ add_vr a b = geometric_add a b /\
  add_rv a b = geometric_add a b /\ add_rr a b = geometric_add a b /\
  mul_vv a b = geometric_add a b /\ mul_vr a b = geometric_add a b /\
  mul_rv a b = geometric_add a b /\ mul_rr a b = geometric_add a b /\
  rotate a b = geometric_add a b.
Proof. exact add_spellings. Qed.
Print Assumptions C03_spellings.

(* bit-for-bit commutative, for ALL angles (no domain restriction) *)
Theorem C03_add_comm : forall a b, geometric_add a b = geometric_add b a.
Proof. exact geometric_add_comm. Qed.
Print Assumptions C03_add_comm.

(* canonical in, canonical out; blades add exactly with at most one carry *)
Theorem C03_add_canon_carry : forall a b, canonp (rem a) -> canonp (rem b) ->
  canonp (rem (geometric_add a b)) /\
  (blade (geometric_add a b) = blade a + blade b \/ blade (geometric_add a b) = blade a + blade b + 1)%Z.
Proof. exact geometric_add_canon. Qed.
Print Assumptions C03_add_canon_carry.

(* the zero angle is an exact identity *)
Theorem C03_add_zero_r : forall a, Canon a -> aeq (geometric_add a zero_angle) a.
Proof. exact geometric_add_zero_r. Qed.
Print Assumptions C03_add_zero_r.
Theorem C03_add_zero_l : forall a, Canon a -> aeq (geometric_add zero_angle a) a.
Proof. exact geometric_add_zero_l. Qed.
Print Assumptions C03_add_zero_l.

(* the total is the sum of totals, off by at most 1e-10 + 2^-51 *)
Theorem C03_add_total : forall a b, canonp (rem a) -> canonp (rem b) ->
  Rabs (theta (geometric_add a b) - (theta a + theta b)) <= R_ eps10 + / 2251799813685248.
Proof. exact geometric_add_total. Qed.
Print Assumptions C03_add_total.

(* non-vacuity: the hypotheses are met by a concrete non-trivial angle (blade 1, remainder the double
   nearest pi/4); adding it to itself lands on the quarter-turn boundary and carries: blade 1+1+1, remainder 0 *)
Example C03_canon_inhabited :
  let a := {| rem := of_bits 4605249457297304856; blade := 1 |} in
  Canon a /\ (to_bits (rem (geometric_add a a)), blade (geometric_add a a)) = (0%Z, 3%Z).
Proof.
cbv zeta. split; [|vm_compute; reflexivity].
split; [|cbn [blade]; discriminate].
exact quarter_pi_canon.
Qed.

(* associative up to four addition tolerances (each association is within two of the real sum) *)
Theorem C03_add_assoc : forall a b c, canonp (rem a) -> canonp (rem b) -> canonp (rem c) ->
  Rabs (theta (geometric_add (geometric_add a b) c) - theta (geometric_add a (geometric_add b c)))
    <= 4 * (R_ eps10 + / 2251799813685248).
Proof. exact geometric_add_assoc. Qed.
Print Assumptions C03_add_assoc.

(* with the REAL pi: the sum points along dirR a + dirR b (dirR x = blade x * pi/2 + rem x), no wrap *)
Theorem C03_direction : forall a b, canonp (rem a) -> canonp (rem b) ->
  Rabs (dirR (geometric_add a b) - (dirR a + dirR b)) <= R_ eps10 + / 2251799813685248 + 1 / 10000000000000000.
Proof. exact geometric_add_dirR. Qed.
Print Assumptions C03_direction.
