(* C04 - angle subtraction (and division by an angle), forward-only.  Pinned theorems only. *)
From Coq Require Import ZArith Reals Lra.
From Flocq Require Import Core BinarySingleNaN.
Require Import GV.FloatBase GV.FloatLemmas GV.AngleM GV.AngleProofs GV.NewProofs GV.CtorProofs GV.GeonumM GV.PiBounds GV.TrigProofs GV.DotValue.
Open Scope R_scope.

Theorem C04_spellings : forall a b,
  sub_vv a b = geometric_sub a b /\ sub_vr a b = geometric_sub a b /\
  sub_rv a b = geometric_sub a b /\ sub_rr a b = geometric_sub a b /\
  diva_vv a b = geometric_sub a b /\ diva_vr a b = geometric_sub a b /\
  diva_rv a b = geometric_sub a b /\ diva_rr a b = geometric_sub a b.
Proof. exact sub_spellings. Qed.
Print Assumptions C04_spellings.

Theorem C04_divf_spellings : forall a k, divf_v a k = divf_r a k.
Proof. reflexivity. Qed.
Print Assumptions C04_divf_spellings.

(* a - a is exactly the zero angle, for every finite remainder and every blade *)
Theorem C04_sub_self : forall a, fin (rem a) -> geometric_sub a a = {| rem := zero; blade := 0 |}.
Proof. exact geometric_sub_self. Qed.
Print Assumptions C04_sub_self.

(* never a negative angle: canonical remainder, non-negative blade, for ALL canonical operands *)
Theorem C04_sub_canon : forall a b, canonp (rem a) -> canonp (rem b) ->
  canonp (rem (geometric_sub a b)) /\ (0 <= blade (geometric_sub a b))%Z.
Proof. exact geometric_sub_canon. Qed.
Print Assumptions C04_sub_canon.

(* the blade is the blade difference minus a borrow, lifted by whole turns into [0,3] when
   negative, plus at most one boundary carry *)
Theorem C04_sub_blade : forall a b, canonp (rem a) -> canonp (rem b) ->
  exists borrow carry : Z, (0 <= borrow <= 1)%Z /\ (0 <= carry <= 1)%Z /\
    blade (geometric_sub a b) = (lift_blade (blade a - blade b - borrow) + carry)%Z.
Proof. exact geometric_sub_blade. Qed.
Print Assumptions C04_sub_blade.
Theorem C04_lift_range : forall d, (d < 0)%Z -> (0 <= lift_blade d <= 3)%Z /\ (lift_blade d mod 4 = d mod 4)%Z.
Proof. exact lift_blade_nonneg. Qed.
Print Assumptions C04_lift_range.

(* subtracting a smaller total returns the difference of totals within 1e-10 + 3 roundings *)
Theorem C04_sub_total : forall a b, canonp (rem a) -> canonp (rem b) -> (blade b + 1 <= blade a)%Z ->
  Rabs (theta (geometric_sub a b) - (theta a - theta b)) <= R_ eps10 + 3 * / 4503599627370496.
Proof. exact geometric_sub_total. Qed.
Print Assumptions C04_sub_total.

(* (a + b) - b returns a within one addition plus one subtraction tolerance (a carries >= 1 blade) *)
Theorem C04_add_sub : forall a b, canonp (rem a) -> canonp (rem b) -> (1 <= blade a)%Z ->
  Rabs (theta (geometric_sub (geometric_add a b) b) - theta a) <= 2 * R_ eps10 + 5 * / 4503599627370496.
Proof. exact add_sub_roundtrip. Qed.
Print Assumptions C04_add_sub.

(* dividing an angle by a positive number k divides its total by k (a / 1 = a): the result is canonical and
   within 1e-10 + 2^-52 + 2^-69 + 2^-49 * (theta a / k) of theta a / k  (blades < 2^50, 2^-900 <= k <= 2^900,
   theta a / k <= 2^41; the re-encoded total is assumed positive, i.e. the quotient does not underflow to 0) *)
Theorem C04_divf : forall a k, Canon a -> (blade a < 2 ^ 50)%Z -> fin k ->
  bpow radix2 (-900) <= R_ k <= bpow radix2 900 -> theta a / R_ k <= bpow radix2 41 ->
  0 < R_ (total_angle (fdiv (float_total a) k) PI) ->
  Canon (divf_v a k) /\
  Rabs (theta (divf_v a k) - theta a / R_ k)
    <= R_ eps10 + / 4503599627370496 + bpow radix2 (-69) + bpow radix2 (-49) * (theta a / R_ k).
Proof. exact divf_value. Qed.
Print Assumptions C04_divf.

(* for ANY pair of canonical operands (no blade-order premise): the difference denotes theta a - theta b
   up to a non-negative number j of lifted whole turns; and with the REAL pi it points along
   dirR a - dirR b + 2 pi j within 1e-10 + 3*2^-52 + 2e-16 *)
Theorem C04_total_any : forall a b, canonp (rem a) -> canonp (rem b) ->
  exists j : Z, (0 <= j)%Z /\
  Rabs (theta (geometric_sub a b) - (theta a - theta b) - IZR (4 * j) * R_ Q) <= R_ eps10 + 3 * / 4503599627370496.
Proof. exact geometric_sub_total_gen. Qed.
Print Assumptions C04_total_any.

Theorem C04_direction : forall a b, canonp (rem a) -> canonp (rem b) ->
  exists j : Z, (0 <= j)%Z /\
  Rabs (dirR (geometric_sub a b) - (dirR a - dirR b) - 2 * IZR j * Rtrigo1.PI)
    <= R_ eps10 + 3 * / 4503599627370496 + 2 / 10000000000000000.
Proof. exact geometric_sub_dirR. Qed.
Print Assumptions C04_direction.
