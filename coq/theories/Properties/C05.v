(* C05 - products, inverse, division, scaling.  Pinned theorems only. *)
From Coq Require Import ZArith List Bool Reals Lra.
From Flocq Require Import Core BinarySingleNaN.
Require Import GV.FloatBase GV.FloatLemmas GV.AngleM GV.AngleProofs GV.GeonumM GV.GeonumProofs GV.NewProofs GV.CtorProofs GV.PiBounds GV.TrigProofs GV.DotValue GV.DirProofs GV.ProdProofs.
Open Scope R_scope.

Theorem C05_mul : forall a b,
  mag (gmul_vv a b) = fmul (mag a) (mag b) /\ ang (gmul_vv a b) = geometric_add (ang a) (ang b).
Proof. exact gmul_spec. Qed.
Print Assumptions C05_mul.

Theorem C05_mul_spellings : forall a b,
  gmul_rr a b = gmul_vv a b /\ gmul_rv a b = gmul_vv a b /\ gmul_vr a b = gmul_vv a b.
Proof. exact gmul_spellings. Qed.
Print Assumptions C05_mul_spellings.

(* commutative bit for bit, for ALL operands (NaN, infinities, signed zeros included) *)
Theorem C05_mul_comm : forall a b, gmul_vv a b = gmul_vv b a.
Proof. exact gmul_comm. Qed.
Print Assumptions C05_mul_comm.

(* [1, 0] is the identity: magnitude bit-exact, angle numerically equal *)
Theorem C05_mul_one : forall g, fin (mag g) -> Canon (ang g) ->
  mag (gmul_vv g gone) = mag g /\ aeq (ang (gmul_vv g gone)) (ang g).
Proof. exact gmul_one_r. Qed.
Print Assumptions C05_mul_one.

(* the product's angle is canonical, blades add with at most one carry, total within 1e-10 + 2^-51 *)
Theorem C05_mul_angle : forall a b, canonp (rem (ang a)) -> canonp (rem (ang b)) ->
  canonp (rem (ang (gmul_vv a b))) /\
  (blade (ang (gmul_vv a b)) = blade (ang a) + blade (ang b) \/
   blade (ang (gmul_vv a b)) = blade (ang a) + blade (ang b) + 1)%Z /\
  Rabs (theta (ang (gmul_vv a b)) - (theta (ang a) + theta (ang b))) <= R_ eps10 + / 2251799813685248.
Proof.
intros a b Ca Cb. destruct (geometric_add_canon (ang a) (ang b) Ca Cb) as [C B].
split; [exact C|]. split; [exact B|]. exact (geometric_add_total (ang a) (ang b) Ca Cb).
Qed.
Print Assumptions C05_mul_angle.

Theorem C05_scale : forall g f, fin f -> canonp (rem (ang g)) ->
  mag (gscale g f) = fmul (mag g) (fabs f) /\
  steps_to (ang g) (ang (gscale g f)) (if Rle_bool 0 (R_ f) then 0 else 2).
Proof. exact gscale_spec. Qed.
Print Assumptions C05_scale.

Theorem C05_angle_mul : forall a g,
  amulg_v a g = {| mag := mag g; ang := geometric_add a (ang g) |} /\
  amulg_r a g = amulg_v a g /\ aaddg_v a g = amulg_v a g /\ aaddg_r a g = amulg_v a g.
Proof. exact angle_times_geonum. Qed.
Print Assumptions C05_angle_mul.

Theorem C05_inv : forall g,
  (inv g = None <-> feq (mag g) zero = true) /\
  (forall r, inv g = Some r -> mag r = fdiv one (mag g) /\ ang r = negate (ang g)).
Proof. exact inv_spec. Qed.
Print Assumptions C05_inv.

Theorem C05_inv_angle : forall g, canonp (rem (ang g)) -> steps_to (ang g) (negate (ang g)) 2.
Proof. intros g. exact (negate_step (ang g)). Qed.
Print Assumptions C05_inv_angle.

Theorem C05_div_spellings : forall a b,
  gdiv_rr a b = gdiv_vv a b /\ gdiv_rv a b = gdiv_vv a b /\ gdiv_vr a b = gdiv_vv a b /\
  gdiv_method a b = gdiv_vv a b /\ gdiv_vv a b = omap (gmul_vv a) (inv b).
Proof. exact gdiv_spellings. Qed.
Print Assumptions C05_div_spellings.

Theorem C05_normalize : forall g,
  (normalize g = None <-> feq (mag g) zero = true) /\
  (forall r, normalize g = Some r -> mag r = one /\ ang r = ang g).
Proof. exact normalize_spec. Qed.
Print Assumptions C05_normalize.

Theorem C05_pow_mag : forall (L : libm) g n, mag (gpow L g n) = powF L (mag g) n.
Proof. reflexivity. Qed.
Print Assumptions C05_pow_mag.

(* the angle of a power, as the code computes it: the angle product (= blade-exact sum) with Angle::new(n, 1),
   i.e. n half turns are ADDED (the property claims the magnitude only; the rustdoc's n*theta is not what the code does) *)
Theorem C05_pow_angle : forall (L : libm) g n, ang (gpow L g n) = geometric_add (ang g) (new n one).
Proof. reflexivity. Qed.
Print Assumptions C05_pow_angle.

(* associative up to rounding (magnitude: 5*2^-53 relative plus an underflow term) and the boundary
   tolerance (angle totals: four addition tolerances; with the REAL pi, plus 2e-16) *)
Theorem C05_assoc : forall a b c, canonp (rem (ang a)) -> canonp (rem (ang b)) -> canonp (rem (ang c)) ->
  fin (mag (gmul_vv (gmul_vv a b) c)) -> fin (mag (gmul_vv a (gmul_vv b c))) ->
  Rabs (R_ (mag a)) <= bpow radix2 500 -> Rabs (R_ (mag c)) <= bpow radix2 500 ->
  Rabs (R_ (mag (gmul_vv (gmul_vv a b) c)) - R_ (mag (gmul_vv a (gmul_vv b c))))
    <= 5 * / 9007199254740992 * Rabs (R_ (mag a) * R_ (mag b) * R_ (mag c)) + bpow radix2 (-572) /\
  Rabs (theta (ang (gmul_vv (gmul_vv a b) c)) - theta (ang (gmul_vv a (gmul_vv b c))))
    <= 4 * (R_ eps10 + / 2251799813685248) /\
  Rabs (dirR (ang (gmul_vv (gmul_vv a b) c)) - dirR (ang (gmul_vv a (gmul_vv b c))))
    <= 4 * (R_ eps10 + / 2251799813685248) + 2 / 10000000000000000.
Proof. exact gmul_assoc. Qed.
Print Assumptions C05_assoc.

(* the inverse of the inverse: original magnitude within 5*2^-52 relative, original angle plus exactly four
   blades (two half turns), remainder untouched - for magnitudes in [2^-500, 2^500] *)
Theorem C05_inv_inv : forall g, canonp (rem (ang g)) -> fin (mag g) ->
  bpow radix2 (-500) <= R_ (mag g) <= bpow radix2 500 ->
  exists i r, inv g = Some i /\ inv i = Some r /\
    Rabs (R_ (mag r) - R_ (mag g)) <= 5 * / 4503599627370496 * R_ (mag g) /\ steps_to (ang g) (ang r) 4.
Proof. exact inv_inv. Qed.
Print Assumptions C05_inv_inv.
