(* C06 - sum and difference equal the Cartesian sum: structural part.  Pinned theorems only. *)
From Coq Require Import ZArith List Bool Reals Lra.
From Flocq Require Import Core BinarySingleNaN.
Require Import GV.FloatBase GV.FloatLemmas GV.AngleM GV.AngleProofs GV.GeonumM GV.GeonumProofs GV.TraitsM GV.NewProofs GV.CtorProofs GV.PiBounds GV.TrigProofs GV.DotValue GV.DistValue GV.ClosureProofs GV.SumUpper GV.DirProofs GV.SumDir GV.Atan2Ideal GV.SubCart.
Open Scope R_scope.

(* subtraction IS addition of the half-turned operand, in all four spellings; translate IS addition *)
Theorem C06_sub_is_add_neg : forall (L : libm) a b,
  gsub_vv L a b = gadd_vv L a (gnegate b) /\ gsub_rr L a b = gsub_vv L a b /\
  gsub_rv L a b = gsub_vv L a b /\ gsub_vr L a b = gsub_vv L a b.
Proof. exact gsub_def. Qed.
Print Assumptions C06_sub_is_add_neg.
Theorem C06_add_spellings : forall (L : libm) a b,
  gadd_rr L a b = gadd_vv L a b /\ gadd_rv L a b = gadd_vv L a b /\ gadd_vr L a b = gadd_vv L a b.
Proof. exact gadd_spellings. Qed.
Print Assumptions C06_add_spellings.
Theorem C06_translate : forall (L : libm) a b, translate L a b = gadd_vv L a b.
Proof. reflexivity. Qed.
Print Assumptions C06_translate.

(* the three code paths, and: the general path's magnitude is never NaN and never negative,
   for EVERY libm and every input (sqrt(max(radicand, 0))) *)
Theorem C06_paths : forall (L : libm) a b,
  (aeqb (ang a) (ang b) = true -> gadd_vv L a b = {| mag := fadd (mag a) (mag b); ang := ang a |}) /\
  (aeqb (ang a) (ang b) = false ->
   aeqb (add_vv (ang a) (new one one)) (ang b) || aeqb (add_vv (ang b) (new one one)) (ang a) = true ->
   let diff := fsub (mag a) (mag b) in
   gadd_vv L a b =
     if flt (fabs diff) EPSILON then {| mag := zero; ang := new_with_blade (blade (ang a) + blade (ang b)) zero one |}
     else if fgt diff zero then {| mag := diff; ang := ang a |} else {| mag := fneg diff; ang := ang b |}) /\
  (aeqb (ang a) (ang b) = false ->
   aeqb (add_vv (ang a) (new one one)) (ang b) || aeqb (add_vv (ang b) (new one one)) (ang a) = false ->
   nonneg_or_inf (mag (gadd_vv L a b))).
Proof. exact gadd_paths. Qed.
Print Assumptions C06_paths.

Theorem C06_radicand_total : forall x, nonneg_or_inf (fsqrt (fmax x zero)).
Proof. exact sqrt_max_total. Qed.
Print Assumptions C06_radicand_total.

(* S2, REAL pi and cos: on the general path (angles neither equal nor exactly opposite) the magnitude of a + b is
   the Euclidean length of the Cartesian sum, sqrt(|a|^2 + |b|^2 + 2|a||b|cos(dir b - dir a)), up to the square
   root of the radicand error (|a|^2+|b|^2)(u + 1e-14) + 10*2^-1075 plus one rounding, for any libm with
   |cosF - cos| <= u on [-8,8] *)
Theorem C06_mag_value : forall (L : libm) (u : R) a b, cos_acc L u -> u <= / 1000 ->
  canonp (rem (ang a)) -> canonp (rem (ang b)) ->
  aeqb (ang a) (ang b) = false ->
  aeqb (add_vv (ang a) (new one one)) (ang b) || aeqb (add_vv (ang b) (new one one)) (ang a) = false ->
  fin (gadd_rad L a b) ->
  let S := R_ (mag a) * R_ (mag a) + R_ (mag b) * R_ (mag b) in
  let D := S + 2 * R_ (mag a) * R_ (mag b) * cos (dir (ang b) - dir (ang a)) in
  let Bnd := S * (u + 1 / 100000000000000) + 10 * bpow radix2 (-1075) in
  0 <= D /\
  Rabs (R_ (mag (gadd_vv L a b)) - sqrt D)
    <= sqrt Bnd * (1 + / 9007199254740992) + / 9007199254740992 * sqrt D + bpow radix2 (-1075).
Proof. exact gadd_mag_value. Qed.
Print Assumptions C06_mag_value.

(* the explicit premise on libm's atan2 used below: finite, within [-PI, PI] (the double), and within u2 of an
   angle theta whose cosine / sine reproduce the float arguments, (x, y) = r (cos theta, sin theta) *)
Theorem C06_atan2_acc_def : forall (L : libm) (u2 : R), atan2_acc L u2 <->
  (forall y x, fin y -> fin x ->
    fin (atan2F L y x) /\ Rabs (R_ (atan2F L y x)) <= R_ PI /\
    exists theta, Rabs (R_ (atan2F L y x) - theta) <= u2 /\
      R_ x = sqrt (R_ x * R_ x + R_ y * R_ y) * cos theta /\
      R_ y = sqrt (R_ x * R_ x + R_ y * R_ y) * sin theta).
Proof. intros L u2. unfold atan2_acc. tauto. Qed.
Print Assumptions C06_atan2_acc_def.

(* the re-encoding of the general path (no libm involved): new_with_blade n (at - fl(n*PI/2)) PI is canonical,
   carries n .. n+4 blades and, with the REAL pi, points along at up to whole turns within
   1e-10 + 3e-14 + n*4e-15 (the float PI is not pi and the blade shift is rounded: both grow linearly with n) *)
Theorem C06_reencode_direction : forall (at_ : F) n, fin at_ -> Rabs (R_ at_) <= R_ PI -> (0 <= n < 2 ^ 40)%Z ->
  let r := new_with_blade n (fsub at_ (fdiv (fmul (of_Z n) PI) two)) PI in
  canonp (rem r) /\ (n <= blade r <= n + 4)%Z /\
  exists J : Z, (0 <= J)%Z /\
    Rabs (dirR r - (R_ at_ + 2 * Rtrigo1.PI * IZR J))
      <= R_ eps10 + 3 / 100000000000000 + IZR n * (4 / 1000000000000000).
Proof. exact reencode_dirR. Qed.
Print Assumptions C06_reencode_direction.

(* THE CARTESIAN SUM (general path), REAL pi / cos / sin: the polar result [mag, angle] of a + b reproduces
   V = |a|(cos, sin)(dir a) + |b|(cos, sin)(dir b) component by component within T, for any libm whose cos and sin
   are accurate to u on [-8, 8] and whose atan2 satisfies atan2_acc with u2 *)
Theorem C06_cartesian : forall (L : libm) (u u2 : R) a b, cos_acc L u -> sin_acc L u -> atan2_acc L u2 -> u <= / 1000 ->
  canonp (rem (ang a)) -> canonp (rem (ang b)) ->
  aeqb (ang a) (ang b) = false ->
  aeqb (add_vv (ang a) (new one one)) (ang b) || aeqb (add_vv (ang b) (new one one)) (ang a) = false ->
  (0 <= blade (ang a) + blade (ang b) < 2 ^ 40)%Z ->
  fin (gadd_rad L a b) ->
  fin (fadd (fmul (mag a) (sinF L (grade_angle (ang a)))) (fmul (mag b) (sinF L (grade_angle (ang b))))) ->
  fin (fadd (fmul (mag a) (cosF L (grade_angle (ang a)))) (fmul (mag b) (cosF L (grade_angle (ang b))))) ->
  let r := gadd_vv L a b in
  let Vx := R_ (mag a) * cos (dir (ang a)) + R_ (mag b) * cos (dir (ang b)) in
  let Vy := R_ (mag a) * sin (dir (ang a)) + R_ (mag b) * sin (dir (ang b)) in
  let M := Rabs (R_ (mag a)) + Rabs (R_ (mag b)) in
  let E := M * (u + 3 / 1000000000000000) + 4 * bpow radix2 (-1075) in
  let S := R_ (mag a) * R_ (mag a) + R_ (mag b) * R_ (mag b) in
  let Bnd := S * (u + 1 / 100000000000000) + 10 * bpow radix2 (-1075) in
  let tolN := R_ eps10 + 3 / 100000000000000 + IZR (blade (ang a) + blade (ang b)) * (4 / 1000000000000000) in
  let T := sqrt Bnd * (1 + / 9007199254740992) + / 9007199254740992 * sqrt (Vx * Vx + Vy * Vy) + bpow radix2 (-1075)
           + 3 * E + (M + 2 * E) * (u2 + tolN) in
  Rabs (R_ (mag r) * cos (dirR (ang r)) - Vx) <= T /\ Rabs (R_ (mag r) * sin (dirR (ang r)) - Vy) <= T.
Proof. exact gadd_cartesian. Qed.
Print Assumptions C06_cartesian.

(* the libm premises of C06_cartesian are JOINTLY satisfiable: the correctly rounded real cos / sin and a rounded,
   clamped real angle function meet them with u = 2^-52 and u2 = 2^-50 *)
Theorem C06_premises_inhabited : exists L : libm,
  cos_acc L (/ 4503599627370496) /\ sin_acc L (/ 4503599627370496) /\
  atan2_acc L (/ 1125899906842624) /\ / 4503599627370496 <= / 1000.
Proof. exists ideal_libm2. exact ideal2_hyps. Qed.
Print Assumptions C06_premises_inhabited.

(* THE CARTESIAN DIFFERENCE: a - b = a + (-b) reproduces |a|(cos,sin)(dir a) - |b|(cos,sin)(dir b) component by
   component within the same tolerance T, on the general path of the underlying addition *)
Theorem C06_cartesian_sub : forall (L : libm) (u u2 : R) a b, cos_acc L u -> sin_acc L u -> atan2_acc L u2 -> u <= / 1000 ->
  canonp (rem (ang a)) -> canonp (rem (ang b)) -> (0 <= blade (ang b))%Z ->
  let nb := gnegate b in
  aeqb (ang a) (ang nb) = false ->
  aeqb (add_vv (ang a) (new one one)) (ang nb) || aeqb (add_vv (ang nb) (new one one)) (ang a) = false ->
  (0 <= blade (ang a) + blade (ang nb) < 2 ^ 40)%Z ->
  fin (gadd_rad L a nb) ->
  fin (fadd (fmul (mag a) (sinF L (grade_angle (ang a)))) (fmul (mag nb) (sinF L (grade_angle (ang nb))))) ->
  fin (fadd (fmul (mag a) (cosF L (grade_angle (ang a)))) (fmul (mag nb) (cosF L (grade_angle (ang nb))))) ->
  let r := gsub_vv L a b in
  let Wx := R_ (mag a) * cos (dir (ang a)) - R_ (mag b) * cos (dir (ang b)) in
  let Wy := R_ (mag a) * sin (dir (ang a)) - R_ (mag b) * sin (dir (ang b)) in
  let M := Rabs (R_ (mag a)) + Rabs (R_ (mag b)) in
  let E := M * (u + 3 / 1000000000000000) + 4 * bpow radix2 (-1075) in
  let S := R_ (mag a) * R_ (mag a) + R_ (mag b) * R_ (mag b) in
  let Bnd := S * (u + 1 / 100000000000000) + 10 * bpow radix2 (-1075) in
  let tolN := R_ eps10 + 3 / 100000000000000 + IZR (blade (ang a) + blade (ang nb)) * (4 / 1000000000000000) in
  let T := sqrt Bnd * (1 + / 9007199254740992) + / 9007199254740992 * sqrt (Wx * Wx + Wy * Wy) + bpow radix2 (-1075)
           + 3 * E + (M + 2 * E) * (u2 + tolN) in
  Rabs (R_ (mag r) * cos (dirR (ang r)) - Wx) <= T /\ Rabs (R_ (mag r) * sin (dirR (ang r)) - Wy) <= T.
Proof. exact gsub_cartesian. Qed.
Print Assumptions C06_cartesian_sub.
