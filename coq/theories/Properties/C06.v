(* C06 - sum and difference equal the Cartesian sum: structural part.  Pinned theorems only. *)
From Coq Require Import ZArith List Bool Reals Lra.
From Flocq Require Import Core BinarySingleNaN.
Require Import GV.FloatBase GV.FloatLemmas GV.AngleM GV.AngleProofs GV.GeonumM GV.GeonumProofs GV.TraitsM GV.NewProofs GV.CtorProofs GV.PiBounds GV.TrigProofs GV.DotValue GV.DistValue.
Open Scope R_scope.

(* subtraction IS addition of the half-turned operand, in all four spellings; translate IS addition *)
Theorem C06_sub_is_add_neg : forall (L : libm) a b,
  gsub_vv L a b = gadd_vv L a (gnegate b) /\ gsub_rr L a b = gsub_vv L a b /\
  gsub_rv L a b = gsub_vv L a b /\ gsub_vr L a b = gsub_vv L a b.
Proof. exact gsub_def. Qed.
Print Assumptions C06_sub_is_add_neg.
Theorem C06_add_spellings : forall (L : libm) a b,
  gadd_rr L a b = gadd_vv L a b /\ gadd_rv L a b = gadd_vv L a b /\ gadd_vr L a b = gadd_vv L a b.
Proof. exact gadd_spellings. Qed.
Print Assumptions C06_add_spellings.
Theorem C06_translate : forall (L : libm) a b, translate L a b = gadd_vv L a b.
Proof. reflexivity. Qed.
Print Assumptions C06_translate.

(* the three code paths, and: the general path's magnitude is never NaN and never negative,
   for EVERY libm and every input (sqrt(max(radicand, 0))) *)
Theorem C06_paths : forall (L : libm) a b,
  (aeqb (ang a) (ang b) = true -> gadd_vv L a b = {| mag := fadd (mag a) (mag b); ang := ang a |}) /\
  (aeqb (ang a) (ang b) = false ->
   aeqb (add_vv (ang a) (new one one)) (ang b) || aeqb (add_vv (ang b) (new one one)) (ang a) = true ->
   let diff := fsub (mag a) (mag b) in
   gadd_vv L a b =
     if flt (fabs diff) EPSILON then {| mag := zero; ang := new_with_blade (blade (ang a) + blade (ang b)) zero one |}
     else if fgt diff zero then {| mag := diff; ang := ang a |} else {| mag := fneg diff; ang := ang b |}) /\
  (aeqb (ang a) (ang b) = false ->
   aeqb (add_vv (ang a) (new one one)) (ang b) || aeqb (add_vv (ang b) (new one one)) (ang a) = false ->
   nonneg_or_inf (mag (gadd_vv L a b))).
Proof. exact gadd_paths. Qed.
Print Assumptions C06_paths.

Theorem C06_radicand_total : forall x, nonneg_or_inf (fsqrt (fmax x zero)).
Proof. exact sqrt_max_total. Qed.
Print Assumptions C06_radicand_total.

(* S2, REAL pi and cos: on the general path (angles neither equal nor exactly opposite) the magnitude of a + b is
   the Euclidean length of the Cartesian sum, sqrt(|a|^2 + |b|^2 + 2|a||b|cos(dir b - dir a)), up to the square
   root of the radicand error (|a|^2+|b|^2)(u + 1e-14) + 10*2^-1075 plus one rounding, for any libm with
   |cosF - cos| <= u on [-8,8] *)
Theorem C06_mag_value : forall (L : libm) (u : R) a b, cos_acc L u -> u <= / 1000 ->
  canonp (rem (ang a)) -> canonp (rem (ang b)) ->
  aeqb (ang a) (ang b) = false ->
  aeqb (add_vv (ang a) (new one one)) (ang b) || aeqb (add_vv (ang b) (new one one)) (ang a) = false ->
  fin (gadd_rad L a b) ->
  let S := R_ (mag a) * R_ (mag a) + R_ (mag b) * R_ (mag b) in
  let D := S + 2 * R_ (mag a) * R_ (mag b) * cos (dir (ang b) - dir (ang a)) in
  let Bnd := S * (u + 1 / 100000000000000) + 10 * bpow radix2 (-1075) in
  0 <= D /\
  Rabs (R_ (mag (gadd_vv L a b)) - sqrt D)
    <= sqrt Bnd * (1 + / 9007199254740992) + / 9007199254740992 * sqrt D + bpow radix2 (-1075).
Proof. exact gadd_mag_value. Qed.
Print Assumptions C06_mag_value.
