(* C07 - blade-step operators are exact; histories accumulate exactly.  Pinned theorems only. *)
From Coq Require Import ZArith List Bool Reals Lra.
From Flocq Require Import Core BinarySingleNaN.
Require Import GV.FloatBase GV.FloatLemmas GV.AngleM GV.AngleProofs GV.GeonumM GV.GeonumProofs GV.NewProofs GV.CtorProofs GV.PiBounds GV.TrigProofs GV.DotValue GV.DirProofs.
Open Scope R_scope.

(* steps_to a a' k : blade a' = blade a + k, remainder numerically unchanged and finite *)
Theorem C07_angle_steps : forall a, canonp (rem a) ->
  steps_to a (dual a) 2 /\ steps_to a (undual a) 2 /\ steps_to a (negate a) 2 /\ steps_to a (conjugate a) 2.
Proof. intros a C. repeat split; try apply (dual_step a C); try apply (negate_step a C); apply (conjugate_step a C). Qed.
Print Assumptions C07_angle_steps.

Theorem C07_geonum_steps : forall g, canonp (rem (ang g)) ->
  (mag (gdual g) = mag g /\ steps_to (ang g) (ang (gdual g)) 2) /\
  (mag (gundual g) = mag g /\ steps_to (ang g) (ang (gundual g)) 2) /\
  (mag (gnegate g) = mag g /\ steps_to (ang g) (ang (gnegate g)) 2) /\
  (mag (differentiate g) = mag g /\ steps_to (ang g) (ang (differentiate g)) 1) /\
  (mag (increment_blade g) = mag g /\ steps_to (ang g) (ang (increment_blade g)) 1) /\
  (mag (integrate g) = mag g /\ steps_to (ang g) (ang (integrate g)) 3) /\
  (mag (decrement_blade g) = mag g /\ steps_to (ang g) (ang (decrement_blade g)) 3).
Proof. exact gstep_specs. Qed.
Print Assumptions C07_geonum_steps.

Theorem C07_base_angle : forall a,
  blade (base_angle a) = (blade a mod 4)%Z /\ rem (base_angle a) = rem a /\
  grade a = (blade a mod 4)%Z /\ (0 <= grade a < 4)%Z.
Proof. intros a. repeat split; try reflexivity; apply grade_range. Qed.
Print Assumptions C07_base_angle.

(* opposite exactly when the blade counts differ by two and the remainders match (|gap| <_F 1e-15) *)
Theorem C07_is_opposite : forall a b,
  is_opposite a b = true <->
  (Z.abs (blade a - blade b) = 2)%Z /\ flt (fabs (fsub (rem a) (rem b))) eps15 = true.
Proof.
intros a b. unfold is_opposite. rewrite andb_true_iff, Z.eqb_eq. reflexivity.
Qed.
Print Assumptions C07_is_opposite.

(* histories: any sequence of step operators accumulates exactly the sum of the per-step rules *)
Theorem C07_history : forall (ops : list (angle -> angle)) (ks : list Z) a,
  Forall2 (fun f k => forall x, canonp (rem x) -> steps_to x (f x) k) ops ks ->
  canonp (rem a) ->
  steps_to a (fold_left (fun x f => f x) ops a) (fold_left Z.add ks 0%Z).
Proof. exact steps_history. Qed.
Print Assumptions C07_history.

(* four derivatives / two duals / derivative-then-integral: same remainder, exactly four more blades *)
Theorem C07_four_more : forall g, canonp (rem (ang g)) ->
  steps_to (ang g) (ang (differentiate (differentiate (differentiate (differentiate g))))) 4 /\
  steps_to (ang g) (ang (gdual (gdual g))) 4 /\
  steps_to (ang g) (ang (integrate (differentiate g))) 4.
Proof. exact four_more. Qed.
Print Assumptions C07_four_more.

(* copy_blade: the other's exact blade when that is not smaller; otherwise congruent modulo 4 and
   3..6 above the current blade; remainder and magnitude untouched (blades below 2^50) *)
Theorem C07_copy_blade : forall g other, canonp (rem (ang g)) ->
  (0 <= blade (ang g) < 2 ^ 50)%Z -> (0 <= blade (ang other) < 2 ^ 50)%Z ->
  mag (copy_blade g other) = mag g /\
  R_ (rem (ang (copy_blade g other))) = R_ (rem (ang g)) /\
  ((blade (ang g) <= blade (ang other))%Z -> blade (ang (copy_blade g other)) = blade (ang other)) /\
  ((blade (ang other) < blade (ang g))%Z ->
     (blade (ang g) + 3 <= blade (ang (copy_blade g other)) <= blade (ang g) + 6)%Z /\
     (blade (ang (copy_blade g other)) mod 4 = blade (ang other) mod 4)%Z).
Proof. exact copy_blade_spec. Qed.
Print Assumptions C07_copy_blade.

(* the grade angle of a canonical angle is finite and lies in [0, 4q), q the double nearest pi/2 *)
Theorem C07_grade_angle_range : forall a, canonp (rem a) ->
  fin (grade_angle a) /\ 0 <= R_ (grade_angle a) < 4 * R_ Q.
Proof. exact grade_angle_range. Qed.
Print Assumptions C07_grade_angle_range.

(* with the REAL pi: a k-step operator turns the direction by EXACTLY k quarter turns (no error term) *)
Theorem C07_direction : forall a a' k, steps_to a a' k -> dirR a' = dirR a + IZR k * (Rtrigo1.PI / 2).
Proof. exact steps_dirR. Qed.
Print Assumptions C07_direction.

Theorem C07_half_turns : forall a, canonp (rem a) ->
  dirR (dual a) = dirR a + Rtrigo1.PI /\ dirR (undual a) = dirR a + Rtrigo1.PI /\
  dirR (negate a) = dirR a + Rtrigo1.PI /\ dirR (conjugate a) = dirR a + Rtrigo1.PI /\
  cos (dirR (dual a)) = - cos (dirR a) /\ sin (dirR (dual a)) = - sin (dirR a).
Proof.
intros a C. split; [exact (dual_dirR a C)|]. split; [exact (undual_dirR a C)|].
split; [exact (negate_dirR a C)|]. split; [exact (conjugate_dirR a C)|]. exact (dual_cos_sin a C).
Qed.
Print Assumptions C07_half_turns.
