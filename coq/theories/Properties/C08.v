(* C08 - dimension freedom: measurements depend on blade counts only modulo 4.  Pinned theorems only. *)
From Coq Require Import ZArith List Bool Reals Lra.
From Flocq Require Import Core BinarySingleNaN.
Require Import GV.FloatBase GV.FloatLemmas GV.AngleM GV.AngleProofs GV.GeonumM GV.GeonumProofs GV.CollM GV.ShiftProofs GV.ShiftResults GV.NewProofs GV.CtorProofs GV.ClosureProofs GV.SumUpper GV.PiBounds GV.TrigProofs GV.DotValue GV.DistValue GV.DirProofs GV.SumDir GV.ShiftSum.
Open Scope Z_scope.

(* shift4 n a = the same remainder with 4n more blades (n may be negative) *)
Theorem C08_sub_shift : forall a b a' b',
  rem a' = rem a -> rem b' = rem b -> (blade a' - blade b') mod 4 = (blade a - blade b) mod 4 ->
  rem (geometric_sub a' b') = rem (geometric_sub a b) /\ grade (geometric_sub a' b') = grade (geometric_sub a b).
Proof. exact geometric_sub_shift. Qed.
Print Assumptions C08_sub_shift.

(* for EVERY libm and ALL operands and ALL shifts n, m: bit-identical measurements *)
Theorem C08_measurements : forall (L : libm) a b n m,
  dot L (gshift4 m a) (gshift4 n b) = dot L a b /\
  mag (wedge L (gshift4 m a) (gshift4 n b)) = mag (wedge L a b) /\
  distance_to L (gshift4 m a) (gshift4 n b) = distance_to L a b /\
  is_orthogonal L (gshift4 m a) (gshift4 n b) = is_orthogonal L a b /\
  aproject L (shift4 m (ang a)) (shift4 n (ang b)) = aproject L (ang a) (ang b) /\
  mag (gproject L (gshift4 m a) (gshift4 n b)) = mag (gproject L a b) /\
  project_to_angle L (gshift4 m a) (shift4 n (ang b)) = project_to_angle L a (ang b).
Proof. exact measurements_shift. Qed.
Print Assumptions C08_measurements.

Theorem C08_cone : forall (L : libm) d h g n m, cone_pred L (gshift4 n d) h (gshift4 m g) = cone_pred L d h g.
Proof. exact cone_pred_shift. Qed.
Print Assumptions C08_cone.

Theorem C08_trig : forall (L : libm) a n, gcos L (shift4 n a) = gcos L a /\ gsin L (shift4 n a) = gsin L a.
Proof. exact trig_shift. Qed.
Print Assumptions C08_trig.

(* result angles shift by exactly the predictable blade amount, remainder bit-identical *)
Theorem C08_result_blades : forall a b n m,
  rem (geometric_add (shift4 n a) (shift4 m b)) = rem (geometric_add a b) /\
  blade (geometric_add (shift4 n a) (shift4 m b)) = blade (geometric_add a b) + 4 * (n + m).
Proof. exact add_shift. Qed.
Print Assumptions C08_result_blades.

(* RESULT values under whole-turn shifts of the operands, for EVERY libm, ALL operands and ALL shifts: the product, the
   wedge and the meet of shifted operands ARE the shifted product / wedge / meet - magnitude and remainder bit-identical,
   blade count moved by exactly 4(m+n); a dual or a rotation commutes with the shift *)
Theorem C08_result_values : forall (L : libm) a b n m,
  gmul_vv (gshift4 m a) (gshift4 n b) = gshift4 (m + n) (gmul_vv a b) /\
  wedge L (gshift4 m a) (gshift4 n b) = gshift4 (m + n) (wedge L a b) /\
  meet L (gshift4 m a) (gshift4 n b) = gshift4 (m + n) (meet L a b) /\
  gdual (gshift4 m a) = gshift4 m (gdual a) /\
  grotate (gshift4 m a) (shift4 n (ang b)) = gshift4 (m + n) (grotate a (ang b)).
Proof.
intros L a b n m. split; [apply gmul_shift|]. split; [apply wedge_shift|]. split; [apply meet_shift|].
split; [apply gdual_shift|apply grotate_shift].
Qed.
Print Assumptions C08_result_values.

(* projection onto a non-negligible axis follows the shift of the AXIS only (the projected operand's own history is dropped,
   as documented), bit-identical magnitude and remainder *)
Theorem C08_project_result : forall (L : libm) a b n m, flt (fabs (mag b)) EPSILON = false ->
  gproject L (gshift4 m a) (gshift4 n b) = gshift4 n (gproject L a b).
Proof. exact gproject_shift. Qed.
Print Assumptions C08_project_result.

Theorem C08_shift_def : forall n a g, shift4 n a = {| rem := rem a; blade := blade a + 4 * n |} /\
  gshift4 n g = {| mag := mag g; ang := shift4 n (ang g) |}.
Proof. intros; split; reflexivity. Qed.
Print Assumptions C08_shift_def.

(* SUMS under whole-turn shifts (REAL pi, cos, sin): the direction of an angle ignores whole turns EXACTLY, and the sum of
   shifted operands (general path) reproduces the Cartesian sum V of the UNSHIFTED operands component by component, within
   the tolerance T of C06_cartesian evaluated at the shifted blade sum (the only place where the shift enters: the
   re-encoding allowance grows by 4e-15 per blade) *)
Theorem C08_direction_shift : forall n a, dir (shift4 n a) = dir a.
Proof. exact dir_shift. Qed.
Print Assumptions C08_direction_shift.

Theorem C08_sum_cartesian : forall (L : libm) (u u2 : R) a b m n, cos_acc L u -> sin_acc L u -> atan2_acc L u2 -> (u <= / 1000)%R ->
  let a' := gshift4 m a in let b' := gshift4 n b in
  canonp (rem (ang a)) -> canonp (rem (ang b)) ->
  aeqb (ang a') (ang b') = false ->
  aeqb (add_vv (ang a') (new one one)) (ang b') || aeqb (add_vv (ang b') (new one one)) (ang a') = false ->
  (0 <= blade (ang a') + blade (ang b') < 2 ^ 40)%Z ->
  fin (gadd_rad L a' b') ->
  fin (fadd (fmul (mag a') (sinF L (grade_angle (ang a')))) (fmul (mag b') (sinF L (grade_angle (ang b'))))) ->
  fin (fadd (fmul (mag a') (cosF L (grade_angle (ang a')))) (fmul (mag b') (cosF L (grade_angle (ang b'))))) ->
  let r := gadd_vv L a' b' in
  (let Vx := R_ (mag a) * cos (dir (ang a)) + R_ (mag b) * cos (dir (ang b)) in
  let Vy := R_ (mag a) * sin (dir (ang a)) + R_ (mag b) * sin (dir (ang b)) in
  let M := Rabs (R_ (mag a)) + Rabs (R_ (mag b)) in
  let E := M * (u + 3 / 1000000000000000) + 4 * bpow radix2 (-1075) in
  let S := R_ (mag a) * R_ (mag a) + R_ (mag b) * R_ (mag b) in
  let Bnd := S * (u + 1 / 100000000000000) + 10 * bpow radix2 (-1075) in
  let tolN := R_ eps10 + 3 / 100000000000000 + IZR (blade (ang a') + blade (ang b')) * (4 / 1000000000000000) in
  let T := sqrt Bnd * (1 + / 9007199254740992) + / 9007199254740992 * sqrt (Vx * Vx + Vy * Vy) + bpow radix2 (-1075)
           + 3 * E + (M + 2 * E) * (u2 + tolN) in
  Rabs (R_ (mag r) * cos (dirR (ang r)) - Vx) <= T /\ Rabs (R_ (mag r) * sin (dirR (ang r)) - Vy) <= T)%R.
Proof. exact sum_shift_cartesian. Qed.
Print Assumptions C08_sum_cartesian.
