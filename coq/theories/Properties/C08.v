(* C08 - dimension freedom: measurements depend on blade counts only modulo 4.  Pinned theorems only. *)
From Coq Require Import ZArith List Bool Reals Lra.
From Flocq Require Import Core BinarySingleNaN.
Require Import GV.FloatBase GV.FloatLemmas GV.AngleM GV.AngleProofs GV.GeonumM GV.GeonumProofs GV.CollM GV.ShiftProofs GV.ShiftResults.
Open Scope Z_scope.

(* shift4 n a = the same remainder with 4n more blades (n may be negative) *)
Theorem C08_sub_shift : forall a b a' b',
  rem a' = rem a -> rem b' = rem b -> (blade a' - blade b') mod 4 = (blade a - blade b) mod 4 ->
  rem (geometric_sub a' b') = rem (geometric_sub a b) /\ grade (geometric_sub a' b') = grade (geometric_sub a b).
Proof. exact geometric_sub_shift. Qed.
Print Assumptions C08_sub_shift.

(* for EVERY libm and ALL operands and ALL shifts n, m: bit-identical measurements *)
Theorem C08_measurements : forall (L : libm) a b n m,
  dot L (gshift4 m a) (gshift4 n b) = dot L a b /\
  mag (wedge L (gshift4 m a) (gshift4 n b)) = mag (wedge L a b) /\
  distance_to L (gshift4 m a) (gshift4 n b) = distance_to L a b /\
  is_orthogonal L (gshift4 m a) (gshift4 n b) = is_orthogonal L a b /\
  aproject L (shift4 m (ang a)) (shift4 n (ang b)) = aproject L (ang a) (ang b) /\
  mag (gproject L (gshift4 m a) (gshift4 n b)) = mag (gproject L a b) /\
  project_to_angle L (gshift4 m a) (shift4 n (ang b)) = project_to_angle L a (ang b).
Proof. exact measurements_shift. Qed.
Print Assumptions C08_measurements.

Theorem C08_cone : forall (L : libm) d h g n m, cone_pred L (gshift4 n d) h (gshift4 m g) = cone_pred L d h g.
Proof. exact cone_pred_shift. Qed.
Print Assumptions C08_cone.

Theorem C08_trig : forall (L : libm) a n, gcos L (shift4 n a) = gcos L a /\ gsin L (shift4 n a) = gsin L a.
Proof. exact trig_shift. Qed.
Print Assumptions C08_trig.

(* result angles shift by exactly the predictable blade amount, remainder bit-identical *)
Theorem C08_result_blades : forall a b n m,
  rem (geometric_add (shift4 n a) (shift4 m b)) = rem (geometric_add a b) /\
  blade (geometric_add (shift4 n a) (shift4 m b)) = blade (geometric_add a b) + 4 * (n + m).
Proof. exact add_shift. Qed.
Print Assumptions C08_result_blades.

(* RESULT values under whole-turn shifts of the operands, for EVERY libm, ALL operands and ALL shifts: the product, the
   wedge and the meet of shifted operands ARE the shifted product / wedge / meet - magnitude and remainder bit-identical,
   blade count moved by exactly 4(m+n); a dual or a rotation commutes with the shift *)
Theorem C08_result_values : forall (L : libm) a b n m,
  gmul_vv (gshift4 m a) (gshift4 n b) = gshift4 (m + n) (gmul_vv a b) /\
  wedge L (gshift4 m a) (gshift4 n b) = gshift4 (m + n) (wedge L a b) /\
  meet L (gshift4 m a) (gshift4 n b) = gshift4 (m + n) (meet L a b) /\
  gdual (gshift4 m a) = gshift4 m (gdual a) /\
  grotate (gshift4 m a) (shift4 n (ang b)) = gshift4 (m + n) (grotate a (ang b)).
Proof.
intros L a b n m. split; [apply gmul_shift|]. split; [apply wedge_shift|]. split; [apply meet_shift|].
split; [apply gdual_shift|apply grotate_shift].
Qed.
Print Assumptions C08_result_values.

(* projection onto a non-negligible axis follows the shift of the AXIS only (the projected operand's own history is dropped,
   as documented), bit-identical magnitude and remainder *)
Theorem C08_project_result : forall (L : libm) a b n m, flt (fabs (mag b)) EPSILON = false ->
  gproject L (gshift4 m a) (gshift4 n b) = gshift4 n (gproject L a b).
Proof. exact gproject_shift. Qed.
Print Assumptions C08_project_result.

Theorem C08_shift_def : forall n a g, shift4 n a = {| rem := rem a; blade := blade a + 4 * n |} /\
  gshift4 n g = {| mag := mag g; ang := shift4 n (ang g) |}.
Proof. intros; split; reflexivity. Qed.
Print Assumptions C08_shift_def.
