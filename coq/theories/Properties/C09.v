(* C09 - dot product: sign carried by the angle.  Pinned theorems only. *)
From Coq Require Import ZArith List Bool Reals Lra.
From Flocq Require Import Core BinarySingleNaN.
Require Import GV.FloatBase GV.FloatLemmas GV.AngleM GV.AngleProofs GV.GeonumM GV.GeonumProofs GV.TraitsM GV.NewProofs GV.CtorProofs GV.ClosureProofs GV.TraitsProofs GV.BoundProofs GV.PiBounds GV.TrigProofs GV.DotValue GV.DistValue GV.DirProofs GV.SymProofs.
Open Scope R_scope.

(* for EVERY libm: |value| at blade 0 (value >= 0) or blade 2 (value < 0), remainder exactly 0 *)
Theorem C09_encoding : forall (L : libm) a b, fin (dot_value L a b) ->
  dot L a b = {| mag := fabs (dot_value L a b);
                 ang := {| rem := zero; blade := if Rlt_bool (R_ (dot_value L a b)) 0 then 2 else 0 |} |}.
Proof. exact dot_encoding. Qed.
Print Assumptions C09_encoding.

Theorem C09_value_def : forall (L : libm) a b,
  dot_value L a b = fmul (fmul (mag a) (mag b)) (cosF L (grade_angle (geometric_sub (ang b) (ang a)))).
Proof. reflexivity. Qed.
Print Assumptions C09_value_def.

Theorem C09_orthogonal : forall (L : libm) a b, is_orthogonal L a b = flt (fabs (mag (dot L a b))) EPSILON.
Proof. exact is_orthogonal_spec. Qed.
Print Assumptions C09_orthogonal.

(* the angle difference fed to cos is canonical for canonical operands (never negative) *)
Theorem C09_diff_canon : forall a b, canonp (rem (ang a)) -> canonp (rem (ang b)) ->
  canonp (rem (geometric_sub (ang b) (ang a))) /\ (0 <= blade (geometric_sub (ang b) (ang a)))%Z.
Proof. intros a b Ca Cb. exact (geometric_sub_canon (ang b) (ang a) Cb Ca). Qed.
Print Assumptions C09_diff_canon.

(* a . a is |a|^2 at angle exactly 0 - under the single libm hypothesis cos(+0.0) = 1.0 *)
Theorem C09_self : forall (L : libm) a, cos_zero_one L -> fin (rem (ang a)) -> fin (fmul (mag a) (mag a)) ->
  dot L a a = {| mag := fmul (mag a) (mag a); ang := {| rem := zero; blade := 0 |} |}.
Proof. exact dot_self. Qed.
Print Assumptions C09_self.

(* bounded by |a||b|: under the range hypothesis |cos| <= 1 (finite) the dot magnitude never exceeds fl(|a||b|) *)
Theorem C09_bound : forall (L : libm) a b, cos_range L -> fin (fmul (mag a) (mag b)) ->
  Rabs (R_ (fmul (mag a) (mag b))) <= bpow radix2 1000 ->
  fin (dot_value L a b) /\ R_ (mag (dot L a b)) <= Rabs (R_ (fmul (mag a) (mag b))).
Proof. exact dot_bound. Qed.
Print Assumptions C09_bound.

(* the cosine fed into the dot value is the cosine of the REAL direction difference (real pi), for any
   libm accurate to u on [-8,8]: error at most u + 1.0001e-10 (1e-10 is the quarter-turn snap) *)
Theorem C09_cos_value : forall (L : libm) (u : R) a b, cos_acc L u ->
  canonp (rem a) -> canonp (rem b) -> (0 <= blade a)%Z -> (0 <= blade b)%Z ->
  let c := cosF L (grade_angle (geometric_sub b a)) in
  fin c /\ Rabs (R_ c - cos (dir b - dir a)) <= u + 10001 / 100000000000000.
Proof. exact dot_cos_value. Qed.
Print Assumptions C09_cos_value.

(* the dot value is |a||b|cos(direction difference) within |a||b|(u + 1.0002e-10) + 2^-1073 *)
Theorem C09_value : forall (L : libm) (u : R) a b, cos_acc L u -> u <= / 1000 ->
  canonp (rem (ang a)) -> canonp (rem (ang b)) -> (0 <= blade (ang a))%Z -> (0 <= blade (ang b))%Z ->
  fin (dot_value L a b) ->
  Rabs (R_ (dot_value L a b) - R_ (mag a) * R_ (mag b) * cos (dir (ang b) - dir (ang a)))
    <= Rabs (R_ (mag a) * R_ (mag b)) * (u + 10002 / 100000000000000) + bpow radix2 (-1073).
Proof. exact dot_value_real. Qed.
Print Assumptions C09_value.

(* a pair reported orthogonal really has |a||b||cos| below the 1e-10 threshold plus that error *)
Theorem C09_orthogonal_value : forall (L : libm) (u : R) a b, cos_acc L u -> u <= / 1000 ->
  canonp (rem (ang a)) -> canonp (rem (ang b)) -> (0 <= blade (ang a))%Z -> (0 <= blade (ang b))%Z ->
  fin (dot_value L a b) -> is_orthogonal L a b = true ->
  Rabs (R_ (mag a) * R_ (mag b) * cos (dir (ang b) - dir (ang a)))
    < R_ EPSILON + Rabs (R_ (mag a) * R_ (mag b)) * (u + 10002 / 100000000000000) + bpow radix2 (-1073).
Proof. exact orthogonal_value. Qed.
Print Assumptions C09_orthogonal_value.

(* the accuracy hypotheses are satisfiable (u = 2^-52 by the correctly rounded real cos / sin) *)
Theorem C09_value_hyps_inhabited : cos_acc ideal_libm (/ 4503599627370496) /\ sin_acc ideal_libm (/ 4503599627370496) /\ / 4503599627370496 <= / 1000.
Proof. exact dot_hyps_inhabited. Qed.
Print Assumptions C09_value_hyps_inhabited.

(* symmetry: a.b and b.a (computed from two different angle differences) agree within twice the value tolerance *)
Theorem C09_symmetry : forall (L : libm) (u : R) a b, cos_acc L u -> u <= / 1000 ->
  canonp (rem (ang a)) -> canonp (rem (ang b)) -> (0 <= blade (ang a))%Z -> (0 <= blade (ang b))%Z ->
  fin (dot_value L a b) -> fin (dot_value L b a) ->
  Rabs (R_ (dot_value L a b) - R_ (dot_value L b a))
    <= 2 * (Rabs (R_ (mag a) * R_ (mag b)) * (u + 10002 / 100000000000000) + bpow radix2 (-1073)).
Proof. exact dot_symmetry. Qed.
Print Assumptions C09_symmetry.
