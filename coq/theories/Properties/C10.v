(* C10 - wedge, geometric product, meet.  Pinned theorems only. *)
From Coq Require Import ZArith List Bool Reals Lra.
From Flocq Require Import Core BinarySingleNaN.
Require Import GV.FloatBase GV.FloatLemmas GV.AngleM GV.AngleProofs GV.GeonumM GV.GeonumProofs GV.TraitsM GV.NewProofs GV.CtorProofs GV.ClosureProofs GV.PiBounds GV.TrigProofs GV.DotValue GV.DistValue GV.DirProofs GV.SymProofs GV.SwapProofs GV.CommProofs.
Open Scope R_scope.

Theorem C10_wedge : forall (L : libm) a b,
  let sv := sinF L (grade_angle (sub_vv (ang b) (ang a))) in
  mag (wedge L a b) = fmul (fmul (mag a) (mag b)) (fabs sv) /\
  ang (wedge L a b) =
    let a0 := add_vv (add_vv (ang a) (ang b)) (new one two) in
    if flt sv zero then add_vv a0 (new one one) else a0.
Proof. exact wedge_spec. Qed.
Print Assumptions C10_wedge.

(* geo is exactly dot + wedge; meet is exactly dual(wedge(dual, dual)) *)
Theorem C10_geo : forall (L : libm) a b, geo L a b = gadd_vv L (dot L a b) (wedge L a b).
Proof. exact geo_def. Qed.
Print Assumptions C10_geo.
Theorem C10_meet : forall (L : libm) a b, meet L a b = gdual (wedge L (gdual a) (gdual b)).
Proof. exact meet_def. Qed.
Print Assumptions C10_meet.

(* wedge angle: canonical, blades = blade a + blade b + 1 + at most two carries (+2 more when sin < 0, + one carry) *)
Theorem C10_wedge_blades : forall (L : libm) a b, canonp (rem (ang a)) -> canonp (rem (ang b)) ->
  canonp (rem (ang (wedge L a b))) /\
  (blade (ang a) + blade (ang b) + 1 <= blade (ang (wedge L a b)) <= blade (ang a) + blade (ang b) + 4)%Z.
Proof. exact wedge_blades. Qed.
Print Assumptions C10_wedge_blades.

(* identical angles: the wedge vanishes exactly - under the single libm hypothesis sin(+0.0) = +0.0 *)
Theorem C10_parallel : forall (L : libm) a b, sin_zero_zero L -> fin (rem (ang a)) -> ang b = ang a ->
  fin (fmul (mag a) (mag b)) -> R_ (mag (wedge L a b)) = 0.
Proof. exact wedge_parallel. Qed.
Print Assumptions C10_parallel.

(* the two special-value hypotheses are satisfiable *)
Theorem C10_special_hyps_inhabited : cos_zero_one trivial_libm /\ sin_zero_zero trivial_libm.
Proof. exact special_hyps_inhabited. Qed.
Print Assumptions C10_special_hyps_inhabited.

(* the wedge magnitude is |a||b||sin(direction difference)| (real pi) within |a||b|(u + 1.0002e-10) + 2^-1073,
   for any libm whose sin is accurate to u on [-8,8] *)
Theorem C10_wedge_value : forall (L : libm) (u : R) a b, sin_acc L u -> u <= / 1000 ->
  canonp (rem (ang a)) -> canonp (rem (ang b)) -> (0 <= blade (ang a))%Z -> (0 <= blade (ang b))%Z ->
  fin (mag (wedge L a b)) ->
  Rabs (R_ (mag (wedge L a b)) - R_ (mag a) * R_ (mag b) * Rabs (sin (dir (ang b) - dir (ang a))))
    <= Rabs (R_ (mag a) * R_ (mag b)) * (u + 10002 / 100000000000000) + bpow radix2 (-1073).
Proof. exact wedge_mag_value. Qed.
Print Assumptions C10_wedge_value.

Theorem C10_sin_value : forall (L : libm) (u : R) a b, sin_acc L u ->
  canonp (rem a) -> canonp (rem b) -> (0 <= blade a)%Z -> (0 <= blade b)%Z ->
  let s := sinF L (grade_angle (geometric_sub b a)) in
  fin s /\ Rabs (R_ s - sin (dir b - dir a)) <= u + 10001 / 100000000000000.
Proof. exact wedge_sin_value. Qed.
Print Assumptions C10_sin_value.

(* swapping the operands keeps the wedge magnitude within twice the value tolerance *)
Theorem C10_swap_magnitude : forall (L : libm) (u : R) a b, sin_acc L u -> u <= / 1000 ->
  canonp (rem (ang a)) -> canonp (rem (ang b)) -> (0 <= blade (ang a))%Z -> (0 <= blade (ang b))%Z ->
  fin (mag (wedge L a b)) -> fin (mag (wedge L b a)) ->
  Rabs (R_ (mag (wedge L a b)) - R_ (mag (wedge L b a)))
    <= 2 * (Rabs (R_ (mag a) * R_ (mag b)) * (u + 10002 / 100000000000000) + bpow radix2 (-1073)).
Proof. exact wedge_swap_mag. Qed.
Print Assumptions C10_swap_magnitude.

(* anti-symmetry: swapping the operands turns the wedge angle by exactly a half turn (two blades, remainder
   untouched) whenever |sin(direction difference)| exceeds the value tolerance u + 1.0001e-10 *)
Theorem C10_swap_orientation : forall (L : libm) (u : R) a b, sin_acc L u ->
  canonp (rem (ang a)) -> canonp (rem (ang b)) -> (0 <= blade (ang a))%Z -> (0 <= blade (ang b))%Z ->
  u + 10001 / 100000000000000 < Rabs (sin (dir (ang b) - dir (ang a))) ->
  steps_to (ang (wedge L a b)) (ang (wedge L b a)) 2 \/ steps_to (ang (wedge L b a)) (ang (wedge L a b)) 2.
Proof. exact wedge_swap_orientation. Qed.
Print Assumptions C10_swap_orientation.

(* the Lagrange identity |a.b|^2 + |a^b|^2 = |a|^2 |b|^2 up to the value tolerances *)
Theorem C10_lagrange : forall (L : libm) (u : R) a b, cos_acc L u -> sin_acc L u -> u <= / 1000 ->
  canonp (rem (ang a)) -> canonp (rem (ang b)) -> (0 <= blade (ang a))%Z -> (0 <= blade (ang b))%Z ->
  fin (dot_value L a b) -> fin (mag (wedge L a b)) ->
  let P := R_ (mag a) * R_ (mag b) in
  let e := Rabs P * (u + 10002 / 100000000000000) + bpow radix2 (-1073) in
  Rabs (R_ (dot_value L a b) * R_ (dot_value L a b) + R_ (mag (wedge L a b)) * R_ (mag (wedge L a b)) - P * P)
    <= 2 * e * (2 * Rabs P + e).
Proof. exact lagrange. Qed.
Print Assumptions C10_lagrange.
