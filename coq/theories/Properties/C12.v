(* C12 - rotation, reflection, signed scaling: structural part.  Pinned theorems only. *)
From Coq Require Import ZArith List Bool Reals Lra.
From Flocq Require Import Core BinarySingleNaN.
Require Import GV.FloatBase GV.FloatLemmas GV.AngleM GV.AngleProofs GV.GeonumM GV.GeonumProofs GV.TraitsM GV.NewProofs GV.CtorProofs GV.PiBounds GV.TrigProofs GV.DotValue GV.DirProofs GV.DistValue GV.SymProofs.
Open Scope R_scope.

Theorem C12_rotate : forall g r, mag (grotate g r) = mag g /\ ang (grotate g r) = geometric_add (ang g) r.
Proof. exact grotate_spec. Qed.
Print Assumptions C12_rotate.

(* rotations compose additively: totals within twice the addition bound *)
Theorem C12_rotate_total : forall g r, canonp (rem (ang g)) -> canonp (rem r) ->
  canonp (rem (ang (grotate g r))) /\
  Rabs (theta (ang (grotate g r)) - (theta (ang g) + theta r)) <= R_ eps10 + / 2251799813685248.
Proof.
intros g r Cg Cr. split. apply (geometric_add_canon (ang g) r Cg Cr). exact (geometric_add_total (ang g) r Cg Cr).
Qed.
Print Assumptions C12_rotate_total.

(* a full turn (four blades) keeps grade and remainder *)
Theorem C12_full_turn : forall g, canonp (rem (ang g)) ->
  steps_to (ang g) (ang (grotate g {| rem := zero; blade := 4 |})) 4.
Proof. intros g C. exact (step_by_k (ang g) 4 C). Qed.
Print Assumptions C12_full_turn.

(* reflection: magnitude bit-exact, canonical, never fewer blades than twice the axis's; independent of the axis length *)
Theorem C12_reflect : forall g axis, canonp (rem (ang g)) -> Canon (ang axis) ->
  mag (reflect g axis) = mag g /\ canonp (rem (ang (reflect g axis))) /\
  (2 * blade (ang axis) <= blade (ang (reflect g axis)))%Z.
Proof. exact reflect_spec. Qed.
Print Assumptions C12_reflect.
Theorem C12_reflect_length_free : forall g a1 a2, ang a1 = ang a2 -> reflect g a1 = reflect g a2.
Proof. exact reflect_axis_length_free. Qed.
Print Assumptions C12_reflect_length_free.

Theorem C12_scale_rotate : forall g f r,
  scale_rotate g f r =
    if flt f zero then {| mag := fmul (mag g) (fabs f); ang := add_vv (negate (ang g)) r |}
    else {| mag := fmul (mag g) f; ang := add_vv (ang g) r |}.
Proof. exact scale_rotate_spec. Qed.
Print Assumptions C12_scale_rotate.

(* reflection law at the angle level: total = 2*alpha + (4 full-turn blades) - (t mod 2pi), i.e. the
   direction 2*alpha - t modulo a full turn, within three boundary tolerances plus rounding *)
Theorem C12_reflect_law : forall g axis, canonp (rem (ang g)) -> Canon (ang axis) ->
  Rabs (theta (ang (reflect g axis)) - (2 * theta (ang axis) + 8 * R_ Q - theta (base_angle (ang g))))
    <= 3 * R_ eps10 + 7 * / 4503599627370496.
Proof. exact reflect_law. Qed.
Print Assumptions C12_reflect_law.

(* with the REAL pi: rotation adds the directions *)
Theorem C12_rotate_direction : forall g r, canonp (rem (ang g)) -> canonp (rem r) ->
  mag (grotate g r) = mag g /\
  Rabs (dirR (ang (grotate g r)) - (dirR (ang g) + dirR r)) <= R_ eps10 + / 2251799813685248 + 1 / 10000000000000000.
Proof. exact grotate_dirR. Qed.
Print Assumptions C12_rotate_direction.

(* with the REAL pi: the reflected direction is 2*axis - point, carried with exactly two whole turns (4 pi) of history *)
Theorem C12_reflect_direction : forall g axis, canonp (rem (ang g)) -> Canon (ang axis) -> (0 <= blade (ang g))%Z ->
  Rabs (dirR (ang (reflect g axis)) - (2 * dirR (ang axis) - dir (ang g) + 4 * Rtrigo1.PI))
    <= 3 * R_ eps10 + 7 * / 4503599627370496 + 3 / 10000000000000000.
Proof. exact reflect_dirR. Qed.
Print Assumptions C12_reflect_direction.

(* reflecting twice across the same axis returns the original magnitude (bit-exact) and direction
   (cos and sin of it, REAL pi) within twice the reflection tolerance *)
Theorem C12_double_reflection : forall g axis, Canon (ang g) -> Canon (ang axis) ->
  let r1 := reflect g axis in let r2 := reflect r1 axis in
  mag r2 = mag g /\
  Rabs (cos (dirR (ang r2)) - cos (dir (ang g))) <= 2 * (3 * R_ eps10 + 7 * / 4503599627370496 + 3 / 10000000000000000) /\
  Rabs (sin (dirR (ang r2)) - sin (dir (ang g))) <= 2 * (3 * R_ eps10 + 7 * / 4503599627370496 + 3 / 10000000000000000).
Proof. exact double_reflection. Qed.
Print Assumptions C12_double_reflection.
