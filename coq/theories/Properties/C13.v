(* C13 - distance, magnitude difference, circle inversion: structural part.  Pinned theorems only. *)
From Coq Require Import ZArith List Bool Reals Lra.
From Flocq Require Import Core BinarySingleNaN.
Require Import GV.FloatBase GV.FloatLemmas GV.AngleM GV.AngleProofs GV.GeonumM GV.GeonumProofs GV.TraitsM.
Open Scope R_scope.

(* for EVERY libm and every input: distance_to is at angle exactly 0 and its magnitude is never NaN or negative *)
Theorem C13_distance_encoding : forall (L : libm) a b,
  ang (distance_to L a b) = {| rem := zero; blade := 0 |} /\ nonneg_or_inf (mag (distance_to L a b)).
Proof. exact distance_encoding. Qed.
Print Assumptions C13_distance_encoding.

Theorem C13_mag_diff : forall a b, mag_diff a b = fabs (fsub (mag a) (mag b)).
Proof. exact mag_diff_spec. Qed.
Print Assumptions C13_mag_diff.

(* panics exactly when the computed offset p - c has zero magnitude *)
Theorem C13_invert_panic : forall (L : libm) g c r,
  invert_circle L g c r = None <-> feq (mag (gsub_vv L g c)) zero = true.
Proof. exact invert_circle_spec. Qed.
Print Assumptions C13_invert_panic.
