(* C13 - distance, magnitude difference, circle inversion: structural part.  Pinned theorems only. *)
From Coq Require Import ZArith List Bool Reals Lra.
From Flocq Require Import Core BinarySingleNaN.
Require Import GV.FloatBase GV.FloatLemmas GV.AngleM GV.AngleProofs GV.GeonumM GV.GeonumProofs GV.TraitsM GV.NewProofs GV.CtorProofs GV.PiBounds GV.TrigProofs GV.DotValue GV.DistValue GV.DirProofs GV.SymProofs GV.ClosureProofs GV.SumUpper GV.SumDir GV.MetricProofs GV.TraitsProofs GV.BoundProofs GV.ProdProofs GV.FieldProofs GV.InvertProofs.
Open Scope R_scope.

(* for EVERY libm and every input: distance_to is at angle exactly 0 and its magnitude is never NaN or negative *)
Theorem C13_distance_encoding : forall (L : libm) a b,
  ang (distance_to L a b) = {| rem := zero; blade := 0 |} /\ nonneg_or_inf (mag (distance_to L a b)).
Proof. exact distance_encoding. Qed.
Print Assumptions C13_distance_encoding.

Theorem C13_mag_diff : forall a b, mag_diff a b = fabs (fsub (mag a) (mag b)).
Proof. exact mag_diff_spec. Qed.
Print Assumptions C13_mag_diff.

(* panics exactly when the computed offset p - c has zero magnitude *)
Theorem C13_invert_panic : forall (L : libm) g c r,
  invert_circle L g c r = None <-> feq (mag (gsub_vv L g c)) zero = true.
Proof. exact invert_circle_spec. Qed.
Print Assumptions C13_invert_panic.

(* S2, REAL pi and cos: for any libm with |cosF - cos| <= u on [-8,8] the radicand computed by distance_to is the
   law-of-cosines value D = |a|^2 + |b|^2 - 2|a||b|cos(dir b - dir a) (= squared Euclidean distance, >= 0)
   within (|a|^2+|b|^2)(u + 1.0003e-10) + 10*2^-1075 *)
Theorem C13_radicand_value : forall (L : libm) (u : R) a b, cos_acc L u -> u <= / 1000 ->
  canonp (rem (ang a)) -> canonp (rem (ang b)) -> (0 <= blade (ang a))%Z -> (0 <= blade (ang b))%Z ->
  fin (dist_sq L a b) ->
  let S := R_ (mag a) * R_ (mag a) + R_ (mag b) * R_ (mag b) in
  let D := S - 2 * R_ (mag a) * R_ (mag b) * cos (dir (ang b) - dir (ang a)) in
  0 <= D /\ Rabs (R_ (dist_sq L a b) - D) <= S * (u + 10003 / 100000000000000) + 10 * bpow radix2 (-1075).
Proof. exact dist_sq_value. Qed.
Print Assumptions C13_radicand_value.

(* and the distance is sqrt(D) up to the square root of that radicand error (the conditioning of the
   law of cosines near coincident points) plus one rounding *)
Theorem C13_distance_value : forall (L : libm) (u : R) a b, cos_acc L u -> u <= / 1000 ->
  canonp (rem (ang a)) -> canonp (rem (ang b)) -> (0 <= blade (ang a))%Z -> (0 <= blade (ang b))%Z ->
  fin (dist_sq L a b) ->
  let S := R_ (mag a) * R_ (mag a) + R_ (mag b) * R_ (mag b) in
  let D := S - 2 * R_ (mag a) * R_ (mag b) * cos (dir (ang b) - dir (ang a)) in
  let Bnd := S * (u + 10003 / 100000000000000) + 10 * bpow radix2 (-1075) in
  Rabs (R_ (mag (distance_to L a b)) - sqrt D)
    <= sqrt Bnd * (1 + / 9007199254740992) + / 9007199254740992 * sqrt D + bpow radix2 (-1075).
Proof. exact distance_value. Qed.
Print Assumptions C13_distance_value.

Theorem C13_radicand_def : forall (L : libm) a b, mag (distance_to L a b) = fabs (fsqrt (fmax (dist_sq L a b) zero)).
Proof. exact distance_unfold. Qed.
Print Assumptions C13_radicand_def.

(* symmetry: d(a,b) and d(b,a) agree within twice the value tolerance *)
Theorem C13_symmetry : forall (L : libm) (u : R) a b, cos_acc L u -> u <= / 1000 ->
  canonp (rem (ang a)) -> canonp (rem (ang b)) -> (0 <= blade (ang a))%Z -> (0 <= blade (ang b))%Z ->
  fin (dist_sq L a b) -> fin (dist_sq L b a) ->
  let S := R_ (mag a) * R_ (mag a) + R_ (mag b) * R_ (mag b) in
  let D := S - 2 * R_ (mag a) * R_ (mag b) * cos (dir (ang b) - dir (ang a)) in
  let Bnd := S * (u + 10003 / 100000000000000) + 10 * bpow radix2 (-1075) in
  Rabs (R_ (mag (distance_to L a b)) - R_ (mag (distance_to L b a)))
    <= 2 * (sqrt Bnd * (1 + / 9007199254740992) + / 9007199254740992 * sqrt D + bpow radix2 (-1075)).
Proof. exact distance_symmetry. Qed.
Print Assumptions C13_symmetry.

(* the law-of-cosines radicand IS the squared Euclidean distance of the Cartesian points
   (px g, py g) = |g| (cos, sin)(dir g), REAL pi *)
Theorem C13_law_of_cosines : forall a b,
  R_ (mag a) * R_ (mag a) + R_ (mag b) * R_ (mag b) - 2 * R_ (mag a) * R_ (mag b) * cos (dir (ang b) - dir (ang a))
  = (px a - px b) * (px a - px b) + (py a - py b) * (py a - py b).
Proof. exact law_of_cosines. Qed.
Print Assumptions C13_law_of_cosines.

(* distance_to is the Euclidean distance of the Cartesian points within dist_tol + 2^-53 e *)
Theorem C13_distance_euclid : forall (L : libm) (u : R) a b, cos_acc L u -> u <= / 1000 ->
  canonp (rem (ang a)) -> canonp (rem (ang b)) -> (0 <= blade (ang a))%Z -> (0 <= blade (ang b))%Z ->
  fin (dist_sq L a b) ->
  let e := sqrt ((px a - px b) * (px a - px b) + (py a - py b) * (py a - py b)) in
  Rabs (R_ (mag (distance_to L a b)) - e) <= dist_tol u a b + / 9007199254740992 * e.
Proof. exact distance_euclid. Qed.
Print Assumptions C13_distance_euclid.

(* the triangle inequality, up to the three value tolerances *)
Theorem C13_triangle : forall (L : libm) (u : R) a b c, cos_acc L u -> u <= / 1000 ->
  canonp (rem (ang a)) -> canonp (rem (ang b)) -> canonp (rem (ang c)) ->
  (0 <= blade (ang a))%Z -> (0 <= blade (ang b))%Z -> (0 <= blade (ang c))%Z ->
  fin (dist_sq L a b) -> fin (dist_sq L b c) -> fin (dist_sq L a c) ->
  R_ (mag (distance_to L a c)) * (1 - / 9007199254740992)
    <= (R_ (mag (distance_to L a b)) + R_ (mag (distance_to L b c))) * (1 + / 4503599627370496)
       + 2 * (dist_tol u a b + dist_tol u b c + dist_tol u a c).
Proof. exact distance_triangle. Qed.
Print Assumptions C13_triangle.

(* distance_to(a, b) equals |a - b| (general path of the subtraction) within twice the value tolerance *)
Theorem C13_equals_sub : forall (L : libm) (u : R) a b, cos_acc L u -> u <= / 1000 ->
  canonp (rem (ang a)) -> canonp (rem (ang b)) -> (0 <= blade (ang a))%Z -> (0 <= blade (ang b))%Z ->
  aeqb (ang a) (negate (ang b)) = false ->
  aeqb (add_vv (ang a) (new one one)) (negate (ang b)) || aeqb (add_vv (negate (ang b)) (new one one)) (ang a) = false ->
  fin (dist_sq L a b) -> fin (gadd_rad L a (gnegate b)) ->
  let S := R_ (mag a) * R_ (mag a) + R_ (mag b) * R_ (mag b) in
  let e := sqrt ((px a - px b) * (px a - px b) + (py a - py b) * (py a - py b)) in
  let Bnd := S * (u + 10003 / 100000000000000) + 10 * bpow radix2 (-1075) in
  Rabs (R_ (mag (distance_to L a b)) - R_ (mag (gsub_vv L a b)))
    <= 2 * (sqrt Bnd * (1 + / 9007199254740992) + / 9007199254740992 * e + bpow radix2 (-1075)).
Proof. exact distance_equals_sub. Qed.
Print Assumptions C13_equals_sub.

Theorem C13_dist_tol_def : forall (u : R) a b, dist_tol u a b =
  sqrt ((R_ (mag a) * R_ (mag a) + R_ (mag b) * R_ (mag b)) * (u + 10003 / 100000000000000) + 10 * bpow radix2 (-1075))
    * (1 + / 9007199254740992) + bpow radix2 (-1075).
Proof. reflexivity. Qed.
Print Assumptions C13_dist_tol_def.

(* circle inversion: p' = c + v where v carries the computed offset's angle bit for bit (SAME RAY from c),
   |v| |p - c| = r^2 within 3*2^-52 r^2, and the Cartesian point of p' is that of c plus that of v within the
   tolerance T of C06_cartesian (general path of the final sum); invert_circle is None (the documented panic)
   exactly when the computed offset has zero magnitude (C13_invert_panic) *)
Theorem C13_inversion_value : forall (L : libm) (u u2 : R) g c r q, cos_acc L u -> sin_acc L u -> atan2_acc L u2 -> u <= / 1000 ->
  invert_circle L g c r = Some q ->
  let off := gsub_vv L g c in
  let io := {| mag := fdiv (fmul r r) (mag off); ang := ang off |} in
  canonp (rem (ang c)) -> canonp (rem (ang off)) ->
  fin (mag io) -> fin (mag off) ->
  bpow radix2 (-500) <= R_ r * R_ r -> bpow radix2 (-500) <= R_ (mag off) ->
  bpow radix2 (-500) <= R_ r * R_ r / R_ (mag off) ->
  aeqb (ang c) (ang io) = false ->
  aeqb (add_vv (ang c) (new one one)) (ang io) || aeqb (add_vv (ang io) (new one one)) (ang c) = false ->
  (0 <= blade (ang c) + blade (ang io) < 2 ^ 40)%Z ->
  fin (gadd_rad L c io) ->
  fin (fadd (fmul (mag c) (sinF L (grade_angle (ang c)))) (fmul (mag io) (sinF L (grade_angle (ang io))))) ->
  fin (fadd (fmul (mag c) (cosF L (grade_angle (ang c)))) (fmul (mag io) (cosF L (grade_angle (ang io))))) ->
  let Vx := R_ (mag c) * cos (dir (ang c)) + R_ (mag io) * cos (dir (ang off)) in
  let Vy := R_ (mag c) * sin (dir (ang c)) + R_ (mag io) * sin (dir (ang off)) in
  let M := Rabs (R_ (mag c)) + Rabs (R_ (mag io)) in
  let E := M * (u + 3 / 1000000000000000) + 4 * bpow radix2 (-1075) in
  let S := R_ (mag c) * R_ (mag c) + R_ (mag io) * R_ (mag io) in
  let Bnd := S * (u + 1 / 100000000000000) + 10 * bpow radix2 (-1075) in
  let tolN := R_ eps10 + 3 / 100000000000000 + IZR (blade (ang c) + blade (ang io)) * (4 / 1000000000000000) in
  let T := sqrt Bnd * (1 + / 9007199254740992) + / 9007199254740992 * sqrt (Vx * Vx + Vy * Vy) + bpow radix2 (-1075)
           + 3 * E + (M + 2 * E) * (u2 + tolN) in
  Rabs (R_ (mag io) * R_ (mag off) - R_ r * R_ r) <= 3 * / 4503599627370496 * (R_ r * R_ r) /\
  Rabs (R_ (mag q) * cos (dirR (ang q)) - Vx) <= T /\ Rabs (R_ (mag q) * sin (dirR (ang q)) - Vy) <= T.
Proof. exact invert_circle_value. Qed.
Print Assumptions C13_inversion_value.
