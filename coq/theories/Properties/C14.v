(* C14 - blade history policy of addition: the two fast paths.  Pinned theorems only. *)
From Coq Require Import ZArith List Bool Reals Lra.
From Flocq Require Import Core BinarySingleNaN.
Require Import GV.FloatBase GV.FloatLemmas GV.AngleM GV.AngleProofs GV.GeonumM GV.GeonumProofs GV.TraitsM GV.NewProofs GV.CtorProofs GV.ClosureProofs GV.SumUpper GV.PiBounds GV.TrigProofs GV.DotValue GV.DirProofs GV.CommProofs GV.DistValue GV.SumDir GV.GradeProofs GV.RunSum.
Import ListNotations.
Open Scope R_scope.

(* identical angles: the sum keeps that angle *)
Theorem C14_same : forall (L : libm) a b, aeqb (ang a) (ang b) = true ->
  ang (gadd_vv L a b) = ang a /\ mag (gadd_vv L a b) = fadd (mag a) (mag b).
Proof. exact add_same. Qed.
Print Assumptions C14_same.

(* exactly opposite: larger summand's angle kept; cancellation gives zero magnitude at the summed blade count *)
Theorem C14_opposite : forall (L : libm) a b, aeqb (ang a) (ang b) = false ->
  aeqb (add_vv (ang a) (new one one)) (ang b) || aeqb (add_vv (ang b) (new one one)) (ang a) = true ->
  let diff := fsub (mag a) (mag b) in
  gadd_vv L a b =
    if flt (fabs diff) EPSILON then {| mag := zero; ang := new_with_blade (blade (ang a) + blade (ang b)) zero one |}
    else if fgt diff zero then {| mag := diff; ang := ang a |} else {| mag := fneg diff; ang := ang b |}.
Proof. exact add_opposite. Qed.
Print Assumptions C14_opposite.

(* the fast-path tests are symmetric, so a+b and b+a take the same path *)
Theorem C14_path_symmetric : forall a b,
  aeqb (add_vv (ang a) (new one one)) (ang b) || aeqb (add_vv (ang b) (new one one)) (ang a) =
  aeqb (add_vv (ang b) (new one one)) (ang a) || aeqb (add_vv (ang a) (new one one)) (ang b).
Proof. intros a b. apply orb_comm. Qed.
Print Assumptions C14_path_symmetric.

(* general case: blade history is never lost - the sum's angle is canonical and carries at least the
   sum of the operands' blade counts, provided the re-encoded total is finite and below 2^42 in
   magnitude (guaranteed inside the domain: blades <= 2^40, |atan2| <= pi) *)
Theorem C14_general_history : forall (L : libm) a b, aeqb (ang a) (ang b) = false ->
  aeqb (add_vv (ang a) (new one one)) (ang b) || aeqb (add_vv (ang b) (new one one)) (ang a) = false ->
  (0 <= blade (ang a) + blade (ang b) < 2 ^ 53)%Z ->
  fin (total_angle (sum_adjusted L a b) PI) -> Rabs (R_ (total_angle (sum_adjusted L a b) PI)) <= bpow radix2 42 ->
  canonp (rem (ang (gadd_vv L a b))) /\ (blade (ang a) + blade (ang b) <= blade (ang (gadd_vv L a b)))%Z.
Proof. exact gadd_general_history. Qed.
Print Assumptions C14_general_history.

(* the UPPER bound: on the general path the sum carries at most one full turn more than the operands' blade
   counts, and exactly one full turn only with a remainder below 2^-8 (the rounding of the re-encoding at
   totals up to 2^42; 0 in exact arithmetic) - whenever the re-encoded total is finite, at most 2^42 in
   magnitude and at most 4 *)
Theorem C14_general_upper : forall (L : libm) a b, aeqb (ang a) (ang b) = false ->
  aeqb (add_vv (ang a) (new one one)) (ang b) || aeqb (add_vv (ang b) (new one one)) (ang a) = false ->
  (0 <= blade (ang a) + blade (ang b) < 2 ^ 53)%Z ->
  fin (total_angle (sum_adjusted L a b) PI) -> Rabs (R_ (total_angle (sum_adjusted L a b) PI)) <= bpow radix2 42 ->
  R_ (total_angle (sum_adjusted L a b) PI) <= 4 ->
  (blade (ang a) + blade (ang b) <= blade (ang (gadd_vv L a b)) <= blade (ang a) + blade (ang b) + 4)%Z /\
  (blade (ang (gadd_vv L a b)) = (blade (ang a) + blade (ang b) + 4)%Z -> R_ (rem (ang (gadd_vv L a b))) <= / 256).
Proof. exact gadd_general_upper. Qed.
Print Assumptions C14_general_upper.

(* those three premises follow from ONE explicit premise on libm: atan2 returned a finite value in [-PI, PI]
   (PI the double), for every blade sum below 2^40 *)
Theorem C14_general_bounds : forall (L : libm) a b, aeqb (ang a) (ang b) = false ->
  aeqb (add_vv (ang a) (new one one)) (ang b) || aeqb (add_vv (ang b) (new one one)) (ang a) = false ->
  (0 <= blade (ang a) + blade (ang b) < 2 ^ 40)%Z ->
  let at_ := atan2F L (fadd (fmul (mag a) (sinF L (grade_angle (ang a)))) (fmul (mag b) (sinF L (grade_angle (ang b)))))
                      (fadd (fmul (mag a) (cosF L (grade_angle (ang a)))) (fmul (mag b) (cosF L (grade_angle (ang b))))) in
  fin at_ -> Rabs (R_ at_) <= R_ PI ->
  canonp (rem (ang (gadd_vv L a b))) /\
  (blade (ang a) + blade (ang b) <= blade (ang (gadd_vv L a b)) <= blade (ang a) + blade (ang b) + 4)%Z /\
  (blade (ang (gadd_vv L a b)) = (blade (ang a) + blade (ang b) + 4)%Z -> R_ (rem (ang (gadd_vv L a b))) <= / 256).
Proof. exact gadd_general_upper_atan2. Qed.
Print Assumptions C14_general_bounds.

(* Angle::new on the general path never exceeds one full turn when the total is at most 4 *)
Theorem C14_new_blade_upper : forall p d, fast_path p d = false ->
  fin (total_angle p d) -> Rabs (R_ (total_angle p d)) <= bpow radix2 42 -> R_ (total_angle p d) <= 4 ->
  (blade (new p d) <= 4)%Z /\ (blade (new p d) = 4%Z -> R_ (rem (new p d)) <= / 256).
Proof. exact new_blade_upper. Qed.
Print Assumptions C14_new_blade_upper.

(* the premises are satisfiable on the general path *)
Theorem C14_upper_inhabited :
  let a := {| mag := one; ang := {| rem := zero; blade := 0 |} |} in
  let b := {| mag := one; ang := {| rem := zero; blade := 1 |} |} in
  aeqb (ang a) (ang b) = false /\
  aeqb (add_vv (ang a) (new one one)) (ang b) || aeqb (add_vv (ang b) (new one one)) (ang a) = false /\
  (0 <= blade (ang a) + blade (ang b) < 2 ^ 40)%Z /\
  fin (atan2F trivial_libm zero zero) /\ Rabs (R_ (atan2F trivial_libm zero zero)) <= R_ PI.
Proof. exact gadd_upper_inhabited. Qed.
Print Assumptions C14_upper_inhabited.

(* a + b and b + a: on the general path the two sums carry bit-for-bit the same angle (blade history and
   remainder), for EVERY libm and every operand - blade history is identical for a+b and b+a *)
Theorem C14_general_commutes : forall (L : libm) a b, aeqb (ang a) (ang b) = false -> aeqb (ang b) (ang a) = false ->
  aeqb (add_vv (ang a) (new one one)) (ang b) || aeqb (add_vv (ang b) (new one one)) (ang a) = false ->
  ang (gadd_vv L a b) = ang (gadd_vv L b a).
Proof. exact gadd_general_angle_comm. Qed.
Print Assumptions C14_general_commutes.

(* the signs of cos and sin of the (REAL pi) direction of a canonical angle determine its grade *)
Theorem C14_grade_of_signs : forall a, Canon a ->
  (0 < cos (dirR a) -> 0 < sin (dirR a) -> grade a = 0%Z) /\
  (cos (dirR a) < 0 -> 0 < sin (dirR a) -> grade a = 1%Z) /\
  (cos (dirR a) < 0 -> sin (dirR a) < 0 -> grade a = 2%Z) /\
  (0 < cos (dirR a) -> sin (dirR a) < 0 -> grade a = 3%Z).
Proof. exact grade_of_signs. Qed.
Print Assumptions C14_grade_of_signs.

(* GRADE FROM DIRECTION: on the general path the grade of a + b is the quadrant of the Cartesian sum V whenever V is
   further than the tolerance T of C06_cartesian from both coordinate axes *)
Theorem C14_grade_from_direction : forall (L : libm) (u u2 : R) a b, cos_acc L u -> sin_acc L u -> atan2_acc L u2 -> u <= / 1000 ->
  canonp (rem (ang a)) -> canonp (rem (ang b)) ->
  aeqb (ang a) (ang b) = false ->
  aeqb (add_vv (ang a) (new one one)) (ang b) || aeqb (add_vv (ang b) (new one one)) (ang a) = false ->
  (0 <= blade (ang a) + blade (ang b) < 2 ^ 40)%Z ->
  fin (gadd_rad L a b) ->
  fin (fadd (fmul (mag a) (sinF L (grade_angle (ang a)))) (fmul (mag b) (sinF L (grade_angle (ang b))))) ->
  fin (fadd (fmul (mag a) (cosF L (grade_angle (ang a)))) (fmul (mag b) (cosF L (grade_angle (ang b))))) ->
  fin (total_angle (sum_adjusted L a b) PI) -> Rabs (R_ (total_angle (sum_adjusted L a b) PI)) <= bpow radix2 42 ->
  let r := gadd_vv L a b in
  let Vx := R_ (mag a) * cos (dir (ang a)) + R_ (mag b) * cos (dir (ang b)) in
  let Vy := R_ (mag a) * sin (dir (ang a)) + R_ (mag b) * sin (dir (ang b)) in
  let M := Rabs (R_ (mag a)) + Rabs (R_ (mag b)) in
  let E := M * (u + 3 / 1000000000000000) + 4 * bpow radix2 (-1075) in
  let S := R_ (mag a) * R_ (mag a) + R_ (mag b) * R_ (mag b) in
  let Bnd := S * (u + 1 / 100000000000000) + 10 * bpow radix2 (-1075) in
  let tolN := R_ eps10 + 3 / 100000000000000 + IZR (blade (ang a) + blade (ang b)) * (4 / 1000000000000000) in
  let T := sqrt Bnd * (1 + / 9007199254740992) + / 9007199254740992 * sqrt (Vx * Vx + Vy * Vy) + bpow radix2 (-1075)
           + 3 * E + (M + 2 * E) * (u2 + tolN) in
  (T < Vx -> T < Vy -> grade (ang r) = 0%Z) /\
  (Vx < - T -> T < Vy -> grade (ang r) = 1%Z) /\
  (Vx < - T -> Vy < - T -> grade (ang r) = 2%Z) /\
  (T < Vx -> Vy < - T -> grade (ang r) = 3%Z).
Proof. exact gadd_grade_from_direction. Qed.
Print Assumptions C14_grade_from_direction.

(* RUNNING SUMS of any length (induction over the sequence): with atan2 finite and within [-PI, PI] as the only
   premise on libm, every accumulator of a running sum of canonical operands has a canonical angle and a blade
   count between the smallest blade count among the operands (a cancelling / dominated step may fall back to an
   operand's own angle) and the sum of all blade counts plus one full turn per addition *)
Theorem C14_running_sum : forall (L : libm), atan2_range L -> forall xs acc, gwf acc -> Forall gwf xs ->
  (blade (ang acc) + bsum xs < 2 ^ 40)%Z ->
  forall n, let r := fold_left (gadd_vv L) (firstn n xs) acc in
  gwf r /\ (bmin (blade (ang acc)) xs <= blade (ang r) <= blade (ang acc) + bsum xs)%Z.
Proof. exact running_sum_prefixes. Qed.
Print Assumptions C14_running_sum.

(* one step, whichever of the three paths is taken *)
Theorem C14_step_blades : forall (L : libm), atan2_range L -> forall a b, gwf a -> gwf b ->
  (blade (ang a) + blade (ang b) < 2 ^ 40)%Z ->
  gwf (gadd_vv L a b) /\
  (Z.min (blade (ang a)) (blade (ang b)) <= blade (ang (gadd_vv L a b)) <= blade (ang a) + blade (ang b) + 4)%Z.
Proof. exact gadd_step_blades. Qed.
Print Assumptions C14_step_blades.

(* the definitions used above, pinned, and non-vacuity *)
Theorem C14_running_defs :
  (forall L, atan2_range L <-> forall y x, fin (atan2F L y x) /\ Rabs (R_ (atan2F L y x)) <= R_ PI) /\
  (forall g, gwf g <-> canonp (rem (ang g)) /\ (0 <= blade (ang g))%Z) /\
  (bsum [] = 0%Z /\ forall x r, bsum (x :: r) = (blade (ang x) + 4 + bsum r)%Z) /\
  (forall m, bmin m [] = m) /\ (forall m x r, bmin m (x :: r) = bmin (Z.min m (blade (ang x))) r).
Proof.
split; [intros L; unfold atan2_range; tauto|]. split; [intros g; unfold gwf; tauto|].
split; [split; [reflexivity|intros; reflexivity]|]. split; intros; reflexivity.
Qed.
Print Assumptions C14_running_defs.

Theorem C14_running_inhabited : atan2_range trivial_libm /\
  (let g k := {| mag := one; ang := {| rem := zero; blade := k |} |} in
   gwf (g 0%Z) /\ Forall gwf [g 1%Z; g 2%Z; g 7%Z] /\ (blade (ang (g 0%Z)) + bsum [g 1%Z; g 2%Z; g 7%Z] < 2 ^ 40)%Z).
Proof. exact (conj atan2_range_inhabited running_sum_example). Qed.
Print Assumptions C14_running_inhabited.
