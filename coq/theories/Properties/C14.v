(* C14 - blade history policy of addition: the two fast paths.  Pinned theorems only. *)
From Coq Require Import ZArith List Bool Reals Lra.
From Flocq Require Import Core BinarySingleNaN.
Require Import GV.FloatBase GV.FloatLemmas GV.AngleM GV.AngleProofs GV.GeonumM GV.GeonumProofs GV.TraitsM GV.NewProofs GV.CtorProofs.
Open Scope R_scope.

(* identical angles: the sum keeps that angle *)
Theorem C14_same : forall (L : libm) a b, aeqb (ang a) (ang b) = true ->
  ang (gadd_vv L a b) = ang a /\ mag (gadd_vv L a b) = fadd (mag a) (mag b).
Proof. exact add_same. Qed.
Print Assumptions C14_same.

(* exactly opposite: larger summand's angle kept; cancellation gives zero magnitude at the summed blade count *)
Theorem C14_opposite : forall (L : libm) a b, aeqb (ang a) (ang b) = false ->
  aeqb (add_vv (ang a) (new one one)) (ang b) || aeqb (add_vv (ang b) (new one one)) (ang a) = true ->
  let diff := fsub (mag a) (mag b) in
  gadd_vv L a b =
    if flt (fabs diff) EPSILON then {| mag := zero; ang := new_with_blade (blade (ang a) + blade (ang b)) zero one |}
    else if fgt diff zero then {| mag := diff; ang := ang a |} else {| mag := fneg diff; ang := ang b |}.
Proof. exact add_opposite. Qed.
Print Assumptions C14_opposite.

(* the fast-path tests are symmetric, so a+b and b+a take the same path *)
Theorem C14_path_symmetric : forall a b,
  aeqb (add_vv (ang a) (new one one)) (ang b) || aeqb (add_vv (ang b) (new one one)) (ang a) =
  aeqb (add_vv (ang b) (new one one)) (ang a) || aeqb (add_vv (ang a) (new one one)) (ang b).
Proof. intros a b. apply orb_comm. Qed.
Print Assumptions C14_path_symmetric.

(* general case: blade history is never lost - the sum's angle is canonical and carries at least the
   sum of the operands' blade counts, provided the re-encoded total is finite and below 2^42 in
   magnitude (guaranteed inside the domain: blades <= 2^40, |atan2| <= pi) *)
Theorem C14_general_history : forall (L : libm) a b, aeqb (ang a) (ang b) = false ->
  aeqb (add_vv (ang a) (new one one)) (ang b) || aeqb (add_vv (ang b) (new one one)) (ang a) = false ->
  (0 <= blade (ang a) + blade (ang b) < 2 ^ 53)%Z ->
  fin (total_angle (sum_adjusted L a b) PI) -> Rabs (R_ (total_angle (sum_adjusted L a b) PI)) <= bpow radix2 42 ->
  canonp (rem (ang (gadd_vv L a b))) /\ (blade (ang a) + blade (ang b) <= blade (ang (gadd_vv L a b)))%Z.
Proof. exact gadd_general_history. Qed.
Print Assumptions C14_general_history.
