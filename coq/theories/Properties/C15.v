(* C15 - trigonometric gateways.  Pinned theorems only. *)
From Coq Require Import ZArith List Bool Reals Lra.
From Flocq Require Import Core BinarySingleNaN.
Require Import GV.FloatBase GV.FloatLemmas GV.AngleM GV.AngleProofs GV.GeonumM GV.GeonumProofs GV.TraitsM.
Open Scope R_scope.

(* cos: |value| at blade 0 / 2; sin: |value| at blade 1 / 3; remainder exactly 0; for EVERY libm *)
Theorem C15_cos_encoding : forall (L : libm) a, fin (cosF L (grade_angle a)) ->
  gcos L a = {| mag := fabs (cosF L (grade_angle a));
               ang := {| rem := zero; blade := if Rlt_bool (R_ (cosF L (grade_angle a))) 0 then 2 else 0 |} |}.
Proof. exact gcos_encoding. Qed.
Print Assumptions C15_cos_encoding.
Theorem C15_sin_encoding : forall (L : libm) a, fin (sinF L (grade_angle a)) ->
  gsin L a = {| mag := fabs (sinF L (grade_angle a));
               ang := {| rem := zero; blade := if Rlt_bool (R_ (sinF L (grade_angle a))) 0 then 3 else 1 |} |}.
Proof. exact gsin_encoding. Qed.
Print Assumptions C15_sin_encoding.

(* tan is exactly the quotient sin / cos (so it panics exactly when the cosine magnitude is zero) *)
Theorem C15_tan : forall (L : libm) a, gtan L a = gdiv_vv (gsin L a) (gcos L a).
Proof. exact gtan_def. Qed.
Print Assumptions C15_tan.

Theorem C15_adj_opp : forall (L : libm) g,
  adj L g = gscale (gcos L (ang g)) (mag g) /\ opp L g = gscale (gsin L (ang g)) (mag g).
Proof. exact adj_opp_def. Qed.
Print Assumptions C15_adj_opp.
