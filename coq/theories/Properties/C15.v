(* C15 - trigonometric gateways.  Pinned theorems only. *)
From Coq Require Import ZArith List Bool Reals Lra.
From Flocq Require Import Core BinarySingleNaN.
Require Import GV.FloatBase GV.FloatLemmas GV.AngleM GV.AngleProofs GV.GeonumM GV.GeonumProofs GV.TraitsM GV.NewProofs GV.CtorProofs GV.PiBounds GV.TrigProofs GV.DotValue GV.DistValue GV.DirProofs GV.SymProofs GV.ClosureProofs GV.SwapProofs GV.TraitsProofs GV.BoundProofs GV.SumUpper GV.ProdProofs GV.FieldProofs GV.TanProofs.
Open Scope R_scope.

(* cos: |value| at blade 0 / 2; sin: |value| at blade 1 / 3; remainder exactly 0; for EVERY libm *)
Theorem C15_cos_encoding : forall (L : libm) a, fin (cosF L (grade_angle a)) ->
  gcos L a = {| mag := fabs (cosF L (grade_angle a));
               ang := {| rem := zero; blade := if Rlt_bool (R_ (cosF L (grade_angle a))) 0 then 2 else 0 |} |}.
Proof. exact gcos_encoding. Qed.
Print Assumptions C15_cos_encoding.
Theorem C15_sin_encoding : forall (L : libm) a, fin (sinF L (grade_angle a)) ->
  gsin L a = {| mag := fabs (sinF L (grade_angle a));
               ang := {| rem := zero; blade := if Rlt_bool (R_ (sinF L (grade_angle a))) 0 then 3 else 1 |} |}.
Proof. exact gsin_encoding. Qed.
Print Assumptions C15_sin_encoding.

(* tan is exactly the quotient sin / cos (so it panics exactly when the cosine magnitude is zero) *)
Theorem C15_tan : forall (L : libm) a, gtan L a = gdiv_vv (gsin L a) (gcos L a).
Proof. exact gtan_def. Qed.
Print Assumptions C15_tan.

Theorem C15_adj_opp : forall (L : libm) g,
  adj L g = gscale (gcos L (ang g)) (mag g) /\ opp L g = gscale (gsin L (ang g)) (mag g).
Proof. exact adj_opp_def. Qed.
Print Assumptions C15_adj_opp.

(* numeric values, with the REAL pi: dir a = (blade mod 4) * pi/2 + rem.  Under the accuracy hypothesis
   "libm cos (sin) is within u of the real function on [-8, 8]" the signed value carried by Geonum::cos
   (Geonum::sin) is within u + 2.5e-15 of cos (sin) of the direction; sign in the half turn, remainder 0 *)
Theorem C15_cos_value : forall (L : libm) (u : R) a, cos_acc L u -> canonp (rem a) ->
  let v := cosF L (grade_angle a) in
  fin v /\ Rabs (R_ v - cos (dir a)) <= u + 25 / 10000000000000000 /\
  gcos L a = {| mag := fabs v; ang := {| rem := zero; blade := if Rlt_bool (R_ v) 0 then 2 else 0 |} |}.
Proof. exact gcos_value. Qed.
Print Assumptions C15_cos_value.

Theorem C15_sin_value : forall (L : libm) (u : R) a, sin_acc L u -> canonp (rem a) ->
  let v := sinF L (grade_angle a) in
  fin v /\ Rabs (R_ v - sin (dir a)) <= u + 25 / 10000000000000000 /\
  gsin L a = {| mag := fabs v; ang := {| rem := zero; blade := if Rlt_bool (R_ v) 0 then 3 else 1 |} |}.
Proof. exact gsin_value. Qed.
Print Assumptions C15_sin_value.

(* the accuracy hypotheses are satisfiable with u = 2^-52 (correctly rounded real cosine / sine) *)
Theorem C15_acc_inhabited : cos_acc ideal_libm (/ 4503599627370496) /\ sin_acc ideal_libm (/ 4503599627370496).
Proof. exact acc_hyps_inhabited. Qed.
Print Assumptions C15_acc_inhabited.

(* cos^2 + sin^2 = 1 within 5(u + 2.5e-15) for the values carried by Geonum::cos and Geonum::sin *)
Theorem C15_pythagoras : forall (L : libm) (u : R) a, cos_acc L u -> sin_acc L u -> u <= / 1000 -> canonp (rem a) ->
  let c := cosF L (grade_angle a) in let s := sinF L (grade_angle a) in
  Rabs (R_ c * R_ c + R_ s * R_ s - 1) <= 5 * (u + 25 / 10000000000000000).
Proof. exact pythagoras. Qed.
Print Assumptions C15_pythagoras.

(* adj and opp carry |g||cos(dir)| and |g||sin(dir)| in magnitude within |g|(u + 3e-15) + 2^-1075 *)
Theorem C15_adj_value : forall (L : libm) (u : R) g, cos_acc L u -> u <= / 1000 -> canonp (rem (ang g)) -> fin (mag (adj L g)) ->
  Rabs (R_ (mag (adj L g)) - Rabs (R_ (mag g)) * Rabs (cos (dir (ang g))))
    <= Rabs (R_ (mag g)) * (u + 3 / 1000000000000000) + bpow radix2 (-1075).
Proof. exact adj_mag_value. Qed.
Print Assumptions C15_adj_value.

Theorem C15_opp_value : forall (L : libm) (u : R) g, sin_acc L u -> u <= / 1000 -> canonp (rem (ang g)) -> fin (mag (opp L g)) ->
  Rabs (R_ (mag (opp L g)) - Rabs (R_ (mag g)) * Rabs (sin (dir (ang g))))
    <= Rabs (R_ (mag g)) * (u + 3 / 1000000000000000) + bpow radix2 (-1075).
Proof. exact opp_mag_value. Qed.
Print Assumptions C15_opp_value.

(* tan = sin / cos: for |sin|, |cos| >= 1/1000 the magnitude carried by Geonum::tan is |tan(dir)| within a relative
   1.04 (2000 w + 3*2^-52), w = u + 2.5e-15 *)
Theorem C15_tan_value : forall (L : libm) (u : R) a, cos_acc L u -> sin_acc L u -> u <= / 1000000 -> canonp (rem a) ->
  / 1000 <= Rabs (cos (dir a)) -> / 1000 <= Rabs (sin (dir a)) ->
  forall t, gtan L a = Some t -> fin (mag t) ->
  Rabs (R_ (mag t) - Rabs (sin (dir a)) / Rabs (cos (dir a)))
    <= (2000 * (u + 25 / 10000000000000000) + 3 * / 4503599627370496) * (1 + / 25) * (Rabs (sin (dir a)) / Rabs (cos (dir a))).
Proof. exact tan_value. Qed.
Print Assumptions C15_tan_value.
