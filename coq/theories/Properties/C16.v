(* C16 - equality is blade-exact and ordering is a lawful total order.  Pinned theorems only. *)
From Coq Require Import ZArith List Bool Reals Lra Sorting.Permutation Sorting.Sorted.
From Flocq Require Import Core BinarySingleNaN.
Require Import GV.FloatBase GV.FloatLemmas GV.AngleM GV.AngleProofs GV.GeonumM GV.Interp GV.OrderProofs.
Open Scope R_scope.

(* cmp is total on finite values and IS the lexicographic order on (blade, rem [, mag]) *)
Theorem C16_cmp_lex : forall a b, finA a -> finA b -> acmp a b = Some (alex a b).
Proof. exact acmp_alex. Qed.
Print Assumptions C16_cmp_lex.
Theorem C16_gcmp_lex : forall a b, finG a -> finG b -> gcmp a b = Some (glex a b).
Proof. exact gcmp_glex. Qed.
Print Assumptions C16_gcmp_lex.

(* order laws of that lexicographic order: reflexive, antisymmetric, transitive *)
Theorem C16_order_laws :
  (forall a, alex a a = Eq) /\ (forall a b, alex b a = CompOpp (alex a b)) /\
  (forall a b c, alex a b = Lt -> alex b c = Lt -> alex a c = Lt) /\
  (forall a b, alex a b = Eq <-> blade a = blade b /\ R_ (rem a) = R_ (rem b)).
Proof. exact order_laws. Qed.
Print Assumptions C16_order_laws.
Theorem C16_gorder_laws :
  (forall a, glex a a = Eq) /\ (forall a b, glex b a = CompOpp (glex a b)) /\
  (forall a b c, glex a b = Lt -> glex b c = Lt -> glex a c = Lt).
Proof. exact gorder_laws. Qed.
Print Assumptions C16_gorder_laws.

(* partial comparison always agrees with comparison *)
Theorem C16_partial_cmp : forall a b, finA a -> finA b -> apartial_cmp a b = Some (acmp a b).
Proof. exact apartial_cmp_agrees. Qed.
Print Assumptions C16_partial_cmp.
Theorem C16_gpartial_cmp : forall a b, finG a -> finG b -> gpartial_cmp a b = Some (gcmp a b).
Proof. exact gpartial_cmp_agrees. Qed.
Print Assumptions C16_gpartial_cmp.

(* equal only if the blades are identical and the remainders agree within the 1e-15 test *)
Theorem C16_eq : forall a b, canonp (rem a) -> canonp (rem b) -> aeqb a b = true ->
  blade a = blade b /\ (Rabs (rnd (R_ (rem a) - R_ (rem b))) < R_ eps15 \/ R_ (rem a) = R_ (rem b)).
Proof. exact aeqb_true. Qed.
Print Assumptions C16_eq.
Theorem C16_geq : forall a b, fin (mag a) -> fin (mag b) -> canonp (rem (ang a)) -> canonp (rem (ang b)) ->
  geqb a b = true -> R_ (mag a) = R_ (mag b) /\ blade (ang a) = blade (ang b).
Proof. exact geqb_true. Qed.
Print Assumptions C16_geq.

(* agreement of == with cmp: one direction holds ... *)
Theorem C16_cmp_eq_implies_eq : forall a b, finA a -> finA b -> acmp a b = Some Eq -> aeqb a b = true.
Proof. exact acmp_eq_aeqb. Qed.
Print Assumptions C16_cmp_eq_implies_eq.
(* ... the other is FALSE of the faithful model (known finding F6): a witness pair inside the 1e-15 band *)
Theorem C16_eq_cmp_refuted :
  aeqb band_a band_b = true /\ acmp band_a band_b = Some Lt /\ blade band_a = blade band_b.
Proof. exact eq_cmp_band_refuted. Qed.
Print Assumptions C16_eq_cmp_refuted.

(* sorting: on finite values the reference stable sort (to which Vec::sort is compared bit-for-bit)
   terminates without panic with a sorted permutation *)
Theorem C16_sort : forall l, Forall finG l ->
  exists r, sort_model l = Some r /\ Permutation l r /\ Sorted gle_lex r /\ Forall finG r.
Proof. exact sort_model_ok. Qed.
Print Assumptions C16_sort.
