(* C17 - GeoCollection operations are exact filters and element-wise maps.  Pinned theorems only. *)
From Coq Require Import ZArith List Bool Reals Lra.
From Flocq Require Import Core BinarySingleNaN.
Require Import GV.FloatBase GV.FloatLemmas GV.AngleM GV.GeonumM GV.CollM GV.OrderProofs GV.CollProofs GV.AngleProofs GV.NewProofs GV.CtorProofs GV.GeonumProofs GV.DistValue GV.SumProofs GV.TraitsM GV.TraitsProofs GV.BoundProofs GV.ClosureProofs GV.SumUpper GV.PiBounds GV.TrigProofs GV.DotValue GV.ProdProofs GV.DirProofs GV.FieldProofs GV.ConeProofs GV.Atan2Ideal GV.ConeDecide.
Import ListNotations.
Open Scope R_scope.

Theorem C17_truncate : forall c t,
  truncate c t = filter (fun g => fgt (mag g) t) c /\ Subseq (truncate c t) c /\
  (forall g, In g (truncate c t) <-> In g c /\ fgt (mag g) t = true).
Proof. exact truncate_spec. Qed.
Print Assumptions C17_truncate.

(* strictly above the threshold, as a statement about real numbers *)
Theorem C17_truncate_strict : forall c t g, fin (mag g) -> fin t ->
  (In g (truncate c t) <-> In g c /\ R_ t < R_ (mag g)).
Proof. exact truncate_strict. Qed.
Print Assumptions C17_truncate_strict.

Theorem C17_select_cone : forall (L : libm) c d h,
  select_cone L c d h = filter (cone_pred L d h) c /\ Subseq (select_cone L c d h) c /\
  (forall g, In g (select_cone L c d h) <-> In g c /\ cone_pred L d h g = true).
Proof. exact select_cone_spec. Qed.
Print Assumptions C17_select_cone.

Theorem C17_cone_excludes_zero : forall (L : libm) d h g,
  cone_pred L d h g = true -> feq (fmul (mag g) (mag d)) zero = false.
Proof. exact cone_excludes_zero. Qed.
Print Assumptions C17_cone_excludes_zero.

Theorem C17_scale_all : forall c f,
  scale_all c f = map (fun g => gscale g f) c /\ length (scale_all c f) = length c /\
  (forall i, nth_error (scale_all c f) i = option_map (fun g => gscale g f) (nth_error c i)).
Proof. exact scale_all_spec. Qed.
Print Assumptions C17_scale_all.

Theorem C17_rotate_all : forall c r,
  rotate_all c r = map (fun g => grotate g r) c /\ length (rotate_all c r) = length c /\
  (forall i, nth_error (rotate_all c r) i = option_map (fun g => grotate g r) (nth_error c i)).
Proof. exact rotate_all_spec. Qed.
Print Assumptions C17_rotate_all.

Theorem C17_total : forall c, total_magnitude c = fold_left (fun acc g => fadd acc (mag g)) c nzero.
Proof. exact total_magnitude_spec. Qed.
Print Assumptions C17_total.

Theorem C17_dominant : forall c, Forall (fun g => fin (mag g)) c ->
  (dominant c = Some None <-> c = []) /\
  (c <> [] -> exists d, dominant c = Some (Some d) /\ In d c /\ Forall (fun g => R_ (mag g) <= R_ (mag d)) c).
Proof. exact dominant_spec. Qed.
Print Assumptions C17_dominant.

Theorem C17_conversions : forall v : list geonum,
  cfrom v = v /\ cfrom_iter v = v /\ citer v = v /\ cinto_iter v = v /\ cas_ref v = v /\
  clen v = Z.of_nat (length v) /\ (cis_empty v = true <-> v = []).
Proof. exact conversions_identity. Qed.
Print Assumptions C17_conversions.

(* total_magnitude IS the sum of the member magnitudes: for non-negative magnitudes and a finite result the
   recursive summation error is at most sum * ((1+2^-53)^n - 1) + n 2^-1075 (1+2^-53)^n, n the length *)
Theorem C17_total_value : forall c, fin (total_magnitude c) -> Forall (fun g => 0 <= R_ (mag g)) c ->
  Rabs (R_ (total_magnitude c) - rsum c)
    <= rsum c * ((1 + eps) ^ length c - 1) + INR (length c) * bpow radix2 (-1075) * ((1 + eps) ^ length c).
Proof. exact total_value. Qed.
Print Assumptions C17_total_value.

Theorem C17_rsum_def : rsum [] = 0 /\ (forall g t, rsum (g :: t) = R_ (mag g) + rsum t) /\ eps = / 9007199254740992.
Proof. split; [reflexivity|]. split; [reflexivity|reflexivity]. Qed.
Print Assumptions C17_rsum_def.

(* the cone predicate: non-zero magnitude product and acosF(clamp(signed cosine)) <=_F half-angle *)
Theorem C17_cone_pred_unfold : forall (L : libm) direction half g,
  cone_pred L direction half g =
    if feq (fmul (mag g) (mag direction)) zero then false
    else fle (acosF L (fclamp (cone_signed_cos L direction g) (fneg one) one)) half.
Proof. exact cone_pred_unfold. Qed.
Print Assumptions C17_cone_pred_unfold.

(* NUMERIC READING: the signed cosine fed to acos IS the cosine of the real direction difference between the member and
   the axis (REAL pi), within 2.1 u + 2.01e-10, for any libm whose cos is accurate to u (magnitude product in
   [2^-500, 2^500]) - so the selected members are those whose unsigned angle to the axis is at most the half-angle, up
   to libm's acos and that tolerance *)
Theorem C17_cone_signed_cos : forall (L : libm) (u : R) direction g, cos_acc L u -> u <= / 1000 ->
  canonp (rem (ang g)) -> canonp (rem (ang direction)) -> (0 <= blade (ang g))%Z -> (0 <= blade (ang direction))%Z ->
  fin (dot_value L g direction) -> fin (cone_signed_cos L direction g) ->
  bpow radix2 (-500) <= R_ (mag g) * R_ (mag direction) <= bpow radix2 500 ->
  Rabs (R_ (cone_signed_cos L direction g) - cos (dir (ang direction) - dir (ang g)))
    <= 21 / 10 * u + 201 / 1000000000000.
Proof. exact cone_signed_cos_value. Qed.
Print Assumptions C17_cone_signed_cos.

(* WHAT THE CONE DECIDES (REAL pi, cos, acos): for any libm whose cos is accurate to u and whose acos is accurate to ua on
   [-1,1] (acos_acc, an explicit premise, monitored on every recorded call), with c the cosine of the real direction
   difference between member and axis (= the cosine of their unsigned angle) and e = 2.1u + 2.01e-10:
   a KEPT member satisfies cos(half + ua) - e <= c (its unsigned angle is at most the half-angle, up to ua and e);
   a DROPPED member satisfies c < cos(half - ua) + e (its unsigned angle exceeds the half-angle, up to ua and e);
   nothing is kept when half + ua < 0 and nothing is dropped when half - ua >= pi *)
Theorem C17_cone_decides : forall (L : libm) (ua : R), acos_acc L ua -> forall (u : R) direction half g, cos_acc L u -> u <= / 1000 ->
  canonp (rem (ang g)) -> canonp (rem (ang direction)) -> (0 <= blade (ang g))%Z -> (0 <= blade (ang direction))%Z ->
  fin (dot_value L g direction) -> fin (cone_signed_cos L direction g) -> fin half ->
  bpow radix2 (-500) <= R_ (mag g) * R_ (mag direction) <= bpow radix2 500 ->
  feq (fmul (mag g) (mag direction)) zero = false ->
  let c := cos (dir (ang direction) - dir (ang g)) in
  let e := 21 / 10 * u + 201 / 1000000000000 in
  (cone_pred L direction half g = true ->
     0 <= R_ half + ua /\ (R_ half + ua <= Rtrigo1.PI -> cos (R_ half + ua) - e <= c)) /\
  (cone_pred L direction half g = false ->
     R_ half - ua < Rtrigo1.PI /\ (0 <= R_ half - ua -> c < cos (R_ half - ua) + e)).
Proof. exact cone_decides_angle. Qed.
Print Assumptions C17_cone_decides.

Theorem C17_acos_acc_def : forall L ua, acos_acc L ua <->
  forall x, fin x -> -1 <= R_ x <= 1 -> fin (acosF L x) /\ Rabs (R_ (acosF L x) - acos (R_ x)) <= ua.
Proof. intros; unfold acos_acc; tauto. Qed.
Print Assumptions C17_acos_acc_def.

(* the two libm premises are jointly satisfiable (correctly rounded real cos and acos) *)
Theorem C17_cone_premises_inhabited : cos_acc ideal_libm3 (/ 4503599627370496) /\ acos_acc ideal_libm3 (/ 1125899906842624) /\
  / 4503599627370496 <= / 1000.
Proof. exact ideal3_hyps. Qed.
Print Assumptions C17_cone_premises_inhabited.
