(* C18 - domain helpers equal their documented closed forms (for every libm).  Pinned theorems only. *)
From Coq Require Import ZArith List Bool Reals Lra.
From Flocq Require Import Core BinarySingleNaN.
Require Import GV.FloatBase GV.FloatLemmas GV.AngleM GV.AngleProofs GV.GeonumM GV.GeonumProofs GV.TraitsM GV.TraitsProofs.
Import ListNotations.
Open Scope R_scope.

Theorem C18_affine : forall (L : libm) g d a p1 p2 p3 p4,
  translate L g d = gadd_vv L g d /\
  shear g a = grotate g a /\
  area_quadrilateral L p1 p2 p3 p4 =
    fadd (fdiv (mag (wedge L (gsub_vv L p2 p1) (gsub_vv L p3 p1))) two)
         (fdiv (mag (wedge L (gsub_vv L p3 p1) (gsub_vv L p4 p1))) two).
Proof. exact affine_closed_forms. Qed.
Print Assumptions C18_affine.

Theorem C18_projection : forall g a h, view g a = grotate g a /\ compose g h = gmul_vv g h.
Proof. exact projection_closed_forms. Qed.
Print Assumptions C18_projection.

Theorem C18_waves : forall (L : libm) g t x vel k w o iv,
  propagate L g t x vel = {| mag := mag g; ang := geometric_add (ang g) (ang (gsub_vv L x (gmul_vv vel t))) |} /\
  disperse L x t k w = {| mag := one; ang := ang (gsub_vv L (gmul_vv k x) (gmul_vv w t)) |} /\
  wfrequency L g o iv = {| mag := fdiv (mag (gsub_vv L g o)) (mag iv); ang := quarter |} /\
  wwavenumber L g o iv = {| mag := fdiv (mag (gsub_vv L g o)) (mag iv); ang := quarter |}.
Proof. exact waves_closed_forms. Qed.
Print Assumptions C18_waves.

Theorem C18_ml : forall (L : libm) g w b,
  forward_pass g w b = {| mag := fadd (fmul (mag g) (mag w)) (mag b); ang := geometric_add (ang g) (ang w) |} /\
  activate L g Identity = g /\
  activate L g ReLU = {| mag := if fgt (cosF L (grade_angle (ang g))) zero then mag g else zero; ang := ang g |} /\
  activate L g Sigmoid = {| mag := fdiv (mag g) (fadd one (expF L (fneg (cosF L (grade_angle (ang g)))))); ang := ang g |} /\
  activate L g Tanh = {| mag := fmul (mag g) (tanhF L (cosF L (grade_angle (ang g)))); ang := ang g |}.
Proof. exact ml_closed_forms. Qed.
Print Assumptions C18_ml.

Theorem C18_ml2 : forall (L : libm) c v g lr e i,
  regression_from L c v = {| mag := fsqrt (fdiv (fmul c c) v); ang := new (atan2F L c v) PI |} /\
  perceptron_update g lr e i =
    {| mag := fadd (mag g) (fmul (fmul lr e) (mag i));
       ang := geometric_add (ang g)
                (new (fdiv (fmul (fmul (fneg lr) e) (if (grade (ang i) >? 2)%Z then fneg one else one)) PI) one) |}.
Proof. exact regression_perceptron_forms. Qed.
Print Assumptions C18_ml2.

Theorem C18_em : forall (L : libm) ch d p a k e b r cur perm,
  inverse_field L ch d p a k =
    {| mag := fdiv (fmul (mag k) (mag ch)) (powF L (mag d) (mag p));
       ang := if fge (cosF L (grade_angle (ang ch))) zero then a else geometric_add a half_turn |} /\
  electric_potential ch d = gdiv_vv (gmul_vv ch coulomb_k) d /\
  electric_field L ch d = inverse_field L ch d (scalar two) half_turn coulomb_k /\
  poynting_vector L e b = {| mag := fdiv (mag (wedge L e b)) VACUUM_PERMEABILITY; ang := ang (wedge L e b) |} /\
  wire_vector_potential L r cur perm =
    {| mag := fdiv (fmul (fmul (mag perm) (mag cur)) (lnF L (mag r))) (fmul two PI); ang := quarter |} /\
  wire_magnetic_field r cur perm =
    {| mag := fdiv (fmul (mag perm) (mag cur)) (fmul (fmul two PI) (mag r)); ang := at_zero |}.
Proof. exact em_closed_forms. Qed.
Print Assumptions C18_em.

Theorem C18_spherical_wave : forall (L : libm) r t k s,
  let potential := fdiv (cosF L (fsub (fmul (mag k) (mag r)) (fmul (fmul (mag k) (mag s)) (mag t)))) (mag r) in
  spherical_wave_potential L r t k s =
    {| mag := fabs potential; ang := if fge potential zero then at_zero else half_turn |}.
Proof. exact spherical_wave_form. Qed.
Print Assumptions C18_spherical_wave.

Theorem C18_constants :
  SPEED_OF_LIGHT = lit_3e8 /\ VACUUM_PERMEABILITY = fmul (fmul four PI) lit_1em7 /\
  VACUUM_PERMITTIVITY = fdiv one (fmul (fmul VACUUM_PERMEABILITY SPEED_OF_LIGHT) SPEED_OF_LIGHT) /\
  VACUUM_IMPEDANCE = fmul VACUUM_PERMEABILITY SPEED_OF_LIGHT.
Proof. exact em_constants. Qed.
Print Assumptions C18_constants.

Theorem C18_optics : forall (L : libm) g n f w m a b c d,
  refract L g n = {| mag := mag g; ang := new (asinF L (fdiv (sinF L (grade_angle (ang g))) (mag n))) PI |} /\
  otf g f w = {| mag := fdiv (mag g) (fmul (mag w) (mag f)); ang := geometric_add (ang g) quarter |} /\
  magnify L g m =
    {| mag := fmul (mag g) (fdiv one (fmul (mag m) (mag m)));
       ang := new (fdiv (fneg (sinF L (grade_angle (ang g)))) (mag m)) PI |} /\
  abcd_transform g a b c d =
    {| mag := fadd (fmul (mag a) (mag g)) (fmul (mag b) (grade_angle (ang g)));
       ang := new (fadd (fmul (mag c) (mag g)) (fmul (mag d) (grade_angle (ang g)))) PI |}.
Proof. exact optics_closed_forms. Qed.
Print Assumptions C18_optics.

Theorem C18_aberrate : forall (L : libm) g zs,
  aberrate L g zs =
    {| mag := mag g;
       ang := fold_left (fun ph term =>
                geometric_add ph (new (fmul (mag term) (cosF L (fmul (sinF L (grade_angle (ang term))) three))) PI))
              zs (ang g) |}.
Proof. exact aberrate_fold. Qed.
Print Assumptions C18_aberrate.
