(* C19 - helper scaling and invariance laws: structural part (for every libm).  Pinned theorems only. *)
From Coq Require Import ZArith List Bool Reals Lra.
From Flocq Require Import Core BinarySingleNaN.
Require Import GV.FloatBase GV.FloatLemmas GV.AngleM GV.AngleProofs GV.GeonumM GV.GeonumProofs GV.TraitsM GV.TraitsProofs GV.BoundProofs GV.NewProofs GV.CtorProofs GV.ClosureProofs GV.PiBounds GV.TrigProofs GV.DotValue GV.ProdProofs GV.SumUpper GV.DistValue GV.FieldProofs GV.DirProofs GV.SumDir GV.SnellProofs GV.Poynting.
Import ListNotations.
Open Scope R_scope.

Theorem C19_activation_keeps_angle : forall (L : libm) g act, ang (activate L g act) = ang g.
Proof. exact activation_keeps_angle. Qed.
Print Assumptions C19_activation_keeps_angle.

(* ReLU passes the magnitude bit-exactly iff cosF t >_F 0 and otherwise returns +0 *)
Theorem C19_relu : forall (L : libm) g,
  (fgt (cosF L (grade_angle (ang g))) zero = true -> mag (activate L g ReLU) = mag g) /\
  (fgt (cosF L (grade_angle (ang g))) zero = false -> mag (activate L g ReLU) = zero).
Proof. exact relu_law. Qed.
Print Assumptions C19_relu.

(* propagation preserves magnitude, dispersion has unit magnitude, refraction preserves magnitude - bit-exactly *)
Theorem C19_magnitudes : forall (L : libm) g t x vel k w n,
  mag (propagate L g t x vel) = mag g /\ mag (disperse L x t k w) = one /\ mag (refract L g n) = mag g.
Proof. exact magnitude_laws. Qed.
Print Assumptions C19_magnitudes.

(* negative charge: the field direction is the given angle plus exactly two blades, same remainder *)
Theorem C19_negative_charge : forall a, canonp (rem a) -> steps_to a (geometric_add a half_turn) 2.
Proof. exact negative_charge_half_turn. Qed.
Print Assumptions C19_negative_charge.

Theorem C19_otf_phase : forall g f w, canonp (rem (ang g)) -> steps_to (ang g) (ang (otf g f w)) 1.
Proof. exact otf_phase. Qed.
Print Assumptions C19_otf_phase.

(* magnification: intensity scaled by exactly fl(1 / fl(m*m)) *)
Theorem C19_magnify_intensity : forall (L : libm) g m,
  mag (magnify L g m) = fmul (mag g) (fdiv one (fmul (mag m) (mag m))).
Proof. reflexivity. Qed.
Print Assumptions C19_magnify_intensity.

(* |tanh output| <= magnitude, under the range hypothesis |tanh| <= 1 (finite) *)
Theorem C19_tanh_bound : forall (L : libm) g, tanh_range L -> fin (mag g) -> Rabs (R_ (mag g)) <= bpow radix2 1000 ->
  Rabs (R_ (mag (activate L g Tanh))) <= Rabs (R_ (mag g)).
Proof. exact tanh_activation_bound. Qed.
Print Assumptions C19_tanh_bound.

Theorem C19_range_hyps_inhabited : exists L, cos_range L /\ tanh_range L.
Proof. exact range_hyps_inhabited. Qed.
Print Assumptions C19_range_hyps_inhabited.

(* the sigmoid activation keeps the angle and stays within [0, magnitude], under the explicit range premise
   that exp returns a finite value in [0, 2^999] *)
Theorem C19_sigmoid_bound : forall (L : libm) g, exp_range L -> fin (mag g) -> 0 <= R_ (mag g) <= bpow radix2 1000 ->
  let r := activate L g Sigmoid in
  ang r = ang g /\ fin (mag r) /\ 0 <= R_ (mag r) <= R_ (mag g).
Proof. exact sigmoid_bound. Qed.
Print Assumptions C19_sigmoid_bound.

Theorem C19_exp_range_inhabited : exists L, exp_range L.
Proof. exact exp_range_inhabited. Qed.
Print Assumptions C19_exp_range_inhabited.

(* the inverse-power field has magnitude k q / r^n (REAL power r^n = exp(n ln r)) within a relative
   1.04 (up + 3*2^-52), for any libm whose pow call here is finite and within a relative up of r^n *)
Theorem C19_inverse_field_value : forall (L : libm) (up : R) charge distance power a constant, 0 <= up <= / 200 ->
  fin (powF L (mag distance) (mag power)) ->
  Rabs (R_ (powF L (mag distance) (mag power)) - Rpower (R_ (mag distance)) (R_ (mag power)))
    <= up * Rpower (R_ (mag distance)) (R_ (mag power)) ->
  fin (mag (inverse_field L charge distance power a constant)) ->
  bpow radix2 (-500) <= R_ (mag constant) * R_ (mag charge) ->
  bpow radix2 (-500) <= R_ (mag constant) * R_ (mag charge) / Rpower (R_ (mag distance)) (R_ (mag power)) ->
  let ideal := R_ (mag constant) * R_ (mag charge) / Rpower (R_ (mag distance)) (R_ (mag power)) in
  Rabs (R_ (mag (inverse_field L charge distance power a constant)) - ideal)
    <= (up + 3 * / 4503599627370496) * (1 + / 25) * ideal.
Proof. exact inverse_field_value. Qed.
Print Assumptions C19_inverse_field_value.

(* the magnetic field of a straight wire is mu I / (2 pi r) with the REAL pi, relative error 4.2*2^-52 (no libm) *)
Theorem C19_wire_field_value : forall r current permeability,
  fin (mag (wire_magnetic_field r current permeability)) ->
  bpow radix2 (-500) <= R_ (mag permeability) * R_ (mag current) ->
  bpow radix2 (-500) <= R_ (mag r) <= bpow radix2 500 ->
  bpow radix2 (-500) <= R_ (mag permeability) * R_ (mag current) / (2 * Rtrigo1.PI * R_ (mag r)) ->
  let ideal := R_ (mag permeability) * R_ (mag current) / (2 * Rtrigo1.PI * R_ (mag r)) in
  Rabs (R_ (mag (wire_magnetic_field r current permeability)) - ideal) <= 42 / 10 * / 4503599627370496 * ideal.
Proof. exact wire_field_value. Qed.
Print Assumptions C19_wire_field_value.

(* SNELL: sin(refracted direction) = sin(incident direction) / n with the REAL pi and sin, magnitude untouched, for
   any libm whose sin is accurate to u on [-8,8] and whose asin call here returns a finite angle in [-2,2] whose sine
   reproduces its argument within ua (relational premise on that one call); 1/1024 <= n <= 1024 *)
Theorem C19_snell : forall (L : libm) (u ua : R) g ri, sin_acc L u -> u <= / 1000 -> canonp (rem (ang g)) ->
  fin (mag ri) -> 1 / 1024 <= R_ (mag ri) <= 1024 ->
  let arg := fdiv (sinF L (grade_angle (ang g))) (mag ri) in
  let as_ := asinF L arg in
  fin as_ -> Rabs (R_ as_) <= 2 -> Rabs (sin (R_ as_) - R_ arg) <= ua ->
  let r := refract L g ri in
  mag r = mag g /\ Canon (ang r) /\
  Rabs (sin (dirR (ang r)) - sin (dir (ang g)) / R_ (mag ri))
    <= ua + R_ eps10 + 3 / 100000000000000 + (u + 3 / 1000000000000000) / R_ (mag ri).
Proof. exact snell. Qed.
Print Assumptions C19_snell.

(* Poynting vector (REAL pi, sin): |S| = |E||B||sin(angle between)| / mu0, mu0 the double 4 pi 1e-7 = 5934300740056779 * 2^-72,
   carried at the wedge's angle; B is the wedge-magnitude allowance of C10_wedge_value *)
Theorem C19_poynting_value : forall (L : libm) (u : R) a b, sin_acc L u -> u <= / 1000 ->
  canonp (rem (ang a)) -> canonp (rem (ang b)) -> (0 <= blade (ang a))%Z -> (0 <= blade (ang b))%Z ->
  fin (mag (wedge L a b)) -> fin (mag (poynting_vector L a b)) ->
  let mu := R_ VACUUM_PERMEABILITY in
  let X := R_ (mag a) * R_ (mag b) * Rabs (sin (dir (ang b) - dir (ang a))) in
  let B := Rabs (R_ (mag a) * R_ (mag b)) * (u + 10002 / 100000000000000) + bpow radix2 (-1073) in
  ang (poynting_vector L a b) = ang (wedge L a b) /\
  Rabs (R_ (mag (poynting_vector L a b)) - X / mu) <= (B + / 9007199254740992 * (Rabs X + B)) / mu + bpow radix2 (-1075).
Proof. exact poynting_value. Qed.
Print Assumptions C19_poynting_value.

Theorem C19_mu0_value : fin VACUUM_PERMEABILITY /\ R_ VACUUM_PERMEABILITY = 5934300740056779 * / 4722366482869645213696.
Proof. exact mu0_val. Qed.
Print Assumptions C19_mu0_value.
