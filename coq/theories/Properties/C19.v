(* C19 - helper scaling and invariance laws: structural part (for every libm).  Pinned theorems only. *)
From Coq Require Import ZArith List Bool Reals Lra.
From Flocq Require Import Core BinarySingleNaN.
Require Import GV.FloatBase GV.FloatLemmas GV.AngleM GV.AngleProofs GV.GeonumM GV.GeonumProofs GV.TraitsM GV.TraitsProofs GV.BoundProofs.
Import ListNotations.
Open Scope R_scope.

Theorem C19_activation_keeps_angle : forall (L : libm) g act, ang (activate L g act) = ang g.
Proof. exact activation_keeps_angle. Qed.
Print Assumptions C19_activation_keeps_angle.

(* ReLU passes the magnitude bit-exactly iff cosF t >_F 0 and otherwise returns +0 *)
Theorem C19_relu : forall (L : libm) g,
  (fgt (cosF L (grade_angle (ang g))) zero = true -> mag (activate L g ReLU) = mag g) /\
  (fgt (cosF L (grade_angle (ang g))) zero = false -> mag (activate L g ReLU) = zero).
Proof. exact relu_law. Qed.
Print Assumptions C19_relu.

(* propagation preserves magnitude, dispersion has unit magnitude, refraction preserves magnitude - bit-exactly *)
Theorem C19_magnitudes : forall (L : libm) g t x vel k w n,
  mag (propagate L g t x vel) = mag g /\ mag (disperse L x t k w) = one /\ mag (refract L g n) = mag g.
Proof. exact magnitude_laws. Qed.
Print Assumptions C19_magnitudes.

(* negative charge: the field direction is the given angle plus exactly two blades, same remainder *)
Theorem C19_negative_charge : forall a, canonp (rem a) -> steps_to a (geometric_add a half_turn) 2.
Proof. exact negative_charge_half_turn. Qed.
Print Assumptions C19_negative_charge.

Theorem C19_otf_phase : forall g f w, canonp (rem (ang g)) -> steps_to (ang g) (ang (otf g f w)) 1.
Proof. exact otf_phase. Qed.
Print Assumptions C19_otf_phase.

(* magnification: intensity scaled by exactly fl(1 / fl(m*m)) *)
Theorem C19_magnify_intensity : forall (L : libm) g m,
  mag (magnify L g m) = fmul (mag g) (fdiv one (fmul (mag m) (mag m))).
Proof. reflexivity. Qed.
Print Assumptions C19_magnify_intensity.

(* |tanh output| <= magnitude, under the range hypothesis |tanh| <= 1 (finite) *)
Theorem C19_tanh_bound : forall (L : libm) g, tanh_range L -> fin (mag g) -> Rabs (R_ (mag g)) <= bpow radix2 1000 ->
  Rabs (R_ (mag (activate L g Tanh))) <= Rabs (R_ (mag g)).
Proof. exact tanh_activation_bound. Qed.
Print Assumptions C19_tanh_bound.

Theorem C19_range_hyps_inhabited : exists L, cos_range L /\ tanh_range L.
Proof. exact range_hyps_inhabited. Qed.
Print Assumptions C19_range_hyps_inhabited.
