(* C20 - optional features are independent and do not alter core behaviour.  Pinned theorems only.
   The table `items` is regenerated from /repo's Cargo.toml and #[cfg] attributes on every run. *)
From Coq Require Import List String Bool.
Require Import GV.FeatureModel GVgen.FeaturesGen GV.Features.
Import ListNotations.
Open Scope string_scope.

(* for all 64 subsets S of the six optional features: *)
Theorem C20_closed : forall S : config, closed_under items S = true.
Proof. exact closed_all. Qed.
Print Assumptions C20_closed.

Theorem C20_usable : forall (S : config) (f : feat), usable items S f = true.
Proof. exact usable_all. Qed.
Print Assumptions C20_usable.

Theorem C20_helpers_off : forall S : config, helpers_off items S = true.
Proof. exact helpers_off_all. Qed.
Print Assumptions C20_helpers_off.

Theorem C20_default_empty : default_features = [] /\ config_of default_features = empty_config.
Proof. exact default_is_empty. Qed.
Print Assumptions C20_default_empty.

Theorem C20_all_alias :
  config_of all_alias = mkCfg true true true true true true /\
  forallb (fun d => match snd d with [] => true | _ => false end) feature_deps = true /\
  map feat_name all_feats = declared_features.
Proof. exact all_alias_complete. Qed.
Print Assumptions C20_all_alias.

Theorem C20_core_cfg_free :
  core_cfg_free items = true /\ own_feature_only items = true /\ inline_cfg_uses = [].
Proof. exact core_is_cfg_free. Qed.
Print Assumptions C20_core_cfg_free.
