(* RealPi: Angle::new(p, d) against the REAL p*pi/d (C02). *)
From Coq Require Import ZArith List Bool Reals Lra Lia Psatz.
From Flocq Require Import Core BinarySingleNaN.
Require Import GV.FloatBase GV.FloatLemmas GV.AngleM GV.AngleProofs GV.NewProofs GV.CtorProofs GV.GeonumM GV.GeonumProofs
  GV.ClosureProofs GV.SumUpper GV.PiBounds GV.TrigProofs GV.DotValue GV.DistValue GV.DirProofs GV.SumDir GV.ProdProofs GV.CartCtor.
Open Scope R_scope.

Lemma fdiv_fin_R x y : fin (fdiv x y) -> R_ y <> 0 -> fin x /\ R_ (fdiv x y) = rnd (R_ x / R_ y).
Proof.
intros Fd Ny. generalize (Bdiv_correct prec emax Hprec Hmax mode_NE x y Ny).
destruct (Rlt_bool _ _).
- intros (A & B & _). unfold fin, fdiv in *. rewrite Fd in B. split; [now symmetry|exact A].
- intros O. exfalso. unfold fin, fdiv in Fd. rewrite <- is_finite_SF_B2SF, O in Fd. discriminate.
Qed.

(* the computed total fl(fl(p*PI)/d) against the real p*pi/d *)
Lemma total_real_pi p d : fin (total_angle p d) -> bpow radix2 (-500) <= Rabs (R_ d) ->
  Rabs (R_ (total_angle p d) - R_ p * Rtrigo1.PI / R_ d)
    <= 5 / 10000000000000000 * Rabs (R_ (total_angle p d)) + bpow radix2 (-570).
Proof.
intros Ft Hd. unfold total_angle in *.
pose proof (bpow_gt_0 radix2 (-500)) as H500.
assert (Nd : R_ d <> 0). { intros Z. rewrite Z, Rabs_R0 in Hd. lra. }
destruct (fdiv_fin_R _ _ Ft Nd) as (Fm & Vt). destruct (fmul_fin_R _ _ Fm) as (Fp & _ & Vm).
destruct PIval as [VP FP]. assert (P : R_ PI = 14148475504056880 / 4503599627370496) by (rewrite VP, Qval; lra).
rewrite P in Vm. set (c := 14148475504056880 / 4503599627370496) in *. assert (Cc : 3 < c < 4) by (unfold c; lra).
pose proof q_close_to_half_pi as QP. apply Rabs_le_inv in QP.
assert (PC : Rabs (Rtrigo1.PI - c) <= 2 / 10000000000000000) by (unfold c; apply Rabs_le; lra).
set (X := R_ p) in *. set (Dd := R_ d) in *. set (m := R_ (fmul p PI)) in *. set (t := R_ (fdiv (fmul p PI) d)) in *.
set (q := X * c / Dd).
pose proof (bpow_gt_0 radix2 (-1075)) as Hp. set (eta := bpow radix2 (-1075)) in *.
assert (AD : 0 < Rabs Dd) by lra.
set (eta' := eta / Rabs Dd).
assert (E' : 0 <= eta' <= bpow radix2 (-575)).
{ unfold eta'. split; [apply Rmult_le_pos; [lra|left; apply Rinv_0_lt_compat; exact AD]|].
  apply Rmult_le_reg_r with (Rabs Dd); [exact AD|]. unfold Rdiv. rewrite Rmult_assoc, Rinv_l by lra. rewrite Rmult_1_r.
  apply Rle_trans with (bpow radix2 (-575) * bpow radix2 (-500)); [|apply Rmult_le_compat_l; [apply bpow_ge_0|exact Hd]].
  rewrite <- bpow_plus. unfold eta. apply bpow_le. lia. }
(* m / d against q *)
pose proof (rnd_rel (X * c)) as Em. rewrite <- Vm in Em. fold eta in Em.
assert (MQ : Rabs (m / Dd - q) <= / 9007199254740992 * Rabs q + eta').
{ unfold q, eta'. replace (m / Dd - X * c / Dd) with ((m - X * c) / Dd) by (field; exact Nd).
  unfold Rdiv at 1. rewrite Rabs_mult, Rabs_inv.
  unfold Rdiv at 1. rewrite Rabs_mult, Rabs_inv.
  apply Rle_trans with ((/ 9007199254740992 * Rabs (X * c) + eta) * / Rabs Dd).
  - apply Rmult_le_compat_r; [left; apply Rinv_0_lt_compat; exact AD|exact Em].
  - unfold Rdiv. lra. }
pose proof (rnd_rel (m / Dd)) as Et. rewrite <- Vt in Et. fold eta in Et.
assert (MB : Rabs (m / Dd) <= Rabs q * (1 + / 9007199254740992) + eta').
{ replace (m / Dd) with ((m / Dd - q) + q) by ring. eapply Rle_trans; [apply Rabs_triang|]. lra. }
assert (TQ : Rabs (t - q) <= 3 * / 9007199254740992 * Rabs q + 3 * eta' + eta).
{ replace (t - q) with ((t - m / Dd) + (m / Dd - q)) by ring. eapply Rle_trans; [apply Rabs_triang|].
  pose proof (Rabs_pos q). destruct E' as [E0 E1]. lra. }
(* q against the real value *)
assert (QR : Rabs (q - X * Rtrigo1.PI / Dd) <= 7 / 100000000000000000 * Rabs q).
{ unfold q. replace (X * c / Dd - X * Rtrigo1.PI / Dd) with ((X * c / Dd) * ((c - Rtrigo1.PI) / c)) by (field; split; [exact Nd|lra]).
  rewrite Rabs_mult. rewrite (Rmult_comm (7 / 100000000000000000)). apply Rmult_le_compat_l; [apply Rabs_pos|].
  apply Rabs_div_le; [lra|]. rewrite Rabs_minus_sym. lra. }
(* |q| in terms of |t| *)
assert (QT : Rabs q <= Rabs t * (1 + 4 * / 9007199254740992) + 4 * eta' + 2 * eta).
{ assert (Rabs q <= Rabs t + Rabs (t - q)).
  { replace q with (t - (t - q)) at 1 by ring. eapply Rle_trans; [apply Rabs_triang|]. rewrite Rabs_Ropp. lra. }
  pose proof (Rabs_pos q). pose proof (Rabs_pos t). nra. }
assert (B570 : bpow radix2 (-570) = 32 * bpow radix2 (-575)) by (change (-570)%Z with (5 + -575)%Z; rewrite bpow_plus; simpl (bpow radix2 5); lra).
assert (EE : eta <= bpow radix2 (-575)) by (unfold eta; apply bpow_le; lia).
replace (t - X * Rtrigo1.PI / Dd) with ((t - q) + (q - X * Rtrigo1.PI / Dd)) by ring.
eapply Rle_trans; [apply Rabs_triang|]. pose proof (Rabs_pos q). pose proof (Rabs_pos t). rewrite B570. destruct E' as [E0 E1]. lra.
Qed.

(* C02: Angle::new(p, d) on the general path denotes the REAL p*pi/d modulo whole turns *)
Lemma new_real_pi p d : fast_path p d = false ->
  fin (total_angle p d) -> Rabs (R_ (total_angle p d)) <= bpow radix2 42 -> bpow radix2 (-500) <= Rabs (R_ d) ->
  exists J : Z, (0 <= J)%Z /\
    Rabs (dirR (new p d) - (R_ p * Rtrigo1.PI / R_ d + 2 * Rtrigo1.PI * IZR J))
      <= R_ eps10 + 3 / 100000000000000 + Rabs (R_ (total_angle p d)) * (2 / 1000000000000000).
Proof.
intros Hf Ft Bt Hd. destruct (new_dirR p d Hf Ft Bt) as (J & J0 & ED). exists J. split; [exact J0|].
pose proof (total_real_pi p d Ft Hd) as TR.
assert (B570 : bpow radix2 (-570) <= / 100000000000000).
{ apply Rle_trans with (bpow radix2 (-50)); [apply bpow_le; lia|]. simpl. lra. }
replace (dirR (new p d) - (R_ p * Rtrigo1.PI / R_ d + 2 * Rtrigo1.PI * IZR J))
  with ((dirR (new p d) - (R_ (total_angle p d) + 2 * Rtrigo1.PI * IZR J)) + (R_ (total_angle p d) - R_ p * Rtrigo1.PI / R_ d)) by ring.
eapply Rle_trans; [apply Rabs_triang|]. pose proof (Rabs_pos (R_ (total_angle p d))). unfold Rdiv in ED at 2. lra.
Qed.
