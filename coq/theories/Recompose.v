(* Recompose: projection + rejection = the original vector, component by component (C11). *)
From Coq Require Import ZArith List Bool Reals Lra Lia Psatz.
From Flocq Require Import Core BinarySingleNaN.
Require Import GV.FloatBase GV.FloatLemmas GV.AngleM GV.AngleProofs GV.NewProofs GV.CtorProofs GV.GeonumM GV.GeonumProofs
  GV.ClosureProofs GV.SumUpper GV.PiBounds GV.TrigProofs GV.DotValue GV.DistValue GV.DirProofs GV.SumDir GV.SubCart.
Open Scope R_scope.

Lemma reject_recompose (L : libm) (u u2 : R) g onto : cos_acc L u -> sin_acc L u -> atan2_acc L u2 -> u <= / 1000 ->
  let p := gproject L g onto in
  canonp (rem (ang g)) -> canonp (rem (ang p)) -> (0 <= blade (ang p))%Z ->
  let np := gnegate p in
  aeqb (ang g) (ang np) = false ->
  aeqb (add_vv (ang g) (new one one)) (ang np) || aeqb (add_vv (ang np) (new one one)) (ang g) = false ->
  (0 <= blade (ang g) + blade (ang np) < 2 ^ 40)%Z ->
  fin (gadd_rad L g np) ->
  fin (fadd (fmul (mag g) (sinF L (grade_angle (ang g)))) (fmul (mag np) (sinF L (grade_angle (ang np))))) ->
  fin (fadd (fmul (mag g) (cosF L (grade_angle (ang g)))) (fmul (mag np) (cosF L (grade_angle (ang np))))) ->
  let r := reject L g onto in
  let Wx := R_ (mag g) * cos (dir (ang g)) - R_ (mag p) * cos (dir (ang p)) in
  let Wy := R_ (mag g) * sin (dir (ang g)) - R_ (mag p) * sin (dir (ang p)) in
  let M := Rabs (R_ (mag g)) + Rabs (R_ (mag p)) in
  let E := M * (u + 3 / 1000000000000000) + 4 * bpow radix2 (-1075) in
  let S := R_ (mag g) * R_ (mag g) + R_ (mag p) * R_ (mag p) in
  let Bnd := S * (u + 1 / 100000000000000) + 10 * bpow radix2 (-1075) in
  let tolN := R_ eps10 + 3 / 100000000000000 + IZR (blade (ang g) + blade (ang np)) * (4 / 1000000000000000) in
  let T := sqrt Bnd * (1 + / 9007199254740992) + / 9007199254740992 * sqrt (Wx * Wx + Wy * Wy) + bpow radix2 (-1075)
           + 3 * E + (M + 2 * E) * (u2 + tolN) in
  Rabs ((R_ (mag r) * cos (dirR (ang r)) + R_ (mag p) * cos (dir (ang p))) - R_ (mag g) * cos (dir (ang g))) <= T /\
  Rabs ((R_ (mag r) * sin (dirR (ang r)) + R_ (mag p) * sin (dir (ang p))) - R_ (mag g) * sin (dir (ang g))) <= T.
Proof.
intros CA SA AA Hu p Cg Cp Bp np E1 E2 Hb F1 F2 F3 r Wx Wy M E S Bnd tolN T.
destruct (gsub_cartesian L u u2 g p CA SA AA Hu Cg Cp Bp E1 E2 Hb F1 F2 F3) as [HX HY].
fold np in HX, HY.
change (gsub_vv L g p) with r in HX, HY.
split.
- replace (R_ (mag r) * cos (dirR (ang r)) + R_ (mag p) * cos (dir (ang p)) - R_ (mag g) * cos (dir (ang g)))
    with (R_ (mag r) * cos (dirR (ang r)) - Wx) by (unfold Wx; ring). exact HX.
- replace (R_ (mag r) * sin (dirR (ang r)) + R_ (mag p) * sin (dir (ang p)) - R_ (mag g) * sin (dir (ang g)))
    with (R_ (mag r) * sin (dirR (ang r)) - Wy) by (unfold Wy; ring). exact HY.
Qed.
