(* RunSum: blade history over RUNNING SUMS of arbitrary length (C14), by induction over the sequence. *)
From Coq Require Import ZArith List Bool Reals Lra Lia.
From Flocq Require Import Core BinarySingleNaN.
Require Import GV.FloatBase GV.FloatLemmas GV.AngleM GV.AngleProofs GV.GeonumM GV.GeonumProofs GV.NewProofs GV.CtorProofs GV.ClosureProofs GV.SumUpper.
Import ListNotations.
Open Scope R_scope.

(* the one premise on libm: atan2 returns a finite value in [-PI, PI] (PI the double) *)
Definition atan2_range (L : libm) : Prop := forall y x, fin (atan2F L y x) /\ Rabs (R_ (atan2F L y x)) <= R_ PI.

Definition gwf (g : geonum) : Prop := canonp (rem (ang g)) /\ (0 <= blade (ang g))%Z.

Fixpoint bsum (xs : list geonum) : Z :=
  match xs with [] => 0%Z | x :: r => (blade (ang x) + 4 + bsum r)%Z end.
Fixpoint bmin (m : Z) (xs : list geonum) : Z :=
  match xs with [] => m | x :: r => bmin (Z.min m (blade (ang x))) r end.

Section RS.
Context (L : libm).
Hypothesis AR : atan2_range L.

(* one step: whichever of the three paths is taken *)
Lemma gadd_step_blades a b : gwf a -> gwf b -> (blade (ang a) + blade (ang b) < 2 ^ 40)%Z ->
  gwf (gadd_vv L a b) /\
  (Z.min (blade (ang a)) (blade (ang b)) <= blade (ang (gadd_vv L a b)) <= blade (ang a) + blade (ang b) + 4)%Z.
Proof.
intros [Ca Ba] [Cb Bb] Hs.
destruct (aeqb (ang a) (ang b)) eqn:E1.
- destruct (add_same L a b E1) as [EA _]. unfold gwf. rewrite EA. split; [split; assumption|lia].
- destruct (aeqb (add_vv (ang a) (new one one)) (ang b) || aeqb (add_vv (ang b) (new one one)) (ang a)) eqn:E2.
  + pose proof (add_opposite L a b E1 E2) as EO. cbv zeta in EO. rewrite EO. clear EO.
    destruct (flt _ EPSILON).
    * unfold gwf. cbn [ang mag]. rewrite nwb_k_0_1 by lia. cbn [rem blade]. split; [split; [apply canonp_zero|lia]|lia].
    * destruct (fgt _ zero); unfold gwf; cbn [ang mag]; (split; [split; assumption|lia]).
  + assert (Hc : (0 <= blade (ang a) + blade (ang b) < 2 ^ 40)%Z) by lia.
    destruct (AR (fadd (fmul (mag a) (sinF L (grade_angle (ang a)))) (fmul (mag b) (sinF L (grade_angle (ang b)))))
                 (fadd (fmul (mag a) (cosF L (grade_angle (ang a)))) (fmul (mag b) (cosF L (grade_angle (ang b)))))) as [Fa Bd].
    destruct (gadd_general_upper_atan2 L a b E1 E2 Hc Fa Bd) as (Cr & Br & _).
    split; [split; [exact Cr|lia]|lia].
Qed.

Lemma bmin_le m xs : (bmin m xs <= m)%Z.
Proof. revert m; induction xs as [|x xs IH]; intros m; cbn [bmin]; [lia|]. specialize (IH (Z.min m (blade (ang x)))). lia. Qed.
Lemma bmin_mono m m' xs : (m <= m')%Z -> (bmin m xs <= bmin m' xs)%Z.
Proof. revert m m'; induction xs as [|x xs IH]; intros m m' H; cbn [bmin]; [lia|]. apply IH. lia. Qed.
Lemma bsum_nonneg xs : Forall gwf xs -> (0 <= bsum xs)%Z.
Proof. induction 1 as [|x xs [_ Hx] _ IH]; cbn [bsum]; lia. Qed.

(* every running sum, of any length *)
Theorem running_sum_blades xs : forall acc, gwf acc -> Forall gwf xs ->
  (blade (ang acc) + bsum xs < 2 ^ 40)%Z ->
  let r := fold_left (gadd_vv L) xs acc in
  gwf r /\ (bmin (blade (ang acc)) xs <= blade (ang r) <= blade (ang acc) + bsum xs)%Z.
Proof.
induction xs as [|x xs IH]; intros acc Wa Wx Hs; cbn [fold_left bsum bmin] in *.
- split; [exact Wa|lia].
- inversion Wx as [|x' xs' Wx1 Wxs]; subst.
  pose proof (bsum_nonneg xs Wxs) as Nn.
  destruct Wx1 as [Cx Bx]. destruct Wa as [Ca Ba].
  destruct (gadd_step_blades acc x (conj Ca Ba) (conj Cx Bx)) as [W1 B1]; [lia|].
  destruct (IH (gadd_vv L acc x) W1 Wxs) as [Wr Br]; [lia|].
  split; [exact Wr|].
  pose proof (bmin_mono (Z.min (blade (ang acc)) (blade (ang x))) (blade (ang (gadd_vv L acc x))) xs (proj1 B1)).
  lia.
Qed.

Lemma bsum_firstn ys : forall k, Forall gwf ys -> (bsum (firstn k ys) <= bsum ys)%Z.
Proof.
induction ys as [|y ys IHy]; intros k Wy; destruct k; cbn [firstn bsum]; try lia.
- inversion Wy as [|y' ys' [_ Hy] Wys]; subst. pose proof (bsum_nonneg ys Wys). lia.
- inversion Wy as [|y' ys' Hy Wys]; subst. specialize (IHy k Wys). lia.
Qed.
Lemma bmin_firstn ys : forall k m, (bmin m ys <= bmin m (firstn k ys))%Z.
Proof.
induction ys as [|y ys IHy]; intros k m; destruct k; cbn [firstn bmin]; try lia.
- pose proof (bmin_le (Z.min m (blade (ang y))) ys). lia.
- apply IHy.
Qed.
Lemma Forall_firstn (P : geonum -> Prop) ys : forall k, Forall P ys -> Forall P (firstn k ys).
Proof.
induction ys as [|y ys IHy]; intros k Wy; destruct k; cbn [firstn]; try constructor.
- inversion Wy; assumption.
- inversion Wy; subst. apply IHy; assumption.
Qed.

(* prefixes: the bounds hold at EVERY intermediate accumulator, not only at the end *)
Theorem running_sum_prefixes xs : forall acc, gwf acc -> Forall gwf xs ->
  (blade (ang acc) + bsum xs < 2 ^ 40)%Z ->
  forall n, let r := fold_left (gadd_vv L) (firstn n xs) acc in
  gwf r /\ (bmin (blade (ang acc)) xs <= blade (ang r) <= blade (ang acc) + bsum xs)%Z.
Proof.
intros acc Wa Wx Hs n.
pose proof (bsum_firstn xs n Wx) as Sn.
pose proof (bmin_firstn xs n (blade (ang acc))) as Mn.
destruct (running_sum_blades (firstn n xs) acc Wa (Forall_firstn gwf xs n Wx)) as [Wr Br]; [lia|].
cbv zeta. split; [exact Wr|lia].
Qed.
End RS.

(* non-vacuity: the premise holds for a libm (the trivial one), and a three-term sequence meets the hypotheses *)
Lemma atan2_range_inhabited : atan2_range trivial_libm.
Proof. intros y x. cbn [atan2F trivial_libm]. split; [reflexivity|]. rewrite R_zero, Rabs_R0. destruct PIval as [VP _]. rewrite VP, Qval. lra. Qed.

Example running_sum_example :
  let g k := {| mag := one; ang := {| rem := zero; blade := k |} |} in
  gwf (g 0%Z) /\ Forall gwf [g 1%Z; g 2%Z; g 7%Z] /\ (blade (ang (g 0%Z)) + bsum [g 1%Z; g 2%Z; g 7%Z] < 2 ^ 40)%Z.
Proof.
cbv zeta.
assert (W : forall k, (0 <= k)%Z -> gwf {| mag := one; ang := {| rem := zero; blade := k |} |}).
{ intros k Hk. split; cbn [ang rem blade]; [apply canonp_zero|exact Hk]. }
split; [apply W; lia|]. split.
- constructor; [apply W; lia|]. constructor; [apply W; lia|]. constructor; [apply W; lia|]. constructor.
- cbn [bsum ang blade]. lia.
Qed.
