(* ShiftProofs: dimension freedom (C08): measurements depend on blade counts only modulo 4. *)
From Coq Require Import ZArith List Bool Reals Lra Lia.
From Flocq Require Import Core BinarySingleNaN.
Require Import GV.FloatBase GV.FloatLemmas GV.AngleM GV.AngleProofs GV.GeonumM GV.GeonumProofs GV.CollM.
Open Scope Z_scope.

Lemma lift_blade_mod d : lift_blade d mod 4 = d mod 4.
Proof.
destruct (Z_lt_ge_dec d 0) as [N|P]. now apply lift_blade_nonneg. now rewrite lift_blade_pos by lia.
Qed.

(* normalize_boundaries only ever ADDS to the blade; what it adds and the remainder it returns
   do not depend on the blade *)
Lemma normalize_blade_free r b :
  rem (normalize_boundaries {| rem := r; blade := b |}) = rem (normalize_boundaries {| rem := r; blade := 0 |}) /\
  blade (normalize_boundaries {| rem := r; blade := b |}) = b + blade (normalize_boundaries {| rem := r; blade := 0 |}).
Proof.
unfold normalize_boundaries. cbn [rem blade].
destruct (flt (fabs (fsub r Q)) eps10); cbn [rem blade]; [split; [reflexivity|lia]|].
destruct (fge r Q); cbn [rem blade]; [|split; [reflexivity|lia]].
destruct (flt (fabs (fsub (ffmod r Q) Q)) eps10); cbn [rem blade]; split; try reflexivity; lia.
Qed.

(* the heart of dimension freedom: shifting either operand by whole turns changes neither the
   remainder (bit for bit) nor the grade of the angle difference *)
Lemma geometric_sub_shift a b a' b' :
  rem a' = rem a -> rem b' = rem b -> (blade a' - blade b') mod 4 = (blade a - blade b) mod 4 ->
  rem (geometric_sub a' b') = rem (geometric_sub a b) /\ grade (geometric_sub a' b') = grade (geometric_sub a b).
Proof.
intros Ra Rb Hm. unfold geometric_sub, grade. rewrite Ra, Rb.
destruct (flt (fabs (fsub (rem a) (rem b))) eps15); cbn [rem blade].
- split; [reflexivity|]. now rewrite !lift_blade_mod.
- destruct (flt (fsub (rem a) (rem b)) zero).
  + destruct (normalize_blade_free (fadd (fsub (rem a) (rem b)) Q) (lift_blade (blade a' - blade b' - 1))) as [R1 B1].
    destruct (normalize_blade_free (fadd (fsub (rem a) (rem b)) Q) (lift_blade (blade a - blade b - 1))) as [R2 B2].
    rewrite R1, R2, B1, B2. split; [reflexivity|].
    rewrite (Z.add_mod (lift_blade (blade a' - blade b' - 1))), (Z.add_mod (lift_blade (blade a - blade b - 1))) by lia.
    rewrite !lift_blade_mod.
    replace ((blade a' - blade b' - 1) mod 4) with ((blade a - blade b - 1) mod 4); [reflexivity|].
    rewrite (Zminus_mod (blade a - blade b) 1), (Zminus_mod (blade a' - blade b') 1), Hm. reflexivity.
  + destruct (normalize_blade_free (fsub (rem a) (rem b)) (lift_blade (blade a' - blade b'))) as [R1 B1].
    destruct (normalize_blade_free (fsub (rem a) (rem b)) (lift_blade (blade a - blade b))) as [R2 B2].
    rewrite R1, R2, B1, B2. split; [reflexivity|].
    rewrite (Z.add_mod (lift_blade (blade a' - blade b'))), (Z.add_mod (lift_blade (blade a - blade b))) by lia.
    now rewrite !lift_blade_mod, Hm.
Qed.

Definition shift4 (n : Z) (a : angle) : angle := {| rem := rem a; blade := blade a + 4 * n |}.
Definition gshift4 (n : Z) (g : geonum) : geonum := {| mag := mag g; ang := shift4 n (ang g) |}.

Lemma shift_mod a b n m : (blade (shift4 n a) - blade (shift4 m b)) mod 4 = (blade a - blade b) mod 4.
Proof.
unfold shift4. cbn [blade]. replace (blade a + 4 * n - (blade b + 4 * m)) with (blade a - blade b + (n - m) * 4) by ring.
apply Z.mod_add. lia.
Qed.

Lemma grade_angle_shift x y : rem x = rem y -> grade x = grade y -> grade_angle x = grade_angle y.
Proof. intros R G. unfold grade_angle. now rewrite R, G. Qed.

Section WithLibm.
Context (L : libm).

Lemma sub_grade_angle_shift a b n m :
  grade_angle (sub_vv (shift4 n b) (shift4 m a)) = grade_angle (sub_vv b a).
Proof.
unfold sub_vv. destruct (geometric_sub_shift b a (shift4 n b) (shift4 m a) eq_refl eq_refl (shift_mod b a n m)) as [R G].
now apply grade_angle_shift.
Qed.

(* every measurement that is a function of the angle difference is BIT-IDENTICAL under whole-turn shifts *)
Lemma measurements_shift a b n m :
  dot L (gshift4 m a) (gshift4 n b) = dot L a b /\
  mag (wedge L (gshift4 m a) (gshift4 n b)) = mag (wedge L a b) /\
  distance_to L (gshift4 m a) (gshift4 n b) = distance_to L a b /\
  is_orthogonal L (gshift4 m a) (gshift4 n b) = is_orthogonal L a b /\
  aproject L (shift4 m (ang a)) (shift4 n (ang b)) = aproject L (ang a) (ang b) /\
  mag (gproject L (gshift4 m a) (gshift4 n b)) = mag (gproject L a b) /\
  project_to_angle L (gshift4 m a) (shift4 n (ang b)) = project_to_angle L a (ang b).
Proof.
assert (E := sub_grade_angle_shift (ang a) (ang b) n m).
assert (D : dot L (gshift4 m a) (gshift4 n b) = dot L a b).
{ unfold dot. cbn [gshift4 mag ang]. now rewrite E. }
split; [exact D|]. split; [unfold wedge; cbn [gshift4 mag ang]; now rewrite E|].
split; [unfold distance_to; cbn [gshift4 mag ang]; now rewrite E|].
split; [unfold is_orthogonal; now rewrite D|].
split; [unfold aproject; exact (f_equal (cosF L) E)|].
split.
- unfold gproject. cbn [gshift4 mag ang]. destruct (flt (fabs (mag b)) EPSILON); [reflexivity|].
  cbn [gnew_with_angle mag]. unfold aproject. now rewrite E.
- unfold project_to_angle. cbn [gshift4 mag ang]. now rewrite E.
Qed.

(* cone selection's predicate is invariant under whole-turn shifts of the member and of the axis *)
Lemma cone_pred_shift d h g n m : cone_pred L (gshift4 n d) h (gshift4 m g) = cone_pred L d h g.
Proof.
unfold cone_pred. cbn [gshift4 mag].
destruct (measurements_shift g d n m) as [D _]. now rewrite D.
Qed.

(* trigonometric gateways *)
Lemma trig_shift a n : gcos L (shift4 n a) = gcos L a /\ gsin L (shift4 n a) = gsin L a.
Proof.
assert (E : grade_angle (shift4 n a) = grade_angle a).
{ apply grade_angle_shift. reflexivity. unfold grade, shift4. cbn [blade]. rewrite Z.mul_comm. apply Z.mod_add. lia. }
unfold gcos, gsin. now rewrite E.
Qed.

End WithLibm.

(* result angles shift by exactly the predictable amount *)
Lemma add_shift a b n m :
  rem (geometric_add (shift4 n a) (shift4 m b)) = rem (geometric_add a b) /\
  blade (geometric_add (shift4 n a) (shift4 m b)) = blade (geometric_add a b) + 4 * (n + m).
Proof.
unfold geometric_add, shift4. cbn [rem blade].
destruct (feq (fadd (rem a) (rem b)) zero); cbn [rem blade]; [split; [reflexivity|lia]|].
destruct (flt (fabs (fsub (fadd (rem a) (rem b)) Q)) eps15); cbn [rem blade]; [split; [reflexivity|lia]|].
destruct (normalize_blade_free (fadd (rem a) (rem b)) (blade a + 4 * n + (blade b + 4 * m))) as [R1 B1].
destruct (normalize_blade_free (fadd (rem a) (rem b)) (blade a + blade b)) as [R2 B2].
rewrite R1, R2, B1, B2. split; [reflexivity|lia].
Qed.
