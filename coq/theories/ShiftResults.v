(* ShiftResults: RESULT angles under whole-turn shifts of the operands (C08): products, wedge, meet, duals, rotation,
   projection - blade count moves by exactly 4(m+n), remainder and magnitude bit-identical, for every libm. *)
From Coq Require Import ZArith List Bool Reals Lra Lia.
From Flocq Require Import Core BinarySingleNaN.
Require Import GV.FloatBase GV.FloatLemmas GV.AngleM GV.AngleProofs GV.GeonumM GV.GeonumProofs GV.CollM GV.ShiftProofs.
Open Scope Z_scope.

Lemma shift4_eq a b : rem a = rem b -> blade a = blade b -> a = b.
Proof. destruct a, b; cbn; intros; subst; reflexivity. Qed.

Lemma shift4_0 a : shift4 0 a = a.
Proof. apply shift4_eq; unfold shift4; cbn [rem blade]; [reflexivity|lia]. Qed.

Lemma shift4_shift4 n m a : shift4 n (shift4 m a) = shift4 (n + m) a.
Proof. apply shift4_eq; unfold shift4; cbn [rem blade]; [reflexivity|lia]. Qed.

Lemma add_shift_eq a b n m : geometric_add (shift4 n a) (shift4 m b) = shift4 (n + m) (geometric_add a b).
Proof.
destruct (add_shift a b n m) as [R B]. apply shift4_eq; unfold shift4 at 3; cbn [rem blade]; [exact R|exact B].
Qed.

Lemma add_shift_l a b n : geometric_add (shift4 n a) b = shift4 n (geometric_add a b).
Proof. rewrite <- (shift4_0 b) at 1. rewrite add_shift_eq. f_equal. lia. Qed.

Lemma dual_shift a n : dual (shift4 n a) = shift4 n (dual a).
Proof. unfold dual, add_vv. apply add_shift_l. Qed.

Lemma gdual_shift g n : gdual (gshift4 n g) = gshift4 n (gdual g).
Proof. unfold gdual, gnew_with_angle, gshift4. cbn [mag ang]. now rewrite dual_shift. Qed.

Lemma gmul_shift a b n m : gmul_vv (gshift4 n a) (gshift4 m b) = gshift4 (n + m) (gmul_vv a b).
Proof. unfold gmul_vv, gshift4, add_vv. cbn [mag ang]. now rewrite add_shift_eq. Qed.

Lemma grotate_shift g r n m : grotate (gshift4 n g) (shift4 m r) = gshift4 (n + m) (grotate g r).
Proof. unfold grotate, gshift4, add_vv. cbn [mag ang]. now rewrite add_shift_eq. Qed.

Section WithLibm.
Context (L : libm).

Lemma wedge_shift a b n m : wedge L (gshift4 m a) (gshift4 n b) = gshift4 (m + n) (wedge L a b).
Proof.
assert (E := sub_grade_angle_shift (ang a) (ang b) n m).
unfold wedge. cbn [gshift4 mag ang]. rewrite E. unfold add_vv.
rewrite add_shift_eq. rewrite add_shift_l.
destruct (flt (sinF L (grade_angle (sub_vv (ang b) (ang a)))) zero); unfold gshift4; cbn [mag ang]; [rewrite add_shift_l|]; reflexivity.
Qed.

Lemma meet_shift a b n m : meet L (gshift4 m a) (gshift4 n b) = gshift4 (m + n) (meet L a b).
Proof. unfold meet. rewrite !gdual_shift, wedge_shift, gdual_shift. reflexivity. Qed.

(* projection onto a non-negligible axis: the result follows the AXIS' shift only *)
Lemma gproject_shift a b n m : flt (fabs (mag b)) EPSILON = false ->
  gproject L (gshift4 m a) (gshift4 n b) = gshift4 n (gproject L a b).
Proof.
intros Hb. destruct (measurements_shift L a b n m) as (_ & _ & _ & _ & P & _).
unfold gproject. cbn [gshift4 mag ang]. rewrite Hb, P.
unfold gnew_with_angle, gshift4. cbn [mag ang].
destruct (fge (aproject L (ang a) (ang b)) zero); [reflexivity|]. unfold add_vv. now rewrite add_shift_l.
Qed.

End WithLibm.
