(* ShiftSum: the Cartesian value of a SUM of whole-turn-shifted operands is the Cartesian sum of the unshifted ones (C08). *)
From Coq Require Import ZArith List Bool Reals Lra Lia Psatz.
From Flocq Require Import Core BinarySingleNaN.
Require Import GV.FloatBase GV.FloatLemmas GV.AngleM GV.AngleProofs GV.NewProofs GV.CtorProofs GV.GeonumM GV.GeonumProofs
  GV.CollM GV.ShiftProofs GV.ClosureProofs GV.SumUpper GV.PiBounds GV.TrigProofs GV.DotValue GV.DistValue GV.DirProofs GV.SumDir.
Open Scope R_scope.

Lemma grade_shift n a : grade (shift4 n a) = grade a.
Proof. unfold grade, shift4. cbn [blade]. rewrite Z.mul_comm. apply Z.mod_add. lia. Qed.

(* the direction (REAL pi, blade mod 4) ignores whole turns exactly *)
Lemma dir_shift n a : dir (shift4 n a) = dir a.
Proof. unfold dir. rewrite grade_shift. reflexivity. Qed.

Section SS.
Context (L : libm) (u u2 : R).

Lemma sum_shift_cartesian a b m n : cos_acc L u -> sin_acc L u -> atan2_acc L u2 -> u <= / 1000 ->
  let a' := gshift4 m a in let b' := gshift4 n b in
  canonp (rem (ang a)) -> canonp (rem (ang b)) ->
  aeqb (ang a') (ang b') = false ->
  aeqb (add_vv (ang a') (new one one)) (ang b') || aeqb (add_vv (ang b') (new one one)) (ang a') = false ->
  (0 <= blade (ang a') + blade (ang b') < 2 ^ 40)%Z ->
  fin (gadd_rad L a' b') ->
  fin (fadd (fmul (mag a') (sinF L (grade_angle (ang a')))) (fmul (mag b') (sinF L (grade_angle (ang b'))))) ->
  fin (fadd (fmul (mag a') (cosF L (grade_angle (ang a')))) (fmul (mag b') (cosF L (grade_angle (ang b'))))) ->
  let r := gadd_vv L a' b' in
  let Vx := R_ (mag a) * cos (dir (ang a)) + R_ (mag b) * cos (dir (ang b)) in
  let Vy := R_ (mag a) * sin (dir (ang a)) + R_ (mag b) * sin (dir (ang b)) in
  let M := Rabs (R_ (mag a)) + Rabs (R_ (mag b)) in
  let E := M * (u + 3 / 1000000000000000) + 4 * bpow radix2 (-1075) in
  let S := R_ (mag a) * R_ (mag a) + R_ (mag b) * R_ (mag b) in
  let Bnd := S * (u + 1 / 100000000000000) + 10 * bpow radix2 (-1075) in
  let tolN := R_ eps10 + 3 / 100000000000000 + IZR (blade (ang a') + blade (ang b')) * (4 / 1000000000000000) in
  let T := sqrt Bnd * (1 + / 9007199254740992) + / 9007199254740992 * sqrt (Vx * Vx + Vy * Vy) + bpow radix2 (-1075)
           + 3 * E + (M + 2 * E) * (u2 + tolN) in
  Rabs (R_ (mag r) * cos (dirR (ang r)) - Vx) <= T /\ Rabs (R_ (mag r) * sin (dirR (ang r)) - Vy) <= T.
Proof.
intros HC HS HA Hu a' b' Ca Cb N1 N2 Hn F1 F2 F3.
pose proof (gadd_cartesian L u u2 a' b' HC HS HA Hu Ca Cb N1 N2 Hn F1 F2 F3) as G.
cbv zeta in G. unfold a', b' in G. cbn [gshift4 mag ang] in G. rewrite !dir_shift in G.
cbv zeta. unfold a', b'. cbn [gshift4 mag ang]. exact G.
Qed.
End SS.
