(* SnellProofs: refraction obeys Snell's law (C19), REAL pi / sin. *)
From Coq Require Import ZArith List Bool Reals Lra Lia Psatz.
From Flocq Require Import Core BinarySingleNaN.
Require Import GV.FloatBase GV.FloatLemmas GV.AngleM GV.AngleProofs GV.NewProofs GV.CtorProofs GV.GeonumM GV.GeonumProofs
  GV.TraitsM GV.TraitsProofs GV.BoundProofs GV.ClosureProofs GV.SumUpper GV.PiBounds GV.TrigProofs GV.DotValue GV.ProdProofs
  GV.DistValue GV.DirProofs GV.SumDir GV.FieldProofs.
Open Scope R_scope.

(* radians written with divisor PI: the computed total fl(fl(x PI) / PI) is x within 3*2^-53 |x| *)
Lemma total_angle_PI_value x : fin (total_angle x PI) ->
  Rabs (R_ (total_angle x PI) - R_ x) <= 3 * / 9007199254740992 * Rabs (R_ x) + 3 * bpow radix2 (-1075).
Proof.
intros Ft. unfold total_angle in *. destruct PIval as [VP FP].
assert (P : R_ PI = 14148475504056880 / 4503599627370496) by (rewrite VP, Qval; lra).
assert (NP : R_ PI <> 0) by (rewrite P; lra).
destruct (fdiv_fin_R' _ _ Ft NP) as (Fm & Vt). destruct (fmul_fin_R _ _ Fm) as (_ & _ & Vm).
rewrite P in Vm, Vt. set (c := 14148475504056880 / 4503599627370496) in *. assert (Cc : 3 < c < 4) by (unfold c; lra).
pose proof (rnd_rel (R_ x * c)) as Em. rewrite <- Vm in Em. rewrite Rabs_mult, (Rabs_pos_eq c) in Em by lra.
set (m := R_ (fmul x PI)) in *.
pose proof (rnd_rel (m / c)) as Et. rewrite <- Vt in Et. set (t := R_ (fdiv (fmul x PI) PI)) in *.
pose proof (bpow_gt_0 radix2 (-1075)) as Hp. set (eta := bpow radix2 (-1075)) in *.
assert (MD : Rabs (m / c - R_ x) <= / 9007199254740992 * Rabs (R_ x) + eta).
{ replace (m / c - R_ x) with ((m - R_ x * c) / c) by (field; lra). apply Rabs_div_le; [lra|]. pose proof (Rabs_pos (R_ x)). nra. }
assert (MA : Rabs (m / c) <= Rabs (R_ x) * (1 + / 9007199254740992) + eta).
{ replace (m / c) with ((m / c - R_ x) + R_ x) by ring. eapply Rle_trans; [apply Rabs_triang|]. lra. }
replace (t - R_ x) with ((t - m / c) + (m / c - R_ x)) by ring. eapply Rle_trans; [apply Rabs_triang|].
pose proof (Rabs_pos (R_ x)). nra.
Qed.

Section Snell.
Context (L : libm) (u ua : R).

(* C19: sin(refracted direction) = sin(incident direction) / n (Snell), for any libm whose sin is accurate to u and
   whose asin call here returns an angle in [-2, 2] whose sine reproduces its argument within ua *)
Lemma snell g ri : sin_acc L u -> u <= / 1000 -> canonp (rem (ang g)) ->
  fin (mag ri) -> 1 / 1024 <= R_ (mag ri) <= 1024 ->
  let arg := fdiv (sinF L (grade_angle (ang g))) (mag ri) in
  let as_ := asinF L arg in
  fin as_ -> Rabs (R_ as_) <= 2 -> Rabs (sin (R_ as_) - R_ arg) <= ua ->
  let r := refract L g ri in
  mag r = mag g /\ Canon (ang r) /\
  Rabs (sin (dirR (ang r)) - sin (dir (ang g)) / R_ (mag ri))
    <= ua + R_ eps10 + 3 / 100000000000000 + (u + 3 / 1000000000000000) / R_ (mag ri).
Proof.
intros HS Hu Cg Fn [N0 N1] arg as_ Fas Bas Eas r. unfold r, refract. cbn [gnew_with_angle mag ang]. fold arg. fold as_.
split; [reflexivity|].
destruct (gsin_value L u (ang g) HS Cg) as (Fs & Es & _). cbv zeta in Es. set (sv := sinF L (grade_angle (ang g))) in *.
assert (u0 : 0 <= u) by (apply (acc_u_nonneg L u); now right).
pose proof (SIN_bound (dir (ang g))) as SB. set (si := sin (dir (ang g))) in *.
set (n := R_ (mag ri)) in *. assert (Np : 0 < n) by lra. assert (Nn : R_ (mag ri) <> 0) by (fold n; lra).
(* arg = fl(sv / n) *)
destruct (fdiv_R sv (mag ri) Fs Nn) as [Va Fa].
{ fold n. apply Rle_trans with 2048; [|change 2048 with (bpow radix2 11); apply bpow_le; lia]. apply Rabs_div_le; [lra|]. apply Rabs_le_inv in Es. apply Rabs_le. nra. }
fold arg n in Va, Fa. pose proof (rnd_rel (R_ sv / n)) as Ea. rewrite <- Va in Ea.
assert (SN : Rabs (R_ sv / n - si / n) <= (u + 25 / 10000000000000000) / n).
{ replace (R_ sv / n - si / n) with ((R_ sv - si) / n) by (field; lra). apply Rabs_div_le; [lra|]. unfold Rdiv. rewrite Rmult_assoc, Rinv_l by lra. lra. }
assert (SVb : Rabs (R_ sv / n) <= 1100).
{ apply Rabs_div_le; [lra|]. apply Rabs_le_inv in Es. apply Rabs_le. nra. }
pose proof (bpow_gt_0 radix2 (-1075)) as Hp.
assert (Tiny : bpow radix2 (-1075) <= / 1267650600228229401496703205376).
{ apply Rle_trans with (bpow radix2 (-100)). apply bpow_le; lia. simpl. lra. }
assert (AN : Rabs (R_ arg - si / n) <= (u + 3 / 1000000000000000) / n).
{ replace (R_ arg - si / n) with ((R_ arg - R_ sv / n) + (R_ sv / n - si / n)) by ring. eapply Rle_trans; [apply Rabs_triang|].
  assert (IN : / 1024 <= / n) by (apply Rinv_le; lra).
  assert (SVn : Rabs (R_ sv / n) <= 1002 / 1000 / n).
  { apply Rabs_div_le; [lra|]. unfold Rdiv. rewrite Rmult_assoc, Rinv_l by lra. apply Rabs_le_inv in Es. apply Rabs_le. lra. }
  assert (IP : 0 < / n) by (apply Rinv_0_lt_compat; lra).
  unfold Rdiv in *. lra. }
(* the angle *)
assert (Ft : fin (total_angle as_ PI)).
{ unfold total_angle. destruct PIval as [VP FP]. assert (P : R_ PI = 14148475504056880 / 4503599627370496) by (rewrite VP, Qval; lra).
  destruct (fmul_R as_ PI Fas FP) as [Vm Fm]. { apply small_le_1000. rewrite P, Rabs_mult, (Rabs_pos_eq (14148475504056880 / 4503599627370496)) by lra. lra. }
  destruct (fdiv_R (fmul as_ PI) PI Fm) as [_ F]; [rewrite P; lra| |exact F].
  apply small_le_1000. rewrite P. apply Rabs_div_le; [lra|]. rewrite Vm, P.
  pose proof (rnd_rel (R_ as_ * (14148475504056880 / 4503599627370496))) as E. rewrite Rabs_mult, (Rabs_pos_eq (14148475504056880 / 4503599627370496)) in E by lra.
  replace (rnd (R_ as_ * (14148475504056880 / 4503599627370496))) with ((rnd (R_ as_ * (14148475504056880 / 4503599627370496)) - R_ as_ * (14148475504056880 / 4503599627370496)) + R_ as_ * (14148475504056880 / 4503599627370496)) by ring.
  eapply Rle_trans; [apply Rabs_triang|]. rewrite (Rabs_mult (R_ as_)), (Rabs_pos_eq (14148475504056880 / 4503599627370496)) by lra. lra. }
pose proof (total_angle_PI_value as_ Ft) as TV.
assert (Bt : Rabs (R_ (total_angle as_ PI)) <= bpow radix2 42).
{ apply Rle_trans with 3; [|change 3 with (IZR 3); apply Rle_trans with (bpow radix2 2); [simpl; lra|apply bpow_le; lia]].
  replace (R_ (total_angle as_ PI)) with ((R_ (total_angle as_ PI) - R_ as_) + R_ as_) by ring. eapply Rle_trans; [apply Rabs_triang|]. lra. }
split; [exact (new_canon as_ PI Ft Bt)|].
destruct (new_dirR as_ PI (fast_path_PI _) Ft Bt) as (J & J0 & ED).
set (t := R_ (total_angle as_ PI)) in *. set (phi := dirR (new as_ PI)) in *.
assert (TB : Rabs t <= 3).
{ replace t with ((t - R_ as_) + R_ as_) by ring. eapply Rle_trans; [apply Rabs_triang|]. lra. }
assert (PD : Rabs (phi - (R_ as_ + 2 * IZR J * Rtrigo1.PI)) <= R_ eps10 + 25 / 1000000000000000).
{ replace (phi - (R_ as_ + 2 * IZR J * Rtrigo1.PI)) with ((phi - (t + 2 * Rtrigo1.PI * IZR J)) + (t - R_ as_)) by ring.
  eapply Rle_trans; [apply Rabs_triang|]. assert (Rabs t / 1000000000000000 <= 3 / 1000000000000000) by (unfold Rdiv; apply Rmult_le_compat_r; lra). lra. }
assert (SP : Rabs (sin phi - sin (R_ as_)) <= R_ eps10 + 25 / 1000000000000000).
{ rewrite <- (sin_period (R_ as_) (Z.to_nat J)). rewrite INR_IZR_INZ, Z2Nat.id by exact J0. eapply Rle_trans; [apply sin_lip|exact PD]. }
replace (sin phi - si / n) with ((sin phi - sin (R_ as_)) + (sin (R_ as_) - R_ arg) + (R_ arg - si / n)) by ring.
eapply Rle_trans; [apply Rabs_triang|]. eapply Rle_trans; [apply Rplus_le_compat_r, Rabs_triang|]. lra.
Qed.
End Snell.
