(* SubCart: the Cartesian difference (C06), REAL pi / cos / sin. *)
From Coq Require Import ZArith List Bool Reals Lra Lia Psatz.
From Flocq Require Import Core BinarySingleNaN.
Require Import GV.FloatBase GV.FloatLemmas GV.AngleM GV.AngleProofs GV.NewProofs GV.CtorProofs GV.GeonumM GV.GeonumProofs
  GV.ClosureProofs GV.SumUpper GV.PiBounds GV.TrigProofs GV.DotValue GV.DistValue GV.DirProofs GV.SumDir.
Open Scope R_scope.

Section SubCart.
Context (L : libm) (u u2 : R).

Lemma negate_cos_sin b : canonp (rem b) -> (0 <= blade b)%Z ->
  cos (dir (negate b)) = - cos (dir b) /\ sin (dir (negate b)) = - sin (dir b).
Proof.
intros Cb Hb. pose proof (negate_step b Cb) as SN.
assert (Bn : (0 <= blade (negate b))%Z) by (destruct SN as (B & _); lia).
rewrite <- (cos_dirR _ Bn), <- (sin_dirR _ Bn), <- (cos_dirR _ Hb), <- (sin_dirR _ Hb).
rewrite (negate_dirR b Cb). split; [apply neg_cos|apply neg_sin].
Qed.

(* C06: a - b reproduces the Cartesian difference on the general path of a + (-b) *)
Lemma gsub_cartesian a b : cos_acc L u -> sin_acc L u -> atan2_acc L u2 -> u <= / 1000 ->
  canonp (rem (ang a)) -> canonp (rem (ang b)) -> (0 <= blade (ang b))%Z ->
  let nb := gnegate b in
  aeqb (ang a) (ang nb) = false ->
  aeqb (add_vv (ang a) (new one one)) (ang nb) || aeqb (add_vv (ang nb) (new one one)) (ang a) = false ->
  (0 <= blade (ang a) + blade (ang nb) < 2 ^ 40)%Z ->
  fin (gadd_rad L a nb) ->
  fin (fadd (fmul (mag a) (sinF L (grade_angle (ang a)))) (fmul (mag nb) (sinF L (grade_angle (ang nb))))) ->
  fin (fadd (fmul (mag a) (cosF L (grade_angle (ang a)))) (fmul (mag nb) (cosF L (grade_angle (ang nb))))) ->
  let r := gsub_vv L a b in
  let Wx := R_ (mag a) * cos (dir (ang a)) - R_ (mag b) * cos (dir (ang b)) in
  let Wy := R_ (mag a) * sin (dir (ang a)) - R_ (mag b) * sin (dir (ang b)) in
  let M := Rabs (R_ (mag a)) + Rabs (R_ (mag b)) in
  let E := M * (u + 3 / 1000000000000000) + 4 * bpow radix2 (-1075) in
  let S := R_ (mag a) * R_ (mag a) + R_ (mag b) * R_ (mag b) in
  let Bnd := S * (u + 1 / 100000000000000) + 10 * bpow radix2 (-1075) in
  let tolN := R_ eps10 + 3 / 100000000000000 + IZR (blade (ang a) + blade (ang nb)) * (4 / 1000000000000000) in
  let T := sqrt Bnd * (1 + / 9007199254740992) + / 9007199254740992 * sqrt (Wx * Wx + Wy * Wy) + bpow radix2 (-1075)
           + 3 * E + (M + 2 * E) * (u2 + tolN) in
  Rabs (R_ (mag r) * cos (dirR (ang r)) - Wx) <= T /\ Rabs (R_ (mag r) * sin (dirR (ang r)) - Wy) <= T.
Proof.
intros HC HS HA Hu Ca Cb Hb nb N1 N2 Hn Frad Fopp Fadj r Wx Wy M E S Bnd tolN T.
pose proof (negate_step (ang b) Cb) as SN.
assert (Cnb : canonp (rem (ang nb))) by (unfold nb; cbn [gnegate ang]; eapply steps_canon; eauto).
destruct (gadd_cartesian L u u2 a nb HC HS HA Hu Ca Cnb N1 N2 Hn Frad Fopp Fadj) as [EX EY].
destruct (negate_cos_sin (ang b) Cb Hb) as [NC NS].
unfold nb in EX, EY. cbn [gnegate mag ang] in EX, EY. rewrite NC, NS in EX, EY.
replace (R_ (mag a) * cos (dir (ang a)) + R_ (mag b) * - cos (dir (ang b))) with Wx in EX, EY by (unfold Wx; ring).
replace (R_ (mag a) * sin (dir (ang a)) + R_ (mag b) * - sin (dir (ang b))) with Wy in EX, EY by (unfold Wy; ring).
split; [exact EX|exact EY].
Qed.
End SubCart.
