(* SumDir: the direction of Geonum + Geonum on the general path (C06), REAL pi. *)
From Coq Require Import ZArith List Bool Reals Lra Lia Psatz.
From Flocq Require Import Core BinarySingleNaN.
Require Import GV.FloatBase GV.FloatLemmas GV.AngleM GV.AngleProofs GV.NewProofs GV.CtorProofs GV.GeonumM GV.GeonumProofs
  GV.ClosureProofs GV.SumUpper GV.PiBounds GV.TrigProofs GV.DotValue GV.DistValue GV.DirProofs.
Open Scope R_scope.

Lemma lift_total_value t : fin t -> Rabs (R_ t) <= bpow radix2 42 -> R_ t < 0 ->
  exists J : Z, (1 <= J)%Z /\ IZR J <= - R_ t / (4 * R_ Q) * (1 + / 4503599627370496) + 3 /\
    Rabs (R_ (lift_total t) - (R_ t + 4 * R_ Q * IZR J)) <= / 2251799813685248 * (- R_ t) + / 100000000000000.
Proof.
intros Ft Bt Ng. unfold lift_total.
rewrite flt_R by auto using fin_zero. rewrite R_zero.
destruct (Rlt_bool_spec (R_ t) 0) as [Neg|Pos]; [|lra].
destruct fq_val as [FQv FQf]. destruct four_val as [V4 F4]. pose proof Qpos as Qp.
assert (B42 : bpow radix2 42 = 4398046511104) by (simpl; lra).
set (a := - R_ t). assert (Ha : 0 < a <= 4398046511104).
{ unfold a. rewrite <- B42. apply Rabs_le_inv in Bt. lra. }
assert (RA : R_ (fabs t) = a) by (rewrite fabs_R, Rabs_left by assumption; reflexivity).
(* x1 = |t| / (4q) *)
assert (Qnz : R_ (fmul four Q) <> 0) by (rewrite FQv; lra).
assert (X1r : 0 <= a / (4 * R_ Q) <= 4398046511104).
{ rewrite Qval. split. apply Rmult_le_pos; [lra|]. apply Rlt_le, Rinv_0_lt_compat; lra.
  apply Rmult_le_reg_r with (4 * (7074237752028440 / 4503599627370496)); [lra|]. field_simplify; lra. }
destruct (fdiv_R (fabs t) (fmul four Q) (fin_fabs _ Ft) Qnz) as [VX FX].
{ rewrite RA, FQv. rewrite Rabs_pos_eq by lra. apply Rle_trans with 4398046511104; [lra|].
  rewrite <- B42. apply bpow_le; lia. }
rewrite RA, FQv in VX.
set (x1 := fdiv (fabs t) (fmul four Q)) in *.
assert (X1u : R_ x1 <= 4398046511104).
{ rewrite VX, <- B42. rewrite <- (round_generic radix2 fexp ZnearestE (bpow radix2 42)).
  apply round_le; auto with typeclass_instances. rewrite B42; lra.
  apply generic_format_bpow. unfold FLT_exp, emax, prec; simpl; lia. }
assert (X1l : a / (4 * R_ Q) * (1 - / 9007199254740992) - bpow radix2 (-1075) <= R_ x1).
{ rewrite VX. apply rnd_lower. lra. }
assert (X10 : 0 <= R_ x1) by (rewrite VX; apply rnd_ge0; lra).
(* fr = ceil x1 *)
destruct (fceil_R x1 FX) as [VF FF]. set (n := Zceil (R_ x1)) in *.
assert (Nl : R_ x1 <= IZR n) by apply Zceil_ub.
assert (Nu : (n <= 4398046511104)%Z) by (apply Zceil_glb; simpl; exact X1u).
assert (N0 : (0 <= n)%Z). { apply le_IZR. simpl. lra. }
(* m1 = fr * 4, exact *)
destruct (fmul_R (fceil x1) four FF F4) as [VM1 FM1].
{ rewrite VF, V4. rewrite Rabs_pos_eq. 2:{ apply Rmult_le_pos; [apply IZR_le; lia|lra]. }
  apply Rle_trans with (4398046511104 * 4). apply Rmult_le_compat_r; [lra|]. apply IZR_le in Nu. exact Nu.
  apply Rle_trans with (bpow radix2 45); [simpl; lra|apply bpow_le; lia]. }
rewrite VF, V4 in VM1.
assert (E1 : rnd (IZR n * 4) = IZR n * 4).
{ apply round_generic; auto with typeclass_instances. replace (IZR n * 4) with (IZR (n * 4)) by (rewrite mult_IZR; reflexivity).
  apply fmt_IZR. rewrite Z.abs_eq by lia. lia. }
rewrite E1 in VM1.
(* m2 = m1 * q *)
assert (NR : 0 <= IZR n <= 4398046511104). { split; [apply IZR_le in N0|apply IZR_le in Nu]; lra. }
destruct (fmul_R (fmul (fceil x1) four) Q FM1 fin_Q) as [VM2 FM2].
{ rewrite VM1. rewrite Rabs_pos_eq. 2:{ apply Rmult_le_pos; lra. }
  apply Rle_trans with (bpow radix2 46); [|apply bpow_le; lia]. rewrite Qval. simpl. nra. }
rewrite VM1 in VM2.
set (m2 := fmul (fmul (fceil x1) four) Q) in *.
assert (M2l : IZR n * 4 * R_ Q * (1 - / 9007199254740992) - bpow radix2 (-1075) <= R_ m2).
{ rewrite VM2. apply rnd_lower. apply Rmult_le_pos; lra. }
assert (M2u : R_ m2 <= bpow radix2 46).
{ rewrite VM2. rewrite <- (round_generic radix2 fexp ZnearestE (bpow radix2 46)).
  apply round_le; auto with typeclass_instances. rewrite Qval. simpl. nra.
  apply generic_format_bpow. unfold FLT_exp, emax, prec; simpl; lia. }
assert (M20 : 0 <= R_ m2). { rewrite VM2. apply rnd_ge0. apply Rmult_le_pos; lra. }
(* lifted = t + m2 *)
assert (T : R_ t = - a) by (unfold a; ring).
destruct (fadd_R t m2 Ft FM2) as [VL FL].
{ apply Rle_trans with (bpow radix2 47); [|apply bpow_le; lia]. apply Rabs_le. rewrite T.
  assert (bpow radix2 46 = 70368744177664) by (simpl; lra). assert (bpow radix2 47 = 140737488355328) by (simpl; lra). lra. }
set (lifted := fadd t m2) in *.
assert (Tiny : bpow radix2 (-1075) <= / 1073741824).
{ apply Rle_trans with (bpow radix2 (-30)). apply bpow_le; lia. simpl. lra. }
pose proof (bpow_gt_0 radix2 (-1075)) as Tp.
assert (Sum : - / 512 <= R_ t + R_ m2).
{ rewrite T.
  assert (K1 : a * (1 - / 9007199254740992) - 8 * bpow radix2 (-1075) <= IZR n * 4 * R_ Q).
  { assert (4 * R_ Q * R_ x1 <= IZR n * 4 * R_ Q) by nra.
    assert (4 * R_ Q * (a / (4 * R_ Q) * (1 - / 9007199254740992) - bpow radix2 (-1075)) <= 4 * R_ Q * R_ x1) by nra.
    assert (4 * R_ Q * (a / (4 * R_ Q)) = a) by (field; lra).
    rewrite Qval in *. nra. }
  nra. }
assert (Ll : - / 512 <= R_ lifted).
{ rewrite VL. rewrite <- (round_generic radix2 fexp ZnearestE (- / 512)).
  apply round_le; auto with typeclass_instances.
  apply generic_format_opp. replace (/ 512) with (bpow radix2 (-9)) by (simpl; lra).
  apply generic_format_bpow. unfold FLT_exp, emax, prec; simpl; lia. }
assert (X1h : R_ x1 <= a / (4 * R_ Q) * (1 + / 9007199254740992) + bpow radix2 (-1075)).
{ rewrite VX. apply rnd_upper. lra. }
assert (Nh : IZR n < R_ x1 + 1) by apply Zceil_lb.
assert (M2h : R_ m2 <= IZR n * 4 * R_ Q * (1 + / 9007199254740992) + bpow radix2 (-1075)).
{ rewrite VM2. apply rnd_upper. apply Rmult_le_pos; lra. }
assert (B256 : fmt (4 * R_ Q + / 256)).
{ rewrite Qval. replace (4 * (7074237752028440 / 4503599627370496) + / 256) with (F2R (Float radix2 7078635798539544 (-50))) by (unfold F2R; simpl; lra).
  apply generic_format_FLT. apply FLT_spec with (Float radix2 7078635798539544 (-50)); simpl; auto; unfold emax, prec; lia. }
assert (SumU : R_ t + R_ m2 <= 4 * R_ Q + / 256).
{ rewrite T.
  assert (K2 : IZR n * 4 * R_ Q <= a * (1 + / 9007199254740992) + 4 * R_ Q + 8 * bpow radix2 (-1075)).
  { assert (IZR n * 4 * R_ Q <= (R_ x1 + 1) * (4 * R_ Q)) by nra.
    assert ((R_ x1 + 1) * (4 * R_ Q) <= (a / (4 * R_ Q) * (1 + / 9007199254740992) + bpow radix2 (-1075) + 1) * (4 * R_ Q)) by nra.
    assert (4 * R_ Q * (a / (4 * R_ Q)) = a) by (field; lra).
    rewrite Qval in *. nra. }
  rewrite Qval in *. nra. }
assert (Lu : R_ lifted <= 4 * R_ Q + / 256).
{ rewrite VL. rewrite <- (round_generic radix2 fexp ZnearestE (4 * R_ Q + / 256)) by exact B256.
  apply round_le; auto with typeclass_instances. }
assert (Tiny2 : bpow radix2 (-1075) <= / 1267650600228229401496703205376).
{ apply Rle_trans with (bpow radix2 (-100)). apply bpow_le; lia. simpl. lra. }
pose proof (rnd_rel (IZR n * 4 * R_ Q)) as EM2. rewrite <- VM2 in EM2.
assert (NQ0 : 0 <= IZR n * 4 * R_ Q) by (apply Rmult_le_pos; lra).
rewrite (Rabs_pos_eq _ NQ0) in EM2. apply Rabs_le_inv in EM2.
pose proof (rnd_rel (R_ t + R_ m2)) as EL. rewrite <- VL in EL.
assert (SA : Rabs (R_ t + R_ m2) <= 7) by (apply Rabs_le; rewrite Qval in *; lra).
apply Rabs_le_inv in EL.
assert (NU : IZR n <= a / (4 * R_ Q) * (1 + / 9007199254740992) + 1 + bpow radix2 (-1075)) by lra.
assert (AQ : 4 * R_ Q * (a / (4 * R_ Q)) = a) by (field; lra).
assert (NQU : IZR n * 4 * R_ Q <= a * (1 + / 9007199254740992) + 4 * R_ Q + 8 * bpow radix2 (-1075)).
{ assert (IZR n * 4 * R_ Q <= (a / (4 * R_ Q) * (1 + / 9007199254740992) + 1 + bpow radix2 (-1075)) * (4 * R_ Q)) by nra.
  rewrite Qval in *. nra. }
cbv zeta. fold x1. fold m2. fold lifted.
rewrite flt_R by auto using fin_zero. rewrite R_zero.
assert (DivE : - R_ t / (4 * R_ Q) = a / (4 * R_ Q)) by (unfold a; reflexivity).
destruct (Rlt_bool_spec (R_ lifted) 0) as [LN|LP].
- destruct (fadd_R lifted (fmul four Q) FL FQf) as [VE FE].
  { apply small_le_1000. rewrite FQv, Qval. apply Rabs_le. lra. }
  exists (n + 1)%Z. split; [lia|]. rewrite plus_IZR. simpl (IZR 1). split.
  + rewrite Qval in *. nra.
  + pose proof (rnd_rel (R_ lifted + R_ (fmul four Q))) as EF. rewrite <- VE in EF. rewrite FQv in *.
    assert (SB : Rabs (R_ lifted + 4 * R_ Q) <= 7) by (apply Rabs_le; rewrite Qval in *; lra).
    apply Rabs_le_inv in EF. apply Rabs_le. rewrite T. rewrite Qval in *. lra.
- exists n. assert (N1 : (1 <= n)%Z).
  { destruct (Z.eq_dec n 0) as [E0|NE]; [|lia]. exfalso.
    rewrite E0 in VM2. simpl (IZR 0) in VM2. rewrite !Rmult_0_l, round_0 in VM2; auto with typeclass_instances.
    rewrite VM2, Rplus_0_r in VL. rewrite round_generic in VL; auto with typeclass_instances; [lra|apply fmt_R]. }
  split; [exact N1|]. split.
  + rewrite Qval in *. nra.
  + apply Rabs_le. rewrite T. rewrite Qval in *. lra.
Qed.

Lemma from_total_zero s : blade (from_total (B754_zero s)) = 0%Z /\ R_ (rem (from_total (B754_zero s))) = 0.
Proof.
assert (E : rem (from_total (B754_zero s)) = B754_zero s /\ blade (from_total (B754_zero s)) = 0%Z)
  by (destruct s; vm_compute; split; reflexivity).
destruct E as [E1 E2]. rewrite E1, E2. split; reflexivity.
Qed.

(* from_total of a non-negative total: direction (REAL pi) = the total, plus the blade count times (pi/2 - q) *)
Lemma from_total_dirR nt : fin nt -> 0 <= R_ nt <= bpow radix2 43 ->
  Rabs (dirR (from_total nt) - R_ nt) <= R_ eps10 + / 4503599627370496 + (R_ nt / R_ Q + 1) * (7 / 100000000000000000).
Proof.
intros Fn [N0 N1]. pose proof Qpos as Qp. pose proof E10pos as Ep. pose proof delta_small as D.
destruct (Req_dec (R_ nt) 0) as [Z|NZ].
- destruct nt as [s|s| |s m e H]; try discriminate.
  + destruct (from_total_zero s) as [B R]. unfold dirR. rewrite B, R. change (R_ (B754_zero s)) with 0.
    simpl (IZR 0). replace (0 * (Rtrigo1.PI / 2) + 0 - 0) with 0 by ring. rewrite Rabs_R0.
    unfold Rdiv. rewrite Rmult_0_l. lra.
  + exfalso. destruct s; simpl in Z.
    * assert (K := F2R_lt_0 radix2 (Float radix2 (Z.neg m) e) ltac:(simpl; lia)). lra.
    * assert (K := F2R_gt_0 radix2 (Float radix2 (Z.pos m) e) ltac:(simpl; lia)). lra.
- assert (Bn : 0 < R_ nt <= bpow radix2 43) by lra.
  destruct (from_total_decomp nt Fn Bn) as (k & Hk0 & Hk & [R0 R1] & Hc).
  assert (K0 : 0 <= IZR k) by (apply IZR_le; lia).
  assert (KQ : IZR k <= R_ nt / R_ Q).
  { apply Rmult_le_reg_r with (R_ Q); [exact Qp|]. unfold Rdiv. rewrite Rmult_assoc, Rinv_l by lra. lra. }
  set (dl := Rtrigo1.PI / 2 - R_ Q) in *.
  assert (HP : Rtrigo1.PI / 2 = R_ Q + dl) by (unfold dl; ring).
  unfold dirR. rewrite HP. clearbody dl.
  destruct Hc as [[B R]|[B [R N]]]; rewrite B, R; rewrite ?plus_IZR; simpl (IZR 1); apply Rabs_le_inv in N || idtac; apply Rabs_le; nra.
Qed.

(* Angle::new on the general path: with the REAL pi the result points along the computed total plus J whole turns *)
Lemma new_dirR p d : fast_path p d = false ->
  fin (total_angle p d) -> Rabs (R_ (total_angle p d)) <= bpow radix2 42 ->
  exists J : Z, (0 <= J)%Z /\
    Rabs (dirR (new p d) - (R_ (total_angle p d) + 2 * Rtrigo1.PI * IZR J))
      <= R_ eps10 + 2 / 100000000000000 + Rabs (R_ (total_angle p d)) / 1000000000000000.
Proof.
intros Hf Ft Bt. rewrite new_unfold, Hf. set (t := total_angle p d) in *.
pose proof Qpos as Qp. pose proof E10pos as Ep. pose proof delta_small as D.
assert (B42 : bpow radix2 42 = 4398046511104) by (simpl; lra).
assert (B43 : bpow radix2 43 = 8796093022208) by (simpl; lra).
destruct (lift_total_nonneg t Ft Bt) as [Fl Pl].
destruct (Rlt_le_dec (R_ t) 0) as [Ng|Pg].
- destruct (lift_total_value t Ft Bt Ng) as (J & J1 & JU & EV).
  pose proof (lift_total_upper t Ft Bt Ng) as LU.
  assert (L43 : 0 <= R_ (lift_total t) <= bpow radix2 43) by (rewrite B43, Qval in *; lra).
  pose proof (from_total_dirR _ Fl L43) as FD.
  exists J. split; [lia|].
  rewrite (Rabs_left (R_ t)) by exact Ng. rewrite B42 in Bt. apply Rabs_le_inv in Bt.
  set (dl := Rtrigo1.PI / 2 - R_ Q) in *.
  assert (HP : Rtrigo1.PI = 2 * (R_ Q + dl)) by (unfold dl; field). rewrite HP. clearbody dl.
  assert (J0 : 1 <= IZR J) by (apply IZR_le; lia).
  set (nt := R_ (lift_total t)) in *.
  assert (DivB : nt / R_ Q <= 5).
  { apply Rmult_le_reg_r with (R_ Q); [exact Qp|]. unfold Rdiv. rewrite Rmult_assoc, Rinv_l by lra. rewrite Qval in *. lra. }
  assert (DivT : - R_ t / (4 * R_ Q) <= - R_ t / 6).
  { unfold Rdiv. apply Rmult_le_compat_l; [lra|]. apply Rinv_le; [lra|rewrite Qval; lra]. }
  apply Rabs_le_inv in EV. apply Rabs_le_inv in FD. apply Rabs_le. rewrite Qval, E10val in *. nra.
- exists 0%Z. split; [lia|]. simpl (IZR 0). rewrite Rmult_0_r, Rplus_0_r.
  assert (LE : lift_total t = t).
  { unfold lift_total. rewrite flt_R by auto using fin_zero. rewrite R_zero. now rewrite Rlt_bool_false by exact Pg. }
  rewrite LE. rewrite (Rabs_pos_eq (R_ t)) in * by exact Pg.
  assert (L43 : 0 <= R_ t <= bpow radix2 43) by (rewrite B43, B42 in *; lra).
  pose proof (from_total_dirR t Ft L43) as FD.
  assert (DivT : R_ t / R_ Q <= R_ t).
  { unfold Rdiv. rewrite <- (Rmult_1_r (R_ t)) at 2. apply Rmult_le_compat_l; [lra|].
    rewrite <- Rinv_1. apply Rinv_le; [lra|rewrite Qval; lra]. }
  eapply Rle_trans; [exact FD|]. rewrite E10val in *. lra.
Qed.

(* the re-encoding of the general path: new_with_blade n (at - n*PI/2) PI points along at (the atan2
   result) up to whole turns, within 1e-10 + 3e-14 + n * 4e-15 (the float PI is not the real pi and the
   blade shift n*PI/2 is rounded: both errors grow linearly with the blade sum n) *)
Lemma reencode_dirR (at_ : F) n : fin at_ -> Rabs (R_ at_) <= R_ PI -> (0 <= n < 2 ^ 40)%Z ->
  let r := new_with_blade n (fsub at_ (fdiv (fmul (of_Z n) PI) two)) PI in
  canonp (rem r) /\ (n <= blade r <= n + 4)%Z /\
  exists J : Z, (0 <= J)%Z /\
    Rabs (dirR r - (R_ at_ + 2 * Rtrigo1.PI * IZR J))
      <= R_ eps10 + 3 / 100000000000000 + IZR n * (4 / 1000000000000000).
Proof.
intros Fa Ba Hn r. destruct PIval as [VP FP]. destruct two_val as [V2 F2].
assert (P : R_ PI = 14148475504056880 / 4503599627370496) by (rewrite VP, Qval; lra).
destruct (of_Z_R n ltac:(lia)) as [Vn Fn].
assert (Nr : 0 <= IZR n <= 1099511627776). { split; [apply IZR_le; lia|]. apply IZR_le. lia. }
assert (Tiny : bpow radix2 (-1075) <= / 1267650600228229401496703205376).
{ apply Rle_trans with (bpow radix2 (-100)). apply bpow_le; lia. simpl. lra. }
pose proof (bpow_gt_0 radix2 (-1075)) as Tp.
assert (B1000 : forall x, Rabs x <= 36028797018963968 -> Rabs x <= bpow radix2 1000).
{ intros x Hx. apply Rle_trans with (1:=Hx). change 36028797018963968 with (bpow radix2 55). apply bpow_le; lia. }
(* s1 = n * PI *)
destruct (fmul_R (of_Z n) PI Fn FP) as [V1 F1]. { apply B1000. rewrite Vn, P. apply Rabs_le. nra. }
rewrite Vn, P in V1.
assert (S10 : 0 <= IZR n * (14148475504056880 / 4503599627370496)) by nra.
pose proof (rnd_ge0 _ S10) as L1. pose proof (rnd_rel (IZR n * (14148475504056880 / 4503599627370496))) as E1.
rewrite (Rabs_pos_eq _ S10) in E1. rewrite <- V1 in L1, E1. apply Rabs_le_inv in E1.
set (s1 := fmul (of_Z n) PI) in *.
(* s2 = s1 / 2 *)
destruct (fdiv_R s1 two F1) as [V3 F3]. { rewrite V2; lra. } { apply B1000. rewrite V2. apply Rabs_le. nra. }
rewrite V2 in V3. assert (S20 : 0 <= R_ s1 / 2) by lra.
pose proof (rnd_ge0 _ S20) as L3. pose proof (rnd_rel (R_ s1 / 2)) as E3.
rewrite (Rabs_pos_eq _ S20) in E3. rewrite <- V3 in L3, E3. apply Rabs_le_inv in E3.
set (s2 := fdiv s1 two) in *.
(* adj = at - s2 *)
apply Rabs_le_inv in Ba. rewrite P in Ba.
destruct (fsub_R at_ s2 Fa F3) as [V4 F4]. { apply B1000. apply Rabs_le; nra. }
pose proof (rnd_rel (R_ at_ - R_ s2)) as E4. rewrite <- V4 in E4.
assert (A4 : Rabs (R_ at_ - R_ s2) <= 4 + IZR n * 2) by (apply Rabs_le; nra).
apply Rabs_le_inv in E4.
set (adj := fsub at_ s2) in *.
assert (AB : Rabs (R_ adj) <= 5 + IZR n * 2).
{ pose proof (Rabs_le_inv _ _ A4) as A4'. apply Rabs_le. lra. }
(* m = adj * PI, t = m / PI *)
destruct (fmul_R adj PI F4 FP) as [V5 F5]. { apply B1000. rewrite P. rewrite Rabs_mult. rewrite (Rabs_pos_eq (14148475504056880 / 4503599627370496)) by lra. pose proof (Rabs_pos (R_ adj)). nra. }
rewrite P in V5. pose proof (rnd_rel (R_ adj * (14148475504056880 / 4503599627370496))) as E5. rewrite <- V5 in E5.
rewrite Rabs_mult, (Rabs_pos_eq (14148475504056880 / 4503599627370496)) in E5 by lra.
set (m := fmul adj PI) in *.
destruct (total_of_atan2 at_ n Fa ltac:(apply Rabs_le; rewrite P; lra) Hn) as (Ft & Bt & _).
fold s1 s2 adj in Ft, Bt. unfold total_angle in Ft, Bt. fold m in Ft, Bt.
destruct (fdiv_R m PI F5) as [V6 F6]. { rewrite P. lra. }
{ apply B1000. rewrite P. apply Rabs_div_le; [lra|]. 
  replace (R_ m) with ((R_ m - R_ adj * (14148475504056880 / 4503599627370496)) + R_ adj * (14148475504056880 / 4503599627370496)) by ring.
  eapply Rle_trans; [apply Rabs_triang|]. rewrite (Rabs_mult (R_ adj)), (Rabs_pos_eq (14148475504056880 / 4503599627370496)) by lra.
  pose proof (Rabs_pos (R_ adj)). nra. }
rewrite P in V6. pose proof (rnd_rel (R_ m / (14148475504056880 / 4503599627370496))) as E6. rewrite <- V6 in E6.
set (t := fdiv m PI) in *.
(* |t - adj| *)
assert (MD : Rabs (R_ m / (14148475504056880 / 4503599627370496) - R_ adj) <= / 9007199254740992 * Rabs (R_ adj) + bpow radix2 (-1075)).
{ replace (R_ m / (14148475504056880 / 4503599627370496) - R_ adj) with ((R_ m - R_ adj * (14148475504056880 / 4503599627370496)) / (14148475504056880 / 4503599627370496)) by (field; lra).
  apply Rabs_div_le; [lra|]. pose proof (Rabs_pos (R_ adj)). nra. }
assert (MA : Rabs (R_ m / (14148475504056880 / 4503599627370496)) <= Rabs (R_ adj) * (1 + / 9007199254740992) + bpow radix2 (-1075)).
{ replace (R_ m / (14148475504056880 / 4503599627370496)) with ((R_ m / (14148475504056880 / 4503599627370496) - R_ adj) + R_ adj) by ring.
  eapply Rle_trans; [apply Rabs_triang|]. lra. }
assert (TD : Rabs (R_ t - R_ adj) <= 3 * / 9007199254740992 * Rabs (R_ adj) + 3 * bpow radix2 (-1075)).
{ replace (R_ t - R_ adj) with ((R_ t - R_ m / (14148475504056880 / 4503599627370496)) + (R_ m / (14148475504056880 / 4503599627370496) - R_ adj)) by ring.
  eapply Rle_trans; [apply Rabs_triang|]. pose proof (Rabs_pos (R_ adj)). nra. }
(* the angle *)
assert (Hn53 : (0 <= n < 2 ^ 53)%Z) by lia.
destruct (new_canon adj PI Ft Bt) as [Cn Bn].
pose proof (new_with_blade_adds n adj PI Hn53 Cn) as S. fold r in S.
assert (Cr : canonp (rem r)) by (eapply steps_canon; eauto).
split; [exact Cr|].
destruct (Rle_lt_dec (R_ (fdiv (fmul adj PI) PI)) 4) as [T4|T4'].
2:{ exfalso. destruct (total_of_atan2 at_ n Fa ltac:(apply Rabs_le; rewrite P; lra) Hn) as (_ & _ & T4).
    fold s1 s2 adj in T4. unfold total_angle in T4. lra. }
destruct (new_blade_upper adj PI (fast_path_PI _) Ft Bt T4) as [U4 _].
destruct S as (EB & ER & _).
split; [rewrite EB; lia|].
destruct (new_dirR adj PI (fast_path_PI _) Ft Bt) as (J & J0 & ED).
exists J. split; [exact J0|].
unfold total_angle in ED. fold m t in ED.
assert (DR : dirR r = dirR (new adj PI) + IZR n * (Rtrigo1.PI / 2)).
{ unfold dirR. rewrite EB, ER, plus_IZR. ring. }
rewrite DR.
pose proof delta_small as D. set (dl := Rtrigo1.PI / 2 - R_ Q) in *.
assert (HP2 : Rtrigo1.PI / 2 = R_ Q + dl) by (unfold dl; ring). rewrite HP2. clearbody dl.
assert (TA : Rabs (R_ t) <= Rabs (R_ adj) * (1 + 3 * / 9007199254740992) + 3 * bpow radix2 (-1075)).
{ replace (R_ t) with ((R_ t - R_ adj) + R_ adj) by ring. eapply Rle_trans; [apply Rabs_triang|]. lra. }
pose proof (Rabs_pos (R_ adj)) as A0. pose proof (Rabs_pos (R_ t)) as T0.
apply Rabs_le_inv in TD. apply Rabs_le_inv in ED.
assert (TAu : Rabs (R_ t) / 1000000000000000 <= (6 + IZR n * 2) / 1000000000000000).
{ unfold Rdiv. apply Rmult_le_compat_r; [lra|]. nra. }
set (W := 2 * Rtrigo1.PI * IZR J) in *. clearbody W.
assert (ND : 0 <= IZR n * dl <= IZR n * (7 / 100000000000000000)).
{ destruct D as [D1 D2]. destruct Nr as [N0 _]. split; [apply Rmult_le_pos; lra|apply Rmult_le_compat_l; lra]. }
clear - ND TAu TD ED E1 E3 E4 A4 AB TA A0 T0 Tiny Tp Nr Ba L1 L3 D.
apply Rabs_le. rewrite Qval, E10val in *. lra.
Qed.

(* ---- Euclidean norm facts ---- *)
Lemma norm_triangle (x1 y1 x2 y2 : R) :
  Rabs (sqrt (x1 * x1 + y1 * y1) - sqrt (x2 * x2 + y2 * y2)) <= Rabs (x1 - x2) + Rabs (y1 - y2).
Proof.
assert (K : forall a b c d, sqrt (a * a + b * b) <= sqrt (c * c + d * d) + (Rabs (a - c) + Rabs (b - d))).
{ intros a b c d. set (n2 := sqrt (c * c + d * d)). set (e := Rabs (a - c) + Rabs (b - d)).
  assert (N0 : 0 <= n2) by apply sqrt_pos.
  assert (E0 : 0 <= e) by (unfold e; pose proof (Rabs_pos (a - c)); pose proof (Rabs_pos (b - d)); lra).
  rewrite <- (sqrt_square (n2 + e)) by lra. apply sqrt_le_1_alt.
  assert (N2 : n2 * n2 = c * c + d * d) by (unfold n2; apply sqrt_sqrt; nra).
  (* |c (a-c) + d (b-d)| <= n2 * e *)
  assert (CS : c * (a - c) + d * (b - d) <= n2 * e).
  { assert (C1 : Rabs c <= n2).
    { unfold n2. rewrite <- (sqrt_square (Rabs c)) by apply Rabs_pos. apply sqrt_le_1_alt. rewrite <- Rabs_mult, Rabs_pos_eq by nra. nra. }
    assert (D1 : Rabs d <= n2).
    { unfold n2. rewrite <- (sqrt_square (Rabs d)) by apply Rabs_pos. apply sqrt_le_1_alt. rewrite <- Rabs_mult, Rabs_pos_eq by nra. nra. }
    assert (T1 : c * (a - c) <= Rabs c * Rabs (a - c)) by (rewrite <- Rabs_mult; apply Rle_abs).
    assert (T2 : d * (b - d) <= Rabs d * Rabs (b - d)) by (rewrite <- Rabs_mult; apply Rle_abs).
    pose proof (Rabs_pos (a - c)). pose proof (Rabs_pos (b - d)). pose proof (Rabs_pos c). pose proof (Rabs_pos d).
    unfold e. nra. }
  assert (SQ : (a - c) * (a - c) + (b - d) * (b - d) <= e * e).
  { unfold e. pose proof (Rabs_pos (a - c)). pose proof (Rabs_pos (b - d)).
    assert (H1 := Rsqr_abs (a - c)). assert (H2 := Rsqr_abs (b - d)). unfold Rsqr in H1, H2.
    nra. }
  nra. }
apply Rabs_le. split.
- pose proof (K x2 y2 x1 y1). rewrite (Rabs_minus_sym x2 x1), (Rabs_minus_sym y2 y1) in H. lra.
- pose proof (K x1 y1 x2 y2). lra.
Qed.

Section SumDir.
Context (L : libm) (u u2 : R).

(* explicit premise on libm's atan2: finite, within [-PI, PI] (the double), and within u2 of an angle
   theta whose cosine / sine reproduce the float arguments (x, y) = r (cos theta, sin theta) *)
Definition atan2_acc : Prop :=
  forall y x, fin y -> fin x ->
    fin (atan2F L y x) /\ Rabs (R_ (atan2F L y x)) <= R_ PI /\
    exists theta, Rabs (R_ (atan2F L y x) - theta) <= u2 /\
      R_ x = sqrt (R_ x * R_ x + R_ y * R_ y) * cos theta /\
      R_ y = sqrt (R_ x * R_ x + R_ y * R_ y) * sin theta.

(* one Cartesian component: |a| f(g_a) + |b| f(g_b) in floating point against the real value *)
Lemma component_value (fa fb : F) (Ca Cb w : R) ma mb :
  fin (fadd (fmul ma fa) (fmul mb fb)) ->
  Rabs Ca <= 1 -> Rabs Cb <= 1 -> Rabs (R_ fa - Ca) <= w -> Rabs (R_ fb - Cb) <= w -> w <= 11 / 10000 ->
  Rabs (R_ (fadd (fmul ma fa) (fmul mb fb)) - (R_ ma * Ca + R_ mb * Cb))
    <= (Rabs (R_ ma) + Rabs (R_ mb)) * (w + 4 / 10000000000000000) + 4 * bpow radix2 (-1075).
Proof.
intros Fs HCa HCb Ea Eb Hw.
destruct (fadd_fin_R _ _ Fs) as (F1 & F2 & Vs).
pose proof (fmul_value ma fa Ca w F1 HCa Ea Hw) as E1.
pose proof (fmul_value mb fb Cb w F2 HCb Eb Hw) as E2.
rewrite Vs. set (p1 := R_ (fmul ma fa)) in *. set (p2 := R_ (fmul mb fb)) in *.
pose proof (rnd_rel (p1 + p2)) as E3.
pose proof (Rabs_pos (R_ ma)) as A0. pose proof (Rabs_pos (R_ mb)) as B0.
pose proof (bpow_gt_0 radix2 (-1075)) as Hp. set (eta := bpow radix2 (-1075)) in *.
assert (w0 : 0 <= w) by (pose proof (Rabs_pos (R_ fa - Ca)); lra).
assert (P1 : Rabs p1 <= Rabs (R_ ma) * (1 + w + 2 / 10000000000000000) + eta).
{ replace p1 with ((p1 - R_ ma * Ca) + R_ ma * Ca) by ring. eapply Rle_trans; [apply Rabs_triang|]. rewrite (Rabs_mult (R_ ma) Ca).
  assert (Rabs (R_ ma) * Rabs Ca <= Rabs (R_ ma)) by (rewrite <- (Rmult_1_r (Rabs (R_ ma))) at 2; apply Rmult_le_compat_l; lra). lra. }
assert (P2 : Rabs p2 <= Rabs (R_ mb) * (1 + w + 2 / 10000000000000000) + eta).
{ replace p2 with ((p2 - R_ mb * Cb) + R_ mb * Cb) by ring. eapply Rle_trans; [apply Rabs_triang|]. rewrite (Rabs_mult (R_ mb) Cb).
  assert (Rabs (R_ mb) * Rabs Cb <= Rabs (R_ mb)) by (rewrite <- (Rmult_1_r (Rabs (R_ mb))) at 2; apply Rmult_le_compat_l; lra). lra. }
assert (P12 : Rabs (p1 + p2) <= (Rabs (R_ ma) + Rabs (R_ mb)) * (1 + w + 2 / 10000000000000000) + 2 * eta).
{ eapply Rle_trans; [apply Rabs_triang|]. lra. }
replace (rnd (p1 + p2) - (R_ ma * Ca + R_ mb * Cb)) with ((rnd (p1 + p2) - (p1 + p2)) + (p1 - R_ ma * Ca) + (p2 - R_ mb * Cb)) by ring.
eapply Rle_trans; [apply Rabs_triang|]. eapply Rle_trans; [apply Rplus_le_compat_r, Rabs_triang|].
set (M := Rabs (R_ ma) + Rabs (R_ mb)) in *.
assert (M0 : 0 <= M) by (unfold M; lra).
assert (MW : M * w <= M * (11 / 10000)) by (apply Rmult_le_compat_l; lra).
assert (MW0 : 0 <= M * w) by (apply Rmult_le_pos; lra).
replace (Rabs (R_ ma) * (w + 2 / 10000000000000000)) with (Rabs (R_ ma) * w + Rabs (R_ ma) * (2 / 10000000000000000)) in E1 by ring.
replace (Rabs (R_ mb) * (w + 2 / 10000000000000000)) with (Rabs (R_ mb) * w + Rabs (R_ mb) * (2 / 10000000000000000)) in E2 by ring.
assert (MWs : M * w = Rabs (R_ ma) * w + Rabs (R_ mb) * w) by (unfold M; ring).
unfold M in *. lra.
Qed.

(* C06: on the general path the polar result [mag, angle] of a + b reproduces the Cartesian sum
   V = |a|(cos, sin)(dir a) + |b|(cos, sin)(dir b), component by component (REAL pi, cos, sin) *)
Lemma gadd_cartesian a b : cos_acc L u -> sin_acc L u -> atan2_acc -> u <= / 1000 ->
  canonp (rem (ang a)) -> canonp (rem (ang b)) ->
  aeqb (ang a) (ang b) = false ->
  aeqb (add_vv (ang a) (new one one)) (ang b) || aeqb (add_vv (ang b) (new one one)) (ang a) = false ->
  (0 <= blade (ang a) + blade (ang b) < 2 ^ 40)%Z ->
  fin (gadd_rad L a b) ->
  fin (fadd (fmul (mag a) (sinF L (grade_angle (ang a)))) (fmul (mag b) (sinF L (grade_angle (ang b))))) ->
  fin (fadd (fmul (mag a) (cosF L (grade_angle (ang a)))) (fmul (mag b) (cosF L (grade_angle (ang b))))) ->
  let r := gadd_vv L a b in
  let Vx := R_ (mag a) * cos (dir (ang a)) + R_ (mag b) * cos (dir (ang b)) in
  let Vy := R_ (mag a) * sin (dir (ang a)) + R_ (mag b) * sin (dir (ang b)) in
  let M := Rabs (R_ (mag a)) + Rabs (R_ (mag b)) in
  let E := M * (u + 3 / 1000000000000000) + 4 * bpow radix2 (-1075) in
  let S := R_ (mag a) * R_ (mag a) + R_ (mag b) * R_ (mag b) in
  let Bnd := S * (u + 1 / 100000000000000) + 10 * bpow radix2 (-1075) in
  let tolN := R_ eps10 + 3 / 100000000000000 + IZR (blade (ang a) + blade (ang b)) * (4 / 1000000000000000) in
  let T := sqrt Bnd * (1 + / 9007199254740992) + / 9007199254740992 * sqrt (Vx * Vx + Vy * Vy) + bpow radix2 (-1075)
           + 3 * E + (M + 2 * E) * (u2 + tolN) in
  Rabs (R_ (mag r) * cos (dirR (ang r)) - Vx) <= T /\ Rabs (R_ (mag r) * sin (dirR (ang r)) - Vy) <= T.
Proof.
intros HC HS HA Hu Ca Cb N1 N2 Hn Frad Fopp Fadj r Vx Vy M E S Bnd tolN T.
assert (u0 : 0 <= u) by (apply (acc_u_nonneg L u); now left).
pose proof (bpow_gt_0 radix2 (-1075)) as Hp.
(* components *)
destruct (gcos_value L u (ang a) HC Ca) as (_ & Eca & _). destruct (gcos_value L u (ang b) HC Cb) as (_ & Ecb & _).
destruct (gsin_value L u (ang a) HS Ca) as (_ & Esa & _). destruct (gsin_value L u (ang b) HS Cb) as (_ & Esb & _).
cbv zeta in Eca, Ecb, Esa, Esb.
pose proof (COS_bound (dir (ang a))) as CBa. pose proof (COS_bound (dir (ang b))) as CBb.
pose proof (SIN_bound (dir (ang a))) as SBa. pose proof (SIN_bound (dir (ang b))) as SBb.
assert (Hw : u + 25 / 10000000000000000 <= 11 / 10000) by lra.
pose proof (component_value _ _ (cos (dir (ang a))) (cos (dir (ang b))) _ (mag a) (mag b) Fadj
  ltac:(apply Rabs_le; lra) ltac:(apply Rabs_le; lra) Eca Ecb Hw) as EX.
pose proof (component_value _ _ (sin (dir (ang a))) (sin (dir (ang b))) _ (mag a) (mag b) Fopp
  ltac:(apply Rabs_le; lra) ltac:(apply Rabs_le; lra) Esa Esb Hw) as EY.
fold Vx in EX. fold Vy in EY. fold M in EX, EY.
set (adjs := fadd (fmul (mag a) (cosF L (grade_angle (ang a)))) (fmul (mag b) (cosF L (grade_angle (ang b))))) in *.
set (opp := fadd (fmul (mag a) (sinF L (grade_angle (ang a)))) (fmul (mag b) (sinF L (grade_angle (ang b))))) in *.
assert (M0 : 0 <= M) by (unfold M; pose proof (Rabs_pos (R_ (mag a))); pose proof (Rabs_pos (R_ (mag b))); lra).
assert (EXE : Rabs (R_ adjs - Vx) <= E) by (unfold E; nra).
assert (EYE : Rabs (R_ opp - Vy) <= E) by (unfold E; nra).
assert (E0 : 0 <= E) by (pose proof (Rabs_pos (R_ adjs - Vx)); lra).
(* atan2 *)
destruct (HA opp adjs Fopp Fadj) as (Fat & Bat & th & Eth & Xc & Ys).
set (at_ := atan2F L opp adjs) in *. set (rr := sqrt (R_ adjs * R_ adjs + R_ opp * R_ opp)) in *.
(* the angle of the result *)
set (n := (blade (ang a) + blade (ang b))%Z) in *.
destruct (reencode_dirR at_ n Fat Bat Hn) as (_ & _ & J & J0 & ED).
assert (EA : ang r = new_with_blade n (fsub at_ (fdiv (fmul (of_Z n) PI) two)) PI).
{ unfold r. rewrite (gadd_general_form L a b N1 N2). reflexivity. }
rewrite <- EA in ED. fold tolN in ED. set (phi := dirR (ang r)) in *.
assert (Cphi : Rabs (cos phi - cos th) <= u2 + tolN).
{ rewrite <- (cos_period th (Z.to_nat J)). rewrite INR_IZR_INZ, Z2Nat.id by exact J0.
  eapply Rle_trans; [apply cos_lip|].
  replace (phi - (th + 2 * IZR J * Rtrigo1.PI)) with ((phi - (R_ at_ + 2 * Rtrigo1.PI * IZR J)) + (R_ at_ - th)) by ring.
  eapply Rle_trans; [apply Rabs_triang|]. lra. }
assert (Sphi : Rabs (sin phi - sin th) <= u2 + tolN).
{ rewrite <- (sin_period th (Z.to_nat J)). rewrite INR_IZR_INZ, Z2Nat.id by exact J0.
  eapply Rle_trans; [apply sin_lip|].
  replace (phi - (th + 2 * IZR J * Rtrigo1.PI)) with ((phi - (R_ at_ + 2 * Rtrigo1.PI * IZR J)) + (R_ at_ - th)) by ring.
  eapply Rle_trans; [apply Rabs_triang|]. lra. }
assert (UT0 : 0 <= u2 + tolN) by (pose proof (Rabs_pos (cos phi - cos th)); lra).
(* the magnitude of the result *)
destruct (gadd_mag_value L u a b HC Hu Ca Cb N1 N2 Frad) as (D0 & EM). fold r S Bnd in EM.
set (D := S + 2 * R_ (mag a) * R_ (mag b) * cos (dir (ang b) - dir (ang a))) in *.
assert (DV : D = Vx * Vx + Vy * Vy).
{ unfold D, S, Vx, Vy. rewrite cos_minus.
  pose proof (sin2_cos2 (dir (ang a))) as Pa. pose proof (sin2_cos2 (dir (ang b))) as Pb. unfold Rsqr in Pa, Pb. nra. }
rewrite DV in EM. set (nv := sqrt (Vx * Vx + Vy * Vy)) in *.
assert (NV0 : 0 <= nv) by apply sqrt_pos.
assert (NVM : nv <= M).
{ unfold nv. rewrite <- (sqrt_square M) by exact M0. apply sqrt_le_1_alt. rewrite <- DV. unfold D, S, M.
  pose proof (COS_bound (dir (ang b) - dir (ang a))) as CB.
  assert (R1 := Rsqr_abs (R_ (mag a))). assert (R2 := Rsqr_abs (R_ (mag b))). unfold Rsqr in R1, R2.
  assert (P2 : 2 * R_ (mag a) * R_ (mag b) * cos (dir (ang b) - dir (ang a)) <= 2 * (Rabs (R_ (mag a)) * Rabs (R_ (mag b)))).
  { rewrite <- Rabs_mult. pose proof (Rle_abs (R_ (mag a) * R_ (mag b) * cos (dir (ang b) - dir (ang a)))) as H.
    rewrite Rabs_mult in H. assert (Rabs (cos (dir (ang b) - dir (ang a))) <= 1) by (apply Rabs_le; lra).
    pose proof (Rabs_pos (R_ (mag a) * R_ (mag b))). nra. }
  nra. }
pose proof (norm_triangle (R_ adjs) (R_ opp) Vx Vy) as NT. fold rr nv in NT.
assert (RRV : Rabs (rr - nv) <= 2 * E) by lra.
assert (RR0 : 0 <= rr) by apply sqrt_pos.
assert (RRM : rr <= M + 2 * E) by (apply Rabs_le_inv in RRV; lra).
set (B1 := sqrt Bnd * (1 + / 9007199254740992) + / 9007199254740992 * nv + bpow radix2 (-1075)) in *.
assert (B10 : 0 <= B1) by (pose proof (Rabs_pos (R_ (mag r) - nv)); lra).
pose proof (COS_bound phi) as CP. pose proof (SIN_bound phi) as SP.
assert (TT : T = B1 + 3 * E + (M + 2 * E) * (u2 + tolN)) by (unfold T, B1; ring).
rewrite TT.
assert (K1 : rr * (u2 + tolN) <= (M + 2 * E) * (u2 + tolN)) by (apply Rmult_le_compat_r; lra).
split.
- replace (R_ (mag r) * cos phi - Vx) with
    ((R_ (mag r) - nv) * cos phi + (nv - rr) * cos phi + rr * (cos phi - cos th) + (R_ adjs - Vx)) by (rewrite Xc; ring).
  eapply Rle_trans; [apply Rabs_triang|]. eapply Rle_trans; [apply Rplus_le_compat_r, Rabs_triang|].
  eapply Rle_trans; [apply Rplus_le_compat_r, Rplus_le_compat_r, Rabs_triang|].
  rewrite !Rabs_mult. rewrite (Rabs_pos_eq rr) by exact RR0. rewrite (Rabs_minus_sym nv rr).
  assert (Rabs (cos phi) <= 1) by (apply Rabs_le; lra).
  pose proof (Rabs_pos (R_ (mag r) - nv)). pose proof (Rabs_pos (rr - nv)). pose proof (Rabs_pos (cos phi - cos th)). pose proof (Rabs_pos (cos phi)).
  assert (Q1 : Rabs (R_ (mag r) - nv) * Rabs (cos phi) <= B1) by nra.
  assert (Q2 : Rabs (rr - nv) * Rabs (cos phi) <= 2 * E) by nra.
  assert (Q3 : rr * Rabs (cos phi - cos th) <= rr * (u2 + tolN)) by (apply Rmult_le_compat_l; lra).
  lra.
- replace (R_ (mag r) * sin phi - Vy) with
    ((R_ (mag r) - nv) * sin phi + (nv - rr) * sin phi + rr * (sin phi - sin th) + (R_ opp - Vy)) by (rewrite Ys; ring).
  eapply Rle_trans; [apply Rabs_triang|]. eapply Rle_trans; [apply Rplus_le_compat_r, Rabs_triang|].
  eapply Rle_trans; [apply Rplus_le_compat_r, Rplus_le_compat_r, Rabs_triang|].
  rewrite !Rabs_mult. rewrite (Rabs_pos_eq rr) by exact RR0. rewrite (Rabs_minus_sym nv rr).
  assert (Rabs (sin phi) <= 1) by (apply Rabs_le; lra).
  pose proof (Rabs_pos (R_ (mag r) - nv)). pose proof (Rabs_pos (rr - nv)). pose proof (Rabs_pos (sin phi - sin th)). pose proof (Rabs_pos (sin phi)).
  assert (Q1 : Rabs (R_ (mag r) - nv) * Rabs (sin phi) <= B1) by nra.
  assert (Q2 : Rabs (rr - nv) * Rabs (sin phi) <= 2 * E) by nra.
  assert (Q3 : rr * Rabs (sin phi - sin th) <= rr * (u2 + tolN)) by (apply Rmult_le_compat_l; lra).
  lra.
Qed.
End SumDir.
