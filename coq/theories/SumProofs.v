(* SumProofs: total_magnitude is the sum of the member magnitudes up to the usual recursive-summation bound (C17). *)
From Coq Require Import ZArith List Bool Reals Lra Lia Psatz.
From Flocq Require Import Core BinarySingleNaN.
Require Import GV.FloatBase GV.FloatLemmas GV.AngleM GV.AngleProofs GV.NewProofs GV.CtorProofs GV.GeonumM GV.GeonumProofs
  GV.CollM GV.CollProofs GV.DistValue.
Import ListNotations.
Open Scope R_scope.

Fixpoint rsum (c : list geonum) : R := match c with [] => 0 | g :: t => R_ (mag g) + rsum t end.

Definition eps := / 9007199254740992.

(* recursive summation from an accumulator: all magnitudes non-negative, final result finite *)
Lemma fold_sum_bound : forall (c : list geonum) (acc : F) (A E : R),
  fin (fold_left (fun a g => fadd a (mag g)) c acc) ->
  Forall (fun g => 0 <= R_ (mag g)) c -> 0 <= A -> 0 <= E ->
  Rabs (R_ acc - A) <= E ->
  Rabs (R_ (fold_left (fun a g => fadd a (mag g)) c acc) - (A + rsum c))
    <= (E + (A + rsum c)) * ((1 + eps) ^ length c) - (A + rsum c) + INR (length c) * bpow radix2 (-1075) * ((1 + eps) ^ length c).
Proof.
induction c as [|g t IH]; intros acc A E Ff Hp A0 E0 Ea; cbn [fold_left rsum length] in *.
- simpl. rewrite Rplus_0_r, Rmult_0_l, Rmult_0_l, Rplus_0_r, Rmult_1_r. lra.
- inversion Hp as [|? ? G0 Ht]; subst.
  assert (Fa : fin (fadd acc (mag g))).
  { clear - Ff. revert Ff. generalize (fadd acc (mag g)). induction t as [|h t IH]; intros a Ff; cbn [fold_left] in Ff; [exact Ff|].
    specialize (IH _ Ff). destruct (fadd_fin_R _ _ IH) as (Fa & _). exact Fa. }
  destruct (fadd_fin_R _ _ Fa) as (_ & _ & V).
  pose proof (rnd_rel (R_ acc + R_ (mag g))) as Er. rewrite <- V in Er. change (/ 9007199254740992) with eps in Er.
  set (a1 := fadd acc (mag g)) in *. set (x := R_ (mag g)) in *.
  pose proof (bpow_gt_0 radix2 (-1075)) as Hp1. set (eta := bpow radix2 (-1075)) in *.
  assert (e0 : 0 < eps < 1) by (unfold eps; lra).
  (* new accumulator error *)
  assert (AB : Rabs (R_ acc + x) <= E + A + x).
  { replace (R_ acc + x) with ((R_ acc - A) + (A + x)) by ring. eapply Rle_trans; [apply Rabs_triang|]. rewrite (Rabs_pos_eq (A + x)) by lra. lra. }
  set (E1 := E + eps * (E + A + x) + eta).
  assert (Ea1 : Rabs (R_ a1 - (A + x)) <= E1).
  { replace (R_ a1 - (A + x)) with ((R_ a1 - (R_ acc + x)) + (R_ acc - A)) by ring. eapply Rle_trans; [apply Rabs_triang|]. unfold E1.
    assert (eps * Rabs (R_ acc + x) <= eps * (E + A + x)) by (apply Rmult_le_compat_l; lra). lra. }
  assert (E10 : 0 <= E1) by (unfold E1; nra).
  specialize (IH a1 (A + x) E1 Ff Ht ltac:(lra) E10 Ea1).
  replace (A + (x + rsum t)) with (A + x + rsum t) by ring.
  eapply Rle_trans; [exact IH|].
  assert (RS : 0 <= rsum t). { clear - Ht. induction Ht; cbn [rsum]; lra. }
  set (P := (1 + eps) ^ length t) in *. assert (P1 : 1 <= P) by (unfold P; apply pow_R1_Rle; lra).
  set (S := A + x + rsum t) in *. assert (S0 : 0 <= S) by (unfold S; lra).
  rewrite S_INR. cbn [pow]. fold P.
  (* goal: (E1 + S) * P - S + n eta P <= (E + S) * ((1+eps) * P) - S + (n+1) eta ((1+eps) P) *)
  assert (K : E1 + S <= (E + S) * (1 + eps) + eta).
  { unfold E1. assert (A + x <= S) by (unfold S; lra). nra. }
  assert (N0 : 0 <= INR (length t)) by apply pos_INR.
  assert (T1 : (E1 + S) * P <= ((E + S) * (1 + eps) + eta) * P) by (apply Rmult_le_compat_r; lra).
  assert (T2 : 0 <= INR (length t) * eta * P) by (repeat apply Rmult_le_pos; lra).
  assert (T3 : 0 <= eta * P) by (apply Rmult_le_pos; lra).
  nra.
Qed.

(* C17: total_magnitude of non-negative magnitudes *)
Lemma total_value c : fin (total_magnitude c) -> Forall (fun g => 0 <= R_ (mag g)) c ->
  Rabs (R_ (total_magnitude c) - rsum c)
    <= rsum c * ((1 + eps) ^ length c - 1) + INR (length c) * bpow radix2 (-1075) * ((1 + eps) ^ length c).
Proof.
intros Ff Hp. rewrite total_magnitude_spec in *.
pose proof (fold_sum_bound c nzero 0 0 Ff Hp ltac:(lra) ltac:(lra)) as B.
assert (Z : Rabs (R_ nzero - 0) <= 0) by (change (R_ nzero) with 0; rewrite Rminus_0_r, Rabs_R0; lra).
specialize (B Z). rewrite !Rplus_0_l in B. eapply Rle_trans; [exact B|]. lra.
Qed.
