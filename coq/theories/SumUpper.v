(* SumUpper: the upper bound on the blade count of Geonum + Geonum (C14). *)
From Coq Require Import ZArith List Bool Reals Lra Lia Psatz.
From Flocq Require Import Core BinarySingleNaN.
Require Import GV.FloatBase GV.FloatLemmas GV.AngleM GV.AngleProofs GV.NewProofs GV.CtorProofs GV.GeonumM GV.GeonumProofs.
Open Scope R_scope.

Lemma lift_total_upper t : fin t -> Rabs (R_ t) <= bpow radix2 42 -> R_ t < 0 ->
  R_ (lift_total t) <= 4 * R_ Q + / 256.
Proof.
intros Ft Bt Ng. unfold lift_total.
rewrite flt_R by auto using fin_zero. rewrite R_zero.
destruct (Rlt_bool_spec (R_ t) 0) as [Neg|Pos]; [|lra].
destruct fq_val as [FQv FQf]. destruct four_val as [V4 F4]. pose proof Qpos as Qp.
assert (B42 : bpow radix2 42 = 4398046511104) by (simpl; lra).
set (a := - R_ t). assert (Ha : 0 < a <= 4398046511104).
{ unfold a. rewrite <- B42. apply Rabs_le_inv in Bt. lra. }
assert (RA : R_ (fabs t) = a) by (rewrite fabs_R, Rabs_left by assumption; reflexivity).
(* x1 = |t| / (4q) *)
assert (Qnz : R_ (fmul four Q) <> 0) by (rewrite FQv; lra).
assert (X1r : 0 <= a / (4 * R_ Q) <= 4398046511104).
{ rewrite Qval. split. apply Rmult_le_pos; [lra|]. apply Rlt_le, Rinv_0_lt_compat; lra.
  apply Rmult_le_reg_r with (4 * (7074237752028440 / 4503599627370496)); [lra|]. field_simplify; lra. }
destruct (fdiv_R (fabs t) (fmul four Q) (fin_fabs _ Ft) Qnz) as [VX FX].
{ rewrite RA, FQv. rewrite Rabs_pos_eq by lra. apply Rle_trans with 4398046511104; [lra|].
  rewrite <- B42. apply bpow_le; lia. }
rewrite RA, FQv in VX.
set (x1 := fdiv (fabs t) (fmul four Q)) in *.
assert (X1u : R_ x1 <= 4398046511104).
{ rewrite VX, <- B42. rewrite <- (round_generic radix2 fexp ZnearestE (bpow radix2 42)).
  apply round_le; auto with typeclass_instances. rewrite B42; lra.
  apply generic_format_bpow. unfold FLT_exp, emax, prec; simpl; lia. }
assert (X1l : a / (4 * R_ Q) * (1 - / 9007199254740992) - bpow radix2 (-1075) <= R_ x1).
{ rewrite VX. apply rnd_lower. lra. }
assert (X10 : 0 <= R_ x1) by (rewrite VX; apply rnd_ge0; lra).
(* fr = ceil x1 *)
destruct (fceil_R x1 FX) as [VF FF]. set (n := Zceil (R_ x1)) in *.
assert (Nl : R_ x1 <= IZR n) by apply Zceil_ub.
assert (Nu : (n <= 4398046511104)%Z) by (apply Zceil_glb; simpl; exact X1u).
assert (N0 : (0 <= n)%Z). { apply le_IZR. simpl. lra. }
(* m1 = fr * 4, exact *)
destruct (fmul_R (fceil x1) four FF F4) as [VM1 FM1].
{ rewrite VF, V4. rewrite Rabs_pos_eq. 2:{ apply Rmult_le_pos; [apply IZR_le; lia|lra]. }
  apply Rle_trans with (4398046511104 * 4). apply Rmult_le_compat_r; [lra|]. apply IZR_le in Nu. exact Nu.
  apply Rle_trans with (bpow radix2 45); [simpl; lra|apply bpow_le; lia]. }
rewrite VF, V4 in VM1.
assert (E1 : rnd (IZR n * 4) = IZR n * 4).
{ apply round_generic; auto with typeclass_instances. replace (IZR n * 4) with (IZR (n * 4)) by (rewrite mult_IZR; reflexivity).
  apply fmt_IZR. rewrite Z.abs_eq by lia. lia. }
rewrite E1 in VM1.
(* m2 = m1 * q *)
assert (NR : 0 <= IZR n <= 4398046511104). { split; [apply IZR_le in N0|apply IZR_le in Nu]; lra. }
destruct (fmul_R (fmul (fceil x1) four) Q FM1 fin_Q) as [VM2 FM2].
{ rewrite VM1. rewrite Rabs_pos_eq. 2:{ apply Rmult_le_pos; lra. }
  apply Rle_trans with (bpow radix2 46); [|apply bpow_le; lia]. rewrite Qval. simpl. nra. }
rewrite VM1 in VM2.
set (m2 := fmul (fmul (fceil x1) four) Q) in *.
assert (M2l : IZR n * 4 * R_ Q * (1 - / 9007199254740992) - bpow radix2 (-1075) <= R_ m2).
{ rewrite VM2. apply rnd_lower. apply Rmult_le_pos; lra. }
assert (M2u : R_ m2 <= bpow radix2 46).
{ rewrite VM2. rewrite <- (round_generic radix2 fexp ZnearestE (bpow radix2 46)).
  apply round_le; auto with typeclass_instances. rewrite Qval. simpl. nra.
  apply generic_format_bpow. unfold FLT_exp, emax, prec; simpl; lia. }
assert (M20 : 0 <= R_ m2). { rewrite VM2. apply rnd_ge0. apply Rmult_le_pos; lra. }
(* lifted = t + m2 *)
assert (T : R_ t = - a) by (unfold a; ring).
destruct (fadd_R t m2 Ft FM2) as [VL FL].
{ apply Rle_trans with (bpow radix2 47); [|apply bpow_le; lia]. apply Rabs_le. rewrite T.
  assert (bpow radix2 46 = 70368744177664) by (simpl; lra). assert (bpow radix2 47 = 140737488355328) by (simpl; lra). lra. }
set (lifted := fadd t m2) in *.
assert (Tiny : bpow radix2 (-1075) <= / 1073741824).
{ apply Rle_trans with (bpow radix2 (-30)). apply bpow_le; lia. simpl. lra. }
pose proof (bpow_gt_0 radix2 (-1075)) as Tp.
assert (Sum : - / 512 <= R_ t + R_ m2).
{ rewrite T.
  assert (K1 : a * (1 - / 9007199254740992) - 8 * bpow radix2 (-1075) <= IZR n * 4 * R_ Q).
  { assert (4 * R_ Q * R_ x1 <= IZR n * 4 * R_ Q) by nra.
    assert (4 * R_ Q * (a / (4 * R_ Q) * (1 - / 9007199254740992) - bpow radix2 (-1075)) <= 4 * R_ Q * R_ x1) by nra.
    assert (4 * R_ Q * (a / (4 * R_ Q)) = a) by (field; lra).
    rewrite Qval in *. nra. }
  nra. }
assert (Ll : - / 512 <= R_ lifted).
{ rewrite VL. rewrite <- (round_generic radix2 fexp ZnearestE (- / 512)).
  apply round_le; auto with typeclass_instances.
  apply generic_format_opp. replace (/ 512) with (bpow radix2 (-9)) by (simpl; lra).
  apply generic_format_bpow. unfold FLT_exp, emax, prec; simpl; lia. }
assert (X1h : R_ x1 <= a / (4 * R_ Q) * (1 + / 9007199254740992) + bpow radix2 (-1075)).
{ rewrite VX. apply rnd_upper. lra. }
assert (Nh : IZR n < R_ x1 + 1) by apply Zceil_lb.
assert (M2h : R_ m2 <= IZR n * 4 * R_ Q * (1 + / 9007199254740992) + bpow radix2 (-1075)).
{ rewrite VM2. apply rnd_upper. apply Rmult_le_pos; lra. }
assert (B256 : fmt (4 * R_ Q + / 256)).
{ rewrite Qval. replace (4 * (7074237752028440 / 4503599627370496) + / 256) with (F2R (Float radix2 7078635798539544 (-50))) by (unfold F2R; simpl; lra).
  apply generic_format_FLT. apply FLT_spec with (Float radix2 7078635798539544 (-50)); simpl; auto; unfold emax, prec; lia. }
assert (SumU : R_ t + R_ m2 <= 4 * R_ Q + / 256).
{ rewrite T.
  assert (K2 : IZR n * 4 * R_ Q <= a * (1 + / 9007199254740992) + 4 * R_ Q + 8 * bpow radix2 (-1075)).
  { assert (IZR n * 4 * R_ Q <= (R_ x1 + 1) * (4 * R_ Q)) by nra.
    assert ((R_ x1 + 1) * (4 * R_ Q) <= (a / (4 * R_ Q) * (1 + / 9007199254740992) + bpow radix2 (-1075) + 1) * (4 * R_ Q)) by nra.
    assert (4 * R_ Q * (a / (4 * R_ Q)) = a) by (field; lra).
    rewrite Qval in *. nra. }
  rewrite Qval in *. nra. }
assert (Lu : R_ lifted <= 4 * R_ Q + / 256).
{ rewrite VL. rewrite <- (round_generic radix2 fexp ZnearestE (4 * R_ Q + / 256)) by exact B256.
  apply round_le; auto with typeclass_instances. }
cbv zeta. fold x1. fold m2. fold lifted.
rewrite flt_R by auto using fin_zero. rewrite R_zero.
destruct (Rlt_bool_spec (R_ lifted) 0) as [LN|LP]; [|exact Lu].
destruct (fadd_R lifted (fmul four Q) FL FQf) as [VE FE].
{ apply small_le_1000. rewrite FQv, Qval. apply Rabs_le. lra. }
rewrite VE. rewrite <- (round_generic radix2 fexp ZnearestE (4 * R_ Q + / 256)) by exact B256.
apply round_le; auto with typeclass_instances. rewrite FQv. lra.
Qed.

Lemma from_total_blade_le nt : fin nt -> 0 <= R_ nt <= 4 * R_ Q + / 256 ->
  (blade (from_total nt) <= 4)%Z /\ (blade (from_total nt) = 4%Z -> R_ (rem (from_total nt)) <= / 256).
Proof.
intros Fn [N0 N1]. pose proof Qpos as Qp. pose proof E10pos as Ep.
destruct (Req_dec (R_ nt) 0) as [Z|NZ].
- destruct nt as [s|s| |s m e H]; try discriminate.
  + assert (Eb : blade (from_total (B754_zero s)) = 0%Z) by (destruct s; vm_compute; reflexivity).
    rewrite Eb. split; [lia|discriminate].
  + exfalso. destruct s; simpl in Z.
    * assert (K := F2R_lt_0 radix2 (Float radix2 (Z.neg m) e) ltac:(simpl; lia)). lra.
    * assert (K := F2R_gt_0 radix2 (Float radix2 (Z.pos m) e) ltac:(simpl; lia)). lra.
- assert (Bn : 0 < R_ nt <= bpow radix2 43).
  { split; [lra|]. apply Rle_trans with 8; [rewrite Qval in N1; lra|]. change 8 with (bpow radix2 3). apply bpow_le; lia. }
  destruct (from_total_decomp nt Fn Bn) as (k & Hk0 & Hk & [R0 R1] & Hc).
  assert (K4 : (k <= 4)%Z).
  { apply Z.lt_succ_r. apply lt_IZR. simpl. rewrite Qval in *. nra. }
  assert (Kr : 0 <= IZR k <= 4) by (split; apply IZR_le; lia).
  destruct Hc as [[B R]|[B [R N]]].
  + rewrite B, R. split; [exact K4|]. intros ->. simpl (IZR 4) in Hk. lra.
  + rewrite B, R. apply Rabs_le_inv in N.
    assert (k <> 4)%Z. { intros ->. simpl (IZR 4) in Hk. rewrite Qval, E10val in *. lra. }
    split; [lia|]. intros _. lra.
Qed.

(* Angle::new on the general path: at most one full turn, exactly one only with a tiny remainder *)
Lemma new_blade_upper p d : fast_path p d = false ->
  fin (total_angle p d) -> Rabs (R_ (total_angle p d)) <= bpow radix2 42 -> R_ (total_angle p d) <= 4 ->
  (blade (new p d) <= 4)%Z /\ (blade (new p d) = 4%Z -> R_ (rem (new p d)) <= / 256).
Proof.
intros Hf Ft Bt T4. rewrite new_unfold, Hf.
destruct (lift_total_nonneg _ Ft Bt) as [Fl Pl].
apply from_total_blade_le; [exact Fl|]. split; [exact Pl|].
destruct (Rlt_le_dec (R_ (total_angle p d)) 0) as [Ng|Pg].
- now apply lift_total_upper.
- unfold lift_total. rewrite flt_R by auto using fin_zero. rewrite R_zero.
  rewrite Rlt_bool_false by exact Pg. rewrite Qval. lra.
Qed.

Lemma fast_path_PI p : fast_path p PI = false.
Proof. unfold fast_path. replace (feq PI two) with false by (vm_compute; reflexivity). reflexivity. Qed.

Lemma Rabs_div_le x c B : 0 < c -> Rabs x <= B * c -> Rabs (x / c) <= B.
Proof.
intros Hc H. unfold Rdiv. rewrite Rabs_mult, (Rabs_pos_eq (/ c)) by (left; apply Rinv_0_lt_compat; lra).
apply Rmult_le_reg_r with c; [lra|]. rewrite Rmult_assoc, Rinv_l by lra. lra.
Qed.

(* the re-encoded total of the general path is finite, at most 2^42 in magnitude and at most 4 whenever
   the atan2 result is finite and within [-PI, PI] (PI the double) and the blade sum is below 2^40 *)
Lemma total_of_atan2 (at_ : F) n : fin at_ -> Rabs (R_ at_) <= R_ PI -> (0 <= n < 2 ^ 40)%Z ->
  let t := total_angle (fsub at_ (fdiv (fmul (of_Z n) PI) two)) PI in
  fin t /\ Rabs (R_ t) <= bpow radix2 42 /\ R_ t <= 4.
Proof.
intros Fa Ba Hn t. destruct PIval as [VP FP]. destruct two_val as [V2 F2].
assert (P : R_ PI = 14148475504056880 / 4503599627370496) by (rewrite VP, Qval; lra).
destruct (of_Z_R n ltac:(lia)) as [Vn Fn].
assert (Nr : 0 <= IZR n <= 1099511627776).
{ split; [apply IZR_le; lia|]. apply IZR_le. lia. }
assert (Tiny : bpow radix2 (-1075) <= / 1073741824).
{ apply Rle_trans with (bpow radix2 (-30)). apply bpow_le; lia. simpl. lra. }
pose proof (bpow_gt_0 radix2 (-1075)) as Tp.
assert (B1000 : forall x, Rabs x <= 36028797018963968 -> Rabs x <= bpow radix2 1000).
{ intros x Hx. apply Rle_trans with (1:=Hx). change 36028797018963968 with (bpow radix2 55). apply bpow_le; lia. }
(* s1 = n * PI *)
destruct (fmul_R (of_Z n) PI Fn FP) as [V1 F1].
{ apply B1000. rewrite Vn, P. apply Rabs_le. nra. }
rewrite Vn, P in V1.
assert (S10 : 0 <= IZR n * (14148475504056880 / 4503599627370496)) by nra.
pose proof (rnd_ge0 _ S10) as L1. pose proof (rnd_upper _ S10) as U1. rewrite <- V1 in L1, U1.
set (s1 := fmul (of_Z n) PI) in *.
(* s2 = s1 / 2 *)
destruct (fdiv_R s1 two F1) as [V3 F3]. { rewrite V2; lra. } { apply B1000. rewrite V2. apply Rabs_le. nra. }
rewrite V2 in V3. assert (S20 : 0 <= R_ s1 / 2) by lra.
pose proof (rnd_ge0 _ S20) as L3. pose proof (rnd_upper _ S20) as U3. rewrite <- V3 in L3, U3.
set (s2 := fdiv s1 two) in *.
assert (S2u : R_ s2 <= 2199023255552) by nra.
(* adj = at - s2 *)
apply Rabs_le_inv in Ba. rewrite P in Ba.
destruct (fsub_R at_ s2 Fa F3) as [V4 F4]. { apply B1000. apply Rabs_le. lra. }
set (adj := fsub at_ s2) in *.
assert (A4u : R_ adj <= 14148475504056880 / 4503599627370496).
{ rewrite V4, <- P. rewrite <- (round_generic radix2 fexp ZnearestE (R_ PI)) by apply fmt_R.
  apply round_le; auto with typeclass_instances. rewrite P. lra. }
assert (A4l : - 2199023255560 <= R_ adj).
{ rewrite V4. rewrite <- (round_generic radix2 fexp ZnearestE (- 2199023255560)).
  apply round_le; auto with typeclass_instances. lra.
  apply (fmt_IZR (-2199023255560)). simpl. lia. }
(* m = adj * PI *)
destruct (fmul_R adj PI F4 FP) as [V5 F5]. { apply B1000. rewrite P. apply Rabs_le. nra. }
rewrite P in V5. pose proof (rnd_rel (R_ adj * (14148475504056880 / 4503599627370496))) as E5. rewrite <- V5 in E5.
set (m := fmul adj PI) in *.
assert (M5a : Rabs (R_ adj * (14148475504056880 / 4503599627370496)) <= 6908435304741).
{ apply Rabs_le. nra. }
assert (M5 : Rabs (R_ m) <= 6908435304742).
{ replace (R_ m) with ((R_ m - R_ adj * (14148475504056880 / 4503599627370496)) + R_ adj * (14148475504056880 / 4503599627370496)) by ring.
  eapply Rle_trans; [apply Rabs_triang|]. lra. }
assert (M5u : R_ m <= 10).
{ rewrite V5. rewrite <- (round_generic radix2 fexp ZnearestE 10).
  apply round_le; auto with typeclass_instances. nra. change 10 with (IZR 10). apply fmt_IZR. simpl. lia. }
(* t = m / PI *)
unfold t, total_angle. fold adj. fold m.
destruct (fdiv_R m PI F5) as [V6 F6]. { rewrite P. lra. }
{ apply B1000. rewrite P. apply Rabs_div_le; lra. }
rewrite P in V6. split; [exact F6|].
assert (Q6 : Rabs (R_ m / (14148475504056880 / 4503599627370496)) <= 2199023255570) by (apply Rabs_div_le; lra).
pose proof (rnd_rel (R_ m / (14148475504056880 / 4503599627370496))) as E6. rewrite <- V6 in E6.
split.
- replace (R_ (fdiv m PI)) with ((R_ (fdiv m PI) - R_ m / (14148475504056880 / 4503599627370496)) + R_ m / (14148475504056880 / 4503599627370496)) by ring.
  eapply Rle_trans; [apply Rabs_triang|]. replace (bpow radix2 42) with 4398046511104 by (simpl; lra). lra.
- rewrite V6. rewrite <- (round_generic radix2 fexp ZnearestE 4).
  apply round_le; auto with typeclass_instances.
  apply Rmult_le_reg_r with (14148475504056880 / 4503599627370496); [lra|].
  unfold Rdiv at 1. rewrite Rmult_assoc, Rinv_l by lra. lra.
  change 4 with (IZR 4). apply fmt_IZR. simpl. lia.
Qed.

Section SumUpper.
Context (L : libm).

(* C14: on the general path the sum carries at most one full turn more than the operands' blade counts,
   and exactly one full turn only with a remainder below 2^-8 (0 up to the rounding of the re-encoding) *)
Lemma gadd_general_upper a b : aeqb (ang a) (ang b) = false ->
  aeqb (add_vv (ang a) (new one one)) (ang b) || aeqb (add_vv (ang b) (new one one)) (ang a) = false ->
  (0 <= blade (ang a) + blade (ang b) < 2 ^ 53)%Z ->
  fin (total_angle (sum_adjusted L a b) PI) -> Rabs (R_ (total_angle (sum_adjusted L a b) PI)) <= bpow radix2 42 ->
  R_ (total_angle (sum_adjusted L a b) PI) <= 4 ->
  (blade (ang a) + blade (ang b) <= blade (ang (gadd_vv L a b)) <= blade (ang a) + blade (ang b) + 4)%Z /\
  (blade (ang (gadd_vv L a b)) = (blade (ang a) + blade (ang b) + 4)%Z -> R_ (rem (ang (gadd_vv L a b))) <= / 256).
Proof.
intros H1 H2 Hc Ft Bt T4. rewrite (gadd_general_form L a b H1 H2).
destruct (new_canon _ _ Ft Bt) as [Cn Bn].
destruct (new_blade_upper _ _ (fast_path_PI _) Ft Bt T4) as [U4 U4r].
pose proof (new_with_blade_adds (blade (ang a) + blade (ang b)) (sum_adjusted L a b) PI Hc Cn) as (E & R & _).
rewrite E, R. split; [lia|]. intros Eq. apply U4r. lia.
Qed.

(* the same with the premise on libm made explicit: atan2 returned a finite value within [-PI, PI] *)
Lemma gadd_general_upper_atan2 a b : aeqb (ang a) (ang b) = false ->
  aeqb (add_vv (ang a) (new one one)) (ang b) || aeqb (add_vv (ang b) (new one one)) (ang a) = false ->
  (0 <= blade (ang a) + blade (ang b) < 2 ^ 40)%Z ->
  let at_ := atan2F L (fadd (fmul (mag a) (sinF L (grade_angle (ang a)))) (fmul (mag b) (sinF L (grade_angle (ang b)))))
                      (fadd (fmul (mag a) (cosF L (grade_angle (ang a)))) (fmul (mag b) (cosF L (grade_angle (ang b))))) in
  fin at_ -> Rabs (R_ at_) <= R_ PI ->
  canonp (rem (ang (gadd_vv L a b))) /\
  (blade (ang a) + blade (ang b) <= blade (ang (gadd_vv L a b)) <= blade (ang a) + blade (ang b) + 4)%Z /\
  (blade (ang (gadd_vv L a b)) = (blade (ang a) + blade (ang b) + 4)%Z -> R_ (rem (ang (gadd_vv L a b))) <= / 256).
Proof.
intros H1 H2 Hc at_ Fa Ba.
destruct (total_of_atan2 at_ _ Fa Ba Hc) as (Ft & Bt & T4).
assert (Hc' : (0 <= blade (ang a) + blade (ang b) < 2 ^ 53)%Z) by lia.
destruct (gadd_general_history L a b H1 H2 Hc' Ft Bt) as [Cn _].
destruct (gadd_general_upper a b H1 H2 Hc' Ft Bt T4) as [U V].
split; [exact Cn|]. split; [exact U|exact V].
Qed.
End SumUpper.

(* non-vacuity: the premises of gadd_general_upper_atan2 are met by concrete operands on the general path
   (blades 0 and 1, unit magnitudes) with the computable trivial libm, whose atan2 returns +0 *)
Require Import GV.ClosureProofs.
Example gadd_upper_inhabited :
  let a := {| mag := one; ang := {| rem := zero; blade := 0 |} |} in
  let b := {| mag := one; ang := {| rem := zero; blade := 1 |} |} in
  aeqb (ang a) (ang b) = false /\
  aeqb (add_vv (ang a) (new one one)) (ang b) || aeqb (add_vv (ang b) (new one one)) (ang a) = false /\
  (0 <= blade (ang a) + blade (ang b) < 2 ^ 40)%Z /\
  fin (atan2F trivial_libm zero zero) /\ Rabs (R_ (atan2F trivial_libm zero zero)) <= R_ PI.
Proof.
cbv zeta. split; [vm_compute; reflexivity|]. split; [vm_compute; reflexivity|]. split; [cbn [ang blade]; lia|].
split; [reflexivity|]. cbn [atan2F trivial_libm]. rewrite R_zero, Rabs_R0. destruct PIval as [VP _]. rewrite VP, Qval. lra.
Qed.
