(* SwapProofs: orientation of the wedge under operand swap (C10); adj / opp values (C15). *)
From Coq Require Import ZArith List Bool Reals Lra Lia Psatz.
From Flocq Require Import Core BinarySingleNaN.
Require Import GV.FloatBase GV.FloatLemmas GV.AngleM GV.AngleProofs GV.NewProofs GV.CtorProofs GV.GeonumM GV.GeonumProofs
  GV.ClosureProofs GV.PiBounds GV.TrigProofs GV.DotValue GV.DirProofs.
Open Scope R_scope.

Section Swap.
Context (L : libm) (u : R).

(* C10: swapping the operands of the wedge turns its angle by exactly a half turn (two blades, remainder
   untouched) whenever |sin(direction difference)| exceeds the value tolerance u + 1.0001e-10 *)
Lemma wedge_swap_orientation a b : sin_acc L u ->
  canonp (rem (ang a)) -> canonp (rem (ang b)) -> (0 <= blade (ang a))%Z -> (0 <= blade (ang b))%Z ->
  u + 10001 / 100000000000000 < Rabs (sin (dir (ang b) - dir (ang a))) ->
  steps_to (ang (wedge L a b)) (ang (wedge L b a)) 2 \/ steps_to (ang (wedge L b a)) (ang (wedge L a b)) 2.
Proof.
intros HL Ca Cb Ha Hb Hs.
destruct (wedge_sin_value L u (ang a) (ang b) HL Ca Cb Ha Hb) as (F1 & E1).
destruct (wedge_sin_value L u (ang b) (ang a) HL Cb Ca Hb Ha) as (F2 & E2).
replace (dir (ang a) - dir (ang b)) with (- (dir (ang b) - dir (ang a))) in E2 by ring. rewrite sin_neg in E2.
destruct (wedge_spec L a b) as [_ A1]. destruct (wedge_spec L b a) as [_ A2]. rewrite A1, A2. cbv zeta. unfold sub_vv, add_vv.
rewrite (geometric_add_comm (ang b) (ang a)).
set (a0 := geometric_add (geometric_add (ang a) (ang b)) (new one two)).
assert (C0 : canonp (rem a0)).
{ unfold a0. destruct (geometric_add_canon (ang a) (ang b) Ca Cb) as (Cab & _).
  rewrite new_1_2. destruct (geometric_add_canon _ {| rem := zero; blade := 1 |} Cab canonp_zero) as (C & _). exact C. }
pose proof (step_by_k a0 2 C0) as S2. rewrite new_1_1.
set (s1 := sinF L (grade_angle (geometric_sub (ang b) (ang a)))) in *.
set (s2 := sinF L (grade_angle (geometric_sub (ang a) (ang b)))) in *.
rewrite !flt_R by auto using fin_zero. rewrite R_zero.
set (sd := sin (dir (ang b) - dir (ang a))) in *.
apply Rabs_le_inv in E1. apply Rabs_le_inv in E2.
destruct (Rle_lt_dec 0 sd) as [P|N].
- rewrite (Rabs_pos_eq sd P) in Hs.
  rewrite (Rlt_bool_false (R_ s1) 0) by lra. rewrite (Rlt_bool_true (R_ s2) 0) by lra. left. exact S2.
- rewrite (Rabs_left sd N) in Hs.
  rewrite (Rlt_bool_true (R_ s1) 0) by lra. rewrite (Rlt_bool_false (R_ s2) 0) by lra. right. exact S2.
Qed.

(* C15: adj and opp carry |g| cos(dir) and |g| sin(dir) in magnitude *)
Lemma adj_mag_value g : cos_acc L u -> u <= / 1000 -> canonp (rem (ang g)) -> fin (mag (adj L g)) ->
  Rabs (R_ (mag (adj L g)) - Rabs (R_ (mag g)) * Rabs (cos (dir (ang g))))
    <= Rabs (R_ (mag g)) * (u + 3 / 1000000000000000) + bpow radix2 (-1075).
Proof.
intros HL Hu Cg Fv. destruct (adj_opp_def L g) as [EA _]. rewrite EA in *.
destruct (gcos_value L u (ang g) HL Cg) as (Fc & Ec & Enc). cbv zeta in Ec, Enc. rewrite Enc in *.
unfold gscale, scalar, gmul_vv in *. cbn [mag] in *.
set (cv := cosF L (grade_angle (ang g))) in *.
rewrite fmul_comm in Fv |- *.
pose proof (COS_bound (dir (ang g))) as CB.
assert (u0 : 0 <= u) by (apply (acc_u_nonneg L u); now left).
eapply Rle_trans.
- rewrite <- fabs_R. apply (fmul_value (fabs (mag g)) (fabs cv) (Rabs (cos (dir (ang g)))) (u + 25 / 10000000000000000) Fv).
  + rewrite Rabs_Rabsolu. apply Rabs_le; lra.
  + rewrite fabs_R. eapply Rle_trans; [apply Rabs_triang_inv2|]. exact Ec.
  + lra.
- rewrite fabs_R, Rabs_Rabsolu. pose proof (Rabs_pos (R_ (mag g))). nra.
Qed.

Lemma opp_mag_value g : sin_acc L u -> u <= / 1000 -> canonp (rem (ang g)) -> fin (mag (opp L g)) ->
  Rabs (R_ (mag (opp L g)) - Rabs (R_ (mag g)) * Rabs (sin (dir (ang g))))
    <= Rabs (R_ (mag g)) * (u + 3 / 1000000000000000) + bpow radix2 (-1075).
Proof.
intros HL Hu Cg Fv. destruct (adj_opp_def L g) as [_ EA]. rewrite EA in *.
destruct (gsin_value L u (ang g) HL Cg) as (Fc & Ec & Enc). cbv zeta in Ec, Enc. rewrite Enc in *.
unfold gscale, scalar, gmul_vv in *. cbn [mag] in *.
set (cv := sinF L (grade_angle (ang g))) in *.
rewrite fmul_comm in Fv |- *.
pose proof (SIN_bound (dir (ang g))) as CB.
assert (u0 : 0 <= u) by (apply (acc_u_nonneg L u); now right).
eapply Rle_trans.
- rewrite <- fabs_R. apply (fmul_value (fabs (mag g)) (fabs cv) (Rabs (sin (dir (ang g)))) (u + 25 / 10000000000000000) Fv).
  + rewrite Rabs_Rabsolu. apply Rabs_le; lra.
  + rewrite fabs_R. eapply Rle_trans; [apply Rabs_triang_inv2|]. exact Ec.
  + lra.
- rewrite fabs_R, Rabs_Rabsolu. pose proof (Rabs_pos (R_ (mag g))). nra.
Qed.
End Swap.
