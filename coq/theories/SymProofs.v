(* SymProofs: symmetry corollaries of the value theorems (real pi, real cos/sin). *)
From Coq Require Import ZArith List Bool Reals Lra Lia Psatz.
From Flocq Require Import Core BinarySingleNaN.
Require Import GV.FloatBase GV.FloatLemmas GV.AngleM GV.AngleProofs GV.NewProofs GV.CtorProofs GV.GeonumM GV.GeonumProofs
  GV.PiBounds GV.TrigProofs GV.DotValue GV.DistValue GV.DirProofs.
Open Scope R_scope.

Section Sym.
Context (L : libm) (u : R).

(* C09: a.b and b.a agree within twice the value tolerance *)
Lemma dot_symmetry a b : cos_acc L u -> u <= / 1000 ->
  canonp (rem (ang a)) -> canonp (rem (ang b)) -> (0 <= blade (ang a))%Z -> (0 <= blade (ang b))%Z ->
  fin (dot_value L a b) -> fin (dot_value L b a) ->
  Rabs (R_ (dot_value L a b) - R_ (dot_value L b a))
    <= 2 * (Rabs (R_ (mag a) * R_ (mag b)) * (u + 10002 / 100000000000000) + bpow radix2 (-1073)).
Proof.
intros HL Hu Ca Cb Ha Hb F1 F2.
pose proof (dot_value_real L u a b HL Hu Ca Cb Ha Hb F1) as E1.
pose proof (dot_value_real L u b a HL Hu Cb Ca Hb Ha F2) as E2.
replace (dir (ang a) - dir (ang b)) with (- (dir (ang b) - dir (ang a))) in E2 by ring. rewrite cos_neg in E2.
replace (R_ (mag b) * R_ (mag a)) with (R_ (mag a) * R_ (mag b)) in E2 by ring.
set (t := R_ (mag a) * R_ (mag b) * cos (dir (ang b) - dir (ang a))) in *.
replace (R_ (dot_value L a b) - R_ (dot_value L b a)) with ((R_ (dot_value L a b) - t) - (R_ (dot_value L b a) - t)) by ring.
eapply Rle_trans; [apply Rabs_triang|]. rewrite Rabs_Ropp. lra.
Qed.

(* C10: |a ^ b| and |b ^ a| agree within twice the value tolerance *)
Lemma wedge_swap_mag a b : sin_acc L u -> u <= / 1000 ->
  canonp (rem (ang a)) -> canonp (rem (ang b)) -> (0 <= blade (ang a))%Z -> (0 <= blade (ang b))%Z ->
  fin (mag (wedge L a b)) -> fin (mag (wedge L b a)) ->
  Rabs (R_ (mag (wedge L a b)) - R_ (mag (wedge L b a)))
    <= 2 * (Rabs (R_ (mag a) * R_ (mag b)) * (u + 10002 / 100000000000000) + bpow radix2 (-1073)).
Proof.
intros HL Hu Ca Cb Ha Hb F1 F2.
pose proof (wedge_mag_value L u a b HL Hu Ca Cb Ha Hb F1) as E1.
pose proof (wedge_mag_value L u b a HL Hu Cb Ca Hb Ha F2) as E2.
replace (dir (ang a) - dir (ang b)) with (- (dir (ang b) - dir (ang a))) in E2 by ring. rewrite sin_neg, Rabs_Ropp in E2.
replace (R_ (mag b) * R_ (mag a)) with (R_ (mag a) * R_ (mag b)) in E2 by ring.
set (t := R_ (mag a) * R_ (mag b) * Rabs (sin (dir (ang b) - dir (ang a)))) in *.
replace (R_ (mag (wedge L a b)) - R_ (mag (wedge L b a))) with ((R_ (mag (wedge L a b)) - t) - (R_ (mag (wedge L b a)) - t)) by ring.
eapply Rle_trans; [apply Rabs_triang|]. rewrite Rabs_Ropp. lra.
Qed.

(* C13: distance is symmetric within twice the value tolerance *)
Lemma distance_symmetry a b : cos_acc L u -> u <= / 1000 ->
  canonp (rem (ang a)) -> canonp (rem (ang b)) -> (0 <= blade (ang a))%Z -> (0 <= blade (ang b))%Z ->
  fin (dist_sq L a b) -> fin (dist_sq L b a) ->
  let S := R_ (mag a) * R_ (mag a) + R_ (mag b) * R_ (mag b) in
  let D := S - 2 * R_ (mag a) * R_ (mag b) * cos (dir (ang b) - dir (ang a)) in
  let Bnd := S * (u + 10003 / 100000000000000) + 10 * bpow radix2 (-1075) in
  Rabs (R_ (mag (distance_to L a b)) - R_ (mag (distance_to L b a)))
    <= 2 * (sqrt Bnd * (1 + / 9007199254740992) + / 9007199254740992 * sqrt D + bpow radix2 (-1075)).
Proof.
intros HL Hu Ca Cb Ha Hb F1 F2 S D Bnd.
pose proof (distance_value L u a b HL Hu Ca Cb Ha Hb F1) as E1.
pose proof (distance_value L u b a HL Hu Cb Ca Hb Ha F2) as E2. cbv zeta in E1, E2.
replace (dir (ang a) - dir (ang b)) with (- (dir (ang b) - dir (ang a))) in E2 by ring. rewrite cos_neg in E2.
replace (R_ (mag b) * R_ (mag b) + R_ (mag a) * R_ (mag a)) with S in E2 by (unfold S; ring).
replace (2 * R_ (mag b) * R_ (mag a)) with (2 * R_ (mag a) * R_ (mag b)) in E2 by ring.
fold S in E1. fold D in E1, E2. fold Bnd in E1, E2.
replace (R_ (mag (distance_to L a b)) - R_ (mag (distance_to L b a)))
  with ((R_ (mag (distance_to L a b)) - sqrt D) - (R_ (mag (distance_to L b a)) - sqrt D)) by ring.
eapply Rle_trans; [apply Rabs_triang|]. rewrite Rabs_Ropp. lra.
Qed.

(* C15: cos^2 + sin^2 = 1 within 2(u + 2.5e-15) + (u + 2.5e-15)^2 each... stated linearly for u <= 1/1000 *)
Lemma pythagoras a : cos_acc L u -> sin_acc L u -> u <= / 1000 -> canonp (rem a) ->
  let c := cosF L (grade_angle a) in let s := sinF L (grade_angle a) in
  Rabs (R_ c * R_ c + R_ s * R_ s - 1) <= 5 * (u + 25 / 10000000000000000).
Proof.
intros HC HS Hu Ca c s.
destruct (gcos_value L u a HC Ca) as (_ & Ec & _). destruct (gsin_value L u a HS Ca) as (_ & Es & _).
fold c in Ec. fold s in Es.
assert (u0 : 0 <= u) by (apply (acc_u_nonneg L u); now left).
pose proof (sin2_cos2 (dir a)) as P. unfold Rsqr in P.
pose proof (COS_bound (dir a)) as CB. pose proof (SIN_bound (dir a)) as SB.
set (C := cos (dir a)) in *. set (S := sin (dir a)) in *. set (w := u + 25 / 10000000000000000) in *.
apply Rabs_le_inv in Ec. apply Rabs_le_inv in Es.
assert (W : 0 <= w <= 2 / 1000) by (unfold w; lra).
apply Rabs_le.
assert (Dc : R_ c * R_ c - C * C = (R_ c - C) * (R_ c + C)) by ring.
assert (Ds : R_ s * R_ s - S * S = (R_ s - S) * (R_ s + S)) by ring.
assert (Bc : Rabs ((R_ c - C) * (R_ c + C)) <= w * (2 + w)).
{ rewrite Rabs_mult. apply Rmult_le_compat; try apply Rabs_pos; apply Rabs_le; lra. }
assert (Bs : Rabs ((R_ s - S) * (R_ s + S)) <= w * (2 + w)).
{ rewrite Rabs_mult. apply Rmult_le_compat; try apply Rabs_pos; apply Rabs_le; lra. }
apply Rabs_le_inv in Bc. apply Rabs_le_inv in Bs. nra.
Qed.
End Sym.

(* C12: reflecting twice across the same axis returns the original direction (cos and sin of it),
   within twice the reflection tolerance *)
Lemma double_reflection g axis : Canon (ang g) -> Canon (ang axis) ->
  let r1 := reflect g axis in let r2 := reflect r1 axis in
  mag r2 = mag g /\
  Rabs (cos (dirR (ang r2)) - cos (dir (ang g))) <= 2 * (3 * R_ eps10 + 7 * / 4503599627370496 + 3 / 10000000000000000) /\
  Rabs (sin (dirR (ang r2)) - sin (dir (ang g))) <= 2 * (3 * R_ eps10 + 7 * / 4503599627370496 + 3 / 10000000000000000).
Proof.
intros [Cg Bg] Ca r1 r2.
destruct (reflect_spec g axis Cg Ca) as (M1 & C1 & B1).
assert (B1' : (0 <= blade (ang r1))%Z) by (destruct Ca as [_ Ba]; unfold r1; lia).
destruct (reflect_spec r1 axis C1 Ca) as (M2 & C2 & B2).
split; [unfold r2; rewrite M2; exact M1|].
pose proof (reflect_dirR g axis Cg Ca Bg) as E1. pose proof (reflect_dirR r1 axis C1 Ca B1') as E2. fold r1 in E1. fold r2 in E2.
set (e := 3 * R_ eps10 + 7 * / 4503599627370496 + 3 / 10000000000000000) in *.
set (al := dirR (ang axis)) in *.
(* dir r1 = dirR r1 - 2 pi m *)
pose proof (dirR_dir (ang r1) B1') as D1. set (m := Z.to_nat (blade (ang r1) / 4)) in *.
set (x := 2 * al - (dirR (ang r1) - 2 * INR m * Rtrigo1.PI) + 4 * Rtrigo1.PI).
assert (X : Rabs (dirR (ang r2) - x) <= e). { unfold x. replace (dirR (ang r1) - 2 * INR m * Rtrigo1.PI) with (dir (ang r1)) by lra. exact E2. }
set (y := dir (ang g) + 2 * INR (m + 0) * Rtrigo1.PI).
assert (Y : Rabs (x - y) <= e).
{ unfold x, y. rewrite Nat.add_0_r. apply Rabs_le_inv in E1. apply Rabs_le. lra. }
assert (XY : Rabs (dirR (ang r2) - y) <= 2 * e).
{ replace (dirR (ang r2) - y) with ((dirR (ang r2) - x) + (x - y)) by ring. eapply Rle_trans; [apply Rabs_triang|]. lra. }
unfold y in XY. split.
- rewrite <- (cos_period (dir (ang g)) (m + 0)). eapply Rle_trans; [apply cos_lip|exact XY].
- rewrite <- (sin_period (dir (ang g)) (m + 0)). eapply Rle_trans; [apply sin_lip|exact XY].
Qed.
