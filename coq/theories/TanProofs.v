(* TanProofs: the tangent gateway carries |tan(dir)| (C15). *)
From Coq Require Import ZArith List Bool Reals Lra Lia Psatz.
From Flocq Require Import Core BinarySingleNaN.
Require Import GV.FloatBase GV.FloatLemmas GV.AngleM GV.AngleProofs GV.NewProofs GV.CtorProofs GV.GeonumM GV.GeonumProofs
  GV.TraitsM GV.TraitsProofs GV.BoundProofs GV.ClosureProofs GV.SumUpper GV.PiBounds GV.TrigProofs GV.DotValue GV.ProdProofs GV.DistValue GV.FieldProofs.
Open Scope R_scope.

Section Tan.
Context (L : libm) (u : R).

(* tan = sin / cos: for |sin|, |cos| >= 1/1000 the magnitude is |tan(dir)| within a relative 1.02 (2000 w + 3*2^-52),
   w = u + 2.5e-15 (the relative errors of the two factors are w/|sin| and w/|cos|) *)
Lemma tan_value a : cos_acc L u -> sin_acc L u -> u <= / 1000000 -> canonp (rem a) ->
  / 1000 <= Rabs (cos (dir a)) -> / 1000 <= Rabs (sin (dir a)) ->
  forall t, gtan L a = Some t -> fin (mag t) ->
  Rabs (R_ (mag t) - Rabs (sin (dir a)) / Rabs (cos (dir a)))
    <= (2000 * (u + 25 / 10000000000000000) + 3 * / 4503599627370496) * (1 + / 25) * (Rabs (sin (dir a)) / Rabs (cos (dir a))).
Proof.
intros HC HS Hu Ca Hc Hs t Et Ft.
destruct (gcos_value L u a HC Ca) as (Fc & Ec & Enc). destruct (gsin_value L u a HS Ca) as (Fs & Es & Ens). cbv zeta in *.
unfold gtan, gdiv_vr, gdiv_vv, omap, inv in Et. rewrite Enc, Ens in Et. cbn [mag ang] in Et.
set (cv := cosF L (grade_angle a)) in *. set (sv := sinF L (grade_angle a)) in *.
remember (fdiv one (fabs cv)) as rr eqn:Err in Et.
destruct (feq (fabs cv) zero); [discriminate|]. injection Et as Et. rewrite <- Et in *. cbn [gmul_vv mag] in *. rewrite Err in *. clear Err Et rr.
set (w := u + 25 / 10000000000000000) in *.
assert (u0 : 0 <= u) by (apply (acc_u_nonneg L u); now left).
assert (W : 0 <= w <= 2 / 1000000) by (unfold w; lra).
set (C := Rabs (cos (dir a))) in *. set (S := Rabs (sin (dir a))) in *.
assert (C1 : C <= 1) by (unfold C; apply Rabs_le; pose proof (COS_bound (dir a)); lra).
assert (S1 : S <= 1) by (unfold S; apply Rabs_le; pose proof (SIN_bound (dir a)); lra).
assert (EC : Rabs (Rabs (R_ cv) - C) <= w) by (eapply Rle_trans; [apply Rabs_triang_inv2|exact Ec]).
assert (ES : Rabs (Rabs (R_ sv) - S) <= w) by (eapply Rle_trans; [apply Rabs_triang_inv2|exact Es]).
set (c' := Rabs (R_ cv)) in *. set (s' := Rabs (R_ sv)) in *.
set (e := / 4503599627370496) in *. assert (E0 : 0 < e < / 1000000) by (unfold e; lra).
pose proof (Rabs_le_inv _ _ EC) as EC'. pose proof (Rabs_le_inv _ _ ES) as ES'.
assert (C'p : 0 < c') by lra.
(* r = fl(1 / c') *)
destruct (fmul_fin_R _ _ Ft) as (_ & Fr & Vm).
destruct one_R as [V1 F1].
assert (Nc : R_ (fabs cv) <> 0) by (rewrite fabs_R; fold c'; lra).
destruct (fdiv_fin_R' _ _ Fr Nc) as (_ & Vr). rewrite V1, fabs_R in Vr. fold c' in Vr.
assert (L600 : bpow radix2 (-600) <= / 2) by (apply Rle_trans with (bpow radix2 (-1)); [apply bpow_le; lia|simpl; lra]).
assert (IC : / 2 <= 1 / c' <= 2000).
{ unfold Rdiv. rewrite Rmult_1_l. split.
  - apply Rmult_le_reg_r with c'; [lra|]. rewrite Rinv_l by lra. lra.
  - apply Rmult_le_reg_r with c'; [lra|]. rewrite Rinv_l by lra. lra. }
pose proof (rnd_rel_mid (1 / c') ltac:(lra)) as Er. rewrite <- Vr in Er. fold e in Er.
set (r := R_ (fdiv one (fabs cv))) in *.
(* the product s' * r against S / C via quotient_rel with a = S, b = C, a' = s', b'' = 1/r *)
rewrite fabs_R in Vm. fold s' r in Vm.
assert (SW : Rabs (s' - S) <= (1000 * w) * S).
{ eapply Rle_trans; [exact ES|]. assert (1 <= 1000 * S) by lra. nra. }
assert (CW : Rabs (c' - C) <= (1000 * w) * C).
{ eapply Rle_trans; [exact EC|]. assert (1 <= 1000 * C) by lra. nra. }
destruct (quotient_rel S C s' c' (1000 * w) (1000 * w) ltac:(lra) ltac:(lra) ltac:(lra) ltac:(lra) SW CW) as (_ & EQ).
set (ideal := S / C) in *. assert (IP : 0 < ideal) by (unfold ideal; apply Rmult_lt_0_compat; [lra|apply Rinv_0_lt_compat; lra]).
assert (IU : ideal <= 1000). { unfold ideal. apply Rmult_le_reg_r with C; [lra|]. unfold Rdiv. rewrite Rmult_assoc, Rinv_l by lra. lra. }
set (q := s' / c') in *.
apply Rabs_le_inv in EQ.
assert (K : (1000 * w + 1000 * w) * (1 + / 50) <= / 100) by lra.
assert (K2 : (1000 * w + 1000 * w) * (1 + / 50) * ideal <= / 100 * ideal) by (apply Rmult_le_compat_r; lra).
assert (QU : q <= 101 / 100 * ideal) by lra. assert (QL : 99 / 100 * ideal <= q) by lra.
(* s' * r vs q *)
assert (S'0 : 0 <= s') by (unfold s'; apply Rabs_pos).
assert (SR : Rabs (s' * r - q) <= e * q).
{ unfold q. replace (s' * r - s' / c') with (s' * (r - 1 / c')) by (unfold Rdiv; ring). rewrite Rabs_mult, (Rabs_pos_eq s') by exact S'0.
  replace (e * (s' / c')) with (s' * (e * (1 / c'))) by (unfold Rdiv; ring). apply Rmult_le_compat_l; [exact S'0|]. apply Rabs_le. lra. }
apply Rabs_le_inv in SR.
assert (PL : bpow radix2 (-600) <= s' * r).
{ assert (s' * r >= q * (1 - e)) by nra. assert (/ 1000 * 99 / 100 <= q). { assert (/ 1000 <= ideal). { unfold ideal. apply Rmult_le_reg_r with C; [lra|]. unfold Rdiv. rewrite Rmult_assoc, Rinv_l by lra. nra. } lra. }
  apply Rle_trans with (/ 2000); [apply Rle_trans with (bpow radix2 (-11)); [apply bpow_le; lia|simpl; lra]|]. nra. }
pose proof (rnd_rel_mid (s' * r) PL) as Ev. rewrite <- Vm in Ev. fold e in Ev.
set (v := R_ (fmul (fabs sv) (fdiv one (fabs cv)))) in *.
replace ((2000 * w + 3 * e) * (1 + / 25) * ideal) with ((1000 * w + 1000 * w) * (1 + / 50) * ideal + ((2000 * w) * / 50 + 3 * e * (1 + / 25)) * ideal) by field.
assert (PU : s' * r <= 102 / 100 * ideal) by nra.
assert (EX : e * (102 / 100 * ideal) + e * (101 / 100 * ideal) <= ((2000 * w) * / 50 + 3 * e * (1 + / 25)) * ideal).
{ replace (e * (102 / 100 * ideal) + e * (101 / 100 * ideal)) with ((e * (203 / 100)) * ideal) by field. apply Rmult_le_compat_r; [lra|]. nra. }
assert (EV2 : e * (s' * r) <= e * (102 / 100 * ideal)) by (apply Rmult_le_compat_l; lra).
assert (EQ2 : e * q <= e * (101 / 100 * ideal)) by (apply Rmult_le_compat_l; lra).
apply Rabs_le. lra.
Qed.
End Tan.
