(* TraitsM: the six optional trait impls of /repo/src/traits/*.rs *)
From Coq Require Import ZArith List Bool.
From Flocq Require Import Core BinarySingleNaN.
Require Import GV.FloatBase GV.AngleM GV.GeonumM.
Import ListNotations.
Open Scope Z_scope.

(* electromagnetics.rs constants, computed with the same operations *)
Definition lit_3e8 : F := of_bits 0x41B1E1A300000000.     (* 3.0e8 *)
Definition lit_1em7 : F := of_bits 0x3E7AD7F29ABCAF48.    (* 1e-7 *)
Definition SPEED_OF_LIGHT : F := lit_3e8.
Definition VACUUM_PERMEABILITY : F := fmul (fmul four PI) lit_1em7.
Definition VACUUM_PERMITTIVITY : F :=
  fdiv one (fmul (fmul VACUUM_PERMEABILITY SPEED_OF_LIGHT) SPEED_OF_LIGHT).
Definition VACUUM_IMPEDANCE : F := fmul VACUUM_PERMEABILITY SPEED_OF_LIGHT.

Inductive activation := ReLU | Sigmoid | Tanh | Identity.

Section WithLibm.
Context (L : libm).

(* ---- affine.rs ---- *)
Definition translate (g displacement : geonum) : geonum := gadd_vv L g displacement.
Definition shear (g : geonum) (shear_angle : angle) : geonum :=
  {| mag := mag g; ang := add_vv (ang g) shear_angle |}.
Definition area_quadrilateral (p1 p2 p3 p4 : geonum) : F :=
  let edge1 := gadd_vv L p2 (gnegate p1) in
  let edge2 := gadd_vv L p3 (gnegate p1) in
  let triangle1_area := fdiv (mag (wedge L edge1 edge2)) two in
  let edge3 := gadd_vv L p3 (gnegate p1) in
  let edge4 := gadd_vv L p4 (gnegate p1) in
  let triangle2_area := fdiv (mag (wedge L edge3 edge4)) two in
  fadd triangle1_area triangle2_area.

(* ---- projection.rs: the fn(&T)->Angle argument is modelled by its result ---- *)
Definition view (g : geonum) (path_angle : angle) : geonum :=
  gnew_with_angle (mag g) (add_vv (ang g) path_angle).
Definition compose (g other : geonum) : geonum :=
  gnew_with_angle (fmul (mag g) (mag other)) (add_vv (ang g) (ang other)).

(* ---- optics.rs ---- *)
Definition refract (g refractive_index : geonum) : geonum :=
  let incident_angle := ang g in
  let n_ratio := mag refractive_index in
  let refracted_angle_rem := asinF L (fdiv (sinF L (grade_angle incident_angle)) n_ratio) in
  let refracted_angle := new refracted_angle_rem PI in
  gnew_with_angle (mag g) refracted_angle.
Definition aberrate_step (perturbed_phase : angle) (term : geonum) : angle :=
  let mode_effect_rem := fmul (mag term) (cosF L (fmul (sinF L (grade_angle (ang term))) three)) in
  let mode_effect := new mode_effect_rem PI in
  add_vv perturbed_phase mode_effect.
Definition aberrate (g : geonum) (zernike : list geonum) : geonum :=
  gnew_with_angle (mag g) (fold_left aberrate_step zernike (ang g)).
Definition otf (g focal_mag wavelength : geonum) : geonum :=
  let frequency := fdiv (mag g) (fmul (mag wavelength) (mag focal_mag)) in
  let quarter_turn := new one two in
  let phase := add_vv (ang g) quarter_turn in
  gnew_with_angle frequency phase.
Definition abcd_transform (g a b c d : geonum) : geonum :=
  let h := mag g in
  let theta_radians := grade_angle (ang g) in
  let new_h := fadd (fmul (mag a) h) (fmul (mag b) theta_radians) in
  let new_theta_radians := fadd (fmul (mag c) h) (fmul (mag d) theta_radians) in
  let new_theta_angle := new new_theta_radians PI in
  gnew_with_angle new_h new_theta_angle.
Definition magnify (g magnification : geonum) : geonum :=
  let m := mag magnification in
  let image_intensity := fdiv one (fmul m m) in
  let image_angle_rem := fdiv (fneg (sinF L (grade_angle (ang g)))) m in
  let image_angle := new image_angle_rem PI in
  gnew_with_angle (fmul (mag g) image_intensity) image_angle.

(* ---- electromagnetics.rs ---- *)
Definition inverse_field (charge distance power : geonum) (a : angle) (constant : geonum) : geonum :=
  let magnitude := fdiv (fmul (mag constant) (mag charge)) (powF L (mag distance) (mag power)) in
  let direction :=
    if fge (cosF L (grade_angle (ang charge))) zero then a else add_vv a (new one one) in
  gnew_with_angle magnitude direction.
Definition coulomb_k : geonum :=
  scalar (fdiv one (fmul (fmul four PI) VACUUM_PERMITTIVITY)).
(* charge * k / distance : Mul then Div (panics iff distance.mag == 0) *)
Definition electric_potential (charge distance : geonum) : option geonum :=
  gdiv_vv (gmul_vv charge coulomb_k) distance.
Definition electric_field (charge distance : geonum) : geonum :=
  let k := coulomb_k in
  let power := scalar two in
  let a := new one one in
  inverse_field charge distance power a k.
Definition poynting_vector (g b_field : geonum) : geonum :=
  let poynting := wedge L g b_field in
  gnew_with_angle (fdiv (mag poynting) VACUUM_PERMEABILITY) (ang poynting).
Definition wire_vector_potential (r current permeability : geonum) : geonum :=
  let magnitude :=
    fdiv (fmul (fmul (mag permeability) (mag current)) (lnF L (mag r))) (fmul two PI) in
  gnew_with_angle magnitude (new one two).
Definition wire_magnetic_field (r current permeability : geonum) : geonum :=
  let magnitude :=
    fdiv (fmul (mag permeability) (mag current)) (fmul (fmul two PI) (mag r)) in
  gnew_with_angle magnitude (new zero one).
Definition spherical_wave_potential (r t wavenumber speed : geonum) : geonum :=
  let omega := fmul (mag wavenumber) (mag speed) in
  let potential :=
    fdiv (cosF L (fsub (fmul (mag wavenumber) (mag r)) (fmul omega (mag t)))) (mag r) in
  let magnitude := fabs potential in
  let a := if fge potential zero then new zero one else new one one in
  gnew_with_angle magnitude a.

(* ---- waves.rs ---- *)
Definition propagate (g time position velocity : geonum) : geonum :=
  let velocity_time := gmul_vv velocity time in
  let phase := gsub_vv L position velocity_time in
  gnew_with_angle (mag g) (add_vv (ang g) (ang phase)).
Definition disperse (position time wavenumber frequency : geonum) : geonum :=
  let k_x := gmul_vv wavenumber position in
  let omega_t := gmul_vv frequency time in
  let phase := gsub_vv L k_x omega_t in
  gnew_with_angle one (ang phase).
Definition wfrequency (g other time_interval : geonum) : geonum :=
  let phase_diff := gsub_vv L g other in
  let magnitude := fdiv (mag phase_diff) (mag time_interval) in
  gnew_with_angle magnitude (new one two).
Definition wwavenumber (g other spatial_interval : geonum) : geonum :=
  let phase_diff := gsub_vv L g other in
  let magnitude := fdiv (mag phase_diff) (mag spatial_interval) in
  gnew_with_angle magnitude (new one two).

(* ---- machine_learning.rs ---- *)
Definition regression_from (cov_xy var_x : F) : geonum :=
  {| mag := fsqrt (fdiv (fpowi2 cov_xy) var_x);
     ang := new (atan2F L cov_xy var_x) PI |}.
Definition perceptron_update (g : geonum) (learning_rate error : F) (input : geonum) : geonum :=
  let input_grade := grade (ang input) in
  let sign_x := if input_grade >? 2 then fneg one else one in
  let angle_update :=
    new (fdiv (fmul (fmul (fneg learning_rate) error) sign_x) PI) one in
  {| mag := fadd (mag g) (fmul (fmul learning_rate error) (mag input));
     ang := add_vv (ang g) angle_update |}.
Definition forward_pass (g weight bias : geonum) : geonum :=
  {| mag := fadd (fmul (mag g) (mag weight)) (mag bias);
     ang := add_vv (ang g) (ang weight) |}.
Definition activate (g : geonum) (act : activation) : geonum :=
  match act with
  | ReLU =>
      {| mag := if fgt (cosF L (grade_angle (ang g))) zero then mag g else zero; ang := ang g |}
  | Sigmoid =>
      {| mag := fdiv (mag g) (fadd one (expF L (fneg (cosF L (grade_angle (ang g))))));
         ang := ang g |}
  | Tanh =>
      {| mag := fmul (mag g) (tanhF L (cosF L (grade_angle (ang g)))); ang := ang g |}
  | Identity => g
  end.

End WithLibm.
