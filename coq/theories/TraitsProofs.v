(* TraitsProofs: the optional helpers equal their documented closed forms (C18) and obey their
   structural laws (C19), for every libm. *)
From Coq Require Import ZArith List Bool Reals Lra Lia.
From Flocq Require Import Core BinarySingleNaN.
Require Import GV.FloatBase GV.FloatLemmas GV.AngleM GV.AngleProofs GV.GeonumM GV.GeonumProofs GV.TraitsM.
Import ListNotations.
Open Scope R_scope.

Definition quarter : angle := {| rem := zero; blade := 1 |}.
Definition half_turn : angle := {| rem := zero; blade := 2 |}.
Definition at_zero : angle := {| rem := zero; blade := 0 |}.

Section WithLibm.
Context (L : libm).

(* ---- affine ---- *)
Lemma affine_closed_forms g d a p1 p2 p3 p4 :
  translate L g d = gadd_vv L g d /\
  shear g a = grotate g a /\
  area_quadrilateral L p1 p2 p3 p4 =
    fadd (fdiv (mag (wedge L (gsub_vv L p2 p1) (gsub_vv L p3 p1))) two)
         (fdiv (mag (wedge L (gsub_vv L p3 p1) (gsub_vv L p4 p1))) two).
Proof. repeat split; reflexivity. Qed.

(* ---- projection ---- *)
Lemma projection_closed_forms g a h : view g a = grotate g a /\ compose g h = gmul_vv g h.
Proof. split; reflexivity. Qed.

(* ---- waves ---- *)
Lemma waves_closed_forms g t x vel k w o iv :
  propagate L g t x vel = {| mag := mag g; ang := geometric_add (ang g) (ang (gsub_vv L x (gmul_vv vel t))) |} /\
  disperse L x t k w = {| mag := one; ang := ang (gsub_vv L (gmul_vv k x) (gmul_vv w t)) |} /\
  wfrequency L g o iv = {| mag := fdiv (mag (gsub_vv L g o)) (mag iv); ang := quarter |} /\
  wwavenumber L g o iv = {| mag := fdiv (mag (gsub_vv L g o)) (mag iv); ang := quarter |}.
Proof.
unfold wfrequency, wwavenumber, quarter. rewrite new_1_2. repeat split; reflexivity.
Qed.

(* ---- machine learning ---- *)
Lemma ml_closed_forms g w b :
  forward_pass g w b = {| mag := fadd (fmul (mag g) (mag w)) (mag b); ang := geometric_add (ang g) (ang w) |} /\
  activate L g Identity = g /\
  activate L g ReLU = {| mag := if fgt (cosF L (grade_angle (ang g))) zero then mag g else zero; ang := ang g |} /\
  activate L g Sigmoid = {| mag := fdiv (mag g) (fadd one (expF L (fneg (cosF L (grade_angle (ang g)))))); ang := ang g |} /\
  activate L g Tanh = {| mag := fmul (mag g) (tanhF L (cosF L (grade_angle (ang g)))); ang := ang g |}.
Proof. repeat split; reflexivity. Qed.

Lemma activation_keeps_angle g act : ang (activate L g act) = ang g.
Proof. destruct act; reflexivity. Qed.

Lemma relu_law g :
  (fgt (cosF L (grade_angle (ang g))) zero = true -> mag (activate L g ReLU) = mag g) /\
  (fgt (cosF L (grade_angle (ang g))) zero = false -> mag (activate L g ReLU) = zero).
Proof. simpl. split; intros ->; reflexivity. Qed.

Lemma regression_perceptron_forms c v g lr e i :
  regression_from L c v = {| mag := fsqrt (fdiv (fmul c c) v); ang := new (atan2F L c v) PI |} /\
  perceptron_update g lr e i =
    {| mag := fadd (mag g) (fmul (fmul lr e) (mag i));
       ang := geometric_add (ang g)
                (new (fdiv (fmul (fmul (fneg lr) e) (if (grade (ang i) >? 2)%Z then fneg one else one)) PI) one) |}.
Proof. split; reflexivity. Qed.

(* ---- electromagnetics ---- *)
Lemma em_closed_forms ch d p a k e b r cur perm :
  inverse_field L ch d p a k =
    {| mag := fdiv (fmul (mag k) (mag ch)) (powF L (mag d) (mag p));
       ang := if fge (cosF L (grade_angle (ang ch))) zero then a else geometric_add a half_turn |} /\
  electric_potential ch d = gdiv_vv (gmul_vv ch coulomb_k) d /\
  electric_field L ch d = inverse_field L ch d (scalar two) half_turn coulomb_k /\
  poynting_vector L e b = {| mag := fdiv (mag (wedge L e b)) VACUUM_PERMEABILITY; ang := ang (wedge L e b) |} /\
  wire_vector_potential L r cur perm =
    {| mag := fdiv (fmul (fmul (mag perm) (mag cur)) (lnF L (mag r))) (fmul two PI); ang := quarter |} /\
  wire_magnetic_field r cur perm =
    {| mag := fdiv (fmul (mag perm) (mag cur)) (fmul (fmul two PI) (mag r)); ang := at_zero |}.
Proof.
unfold inverse_field, electric_field, wire_vector_potential, wire_magnetic_field, half_turn, quarter, at_zero, add_vv.
rewrite new_1_1, new_1_2, new_0_1. repeat split; reflexivity.
Qed.

Lemma spherical_wave_form r t k s :
  let potential := fdiv (cosF L (fsub (fmul (mag k) (mag r)) (fmul (fmul (mag k) (mag s)) (mag t)))) (mag r) in
  spherical_wave_potential L r t k s =
    {| mag := fabs potential; ang := if fge potential zero then at_zero else half_turn |}.
Proof. unfold spherical_wave_potential, at_zero, half_turn. rewrite new_0_1, new_1_1. reflexivity. Qed.

(* negative charge turns the field by exactly two blades, remainder untouched *)
Lemma negative_charge_half_turn a : canonp (rem a) -> steps_to a (geometric_add a half_turn) 2.
Proof. intros C. unfold half_turn. now apply step_by_k. Qed.

(* ---- optics ---- *)
Lemma optics_closed_forms g n f w m a b c d :
  refract L g n = {| mag := mag g; ang := new (asinF L (fdiv (sinF L (grade_angle (ang g))) (mag n))) PI |} /\
  otf g f w = {| mag := fdiv (mag g) (fmul (mag w) (mag f)); ang := geometric_add (ang g) quarter |} /\
  magnify L g m =
    {| mag := fmul (mag g) (fdiv one (fmul (mag m) (mag m)));
       ang := new (fdiv (fneg (sinF L (grade_angle (ang g)))) (mag m)) PI |} /\
  abcd_transform g a b c d =
    {| mag := fadd (fmul (mag a) (mag g)) (fmul (mag b) (grade_angle (ang g)));
       ang := new (fadd (fmul (mag c) (mag g)) (fmul (mag d) (grade_angle (ang g)))) PI |}.
Proof. unfold otf, quarter, add_vv. rewrite new_1_2. repeat split; reflexivity. Qed.

Lemma aberrate_fold g zs :
  aberrate L g zs =
    {| mag := mag g;
       ang := fold_left (fun ph term =>
                geometric_add ph (new (fmul (mag term) (cosF L (fmul (sinF L (grade_angle (ang term))) three))) PI))
              zs (ang g) |}.
Proof. reflexivity. Qed.

(* otf adds exactly one blade and leaves the remainder untouched *)
Lemma otf_phase g f w : canonp (rem (ang g)) -> steps_to (ang g) (ang (otf g f w)) 1.
Proof. intros C. unfold otf. cbn [gnew_with_angle ang]. unfold add_vv. rewrite new_1_2. now apply step_by_k. Qed.

(* magnitude laws *)
Lemma magnitude_laws g t x vel k w n :
  mag (propagate L g t x vel) = mag g /\ mag (disperse L x t k w) = one /\ mag (refract L g n) = mag g.
Proof. repeat split; reflexivity. Qed.

End WithLibm.

(* the four physical constants are computed by exactly the documented expressions *)
Lemma em_constants :
  SPEED_OF_LIGHT = lit_3e8 /\ VACUUM_PERMEABILITY = fmul (fmul four PI) lit_1em7 /\
  VACUUM_PERMITTIVITY = fdiv one (fmul (fmul VACUUM_PERMEABILITY SPEED_OF_LIGHT) SPEED_OF_LIGHT) /\
  VACUUM_IMPEDANCE = fmul VACUUM_PERMEABILITY SPEED_OF_LIGHT.
Proof. repeat split; reflexivity. Qed.
