(* TrigProofs: numeric value theorems for the trigonometric gateways (C15), under explicit accuracy
   hypotheses on libm and with the REAL pi (PiBounds.v brings in the primitive-integer axioms). *)
From Coq Require Import ZArith List Bool Reals Lra Lia Psatz.
From Flocq Require Import Core BinarySingleNaN.
Require Import GV.FloatBase GV.FloatLemmas GV.AngleM GV.AngleProofs GV.NewProofs GV.CtorProofs GV.GeonumM GV.GeonumProofs GV.PiBounds.
Open Scope R_scope.

(* the real direction of an angle: (blade mod 4) * pi/2 + rem, with the REAL pi *)
Definition dir (a : angle) : R := IZR (grade a) * (Rtrigo1.PI / 2) + R_ (rem a).

(* accuracy hypotheses on libm (explicit premises, never axioms): absolute error u on [-8, 8] *)
Definition cos_acc (L : libm) (u : R) : Prop :=
  forall x, fin x -> Rabs (R_ x) <= 8 -> fin (cosF L x) /\ Rabs (R_ (cosF L x) - cos (R_ x)) <= u.
Definition sin_acc (L : libm) (u : R) : Prop :=
  forall x, fin x -> Rabs (R_ x) <= 8 -> fin (sinF L x) /\ Rabs (R_ (sinF L x) - sin (R_ x)) <= u.

Lemma sin_abs_le z : Rabs (sin z) <= Rabs z.
Proof.
assert (Pos : forall t, 0 < t -> Rabs (sin t) <= t).
{ intros t Ht. apply Rabs_le. split.
  - destruct (Rle_lt_dec 1 t) as [G|S].
    + pose proof (SIN_bound t). lra.
    + assert (t < Rtrigo1.PI) by (pose proof PI_RGT_0; pose proof PI2_3_2; unfold PI2 in *; lra).
      pose proof (sin_gt_0 t Ht H). lra.
  - left. now apply sin_lt_x. }
destruct (Rtotal_order z 0) as [N|[Z|P]].
- rewrite (Rabs_left z) by exact N. replace (sin z) with (- sin (- z)) by (rewrite sin_neg; ring).
  rewrite Rabs_Ropp. apply Pos. lra.
- rewrite Z, sin_0, Rabs_R0. lra.
- rewrite (Rabs_pos_eq z) by lra. now apply Pos.
Qed.

Lemma cos_lip x y : Rabs (cos x - cos y) <= Rabs (x - y).
Proof.
rewrite form2. rewrite !Rabs_mult. replace (Rabs (-2)) with 2 by (rewrite Rabs_left; lra).
pose proof (sin_abs_le ((x - y) / 2)) as H1.
pose proof (SIN_bound ((x + y) / 2)) as B.
assert (H2 : Rabs (sin ((x + y) / 2)) <= 1) by (apply Rabs_le; lra).
assert (E : Rabs ((x - y) / 2) = Rabs (x - y) / 2).
{ unfold Rdiv. rewrite Rabs_mult. rewrite (Rabs_pos_eq (/ 2)) by lra. reflexivity. }
rewrite E in H1.
pose proof (Rabs_pos (sin ((x - y) / 2))). pose proof (Rabs_pos (sin ((x + y)/2))). pose proof (Rabs_pos (x - y)). nra.
Qed.

Lemma sin_lip x y : Rabs (sin x - sin y) <= Rabs (x - y).
Proof.
rewrite form4. rewrite !Rabs_mult, (Rabs_pos_eq 2) by lra.
pose proof (sin_abs_le ((x - y) / 2)) as H1.
pose proof (COS_bound ((x + y) / 2)) as B.
assert (H2 : Rabs (cos ((x + y) / 2)) <= 1) by (apply Rabs_le; lra).
assert (E : Rabs ((x - y) / 2) = Rabs (x - y) / 2).
{ unfold Rdiv. rewrite Rabs_mult. rewrite (Rabs_pos_eq (/ 2)) by lra. reflexivity. }
rewrite E in H1.
pose proof (Rabs_pos (sin ((x - y) / 2))). pose proof (Rabs_pos (cos ((x + y)/2))). pose proof (Rabs_pos (x - y)). nra.
Qed.

(* the float grade angle is within 2.5e-15 of the real direction *)
Lemma grade_angle_dir a : canonp (rem a) ->
  Rabs (R_ (grade_angle a) - dir a) <= 25 / 10000000000000000.
Proof.
intros (Fr & R0 & R1). unfold grade_angle, dir.
pose proof (grade_range a) as Hg. set (g := grade a) in *.
destruct (of_Z_R g ltac:(lia)) as [Vg Fg].
destruct PIval as [VP FP]. destruct two_val as [V2 F2]. pose proof Qpos as Qp. pose proof E10pos as Ep.
assert (G : 0 <= IZR g <= 3). { split; apply IZR_le; lia. }
assert (Tiny : bpow radix2 (-1075) <= / 1073741824 / 1073741824 / 1073741824).
{ apply Rle_trans with (bpow radix2 (-90)). apply bpow_le; lia. simpl. lra. }
pose proof (bpow_gt_0 radix2 (-1075)) as Tp.
destruct (fmul_R (of_Z g) PI Fg FP) as [V1 F1].
{ apply small_le_1000. rewrite Vg, VP, Qval. apply Rabs_le. nra. }
rewrite Vg, VP in V1.
assert (P0 : 0 <= IZR g * (2 * R_ Q)) by nra.
pose proof (rnd_rel (IZR g * (2 * R_ Q))) as E1. rewrite <- V1, (Rabs_pos_eq _ P0) in E1.
pose proof (rnd_ge0 _ P0) as L1. rewrite <- V1 in L1.
set (x1 := fmul (of_Z g) PI) in *.
apply Rabs_le_inv in E1.
destruct (fdiv_R x1 two F1) as [V3 F3].
{ rewrite V2; lra. }
{ apply small_le_1000. rewrite V2. apply Rabs_le. rewrite Qval in *. nra. }
rewrite V2 in V3.
assert (D0 : 0 <= R_ x1 / 2) by lra.
pose proof (rnd_rel (R_ x1 / 2)) as E3. rewrite <- V3, (Rabs_pos_eq _ D0) in E3.
pose proof (rnd_ge0 _ D0) as L3. rewrite <- V3 in L3.
set (x3 := fdiv x1 two) in *.
apply Rabs_le_inv in E3.
destruct (fadd_R x3 (rem a) F3 Fr) as [V4 F4].
{ apply small_le_1000. apply Rabs_le. rewrite Qval, E10val in *. nra. }
assert (S0 : 0 <= R_ x3 + R_ (rem a)) by lra.
pose proof (rnd_rel (R_ x3 + R_ (rem a))) as E4. rewrite <- V4, (Rabs_pos_eq _ S0) in E4.
apply Rabs_le_inv in E4.
pose proof q_close_to_half_pi as QP. rewrite <- Qval in QP. apply Rabs_le_inv in QP.
apply Rabs_le. rewrite Qval, E10val in *. nra.
Qed.

Section TrigValues.
Context (L : libm) (u : R).

(* the cosine gateway carries cos(direction) within u + 2.5e-15, sign in the half turn *)
Lemma gcos_value a : cos_acc L u -> canonp (rem a) ->
  let v := cosF L (grade_angle a) in
  fin v /\ Rabs (R_ v - cos (dir a)) <= u + 25 / 10000000000000000 /\
  gcos L a = {| mag := fabs v; ang := {| rem := zero; blade := if Rlt_bool (R_ v) 0 then 2 else 0 |} |}.
Proof.
intros HL Ca v.
destruct (grade_angle_range a Ca) as (Fg & G0 & G1).
assert (B8 : Rabs (R_ (grade_angle a)) <= 8). { rewrite Rabs_pos_eq by exact G0. rewrite Qval in G1. lra. }
destruct (HL _ Fg B8) as [Fv Ev]. fold v in Fv, Ev.
split; [exact Fv|]. split.
- pose proof (grade_angle_dir a Ca) as D. pose proof (cos_lip (R_ (grade_angle a)) (dir a)) as Lp.
  replace (R_ v - cos (dir a)) with ((R_ v - cos (R_ (grade_angle a))) + (cos (R_ (grade_angle a)) - cos (dir a))) by ring.
  eapply Rle_trans. apply Rabs_triang. lra.
- now apply gcos_encoding.
Qed.

Lemma gsin_value a : sin_acc L u -> canonp (rem a) ->
  let v := sinF L (grade_angle a) in
  fin v /\ Rabs (R_ v - sin (dir a)) <= u + 25 / 10000000000000000 /\
  gsin L a = {| mag := fabs v; ang := {| rem := zero; blade := if Rlt_bool (R_ v) 0 then 3 else 1 |} |}.
Proof.
intros HL Ca v.
destruct (grade_angle_range a Ca) as (Fg & G0 & G1).
assert (B8 : Rabs (R_ (grade_angle a)) <= 8). { rewrite Rabs_pos_eq by exact G0. rewrite Qval in G1. lra. }
destruct (HL _ Fg B8) as [Fv Ev]. fold v in Fv, Ev.
split; [exact Fv|]. split.
- pose proof (grade_angle_dir a Ca) as D. pose proof (sin_lip (R_ (grade_angle a)) (dir a)) as Lp.
  replace (R_ v - sin (dir a)) with ((R_ v - sin (R_ (grade_angle a))) + (sin (R_ (grade_angle a)) - sin (dir a))) by ring.
  eapply Rle_trans. apply Rabs_triang. lra.
- now apply gsin_encoding.
Qed.
End TrigValues.

(* ---- non-vacuity of the accuracy hypotheses with u = 2^-52: the (non-computable) correctly
   rounded real cosine / sine satisfy them ---- *)
Definition round_real (c : R) : F :=
  binary_normalize prec emax Hprec Hmax mode_NE (ZnearestE (c * bpow radix2 1074)) (-1074) false.

Lemma round_real_acc c : Rabs c <= 1 ->
  fin (round_real c) /\ Rabs (R_ (round_real c) - c) <= / 4503599627370496.
Proof.
intros Hc. unfold round_real. set (m := ZnearestE (c * bpow radix2 1074)).
assert (Hm : Rabs (IZR m - c * bpow radix2 1074) <= / 2).
{ rewrite <- Rabs_Ropp. replace (- (IZR m - c * bpow radix2 1074)) with (c * bpow radix2 1074 - IZR m) by ring. apply Znearest_half. }
set (y := F2R (Float radix2 m (-1074))).
assert (Yc : Rabs (y - c) <= bpow radix2 (-1075)).
{ unfold y, F2R. simpl Fnum. simpl Fexp.
  replace (IZR m * bpow radix2 (-1074) - c) with ((IZR m - c * bpow radix2 1074) * bpow radix2 (-1074)).
  2:{ rewrite Rmult_minus_distr_r, Rmult_assoc, <- bpow_plus. simpl (1074 + -1074)%Z. simpl (bpow radix2 0). ring. }
  rewrite Rabs_mult, (Rabs_pos_eq (bpow radix2 (-1074))) by apply bpow_ge_0.
  replace (bpow radix2 (-1075)) with (/ 2 * bpow radix2 (-1074)).
  2:{ change (/ 2) with (bpow radix2 (-1)). rewrite <- bpow_plus. reflexivity. }
  apply Rmult_le_compat_r. apply bpow_ge_0. exact Hm. }
assert (T : bpow radix2 (-1075) <= / 1073741824 / 1073741824 / 1073741824).
{ apply Rle_trans with (bpow radix2 (-90)). apply bpow_le; lia. simpl. lra. }
pose proof (bpow_gt_0 radix2 (-1075)) as Tp.
assert (Yb : Rabs y <= 2). { apply Rabs_le_inv in Yc. apply Rabs_le_inv in Hc. apply Rabs_le. lra. }
generalize (binary_normalize_correct prec emax Hprec Hmax mode_NE m (-1074) false). cbv zeta. fold y.
change (round radix2 (SpecFloat.fexp prec emax) (round_mode mode_NE) y) with (rnd y).
rewrite Rlt_bool_true.
2:{ apply rnd_small_lt_emax. apply small_le_1000. lra. }
intros (V & Fn & _). split; [exact Fn|]. rewrite V.
pose proof (rnd_rel y) as E.
assert (Y1 : Rabs y <= 1 + bpow radix2 (-1075)).
{ replace y with (c + (y - c)) by ring. eapply Rle_trans. apply Rabs_triang. lra. }
apply Rabs_le_inv in E. apply Rabs_le_inv in Yc.
apply Rabs_le. lra.
Qed.

Definition ideal_libm : libm :=
  {| cosF := fun x => round_real (cos (R_ x)); sinF := fun x => round_real (sin (R_ x));
     asinF := fun _ => zero; acosF := fun _ => zero; expF := fun _ => one; tanhF := fun _ => zero;
     lnF := fun _ => zero; atan2F := fun _ _ => zero; powF := fun x _ => x |}.

Lemma acc_hyps_inhabited : cos_acc ideal_libm (/ 4503599627370496) /\ sin_acc ideal_libm (/ 4503599627370496).
Proof.
split; intros x _ _; cbn [ideal_libm cosF sinF]; apply round_real_acc; apply Rabs_le.
- pose proof (COS_bound (R_ x)); lra.
- pose proof (SIN_bound (R_ x)); lra.
Qed.
