// In-process libm recorder.  The executable itself defines the libm symbols the
// geonum crate resolves dynamically (cos sin sincos atan2 asin acos exp tanh log
// pow); each forwards to the real glibc function obtained by dlopen/dlsym and
// appends (fn id, arg bits, arg bits, result bits) to a per-program log.
use std::ffi::c_void;
use std::os::raw::{c_char, c_int};

extern "C" {
    fn dlopen(filename: *const c_char, flag: c_int) -> *mut c_void;
    fn dlsym(handle: *mut c_void, symbol: *const c_char) -> *mut c_void;
}

type F1 = unsafe extern "C" fn(f64) -> f64;
type F2 = unsafe extern "C" fn(f64, f64) -> f64;
type FSC = unsafe extern "C" fn(f64, *mut f64, *mut f64);

struct Tab {
    cos: F1,
    sin: F1,
    asin: F1,
    acos: F1,
    exp: F1,
    tanh: F1,
    log: F1,
    atan2: F2,
    pow: F2,
    sincos: FSC,
}

static mut TAB: Option<Tab> = None;
static mut LOG: Vec<(u8, u64, u64, u64)> = Vec::new();
static mut CALLS: u64 = 0;
static mut SC_MISMATCH: u64 = 0;

fn nb(x: f64) -> u64 {
    if x.is_nan() {
        0x7FF8000000000000
    } else {
        x.to_bits()
    }
}

pub fn init() {
    unsafe {
        let h = dlopen(b"libm.so.6\0".as_ptr() as *const c_char, 2);
        assert!(!h.is_null(), "dlopen libm.so.6 failed");
        let s = |n: &[u8]| {
            let p = dlsym(h, n.as_ptr() as *const c_char);
            assert!(!p.is_null());
            p
        };
        TAB = Some(Tab {
            cos: std::mem::transmute::<*mut c_void, F1>(s(b"cos\0")),
            sin: std::mem::transmute::<*mut c_void, F1>(s(b"sin\0")),
            asin: std::mem::transmute::<*mut c_void, F1>(s(b"asin\0")),
            acos: std::mem::transmute::<*mut c_void, F1>(s(b"acos\0")),
            exp: std::mem::transmute::<*mut c_void, F1>(s(b"exp\0")),
            tanh: std::mem::transmute::<*mut c_void, F1>(s(b"tanh\0")),
            log: std::mem::transmute::<*mut c_void, F1>(s(b"log\0")),
            atan2: std::mem::transmute::<*mut c_void, F2>(s(b"atan2\0")),
            pow: std::mem::transmute::<*mut c_void, F2>(s(b"pow\0")),
            sincos: std::mem::transmute::<*mut c_void, FSC>(s(b"sincos\0")),
        });
    }
}

#[allow(static_mut_refs)]
fn tab() -> &'static Tab {
    unsafe { TAB.as_ref().expect("libmrec not initialised") }
}

#[allow(static_mut_refs)]
fn rec(f: u8, a: f64, b: f64, r: f64) {
    unsafe {
        CALLS += 1;
        LOG.push((f, nb(a), nb(b), nb(r)));
    }
}

#[allow(static_mut_refs)]
pub fn clear() {
    unsafe { LOG.clear() }
}

#[allow(static_mut_refs)]
pub fn dump(out: &mut String) {
    use std::fmt::Write;
    unsafe {
        let mut v = LOG.clone();
        v.sort();
        v.dedup();
        for (i, (f, a, b, r)) in v.iter().enumerate() {
            if i > 0 {
                out.push(',');
            }
            write!(out, "{} {} {} {}", f, a, b, r).unwrap();
        }
    }
}

pub fn stats() -> (u64, u64) {
    unsafe { (CALLS, SC_MISMATCH) }
}

// fn ids: 0 cos 1 sin 2 atan2 3 asin 4 acos 5 exp 6 tanh 7 log 8 pow
#[no_mangle]
pub extern "C" fn cos(x: f64) -> f64 {
    let r = unsafe { (tab().cos)(x) };
    rec(0, x, 0.0, r);
    r
}
#[no_mangle]
pub extern "C" fn sin(x: f64) -> f64 {
    let r = unsafe { (tab().sin)(x) };
    rec(1, x, 0.0, r);
    r
}
#[no_mangle]
pub extern "C" fn sincos(x: f64, s: *mut f64, c: *mut f64) {
    let (mut sv, mut cv) = (0.0f64, 0.0f64);
    unsafe {
        (tab().sincos)(x, &mut sv, &mut cv);
        let s2 = (tab().sin)(x);
        let c2 = (tab().cos)(x);
        if nb(s2) != nb(sv) || nb(c2) != nb(cv) {
            SC_MISMATCH += 1;
        }
        *s = sv;
        *c = cv;
    }
    rec(1, x, 0.0, sv);
    rec(0, x, 0.0, cv);
}
#[no_mangle]
pub extern "C" fn atan2(y: f64, x: f64) -> f64 {
    let r = unsafe { (tab().atan2)(y, x) };
    rec(2, y, x, r);
    r
}
#[no_mangle]
pub extern "C" fn asin(x: f64) -> f64 {
    let r = unsafe { (tab().asin)(x) };
    rec(3, x, 0.0, r);
    r
}
#[no_mangle]
pub extern "C" fn acos(x: f64) -> f64 {
    let r = unsafe { (tab().acos)(x) };
    rec(4, x, 0.0, r);
    r
}
#[no_mangle]
pub extern "C" fn exp(x: f64) -> f64 {
    let r = unsafe { (tab().exp)(x) };
    rec(5, x, 0.0, r);
    r
}
#[no_mangle]
pub extern "C" fn tanh(x: f64) -> f64 {
    let r = unsafe { (tab().tanh)(x) };
    rec(6, x, 0.0, r);
    r
}
#[no_mangle]
pub extern "C" fn log(x: f64) -> f64 {
    let r = unsafe { (tab().log)(x) };
    rec(7, x, 0.0, r);
    r
}
#[no_mangle]
pub extern "C" fn pow(x: f64, y: f64) -> f64 {
    let r = unsafe { (tab().pow)(x, y) };
    rec(8, x, y, r);
    r
}
