// gvharness: executes op-programs on the real geonum library through its public
// API only, records every libm call the library makes, and prints every register
// as canonical integers.  It knows nothing about properties: generation,
// predicates and the Coq emitter live in /verif/tools (Python).
//
// stdin : one program per line   id;OP a b c;OP a b;...
// stdout: one line per program   id;<reg>;<reg>;...|f a b r,f a b r,...
//   reg serialisation (space separated integers):
//     1 rembits blade | 2 magbits rembits blade | 3 bits | 4 n | 5 0/1 | 6 0/1/2/3
//     7 len (mag rem blade)* | 8 0 | 8 1 mag rem blade | 9 (panic) | 10 (ill-typed)
use geonum::traits::Affine;
use geonum::{
    Activation, Angle, Electromagnetics, GeoCollection, Geonum, MachineLearning, Optics,
    Projection, Waves,
};
use std::cmp::Ordering;
use std::io::{BufRead, Write};
use std::panic::{catch_unwind, AssertUnwindSafe};

mod libmrec;

#[derive(Clone, Debug)]
enum Val {
    A(Angle),
    G(Geonum),
    F(f64),
    U(usize),
    B(bool),
    O(Option<Ordering>),
    C(Vec<Geonum>),
    OG(Option<Geonum>),
    Panic,
    Err,
}

fn fb(x: f64) -> u64 {
    if x.is_nan() {
        0x7FF8000000000000
    } else {
        x.to_bits()
    }
}

fn ser(v: &Val, out: &mut String) {
    use std::fmt::Write;
    match v {
        Val::A(a) => write!(out, "1 {} {}", fb(a.rem()), a.blade()).unwrap(),
        Val::G(g) => write!(out, "2 {} {} {}", fb(g.mag), fb(g.angle.rem()), g.angle.blade()).unwrap(),
        Val::F(x) => write!(out, "3 {}", fb(*x)).unwrap(),
        Val::U(n) => write!(out, "4 {}", n).unwrap(),
        Val::B(b) => write!(out, "5 {}", *b as u8).unwrap(),
        Val::O(o) => write!(
            out,
            "6 {}",
            match o {
                Some(Ordering::Less) => 0,
                Some(Ordering::Equal) => 1,
                Some(Ordering::Greater) => 2,
                None => 3,
            }
        )
        .unwrap(),
        Val::C(c) => {
            write!(out, "7 {}", c.len()).unwrap();
            for g in c {
                write!(out, " {} {} {}", fb(g.mag), fb(g.angle.rem()), g.angle.blade()).unwrap();
            }
        }
        Val::OG(None) => out.push_str("8 0"),
        Val::OG(Some(g)) => {
            write!(out, "8 1 {} {} {}", fb(g.mag), fb(g.angle.rem()), g.angle.blade()).unwrap()
        }
        Val::Panic => out.push_str("9"),
        Val::Err => out.push_str("10"),
    }
}

struct Regs(Vec<Val>);
struct Bad;
type R<T> = Result<T, Bad>;

impl Regs {
    fn a(&self, i: u64) -> R<Angle> {
        match self.0.get(i as usize) {
            Some(Val::A(a)) => Ok(*a),
            _ => Err(Bad),
        }
    }
    fn g(&self, i: u64) -> R<Geonum> {
        match self.0.get(i as usize) {
            Some(Val::G(g)) => Ok(*g),
            _ => Err(Bad),
        }
    }
    fn f(&self, i: u64) -> R<f64> {
        match self.0.get(i as usize) {
            Some(Val::F(x)) => Ok(*x),
            _ => Err(Bad),
        }
    }
    fn u(&self, i: u64) -> R<usize> {
        match self.0.get(i as usize) {
            Some(Val::U(n)) => Ok(*n),
            _ => Err(Bad),
        }
    }
    fn c(&self, i: u64) -> R<Vec<Geonum>> {
        match self.0.get(i as usize) {
            Some(Val::C(c)) => Ok(c.clone()),
            _ => Err(Bad),
        }
    }
    fn gs(&self, is: &[u64]) -> R<Vec<Geonum>> {
        is.iter().map(|i| self.g(*i)).collect()
    }
}

fn coll(v: Vec<Geonum>) -> GeoCollection {
    GeoCollection::from(v)
}
fn enc_angle(a: &Angle) -> Angle {
    *a
}

// every operator impl block is called through its own spelling
macro_rules! spell {
    ($sp:expr, $a:expr, $b:expr, $op:tt) => {{
        let (x, y) = ($a, $b);
        match $sp {
            0 => x $op y,
            1 => x $op &y,
            2 => &x $op y,
            3 => &x $op &y,
            _ => return Err(Bad),
        }
    }};
}

fn rel<T: PartialOrd>(k: u64, a: &T, b: &T) -> R<bool> {
    Ok(match k {
        0 => a < b,
        1 => a <= b,
        2 => a > b,
        3 => a >= b,
        _ => return Err(Bad),
    })
}

fn step(r: &Regs, op: &str, x: &[u64]) -> R<Val> {
    let n = x.len();
    let need = |k: usize| if n == k { Ok(()) } else { Err(Bad) };
    Ok(match op {
        "FImm" => {
            need(1)?;
            Val::F(f64::from_bits(x[0]))
        }
        "UImm" => {
            need(1)?;
            Val::U(x[0] as usize)
        }
        // ---------------- Angle ----------------
        "ANew" => {
            need(2)?;
            Val::A(Angle::new(r.f(x[0])?, r.f(x[1])?))
        }
        "ANewBlade" => {
            need(3)?;
            Val::A(Angle::new_with_blade(r.u(x[0])?, r.f(x[1])?, r.f(x[2])?))
        }
        "ANewCart" => {
            need(2)?;
            Val::A(Angle::new_from_cartesian(r.f(x[0])?, r.f(x[1])?))
        }
        "ARotate" => {
            need(2)?;
            Val::A(r.a(x[0])?.rotate(r.a(x[1])?))
        }
        "ARem" => {
            need(1)?;
            Val::F(r.a(x[0])?.rem())
        }
        "ABlade" => {
            need(1)?;
            Val::U(r.a(x[0])?.blade())
        }
        "AGrade" => {
            need(1)?;
            Val::U(r.a(x[0])?.grade())
        }
        "AIsGrade" => {
            need(2)?;
            let a = r.a(x[1])?;
            Val::B(match x[0] {
                0 => a.is_scalar(),
                1 => a.is_vector(),
                2 => a.is_bivector(),
                3 => a.is_trivector(),
                _ => return Err(Bad),
            })
        }
        "ABase" => {
            need(1)?;
            Val::A(r.a(x[0])?.base_angle())
        }
        "AIsOpp" => {
            need(2)?;
            Val::B(r.a(x[0])?.is_opposite(&r.a(x[1])?))
        }
        "ADual" => {
            need(1)?;
            Val::A(r.a(x[0])?.dual())
        }
        "AUndual" => {
            need(1)?;
            Val::A(r.a(x[0])?.undual())
        }
        "AConj" => {
            need(1)?;
            Val::A(r.a(x[0])?.conjugate())
        }
        "ANeg" => {
            need(1)?;
            Val::A(r.a(x[0])?.negate())
        }
        "AGradeAngle" => {
            need(1)?;
            Val::F(r.a(x[0])?.grade_angle())
        }
        "AProject" => {
            need(2)?;
            Val::F(r.a(x[0])?.project(r.a(x[1])?))
        }
        "AEq" => {
            need(2)?;
            Val::B(r.a(x[0])? == r.a(x[1])?)
        }
        "ANe" => {
            need(2)?;
            Val::B(r.a(x[0])? != r.a(x[1])?)
        }
        "AAdd" => {
            need(3)?;
            Val::A(spell!(x[0], r.a(x[1])?, r.a(x[2])?, +))
        }
        "ASub" => {
            need(3)?;
            Val::A(spell!(x[0], r.a(x[1])?, r.a(x[2])?, -))
        }
        "AMul" => {
            need(3)?;
            Val::A(spell!(x[0], r.a(x[1])?, r.a(x[2])?, *))
        }
        "ADivA" => {
            need(3)?;
            Val::A(spell!(x[0], r.a(x[1])?, r.a(x[2])?, /))
        }
        "ADivF" => {
            need(3)?;
            let (a, d) = (r.a(x[1])?, r.f(x[2])?);
            Val::A(match x[0] {
                0 => a / d,
                1 => &a / d,
                _ => return Err(Bad),
            })
        }
        "ACmp" => {
            need(2)?;
            Val::O(Some(r.a(x[0])?.cmp(&r.a(x[1])?)))
        }
        "APartialCmp" => {
            need(2)?;
            Val::O(r.a(x[0])?.partial_cmp(&r.a(x[1])?))
        }
        "ARel" => {
            need(3)?;
            Val::B(rel(x[0], &r.a(x[1])?, &r.a(x[2])?)?)
        }
        // ---------------- Geonum ----------------
        "GNew" => {
            need(3)?;
            Val::G(Geonum::new(r.f(x[0])?, r.f(x[1])?, r.f(x[2])?))
        }
        "GNewAngle" => {
            need(2)?;
            Val::G(Geonum::new_with_angle(r.f(x[0])?, r.a(x[1])?))
        }
        "GNewCart" => {
            need(2)?;
            Val::G(Geonum::new_from_cartesian(r.f(x[0])?, r.f(x[1])?))
        }
        "GNewBlade" => {
            need(4)?;
            Val::G(Geonum::new_with_blade(r.f(x[0])?, r.u(x[1])?, r.f(x[2])?, r.f(x[3])?))
        }
        "GDim" => {
            need(2)?;
            Val::G(Geonum::create_dimension(r.f(x[0])?, r.u(x[1])?))
        }
        "GScalar" => {
            need(1)?;
            Val::G(Geonum::scalar(r.f(x[0])?))
        }
        "GIncr" => {
            need(1)?;
            Val::G(r.g(x[0])?.increment_blade())
        }
        "GDecr" => {
            need(1)?;
            Val::G(r.g(x[0])?.decrement_blade())
        }
        "GDual" => {
            need(1)?;
            Val::G(r.g(x[0])?.dual())
        }
        "GUndual" => {
            need(1)?;
            Val::G(r.g(x[0])?.undual())
        }
        "GDiff" => {
            need(1)?;
            Val::G(r.g(x[0])?.differentiate())
        }
        "GInt" => {
            need(1)?;
            Val::G(r.g(x[0])?.integrate())
        }
        "GNeg" => {
            need(1)?;
            Val::G(r.g(x[0])?.negate())
        }
        "GBase" => {
            need(1)?;
            Val::G(r.g(x[0])?.base_angle())
        }
        "GCopyBlade" => {
            need(2)?;
            Val::G(r.g(x[0])?.copy_blade(&r.g(x[1])?))
        }
        "GInv" => {
            need(1)?;
            Val::G(r.g(x[0])?.inv())
        }
        "GDivM" => {
            need(2)?;
            Val::G(Geonum::div(&r.g(x[0])?, &r.g(x[1])?))
        }
        "GNormalize" => {
            need(1)?;
            Val::G(r.g(x[0])?.normalize())
        }
        "GDot" => {
            need(2)?;
            Val::G(r.g(x[0])?.dot(&r.g(x[1])?))
        }
        "GProjDim" => {
            need(2)?;
            Val::F(r.g(x[0])?.project_to_dimension(r.u(x[1])?))
        }
        "GWedge" => {
            need(2)?;
            Val::G(r.g(x[0])?.wedge(&r.g(x[1])?))
        }
        "GGeo" => {
            need(2)?;
            Val::G(r.g(x[0])?.geo(&r.g(x[1])?))
        }
        "GRotate" => {
            need(2)?;
            Val::G(r.g(x[0])?.rotate(r.a(x[1])?))
        }
        "GReflect" => {
            need(2)?;
            Val::G(r.g(x[0])?.reflect(&r.g(x[1])?))
        }
        "GProject" => {
            need(2)?;
            Val::G(r.g(x[0])?.project(&r.g(x[1])?))
        }
        "GReject" => {
            need(2)?;
            Val::G(r.g(x[0])?.reject(&r.g(x[1])?))
        }
        "GIsOrth" => {
            need(2)?;
            Val::B(r.g(x[0])?.is_orthogonal(&r.g(x[1])?))
        }
        "GMagDiff" => {
            need(2)?;
            Val::F(r.g(x[0])?.mag_diff(&r.g(x[1])?))
        }
        "GPow" => {
            need(2)?;
            Val::G(r.g(x[0])?.pow(r.f(x[1])?))
        }
        "GMeet" => {
            need(2)?;
            Val::G(r.g(x[0])?.meet(&r.g(x[1])?))
        }
        "GMag" => {
            need(1)?;
            Val::F(r.g(x[0])?.mag())
        }
        "GAngle" => {
            need(1)?;
            Val::A(r.g(x[0])?.angle())
        }
        "GScale" => {
            need(2)?;
            Val::G(r.g(x[0])?.scale(r.f(x[1])?))
        }
        "GInvCircle" => {
            need(3)?;
            Val::G(r.g(x[0])?.invert_circle(&r.g(x[1])?, r.f(x[2])?))
        }
        "GScaleRotate" => {
            need(3)?;
            Val::G(r.g(x[0])?.scale_rotate(r.f(x[1])?, r.a(x[2])?))
        }
        "GDist" => {
            need(2)?;
            Val::G(r.g(x[0])?.distance_to(&r.g(x[1])?))
        }
        "GAdj" => {
            need(1)?;
            Val::G(r.g(x[0])?.adj())
        }
        "GOpp" => {
            need(1)?;
            Val::G(r.g(x[0])?.opp())
        }
        "GCos" => {
            need(1)?;
            Val::G(Geonum::cos(r.a(x[0])?))
        }
        "GSin" => {
            need(1)?;
            Val::G(Geonum::sin(r.a(x[0])?))
        }
        "GTan" => {
            need(1)?;
            Val::G(Geonum::tan(r.a(x[0])?))
        }
        "GProjAngle" => {
            need(2)?;
            Val::G(r.g(x[0])?.project_to_angle(r.a(x[1])?))
        }
        "GAdd" => {
            need(3)?;
            Val::G(spell!(x[0], r.g(x[1])?, r.g(x[2])?, +))
        }
        "GSub" => {
            need(3)?;
            Val::G(spell!(x[0], r.g(x[1])?, r.g(x[2])?, -))
        }
        "GMul" => {
            need(3)?;
            Val::G(spell!(x[0], r.g(x[1])?, r.g(x[2])?, *))
        }
        "GDiv" => {
            need(3)?;
            Val::G(spell!(x[0], r.g(x[1])?, r.g(x[2])?, /))
        }
        "AMulG" => {
            need(3)?;
            let (a, g) = (r.a(x[1])?, r.g(x[2])?);
            Val::G(match x[0] {
                0 => a * g,
                1 => a * &g,
                _ => return Err(Bad),
            })
        }
        "AAddG" => {
            need(3)?;
            let (a, g) = (r.a(x[1])?, r.g(x[2])?);
            Val::G(match x[0] {
                0 => a + g,
                1 => a + &g,
                _ => return Err(Bad),
            })
        }
        "GEq" => {
            need(2)?;
            Val::B(r.g(x[0])? == r.g(x[1])?)
        }
        "GNe" => {
            need(2)?;
            Val::B(r.g(x[0])? != r.g(x[1])?)
        }
        "GCmp" => {
            need(2)?;
            Val::O(Some(r.g(x[0])?.cmp(&r.g(x[1])?)))
        }
        "GPartialCmp" => {
            need(2)?;
            Val::O(r.g(x[0])?.partial_cmp(&r.g(x[1])?))
        }
        "GRel" => {
            need(3)?;
            Val::B(rel(x[0], &r.g(x[1])?, &r.g(x[2])?)?)
        }
        // ---------------- GeoCollection ----------------
        "CNew" => {
            need(0)?;
            Val::C(GeoCollection::new().objects)
        }
        "CDefault" => {
            need(0)?;
            Val::C(GeoCollection::default().objects)
        }
        "CFrom" => Val::C(GeoCollection::from(r.gs(x)?).objects),
        "CFromIter" => Val::C(r.gs(x)?.into_iter().collect::<GeoCollection>().objects),
        "CLen" => {
            need(1)?;
            Val::U(coll(r.c(x[0])?).len())
        }
        "CIsEmpty" => {
            need(1)?;
            Val::B(coll(r.c(x[0])?).is_empty())
        }
        "CIter" => {
            need(1)?;
            Val::C(coll(r.c(x[0])?).iter().cloned().collect())
        }
        "CIndex" => {
            need(2)?;
            let c = coll(r.c(x[0])?);
            Val::G(c[r.u(x[1])?])
        }
        "CIntoIter" => {
            need(1)?;
            Val::C(coll(r.c(x[0])?).into_iter().collect())
        }
        "CIntoIterRef" => {
            need(1)?;
            let c = coll(r.c(x[0])?);
            Val::C((&c).into_iter().cloned().collect())
        }
        "CAsRefVec" => {
            need(1)?;
            let c = coll(r.c(x[0])?);
            let v: &Vec<Geonum> = c.as_ref();
            Val::C(v.clone())
        }
        "CAsRefSlice" => {
            need(1)?;
            let c = coll(r.c(x[0])?);
            let v: &[Geonum] = c.as_ref();
            Val::C(v.to_vec())
        }
        "CTruncate" => {
            need(2)?;
            Val::C(coll(r.c(x[0])?).truncate(r.f(x[1])?).objects)
        }
        "CCone" => {
            need(3)?;
            Val::C(coll(r.c(x[0])?).select_cone(&r.g(x[1])?, r.f(x[2])?).objects)
        }
        "CTotal" => {
            need(1)?;
            Val::F(coll(r.c(x[0])?).total_magnitude())
        }
        "CDominant" => {
            need(1)?;
            Val::OG(coll(r.c(x[0])?).dominant().copied())
        }
        "CScaleAll" => {
            need(2)?;
            Val::C(coll(r.c(x[0])?).scale_all(r.f(x[1])?).objects)
        }
        "CRotateAll" => {
            need(2)?;
            Val::C(coll(r.c(x[0])?).rotate_all(r.a(x[1])?).objects)
        }
        "CSort" => {
            need(1)?;
            let mut v = r.c(x[0])?;
            v.sort();
            Val::C(v)
        }
        // ---------------- traits ----------------
        "TTranslate" => {
            need(2)?;
            Val::G(r.g(x[0])?.translate(&r.g(x[1])?))
        }
        "TShear" => {
            need(2)?;
            Val::G(r.g(x[0])?.shear(r.a(x[1])?))
        }
        "TArea" => {
            need(4)?;
            Val::F(Geonum::area_quadrilateral(
                &r.g(x[0])?,
                &r.g(x[1])?,
                &r.g(x[2])?,
                &r.g(x[3])?,
            ))
        }
        "TView" => {
            need(2)?;
            let data = r.a(x[1])?;
            Val::G(r.g(x[0])?.view(&data, enc_angle))
        }
        "TCompose" => {
            need(2)?;
            Val::G(r.g(x[0])?.compose(&r.g(x[1])?))
        }
        "TRefract" => {
            need(2)?;
            Val::G(r.g(x[0])?.refract(r.g(x[1])?))
        }
        "TAberrate" => {
            if n < 1 {
                return Err(Bad);
            }
            let z = r.gs(&x[1..])?;
            Val::G(r.g(x[0])?.aberrate(&z))
        }
        "TOtf" => {
            need(3)?;
            Val::G(r.g(x[0])?.otf(r.g(x[1])?, r.g(x[2])?))
        }
        "TAbcd" => {
            need(5)?;
            Val::G(r.g(x[0])?.abcd_transform(r.g(x[1])?, r.g(x[2])?, r.g(x[3])?, r.g(x[4])?))
        }
        "TMagnify" => {
            need(2)?;
            Val::G(r.g(x[0])?.magnify(r.g(x[1])?))
        }
        "TInvField" => {
            need(5)?;
            Val::G(<Geonum as Electromagnetics>::inverse_field(
                r.g(x[0])?,
                r.g(x[1])?,
                r.g(x[2])?,
                r.a(x[3])?,
                r.g(x[4])?,
            ))
        }
        "TEPot" => {
            need(2)?;
            Val::G(<Geonum as Electromagnetics>::electric_potential(r.g(x[0])?, r.g(x[1])?))
        }
        "TEField" => {
            need(2)?;
            Val::G(<Geonum as Electromagnetics>::electric_field(r.g(x[0])?, r.g(x[1])?))
        }
        "TPoynting" => {
            need(2)?;
            Val::G(r.g(x[0])?.poynting_vector(&r.g(x[1])?))
        }
        "TWireA" => {
            need(3)?;
            Val::G(<Geonum as Electromagnetics>::wire_vector_potential(
                r.g(x[0])?,
                r.g(x[1])?,
                r.g(x[2])?,
            ))
        }
        "TWireB" => {
            need(3)?;
            Val::G(<Geonum as Electromagnetics>::wire_magnetic_field(
                r.g(x[0])?,
                r.g(x[1])?,
                r.g(x[2])?,
            ))
        }
        "TSphWave" => {
            need(4)?;
            Val::G(<Geonum as Electromagnetics>::spherical_wave_potential(
                r.g(x[0])?,
                r.g(x[1])?,
                r.g(x[2])?,
                r.g(x[3])?,
            ))
        }
        "TConst" => {
            need(1)?;
            use geonum::traits::electromagnetics as em;
            Val::F(match x[0] {
                0 => em::SPEED_OF_LIGHT,
                1 => em::VACUUM_PERMEABILITY,
                2 => em::VACUUM_PERMITTIVITY,
                3 => em::VACUUM_IMPEDANCE,
                4 => geonum::EPSILON,
                _ => return Err(Bad),
            })
        }
        "TPropagate" => {
            need(4)?;
            Val::G(r.g(x[0])?.propagate(r.g(x[1])?, r.g(x[2])?, r.g(x[3])?))
        }
        "TDisperse" => {
            need(4)?;
            Val::G(<Geonum as Waves>::disperse(r.g(x[0])?, r.g(x[1])?, r.g(x[2])?, r.g(x[3])?))
        }
        "TFreq" => {
            need(3)?;
            Val::G(r.g(x[0])?.frequency(&r.g(x[1])?, r.g(x[2])?))
        }
        "TWavenum" => {
            need(3)?;
            Val::G(r.g(x[0])?.wavenumber(&r.g(x[1])?, r.g(x[2])?))
        }
        "TRegression" => {
            need(2)?;
            Val::G(<Geonum as MachineLearning>::regression_from(r.f(x[0])?, r.f(x[1])?))
        }
        "TPerceptron" => {
            need(4)?;
            Val::G(r.g(x[0])?.perceptron_update(r.f(x[1])?, r.f(x[2])?, &r.g(x[3])?))
        }
        "TForward" => {
            need(3)?;
            Val::G(r.g(x[0])?.forward_pass(&r.g(x[1])?, &r.g(x[2])?))
        }
        "TActivate" => {
            need(2)?;
            let act = match x[0] {
                0 => Activation::ReLU,
                1 => Activation::Sigmoid,
                2 => Activation::Tanh,
                3 => Activation::Identity,
                _ => return Err(Bad),
            };
            Val::G(r.g(x[1])?.activate(act))
        }
        _ => return Err(Bad),
    })
}

fn run_line(line: &str, out: &mut String) {
    let mut parts = line.split(';');
    let id = parts.next().unwrap_or("");
    out.push_str(id);
    libmrec::clear();
    let mut regs = Regs(Vec::new());
    for ins in parts {
        let mut toks = ins.split_whitespace();
        let op = match toks.next() {
            Some(o) => o,
            None => continue,
        };
        let args: Vec<u64> = toks.map(|t| t.parse::<u64>().unwrap_or(u64::MAX)).collect();
        let v = match catch_unwind(AssertUnwindSafe(|| step(&regs, op, &args))) {
            Ok(Ok(v)) => v,
            Ok(Err(Bad)) => Val::Err,
            Err(_) => Val::Panic,
        };
        out.push(';');
        ser(&v, out);
        regs.0.push(v);
    }
    out.push('|');
    libmrec::dump(out);
    out.push('\n');
}

fn main() {
    std::panic::set_hook(Box::new(|_| {}));
    libmrec::init();
    let stdin = std::io::stdin();
    let stdout = std::io::stdout();
    let mut w = std::io::BufWriter::new(stdout.lock());
    let mut out = String::new();
    for line in stdin.lock().lines() {
        let line = line.unwrap();
        if line.trim().is_empty() {
            continue;
        }
        out.clear();
        run_line(&line, &mut out);
        w.write_all(out.as_bytes()).unwrap();
    }
    let st = libmrec::stats();
    eprintln!("libm_calls={} sincos_mismatch={}", st.0, st.1);
}
