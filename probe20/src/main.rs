// probe20: a fixed battery of core and helper computations, built against geonum with
// default features off and one chosen subset of the six optional features on.
// prints one digest line per group: "core <hex>", "<feature> <hex>".
use geonum::{Angle, GeoCollection, Geonum};

fn fb(x: f64) -> u64 {
    if x.is_nan() { 0x7FF8000000000000 } else { x.to_bits() }
}
struct D(u64);
impl D {
    fn new() -> Self { D(0xcbf29ce484222325) }
    fn u(&mut self, x: u64) {
        for b in x.to_le_bytes() { self.0 ^= b as u64; self.0 = self.0.wrapping_mul(0x100000001b3); }
    }
    fn f(&mut self, x: f64) { self.u(fb(x)) }
    fn a(&mut self, a: Angle) { self.f(a.rem()); self.u(a.blade() as u64) }
    fn g(&mut self, g: Geonum) { self.f(g.mag); self.a(g.angle) }
}

fn samples() -> Vec<Geonum> {
    let mut v = Vec::new();
    let mags = [0.0, 1.0, 2.5, 1e-100, 1e100, 3.0000000000000004];
    let pds = [(0.0, 1.0), (1.0, 4.0), (3.0, 4.0), (19.0, 1.0), (-5.0, 2.0), (-49980.0, 3.0), (1.0, 7.0), (2.0, 3.0), (7.0, 2.0), (1.3, std::f64::consts::PI)];
    for (i, m) in mags.iter().enumerate() {
        for (j, (p, d)) in pds.iter().enumerate() {
            if (i + j) % 2 == 0 { v.push(Geonum::new(*m, *p, *d)); }
            else { v.push(Geonum::new_with_blade(*m, 1000 * i + j, *p, *d)); }
        }
    }
    v
}
// helper batteries use moderate magnitudes only (physical domains of the helpers)
fn hsamples() -> Vec<Geonum> {
    samples().into_iter().filter(|g| g.mag > 0.5 && g.mag < 10.0).collect()
}

fn core_digest() -> u64 {
    let s = samples();
    let mut d = D::new();
    for (i, a) in s.iter().enumerate() {
        let b = &s[(i * 7 + 3) % s.len()];
        d.g(*a + *b); d.g(a - b); d.g(*a * *b); d.g(a.dot(b)); d.g(a.wedge(b)); d.g(a.geo(b)); d.g(a.meet(b));
        d.g(a.project(b)); d.g(a.reject(b)); d.g(a.reflect(b)); d.g(a.distance_to(b)); d.f(a.mag_diff(b));
        d.g(a.rotate(b.angle)); d.g(a.negate()); d.g(a.dual()); d.g(a.differentiate()); d.g(a.integrate());
        d.g(a.base_angle()); d.g(a.scale(-2.5)); d.g(a.scale_rotate(-0.5, b.angle)); d.g(a.adj()); d.g(a.opp());
        d.g(Geonum::cos(a.angle)); d.g(Geonum::sin(a.angle)); d.g(a.project_to_angle(b.angle));
        d.f(a.project_to_dimension(i + 3)); d.f(a.angle.grade_angle()); d.f(a.angle.project(b.angle));
        d.a(a.angle - b.angle); d.a(a.angle / 3.0); d.u((a == b) as u64); d.u(a.cmp(b) as i8 as u64);
        d.u(a.is_orthogonal(b) as u64); d.u(a.angle.is_opposite(&b.angle) as u64);
        if a.mag != 0.0 { d.g(a.inv()); d.g(a.normalize()); d.g(*b / *a); d.g(a.pow(1.5)); }
        d.g(Geonum::new_from_cartesian(a.mag.min(3.0) - 1.0, 0.5 - i as f64));
    }
    // threshold battery: operands straddling every tolerance of the core (1e-10 cancellation / guard /
    // orthogonality / boundary snap, 1e-15 equality) at several distances from it, so that a tolerance that
    // depends on a feature flag changes the digest
    let q = std::f64::consts::FRAC_PI_2;
    for (k, dm) in [1e-9, 2e-10, 5e-11, 2e-11, 1e-12, 1e-13, 1e-14, 1e-16].iter().enumerate() {
        for base in [1.0, 1e-3, 250.0] {
            let a = Geonum::new_with_blade(base + dm, 1 + k, 1.0, 6.0);
            let b = Geonum::new_with_blade(base, 3 + k, 1.0, 6.0);           // exactly a half turn apart
            d.g(a + b); d.g(b + a); d.g(a - b.negate()); d.g(&a + &b);
            let t = Geonum::new(*dm * base, 1.0, 5.0);                         // very short projection target
            d.g(a.project(&t)); d.g(a.reject(&t)); d.u(a.is_orthogonal(&t) as u64); d.g(a.dot(&t)); d.g(a.wedge(&t));
            let e1 = Angle::new(1.0, 7.0); let e2 = e1 + Angle::new(*dm, std::f64::consts::PI);
            d.u((e1 == e2) as u64); d.u(e1.cmp(&e2) as i8 as u64); d.a(e2 - e1); d.a(e1 - e2);
            let nb = Angle::new(q - dm, std::f64::consts::PI); d.a(nb); d.a(nb + e1); d.a(nb + nb); d.a(Angle::new(q + dm, std::f64::consts::PI));
            let g1 = Geonum::new_with_angle(base, e1); let g2 = Geonum::new_with_angle(base + dm, e2);
            d.g(g1 + g2); d.g(g1.distance_to(&g2)); d.u((g1 == g2) as u64);
            if *dm * base > 0.0 { d.g(a.invert_circle(&b, base)); }
        }
    }
    // large magnitudes a few ulps apart on exactly opposite angles (a relative cancellation tolerance would show here)
    for base in [2.6e5f64, 3.0e5, 1.0e8, 123456789.0] {
        for k in 1u64..=7 {
            let hi = f64::from_bits(base.to_bits() + k);
            let a = Geonum::new_with_blade(hi, 1, 1.0, 6.0);
            let b = Geonum::new_with_blade(base, 3, 1.0, 6.0);
            d.g(a + b); d.g(b + a); d.g(&a - &b.negate()); d.g(a.reject(&b)); d.g(a.distance_to(&b));
        }
    }
    let c = GeoCollection::from(s.clone());
    d.f(c.total_magnitude());
    if let Some(g) = c.dominant() { d.g(*g); }
    for g in c.truncate(1.0).iter() { d.g(*g); }
    for g in c.select_cone(&s[3], 1.0).iter() { d.g(*g); }
    for g in c.scale_all(2.0).iter() { d.g(*g); }
    for g in c.rotate_all(Angle::new(1.0, 3.0)).iter() { d.g(*g); }
    let mut v = s.clone(); v.retain(|g| g.mag.is_finite()); v.sort();
    for g in v { d.g(g); }
    d.0
}

#[cfg(any(feature = "optics", feature = "all"))]
fn optics_digest() -> u64 {
    use geonum::traits::Optics as _;
    use geonum::Optics as _;
    let s = hsamples(); let mut d = D::new();
    for (i, a) in s.iter().enumerate() {
        let b = &s[(i * 5 + 1) % s.len()];
        d.g(a.refract(Geonum::scalar(1.5))); d.g(a.aberrate(&[*b, s[i % 7]])); d.g(a.otf(Geonum::scalar(2.0), Geonum::scalar(0.5)));
        d.g(a.abcd_transform(Geonum::scalar(1.0), Geonum::scalar(0.5), Geonum::scalar(0.25), Geonum::scalar(2.0))); d.g(a.magnify(Geonum::scalar(2.0)));
    }
    d.0
}
#[cfg(any(feature = "projection", feature = "all"))]
fn projection_digest() -> u64 {
    use geonum::traits::Projection as _;
    use geonum::Projection as _;
    let s = hsamples(); let mut d = D::new();
    for (i, a) in s.iter().enumerate() {
        let b = &s[(i * 5 + 1) % s.len()];
        d.g(a.view(&b.angle, |x: &Angle| *x)); d.g(a.compose(b));
    }
    d.0
}
#[cfg(any(feature = "ml", feature = "all"))]
fn ml_digest() -> u64 {
    use geonum::traits::MachineLearning as _;
    use geonum::{Activation, MachineLearning as _};
    let s = hsamples(); let mut d = D::new();
    for (i, a) in s.iter().enumerate() {
        let b = &s[(i * 5 + 1) % s.len()];
        d.g(a.forward_pass(b, &s[i % 5])); d.g(a.perceptron_update(0.1, -0.5, b));
        for act in [Activation::ReLU, Activation::Sigmoid, Activation::Tanh, Activation::Identity] { d.g(a.activate(act)); }
        d.g(<Geonum as geonum::MachineLearning>::regression_from(1.5 - i as f64, 2.0));
    }
    d.0
}
#[cfg(any(feature = "em", feature = "all"))]
fn em_digest() -> u64 {
    use geonum::traits::Electromagnetics as _;
    use geonum::Electromagnetics;
    use geonum::traits::electromagnetics::{SPEED_OF_LIGHT, VACUUM_IMPEDANCE, VACUUM_PERMEABILITY, VACUUM_PERMITTIVITY};
    let s = hsamples(); let mut d = D::new();
    d.f(SPEED_OF_LIGHT); d.f(VACUUM_IMPEDANCE); d.f(VACUUM_PERMEABILITY); d.f(VACUUM_PERMITTIVITY);
    for (i, a) in s.iter().enumerate() {
        let b = &s[(i * 5 + 1) % s.len()];
        let r = Geonum::new(2.0 + i as f64, 1.0, 5.0);
        d.g(<Geonum as Electromagnetics>::inverse_field(*a, r, Geonum::scalar(2.0), b.angle, Geonum::scalar(3.0)));
        d.g(<Geonum as Electromagnetics>::electric_potential(*a, r)); d.g(<Geonum as Electromagnetics>::electric_field(*a, r));
        d.g(a.poynting_vector(b)); d.g(<Geonum as Electromagnetics>::wire_vector_potential(r, *a, Geonum::scalar(1e-6)));
        d.g(<Geonum as Electromagnetics>::wire_magnetic_field(r, *a, Geonum::scalar(1e-6)));
        d.g(<Geonum as Electromagnetics>::spherical_wave_potential(r, Geonum::scalar(0.5), Geonum::scalar(2.0), Geonum::scalar(3.0)));
    }
    d.0
}
#[cfg(any(feature = "waves", feature = "all"))]
fn waves_digest() -> u64 {
    use geonum::traits::Waves as _;
    use geonum::Waves;
    let s = hsamples(); let mut d = D::new();
    for (i, a) in s.iter().enumerate() {
        let b = &s[(i * 5 + 1) % s.len()]; let c = &s[(i * 3 + 2) % s.len()];
        d.g(a.propagate(*b, *c, s[i % 11])); d.g(<Geonum as Waves>::disperse(*a, *b, *c, s[i % 11]));
        d.g(a.frequency(b, Geonum::scalar(2.0))); d.g(a.wavenumber(b, Geonum::scalar(0.5)));
    }
    d.0
}
#[cfg(any(feature = "affine", feature = "all"))]
fn affine_digest() -> u64 {
    use geonum::traits::Affine;
    let s = hsamples(); let mut d = D::new();
    for (i, a) in s.iter().enumerate() {
        let b = &s[(i * 5 + 1) % s.len()]; let c = &s[(i * 3 + 2) % s.len()];
        d.g(a.translate(b)); d.g(a.shear(b.angle)); d.f(<Geonum as Affine>::area_quadrilateral(a, b, c, &s[i % 11]));
    }
    d.0
}

// negative probes: each must FAIL to compile when the corresponding geonum feature is off
#[cfg(feature = "neg_optics")]
fn neg() { use geonum::traits::Optics; let _ = Geonum::scalar(1.0).magnify(Geonum::scalar(2.0)); }
#[cfg(feature = "neg_projection")]
fn neg() { use geonum::traits::Projection; let _ = Geonum::scalar(1.0).compose(&Geonum::scalar(2.0)); }
#[cfg(feature = "neg_ml")]
fn neg() { use geonum::traits::MachineLearning; let _ = Geonum::scalar(1.0).forward_pass(&Geonum::scalar(2.0), &Geonum::scalar(2.0)); }
#[cfg(feature = "neg_em")]
fn neg() { use geonum::traits::Electromagnetics; let _ = Geonum::scalar(1.0).poynting_vector(&Geonum::scalar(2.0)); }
#[cfg(feature = "neg_waves")]
fn neg() { use geonum::traits::Waves; let _ = Geonum::scalar(1.0).frequency(&Geonum::scalar(2.0), Geonum::scalar(2.0)); }
#[cfg(feature = "neg_affine")]
fn neg() { use geonum::traits::Affine; let _ = Geonum::scalar(1.0).translate(&Geonum::scalar(2.0)); }

fn main() {
    println!("core {:016x}", core_digest());
    #[cfg(any(feature = "optics", feature = "all"))] println!("optics {:016x}", optics_digest());
    #[cfg(any(feature = "projection", feature = "all"))] println!("projection {:016x}", projection_digest());
    #[cfg(any(feature = "ml", feature = "all"))] println!("ml {:016x}", ml_digest());
    #[cfg(any(feature = "em", feature = "all"))] println!("em {:016x}", em_digest());
    #[cfg(any(feature = "waves", feature = "all"))] println!("waves {:016x}", waves_digest());
    #[cfg(any(feature = "affine", feature = "all"))] println!("affine {:016x}", affine_digest());
    #[cfg(any(feature = "neg_optics", feature = "neg_projection", feature = "neg_ml", feature = "neg_em", feature = "neg_waves", feature = "neg_affine"))]
    neg();
}
