#!/bin/bash
# one-off build after a fresh restore (offline): Coq development + harness (both profiles)
set -e
cd "$(dirname "$0")"
export CARGO_NET_OFFLINE=true
mkdir -p .work coq/gen evidence replays
PY=python3-vt; command -v $PY >/dev/null 2>&1 || PY=python3
$PY - <<'PYEOF'
import sys, subprocess; sys.path.insert(0, 'tools')
from gv import proofs, runner
subprocess.run([sys.executable, 'tools/cfg2coq.py', '/repo', 'coq/gen/FeaturesGen.v'], check=True)
proofs.ensure_makefile()
ok, log, dt = proofs.make([], timeout=3400)
print('coq build ok=%s in %.0fs' % (ok, dt))
if not ok:
    print(log); sys.exit(1)
print('harness debug %.0fs release %.0fs' % (runner.build('debug'), runner.build('release')))
PYEOF
