#!/usr/bin/env python3
"""(development-time) lists every `pub fn` and operator / std trait impl of /repo/src/{angle,geonum_mod,geocollection}.rs
and src/traits/*.rs and says whether the harness executor (harness/src/main.rs) calls it; prints a markdown table."""
import re, os, glob
V = os.path.dirname(os.path.dirname(os.path.abspath(__file__)))
h = open(os.path.join(V, 'harness/src/main.rs')).read()
rows = []
for f in ['src/angle.rs', 'src/geonum_mod.rs', 'src/geocollection.rs'] + sorted(glob.glob('/repo/src/traits/*.rs')):
    p = f if f.startswith('/') else os.path.join('/repo', f)
    s = open(p).read()
    s = s.split('#[cfg(test)]')[0]
    names = sorted(set(re.findall(r'^\s*(?:pub )?fn (\w+)', s, re.M)))
    impls = sorted(set(re.findall(r'^impl(?:<[^>]*>)? (?:std::ops::|std::cmp::|std::convert::|std::iter::|std::fmt::|core::ops::)?(\w+)(?:<[^>]*>)? for (&?\w+)', s, re.M)))
    called, missing = [], []
    for n in names:
        if re.search(r'[.:]%s\(' % re.escape(n), h): called.append(n)
        else: missing.append(n)
    rows.append((os.path.relpath(p, '/repo'), len(names), called, missing, impls))
print('| file | fns | not called by name from the executor | trait impls present |')
print('|---|---|---|---|')
for f, n, called, missing, impls in rows:
    print('| %s | %d | %s | %s |' % (f, n, ', '.join(missing) or '-', ', '.join(sorted(set(a for a, b in impls)))))
