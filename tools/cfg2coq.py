#!/usr/bin/env python3
"""cfg2coq: translator from the crate's configuration structure to a Coq model (property C20).
Reads /repo/Cargo.toml ([features]) and every src/**/*.rs (cfg attributes, cfg! macros, module
declarations, re-exports, trait / impl items, cross-module references) and writes
coq/gen/FeaturesGen.v.  Regenerated on every run of the C20 check; the theorems of
coq/theories/Features.v are re-checked against what the source says now."""
import os, re, sys, json

def strip_comments(s):
    out, i, n = [], 0, len(s)
    while i < n:
        if s.startswith('//', i):
            j = s.find('\n', i)
            i = n if j < 0 else j
        elif s.startswith('/*', i):
            j = s.find('*/', i + 2)
            i = n if j < 0 else j + 2
        elif s[i] == '"':
            j = i + 1
            while j < n and s[j] != '"':
                j += 2 if s[j] == '\\' else 1
            out.append('""'); i = j + 1
        else:
            out.append(s[i]); i += 1
    return ''.join(out)

def parse_features(cargo_toml):
    feats, in_f = {}, False
    for line in open(cargo_toml):
        l = line.strip()
        if l.startswith('['):
            in_f = (l == '[features]')
            continue
        if in_f and '=' in l:
            k, _, v = l.partition('=')
            feats[k.strip()] = re.findall(r'"([^"]+)"', v)
    return feats

CFG_RE = re.compile(r'#\s*\[\s*cfg\s*\((.*)\)\s*\]\s*$')

def parse_cfg(expr):
    """cfg expression -> nested tuple"""
    expr = expr.strip()
    m = re.match(r'^feature\s*=\s*""$', expr)
    if m: return ('featq',)
    m = re.match(r'^(all|any|not)\s*\((.*)\)$', expr, re.S)
    if m:
        parts, depth, cur = [], 0, ''
        for ch in m.group(2):
            if ch == '(': depth += 1
            if ch == ')': depth -= 1
            if ch == ',' and depth == 0:
                parts.append(cur); cur = ''
            else:
                cur += ch
        if cur.strip(): parts.append(cur)
        return (m.group(1), [parse_cfg(p) for p in parts])
    if expr == 'test': return ('test',)
    return ('other', expr)

def cfg_features(raw):
    return re.findall(r'feature\s*=\s*"([^"]+)"', raw)

def scan_file(path, rel):
    """returns items [(kind, name, gates(list of raw cfg strings), depth, line)], inline cfg uses, text"""
    raw = open(path).read()
    # keep feature names inside cfg attributes: strip comments but not strings for attribute lines
    lines_raw = raw.splitlines()
    txt = strip_comments(raw)
    lines = txt.splitlines()
    items, inline = [], []
    depth = 0
    pending = []
    gate_stack = []      # (depth at which the gated block opened, raw cfg)
    for ln, line in enumerate(lines):
        rawline = lines_raw[ln] if ln < len(lines_raw) else line
        s = line.strip()
        mcfg = re.match(r'#\s*!?\s*\[\s*cfg\s*\((.*)\)\s*\]', rawline.strip())
        if mcfg:
            pending.append(mcfg.group(1))
            if rawline.strip().startswith('#!'):
                items.append(('inner_cfg', rel, [mcfg.group(1)], depth, ln + 1))
            continue
        for m in re.finditer(r'\bcfg!\s*\((.*?)\)', rawline):
            inline.append((rel, ln + 1, m.group(1), depth))
        if re.search(r'#\s*\[\s*cfg_attr', rawline):
            inline.append((rel, ln + 1, 'cfg_attr', depth))
        if s and not s.startswith('#'):
            enclosing = [g for _, g in gate_stack]
            gates = enclosing + pending
            kind = name = None
            m = re.match(r'(pub(\([^)]*\))?\s+)?mod\s+(\w+)\s*(;|\{)', s)
            if m: kind, name = 'mod', m.group(3)
            m2 = re.match(r'pub\s+use\s+(.+?);', s)
            if m2: kind, name = 'reexport', m2.group(1)
            m3 = re.match(r'(pub\s+)?trait\s+(\w+)', s)
            if m3: kind, name = 'trait', m3.group(2)
            m4 = re.match(r'impl(<[^>]*>)?\s+([\w:<>&\' ]+?)\s+for\s+([\w&\' ]+)', s)
            if m4: kind, name = 'impl', m4.group(2).strip() + ' for ' + m4.group(3).strip()
            elif re.match(r'impl(<[^>]*>)?\s+(\w+)\s*\{', s):
                kind, name = 'inherent', re.match(r'impl(<[^>]*>)?\s+(\w+)', s).group(2)
            m5 = re.match(r'(pub(\([^)]*\))?\s+)?(const|fn|struct|enum|static|type)\s+(\w+)', s)
            if m5 and kind is None: kind, name = m5.group(3), m5.group(4)
            m6 = re.match(r'use\s+(.+?);', s)
            if m6 and kind is None: kind, name = 'use', m6.group(1)
            if kind:
                items.append((kind, name, gates, depth, ln + 1))
            elif pending:
                items.append(('stmt', s[:40], gates, depth, ln + 1))
            if pending and '{' in s and s.count('{') > s.count('}'):
                gate_stack.append((depth, ' && '.join(pending) if len(pending) > 1 else pending[0]))
            pending = []
        depth += s.count('{') - s.count('}')
        while gate_stack and depth <= gate_stack[-1][0]:
            gate_stack.pop()
    return items, inline, txt

def coq_cfg(raw, feats):
    t = parse_cfg_expr(raw)
    return render(t, feats)

def parse_cfg_expr(raw):
    raw = raw.strip()
    m = re.match(r'^feature\s*=\s*"([^"]+)"$', raw)
    if m: return ('feat', m.group(1))
    if raw == 'test': return ('test',)
    m = re.match(r'^(all|any|not)\s*\((.*)\)$', raw, re.S)
    if m:
        parts, depth, cur = [], 0, ''
        for ch in m.group(2):
            if ch == '(': depth += 1
            if ch == ')': depth -= 1
            if ch == ',' and depth == 0:
                parts.append(cur); cur = ''
            else:
                cur += ch
        if cur.strip(): parts.append(cur)
        return (m.group(1), [parse_cfg_expr(p) for p in parts])
    return ('other', raw)

def render(t, feats):
    k = t[0]
    if k == 'feat':
        return '(CFeat F_%s)' % t[1] if t[1] in feats else '(COther "%s")' % t[1]
    if k == 'test': return 'CTest'
    if k == 'not': return '(CNot %s)' % render(t[1][0], feats)
    if k in ('all', 'any'):
        return '(%s [%s])' % ('CAll' if k == 'all' else 'CAny', '; '.join(render(x, feats) for x in t[1]))
    return '(COther "%s")' % re.sub(r'[^\w =]', '_', t[1])

def main(repo, out):
    feats_all = parse_features(os.path.join(repo, 'Cargo.toml'))
    optional = [f for f in feats_all if f not in ('default', 'all')]
    src = os.path.join(repo, 'src')
    files = []
    for dp, _, fns in os.walk(src):
        for fn in sorted(fns):
            if fn.endswith('.rs'):
                files.append(os.path.join(dp, fn))
    files.sort()
    CORE = {'angle.rs', 'geonum_mod.rs', 'geocollection.rs'}
    # module -> feature gate from traits/mod.rs, lib.rs
    recs = []      # (name, file, gate_cfgs(list raw), refs(list names), core(bool), kind)
    texts = {}
    scans = {}
    for f in files:
        rel = os.path.relpath(f, src)
        items, inline, txt = scan_file(f, rel)
        scans[rel] = (items, inline)
        texts[rel] = txt
    # module gates
    modgate = {}
    for rel in ('traits/mod.rs', 'lib.rs'):
        if rel not in scans: continue
        for kind, name, gates, depth, ln in scans[rel][0]:
            if kind == 'mod' and depth == 0:
                prefix = 'traits::' if rel.startswith('traits') else ''
                modgate[prefix + name] = gates
    trait_of_mod, mod_of_file = {}, {}
    for rel in scans:
        if rel.startswith('traits/') and rel != 'traits/mod.rs':
            mod_of_file[rel] = 'traits::' + os.path.basename(rel)[:-3]
    names = set()
    for rel, (items, inline) in scans.items():
        base = os.path.basename(rel)
        is_core = base in CORE
        filegate = modgate.get(mod_of_file.get(rel, ''), []) if rel in mod_of_file else []
        in_test = False
        for kind, name, gates, depth, ln in items:
            allg = list(filegate) + list(gates)
            if any(parse_cfg_expr(g) == ('test',) for g in allg):
                continue                                            # test-only code is out of scope
            if kind == 'mod':
                prefix = 'traits::' if rel.startswith('traits') else ''
                recs.append(('mod:' + prefix + name, rel, allg, [], is_core, 'mod'))
            elif kind == 'reexport':
                path = name.replace(' ', '')
                ids = re.findall(r'\w+', path)
                prefix = 'traits' if rel.startswith('traits') else 'crate'
                first = ids[0]
                targets = ids[1:] if not path.endswith('}') else re.findall(r'\w+', path[path.index('{'):])
                for tname in targets:
                    refs = []
                    if prefix == 'traits':
                        refs = ['mod:traits::' + first, 'def:' + tname]
                    else:
                        if first == 'traits': refs = ['reexport:traits::' + tname]
                        else: refs = ['mod:' + first, 'def:' + tname]
                    recs.append(('reexport:%s::%s' % (prefix, tname), rel, allg, refs, is_core, 'reexport'))
            elif kind in ('trait', 'struct', 'enum', 'const', 'static', 'type') and depth == 0:
                recs.append(('def:' + name, rel, allg, [], is_core, kind))
            elif kind == 'impl' and depth == 0:
                tr, _, ty = name.partition(' for ')
                tr0 = re.findall(r'\w+', tr)
                refs = ['def:' + ty.strip('& ').split('<')[0]]
                if tr0 and ('def:' + tr0[0]) : refs.append('def:' + tr0[-1] if tr0[0] in ('std', 'core') else 'def:' + tr0[0])
                recs.append(('impl:' + name, rel, allg, refs, is_core, 'impl'))
            elif kind == 'fn':
                if gates:                                           # a cfg-gated function (any depth)
                    recs.append(('fn:%s@%s:%d' % (name, rel, ln), rel, allg, [], is_core, 'gated_fn'))
            elif kind in ('stmt', 'use', 'inherent', 'inner_cfg') and gates:
                recs.append(('%s:%s@%s:%d' % (kind, re.sub(r'\W', '_', str(name))[:24], rel, ln), rel, allg, [], is_core, 'gated_' + kind))
    defined = {r[0] for r in recs}
    std_traits = {'Add', 'Sub', 'Mul', 'Div', 'PartialEq', 'Eq', 'PartialOrd', 'Ord', 'Default', 'From', 'FromIterator', 'Index',
                  'IntoIterator', 'AsRef', 'Display', 'Debug', 'Clone', 'Copy'}
    # cross references of each feature file to other modules' definitions
    defs_by_file = {}
    for r in recs:
        if r[0].startswith('def:'):
            defs_by_file.setdefault(r[1], set()).add(r[0][4:])
    out_recs = []
    for name, rel, gates, refs, is_core, kind in recs:
        refs = [x for x in refs if not (x.startswith('def:') and x[4:] in std_traits) and not x.startswith('def:std') and x != 'def:']
        refs = [x for x in refs if x in defined or not x.startswith('def:')]
        if kind == 'impl' or kind == 'trait':
            body = texts[rel]
            # non-test part only
            cut = body.find('mod tests')
            if cut > 0: body = body[:cut]
            for other_rel, ds in defs_by_file.items():
                if other_rel == rel: continue
                for d in ds:
                    if re.search(r'\b%s\b' % re.escape(d), body):
                        refs.append('def:' + d)
            for m in re.finditer(r'\btraits::(\w+)', body):
                refs.append('mod:traits::' + m.group(1))
            for m in re.finditer(r'\bsuper::(\w+)', body):
                if ('mod:traits::' + m.group(1)) in defined: refs.append('mod:traits::' + m.group(1))
        out_recs.append((name, rel, gates, sorted(set(refs)), is_core, kind))
    inline_all = []
    for rel, (items, inline) in scans.items():
        for (r, ln, expr, depth) in inline:
            inline_all.append((r, ln, expr))
    # which feature does each optional-trait file belong to
    owner = {}
    for rel, m in mod_of_file.items():
        g = modgate.get(m, [])
        fs = [f for raw in g for f in cfg_features(raw)]
        owner[rel] = fs[0] if len(fs) == 1 else None
    with open(out, 'w') as o:
        o.write('(* GENERATED by tools/cfg2coq.py from %s -- do not edit *)\n' % repo)
        o.write('From Coq Require Import List String Bool.\nRequire Import GV.FeatureModel.\nImport ListNotations.\nOpen Scope string_scope.\n\n')
        for i, f in enumerate(FEATS_FIXED):
            pass
        o.write('Definition declared_features : list string := [%s].\n' % '; '.join('"%s"' % f for f in optional))
        o.write('Definition default_features : list string := [%s].\n' % '; '.join('"%s"' % f for f in feats_all.get('default', [])))
        o.write('Definition all_alias : list string := [%s].\n' % '; '.join('"%s"' % f for f in feats_all.get('all', [])))
        o.write('Definition feature_deps : list (string * list string) := [%s].\n' % '; '.join('("%s", [%s])' % (f, '; '.join('"%s"' % d for d in feats_all[f])) for f in optional))
        o.write('Definition inline_cfg_uses : list (string * nat) := [%s].\n' % '; '.join('("%s", %d)' % (r, ln) for r, ln, e in inline_all))
        o.write('Definition items : list item := [\n')
        rows = []
        for name, rel, gates, refs, is_core, kind in out_recs:
            g = 'CAll [%s]' % '; '.join(render(parse_cfg_expr(x), FEATS_FIXED) for x in gates) if gates else 'CTrue'
            own = owner.get(rel)
            rows.append('  mkItem "%s" "%s" (%s) [%s] %s %s' % (name, rel, g, '; '.join('"%s"' % x for x in refs), 'true' if is_core else 'false',
                        '(Some F_%s)' % own if own in FEATS_FIXED else 'None'))
        o.write(';\n'.join(rows))
        o.write('\n].\n')
    return {'features': optional, 'items': len(out_recs), 'inline_cfg': len(inline_all)}

FEATS_FIXED = ['optics', 'projection', 'ml', 'em', 'waves', 'affine']

if __name__ == '__main__':
    repo = sys.argv[1] if len(sys.argv) > 1 else '/repo'
    out = sys.argv[2] if len(sys.argv) > 2 else os.path.join(os.path.dirname(os.path.dirname(os.path.abspath(__file__))), 'coq', 'gen', 'FeaturesGen.v')
    print(json.dumps(main(repo, out)))
