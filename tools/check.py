#!/usr/bin/env python3
"""./check Cxx [--tier quick|thorough] [--seed N] [--replay path]"""
import sys, os, argparse, importlib
sys.path.insert(0, os.path.dirname(os.path.abspath(__file__)))

def main():
    ap = argparse.ArgumentParser()
    ap.add_argument('prop')
    ap.add_argument('--tier', default=os.environ.get('VERIF_TIER', 'quick'))
    ap.add_argument('--seed', type=int, default=int(os.environ.get('VERIF_SEED', '20260930') or 0))
    ap.add_argument('--replay')
    a = ap.parse_args()
    if a.tier not in ('quick', 'thorough'):
        a.tier = 'quick'
    spec = importlib.import_module('gv.props.' + a.prop)
    from gv import engine
    if hasattr(spec, 'run_check'):
        rc = spec.run_check(a.tier, a.seed, a.replay)
    elif a.replay:
        rc = engine.replay(spec, a.replay)
    else:
        rc = engine.run_check(spec, a.tier, a.seed)
    sys.exit(rc)

if __name__ == '__main__':
    main()
