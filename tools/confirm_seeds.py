#!/usr/bin/env python3
"""(development-time) for every seeded change: apply it to /repo, run the owning property's quick check
from /verif, record the verdict in seeded/<id>/meta.json, and undo it straight afterwards."""
import os, sys, json, subprocess, time
V = os.path.dirname(os.path.dirname(os.path.abspath(__file__)))
ids = sorted(os.listdir(os.path.join(V, 'seeded')))
if sys.argv[1:]:
    ids = [i for i in ids if any(a in i for a in sys.argv[1:])]
assert subprocess.run(['git', '-C', '/repo', 'status', '--porcelain', '--untracked-files=no'], capture_output=True, text=True).stdout.strip() == '', '/repo not clean'
import shutil, tempfile
# evidence written while a seeded change is applied describes a mutated tree: keep the committed evidence aside and put it back
EVB = tempfile.mkdtemp(prefix='gv_evidence_')
shutil.copytree(os.path.join(V, 'evidence'), os.path.join(EVB, 'evidence'))
for sid in ids:
    d = os.path.join(V, 'seeded', sid)
    m = json.load(open(os.path.join(d, 'meta.json')))
    prop = m['property']
    a = subprocess.run(['git', '-C', '/repo', 'apply', os.path.join(d, 'patch.diff')], capture_output=True, text=True)
    if a.returncode != 0:
        print(sid, 'patch does not apply:', a.stderr[:200]); continue
    try:
        t = time.time()
        p = subprocess.run([os.path.join(V, 'check'), prop], capture_output=True, text=True, timeout=1800)
        lines = [l for l in p.stdout.splitlines() if l.startswith('VIOLATION')]
        summ = [l for l in p.stdout.splitlines() if l.startswith(prop + ' quick')]
        verdict = 'MISSED'
        if lines:
            verdict = 'violation with failing input' if any('no-failing-input-found' not in l for l in lines) else 'violation, no-failing-input-found'
        m['confirmed_via_repo_apply'] = {'cmd': 'git -C /repo apply seeded/%s/patch.diff && ./check %s ; git -C /repo checkout -- .' % (sid, prop),
                                          'exit': p.returncode, 'verdict': verdict, 'first_lines': lines[:2], 'summary': summ[:1], 'wall_s': round(time.time() - t, 1)}
        json.dump(m, open(os.path.join(d, 'meta.json'), 'w'), indent=1)
        print('%-10s %-4s %-34s %s' % (sid, prop, verdict, lines[0] if lines else ''), flush=True)
    finally:
        subprocess.run(['git', '-C', '/repo', 'checkout', '--', '.'], capture_output=True)
shutil.rmtree(os.path.join(V, 'evidence')); shutil.copytree(os.path.join(EVB, 'evidence'), os.path.join(V, 'evidence')); shutil.rmtree(EVB)
# replays produced by these runs belong to mutated trees: remove them
import glob
for f in glob.glob(os.path.join(V, 'replays', '*.json')):
    os.remove(f)
assert subprocess.run(['git', '-C', '/repo', 'status', '--porcelain', '--untracked-files=no'], capture_output=True, text=True).stdout.strip() == ''
print('done; /repo clean')
