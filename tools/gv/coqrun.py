"""emit cases_<k>.v shards, evaluate the model on them with coqc/vm_compute, parse the verdicts"""
import os, re, subprocess, shutil, time
from concurrent.futures import ThreadPoolExecutor
from .prog import ser_reg
from .runner import VERIF, WORK

COQ = os.path.join(VERIF, 'coq')

HEADER = """From Coq Require Import ZArith List.
From Flocq Require Import Core BinarySingleNaN.
Require Import GV.FloatBase GV.AngleM GV.GeonumM GV.CollM GV.TraitsM GV.Interp.
Import ListNotations.
Open Scope Z_scope.
"""

def zl(xs):
    return '[' + ';'.join(str(x) for x in xs) + ']'

def case_coq(cid, prog, regs, tbl):
    exp = '[' + ';'.join(zl(ser_reg(v)) for v in regs) + ']'
    t = '[' + ';'.join('(%d,%d,%d,%d)' % e for e in tbl) + ']'
    return 'mkCase %d %s %s %s' % (cid, prog.coq(), t, exp)

RES = re.compile(r'\((\d+),(\d+),(-?\d+),\[([\d;\-]*)\]\)')

def _run_shard(args):
    path, timeout = args
    t = time.time()
    try:
        p = subprocess.run(['coqc', '-noglob', '-Q', os.path.join(COQ, 'theories'), 'GV', path],
                           capture_output=True, text=True, timeout=timeout)
    except subprocess.TimeoutExpired:
        return path, None, 'timeout', time.time() - t
    if p.returncode != 0:
        return path, None, p.stderr[-3000:] + p.stdout[-1000:], time.time() - t
    txt = re.sub(r'\s+', '', p.stdout)
    res = []
    for m in RES.finditer(txt):
        cid, st, idx, ms = int(m.group(1)), int(m.group(2)), int(m.group(3)), m.group(4)
        res.append((cid, st, idx, [int(z) for z in ms.split(';')] if ms else []))
    return path, res, None, time.time() - t

def evaluate(tag, cases, shard_size=120, jobs=16, timeout=1500):
    """cases: list of (cid, prog, regs, tbl).  returns ({cid: (status, idx, model_ser)}, errors, wall)"""
    d = os.path.join(WORK, 'cases', tag)
    shutil.rmtree(d, ignore_errors=True)
    os.makedirs(d)
    # balance shards by program length
    order = sorted(cases, key=lambda c: -len(c[1]))
    nsh = max(1, min(max(jobs, (len(cases) + shard_size - 1) // shard_size), max(1, len(cases))))
    shards = [[] for _ in range(nsh)]
    load = [0] * nsh
    for c in order:
        k = load.index(min(load))
        shards[k].append(c)
        load[k] += len(c[1]) + 5
    paths = []
    for k, sh in enumerate(shards):
        if not sh:
            continue
        path = os.path.join(d, 'cases_%d.v' % k)
        with open(path, 'w') as f:
            f.write(HEADER)
            f.write('Definition cases : list case := [\n')
            f.write(';\n'.join(case_coq(*c) for c in sh))
            f.write('].\nEval vm_compute in check_all cases.\n')
        paths.append(path)
    t = time.time()
    out, errors = {}, []
    with ThreadPoolExecutor(max_workers=jobs) as ex:
        for path, res, err, dt in ex.map(_run_shard, [(p, timeout) for p in paths]):
            if err is not None:
                errors.append((path, err))
                continue
            for cid, st, idx, ms in res:
                out[cid] = (st, idx, ms)
    wall = time.time() - t
    if not errors:
        shutil.rmtree(d, ignore_errors=True)
    return out, errors, wall
