"""check engine: theorems + correspondence + predicate search + decision + evidence"""
import os, sys, json, time, hashlib, traceback
from . import fb, runner, coqrun, proofs
from .prog import Prog, OPS, ser_reg, reg_args
from .preds import PRED
from . import known as knownmod

VERIF = runner.VERIF

class Case:
    __slots__ = ('prog', 'preds', 'tag', 'cid')
    def __init__(self, prog, preds=(), tag=''):
        self.prog = prog
        self.preds = list(preds)      # [(name, [args...])]
        self.tag = tag
        self.cid = None
    def to_json(self):
        return {'prog': self.prog.to_json(), 'preds': [[n, list(a)] for n, a in self.preds], 'tag': self.tag}
    @staticmethod
    def from_json(j):
        return Case(Prog.from_json(j['prog']), [(p[0], p[1]) for p in j.get('preds', [])], j.get('tag', 'corpus'))

def slice_prog(prog, roots):
    """keep only the instructions the registers in `roots` depend on; returns (new prog, index map)"""
    need = set()
    stack = [r for r in roots if 0 <= r < len(prog.ins)]
    while stack:
        r = stack.pop()
        if r in need:
            continue
        need.add(r)
        op, args = prog.ins[r]
        sig = OPS[op][0]
        star = sig.endswith('*')
        body = sig[:-2] if star else sig
        for k, a in enumerate(args):
            kind = body[k] if k < len(body) else 'g'
            if kind != 'i':
                stack.append(a)
    keep = sorted(need)
    mp = {old: new for new, old in enumerate(keep)}
    q = Prog()
    for old in keep:
        op, args = prog.ins[old]
        sig = OPS[op][0]
        star = sig.endswith('*')
        body = sig[:-2] if star else sig
        na = []
        for k, a in enumerate(args):
            kind = body[k] if k < len(body) else 'g'
            na.append(a if kind == 'i' else mp[a])
        q.add(op, *na)
    return q, mp

def remap_pred(pred, mp, prog_kinds):
    """predicate args that are register indices are remapped; args wrapped as ['#', x] are literals"""
    name, args = pred
    out = []
    for a in args:
        if isinstance(a, int):
            out.append(mp.get(a, a))
        elif isinstance(a, list) and a and a[0] != '#':
            out.append([mp.get(x, x) if isinstance(x, int) else x for x in a])
        else:
            out.append(a)
    return (name, out)

def pred_regs(pred):
    regs = []
    for a in pred[1]:
        if isinstance(a, int):
            regs.append(a)
        elif isinstance(a, list) and a and a[0] != '#':
            regs += [x for x in a if isinstance(x, int)]
    return regs

def eval_pred(pred, vals):
    name, args = pred
    f = PRED[name]
    cooked = []
    for a in args:
        if isinstance(a, list) and a and a[0] == '#':
            cooked.append(a[1])
        else:
            cooked.append(a)
    try:
        return f(vals, *cooked)
    except Exception as e:   # a predicate must never crash the check: report as failure of the predicate
        return 'predicate %s raised %s: %s' % (name, type(e).__name__, e)

# LLVM rewrites powf(x, 2.0) with a compile-time-constant exponent into x*x in optimised builds
# (electric_field's `power = scalar(2.0)` after inlining); glibc's pow is within 1 ulp of that.
# The model follows the unoptimised build (a recorded pow call); the optimised build may differ
# by an ulp in the magnitude of exactly these results.
PROFILE_TOLERANT_OPS = {'TEField': 2}
def profile_tolerated(op, a, b):
    n = PROFILE_TOLERANT_OPS.get(op)
    if n is None or a[0] != 'G' or b[0] != 'G':
        return False
    return a[2:] == b[2:] and abs(a[1] - b[1]) <= n

class Result:
    pass

def load_corpus(pid):
    d = os.path.join(VERIF, 'corpus')
    out = []
    if os.path.isdir(d):
        for fn in sorted(os.listdir(d)):
            if fn.startswith(pid + '-') and fn.endswith('.json'):
                j = json.load(open(os.path.join(d, fn)))
                for cj in (j if isinstance(j, list) else [j]):
                    c = Case.from_json(cj)
                    c.tag = 'corpus:' + fn
                    out.append(c)
    return out

def exec_cases(cases, profiles=('debug', 'release')):
    progs = [(c.cid, c.prog) for c in cases]
    outs, stats = {}, {}
    for pf in profiles:
        o, st = runner.run(pf, progs)
        outs[pf] = o
        stats[pf] = st
    return outs, stats

def write_replay(pid, kind, payload):
    d = os.path.join(VERIF, 'replays') if runner.REPO == '/repo' else os.path.join(runner.WORK, 'replays')
    os.makedirs(d, exist_ok=True)
    body = json.dumps(payload, sort_keys=True, default=str)
    h = hashlib.sha1(body.encode()).hexdigest()[:12]
    path = os.path.join(d, '%s-%s-%s.json' % (pid, kind, h))
    with open(path, 'w') as f:
        json.dump(payload, f, indent=1, sort_keys=True, default=str)
    return path

def nontrivial_signature(case, regs, owned):
    """a case is non-trivial when an owned op produced a value different from all its register
    operands; the signature is (owned ops in order, their serialised results)"""
    sig = []
    for i, (op, args) in enumerate(case.prog.ins):
        if op in owned and i < len(regs):
            res = regs[i]
            operands = [regs[a] for a in reg_args(op, args) if a < len(regs)]
            if all(res != o for o in operands):
                sig.append((op, tuple(ser_reg(res))))
    return tuple(sig)

def run_check(spec, tier, seed, budget_scale=1.0, out=sys.stdout):
    t0 = time.time()
    pid = spec.ID
    rng = fb.Rng(seed ^ int(hashlib.sha1(pid.encode()).hexdigest()[:8], 16))
    info = {'property_id': pid, 'tier': tier, 'seed': seed}
    violations = []       # (kind, replay path, note, no_input_flag)
    known_lines = []
    kf = knownmod.load()

    # ---- 1. theorems ----
    pr = proofs.check(pid, spec.THEOREMS)
    proof_ok = (pr['discharged'] == pr['obligations']) and not pr['failures']

    # ---- 2. harness ----
    try:
        bt = [runner.build('debug'), runner.build('release')]
    except runner.BuildError as e:
        print('ERROR: harness/geonum build failed:\n' + str(e), file=out)
        return 2

    # ---- 3. cases ----
    cases = load_corpus(pid) + spec.generate(rng, tier)
    for i, c in enumerate(cases):
        c.cid = i
    outs, hstats = exec_cases(cases)
    dbg, rel = outs['debug'], outs['release']

    # ---- 4. predicates on the implementation (both profiles) ----
    pred_fail = []    # (case, pred, profile, msg)
    npred = 0
    crashed = []
    for c in list(cases):
        for pf, o in (('debug', dbg), ('release', rel)):
            r0 = o[c.cid][0]
            if r0 and r0[0][0] == 'X':
                crashed.append((c, pf, r0[0][1]))
    if crashed:
        bad = {c.cid for c, _, _ in crashed}
        for c, pf, why in crashed[:3]:
            payload = {'property': pid, 'kind': 'crash', 'profile': pf, 'seed': seed, 'tag': c.tag, 'message': 'the implementation ' + why,
                       'program': c.prog.to_json(), 'pretty': c.prog.pretty()}
            violations.append(('crash', write_replay(pid, 'crash', payload), why, False))
        cases = [c for c in cases if c.cid not in bad]
    for c in cases:
        for pf, o in (('debug', dbg), ('release', rel)):
            vals = o[c.cid][0]
            for p in c.preds:
                npred += 1
                msg = eval_pred(p, vals)
                if msg:
                    pred_fail.append((c, p, pf, msg))
    # ---- 5. model = implementation? ----
    coq_cases = [(c.cid, c.prog, dbg[c.cid][0], dbg[c.cid][1]) for c in cases]
    res, errs, cwall = coqrun.evaluate(pid + '_' + tier, coq_cases)
    disagree = []
    skipped = 0
    for c in cases:
        if dbg[c.cid][0] != rel[c.cid][0]:
            ks = [i for i, (a, b) in enumerate(zip(dbg[c.cid][0], rel[c.cid][0])) if a != b and not profile_tolerated(c.prog.ins[i][0], a, b)]
            if ks:
                k = ks[0]
                disagree.append((c, k, 'debug and release builds differ', ser_reg(rel[c.cid][0][k])))
        r = res.get(c.cid)
        if r is None:
            if not errs:
                errs.append(('?', 'no verdict for case %d' % c.cid))
            continue
        st, idx, ms = r
        if st == 1:
            disagree.append((c, idx, 'model and implementation differ', ms))
        elif st == 2:
            skipped += 1
    corr_broken = bool(disagree) or bool(errs)

    # ---- 6. classify predicate failures ----
    seen = set()
    for c, p, pf, msg in pred_fail:
        q, mp = slice_prog(c.prog, pred_regs(p))
        p2 = remap_pred(p, mp, None)
        key = (json.dumps(q.to_json()), json.dumps(p2, default=str))
        if key in seen:
            continue
        seen.add(key)
        vals = (dbg if pf == 'debug' else rel)[c.cid][0]
        kid = knownmod.match(kf, pid, c, p, vals, msg)
        if kid is not None:
            known_lines.append('KNOWN-FINDING: property=%s %s (%s)' % (pid, kid['id'], kid['what']))
            continue
        payload = {'property': pid, 'kind': 'predicate', 'profile': pf, 'seed': seed, 'tag': c.tag,
                   'predicate': [p2[0], p2[1]], 'message': msg, 'program': q.to_json(),
                   'pretty': q.pretty(),
                   'impl_registers': [ser_reg(vals[old]) for old in sorted(mp)]}
        path = write_replay(pid, 'pred', payload)
        violations.append(('predicate', path, msg, False))
    # ---- 7. broken theorem / correspondence without a failing input: search deeper ----
    searched = 0
    if (corr_broken or not proof_ok) and not violations:
        found = None
        for rnd in range(3 if tier == 'quick' else 6):
            more = spec.generate(rng.fork(1000 + rnd), 'thorough')
            for i, c in enumerate(more):
                c.cid = i
            o2, _ = exec_cases(more, profiles=('debug',))
            searched += len(more)
            for c in more:
                vals = o2['debug'][c.cid][0]
                for p in c.preds:
                    msg = eval_pred(p, vals)
                    if msg and knownmod.match(kf, pid, c, p, vals, msg) is None:
                        found = (c, p, vals, msg)
                        break
                if found: break
            if found: break
        if found:
            c, p, vals, msg = found
            q, mp = slice_prog(c.prog, pred_regs(p))
            p2 = remap_pred(p, mp, None)
            payload = {'property': pid, 'kind': 'predicate', 'profile': 'debug', 'seed': seed, 'tag': c.tag,
                       'predicate': [p2[0], p2[1]], 'message': msg, 'program': q.to_json(), 'pretty': q.pretty(),
                       'impl_registers': [ser_reg(vals[old]) for old in sorted(mp)],
                       'found_by': 'deep search after a broken theorem/correspondence'}
            violations.append(('predicate', write_replay(pid, 'pred', payload), msg, False))
        else:
            what = []
            if not proof_ok:
                what.append({'theorems': pr['failures']})
            if disagree:
                c, idx, why, ms = disagree[0]
                q, mp = slice_prog(c.prog, [idx])
                what.append({'correspondence': why, 'first_case_tag': c.tag, 'register': mp.get(idx, idx),
                             'instruction': list(c.prog.ins[idx]), 'program': q.to_json(), 'pretty': q.pretty(),
                             'impl_registers': [ser_reg(dbg[c.cid][0][old]) for old in sorted(mp)],
                             'model_register': ms, 'disagreeing_cases': len(disagree)})
            if errs:
                what.append({'coq_errors': [e[1][-800:] for e in errs[:2]]})
            payload = {'property': pid, 'kind': 'no-failing-input', 'seed': seed, 'no_longer_checks': what,
                       'deep_search_cases': searched}
            violations.append(('broken', write_replay(pid, 'broken', payload),
                               'theorem or correspondence no longer checks', True))

    # ---- 7b. monitor the libm hypotheses used by theorems on every call the implementation made ----
    libm_mon = {'calls': 0, 'cos_zero_one': 0, 'sin_zero_zero': 0, 'cos_range': 0, 'tanh_range': 0,
                'cos_acc_u=2^-52_on_[-8,8]': 0, 'sin_acc_u=2^-52_on_[-8,8]': 0, 'atan2_range_[-PI,PI]': 0, 'atan2_acc_u2=2^-51': 0, 'acos_acc_ua=2^-51_on_[-1,1]': 0, 'violations': []}
    ONE = fb.bits(1.0)
    import mpmath as _mp
    U52 = _mp.mpf(2) ** -52
    PI_F = 3.141592653589793
    def _acc(fn, key, a, r_):
        fa, fr = fb.fl(a), fb.fl(r_)
        if fa == fa and abs(fa) <= 8.0:
            libm_mon[key] += 1
            if not (fr == fr and abs(_mp.mpf(fr) - fn(_mp.mpf(fa))) <= U52):
                libm_mon['violations'].append([key, a, r_])
    for c in cases:
        for (f, a, b_, r_) in dbg[c.cid][1]:
            libm_mon['calls'] += 1
            fa, fr = fb.fl(a), fb.fl(r_)
            if f == 0:
                _acc(_mp.cos, 'cos_acc_u=2^-52_on_[-8,8]', a, r_)
            if f == 1:
                _acc(_mp.sin, 'sin_acc_u=2^-52_on_[-8,8]', a, r_)
            if f == 2:
                fb2 = fb.fl(b_)
                if fa == fa and fb2 == fb2 and abs(fa) != float('inf') and abs(fb2) != float('inf'):
                    libm_mon['atan2_range_[-PI,PI]'] += 1
                    if not (fr == fr and abs(fr) <= PI_F):
                        libm_mon['violations'].append(['atan2_range', a, b_, r_])
                    # atan2_acc with u2 = 2^-51: within u2 of the angle of (x, y) (any angle when x = y = 0)
                    libm_mon['atan2_acc_u2=2^-51'] += 1
                    if (fa != 0.0 or fb2 != 0.0) and not (fr == fr and abs(_mp.mpf(fr) - _mp.atan2(_mp.mpf(fa), _mp.mpf(fb2))) <= 2 * U52):
                        libm_mon['violations'].append(['atan2_acc', a, b_, r_])
            if f == 0:
                libm_mon['cos_range'] += 1
                if fa == fa and abs(fa) != float('inf') and not (fr == fr and abs(fr) <= 1.0):
                    libm_mon['violations'].append(['cos_range', a, r_])
                if a == 0:
                    libm_mon['cos_zero_one'] += 1
                    if r_ != ONE: libm_mon['violations'].append(['cos_zero_one', a, r_])
            elif f == 1 and a == 0:
                libm_mon['sin_zero_zero'] += 1
                if r_ != 0: libm_mon['violations'].append(['sin_zero_zero', a, r_])
            elif f == 4:
                if fa == fa and abs(fa) <= 1.0:
                    libm_mon['acos_acc_ua=2^-51_on_[-1,1]'] += 1
                    if not (fr == fr and abs(_mp.mpf(fr) - _mp.acos(_mp.mpf(fa))) <= 2 * U52):
                        libm_mon['violations'].append(['acos_acc', a, r_])
            elif f == 6:
                libm_mon['tanh_range'] += 1
                if fa == fa and not (fr == fr and abs(fr) <= 1.0):
                    libm_mon['violations'].append(['tanh_range', a, r_])
    libm_mon['violations'] = libm_mon['violations'][:5]

    # ---- 8. evidence ----
    sigs = set()
    for c in cases:
        s = nontrivial_signature(c, dbg[c.cid][0], spec.OWNED)
        if s:
            sigs.add(s)
    tags = {}
    opsh = {}
    for c in cases:
        t = c.tag.split(':')[0]
        tags[t] = tags.get(t, 0) + 1
        for op, _ in c.prog.ins:
            if op not in ('FImm', 'UImm'):
                opsh[op] = opsh.get(op, 0) + 1
    samples = []
    step = max(1, len(cases) // 4)
    for c in cases[::step][:4]:
        q = c.prog
        samples.append({'tag': c.tag, 'program': q.pretty()[:40],
                        'impl_last_register': ser_reg(dbg[c.cid][0][-1]) if dbg[c.cid][0] else None,
                        'predicates': [p[0] for p in c.preds][:8]})
    wall = time.time() - t0
    ev = {
        'property_id': pid, 'tier': tier, 'seed': seed, 'level': 'proof',
        'coverage': {
            'obligations': pr['obligations'], 'discharged': pr['discharged'],
            'checker_cmd': 'make -C coq theories/Properties/%s.vo && coqc tools/pins/%s.v  (Coq 8.16.1 kernel; statements pinned by Check, axioms by Print Assumptions)' % (pid, pid),
            'trusted_base': spec.TRUSTED,
            'theorems': spec.THEOREMS,
            'axioms_reported': pr['axioms'],
            'theorem_failures': pr['failures'],
            'evaluations': len(cases),
            'distinct_nontrivial': len(sigs),
            'rule': spec.RULE,
            'samples': samples,
            'traces_validated_against_impl': sum(1 for c in cases if res.get(c.cid, (9,))[0] == 0),
            'correspondence_disagreements': len(disagree),
            'out_of_modelled_range_skipped': skipped,
            'coq_shard_errors': len(errs),
            'predicate_evaluations': npred,
            'predicate_failures': len(pred_fail),
            'known_findings_hit': len(known_lines),
            'deep_search_cases': searched,
            'input_classes': tags,
            'opcode_histogram': opsh,
            'libm_calls_recorded': hstats.get('debug', {}).get('libm_calls', 0),
            'sincos_mismatch': hstats.get('debug', {}).get('sincos_mismatch', 0) + hstats.get('release', {}).get('sincos_mismatch', 0),
            's3_legs': getattr(spec, 'S3_LEGS', []),
            'libm_hypotheses_monitor': libm_mon,
            'coq_eval_wall_s': round(cwall, 1), 'proof_wall_s': round(pr['wall_s'], 1),
        },
        'assumptions': spec.ASSUMPTIONS,
        'wall_s': round(wall, 2),
        'violations': len(violations),
    }
    evd = os.path.join(VERIF, 'evidence') if runner.REPO == '/repo' else os.path.join(runner.WORK, 'evidence')
    os.makedirs(evd, exist_ok=True)
    with open(os.path.join(evd, pid + '.json'), 'w') as f:
        json.dump(ev, f, indent=1)

    for l in sorted(set(known_lines)):
        print(l, file=out)
    print('%s %s: theorems %d/%d, cases %d (model=impl on %d, skipped %d, disagree %d), predicates %d (failed %d), %.1fs'
          % (pid, tier, pr['discharged'], pr['obligations'], len(cases), ev['coverage']['traces_validated_against_impl'],
             skipped, len(disagree), npred, len(pred_fail), wall), file=out)
    if violations:
        for kind, path, note, noinput in violations[:5]:
            rel = os.path.relpath(path, VERIF)
            print('VIOLATION property=%s replay=%s%s' % (pid, rel, ' no-failing-input-found' if noinput else ''), file=out)
        return 1
    return 0

def replay(spec, path, out=sys.stdout):
    j = json.load(open(path))
    pid = spec.ID
    try:
        runner.build('debug'); runner.build('release')
    except runner.BuildError as e:
        print('ERROR: build failed: ' + str(e), file=out)
        return 2
    kf = knownmod.load()
    if isinstance(j, list):
        # a corpus file (list of regression cases): run each case's predicates and the correspondence
        bad = False
        for k, cj in enumerate(j):
            c = Case.from_json(cj) if hasattr(Case, 'from_json') else Case(Prog.from_json(cj['prog']), [(p[0], p[1]) for p in cj.get('preds', [])], cj.get('tag', 'corpus'))
            c.cid = 0
            outs, _ = exec_cases([c])
            for pf in ('debug', 'release'):
                vals = outs[pf][0][0]
                for pr in c.preds:
                    msg = eval_pred(pr, vals)
                    kid = knownmod.match(kf, pid, c, pr, vals, msg) if msg else None
                    if kid:
                        print('KNOWN-FINDING: property=%s %s (%s)' % (pid, kid['id'], kid['what']), file=out)
                        continue
                    print('[%s] case %d %s -> %s' % (pf, k, pr[0], msg or 'holds'), file=out)
                    bad = bad or bool(msg)
            res, errs, _ = coqrun.evaluate(pid + '_replay', [(0, c.prog, outs['debug'][0][0], outs['debug'][0][1])])
            st = res.get(0, (9,))[0]
            print('case %d model vs implementation: %s' % (k, {0: 'agree', 1: 'DIFFER', 2: 'out of range'}.get(st, 'error')), file=out)
            bad = bad or st == 1
        if bad:
            print('VIOLATION property=%s replay=%s' % (pid, path), file=out)
            return 1
        return 0
    if j.get('kind') == 'predicate':
        prog = Prog.from_json(j['program'])
        c = Case(prog, [(j['predicate'][0], j['predicate'][1])], 'replay')
        c.cid = 0
        outs, _ = exec_cases([c])
        bad = False
        for pf in ('debug', 'release'):
            vals = outs[pf][0][0]
            msg = eval_pred(c.preds[0], vals)
            kid = knownmod.match(kf, pid, c, c.preds[0], vals, msg) if msg else None
            if kid:
                print('KNOWN-FINDING: property=%s %s (%s)' % (pid, kid['id'], kid['what']), file=out)
                continue
            print('[%s] %s -> %s' % (pf, c.preds[0][0], msg or 'holds'), file=out)
            bad = bad or bool(msg)
        for l in prog.pretty():
            print('   ' + l, file=out)
        res, errs, _ = coqrun.evaluate(pid + '_replay', [(0, prog, outs['debug'][0][0], outs['debug'][0][1])])
        print('model vs implementation: %s' % ({0: 'agree', 1: 'DIFFER', 2: 'out of range'}.get(res.get(0, (9,))[0], 'error')), file=out)
        if bad:
            print('VIOLATION property=%s replay=%s' % (pid, path), file=out)
            return 1
        return 0
    else:
        print(json.dumps(j, indent=1)[:4000], file=out)
        for w in j.get('no_longer_checks', []):
            if 'program' in w:
                prog = Prog.from_json(w['program'])
                c = Case(prog, [], 'replay'); c.cid = 0
                outs, _ = exec_cases([c])
                res, errs, _ = coqrun.evaluate(pid + '_replay', [(0, prog, outs['debug'][0][0], outs['debug'][0][1])])
                st = res.get(0, (9,))[0]
                print('model vs implementation now: %s' % ({0: 'agree', 1: 'DIFFER', 2: 'out of range'}.get(st, 'error')), file=out)
                if st != 0:
                    print('VIOLATION property=%s replay=%s no-failing-input-found' % (pid, path), file=out)
                    return 1
        return 0
