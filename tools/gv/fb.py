"""float <-> bit helpers and value classes shared by all generators."""
import struct, math
from fractions import Fraction

def bits(x: float) -> int:
    if x != x:
        return 0x7FF8000000000000
    return struct.unpack('<Q', struct.pack('<d', x))[0]

def fl(b: int) -> float:
    return struct.unpack('<d', struct.pack('<Q', b & 0xFFFFFFFFFFFFFFFF))[0]

def nxt(x: float, k: int = 1) -> float:
    """x moved by k ulps (k may be negative)"""
    for _ in range(abs(k)):
        x = math.nextafter(x, math.inf if k > 0 else -math.inf)
    return x

def frac(b: int) -> Fraction:
    """exact rational value of a finite double given by its bits"""
    return Fraction(fl(b))

PI = math.pi
Q = math.pi / 2.0
E10 = 1e-10
E15 = 1e-15

def is_finite_bits(b: int) -> bool:
    return ((b >> 52) & 0x7FF) != 0x7FF

class Rng:
    """xoshiro256** seeded by splitmix64: every random choice of a run derives from one state"""
    M = (1 << 64) - 1
    def __init__(self, seed: int):
        s = seed & self.M
        st = []
        for _ in range(4):
            s = (s + 0x9E3779B97F4A7C15) & self.M
            z = s
            z = ((z ^ (z >> 30)) * 0xBF58476D1CE4E5B9) & self.M
            z = ((z ^ (z >> 27)) * 0x94D049BB133111EB) & self.M
            st.append(z ^ (z >> 31))
        self.s = st
    def _rotl(self, x, k):
        return ((x << k) | (x >> (64 - k))) & self.M
    def u64(self) -> int:
        s = self.s
        r = (self._rotl((s[1] * 5) & self.M, 7) * 9) & self.M
        t = (s[1] << 17) & self.M
        s[2] ^= s[0]; s[3] ^= s[1]; s[1] ^= s[2]; s[0] ^= s[3]
        s[2] ^= t
        s[3] = self._rotl(s[3], 45)
        return r
    def below(self, n: int) -> int:
        return self.u64() % n
    def choice(self, xs):
        return xs[self.below(len(xs))]
    def unit(self) -> float:
        return (self.u64() >> 11) / float(1 << 53)
    def uniform(self, a, b) -> float:
        return a + (b - a) * self.unit()
    def logu(self, lo, hi) -> float:
        return math.exp(self.uniform(math.log(lo), math.log(hi)))
    def chance(self, p) -> bool:
        return self.unit() < p
    def fork(self, tag: int) -> "Rng":
        return Rng(self.u64() ^ (tag * 0x9E3779B97F4A7C15))
