"""value classes and the type-directed random program generator shared by all properties"""
import math
from .. import fb
from ..prog import Prog, OPS

BLADE_OFFS = [0, 1, 2, 3, 4, 5, 6, 7, 8, 1000, 1001, 1002, 1003, 10**6, 2**31 - 1, 2**31, 2**32 + 2, 2**40]
DIVS = [1.0, 2.0, 3.0, 4.0, 6.0, 8.0, 12.0, math.pi]

def mag_class(r: fb.Rng, zero_ok=True):
    k = r.below(12)
    if k == 0 and zero_ok: return r.choice([0.0, 0.0, 0.0, -0.0])        # -0.0 is a zero magnitude too (mag is a pub field)
    if k == 1: return 1.0
    if k == 2: return r.choice([1e-100, 1e100, 1e-10, 1e10])
    if k == 3: return float(r.below(9) + 1)
    if k == 4: return fb.nxt(r.choice([1.0, 2.0, 3.0]), r.choice([-3, -2, -1, 1, 2, 3, 8]))
    if k in (5, 6): return r.logu(1e-3, 1e3)
    if k == 7: return r.logu(1e-100, 1e100)
    return r.uniform(0.1, 10.0)

def pd_class(r: fb.Rng, neg_ok=True, big_ok=True):
    """(p, d) arguments of Angle::new, mostly valid (finite, d != 0, |2p/d| <= 2^40)"""
    k = r.below(16)
    if k == 0:
        p, d = float(r.below(17)), 2.0                      # exact quarter turns (fast path)
    elif k == 1:
        d = r.choice([1.0, 3.0, 4.0, 6.0, 8.0, 12.0])       # exact multiples of pi/2 written with any divisor
        p = float(r.below(40)) * d / 2.0
    elif k == 2:
        p, d = r.uniform(0.0, 7.0), math.pi                 # radians
    elif k == 3:
        d = r.choice(DIVS); p = float(r.below(64))
    elif k == 4:
        d = r.choice(DIVS); p = r.uniform(0.0, 16.0)
    elif k == 5:
        d = r.choice(DIVS); p = float(r.below(100000)) + r.choice([0.0, 0.5])
    elif k == 6 and big_ok:
        d = r.choice(DIVS); p = r.logu(1.0, 2.0**38) * d / 2.0
    elif k == 7:
        p, d = r.choice([5e-324, 1e-310, 2.2250738585072014e-308, 1e-300]), r.choice(DIVS)
    elif k == 8:
        # remainder steered next to a threshold: radians with divisor PI
        base = float(r.below(8)) * fb.Q
        off = r.choice([0.0, 1e-15, 1e-10, fb.Q - 1e-10, fb.Q - 1e-15, fb.Q])
        p, d = fb.nxt(base + off, r.choice([-2, -1, 0, 1, 2])), math.pi
    elif k == 9:
        p, d = r.choice([0.0, -0.0]), r.choice(DIVS)
    elif k == 10:
        d = -r.choice(DIVS); p = -r.uniform(0.0, 9.0)       # negative / negative = positive ratio
    elif k == 11:
        # near-integers (either sign) with the fast-path divisor 2.0 or another one: fract() tiny but non-zero
        base = float(r.below(17) - 8)
        off = r.choice([1e-11, -1e-11, 1e-12, -1e-12, 3e-10, -3e-10, 1e-15, -1e-15])
        p = base + off if r.chance(0.7) else fb.nxt(base, r.choice([-2, -1, 1, 2]))
        d = 2.0 if r.chance(0.7) else r.choice(DIVS)
        return p, d
    else:
        d = r.choice(DIVS); p = r.uniform(0.0, 4.0) * d / 2.0
    if neg_ok and r.chance(0.25):
        p = -p
    if neg_ok and r.chance(0.15):
        d = -d                                              # negative divisors (either sign of p): total = p*PI/d < 0 or > 0
    return p, d

def gen_angle(P: Prog, r: fb.Rng, neg_ok=True, big_ok=True):
    k = r.below(10)
    if k < 6:
        p, d = pd_class(r, neg_ok, big_ok)
        return P.add('ANew', P.f(p), P.f(d))
    if k < 9:
        p, d = pd_class(r, neg_ok, False)
        n = r.choice(BLADE_OFFS) if big_ok else r.below(9)
        return P.add('ANewBlade', P.u(n), P.f(p), P.f(d))
    x, y = r.uniform(-3, 3), r.uniform(-3, 3)
    if r.chance(0.3):
        x, y = r.choice([(1.0, 0.0), (0.0, 1.0), (-1.0, 0.0), (0.0, -1.0), (1.0, 1.0), (-2.0, 2.0), (0.0, 0.0), (-1.0, -0.0)])
    return P.add('ANewCart', P.f(x), P.f(y))

def gen_geonum(P: Prog, r: fb.Rng, zero_ok=True, neg_ok=True, big_ok=True):
    m = mag_class(r, zero_ok)
    k = r.below(10)
    if k < 5:
        p, d = pd_class(r, neg_ok, big_ok)
        return P.add('GNew', P.f(m), P.f(p), P.f(d))
    if k < 7:
        p, d = pd_class(r, neg_ok, False)
        n = r.choice(BLADE_OFFS) if big_ok else r.below(9)
        return P.add('GNewBlade', P.f(m), P.u(n), P.f(p), P.f(d))
    if k == 7:
        return P.add('GDim', P.f(m), P.u(r.choice(BLADE_OFFS) if big_ok else r.below(9)))
    if k == 8:
        v = m if r.chance(0.5) else -m
        return P.add('GScalar', P.f(v))
    a = gen_angle(P, r, neg_ok, big_ok)
    return P.add('GNewAngle', P.f(m), a)

def gen_float(P: Prog, r: fb.Rng):
    k = r.below(8)
    if k == 0: return P.f(r.choice([0.0, -0.0, 1.0, -1.0, 2.0, 0.5]))
    if k == 1: return P.f(r.uniform(-4, 4))
    if k == 2: return P.f(r.logu(1e-3, 1e3))
    if k == 3: return P.f(-r.logu(1e-3, 1e3))
    if k == 4: return P.f(float(r.below(10)))
    return P.f(r.uniform(0.0, 10.0))

def rand_prog(r: fb.Rng, ops, nsteps, neg_ok=True, big_ok=True):
    """type-directed random program: seed a few values, then apply random ops from `ops`
    to randomly chosen registers of the right kind (creating operands when none exists)"""
    P = Prog()
    pools = {'a': [], 'g': [], 'c': []}
    def pick(kind):
        pool = pools[kind]
        if pool and r.chance(0.8):
            return r.choice(pool)
        if kind == 'a':
            v = gen_angle(P, r, neg_ok, big_ok)
        elif kind == 'g':
            v = gen_geonum(P, r, True, neg_ok, big_ok)
        else:
            n = r.below(6)
            v = P.add(r.choice(['CFrom', 'CFromIter']), *[pick('g') for _ in range(n)])
        pools[kind].append(v)
        return v
    for _ in range(nsteps):
        op = r.choice(ops)
        sig, res = OPS[op]
        args = []
        star = sig.endswith('*')
        body = sig[:-2] if star else sig
        imm_i = 0
        for ch in body:
            if ch == 'i':
                if op in ('ADivF', 'AMulG', 'AAddG'): args.append(r.below(2))
                elif op == 'TConst': args.append(r.below(5))
                else: args.append(r.below(4))
            elif ch == 'f':
                args.append(gen_float(P, r))
            elif ch == 'u':
                args.append(P.u(r.choice(BLADE_OFFS) if (big_ok and r.chance(0.3)) else r.below(12)))
            else:
                args.append(pick(ch))
        if star:
            args += [pick('g') for _ in range(r.below(5))]
        v = P.add(op, *args)
        if res in pools:
            pools[res].append(v)
    return P
