"""known findings: committed file /verif/known_findings.json, never written at run time.
An entry suppresses a predicate failure only when its class matcher recognises the
specific failing input; `fixed` entries suppress nothing."""
import json, os
from . import fb
from .runner import VERIF

def load():
    p = os.path.join(VERIF, 'known_findings.json')
    if not os.path.exists(p):
        return []
    return json.load(open(p)).get('findings', [])

def _eq_cmp_band(case, pred, vals, msg):
    """C16/F6: `==` is tolerant (|rem gap| < 1e-15) while cmp is exact: same blade, remainders
    different but closer than 1e-15 (for Geonum: equal magnitudes as well)"""
    if pred[0] not in ('eq_iff_cmp_equal',):
        return False
    a, b = vals[pred[1][0]], vals[pred[1][1]]
    def ang(x):
        return (x[1], x[2]) if x[0] == 'A' else (x[2], x[3])
    (ra, ba), (rb, bb) = ang(a), ang(b)
    if ba != bb or ra == rb:
        return False
    if not (fb.is_finite_bits(ra) and fb.is_finite_bits(rb)):
        return False
    gap = abs(fb.fl(ra) - fb.fl(rb))
    return 0.0 < gap < 1e-15 or (gap == 0.0 and ra != rb)

def _new_overflow(case, pred, vals, msg):
    """C01/C02/F7: Angle::new(p, d) with |p|*PI overflowing f64 although |2p/d| is in the domain"""
    if pred[0] not in ('canon_angle', 'new_value', 'canon_geonum'):
        return False
    for op, args in case.prog.ins:
        if op == 'FImm':
            x = fb.fl(args[0])
            if x == x and abs(x) != float('inf') and abs(x) * fb.PI == float('inf'):
                return True
    return False

CLASSES = {'eq_cmp_band': _eq_cmp_band, 'new_overflow': _new_overflow}

def match(findings, pid, case, pred, vals, msg):
    for f in findings:
        if f.get('status') != 'known' or pid not in f.get('properties', [f.get('property')]):
            continue
        m = CLASSES.get(f.get('class'))
        if m and m(case, pred, vals, msg):
            return f
    return None
