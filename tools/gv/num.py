"""high-precision reference arithmetic for the numeric predicates (mpmath, 60 digits)"""
import mpmath as mp
from . import fb
mp.mp.dps = 60

PI = mp.pi
HALF = mp.pi / 2
EPS = mp.mpf(2) ** -52
SQEPS = mp.sqrt(EPS)
Qf = mp.mpf(fb.Q)            # the double nearest pi/2, as the library uses it
PIf = mp.mpf(fb.PI)

def v(bits):
    """exact value of a finite double"""
    return mp.mpf(fb.fl(bits))

def finite(bits):
    return fb.is_finite_bits(bits)

def a_rem(A): return A[1]
def a_blade(A): return A[2]
def g_ang(G): return ('A', G[2], G[3])

def theta_lib(A):
    """the library's own total: blade * (double pi/2) + rem"""
    return mp.mpf(A[2]) * Qf + v(A[1])

def theta(A):
    """total with real pi"""
    return mp.mpf(A[2]) * HALF + v(A[1])

def direction(A):
    """true direction in [0, 2pi): (blade mod 4) * pi/2 + rem"""
    return mp.mpf(A[2] % 4) * HALF + v(A[1])

def cart(G):
    m = v(G[1]); d = direction(g_ang(G))
    return (m * mp.cos(d), m * mp.sin(d))

def angdiff(x, y):
    """distance between two directions modulo 2pi"""
    d = mp.fmod(x - y, 2 * PI)
    if d < 0: d += 2 * PI
    return min(d, 2 * PI - d)

def ulp(x):
    """ulp of the double nearest |x| (as mpf)"""
    import math
    f = abs(float(x))
    if f == 0.0: return mp.mpf(5e-324)
    return mp.mpf(math.ulp(f))
