"""property predicates over implementation outputs.  Each returns None when the property
holds on this case and a message otherwise.  They never look at the model: they are the
independent search for a concrete failing input (and the only decision procedure for
the S3 legs).  Arguments are register indices unless wrapped as ['#', literal]."""
import math
import mpmath as mp
from . import fb
from . import num as N
from .num import v, theta, direction, cart, angdiff, PI, HALF, EPS, SQEPS

PRED = {}
def pred(f):
    PRED[f.__name__] = f
    return f

TOL = mp.mpf('1e-10')

def _A(x):
    """angle part (tag 'A', rem, blade) of an A or G value"""
    if x[0] == 'A': return x
    if x[0] == 'G': return ('A', x[2], x[3])
    raise ValueError('not an angle: %r' % (x,))
def _isP(x): return x[0] == 'P'
def _bad_kind(x, kinds):
    return x[0] not in kinds

def canon_msg(A, what='angle'):
    r = A[1]
    if not fb.is_finite_bits(r):
        return '%s remainder not finite (bits 0x%016x)' % (what, r)
    x = v(r)
    if x < 0:
        return '%s remainder negative: %s' % (what, mp.nstr(x, 17))
    if x >= HALF:
        return '%s remainder >= pi/2: %s' % (what, mp.nstr(x, 17))
    if A[2] < 0:
        return '%s blade negative' % what
    return None

def mag_msg(G):
    m = G[1]
    if not fb.is_finite_bits(m):
        return 'magnitude not finite (bits 0x%016x)' % m
    if v(m) < 0 or (m >> 63) and v(m) != 0:
        return 'magnitude negative: %s' % mp.nstr(v(m), 17)
    return None

# ------------------------------------------------------------------ generic
@pred
def canon_angle(vals, r):
    x = vals[r]
    if _isP(x): return 'unexpected panic'
    return canon_msg(_A(x))

@pred
def canon_geonum_guard(vals, r, rs):
    """canon_geonum, applied only when the product of the listed operands' magnitudes stays inside the
    C01 domain [1e-100, 1e100] (or is zero): intermediate products outside it are out of scope"""
    p = mp.mpf(1)
    for x in rs:
        p *= v(vals[x][1])
    if p != 0 and not (mp.mpf('1e-100') <= p <= mp.mpf('1e100')): return None
    return canon_geonum(vals, r)

@pred
def canon_geonum(vals, r):
    x = vals[r]
    if _isP(x): return 'unexpected panic'
    return canon_msg(_A(x)) or mag_msg(x)

@pred
def all_canon(vals, skip):
    """every angle / geonum / collection member in every register is canonical with a finite
    non-negative magnitude, and no register panicked except those listed in skip"""
    for i, x in enumerate(vals):
        if i in skip: continue
        k = x[0]
        if k == 'P': return 'r%d: unexpected panic' % i
        if k == 'A':
            m = canon_msg(x)
        elif k == 'G':
            m = canon_msg(_A(x)) or mag_msg(x)
        elif k == 'C':
            m = None
            for g in x[1]:
                G = ('G',) + tuple(g)
                m = canon_msg(_A(G)) or mag_msg(G)
                if m: break
        elif k == 'OG' and x[1] is not None:
            G = ('G',) + tuple(x[1])
            m = canon_msg(_A(G)) or mag_msg(G)
        elif k == 'F':
            m = None if fb.is_finite_bits(x[1]) else 'float result not finite'
        else:
            m = None
        if m: return 'r%d: %s' % (i, m)
    return None

@pred
def is_panic(vals, r):
    return None if _isP(vals[r]) else 'expected the documented panic, got %r' % (vals[r],)

@pred
def not_panic(vals, r):
    return 'unexpected panic' if _isP(vals[r]) else None

@pred
def bit_equal(vals, r1, r2):
    if vals[r1] != vals[r2]:
        return 'results differ: %r vs %r' % (vals[r1], vals[r2])
    return None

@pred
def all_bit_equal(vals, rs):
    for r in rs[1:]:
        if vals[r] != vals[rs[0]]:
            return 'spellings differ: r%d=%r vs r%d=%r' % (rs[0], vals[rs[0]], r, vals[r])
    return None

@pred
def num_equal_angle(vals, r1, r2):
    """same blade, numerically equal remainder (+0 and -0 identified)"""
    a, b = _A(vals[r1]), _A(vals[r2])
    if a[2] != b[2] or v(a[1]) != v(b[1]):
        return 'angles differ: %r vs %r' % (a, b)
    return None

@pred
def bool_is(vals, r, want):
    x = vals[r]
    if x[0] != 'B' or x[1] != bool(want):
        return 'expected %s, got %r' % (bool(want), x)
    return None

@pred
def float_bits_are(vals, r, bits):
    x = vals[r]
    if x[0] != 'F' or x[1] != bits:
        return 'expected float bits 0x%016x, got %r' % (bits, x)
    return None

@pred
def usize_is(vals, r, n):
    x = vals[r]
    if x[0] != 'U' or x[1] != n:
        return 'expected %d, got %r' % (n, x)
    return None

def _ulps(a_bits, b_bits):
    def key(b):
        return b if b < (1 << 63) else (1 << 63) - b
    return abs(key(a_bits) - key(b_bits))

@pred
def float_close_ulps(vals, r1, r2, n):
    a, b = vals[r1], vals[r2]
    if a[0] != 'F' or b[0] != 'F': return 'not floats: %r %r' % (a, b)
    if not (fb.is_finite_bits(a[1]) and fb.is_finite_bits(b[1])): return 'non-finite measurement: %r %r' % (a, b)
    if _ulps(a[1], b[1]) > n:
        return 'measurements differ by %d ulps: %r vs %r' % (_ulps(a[1], b[1]), fb.fl(a[1]), fb.fl(b[1]))
    return None

# ------------------------------------------------------------------ C02 constructors
@pred
def new_value(vals, r, pbits, dbits):
    """Angle::new(p, d): quarter turns and remainder denote p*pi/d"""
    A = _A(vals[r])
    m = canon_msg(A)
    if m: return m
    p, d = v(pbits), v(dbits)
    ratio2 = mp.mpf(2) * p / d                       # quarter turns asked for
    t = p * PI / d
    tol = TOL + 8 * N.ulp(t) + 8 * N.ulp(p * N.PIf)
    got = theta(A)
    if ratio2 >= 0:
        if abs(got - t) > tol:
            return 'total %s differs from p*pi/d = %s by %s' % (mp.nstr(got, 17), mp.nstr(t, 17), mp.nstr(got - t, 5))
        fl = int(mp.floor(ratio2))
        if A[2] == fl: return None
        if A[2] == fl + 1 and v(A[1]) <= tol: return None          # snapped / rounded up onto the boundary
        if A[2] == fl - 1 and HALF - v(A[1]) <= tol: return None   # rounded just below it
        return 'blade %d but floor(2p/d) = %d (rem %s)' % (A[2], fl, mp.nstr(v(A[1]), 17))
    else:
        # forward rotation of fewer than two turns, same direction modulo 2pi
        if got > 4 * PI + tol:
            return 'negative angle mapped to %s > two turns' % mp.nstr(got, 17)
        is_int = (ratio2 == mp.floor(ratio2))
        if not is_int and got > 2 * PI + tol:
            return 'negative non-integral angle mapped to %s > one turn' % mp.nstr(got, 17)
        if angdiff(direction(A), t) > tol:
            return 'direction %s not congruent to p*pi/d = %s mod 2pi' % (mp.nstr(direction(A), 17), mp.nstr(t, 17))
        return None

@pred
def with_blade_adds(vals, rbase, rwith, n):
    a, b = _A(vals[rbase]), _A(vals[rwith])
    if b[2] != a[2] + n or v(b[1]) != v(a[1]):
        return 'blade offset %d: base %r, with offset %r' % (n, a, b)
    return None

@pred
def cartesian_value(vals, r, xbits, ybits):
    G = vals[r]
    m = canon_msg(_A(G)) or (mag_msg(G) if G[0] == 'G' else None)
    if m: return m
    x, y = v(xbits), v(ybits)
    h = mp.sqrt(x * x + y * y)
    if G[0] == 'G':
        cx, cy = cart(G)
        err = mp.sqrt((cx - x) ** 2 + (cy - y) ** 2)
        if err > h * (TOL + 16 * EPS) + mp.mpf(5e-324) * 4:
            return 'cartesian (%s,%s) reproduced as (%s,%s)' % (mp.nstr(x, 12), mp.nstr(y, 12), mp.nstr(cx, 12), mp.nstr(cy, 12))
    else:
        if h == 0: return None
        want = mp.atan2(y, x)
        if angdiff(direction(G), want) > TOL + 16 * EPS:
            return 'direction %s, expected atan2 = %s' % (mp.nstr(direction(G), 17), mp.nstr(want, 17))
    return None

@pred
def scalar_enc(vals, r, vbits):
    G = vals[r]
    x = fb.fl(vbits)
    want_mag = fb.bits(abs(x))
    want_blade = 2 if x < 0 else 0
    if G[0] != 'G' or G[1] != want_mag or G[3] != want_blade or v(G[2]) != 0:
        return 'scalar(%r) = %r' % (x, G)
    return None

@pred
def dimension_enc(vals, r, mbits, k):
    G = vals[r]
    if G[0] != 'G' or G[1] != mbits or G[3] != k or v(G[2]) != 0:
        return 'create_dimension(_, %d) = %r' % (k, G)
    return None

# ------------------------------------------------------------------ C03 / C04 angle arithmetic
@pred
def add_total(vals, ra, rb, rs):
    a, b, s = _A(vals[ra]), _A(vals[rb]), _A(vals[rs])
    m = canon_msg(s)
    if m: return m
    carry = s[2] - a[2] - b[2]
    if carry not in (0, 1):
        return 'blade %d + %d gave %d (carry %d)' % (a[2], b[2], s[2], carry)
    err = mp.mpf(carry) * HALF + v(s[1]) - v(a[1]) - v(b[1])
    if abs(err) > TOL + 8 * EPS:
        return 'total of sum off by %s' % mp.nstr(err, 5)
    return None

@pred
def assoc_total(vals, r1, r2):
    a, b = _A(vals[r1]), _A(vals[r2])
    err = mp.mpf(a[2] - b[2]) * HALF + v(a[1]) - v(b[1])
    if abs(err) > 2 * TOL + 16 * EPS:
        return '(a+b)+c and a+(b+c) differ by %s' % mp.nstr(err, 5)
    return None

@pred
def sub_total(vals, ra, rb, rd):
    a, b, d = _A(vals[ra]), _A(vals[rb]), _A(vals[rd])
    m = canon_msg(d)
    if m: return m
    tol = TOL + 8 * EPS
    ge = (a[2], v(a[1])) >= (b[2], v(b[1]))
    if ge:
        err = mp.mpf(d[2] - (a[2] - b[2])) * HALF + v(d[1]) - (v(a[1]) - v(b[1]))
        if abs(err) > tol:
            return 'difference of totals off by %s (blades %d - %d -> %d)' % (mp.nstr(err, 5), a[2], b[2], d[2])
        return None
    td = theta(d)
    if td > 2 * PI + tol:
        return 'larger subtrahend: result %s exceeds one turn' % mp.nstr(td, 17)
    if d[2] >= 4 and v(d[1]) != 0:
        return 'larger subtrahend: a full turn with non-zero remainder: %r' % (d,)
    want = mp.mpf((a[2] - b[2]) % 4) * HALF + v(a[1]) - v(b[1])
    if angdiff(direction(d), want) > tol:
        return 'larger subtrahend: direction %s not congruent to the difference %s' % (mp.nstr(direction(d), 17), mp.nstr(want, 17))
    return None

@pred
def is_zero_angle(vals, r):
    a = _A(vals[r])
    if a[2] != 0 or v(a[1]) != 0:
        return 'expected the zero angle, got %r' % (a,)
    return None

@pred
def roundtrip_total(vals, ra, rr, k):
    """(a+b)-b = a, a/1 = a ... within k tolerances"""
    a, r = _A(vals[ra]), _A(vals[rr])
    err = mp.mpf(r[2] - a[2]) * HALF + v(r[1]) - v(a[1])
    if abs(err) > k * TOL + 16 * EPS * (1 + theta(a)):
        return 'round trip changes the total by %s (%r -> %r)' % (mp.nstr(err, 5), a, r)
    return None

@pred
def divf_total(vals, ra, kbits, rr):
    a, r = _A(vals[ra]), _A(vals[rr])
    m = canon_msg(r)
    if m: return m
    k = v(kbits)
    want = theta(a) / k
    got = theta(r)
    if abs(got - want) > TOL + 16 * EPS * (want + theta(a) * 0) + 8 * N.ulp(theta(a)) / k:
        return 'a / %s: total %s, expected %s' % (mp.nstr(k, 8), mp.nstr(got, 17), mp.nstr(want, 17))
    return None

# ------------------------------------------------------------------ C05 products
def _fmul(a_bits, b_bits):
    return fb.bits(fb.fl(a_bits) * fb.fl(b_bits))

@pred
def mul_exact(vals, ra, rb, rprod, radd):
    a, b, p, s = vals[ra], vals[rb], vals[rprod], _A(vals[radd])
    if _isP(p): return 'unexpected panic'
    if p[1] != _fmul(a[1], b[1]):
        return 'product magnitude %r is not |a|*|b| = %r' % (fb.fl(p[1]), fb.fl(a[1]) * fb.fl(b[1]))
    if (p[2], p[3]) != (s[1], s[2]):
        return 'product angle %r is not the sum of the angles %r' % (_A(p), s)
    return None

@pred
def scale_enc(vals, rg, fbits, rres):
    g, r = vals[rg], vals[rres]
    f = fb.fl(fbits)
    want = fb.bits(fb.fl(g[1]) * abs(f))
    if r[1] != want:
        return 'scale(%r): magnitude %r, expected %r' % (f, fb.fl(r[1]), fb.fl(want))
    k = 2 if f < 0 else 0
    if r[3] != g[3] + k or v(r[2]) != v(g[2]):
        return 'scale(%r): angle %r -> %r, expected %d blades added, remainder kept' % (f, _A(g), _A(r), k)
    return None

@pred
def inv_enc(vals, rg, rres):
    g, r = vals[rg], vals[rres]
    if _isP(r): return 'unexpected panic'
    if r[1] != fb.bits(1.0 / fb.fl(g[1])):
        return 'inverse magnitude %r, expected %r' % (fb.fl(r[1]), 1.0 / fb.fl(g[1]))
    if r[3] != g[3] + 2 or v(r[2]) != v(g[2]):
        return 'inverse angle %r -> %r: expected exactly 2 blades added' % (_A(g), _A(r))
    return None

@pred
def normalize_enc(vals, rg, rres):
    g, r = vals[rg], vals[rres]
    if _isP(r): return 'unexpected panic'
    if r[1] != fb.bits(1.0) or (r[2], r[3]) != (g[2], g[3]):
        return 'normalize: %r -> %r' % (g, r)
    return None

@pred
def pow_mag(vals, rg, nbits, rres):
    g, r = vals[rg], vals[rres]
    want = mp.power(v(g[1]), v(nbits)) if v(g[1]) > 0 else None
    if want is None: return None
    if not (mp.mpf('1e-300') < want < mp.mpf('1e300')): return None
    if not fb.is_finite_bits(r[1]) or abs(v(r[1]) - want) > 4 * EPS * want:
        return 'pow magnitude %s, expected %s' % (mp.nstr(v(r[1]), 17), mp.nstr(want, 17))
    return None

@pred
def geonum_close(vals, r1, r2, k):
    """same angle total within k tolerances, magnitudes within 8 ulps relative"""
    a, b = vals[r1], vals[r2]
    if _isP(a) or _isP(b): return 'unexpected panic'
    ma, mb = v(a[1]), v(b[1])
    if abs(ma - mb) > 8 * EPS * max(abs(ma), abs(mb)):
        return 'magnitudes %s vs %s' % (mp.nstr(ma, 17), mp.nstr(mb, 17))
    A1, B1 = _A(a), _A(b)
    err = mp.mpf(A1[2] - B1[2]) * HALF + v(A1[1]) - v(B1[1])
    if abs(err) > k * TOL + 32 * EPS:
        return 'angle totals differ by %s' % mp.nstr(err, 5)
    return None

@pred
def angle_part_equal(vals, rg, ra):
    """the angle of a geonum register is bit-equal to an angle register"""
    g, a = _A(vals[rg]), _A(vals[ra])
    if g != a: return 'angle %r differs from %r' % (g, a)
    return None

@pred
def mag_bits_equal(vals, r1, r2):
    if vals[r1][1] != vals[r2][1]:
        return 'magnitude changed: %r -> %r' % (fb.fl(vals[r1][1]), fb.fl(vals[r2][1]))
    return None

# ------------------------------------------------------------------ C07 steps
@pred
def steps(vals, rb, ra, k):
    b, a = vals[rb], vals[ra]
    if _isP(a): return 'unexpected panic'
    B, A = _A(b), _A(a)
    if A[2] != B[2] + k or v(A[1]) != v(B[1]):
        return 'expected exactly %d blades added with the remainder untouched: %r -> %r' % (k, B, A)
    if b[0] == 'G' and a[0] == 'G' and a[1] != b[1]:
        return 'magnitude changed by a blade-step operator: %r -> %r' % (fb.fl(b[1]), fb.fl(a[1]))
    return None

@pred
def base_enc(vals, rb, ra):
    B, A = _A(vals[rb]), _A(vals[ra])
    if A[2] != B[2] % 4 or A[1] != B[1]:
        return 'base_angle: %r -> %r' % (B, A)
    if vals[rb][0] == 'G' and vals[ra][1] != vals[rb][1]: return 'base_angle changed the magnitude'
    return None

@pred
def grade_is(vals, ra, rres):
    A, g = _A(vals[ra]), vals[rres]
    if g != ('U', A[2] % 4): return 'grade of blade %d reported as %r' % (A[2], g)
    return None

@pred
def is_grade_flags(vals, ra, rs):
    A = _A(vals[ra])
    for k, r in enumerate(rs):
        if vals[r] != ('B', A[2] % 4 == k):
            return 'is-grade-%d flag %r for blade %d' % (k, vals[r], A[2])
    return None

@pred
def grade_angle_val(vals, ra, rres):
    A, x = _A(vals[ra]), vals[rres]
    if not fb.is_finite_bits(x[1]): return 'grade_angle not finite'
    got = v(x[1])
    if got < 0 or got >= 2 * PI: return 'grade_angle %s outside [0, 2pi)' % mp.nstr(got, 17)
    if abs(got - direction(A)) > 8 * EPS:
        return 'grade_angle %s, expected %s' % (mp.nstr(got, 17), mp.nstr(direction(A), 17))
    return None

@pred
def copy_blade_enc(vals, rg, ro, rres):
    g, o, r = vals[rg], vals[ro], vals[rres]
    if r[1] != g[1] or v(r[2]) != v(g[2]): return 'copy_blade changed magnitude or remainder: %r -> %r' % (g, r)
    if o[3] >= g[3]:
        if r[3] != o[3]: return "copy_blade: blade %d, expected the other's blade %d" % (r[3], o[3])
    else:
        if r[3] % 4 != o[3] % 4 or not (g[3] <= r[3] <= g[3] + 6):
            return "copy_blade to a smaller blade: %d -> %d (target %d)" % (g[3], r[3], o[3])
    return None

@pred
def opposite_iff(vals, ra, rb, rres):
    A, B, x = _A(vals[ra]), _A(vals[rb]), vals[rres]
    if _isP(x): return 'is_opposite panicked'
    d = abs(A[2] - B[2])
    gap = abs(v(A[1]) - v(B[1]))
    if d == 2 and gap == 0 and x != ('B', True): return 'blades differ by two with equal remainders but is_opposite is false'
    if d != 2 and x != ('B', False): return 'is_opposite true for blades %d and %d' % (A[2], B[2])
    if gap > mp.mpf('2e-15') and x != ('B', False): return 'is_opposite true for remainders %s apart' % mp.nstr(gap, 5)
    return None

@pred
def history_total(vals, r, num, den):
    """accumulated quarter turns equal the exact rational prediction num/den"""
    A = _A(vals[r])
    m = canon_msg(A)
    if m: return m
    want = mp.mpf(num) / den
    got = mp.mpf(A[2]) + v(A[1]) / HALF
    if abs(got - want) > mp.mpf('1e-9'):
        return 'accumulated %s quarter turns, predicted %s' % (mp.nstr(got, 17), mp.nstr(want, 17))
    fl = num // den
    fr = mp.mpf(num % den) / den
    if mp.mpf('1e-6') < fr < 1 - mp.mpf('1e-6') and A[2] != fl:
        return 'blade %d, predicted %d' % (A[2], fl)
    if num % den == 0 and (A[2] != fl or v(A[1]) > mp.mpf('1e-9')):
        return 'blade %d rem %s, predicted exactly %d quarter turns' % (A[2], mp.nstr(v(A[1]), 5), fl)
    return None

# ------------------------------------------------------------------ C16 equality / order
def _key(x):
    if x[0] == 'A': return (x[2], v(x[1]))
    return (x[3], v(x[2]), v(x[1]))

def _cmp(a, b):
    ka, kb = _key(a), _key(b)
    return 0 if ka < kb else (1 if ka == kb else 2)

@pred
def cmp_expected(vals, ra, rb, rs):
    want = _cmp(vals[ra], vals[rb])
    for r in rs:
        if vals[r] != ('O', want): return 'comparison gave %r, lexicographic order says %d' % (vals[r], want)
    return None

@pred
def rel_expected(vals, ra, rb, rs):
    c = _cmp(vals[ra], vals[rb])
    want = [c == 0, c != 2, c == 2, c != 0]
    for k, r in enumerate(rs):
        if vals[r] != ('B', want[k]): return 'relational operator %d gave %r, expected %s' % (k, vals[r], want[k])
    return None

@pred
def eq_implies(vals, ra, rb, req, rne):
    a, b, e = vals[ra], vals[rb], vals[req]
    if vals[rne] != ('B', not e[1]): return '!= is not the negation of =='
    A, B = _A(a), _A(b)
    same = A[2] == B[2] and v(A[1]) == v(B[1]) and (a[0] == 'A' or v(a[1]) == v(b[1]))
    if same and not e[1]: return 'numerically identical values compare unequal'
    if e[1]:
        if A[2] != B[2]: return 'equal although blades differ: %d vs %d' % (A[2], B[2])
        if abs(v(A[1]) - v(B[1])) >= mp.mpf('1.0000001e-15'): return 'equal although remainders differ by %s' % mp.nstr(abs(v(A[1]) - v(B[1])), 5)
        if a[0] == 'G' and v(a[1]) != v(b[1]): return 'equal although magnitudes differ'
    return None

@pred
def eq_iff_cmp_equal(vals, ra, rb, req, rcmp):
    e, c = vals[req], vals[rcmp]
    if e[1] != (c[1] == 1):
        return '== says %s but cmp says %s' % (e[1], ['Less', 'Equal', 'Greater', 'None'][c[1]])
    return None

@pred
def sorted_perm(vals, rin, rout):
    i, o = vals[rin], vals[rout]
    if _isP(o): return 'sort panicked'
    if sorted(i[1]) != sorted(o[1]): return 'sort output is not a permutation of its input'
    ks = [(g[2], v(g[1]), v(g[0])) for g in o[1]]
    for j in range(len(ks) - 1):
        if ks[j] > ks[j + 1]: return 'sort output not in non-decreasing order at index %d' % j
    return None

# ------------------------------------------------------------------ C17 collections
@pred
def same_coll(vals, rs):
    for r in rs[1:]:
        if vals[r] != vals[rs[0]]: return 'collection content changed: r%d vs r%d' % (rs[0], r)
    return None

@pred
def coll_is(vals, rc, regs):
    c = vals[rc]
    want = [tuple(vals[r][1:4]) for r in regs]
    if c[0] != 'C' or [tuple(g) for g in c[1]] != want:
        return 'collection %r differs from element-wise reference %r' % (c, want)
    return None

@pred
def len_is(vals, rc, rlen, rempty):
    n = len(vals[rc][1])
    if vals[rlen] != ('U', n) or vals[rempty] != ('B', n == 0): return 'len/is_empty wrong: %r %r for %d members' % (vals[rlen], vals[rempty], n)
    return None

@pred
def truncate_ref(vals, rc, tbits, rres):
    t = fb.fl(tbits)
    want = [tuple(g) for g in vals[rc][1] if fb.fl(g[0]) > t]
    got = [tuple(g) for g in vals[rres][1]]
    if got != want: return 'truncate(%r): kept %d members, reference keeps %d' % (t, len(got), len(want))
    return None

@pred
def cone_ref(vals, rc, rdir, hbits, rres):
    d = vals[rdir]
    h = v(hbits)
    got = [tuple(g) for g in vals[rres][1]]
    members = [tuple(g) for g in vals[rc][1]]
    # subsequence check
    it = iter(members)
    for g in got:
        for m in it:
            if m == g: break
        else:
            return 'cone selection is not an order-preserving subsequence'
    band = mp.mpf('1e-7')
    j = 0
    for m in members:
        kept = j < len(got) and got[j] == m
        if kept: j += 1
        G = ('G',) + m
        if v(m[0]) == 0 or v(d[1]) == 0 or fb.fl(m[0]) * fb.fl(d[1]) == 0.0:
            if kept: return 'zero-magnitude member or axis selected'
            continue
        ang = angdiff(direction(_A(G)), direction(_A(d)))
        if (m[1], m[2] % 4) == (d[2], d[3] % 4) and h >= 0 and not kept:
            return 'member pointing exactly along the axis (unsigned angle 0) dropped although the half-angle is %s' % mp.nstr(h, 12)
        if ang < h - band and not kept: return 'member at unsigned angle %s <= half-angle %s dropped' % (mp.nstr(ang, 12), mp.nstr(h, 12))
        if ang > h + band and kept: return 'member at unsigned angle %s > half-angle %s kept' % (mp.nstr(ang, 12), mp.nstr(h, 12))
    return None

@pred
def total_ref(vals, rc, rres):
    ms = [v(g[0]) for g in vals[rc][1]]
    want = sum(ms, mp.mpf(0))
    got = v(vals[rres][1])
    if abs(got - want) > (len(ms) + 1) * EPS * (want + mp.mpf(5e-324)):
        return 'total magnitude %s, sum of members %s' % (mp.nstr(got, 17), mp.nstr(want, 17))
    return None

@pred
def dominant_ref(vals, rc, rres):
    c, d = vals[rc][1], vals[rres]
    if _isP(d): return 'dominant panicked'
    if not c:
        return None if d == ('OG', None) else 'dominant of an empty collection is %r' % (d,)
    if d[1] is None: return 'dominant returned None for a non-empty collection'
    if tuple(d[1]) not in [tuple(g) for g in c]: return 'dominant is not a member'
    mx = max(v(g[0]) for g in c)
    if v(d[1][0]) != mx: return 'dominant magnitude %s, maximum is %s' % (mp.nstr(v(d[1][0]), 17), mp.nstr(mx, 17))
    return None

@pred
def index_ref(vals, rc, i, rres):
    c = vals[rc][1]
    if i < len(c):
        if vals[rres] != ('G',) + tuple(c[i]): return 'index %d returned %r' % (i, vals[rres])
    elif not _isP(vals[rres]):
        return 'out-of-bounds index %d did not panic' % i
    return None

# ------------------------------------------------------------------ numeric helpers for Geonum
def _sv(G):
    """signed scalar value of a geonum encoded at blade 0/2 (or 1/3): magnitude with the sign of the half turn"""
    m = v(G[1])
    return -m if (G[3] % 4) >= 2 else m

def _scale(*gs):
    return sum((abs(v(g[1])) for g in gs), mp.mpf(0))

def _ok_geo(G):
    if _isP(G): return 'unexpected panic'
    return canon_msg(_A(G)) or mag_msg(G)

def _blade_term(n):
    return 4 * N.ulp(mp.mpf(max(n, 1)) * HALF)

def _cart_tol(scale, r_true, blades, snapped=True):
    """tolerance on a Cartesian vector computed by Geonum addition: 1e-10 absolute (the cancellation
    threshold on magnitudes), rounding proportional to the operand scale (growing with the ulp of the
    blade count expressed in radians), the 1e-10 rad boundary snap times the scale - only when the
    result's remainder actually is 0 (every snap returns remainder 0) - and the sqrt(eps) loss under
    near-total cancellation"""
    t = TOL + (64 * EPS + 8 * mp.mpf('1e-15') + _blade_term(blades)) * scale
    if snapped:
        t += TOL * scale
    canc = min(4 * SQEPS * scale, 8 * EPS * scale * scale / max(r_true, mp.mpf('1e-320')))
    return t + canc + mp.mpf(5e-324) * 8

# ------------------------------------------------------------------ C06 / C14 addition
@pred
def cart_sum(vals, ra, rb, rs, sign):
    a, b, s = vals[ra], vals[rb], vals[rs]
    m = _ok_geo(s)
    if m: return m
    ax, ay = cart(a); bx, by = cart(b)
    wx, wy = ax + sign * bx, ay + sign * by
    sx, sy = cart(s)
    scale = _scale(a, b)
    r = mp.sqrt(wx * wx + wy * wy)
    tol = _cart_tol(scale, r, a[3] + b[3] + 2, snapped=(v(s[2]) == 0))
    err = mp.sqrt((sx - wx) ** 2 + (sy - wy) ** 2)
    if err > tol:
        return 'cartesian value of the %s is off by %s (tolerance %s): got (%s, %s), expected (%s, %s)' % (
            'sum' if sign > 0 else 'difference', mp.nstr(err, 5), mp.nstr(tol, 5), mp.nstr(sx, 12), mp.nstr(sy, 12), mp.nstr(wx, 12), mp.nstr(wy, 12))
    return None

@pred
def mag_zero(vals, r):
    x = vals[r]
    if _isP(x): return 'unexpected panic'
    if v(x[1]) != 0: return 'expected zero magnitude, got %s' % mp.nstr(v(x[1]), 17)
    return None

@pred
def cart_close(vals, r1, r2, blades, operands=None):
    """two results denote the same vector; `operands` (registers of the summands) enables the
    sqrt(eps)*scale allowance of near-total cancellation"""
    a, b = vals[r1], vals[r2]
    m = _ok_geo(a) or _ok_geo(b)
    if m: return m
    ax, ay = cart(a); bx, by = cart(b)
    scale = max(_scale(a), _scale(b))
    blades = max(blades, a[3], b[3])
    err = mp.sqrt((ax - bx) ** 2 + (ay - by) ** 2)
    canc = mp.mpf(0)
    if operands:
        oscale = sum((v(vals[r][1]) for r in operands), mp.mpf(0))
        if scale < mp.mpf('1e-3') * oscale:
            canc = 8 * SQEPS * oscale
            scale = max(scale, mp.mpf('1e-3') * oscale)
    if err > 2 * TOL * max(scale, mp.mpf(1)) + (64 * EPS + 2 * _blade_term(blades)) * scale + canc:
        return 'vectors differ by %s: (%s,%s) vs (%s,%s)' % (mp.nstr(err, 5), mp.nstr(ax, 12), mp.nstr(ay, 12), mp.nstr(bx, 12), mp.nstr(by, 12))
    return None

@pred
def same_blade_rem(vals, r1, r2):
    a, b = _A(vals[r1]), _A(vals[r2])
    if a[2] != b[2]: return 'blade history differs: %d vs %d' % (a[2], b[2])
    if abs(v(a[1]) - v(b[1])) > 2 * TOL: return 'remainders differ: %s vs %s' % (mp.nstr(v(a[1]), 17), mp.nstr(v(b[1]), 17))
    return None

@pred
def add_same_angle(vals, ra, rb, rs):
    a, b, s = vals[ra], vals[rb], vals[rs]
    if _isP(s): return 'unexpected panic'
    if (s[2], s[3]) != (a[2], a[3]): return 'identical angles: sum angle %r is not the common angle %r' % (_A(s), _A(a))
    if s[1] != fb.bits(fb.fl(a[1]) + fb.fl(b[1])): return 'identical angles: magnitude %r, expected %r' % (fb.fl(s[1]), fb.fl(a[1]) + fb.fl(b[1]))
    return None

@pred
def add_opposite(vals, ra, rb, rs):
    a, b, s = vals[ra], vals[rb], vals[rs]
    if _isP(s): return 'unexpected panic'
    ma, mb = fb.fl(a[1]), fb.fl(b[1])
    d = ma - mb
    if abs(d) < 1e-10:
        if v(s[1]) != 0 or v(s[2]) != 0 or s[3] != a[3] + b[3]:
            return 'cancelling opposite summands: got %r, expected zero magnitude, remainder 0, blade %d' % (s, a[3] + b[3])
    elif d > 0:
        if (s[2], s[3]) != (a[2], a[3]) or s[1] != fb.bits(d): return 'opposite summands, first larger: got %r, expected magnitude %r at the first angle %r' % (s, d, _A(a))
    else:
        if (s[2], s[3]) != (b[2], b[3]) or s[1] != fb.bits(-d): return 'opposite summands, second larger: got %r, expected magnitude %r at the second angle %r' % (s, -d, _A(b))
    return None

@pred
def add_general_blades(vals, ra, rb, rs):
    a, b, s = vals[ra], vals[rb], vals[rs]
    m = _ok_geo(s)
    if m: return m
    lo = a[3] + b[3]
    if not (lo <= s[3] <= lo + 4): return 'sum blade %d outside [%d, %d]' % (s[3], lo, lo + 4)
    if s[3] == lo + 4 and v(s[2]) > TOL + 2 * _blade_term(lo + 4): return 'sum blade is a full turn above the operand blades with non-zero remainder %s' % mp.nstr(v(s[2]), 5)
    return None

@pred
def grade_from_direction(vals, ra, rb, rs):
    """the sum's grade (and remainder) is fixed by the Cartesian direction of the vector sum"""
    a, b, s = vals[ra], vals[rb], vals[rs]
    ax, ay = cart(a); bx, by = cart(b)
    wx, wy = ax + bx, ay + by
    r = mp.sqrt(wx * wx + wy * wy)
    scale = _scale(a, b)
    if r < mp.mpf('1e-6') * scale or scale == 0: return None
    want = mp.atan2(wy, wx)
    if want < 0: want += 2 * PI
    tol = TOL + 64 * EPS * scale / r + _blade_term(a[3] + b[3] + 2) + 4 * SQEPS * (1 if r < mp.mpf('1e-3') * scale else 0)
    if angdiff(direction(_A(s)), want) > tol:
        return 'direction of the sum %s, expected %s' % (mp.nstr(direction(_A(s)), 15), mp.nstr(want, 15))
    return None

# ------------------------------------------------------------------ C09 dot
@pred
def dot_value(vals, ra, rb, rd):
    a, b, d = vals[ra], vals[rb], vals[rd]
    m = _ok_geo(d)
    if m: return m
    if v(d[2]) != 0 or d[3] not in (0, 2): return 'dot product not encoded at angle 0 or pi: %r' % (_A(d),)
    ab = v(a[1]) * v(b[1])
    want = ab * mp.cos(direction(_A(b)) - direction(_A(a)))
    got = _sv(d)
    tol = ab * (TOL + 16 * EPS) + mp.mpf(5e-324) * 4
    if abs(got - want) > tol: return 'dot product %s, expected %s' % (mp.nstr(got, 17), mp.nstr(want, 17))
    if d[3] == 2 and v(d[1]) == 0: return 'zero dot product encoded at pi'
    if d[1] != 0 and fb.fl(d[1]) > fb.fl(_fmul(a[1], b[1])): return 'dot magnitude exceeds |a||b|'
    return None

@pred
def scalar_close(vals, r1, r2, ra, rb, k):
    """two signed scalars (encoded at 0/pi or pi/2 / 3pi/2) agree within k * |a||b| * tolerance"""
    x, y = vals[r1], vals[r2]
    ab = v(vals[ra][1]) * v(vals[rb][1])
    if abs(_sv(x) - _sv(y)) > k * ab * (TOL + 16 * EPS) + mp.mpf(5e-324) * 8:
        return 'values differ: %s vs %s' % (mp.nstr(_sv(x), 17), mp.nstr(_sv(y), 17))
    return None

@pred
def dot_self(vals, ra, rd):
    a, d = vals[ra], vals[rd]
    if d[3] != 0 or v(d[2]) != 0 or d[1] != _fmul(a[1], a[1]):
        return 'a.a = %r, expected |a|^2 = %r at angle 0' % (d, fb.fl(a[1]) ** 2)
    return None

@pred
def orth_iff(vals, rd, ro):
    d, o = vals[rd], vals[ro]
    want = abs(fb.fl(d[1])) < 1e-10
    if o != ('B', want): return 'is_orthogonal = %r but dot magnitude is %r' % (o, fb.fl(d[1]))
    return None

# ------------------------------------------------------------------ C10 wedge
@pred
def wedge_value(vals, ra, rb, rw):
    a, b, w = vals[ra], vals[rb], vals[rw]
    m = _ok_geo(w)
    if m: return m
    ab = v(a[1]) * v(b[1])
    s = mp.sin(direction(_A(b)) - direction(_A(a)))
    tol = ab * (TOL + 16 * EPS) + mp.mpf(5e-324) * 4
    if abs(v(w[1]) - ab * abs(s)) > tol: return 'wedge magnitude %s, expected %s' % (mp.nstr(v(w[1]), 17), mp.nstr(ab * abs(s), 17))
    A, B, W = _A(a), _A(b), _A(w)
    extra = W[2] - A[2] - B[2]
    err0 = mp.mpf(extra - 1) * HALF + v(W[1]) - v(A[1]) - v(B[1])       # total minus (ta + tb + pi/2)
    # the orientation must follow the sign of sin(delta) unless the library's own 1e-10 snap may have moved the
    # difference across a zero of the sine: that happens only JUST BELOW a quarter-turn boundary (the snap rounds
    # up), never just above one - there the sign is decided down to rounding level
    dlt = direction(_A(b)) - direction(_A(a))
    fr = dlt / HALF - mp.floor(dlt / HALF)
    below_boundary = (1 - fr) * HALF < 2 * TOL
    if abs(s) > mp.mpf('3e-10') or (not below_boundary and abs(s) > mp.mpf('1e-13')):
        want_half = 1 if s < 0 else 0
        if abs(err0 - want_half * PI) > 3 * TOL + 32 * EPS:
            return 'wedge angle is ta+tb+pi/2 %+s, expected %s half turn(s) (sin = %s)' % (mp.nstr(err0, 8), want_half, mp.nstr(s, 5))
    else:
        if min(abs(err0), abs(err0 - PI)) > 3 * TOL + 32 * EPS:
            return 'wedge angle is ta+tb+pi/2 %+s' % mp.nstr(err0, 8)
    return None

@pred
def wedge_swap(vals, ra, rb, rw1, rw2):
    a, b, w1, w2 = vals[ra], vals[rb], vals[rw1], vals[rw2]
    ab = v(a[1]) * v(b[1])
    if abs(v(w1[1]) - v(w2[1])) > 2 * ab * (TOL + 16 * EPS) + mp.mpf(5e-324) * 8: return 'swapped wedge magnitudes differ'
    s = mp.sin(direction(_A(b)) - direction(_A(a)))
    dlt = direction(_A(b)) - direction(_A(a))
    fr1 = dlt / HALF - mp.floor(dlt / HALF); fr2 = (-dlt) / HALF - mp.floor((-dlt) / HALF)
    snap_zone = (1 - fr1) * HALF < 2 * TOL or (1 - fr2) * HALF < 2 * TOL      # either difference just below a quarter-turn boundary
    if (abs(s) > mp.mpf('3e-10') or (not snap_zone and abs(s) > mp.mpf('1e-13'))) and abs(w1[3] - w2[3]) != 2:
        return 'swapping the operands turned the wedge by %d blades, expected exactly 2' % abs(w1[3] - w2[3])
    return None

@pred
def lagrange(vals, ra, rb, rd, rw):
    a, b, d, w = vals[ra], vals[rb], vals[rd], vals[rw]
    ab = v(a[1]) * v(b[1])
    lhs = v(d[1]) ** 2 + v(w[1]) ** 2
    if abs(lhs - ab * ab) > ab * ab * (4 * TOL + 64 * EPS) + mp.mpf('1e-600'):
        return 'dot^2 + wedge^2 = %s, (|a||b|)^2 = %s' % (mp.nstr(lhs, 17), mp.nstr(ab * ab, 17))
    return None

# ------------------------------------------------------------------ C11 projection
@pred
def project_struct(vals, ra, rb, rp):
    a, b, p = vals[ra], vals[rb], vals[rp]
    m = _ok_geo(p)
    if m: return m
    if abs(fb.fl(b[1])) < 1e-10:
        if v(p[1]) != 0: return 'projection onto a (near-)zero vector has magnitude %s' % mp.nstr(v(p[1]), 5)
        return None
    c = mp.cos(direction(_A(b)) - direction(_A(a)))
    ma = v(a[1])
    if abs(v(p[1]) - ma * abs(c)) > ma * (TOL + 16 * EPS) + mp.mpf(5e-324) * 4:
        return 'projection magnitude %s, expected %s' % (mp.nstr(v(p[1]), 17), mp.nstr(ma * abs(c), 17))
    same = (p[2], p[3]) == (b[2], b[3])
    turned = (p[3] == b[3] + 2 and v(p[2]) == v(b[2]))
    if not (same or turned): return "projection angle %r is neither b's angle %r nor b's angle plus pi" % (_A(p), _A(b))
    # the sign of the cosine survives the library's 1e-10 snap on both sides of its zeros (the snapped quarter-turn
    # angles have cosines of the same sign as their lower neighbours), so it is enforced down to rounding level
    if abs(c) > mp.mpf('1e-13') and ((c > 0) != same): return 'projection sign: cos = %s but angle %s' % (mp.nstr(c, 5), "b's" if same else "b's + pi")
    return None

@pred
def proj_rej_laws(vals, ra, rb, rp, rr, rsum):
    a, b, p, rj, s = vals[ra], vals[rb], vals[rp], vals[rr], vals[rsum]
    if abs(fb.fl(b[1])) < 1e-10: return _ok_geo(rj)
    m = _ok_geo(rj) or _ok_geo(s)
    if m: return m
    ma = v(a[1])
    ax, ay = cart(a); sx, sy = cart(s)
    bl = a[3] + b[3] + 8
    if mp.sqrt((ax - sx) ** 2 + (ay - sy) ** 2) > ma * (4 * SQEPS + 4 * TOL + 4 * _blade_term(2 * bl)) + 2 * TOL:
        return 'projection + rejection does not reproduce a: (%s,%s) vs (%s,%s)' % (mp.nstr(sx, 12), mp.nstr(sy, 12), mp.nstr(ax, 12), mp.nstr(ay, 12))
    if abs(v(p[1]) ** 2 + v(rj[1]) ** 2 - ma * ma) > ma * ma * (8 * TOL + 64 * EPS + 8 * _blade_term(bl)) + 4 * TOL * ma + 4 * TOL * TOL:
        return '|proj|^2 + |rej|^2 = %s, |a|^2 = %s' % (mp.nstr(v(p[1]) ** 2 + v(rj[1]) ** 2, 17), mp.nstr(ma * ma, 17))
    if v(rj[1]) > mp.mpf('1e-5') * ma and v(rj[1]) > mp.mpf('1e-4'):
        c = mp.cos(direction(_A(rj)) - direction(_A(b)))
        if abs(c) > mp.mpf('2e-9') + 4 * SQEPS * ma / v(rj[1]) * mp.mpf('1e-3') + 8 * _blade_term(bl):
            return 'rejection not orthogonal to b: cosine %s' % mp.nstr(c, 5)
    return None

@pred
def float_value(vals, r, want_s, tol_s):
    """a float register equals a reference value (given as decimal strings) within tol"""
    x = vals[r]
    if x[0] != 'F' or not fb.is_finite_bits(x[1]): return 'not a finite float: %r' % (x,)
    if abs(v(x[1]) - mp.mpf(want_s)) > mp.mpf(tol_s): return 'value %s, expected %s' % (mp.nstr(v(x[1]), 17), want_s)
    return None

@pred
def angle_project_value(vals, ra, rb, rf, rmag):
    """Angle::project / project_to_dimension: (mag *) cos(onto - self)"""
    A, B, x = _A(vals[ra]), _A(vals[rb]), vals[rf]
    mag = v(vals[rmag][1]) if rmag >= 0 else mp.mpf(1)
    if not fb.is_finite_bits(x[1]): return 'projection not finite'
    want = mag * mp.cos(direction(B) - direction(A))
    if abs(v(x[1]) - want) > mag * (TOL + 16 * EPS) + mp.mpf(5e-324) * 4:
        return 'projection %s, expected %s' % (mp.nstr(v(x[1]), 17), mp.nstr(want, 17))
    return None

@pred
def project_to_angle_enc(vals, rg, ra, rres):
    g, A, p = vals[rg], _A(vals[ra]), vals[rres]
    m = _ok_geo(p)
    if m: return m
    if v(p[2]) != 0 or p[3] not in (0, 2): return 'project_to_angle not encoded at 0 or pi: %r' % (_A(p),)
    mag = v(g[1])
    want = mag * mp.cos(direction(A) - direction(_A(g)))
    if abs(_sv(p) - want) > mag * (TOL + 16 * EPS) + mp.mpf(5e-324) * 4: return 'project_to_angle %s, expected %s' % (mp.nstr(_sv(p), 17), mp.nstr(want, 17))
    return None

# ------------------------------------------------------------------ C12 rotation / reflection
@pred
def reflect_law(vals, rp, rax, rr):
    p, ax, r = vals[rp], vals[rax], vals[rr]
    m = _ok_geo(r)
    if m: return m
    if r[1] != p[1]: return 'reflection changed the magnitude'
    if r[3] < 2 * ax[3]: return 'reflection carries %d blades, fewer than twice the axis (%d)' % (r[3], 2 * ax[3])
    want = 2 * direction(_A(ax)) - direction(_A(p))
    if angdiff(direction(_A(r)), want) > 3 * TOL + 32 * EPS:
        return 'reflected direction %s, expected 2*alpha - t = %s (mod 2pi)' % (mp.nstr(direction(_A(r)), 15), mp.nstr(mp.fmod(want + 4 * PI, 2 * PI), 15))
    return None

@pred
def direction_close(vals, r1, r2, k):
    a, b = _A(vals[r1]), _A(vals[r2])
    if angdiff(direction(a), direction(b)) > k * TOL + 32 * EPS:
        return 'directions differ: %s vs %s' % (mp.nstr(direction(a), 15), mp.nstr(direction(b), 15))
    return None

@pred
def same_grade_rem_plus(vals, r1, r2, dblades):
    a, b = _A(vals[r1]), _A(vals[r2])
    if b[2] != a[2] + dblades or v(a[1]) != v(b[1]):
        return 'expected the same remainder with %d more blades: %r vs %r' % (dblades, a, b)
    return None

@pred
def scale_rotate_enc(vals, rg, fbits, rrot, rres, rref):
    g, r = vals[rg], vals[rres]
    f = fb.fl(fbits)
    if v(r[1]) != v(fb.bits(fb.fl(g[1]) * abs(f))): return 'scale_rotate magnitude %r, expected %r' % (fb.fl(r[1]), fb.fl(g[1]) * abs(f))
    if (r[2], r[3]) != (vals[rref][1], vals[rref][2]) if vals[rref][0] == 'A' else (r[2], r[3]) != (vals[rref][2], vals[rref][3]):
        return 'scale_rotate angle %r differs from the reference %r' % (_A(r), _A(vals[rref]))
    return None

# ------------------------------------------------------------------ C13 distance / inversion
@pred
def distance_value(vals, ra, rb, rd):
    a, b, d = vals[ra], vals[rb], vals[rd]
    m = _ok_geo(d)
    if m: return m
    if d[3] != 0 or v(d[2]) != 0: return 'distance not at angle 0: %r' % (_A(d),)
    ax, ay = cart(a); bx, by = cart(b)
    want = mp.sqrt((ax - bx) ** 2 + (ay - by) ** 2)
    scale = _scale(a, b)
    tol = _cart_tol(scale, want, 4)
    if abs(v(d[1]) - want) > tol: return 'distance %s, expected %s (tolerance %s)' % (mp.nstr(v(d[1]), 17), mp.nstr(want, 17), mp.nstr(tol, 5))
    return None

@pred
def mags_close(vals, r1, r2, rscale, kind):
    """two magnitudes agree within the sqrt(eps) cancellation bound of the operand scale"""
    x, y = vals[r1], vals[r2]
    if _isP(x) or _isP(y): return 'unexpected panic'
    scale = sum((v(vals[r][1]) for r in rscale), mp.mpf(0))
    bl = sum((vals[r][3] for r in rscale), 0)
    tol = (8 * SQEPS + 4 * TOL + 4 * _blade_term(bl + 4)) * scale + 2 * TOL      # + the absolute 1e-10 cancellation threshold of Geonum addition
    if abs(v(x[1]) - v(y[1])) > tol: return '%s: %s vs %s' % (kind, mp.nstr(v(x[1]), 17), mp.nstr(v(y[1]), 17))
    return None

@pred
def triangle(vals, rab, rbc, rac, rscale):
    scale = sum((v(vals[r][1]) for r in rscale), mp.mpf(0))
    slack = v(vals[rab][1]) + v(vals[rbc][1]) - v(vals[rac][1])
    if slack < -((8 * SQEPS + 4 * TOL) * scale + 3 * TOL): return 'triangle inequality violated by %s' % mp.nstr(-slack, 5)
    return None

@pred
def mag_diff_exact(vals, ra, rb, rf):
    want = fb.bits(abs(fb.fl(vals[ra][1]) - fb.fl(vals[rb][1])))
    if vals[rf] != ('F', want): return 'mag_diff %r, expected %r' % (vals[rf], fb.fl(want))
    return None

@pred
def invert_laws(vals, rp, rc, radbits, roff, rinv):
    p, c, off, q = vals[rp], vals[rc], vals[roff], vals[rinv]
    if _isP(p) or _isP(c):
        return None            # second-level call on an inversion that (legitimately or not) panicked: judged by the call that produced it
    if v(off[1]) == 0:
        return None if _isP(q) else 'inversion of the circle centre did not panic'
    if _isP(q): return 'invert_circle panicked although the point is not the centre'
    m = _ok_geo(q)
    if m: return m
    rad = v(radbits)
    px, py = cart(p); cx, cy = cart(c); qx, qy = cart(q)
    d1 = mp.sqrt((px - cx) ** 2 + (py - cy) ** 2)
    d2 = mp.sqrt((qx - cx) ** 2 + (qy - cy) ** 2)
    if d1 == 0: return None
    scale = v(p[1]) + v(c[1])
    # the absolute 1e-10 allowance exists only where the library has an absolute threshold: the cancellation test of
    # exactly opposite summands (|diff| < 1e-10 -> 0), i.e. when the two magnitudes being combined are within 1e-9
    canc1 = 2 * TOL if abs(v(p[1]) - v(c[1])) < 10 * TOL else 0
    rel1 = ((4 * SQEPS + 4 * TOL) * scale + canc1) / d1                   # relative error of |p - c|
    want2 = rad * rad / d1
    scale2 = v(c[1]) + want2
    canc2 = 2 * TOL if abs(v(c[1]) - want2) < 10 * TOL else 0
    abs2 = (4 * SQEPS + 4 * TOL) * scale2 + canc2 + want2 * 2 * rel1      # absolute error allowed on |p' - c|
    if rel1 > mp.mpf('0.05'): return None                                 # ill-conditioned: nothing to check
    if abs(d2 - want2) > abs2 + 64 * EPS * want2:
        return "|p'-c||p-c| = %s, r^2 = %s" % (mp.nstr(d1 * d2, 12), mp.nstr(rad * rad, 12))
    if want2 > 1000 * abs2:
        # same ray from c
        t1 = mp.atan2(py - cy, px - cx); t2 = mp.atan2(qy - cy, qx - cx)
        if angdiff(t1, t2) > 4 * rel1 + 4 * abs2 / want2 + 8 * TOL: return 'inverted point not on the ray from the centre: %s vs %s' % (mp.nstr(t1, 12), mp.nstr(t2, 12))
    return None

# ------------------------------------------------------------------ C15 trig gateways
@pred
def trig_enc(vals, ra, rc, rs):
    A, c, s = _A(vals[ra]), vals[rc], vals[rs]
    m = _ok_geo(c) or _ok_geo(s)
    if m: return m
    t = direction(A)
    if v(c[2]) != 0 or c[3] not in (0, 2): return 'cos not at angle 0 or pi: %r' % (_A(c),)
    if v(s[2]) != 0 or s[3] not in (1, 3): return 'sin not at angle pi/2 or 3pi/2: %r' % (_A(s),)
    if abs(_sv(c) - mp.cos(t)) > 16 * EPS: return 'cos value %s, expected %s' % (mp.nstr(_sv(c), 17), mp.nstr(mp.cos(t), 17))
    if abs(_sv(s) - mp.sin(t)) > 16 * EPS: return 'sin value %s, expected %s' % (mp.nstr(_sv(s), 17), mp.nstr(mp.sin(t), 17))
    if abs(v(c[1]) ** 2 + v(s[1]) ** 2 - 1) > 16 * EPS: return 'cos^2 + sin^2 = %s' % mp.nstr(v(c[1]) ** 2 + v(s[1]) ** 2, 17)
    if (c[3] == 2 and v(c[1]) == 0) or (s[3] == 3 and v(s[1]) == 0): return 'zero value carried at the negative half turn'
    return None

@pred
def tan_enc(vals, ra, rt):
    A, t = _A(vals[ra]), vals[rt]
    th = direction(A)
    c = mp.cos(th)
    if _isP(t):
        return None if abs(c) < 64 * EPS else 'tan panicked although cos = %s' % mp.nstr(c, 5)
    if t[3] % 2 != 1: return 'tan has even grade: blade %d' % t[3]
    if abs(c) > mp.mpf('1e-6'):
        want = abs(mp.tan(th))
        if abs(v(t[1]) - want) > 64 * EPS * (1 + want) * (1 + want): return 'tan magnitude %s, expected %s' % (mp.nstr(v(t[1]), 17), mp.nstr(want, 17))
    return None

@pred
def adj_opp_enc(vals, rg, radj, ropp):
    g, a, o = vals[rg], vals[radj], vals[ropp]
    m = _ok_geo(a) or _ok_geo(o)
    if m: return m
    x, y = cart(g); mg = v(g[1])
    if a[3] % 2 != 0 or o[3] % 2 != 1 or v(a[2]) != 0 or v(o[2]) != 0: return 'adj/opp not on the quarter-turn lattice: %r %r' % (_A(a), _A(o))
    if abs(_sv(a) - x) > 32 * EPS * mg + mp.mpf(5e-324) * 4: return 'adj %s, expected %s' % (mp.nstr(_sv(a), 17), mp.nstr(x, 17))
    if abs(_sv(o) - y) > 32 * EPS * mg + mp.mpf(5e-324) * 4: return 'opp %s, expected %s' % (mp.nstr(_sv(o), 17), mp.nstr(y, 17))
    if abs(v(a[1]) ** 2 + v(o[1]) ** 2 - mg * mg) > 64 * EPS * mg * mg + mp.mpf('1e-600'): return 'adj^2 + opp^2 != |g|^2'
    return None

# ------------------------------------------------------------------ C08 shifts
@pred
def measure_shift_equal(vals, r1, r2, n):
    """a measurement repeated with operands shifted by whole turns: floats within n ulps; geonums with
    magnitude within n ulps, identical remainder and grade (blade difference a multiple of 4)"""
    a, b = vals[r1], vals[r2]
    if a[0] != b[0]: return 'kinds differ: %r vs %r' % (a, b)
    if a[0] in ('B', 'U', 'O', 'P'):
        return None if a == b else 'measurement changed under a whole-turn shift: %r vs %r' % (a, b)
    if a[0] == 'F':
        if not (fb.is_finite_bits(a[1]) and fb.is_finite_bits(b[1])): return 'non-finite measurement'
        return None if _ulps(a[1], b[1]) <= n else 'measurement changed under a whole-turn shift: %r vs %r' % (fb.fl(a[1]), fb.fl(b[1]))
    if a[0] == 'G':
        if _ulps(a[1], b[1]) > n: return 'magnitude changed under a whole-turn shift: %r vs %r' % (fb.fl(a[1]), fb.fl(b[1]))
        if (b[3] - a[3]) % 4 != 0 or _ulps(a[2], b[2]) > n: return 'grade or remainder changed under a whole-turn shift: %r vs %r' % (_A(a), _A(b))
        return None
    if a[0] == 'C':
        return None if a == b else 'selection changed under a whole-turn shift'
    return None

@pred
def blade_shift_is(vals, r1, r2, d):
    a, b = _A(vals[r1]), _A(vals[r2])
    if b[2] - a[2] != d: return 'result blade shifted by %d, predicted %d' % (b[2] - a[2], d)
    return None

# ------------------------------------------------------------------ C01 whole-program walk
from .prog import OPS as _OPS, reg_args as _reg_args

_BLADE_MAX = 2 ** 40
def _in_dom(x):
    k = x[0]
    if k == 'A': return x[2] <= _BLADE_MAX and canon_msg(x) is None
    if k == 'G':
        if x[3] > _BLADE_MAX or canon_msg(_A(x)) is not None or not fb.is_finite_bits(x[1]): return False
        m = v(x[1])
        return m == 0 or mp.mpf('1e-100') <= m <= mp.mpf('1e100')
    if k == 'F': return fb.is_finite_bits(x[1])
    if k == 'U': return x[1] <= _BLADE_MAX
    if k == 'C': return all(_in_dom(('G',) + tuple(g)) for g in x[1])
    if k == 'OG': return x[1] is None or _in_dom(('G',) + tuple(x[1]))
    if k in ('P', 'E'): return False
    return True

_PANIC_RULE = {'GInv': 0, 'GNormalize': 0, 'GDiv': 1, 'GDivM': 1, 'TEPot': 1}   # operand (register arg index) whose zero magnitude is the documented panic

@pred
def c01_walk(vals, prog):
    """every register produced from in-domain operands is canonical / finite / non-negative, and a
    panic occurs exactly in the documented zero-magnitude cases"""
    dom = []
    for i, ins in enumerate(prog):
        op, args = ins[0], ins[1:]
        x = vals[i]
        ra = _reg_args(op, args)
        ok_in = all(a < i and dom[a] for a in ra)
        dom.append(_in_dom(x))
        if not ok_in or op in ('FImm', 'UImm'):
            continue
        gs = [vals[a] for a in ra if vals[a][0] == 'G']
        prod = mp.mpf(1)
        for g in gs: prod *= v(g[1])
        if len(gs) >= 2 and prod != 0 and not (mp.mpf('1e-100') <= prod <= mp.mpf('1e100')):
            continue                                    # intermediate product outside the domain: out of scope
        want_panic = None
        if op in _PANIC_RULE:
            want_panic = v(vals[ra[_PANIC_RULE[op]]][1]) == 0
        elif op == 'GTan':
            # tan = sin / cos: panics exactly when the cosine gateway has zero magnitude (register i-1 by construction)
            want_panic = (i > 0 and prog[i - 1][0] == 'GCos' and prog[i - 1][1] == args[0] and v(vals[i - 1][1]) == 0)
        elif op == 'GInvCircle':
            want_panic = (i > 0 and prog[i - 1][0] == 'GSub' and prog[i - 1][2:] == [args[0], args[1]] and v(vals[i - 1][1]) == 0)
        elif op == 'CIndex':
            want_panic = vals[ra[1]][1] >= len(vals[ra[0]][1])
        if want_panic is not None:
            if want_panic and x[0] != 'P': return 'r%d = %s: documented panic did not occur' % (i, op)
            if not want_panic and x[0] == 'P': return 'r%d = %s: unexpected panic' % (i, op)
            if want_panic: continue
        k = x[0]
        if k == 'P': return 'r%d = %s: unexpected panic on in-domain operands' % (i, op)
        if k == 'A': m = canon_msg(x)
        elif k == 'G': m = canon_msg(_A(x)) or mag_msg(x)
        elif k == 'C':
            m = None
            for g in x[1]:
                G = ('G',) + tuple(g)
                m = canon_msg(_A(G)) or mag_msg(G)
                if m: break
        elif k == 'OG' and x[1] is not None:
            G = ('G',) + tuple(x[1]); m = canon_msg(_A(G)) or mag_msg(G)
        elif k == 'F': m = None if fb.is_finite_bits(x[1]) else 'float result not finite'
        else: m = None
        if m: return 'r%d = %s: %s' % (i, op, m)
    return None

@pred
def len_equal(vals, r1, r2):
    if len(vals[r1][1]) != len(vals[r2][1]): return 'selection size changed under a whole-turn shift: %d vs %d' % (len(vals[r1][1]), len(vals[r2][1]))
    return None

# ------------------------------------------------------------------ C18 / C19 trait helpers
MU0 = 4.0 * math.pi * 1e-7
C_LIGHT = 3.0e8
EPS0 = 1.0 / (MU0 * C_LIGHT * C_LIGHT)
Z0 = MU0 * C_LIGHT
K_COULOMB = 1.0 / (4.0 * math.pi * EPS0)

def _f(bits): return fb.fl(bits)
def _grade_angle_f(A):
    """the library's own float grade_angle: (grade as f64 * PI) / 2.0 + rem"""
    return float(A[2] % 4) * math.pi / 2.0 + _f(A[1])

def _rel_close(got, want, k=64):
    return abs(got - want) <= k * EPS * abs(want) + mp.mpf(5e-324) * 8

@pred
def constants_are(vals, rs):
    want = [C_LIGHT, MU0, EPS0, Z0, 1e-10]
    for r, w in zip(rs, want):
        if vals[r] != ('F', fb.bits(w)): return 'constant %r, expected %r' % (vals[r], w)
    return None

@pred
def area_ref(vals, rarea, rw1, rw2):
    want = _f(vals[rw1][1]) / 2.0 + _f(vals[rw2][1]) / 2.0
    if vals[rarea] != ('F', fb.bits(want)): return 'area %r, expected |e1^e2|/2 + |e3^e4|/2 = %r' % (vals[rarea], want)
    return None

@pred
def poynting_ref(vals, rres, rw):
    r, w = vals[rres], vals[rw]
    if r[1] != fb.bits(_f(w[1]) / MU0) or (r[2], r[3]) != (w[2], w[3]):
        return 'poynting %r, expected the wedge %r with magnitude / mu0' % (r, w)
    return None

@pred
def mag_is_quotient(vals, rres, rnum, rden, blade):
    r = vals[rres]
    want = _f(vals[rnum][1]) / _f(vals[rden][1])
    if r[1] != fb.bits(want): return 'magnitude %r, expected %r' % (_f(r[1]), want)
    if r[3] != blade or v(r[2]) != 0: return 'angle %r, expected blade %d remainder 0' % (_A(r), blade)
    return None

@pred
def mag_is_one(vals, r):
    if vals[r][1] != fb.bits(1.0): return 'magnitude %r, expected exactly 1' % _f(vals[r][1])
    return None

@pred
def forward_ref(vals, rx, rw, rb, rres, rang):
    x, w, b, r = vals[rx], vals[rw], vals[rb], vals[rres]
    want = _f(x[1]) * _f(w[1]) + _f(b[1])
    if r[1] != fb.bits(want): return 'forward pass magnitude %r, expected |x||w| + |b| = %r' % (_f(r[1]), want)
    if (r[2], r[3]) != (vals[rang][1], vals[rang][2]): return 'forward pass angle %r, expected the summed angle %r' % (_A(r), vals[rang])
    return None

@pred
def activate_ref(vals, rg, kind, rres):
    g, r = vals[rg], vals[rres]
    if (r[2], r[3]) != (g[2], g[3]): return 'activation changed the angle: %r -> %r' % (_A(g), _A(r))
    c = mp.cos(direction(_A(g))); m = v(g[1]); got = v(r[1])
    if not fb.is_finite_bits(r[1]): return 'activation magnitude not finite'
    if kind == 0:
        if c > mp.mpf('1e-12') and r[1] != g[1]: return 'ReLU with cos t = %s > 0 did not pass the magnitude' % mp.nstr(c, 5)
        if c < -mp.mpf('1e-12') and got != 0: return 'ReLU with cos t = %s <= 0 returned %s' % (mp.nstr(c, 5), mp.nstr(got, 5))
        if got != 0 and r[1] != g[1]: return 'ReLU returned neither the magnitude nor zero'
    elif kind == 1:
        want = m / (1 + mp.exp(-c))
        if not _rel_close(got, want): return 'sigmoid magnitude %s, expected %s' % (mp.nstr(got, 17), mp.nstr(want, 17))
        if m > 0 and not (0 < got < m): return 'sigmoid output %s not strictly between 0 and the magnitude %s' % (mp.nstr(got, 17), mp.nstr(m, 17))
    elif kind == 2:
        want = m * mp.tanh(c)
        if abs(got - want) > 64 * EPS * m + mp.mpf(5e-324) * 8: return 'tanh magnitude %s, expected %s' % (mp.nstr(got, 17), mp.nstr(want, 17))
        if abs(got) > m: return '|tanh output| exceeds the magnitude'
    else:
        if r != g: return 'identity activation changed the value'
    return None

@pred
def inverse_field_ref(vals, rch, rdist, rpow, rang, rk, rres):
    ch, d, p, A, k, r = vals[rch], vals[rdist], vals[rpow], _A(vals[rang]), vals[rk], vals[rres]
    if _isP(r): return 'unexpected panic'
    want = v(k[1]) * v(ch[1]) / mp.power(v(d[1]), v(p[1]))
    if want == 0 and v(d[1]) > 0:
        # a zero charge: zero field, and the direction still follows the sign carried by the charge's angle
        if not fb.is_finite_bits(r[1]) or v(r[1]) != 0: return 'field of a zero charge has magnitude %s' % mp.nstr(v(r[1]), 17)
    else:
        if not (mp.mpf('1e-300') < want < mp.mpf('1e300')): return None
        if not fb.is_finite_bits(r[1]) or not _rel_close(v(r[1]), want, 256): return 'field magnitude %s, expected k q / r^n = %s' % (mp.nstr(v(r[1]), 17), mp.nstr(want, 17))
    c = mp.cos(direction(_A(ch)))
    R = _A(r)
    same = (R[1], R[2]) == (A[1], A[2])
    turned = R[2] == A[2] + 2 and v(R[1]) == v(A[1])
    if not (same or turned): return 'field direction %r is neither the given angle %r nor that angle plus pi' % (R, A)
    if abs(c) > mp.mpf('1e-12') and ((c > 0) != same): return 'charge sign (cos = %s) and half turn disagree' % mp.nstr(c, 5)
    return None

@pred
def wire_ref(vals, rr, rcur, rperm, rA, rB):
    rr_, cur, perm, A, B = vals[rr], vals[rcur], vals[rperm], vals[rA], vals[rB]
    wantA = _f(perm[1]) * _f(cur[1]) * math.log(_f(rr_[1])) / (2.0 * math.pi)
    wantB = _f(perm[1]) * _f(cur[1]) / (2.0 * math.pi * _f(rr_[1]))
    if abs(v(A[1]) - mp.mpf(wantA)) > 8 * EPS * abs(mp.mpf(wantA)) + mp.mpf(5e-324) * 8: return 'wire vector potential %r, expected %r' % (_f(A[1]), wantA)
    if A[3] != 1 or v(A[2]) != 0: return 'wire vector potential not at pi/2'
    if B[1] != fb.bits(wantB): return 'wire magnetic field %r, expected mu I / (2 pi r) = %r' % (_f(B[1]), wantB)
    if B[3] != 0 or v(B[2]) != 0: return 'wire magnetic field not at angle 0'
    return None

@pred
def spherical_ref(vals, rr, rt, rk, rs, rres):
    r_, t, k, s, res = [vals[x] for x in (rr, rt, rk, rs, rres)]
    omega = _f(k[1]) * _f(s[1])
    arg = _f(k[1]) * _f(r_[1]) - omega * _f(t[1])
    want = mp.cos(mp.mpf(arg)) / v(r_[1])
    if v(res[2]) != 0 or res[3] not in (0, 2): return 'spherical wave potential not encoded at 0 or pi'
    if abs(_sv(res) - want) > 16 * EPS / v(r_[1]) + 16 * EPS * abs(want): return 'spherical wave potential %s, expected %s' % (mp.nstr(_sv(res), 17), mp.nstr(want, 17))
    return None

def _radians_dir(x):
    d = mp.fmod(x, 2 * PI)
    if d < 0: d += 2 * PI
    return d

@pred
def refract_ref(vals, rg, rn, rres):
    g, n, r = vals[rg], vals[rn], vals[rres]
    if r[1] != g[1]: return 'refraction changed the magnitude'
    s = mp.sin(direction(_A(g)))
    ratio = s / v(n[1])
    if abs(ratio) > 1 - mp.mpf('1e-9'): return None
    m = canon_msg(_A(r))
    if m: return m
    want = mp.asin(ratio)
    tol = 2 * TOL + 64 * EPS / mp.sqrt(1 - ratio * ratio)
    if angdiff(direction(_A(r)), _radians_dir(want)) > tol: return 'refracted angle %s, expected asin(sin t / n) = %s' % (mp.nstr(direction(_A(r)), 15), mp.nstr(_radians_dir(want), 15))
    if abs(v(n[1]) * mp.sin(direction(_A(r))) - s) > (2 * TOL + 64 * EPS) * max(v(n[1]), 1) * (1 + 1 / mp.sqrt(1 - ratio * ratio)):
        return 'Snell: n sin(t_out) = %s, sin(t_in) = %s' % (mp.nstr(v(n[1]) * mp.sin(direction(_A(r))), 15), mp.nstr(s, 15))
    return None

@pred
def aberrate_ref(vals, rg, rz, rres):
    """phase = angle + sum over terms of Angle::new(mag * cos(3 sin t), PI): each term is its own forward
    rotation (a negative effect is lifted by whole turns before it is added), so the TOTAL is checked"""
    g, r = vals[rg], vals[rres]
    if r[1] != g[1]: return 'aberration changed the magnitude'
    m = canon_msg(_A(r))
    if m: return m
    tot = theta(_A(g))
    big = mp.mpf(0)
    for z in rz:
        Z = vals[z]
        e = v(Z[1]) * mp.cos(mp.sin(direction(_A(Z))) * 3)
        if e < 0:
            e = e + 2 * PI * mp.ceil(-e / (2 * PI))
        tot += e; big += abs(e)
    tol = (len(rz) + 1) * 2 * TOL + 64 * EPS * (1 + big) + 4 * N.ulp(theta(_A(g)))
    got = theta(_A(r))
    near_turn = any(abs(v(vals[z][1]) * mp.cos(mp.sin(direction(_A(vals[z]))) * 3)) < mp.mpf('1e-9') for z in rz)
    if abs(got - tot) > tol and not (near_turn and angdiff(direction(_A(r)), _radians_dir(tot)) <= tol):
        return 'aberrated phase total %s, expected angle + sum of the per-term forward rotations = %s' % (mp.nstr(got, 17), mp.nstr(tot, 17))
    return None

@pred
def otf_ref(vals, rg, rf, rw, rres):
    g, f, w, r = vals[rg], vals[rf], vals[rw], vals[rres]
    want = _f(g[1]) / (_f(w[1]) * _f(f[1]))
    if r[1] != fb.bits(want): return 'otf magnitude %r, expected %r' % (_f(r[1]), want)
    if r[3] != g[3] + 1 or v(r[2]) != v(g[2]): return 'otf phase %r, expected one more blade than %r' % (_A(r), _A(g))
    return None

@pred
def abcd_ref(vals, rg, ra, rb, rc, rd, rres):
    g, a, b, c, d, r = [vals[x] for x in (rg, ra, rb, rc, rd, rres)]
    th = _grade_angle_f(_A(g)); h = _f(g[1])
    want_h = _f(a[1]) * h + _f(b[1]) * th
    want_t = _f(c[1]) * h + _f(d[1]) * th
    if r[1] != fb.bits(want_h): return 'ABCD height %r, expected A h + B theta = %r' % (_f(r[1]), want_h)
    m = canon_msg(_A(r))
    if m: return m
    if angdiff(direction(_A(r)), _radians_dir(mp.mpf(want_t))) > 2 * TOL + 64 * EPS * (1 + abs(mp.mpf(want_t))): return 'ABCD angle %s, expected C h + D theta = %r' % (mp.nstr(direction(_A(r)), 15), want_t)
    # the angle is REBUILT from radians (Angle::new(C h + D theta, PI)): its total is that many radians, lifted by
    # whole turns when negative - no blade history of the incoming ray survives
    t = mp.mpf(want_t)
    exp_total = t if t >= 0 else t + 2 * PI * mp.ceil(-t / (2 * PI))
    A = _A(r)
    got_total = mp.mpf(A[2]) * HALF + v(A[1])
    if abs(got_total - exp_total) > 2 * TOL + 64 * EPS * (1 + abs(t)) and abs(got_total - exp_total - 2 * PI) > 2 * TOL + 64 * EPS * (1 + abs(t)):
        return 'ABCD angle total %s rad, expected %s rad (rebuilt from C h + D theta)' % (mp.nstr(got_total, 15), mp.nstr(exp_total, 15))
    return None

@pred
def magnify_ref(vals, rg, rm, rres):
    g, mg, r = vals[rg], vals[rm], vals[rres]
    m = _f(mg[1])
    want = _f(g[1]) * (1.0 / (m * m))
    if r[1] != fb.bits(want): return 'magnified intensity %r, expected |g| / m^2 = %r' % (_f(r[1]), want)
    mm = canon_msg(_A(r))
    if mm: return mm
    want_a = -mp.sin(direction(_A(g))) / v(mg[1])
    if angdiff(direction(_A(r)), _radians_dir(want_a)) > 2 * TOL + 64 * EPS * (1 + abs(want_a)): return 'image angle %s, expected -sin t / m = %s' % (mp.nstr(direction(_A(r)), 15), mp.nstr(_radians_dir(want_a), 15))
    return None

@pred
def regression_ref(vals, cbits, vbits, rres):
    r = vals[rres]
    c, vv = _f(cbits), _f(vbits)
    want = math.sqrt(c * c / vv)
    if r[1] != fb.bits(want): return 'regression magnitude %r, expected sqrt(cov^2/var) = %r' % (_f(r[1]), want)
    m = canon_msg(_A(r))
    if m: return m
    wa = mp.atan2(mp.mpf(c), mp.mpf(vv))
    if angdiff(direction(_A(r)), _radians_dir(wa)) > 2 * TOL + 64 * EPS: return 'regression angle %s, expected atan2(cov, var) = %s' % (mp.nstr(direction(_A(r)), 15), mp.nstr(_radians_dir(wa), 15))
    return None

@pred
def perceptron_ref(vals, rg, lrbits, ebits, rin, rres):
    g, inp, r = vals[rg], vals[rin], vals[rres]
    lr, e = _f(lrbits), _f(ebits)
    want = _f(g[1]) + lr * e * _f(inp[1])
    if r[1] != fb.bits(want): return 'perceptron magnitude %r, expected %r' % (_f(r[1]), want)
    m = canon_msg(_A(r))
    if m: return m
    sign = -1.0 if inp[3] % 4 > 2 else 1.0
    upd = mp.mpf(-lr * e * sign)
    if angdiff(direction(_A(r)), _radians_dir(direction(_A(g)) + upd)) > 3 * TOL + 64 * EPS * (1 + abs(upd)): return 'perceptron angle %s, expected %s' % (mp.nstr(direction(_A(r)), 15), mp.nstr(_radians_dir(direction(_A(g)) + upd), 15))
    return None

@pred
def ratio_is(vals, r1, r2, want_s, k):
    """|r1| / |r2| equals the reference ratio within k * 1e-13 relative"""
    a, b = v(vals[r1][1]), v(vals[r2][1])
    want = mp.mpf(want_s)
    if b == 0: return None
    if abs(a / b - want) > k * mp.mpf('1e-13') * want: return 'ratio %s, expected %s' % (mp.nstr(a / b, 17), mp.nstr(want, 17))
    return None

@pred
def float_close_rel(vals, r1, r2, rscale, k):
    """two float measurements agree within k*sqrt(eps)*scale^2 (areas), scale = sum of the listed magnitudes"""
    a, b = vals[r1], vals[r2]
    if not (fb.is_finite_bits(a[1]) and fb.is_finite_bits(b[1])): return 'non-finite area'
    scale = sum((v(vals[r][1]) for r in rscale), mp.mpf(0))
    bl = max([vals[r][3] for r in rscale] + [1])
    if abs(v(a[1]) - v(b[1])) > (k * SQEPS + 8 * TOL + 8 * _blade_term(bl)) * scale * scale + 8 * TOL * scale + 8 * TOL * TOL: return 'areas differ: %s vs %s' % (mp.nstr(v(a[1]), 17), mp.nstr(v(b[1]), 17))
    return None

@pred
def shoelace(vals, rarea, rps):
    pts = [cart(vals[r]) for r in rps]
    s = mp.mpf(0)
    for i in range(4):
        x1, y1 = pts[i]; x2, y2 = pts[(i + 1) % 4]
        s += x1 * y2 - x2 * y1
    want = abs(s) / 2
    scale = sum((v(vals[r][1]) for r in rps), mp.mpf(0))
    got = v(vals[rarea][1])
    if abs(got - want) > (16 * SQEPS + 8 * TOL) * scale * scale + 8 * TOL * scale + 8 * TOL * TOL: return 'quadrilateral area %s, shoelace area %s' % (mp.nstr(got, 17), mp.nstr(want, 17))
    return None

@pred
def add_general_or_fast(vals, ra, rb, rs):
    """blade history of a sum whatever path applies.  identical angles keep the angle; exactly opposite
    follow the opposite policy; pairs within 1e-9 rad of either boundary but not on it may follow
    either policy (the library's equality is tolerant); everything else follows the general bounds"""
    a, b, s = vals[ra], vals[rb], vals[rs]
    m = _ok_geo(s)
    if m: return m
    gap = abs(v(a[2]) - v(b[2]))
    if (a[2], a[3]) == (b[2], b[3]) or (a[3] == b[3] and gap == 0):
        return None if (s[3] == a[3] and v(s[2]) == v(a[2])) else 'identical angles but the sum has angle %r' % (_A(s),)
    if abs(a[3] - b[3]) == 2 and gap == 0:
        return add_opposite(vals, ra, rb, rs)
    near = gap < mp.mpf('1e-9')
    if near and a[3] == b[3]:
        if (s[2], s[3]) in ((a[2], a[3]), (b[2], b[3])): return None
    if near and abs(a[3] - b[3]) == 2:
        if add_opposite(vals, ra, rb, rs) is None: return None
    return add_general_blades(vals, ra, rb, rs)
