"""property predicates over implementation outputs.  Each returns None when the property
holds on this case and a message otherwise.  They never look at the model: they are the
independent search for a concrete failing input (and the only decision procedure for
the S3 legs).  Arguments are register indices unless wrapped as ['#', literal]."""
import math
import mpmath as mp
from . import fb
from . import num as N
from .num import v, theta, direction, cart, angdiff, PI, HALF, EPS, SQEPS

PRED = {}
def pred(f):
    PRED[f.__name__] = f
    return f

TOL = mp.mpf('1e-10')

def _A(x):
    """angle part (tag 'A', rem, blade) of an A or G value"""
    if x[0] == 'A': return x
    if x[0] == 'G': return ('A', x[2], x[3])
    raise ValueError('not an angle: %r' % (x,))
def _isP(x): return x[0] == 'P'
def _bad_kind(x, kinds):
    return x[0] not in kinds

def canon_msg(A, what='angle'):
    r = A[1]
    if not fb.is_finite_bits(r):
        return '%s remainder not finite (bits 0x%016x)' % (what, r)
    x = v(r)
    if x < 0:
        return '%s remainder negative: %s' % (what, mp.nstr(x, 17))
    if x >= HALF:
        return '%s remainder >= pi/2: %s' % (what, mp.nstr(x, 17))
    if A[2] < 0:
        return '%s blade negative' % what
    return None

def mag_msg(G):
    m = G[1]
    if not fb.is_finite_bits(m):
        return 'magnitude not finite (bits 0x%016x)' % m
    if v(m) < 0 or (m >> 63) and v(m) != 0:
        return 'magnitude negative: %s' % mp.nstr(v(m), 17)
    return None

# ------------------------------------------------------------------ generic
@pred
def canon_angle(vals, r):
    x = vals[r]
    if _isP(x): return 'unexpected panic'
    return canon_msg(_A(x))

@pred
def canon_geonum(vals, r):
    x = vals[r]
    if _isP(x): return 'unexpected panic'
    return canon_msg(_A(x)) or mag_msg(x)

@pred
def all_canon(vals, skip):
    """every angle / geonum / collection member in every register is canonical with a finite
    non-negative magnitude, and no register panicked except those listed in skip"""
    for i, x in enumerate(vals):
        if i in skip: continue
        k = x[0]
        if k == 'P': return 'r%d: unexpected panic' % i
        if k == 'A':
            m = canon_msg(x)
        elif k == 'G':
            m = canon_msg(_A(x)) or mag_msg(x)
        elif k == 'C':
            m = None
            for g in x[1]:
                G = ('G',) + tuple(g)
                m = canon_msg(_A(G)) or mag_msg(G)
                if m: break
        elif k == 'OG' and x[1] is not None:
            G = ('G',) + tuple(x[1])
            m = canon_msg(_A(G)) or mag_msg(G)
        elif k == 'F':
            m = None if fb.is_finite_bits(x[1]) else 'float result not finite'
        else:
            m = None
        if m: return 'r%d: %s' % (i, m)
    return None

@pred
def is_panic(vals, r):
    return None if _isP(vals[r]) else 'expected the documented panic, got %r' % (vals[r],)

@pred
def not_panic(vals, r):
    return 'unexpected panic' if _isP(vals[r]) else None

@pred
def bit_equal(vals, r1, r2):
    if vals[r1] != vals[r2]:
        return 'results differ: %r vs %r' % (vals[r1], vals[r2])
    return None

@pred
def all_bit_equal(vals, rs):
    for r in rs[1:]:
        if vals[r] != vals[rs[0]]:
            return 'spellings differ: r%d=%r vs r%d=%r' % (rs[0], vals[rs[0]], r, vals[r])
    return None

@pred
def num_equal_angle(vals, r1, r2):
    """same blade, numerically equal remainder (+0 and -0 identified)"""
    a, b = _A(vals[r1]), _A(vals[r2])
    if a[2] != b[2] or v(a[1]) != v(b[1]):
        return 'angles differ: %r vs %r' % (a, b)
    return None

@pred
def bool_is(vals, r, want):
    x = vals[r]
    if x[0] != 'B' or x[1] != bool(want):
        return 'expected %s, got %r' % (bool(want), x)
    return None

@pred
def float_bits_are(vals, r, bits):
    x = vals[r]
    if x[0] != 'F' or x[1] != bits:
        return 'expected float bits 0x%016x, got %r' % (bits, x)
    return None

@pred
def usize_is(vals, r, n):
    x = vals[r]
    if x[0] != 'U' or x[1] != n:
        return 'expected %d, got %r' % (n, x)
    return None

def _ulps(a_bits, b_bits):
    def key(b):
        return b if b < (1 << 63) else (1 << 63) - b
    return abs(key(a_bits) - key(b_bits))

@pred
def float_close_ulps(vals, r1, r2, n):
    a, b = vals[r1], vals[r2]
    if a[0] != 'F' or b[0] != 'F': return 'not floats: %r %r' % (a, b)
    if not (fb.is_finite_bits(a[1]) and fb.is_finite_bits(b[1])): return 'non-finite measurement: %r %r' % (a, b)
    if _ulps(a[1], b[1]) > n:
        return 'measurements differ by %d ulps: %r vs %r' % (_ulps(a[1], b[1]), fb.fl(a[1]), fb.fl(b[1]))
    return None

# ------------------------------------------------------------------ C02 constructors
@pred
def new_value(vals, r, pbits, dbits):
    """Angle::new(p, d): quarter turns and remainder denote p*pi/d"""
    A = _A(vals[r])
    m = canon_msg(A)
    if m: return m
    p, d = v(pbits), v(dbits)
    ratio2 = mp.mpf(2) * p / d                       # quarter turns asked for
    t = p * PI / d
    tol = TOL + 8 * N.ulp(t) + 8 * N.ulp(p * N.PIf)
    got = theta(A)
    if ratio2 >= 0:
        if abs(got - t) > tol:
            return 'total %s differs from p*pi/d = %s by %s' % (mp.nstr(got, 17), mp.nstr(t, 17), mp.nstr(got - t, 5))
        fl = int(mp.floor(ratio2))
        if A[2] == fl: return None
        if A[2] == fl + 1 and v(A[1]) <= tol: return None          # snapped / rounded up onto the boundary
        if A[2] == fl - 1 and HALF - v(A[1]) <= tol: return None   # rounded just below it
        return 'blade %d but floor(2p/d) = %d (rem %s)' % (A[2], fl, mp.nstr(v(A[1]), 17))
    else:
        # forward rotation of fewer than two turns, same direction modulo 2pi
        if got > 4 * PI + tol:
            return 'negative angle mapped to %s > two turns' % mp.nstr(got, 17)
        is_int = (ratio2 == mp.floor(ratio2))
        if not is_int and got > 2 * PI + tol:
            return 'negative non-integral angle mapped to %s > one turn' % mp.nstr(got, 17)
        if angdiff(direction(A), t) > tol:
            return 'direction %s not congruent to p*pi/d = %s mod 2pi' % (mp.nstr(direction(A), 17), mp.nstr(t, 17))
        return None

@pred
def with_blade_adds(vals, rbase, rwith, n):
    a, b = _A(vals[rbase]), _A(vals[rwith])
    if b[2] != a[2] + n or v(b[1]) != v(a[1]):
        return 'blade offset %d: base %r, with offset %r' % (n, a, b)
    return None

@pred
def cartesian_value(vals, r, xbits, ybits):
    G = vals[r]
    m = canon_msg(_A(G)) or (mag_msg(G) if G[0] == 'G' else None)
    if m: return m
    x, y = v(xbits), v(ybits)
    h = mp.sqrt(x * x + y * y)
    if G[0] == 'G':
        cx, cy = cart(G)
        err = mp.sqrt((cx - x) ** 2 + (cy - y) ** 2)
        if err > h * (TOL + 16 * EPS) + mp.mpf(5e-324) * 4:
            return 'cartesian (%s,%s) reproduced as (%s,%s)' % (mp.nstr(x, 12), mp.nstr(y, 12), mp.nstr(cx, 12), mp.nstr(cy, 12))
    else:
        if h == 0: return None
        want = mp.atan2(y, x)
        if angdiff(direction(G), want) > TOL + 16 * EPS:
            return 'direction %s, expected atan2 = %s' % (mp.nstr(direction(G), 17), mp.nstr(want, 17))
    return None

@pred
def scalar_enc(vals, r, vbits):
    G = vals[r]
    x = fb.fl(vbits)
    want_mag = fb.bits(abs(x))
    want_blade = 2 if x < 0 else 0
    if G[0] != 'G' or G[1] != want_mag or G[3] != want_blade or v(G[2]) != 0:
        return 'scalar(%r) = %r' % (x, G)
    return None

@pred
def dimension_enc(vals, r, mbits, k):
    G = vals[r]
    if G[0] != 'G' or G[1] != mbits or G[3] != k or v(G[2]) != 0:
        return 'create_dimension(_, %d) = %r' % (k, G)
    return None

# ------------------------------------------------------------------ C03 / C04 angle arithmetic
@pred
def add_total(vals, ra, rb, rs):
    a, b, s = _A(vals[ra]), _A(vals[rb]), _A(vals[rs])
    m = canon_msg(s)
    if m: return m
    carry = s[2] - a[2] - b[2]
    if carry not in (0, 1):
        return 'blade %d + %d gave %d (carry %d)' % (a[2], b[2], s[2], carry)
    err = mp.mpf(carry) * HALF + v(s[1]) - v(a[1]) - v(b[1])
    if abs(err) > TOL + 8 * EPS:
        return 'total of sum off by %s' % mp.nstr(err, 5)
    return None

@pred
def assoc_total(vals, r1, r2):
    a, b = _A(vals[r1]), _A(vals[r2])
    err = mp.mpf(a[2] - b[2]) * HALF + v(a[1]) - v(b[1])
    if abs(err) > 2 * TOL + 16 * EPS:
        return '(a+b)+c and a+(b+c) differ by %s' % mp.nstr(err, 5)
    return None

@pred
def sub_total(vals, ra, rb, rd):
    a, b, d = _A(vals[ra]), _A(vals[rb]), _A(vals[rd])
    m = canon_msg(d)
    if m: return m
    tol = TOL + 8 * EPS
    ge = (a[2], v(a[1])) >= (b[2], v(b[1]))
    if ge:
        err = mp.mpf(d[2] - (a[2] - b[2])) * HALF + v(d[1]) - (v(a[1]) - v(b[1]))
        if abs(err) > tol:
            return 'difference of totals off by %s (blades %d - %d -> %d)' % (mp.nstr(err, 5), a[2], b[2], d[2])
        return None
    td = theta(d)
    if td > 2 * PI + tol:
        return 'larger subtrahend: result %s exceeds one turn' % mp.nstr(td, 17)
    if d[2] >= 4 and v(d[1]) != 0:
        return 'larger subtrahend: a full turn with non-zero remainder: %r' % (d,)
    want = mp.mpf((a[2] - b[2]) % 4) * HALF + v(a[1]) - v(b[1])
    if angdiff(direction(d), want) > tol:
        return 'larger subtrahend: direction %s not congruent to the difference %s' % (mp.nstr(direction(d), 17), mp.nstr(want, 17))
    return None

@pred
def is_zero_angle(vals, r):
    a = _A(vals[r])
    if a[2] != 0 or v(a[1]) != 0:
        return 'expected the zero angle, got %r' % (a,)
    return None

@pred
def roundtrip_total(vals, ra, rr, k):
    """(a+b)-b = a, a/1 = a ... within k tolerances"""
    a, r = _A(vals[ra]), _A(vals[rr])
    err = mp.mpf(r[2] - a[2]) * HALF + v(r[1]) - v(a[1])
    if abs(err) > k * TOL + 16 * EPS * (1 + theta(a)):
        return 'round trip changes the total by %s (%r -> %r)' % (mp.nstr(err, 5), a, r)
    return None

@pred
def divf_total(vals, ra, kbits, rr):
    a, r = _A(vals[ra]), _A(vals[rr])
    m = canon_msg(r)
    if m: return m
    k = v(kbits)
    want = theta(a) / k
    got = theta(r)
    if abs(got - want) > TOL + 16 * EPS * (want + theta(a) * 0) + 8 * N.ulp(theta(a)) / k:
        return 'a / %s: total %s, expected %s' % (mp.nstr(k, 8), mp.nstr(got, 17), mp.nstr(want, 17))
    return None

# ------------------------------------------------------------------ C05 products
def _fmul(a_bits, b_bits):
    return fb.bits(fb.fl(a_bits) * fb.fl(b_bits))

@pred
def mul_exact(vals, ra, rb, rprod, radd):
    a, b, p, s = vals[ra], vals[rb], vals[rprod], _A(vals[radd])
    if _isP(p): return 'unexpected panic'
    if p[1] != _fmul(a[1], b[1]):
        return 'product magnitude %r is not |a|*|b| = %r' % (fb.fl(p[1]), fb.fl(a[1]) * fb.fl(b[1]))
    if (p[2], p[3]) != (s[1], s[2]):
        return 'product angle %r is not the sum of the angles %r' % (_A(p), s)
    return None

@pred
def scale_enc(vals, rg, fbits, rres):
    g, r = vals[rg], vals[rres]
    f = fb.fl(fbits)
    want = fb.bits(fb.fl(g[1]) * abs(f))
    if r[1] != want:
        return 'scale(%r): magnitude %r, expected %r' % (f, fb.fl(r[1]), fb.fl(want))
    k = 2 if f < 0 else 0
    if r[3] != g[3] + k or v(r[2]) != v(g[2]):
        return 'scale(%r): angle %r -> %r, expected %d blades added, remainder kept' % (f, _A(g), _A(r), k)
    return None

@pred
def inv_enc(vals, rg, rres):
    g, r = vals[rg], vals[rres]
    if _isP(r): return 'unexpected panic'
    if r[1] != fb.bits(1.0 / fb.fl(g[1])):
        return 'inverse magnitude %r, expected %r' % (fb.fl(r[1]), 1.0 / fb.fl(g[1]))
    if r[3] != g[3] + 2 or v(r[2]) != v(g[2]):
        return 'inverse angle %r -> %r: expected exactly 2 blades added' % (_A(g), _A(r))
    return None

@pred
def normalize_enc(vals, rg, rres):
    g, r = vals[rg], vals[rres]
    if _isP(r): return 'unexpected panic'
    if r[1] != fb.bits(1.0) or (r[2], r[3]) != (g[2], g[3]):
        return 'normalize: %r -> %r' % (g, r)
    return None

@pred
def pow_mag(vals, rg, nbits, rres):
    g, r = vals[rg], vals[rres]
    want = mp.power(v(g[1]), v(nbits)) if v(g[1]) > 0 else None
    if want is None: return None
    if not (mp.mpf('1e-300') < want < mp.mpf('1e300')): return None
    if not fb.is_finite_bits(r[1]) or abs(v(r[1]) - want) > 4 * EPS * want:
        return 'pow magnitude %s, expected %s' % (mp.nstr(v(r[1]), 17), mp.nstr(want, 17))
    return None

@pred
def geonum_close(vals, r1, r2, k):
    """same angle total within k tolerances, magnitudes within 8 ulps relative"""
    a, b = vals[r1], vals[r2]
    if _isP(a) or _isP(b): return 'unexpected panic'
    ma, mb = v(a[1]), v(b[1])
    if abs(ma - mb) > 8 * EPS * max(abs(ma), abs(mb)):
        return 'magnitudes %s vs %s' % (mp.nstr(ma, 17), mp.nstr(mb, 17))
    A1, B1 = _A(a), _A(b)
    err = mp.mpf(A1[2] - B1[2]) * HALF + v(A1[1]) - v(B1[1])
    if abs(err) > k * TOL + 32 * EPS:
        return 'angle totals differ by %s' % mp.nstr(err, 5)
    return None

@pred
def angle_part_equal(vals, rg, ra):
    """the angle of a geonum register is bit-equal to an angle register"""
    g, a = _A(vals[rg]), _A(vals[ra])
    if g != a: return 'angle %r differs from %r' % (g, a)
    return None

@pred
def mag_bits_equal(vals, r1, r2):
    if vals[r1][1] != vals[r2][1]:
        return 'magnitude changed: %r -> %r' % (fb.fl(vals[r1][1]), fb.fl(vals[r2][1]))
    return None

# ------------------------------------------------------------------ C07 steps
@pred
def steps(vals, rb, ra, k):
    b, a = vals[rb], vals[ra]
    if _isP(a): return 'unexpected panic'
    B, A = _A(b), _A(a)
    if A[2] != B[2] + k or v(A[1]) != v(B[1]):
        return 'expected exactly %d blades added with the remainder untouched: %r -> %r' % (k, B, A)
    if b[0] == 'G' and a[0] == 'G' and a[1] != b[1]:
        return 'magnitude changed by a blade-step operator: %r -> %r' % (fb.fl(b[1]), fb.fl(a[1]))
    return None

@pred
def base_enc(vals, rb, ra):
    B, A = _A(vals[rb]), _A(vals[ra])
    if A[2] != B[2] % 4 or A[1] != B[1]:
        return 'base_angle: %r -> %r' % (B, A)
    if vals[rb][0] == 'G' and vals[ra][1] != vals[rb][1]: return 'base_angle changed the magnitude'
    return None

@pred
def grade_is(vals, ra, rres):
    A, g = _A(vals[ra]), vals[rres]
    if g != ('U', A[2] % 4): return 'grade of blade %d reported as %r' % (A[2], g)
    return None

@pred
def is_grade_flags(vals, ra, rs):
    A = _A(vals[ra])
    for k, r in enumerate(rs):
        if vals[r] != ('B', A[2] % 4 == k):
            return 'is-grade-%d flag %r for blade %d' % (k, vals[r], A[2])
    return None

@pred
def grade_angle_val(vals, ra, rres):
    A, x = _A(vals[ra]), vals[rres]
    if not fb.is_finite_bits(x[1]): return 'grade_angle not finite'
    got = v(x[1])
    if got < 0 or got >= 2 * PI: return 'grade_angle %s outside [0, 2pi)' % mp.nstr(got, 17)
    if abs(got - direction(A)) > 8 * EPS:
        return 'grade_angle %s, expected %s' % (mp.nstr(got, 17), mp.nstr(direction(A), 17))
    return None

@pred
def copy_blade_enc(vals, rg, ro, rres):
    g, o, r = vals[rg], vals[ro], vals[rres]
    if r[1] != g[1] or v(r[2]) != v(g[2]): return 'copy_blade changed magnitude or remainder: %r -> %r' % (g, r)
    if o[3] >= g[3]:
        if r[3] != o[3]: return "copy_blade: blade %d, expected the other's blade %d" % (r[3], o[3])
    else:
        if r[3] % 4 != o[3] % 4 or not (g[3] <= r[3] <= g[3] + 6):
            return "copy_blade to a smaller blade: %d -> %d (target %d)" % (g[3], r[3], o[3])
    return None

@pred
def opposite_iff(vals, ra, rb, rres):
    A, B, x = _A(vals[ra]), _A(vals[rb]), vals[rres]
    if _isP(x): return 'is_opposite panicked'
    d = abs(A[2] - B[2])
    gap = abs(v(A[1]) - v(B[1]))
    if d == 2 and gap == 0 and x != ('B', True): return 'blades differ by two with equal remainders but is_opposite is false'
    if d != 2 and x != ('B', False): return 'is_opposite true for blades %d and %d' % (A[2], B[2])
    if gap > mp.mpf('2e-15') and x != ('B', False): return 'is_opposite true for remainders %s apart' % mp.nstr(gap, 5)
    return None

@pred
def history_total(vals, r, num, den):
    """accumulated quarter turns equal the exact rational prediction num/den"""
    A = _A(vals[r])
    m = canon_msg(A)
    if m: return m
    want = mp.mpf(num) / den
    got = mp.mpf(A[2]) + v(A[1]) / HALF
    if abs(got - want) > mp.mpf('1e-9'):
        return 'accumulated %s quarter turns, predicted %s' % (mp.nstr(got, 17), mp.nstr(want, 17))
    fl = num // den
    fr = mp.mpf(num % den) / den
    if mp.mpf('1e-6') < fr < 1 - mp.mpf('1e-6') and A[2] != fl:
        return 'blade %d, predicted %d' % (A[2], fl)
    if num % den == 0 and (A[2] != fl or v(A[1]) > mp.mpf('1e-9')):
        return 'blade %d rem %s, predicted exactly %d quarter turns' % (A[2], mp.nstr(v(A[1]), 5), fl)
    return None

# ------------------------------------------------------------------ C16 equality / order
def _key(x):
    if x[0] == 'A': return (x[2], v(x[1]))
    return (x[3], v(x[2]), v(x[1]))

def _cmp(a, b):
    ka, kb = _key(a), _key(b)
    return 0 if ka < kb else (1 if ka == kb else 2)

@pred
def cmp_expected(vals, ra, rb, rs):
    want = _cmp(vals[ra], vals[rb])
    for r in rs:
        if vals[r] != ('O', want): return 'comparison gave %r, lexicographic order says %d' % (vals[r], want)
    return None

@pred
def rel_expected(vals, ra, rb, rs):
    c = _cmp(vals[ra], vals[rb])
    want = [c == 0, c != 2, c == 2, c != 0]
    for k, r in enumerate(rs):
        if vals[r] != ('B', want[k]): return 'relational operator %d gave %r, expected %s' % (k, vals[r], want[k])
    return None

@pred
def eq_implies(vals, ra, rb, req, rne):
    a, b, e = vals[ra], vals[rb], vals[req]
    if vals[rne] != ('B', not e[1]): return '!= is not the negation of =='
    A, B = _A(a), _A(b)
    same = A[2] == B[2] and v(A[1]) == v(B[1]) and (a[0] == 'A' or v(a[1]) == v(b[1]))
    if same and not e[1]: return 'numerically identical values compare unequal'
    if e[1]:
        if A[2] != B[2]: return 'equal although blades differ: %d vs %d' % (A[2], B[2])
        if abs(v(A[1]) - v(B[1])) >= mp.mpf('1.0000001e-15'): return 'equal although remainders differ by %s' % mp.nstr(abs(v(A[1]) - v(B[1])), 5)
        if a[0] == 'G' and v(a[1]) != v(b[1]): return 'equal although magnitudes differ'
    return None

@pred
def eq_iff_cmp_equal(vals, ra, rb, req, rcmp):
    e, c = vals[req], vals[rcmp]
    if e[1] != (c[1] == 1):
        return '== says %s but cmp says %s' % (e[1], ['Less', 'Equal', 'Greater', 'None'][c[1]])
    return None

@pred
def sorted_perm(vals, rin, rout):
    i, o = vals[rin], vals[rout]
    if _isP(o): return 'sort panicked'
    if sorted(i[1]) != sorted(o[1]): return 'sort output is not a permutation of its input'
    ks = [(g[2], v(g[1]), v(g[0])) for g in o[1]]
    for j in range(len(ks) - 1):
        if ks[j] > ks[j + 1]: return 'sort output not in non-decreasing order at index %d' % j
    return None

# ------------------------------------------------------------------ C17 collections
@pred
def same_coll(vals, rs):
    for r in rs[1:]:
        if vals[r] != vals[rs[0]]: return 'collection content changed: r%d vs r%d' % (rs[0], r)
    return None

@pred
def coll_is(vals, rc, regs):
    c = vals[rc]
    want = [tuple(vals[r][1:4]) for r in regs]
    if c[0] != 'C' or [tuple(g) for g in c[1]] != want:
        return 'collection %r differs from element-wise reference %r' % (c, want)
    return None

@pred
def len_is(vals, rc, rlen, rempty):
    n = len(vals[rc][1])
    if vals[rlen] != ('U', n) or vals[rempty] != ('B', n == 0): return 'len/is_empty wrong: %r %r for %d members' % (vals[rlen], vals[rempty], n)
    return None

@pred
def truncate_ref(vals, rc, tbits, rres):
    t = fb.fl(tbits)
    want = [tuple(g) for g in vals[rc][1] if fb.fl(g[0]) > t]
    got = [tuple(g) for g in vals[rres][1]]
    if got != want: return 'truncate(%r): kept %d members, reference keeps %d' % (t, len(got), len(want))
    return None

@pred
def cone_ref(vals, rc, rdir, hbits, rres):
    d = vals[rdir]
    h = v(hbits)
    got = [tuple(g) for g in vals[rres][1]]
    members = [tuple(g) for g in vals[rc][1]]
    # subsequence check
    it = iter(members)
    for g in got:
        for m in it:
            if m == g: break
        else:
            return 'cone selection is not an order-preserving subsequence'
    band = mp.mpf('1e-7')
    j = 0
    for m in members:
        kept = j < len(got) and got[j] == m
        if kept: j += 1
        G = ('G',) + m
        if v(m[0]) == 0 or v(d[1]) == 0 or fb.fl(m[0]) * fb.fl(d[1]) == 0.0:
            if kept: return 'zero-magnitude member or axis selected'
            continue
        ang = angdiff(direction(_A(G)), direction(_A(d)))
        if ang < h - band and not kept: return 'member at unsigned angle %s <= half-angle %s dropped' % (mp.nstr(ang, 12), mp.nstr(h, 12))
        if ang > h + band and kept: return 'member at unsigned angle %s > half-angle %s kept' % (mp.nstr(ang, 12), mp.nstr(h, 12))
    return None

@pred
def total_ref(vals, rc, rres):
    ms = [v(g[0]) for g in vals[rc][1]]
    want = sum(ms, mp.mpf(0))
    got = v(vals[rres][1])
    if abs(got - want) > (len(ms) + 1) * EPS * (want + mp.mpf(5e-324)):
        return 'total magnitude %s, sum of members %s' % (mp.nstr(got, 17), mp.nstr(want, 17))
    return None

@pred
def dominant_ref(vals, rc, rres):
    c, d = vals[rc][1], vals[rres]
    if _isP(d): return 'dominant panicked'
    if not c:
        return None if d == ('OG', None) else 'dominant of an empty collection is %r' % (d,)
    if d[1] is None: return 'dominant returned None for a non-empty collection'
    if tuple(d[1]) not in [tuple(g) for g in c]: return 'dominant is not a member'
    mx = max(v(g[0]) for g in c)
    if v(d[1][0]) != mx: return 'dominant magnitude %s, maximum is %s' % (mp.nstr(v(d[1][0]), 17), mp.nstr(mx, 17))
    return None

@pred
def index_ref(vals, rc, i, rres):
    c = vals[rc][1]
    if i < len(c):
        if vals[rres] != ('G',) + tuple(c[i]): return 'index %d returned %r' % (i, vals[rres])
    elif not _isP(vals[rres]):
        return 'out-of-bounds index %d did not panic' % i
    return None
