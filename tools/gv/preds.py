"""property predicates over implementation outputs.  Each returns None when the property
holds on this case and a message otherwise.  They never look at the model: they are the
independent search for a concrete failing input (and the only decision procedure for
the S3 legs).  Arguments are register indices unless wrapped as ['#', literal]."""
import math
import mpmath as mp
from . import fb
from . import num as N
from .num import v, theta, direction, cart, angdiff, PI, HALF, EPS, SQEPS

PRED = {}
def pred(f):
    PRED[f.__name__] = f
    return f

TOL = mp.mpf('1e-10')

def _A(x):
    """angle part (tag 'A', rem, blade) of an A or G value"""
    if x[0] == 'A': return x
    if x[0] == 'G': return ('A', x[2], x[3])
    raise ValueError('not an angle: %r' % (x,))
def _isP(x): return x[0] == 'P'
def _bad_kind(x, kinds):
    return x[0] not in kinds

def canon_msg(A, what='angle'):
    r = A[1]
    if not fb.is_finite_bits(r):
        return '%s remainder not finite (bits 0x%016x)' % (what, r)
    x = v(r)
    if x < 0:
        return '%s remainder negative: %s' % (what, mp.nstr(x, 17))
    if x >= HALF:
        return '%s remainder >= pi/2: %s' % (what, mp.nstr(x, 17))
    if A[2] < 0:
        return '%s blade negative' % what
    return None

def mag_msg(G):
    m = G[1]
    if not fb.is_finite_bits(m):
        return 'magnitude not finite (bits 0x%016x)' % m
    if v(m) < 0 or (m >> 63) and v(m) != 0:
        return 'magnitude negative: %s' % mp.nstr(v(m), 17)
    return None

# ------------------------------------------------------------------ generic
@pred
def canon_angle(vals, r):
    x = vals[r]
    if _isP(x): return 'unexpected panic'
    return canon_msg(_A(x))

@pred
def canon_geonum(vals, r):
    x = vals[r]
    if _isP(x): return 'unexpected panic'
    return canon_msg(_A(x)) or mag_msg(x)

@pred
def all_canon(vals, skip):
    """every angle / geonum / collection member in every register is canonical with a finite
    non-negative magnitude, and no register panicked except those listed in skip"""
    for i, x in enumerate(vals):
        if i in skip: continue
        k = x[0]
        if k == 'P': return 'r%d: unexpected panic' % i
        if k == 'A':
            m = canon_msg(x)
        elif k == 'G':
            m = canon_msg(_A(x)) or mag_msg(x)
        elif k == 'C':
            m = None
            for g in x[1]:
                G = ('G',) + tuple(g)
                m = canon_msg(_A(G)) or mag_msg(G)
                if m: break
        elif k == 'OG' and x[1] is not None:
            G = ('G',) + tuple(x[1])
            m = canon_msg(_A(G)) or mag_msg(G)
        elif k == 'F':
            m = None if fb.is_finite_bits(x[1]) else 'float result not finite'
        else:
            m = None
        if m: return 'r%d: %s' % (i, m)
    return None

@pred
def is_panic(vals, r):
    return None if _isP(vals[r]) else 'expected the documented panic, got %r' % (vals[r],)

@pred
def not_panic(vals, r):
    return 'unexpected panic' if _isP(vals[r]) else None

@pred
def bit_equal(vals, r1, r2):
    if vals[r1] != vals[r2]:
        return 'results differ: %r vs %r' % (vals[r1], vals[r2])
    return None

@pred
def all_bit_equal(vals, rs):
    for r in rs[1:]:
        if vals[r] != vals[rs[0]]:
            return 'spellings differ: r%d=%r vs r%d=%r' % (rs[0], vals[rs[0]], r, vals[r])
    return None

@pred
def num_equal_angle(vals, r1, r2):
    """same blade, numerically equal remainder (+0 and -0 identified)"""
    a, b = _A(vals[r1]), _A(vals[r2])
    if a[2] != b[2] or v(a[1]) != v(b[1]):
        return 'angles differ: %r vs %r' % (a, b)
    return None

@pred
def bool_is(vals, r, want):
    x = vals[r]
    if x[0] != 'B' or x[1] != bool(want):
        return 'expected %s, got %r' % (bool(want), x)
    return None

@pred
def float_bits_are(vals, r, bits):
    x = vals[r]
    if x[0] != 'F' or x[1] != bits:
        return 'expected float bits 0x%016x, got %r' % (bits, x)
    return None

@pred
def usize_is(vals, r, n):
    x = vals[r]
    if x[0] != 'U' or x[1] != n:
        return 'expected %d, got %r' % (n, x)
    return None

def _ulps(a_bits, b_bits):
    def key(b):
        return b if b < (1 << 63) else (1 << 63) - b
    return abs(key(a_bits) - key(b_bits))

@pred
def float_close_ulps(vals, r1, r2, n):
    a, b = vals[r1], vals[r2]
    if a[0] != 'F' or b[0] != 'F': return 'not floats: %r %r' % (a, b)
    if not (fb.is_finite_bits(a[1]) and fb.is_finite_bits(b[1])): return 'non-finite measurement: %r %r' % (a, b)
    if _ulps(a[1], b[1]) > n:
        return 'measurements differ by %d ulps: %r vs %r' % (_ulps(a[1], b[1]), fb.fl(a[1]), fb.fl(b[1]))
    return None

# ------------------------------------------------------------------ C02 constructors
@pred
def new_value(vals, r, pbits, dbits):
    """Angle::new(p, d): quarter turns and remainder denote p*pi/d"""
    A = _A(vals[r])
    m = canon_msg(A)
    if m: return m
    p, d = v(pbits), v(dbits)
    ratio2 = mp.mpf(2) * p / d                       # quarter turns asked for
    t = p * PI / d
    tol = TOL + 8 * N.ulp(t) + 8 * N.ulp(p * N.PIf)
    got = theta(A)
    if ratio2 >= 0:
        if abs(got - t) > tol:
            return 'total %s differs from p*pi/d = %s by %s' % (mp.nstr(got, 17), mp.nstr(t, 17), mp.nstr(got - t, 5))
        fl = int(mp.floor(ratio2))
        if A[2] == fl: return None
        if A[2] == fl + 1 and v(A[1]) <= tol: return None          # snapped / rounded up onto the boundary
        if A[2] == fl - 1 and HALF - v(A[1]) <= tol: return None   # rounded just below it
        return 'blade %d but floor(2p/d) = %d (rem %s)' % (A[2], fl, mp.nstr(v(A[1]), 17))
    else:
        # forward rotation of fewer than two turns, same direction modulo 2pi
        if got > 4 * PI + tol:
            return 'negative angle mapped to %s > two turns' % mp.nstr(got, 17)
        is_int = (ratio2 == mp.floor(ratio2))
        if not is_int and got > 2 * PI + tol:
            return 'negative non-integral angle mapped to %s > one turn' % mp.nstr(got, 17)
        if angdiff(direction(A), t) > tol:
            return 'direction %s not congruent to p*pi/d = %s mod 2pi' % (mp.nstr(direction(A), 17), mp.nstr(t, 17))
        return None

@pred
def with_blade_adds(vals, rbase, rwith, n):
    a, b = _A(vals[rbase]), _A(vals[rwith])
    if b[2] != a[2] + n or v(b[1]) != v(a[1]):
        return 'blade offset %d: base %r, with offset %r' % (n, a, b)
    return None

@pred
def cartesian_value(vals, r, xbits, ybits):
    G = vals[r]
    m = canon_msg(_A(G)) or (mag_msg(G) if G[0] == 'G' else None)
    if m: return m
    x, y = v(xbits), v(ybits)
    h = mp.sqrt(x * x + y * y)
    if G[0] == 'G':
        cx, cy = cart(G)
        err = mp.sqrt((cx - x) ** 2 + (cy - y) ** 2)
        if err > h * (TOL + 16 * EPS) + mp.mpf(5e-324) * 4:
            return 'cartesian (%s,%s) reproduced as (%s,%s)' % (mp.nstr(x, 12), mp.nstr(y, 12), mp.nstr(cx, 12), mp.nstr(cy, 12))
    else:
        if h == 0: return None
        want = mp.atan2(y, x)
        if angdiff(direction(G), want) > TOL + 16 * EPS:
            return 'direction %s, expected atan2 = %s' % (mp.nstr(direction(G), 17), mp.nstr(want, 17))
    return None

@pred
def scalar_enc(vals, r, vbits):
    G = vals[r]
    x = fb.fl(vbits)
    want_mag = fb.bits(abs(x))
    want_blade = 2 if x < 0 else 0
    if G[0] != 'G' or G[1] != want_mag or G[3] != want_blade or v(G[2]) != 0:
        return 'scalar(%r) = %r' % (x, G)
    return None

@pred
def dimension_enc(vals, r, mbits, k):
    G = vals[r]
    if G[0] != 'G' or G[1] != mbits or G[3] != k or v(G[2]) != 0:
        return 'create_dimension(_, %d) = %r' % (k, G)
    return None

# ------------------------------------------------------------------ C03 / C04 angle arithmetic
@pred
def add_total(vals, ra, rb, rs):
    a, b, s = _A(vals[ra]), _A(vals[rb]), _A(vals[rs])
    m = canon_msg(s)
    if m: return m
    carry = s[2] - a[2] - b[2]
    if carry not in (0, 1):
        return 'blade %d + %d gave %d (carry %d)' % (a[2], b[2], s[2], carry)
    err = mp.mpf(carry) * HALF + v(s[1]) - v(a[1]) - v(b[1])
    if abs(err) > TOL + 8 * EPS:
        return 'total of sum off by %s' % mp.nstr(err, 5)
    return None

@pred
def assoc_total(vals, r1, r2):
    a, b = _A(vals[r1]), _A(vals[r2])
    err = mp.mpf(a[2] - b[2]) * HALF + v(a[1]) - v(b[1])
    if abs(err) > 2 * TOL + 16 * EPS:
        return '(a+b)+c and a+(b+c) differ by %s' % mp.nstr(err, 5)
    return None

@pred
def sub_total(vals, ra, rb, rd):
    a, b, d = _A(vals[ra]), _A(vals[rb]), _A(vals[rd])
    m = canon_msg(d)
    if m: return m
    tol = TOL + 8 * EPS
    ge = (a[2], v(a[1])) >= (b[2], v(b[1]))
    if ge:
        err = mp.mpf(d[2] - (a[2] - b[2])) * HALF + v(d[1]) - (v(a[1]) - v(b[1]))
        if abs(err) > tol:
            return 'difference of totals off by %s (blades %d - %d -> %d)' % (mp.nstr(err, 5), a[2], b[2], d[2])
        return None
    td = theta(d)
    if td > 2 * PI + tol:
        return 'larger subtrahend: result %s exceeds one turn' % mp.nstr(td, 17)
    if d[2] >= 4 and v(d[1]) != 0:
        return 'larger subtrahend: a full turn with non-zero remainder: %r' % (d,)
    want = mp.mpf((a[2] - b[2]) % 4) * HALF + v(a[1]) - v(b[1])
    if angdiff(direction(d), want) > tol:
        return 'larger subtrahend: direction %s not congruent to the difference %s' % (mp.nstr(direction(d), 17), mp.nstr(want, 17))
    return None

@pred
def is_zero_angle(vals, r):
    a = _A(vals[r])
    if a[2] != 0 or v(a[1]) != 0:
        return 'expected the zero angle, got %r' % (a,)
    return None

@pred
def roundtrip_total(vals, ra, rr, k):
    """(a+b)-b = a, a/1 = a ... within k tolerances"""
    a, r = _A(vals[ra]), _A(vals[rr])
    err = mp.mpf(r[2] - a[2]) * HALF + v(r[1]) - v(a[1])
    if abs(err) > k * TOL + 16 * EPS * (1 + theta(a)):
        return 'round trip changes the total by %s (%r -> %r)' % (mp.nstr(err, 5), a, r)
    return None

@pred
def divf_total(vals, ra, kbits, rr):
    a, r = _A(vals[ra]), _A(vals[rr])
    m = canon_msg(r)
    if m: return m
    k = v(kbits)
    want = theta(a) / k
    got = theta(r)
    if abs(got - want) > TOL + 16 * EPS * (want + theta(a) * 0) + 8 * N.ulp(theta(a)) / k:
        return 'a / %s: total %s, expected %s' % (mp.nstr(k, 8), mp.nstr(got, 17), mp.nstr(want, 17))
    return None
