"""op-program builder; the op table mirrors harness/src/main.rs and coq/theories/Interp.v"""
from . import fb

# op -> (argument kinds, result kind).  kinds: f a g u c = register of that type,
# i = immediate integer, g* = any number of geonum registers
OPS = {
 'FImm': ('i', 'f'), 'UImm': ('i', 'u'),
 'ANew': ('ff', 'a'), 'ANewBlade': ('uff', 'a'), 'ANewCart': ('ff', 'a'), 'ARotate': ('aa', 'a'),
 'ARem': ('a', 'f'), 'ABlade': ('a', 'u'), 'AGrade': ('a', 'u'), 'AIsGrade': ('ia', 'b'),
 'ABase': ('a', 'a'), 'AIsOpp': ('aa', 'b'), 'ADual': ('a', 'a'), 'AUndual': ('a', 'a'),
 'AConj': ('a', 'a'), 'ANeg': ('a', 'a'), 'AGradeAngle': ('a', 'f'), 'AProject': ('aa', 'f'),
 'AEq': ('aa', 'b'), 'ANe': ('aa', 'b'), 'AAdd': ('iaa', 'a'), 'ASub': ('iaa', 'a'),
 'AMul': ('iaa', 'a'), 'ADivA': ('iaa', 'a'), 'ADivF': ('iaf', 'a'), 'ACmp': ('aa', 'o'),
 'APartialCmp': ('aa', 'o'), 'ARel': ('iaa', 'b'),
 'GNew': ('fff', 'g'), 'GNewAngle': ('fa', 'g'), 'GNewCart': ('ff', 'g'), 'GNewBlade': ('fuff', 'g'),
 'GDim': ('fu', 'g'), 'GScalar': ('f', 'g'), 'GIncr': ('g', 'g'), 'GDecr': ('g', 'g'),
 'GDual': ('g', 'g'), 'GUndual': ('g', 'g'), 'GDiff': ('g', 'g'), 'GInt': ('g', 'g'),
 'GNeg': ('g', 'g'), 'GBase': ('g', 'g'), 'GCopyBlade': ('gg', 'g'), 'GInv': ('g', 'g'),
 'GDivM': ('gg', 'g'), 'GNormalize': ('g', 'g'), 'GDot': ('gg', 'g'), 'GProjDim': ('gu', 'f'),
 'GWedge': ('gg', 'g'), 'GGeo': ('gg', 'g'), 'GRotate': ('ga', 'g'), 'GReflect': ('gg', 'g'),
 'GProject': ('gg', 'g'), 'GReject': ('gg', 'g'), 'GIsOrth': ('gg', 'b'), 'GMagDiff': ('gg', 'f'),
 'GPow': ('gf', 'g'), 'GMeet': ('gg', 'g'), 'GMag': ('g', 'f'), 'GAngle': ('g', 'a'),
 'GScale': ('gf', 'g'), 'GInvCircle': ('ggf', 'g'), 'GScaleRotate': ('gfa', 'g'), 'GDist': ('gg', 'g'),
 'GAdj': ('g', 'g'), 'GOpp': ('g', 'g'), 'GCos': ('a', 'g'), 'GSin': ('a', 'g'), 'GTan': ('a', 'g'),
 'GProjAngle': ('ga', 'g'), 'GAdd': ('igg', 'g'), 'GSub': ('igg', 'g'), 'GMul': ('igg', 'g'),
 'GDiv': ('igg', 'g'), 'AMulG': ('iag', 'g'), 'AAddG': ('iag', 'g'), 'GEq': ('gg', 'b'),
 'GNe': ('gg', 'b'), 'GCmp': ('gg', 'o'), 'GPartialCmp': ('gg', 'o'), 'GRel': ('igg', 'b'),
 'CNew': ('', 'c'), 'CDefault': ('', 'c'), 'CFrom': ('g*', 'c'), 'CFromIter': ('g*', 'c'),
 'CLen': ('c', 'u'), 'CIsEmpty': ('c', 'b'), 'CIter': ('c', 'c'), 'CIndex': ('cu', 'g'),
 'CIntoIter': ('c', 'c'), 'CIntoIterRef': ('c', 'c'), 'CAsRefVec': ('c', 'c'), 'CAsRefSlice': ('c', 'c'),
 'CTruncate': ('cf', 'c'), 'CCone': ('cgf', 'c'), 'CTotal': ('c', 'f'), 'CDominant': ('c', 'og'),
 'CScaleAll': ('cf', 'c'), 'CRotateAll': ('ca', 'c'), 'CSort': ('c', 'c'),
 'TTranslate': ('gg', 'g'), 'TShear': ('ga', 'g'), 'TArea': ('gggg', 'f'), 'TView': ('ga', 'g'),
 'TCompose': ('gg', 'g'), 'TRefract': ('gg', 'g'), 'TAberrate': ('gg*', 'g'), 'TOtf': ('ggg', 'g'),
 'TAbcd': ('ggggg', 'g'), 'TMagnify': ('gg', 'g'), 'TInvField': ('gggag', 'g'), 'TEPot': ('gg', 'g'),
 'TEField': ('gg', 'g'), 'TPoynting': ('gg', 'g'), 'TWireA': ('ggg', 'g'), 'TWireB': ('ggg', 'g'),
 'TSphWave': ('gggg', 'g'), 'TConst': ('i', 'f'), 'TPropagate': ('gggg', 'g'), 'TDisperse': ('gggg', 'g'),
 'TFreq': ('ggg', 'g'), 'TWavenum': ('ggg', 'g'), 'TRegression': ('ff', 'g'), 'TPerceptron': ('gffg', 'g'),
 'TForward': ('ggg', 'g'), 'TActivate': ('ig', 'g'),
}

def reg_args(op, args):
    """the arguments of an instruction that are register indices (immediates dropped)"""
    sig = OPS[op][0]
    star = sig.endswith('*')
    body = sig[:-2] if star else sig
    out = []
    for k, a in enumerate(args):
        kind = body[k] if k < len(body) else 'g'
        if kind != 'i':
            out.append(a)
    return out

class Prog:
    """a straight-line program over a register file; add() returns the new register index"""
    def __init__(self):
        self.ins = []          # (op, [ints])
        self.kinds = []        # result kind per register
        self._fc = {}
        self._uc = {}
    def add(self, op, *args):
        assert op in OPS, op
        self.ins.append((op, [int(a) for a in args]))
        self.kinds.append(OPS[op][1])
        return len(self.ins) - 1
    def fbits(self, b):
        if b not in self._fc:
            self._fc[b] = self.add('FImm', b)
        return self._fc[b]
    def f(self, x):
        return self.fbits(fb.bits(float(x)))
    def u(self, n):
        if n not in self._uc:
            self._uc[n] = self.add('UImm', n)
        return self._uc[n]
    def __len__(self):
        return len(self.ins)
    def line(self, cid):
        return str(cid) + ';' + ';'.join(op + ''.join(' %d' % a for a in args) for op, args in self.ins)
    def coq(self):
        return '[' + '; '.join('(%s,[%s])' % (op, ';'.join(str(a) for a in args)) for op, args in self.ins) + ']'
    def to_json(self):
        return [[op] + args for op, args in self.ins]
    @staticmethod
    def from_json(j):
        p = Prog()
        for it in j:
            p.add(it[0], *it[1:])
        return p
    def pretty(self):
        out = []
        for i, (op, args) in enumerate(self.ins):
            if op == 'FImm':
                out.append('r%d = f64 %r (0x%016x)' % (i, fb.fl(args[0]), args[0]))
            elif op == 'UImm':
                out.append('r%d = usize %d' % (i, args[0]))
            else:
                out.append('r%d = %s %s' % (i, op, ' '.join(str(a) for a in args)))
        return out

def parse_reg(txt):
    t = [int(x) for x in txt.split()]
    k = t[0]
    if k == 1: return ('A', t[1], t[2])
    if k == 2: return ('G', t[1], t[2], t[3])
    if k == 3: return ('F', t[1])
    if k == 4: return ('U', t[1])
    if k == 5: return ('B', bool(t[1]))
    if k == 6: return ('O', t[1])
    if k == 7:
        n = t[1]
        return ('C', [tuple(t[2 + 3 * i: 5 + 3 * i]) for i in range(n)])
    if k == 8:
        return ('OG', None if t[1] == 0 else tuple(t[2:5]))
    if k == 9: return ('P',)
    return ('E',)

def ser_reg(v):
    k = v[0]
    if k == 'A': return [1, v[1], v[2]]
    if k == 'G': return [2, v[1], v[2], v[3]]
    if k == 'F': return [3, v[1]]
    if k == 'U': return [4, v[1]]
    if k == 'B': return [5, int(v[1])]
    if k == 'O': return [6, v[1]]
    if k == 'C':
        out = [7, len(v[1])]
        for g in v[1]:
            out += list(g)
        return out
    if k == 'OG':
        return [8, 0] if v[1] is None else [8, 1] + list(v[1])
    if k == 'P': return [9]
    if k == 'X': return [11]
    return [10]
