"""theorem side of a check: build Properties/Cxx.vo, compile the pin file (statement pins +
Print Assumptions), parse the axioms, grep the development for forbidden constructs"""
import os, re, subprocess, time
from .runner import VERIF

COQ = os.path.join(VERIF, 'coq')
THEORIES = os.path.join(COQ, 'theories')
PINS = os.path.join(VERIF, 'tools', 'pins')

ALLOWED_AXIOMS = {
    'ClassicalDedekindReals.sig_not_dec',
    'ClassicalDedekindReals.sig_forall_dec',
    'FunctionalExtensionality.functional_extensionality_dep',
    'Classical_Prop.classic',
}
# primitive integers/floats reached through the Interval tactic (PiBounds.v only)
ALLOWED_PREFIXES = ('PrimInt63.', 'Uint63.', 'Uint63Axioms.', 'PrimFloat.', 'FloatAxioms.', 'FloatOps.',
                    'Sint63.', 'Sint63Axioms.')

FORBIDDEN = re.compile(r'\b(Admitted|admit|Axiom|Axioms|Parameter|Parameters|Conjecture|Conjectures|'
                       r'Unset\s+Guard|Unset\s+Positivity|Unset\s+Universe|bypass_check|type-in-type|'
                       r'impredicative-set|Admit\s+Obligations|give_up)\b')

def strip_comments(s):
    out, depth, i = [], 0, 0
    while i < len(s):
        if s.startswith('(*', i):
            depth += 1; i += 2
        elif s.startswith('*)', i) and depth > 0:
            depth -= 1; i += 2
        else:
            if depth == 0:
                out.append(s[i])
            i += 1
    return ''.join(out)

def scan_forbidden():
    """returns list of (file, line, token) over every .v of the development and the pins"""
    hits = []
    roots = [THEORIES, PINS, os.path.join(COQ, 'gen')]
    for root in roots:
        for dp, _, fns in os.walk(root):
            for fn in fns:
                if not fn.endswith('.v'):
                    continue
                path = os.path.join(dp, fn)
                txt = strip_comments(open(path).read())
                depth = 0
                for ln, line in enumerate(txt.splitlines(), 1):
                    m = FORBIDDEN.search(line)
                    if m:
                        hits.append((path, ln, m.group(0)))
                    if re.match(r'\s*Section\b', line):
                        depth += 1
                    if re.match(r'\s*End\b', line) and depth > 0:
                        depth -= 1
                    if depth == 0 and re.match(r'\s*(Hypothesis|Hypotheses|Variable|Variables|Context)\b', line):
                        hits.append((path, ln, 'assumption outside section'))
    return hits

def ensure_makefile():
    mk = os.path.join(COQ, 'Makefile')
    vs = []
    for dp, _, fns in os.walk(THEORIES):
        for fn in sorted(fns):
            if fn.endswith('.v'):
                vs.append(os.path.relpath(os.path.join(dp, fn), COQ))
    gen = os.path.join(COQ, 'gen')
    if os.path.isdir(gen):
        for fn in sorted(os.listdir(gen)):
            if fn.endswith('.v'):
                vs.append(os.path.join('gen', fn))
    stamp = os.path.join(COQ, '.vfiles')
    cur = '\n'.join(sorted(vs))
    if not os.path.exists(mk) or not os.path.exists(stamp) or open(stamp).read() != cur:
        subprocess.run(['coq_makefile', '-f', '_CoqProject'] + sorted(vs) + ['-o', 'Makefile'],
                       cwd=COQ, check=True, capture_output=True)
        open(stamp, 'w').write(cur)

def make(targets, timeout=2400, jobs=16):
    ensure_makefile()
    t = time.time()
    try:
        p = subprocess.run(['make', '-j%d' % jobs] + targets, cwd=COQ, capture_output=True, text=True,
                           timeout=timeout)
    except subprocess.TimeoutExpired:
        return False, 'make timed out after %ds' % timeout, time.time() - t
    return p.returncode == 0, (p.stdout[-3000:] + p.stderr[-6000:]), time.time() - t

AX_BLOCK = re.compile(r'^(Closed under the global context|Axioms:)', re.M)

def check_pins(prop, theorems, timeout=600):
    """compile tools/pins/<prop>.v: every `Check thm : stmt.` must typecheck and every
    `Print Assumptions thm.` must list only allowed axioms.  returns per-theorem status"""
    path = os.path.join(PINS, prop + '.v')
    status = {t: {'pinned': False, 'axioms': None, 'ok': False} for t in theorems}
    if not os.path.exists(path):
        return status, 'pin file missing: ' + path
    src = strip_comments(open(path).read())
    for t in theorems:
        if re.search(r'Check\s+%s\s*:' % re.escape(t), src) and \
           re.search(r'Print\s+Assumptions\s+%s\s*\.' % re.escape(t), src):
            status[t]['pinned'] = True
    pdir = os.path.join(VERIF, '.work', 'pins')
    os.makedirs(pdir, exist_ok=True)
    try:
        p = subprocess.run(['coqc', '-noglob', '-Q', THEORIES, 'GV', '-Q', os.path.join(COQ, 'gen'), 'GVgen',
                            '-o', os.path.join(pdir, prop + '.vo'), path],
                           capture_output=True, text=True, timeout=timeout)
    except subprocess.TimeoutExpired:
        return status, 'pin compilation timed out'
    if p.returncode != 0:
        return status, 'pin file does not compile: ' + (p.stderr[-3000:] or p.stdout[-3000:])
    # Print Assumptions outputs appear in order of the commands
    order = re.findall(r'Print\s+Assumptions\s+(\w+)\s*\.', src)
    out = p.stdout
    # split output into assumption blocks
    blocks = []
    cur = None
    for line in out.splitlines():
        if line.startswith('Closed under the global context'):
            blocks.append([]); cur = None
        elif line.startswith('Axioms:'):
            cur = []; blocks.append(cur)
        elif cur is not None:
            m = re.match(r'^([A-Za-z_][\w\.\']*)\s*(:|$)', line)
            if m and not line.startswith(' '):
                if m.group(1) in status:      # output of the next `Check thm : ...` ends the block
                    cur = None
                else:
                    cur.append(m.group(1))
    if len(blocks) != len(order):
        return status, 'could not parse Print Assumptions output (%d blocks for %d commands)' % (len(blocks), len(order))
    for name, axs in zip(order, blocks):
        if name in status:
            short = {x.split('.')[-1] for x in ALLOWED_AXIOMS}
            bad = [a for a in axs if a not in ALLOWED_AXIOMS and a not in short
                   and not a.startswith(ALLOWED_PREFIXES)]
            status[name]['axioms'] = axs
            status[name]['ok'] = status[name]['pinned'] and not bad
            if bad:
                status[name]['bad_axioms'] = bad
    return status, None

def check(prop, theorems):
    """full theorem-side check for one property"""
    res = {'obligations': len(theorems), 'discharged': 0, 'failures': [], 'axioms': [], 'wall_s': 0.0}
    t0 = time.time()
    hits = scan_forbidden()
    if hits:
        res['failures'].append('forbidden construct: ' + '; '.join('%s:%d %s' % h for h in hits[:5]))
    ok, log, dt = make(['theories/Properties/%s.vo' % prop])
    if not ok:
        res['failures'].append('make theories/Properties/%s.vo failed: %s' % (prop, log[-1500:]))
        res['wall_s'] = time.time() - t0
        return res
    status, err = check_pins(prop, theorems)
    if err:
        res['failures'].append(err)
    axs = set()
    for t in theorems:
        st = status[t]
        if st['ok'] and not hits:
            res['discharged'] += 1
        else:
            res['failures'].append('theorem %s not discharged (pinned=%s axioms=%s)' % (t, st['pinned'], st.get('bad_axioms', st['axioms'])))
        for a in (st['axioms'] or []):
            axs.add(a)
    res['axioms'] = sorted(axs)
    res['wall_s'] = time.time() - t0
    return res
