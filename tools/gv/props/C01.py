from .base import *
from ..prog import OPS

ID = 'C01'
THEOREMS = ['C01_angle_closed', 'C01_steps_closed', 'C01_new_fast', 'C01_new_general', 'C01_new_total', 'C01_sqrt_sites', 'C01_panics', 'C01_history', 'C01_geonum_closed_pure', 'C01_geonum_closed_encoded', 'C01_geonum_closed_add', 'C01_program_closed', 'C01_program_closed_run', 'C01_okv_def']
OWNED = set(o for o in OPS if o[0] in 'AGC' and o not in ('FImm', 'UImm'))
RULE = ('type-directed random programs of 8-40 steps over EVERY public constructor, operator spelling and method of Angle, Geonum and GeoCollection, seeded with in-domain values (magnitudes 0 / [1e-100,1e100], '
        '(p,d) classes incl. negatives, denormals, exact multiples with any divisor, radians, blades to 2^40) and continued on their own results while those stay in the domain; '
        'plus the exhaustive constructor grid Angle::new(k, d), k in [-512,512] (quick) / [-4096,4096] (thorough), d in {1,2,3,4,6,8,12,PI}. Every register whose operands are in-domain is checked. '
        'non-trivial = an op whose result differs from all its operands; distinct by (ops, result bits)')
TRUSTED = TRUSTED_COMMON
ASSUMPTIONS = ASSUME_COMMON + ['intermediate products of two in-domain magnitudes that leave [1e-100,1e100] (inside geo / meet) are treated as outside the stated domain']
S3_LEGS = ['Geonum operations that call libm (dot, wedge, add general path, project ...): finiteness of their magnitudes is checked by predicate c01_walk on every register, proved only where the structure alone guarantees it (sqrt sites, encodings)']

CORE = [o for o in OPS if o[0] in 'AGC' and o not in ('FImm', 'UImm', 'GPow')]

def dom_float(P, r):
    k = r.below(6)
    if k == 0: return P.f(r.choice([1.0, 2.0, 0.5, 3.0]))
    if k == 1: return P.f(r.logu(1e-3, 1e3))
    if k == 2: return P.f(-r.logu(1e-3, 1e3))
    if k == 3: return P.f(float(r.below(9) + 1))
    return P.f(r.uniform(0.1, 10.0))

def rand_core_prog(r, nsteps):
    P = Prog()
    pools = {'a': [], 'g': [], 'c': []}
    def pick(kind):
        pool = pools[kind]
        if pool and r.chance(0.8): return r.choice(pool)
        if kind == 'a': x = G.gen_angle(P, r, True, True) if r.chance(0.5) else canon_angle(P, r)
        elif kind == 'g': x = G.gen_geonum(P, r, True, True, True) if r.chance(0.5) else canon_geonum(P, r)
        else: x = P.add(r.choice(['CFrom', 'CFromIter']), *[pick('g') for _ in range(r.below(6))])
        pools[kind].append(x)
        return x
    for _ in range(nsteps):
        op = r.choice(CORE)
        if op == 'GTan':
            a = pick('a'); P.add('GCos', a); v_ = P.add('GTan', a); pools['g'].append(v_); continue
        if op == 'GInvCircle':
            p, c = pick('g'), pick('g'); rad = P.f(r.logu(1e-4, 1e4)); P.add('GSub', 0, p, c)
            v_ = P.add('GInvCircle', p, c, rad); pools['g'].append(v_); continue
        sig, res = OPS[op]
        star = sig.endswith('*'); body = sig[:-2] if star else sig
        args = []
        for ch in body:
            if ch == 'i':
                args.append(r.below(2) if op in ('ADivF', 'AMulG', 'AAddG') else r.below(4))
            elif ch == 'f':
                if op == 'ADivF': args.append(P.f(r.choice([1.0, 2.0, 3.0, 0.5, -1.0, -2.0, -0.25, -3.5, r.uniform(0.1, 50.0), -r.uniform(0.1, 50.0)])))
                elif op in ('GNew', 'GNewBlade', 'ANew', 'ANewBlade') : args.append(dom_float(P, r))
                else: args.append(dom_float(P, r))
            elif ch == 'u':
                args.append(P.u(r.choice(G.BLADE_OFFS) if r.chance(0.3) else r.below(12)))
            else:
                args.append(pick(ch))
        if op in ('GNew', 'GNewBlade', 'ANew', 'ANewBlade', 'ANewCart', 'GNewCart', 'GDim', 'GScalar', 'GNewAngle'):
            # constructors: draw arguments from the domain classes instead
            x = G.gen_geonum(P, r, True, True, True) if OPS[op][1] == 'g' else G.gen_angle(P, r, True, True)
            pools[OPS[op][1]].append(x); continue
        if star: args += [pick('g') for _ in range(r.below(5))]
        x = P.add(op, *args)
        if res in pools: pools[res].append(x)
    return P

def grid_cases(tier):
    span = 512 if tier == 'quick' else 4096
    divs = [1.0, 2.0, 3.0, 4.0, 6.0, 8.0, 12.0, fb.PI]
    cases = []
    ks = list(range(-span, span + 1))
    chunk = 64
    for d in divs:
        for i in range(0, len(ks), chunk):
            P = Prog()
            preds = []
            for k in ks[i:i + chunk]:
                a = P.add('ANew', P.f(float(k)), P.f(d))
                preds.append(('new_value', [a, ['#', fb.bits(float(k))], ['#', fb.bits(d)]]))
            cases.append(Case(P, preds, 'grid'))
    return cases

def generate(rng, tier):
    n = 400 if tier == 'quick' else 12000
    cases = []
    for i in range(n):
        r = rng.fork(i)
        P = rand_core_prog(r, 8 + r.below(32))
        cases.append(Case(P, [('c01_walk', [['#', P.to_json()]])], 'random-program'))
    cases += grid_cases(tier)
    # every spelling of every binary / scalar angle operator on the small blade counts (0 included) and the
    # remainder classes, with divisors of either sign and below 1: a slip in ONE duplicated impl block shows here
    m = 60 if tier == 'quick' else 1500
    for j in range(m):
        r = rng.fork(10**7 + j)
        P = Prog()
        a = angle_rem(P, rem_class(r), r.choice([0, 0, 0, 1, 2, 3, 5]))
        b = angle_rem(P, rem_class(r), r.choice([0, 1, 2, 3, 7]))
        if r.chance(0.4):
            # remainders whose float difference is EXACTLY a threshold of the code (1e-15, 1e-10) or an ulp off it
            g = fb.nxt(r.choice([1e-15, 1e-15, 1e-10]), r.choice([-1, 0, 0, 0, 1]))
            lo = r.choice([0.0, 0.0, 1e-15, 2e-15])
            ra, rb = (lo, lo + g) if r.chance(0.6) else (lo + g, lo)
            a = angle_rem(P, ra, r.choice([0, 1, 2, 4, 8])); b = angle_rem(P, rb, r.choice([0, 1, 2, 4]))
        for k in [r.choice([0.5, 0.25, 0.1, 0.75, 0.3]), -r.choice([0.5, 1.0, 2.0, 3.0, 0.1]), r.choice([2.0, 3.0, 7.0])]:
            P.add('ADivF', 0, a, P.f(k)); P.add('ADivF', 1, a, P.f(k))
        for sp in range(4):
            P.add('AAdd', sp, a, b); P.add('ASub', sp, a, b); P.add('AMul', sp, a, b); P.add('ADivA', sp, a, b)
        cases.append(Case(P, [('c01_walk', [['#', P.to_json()]])], 'spellings'))
    # nearly cancelling sums of values that are RESULTS of other operations: a value against its own round trip
    # (inverse of the inverse, scaled there and back, multiplied and divided), magnitudes ulps apart, whole-turn twins -
    # in both orders and all spellings of + and -; the cancellation branch is where a signed residue can leak into a magnitude
    m2 = 40 if tier == 'quick' else 1000
    for j in range(m2):
        r = rng.fork(2 * 10**7 + j)
        P = Prog()
        ma, mb = mag_pair(r, False) if r.chance(0.4) else (mag_dom(r, False),) * 2
        ang = canon_angle(P, r, r.chance(0.3))
        g = P.add('GNewAngle', P.f(ma), ang)
        k = r.choice([0.3, 3.0, 7.0, 1e-3, 1.1, r.logu(1e-3, 1e3)])
        kind = r.below(5)
        if kind == 0: t = P.add('GInv', P.add('GInv', g))
        elif kind == 1: t = P.add('GScale', P.add('GScale', g, P.f(k)), P.f(1.0 / k))
        elif kind == 2:
            h = canon_geonum(P, r, False, False)
            t = P.add('GDiv', 0, P.add('GMul', 0, g, h), h)
        elif kind == 3: t = P.add('GNewAngle', P.f(mb), ang)
        else: t = P.add('GRotate', P.add('GNewAngle', P.f(mb), ang), P.add('ANewBlade', P.u(4 * r.choice([1, 2, 250000])), P.f(0.0), P.f(1.0)))
        for sp in range(4):
            P.add('GSub', sp, g, t); P.add('GSub', sp, t, g)
        ng, nt = P.add('GNeg', g), P.add('GNeg', t)
        P.add('GAdd', r.below(4), g, nt); P.add('GAdd', r.below(4), nt, g); P.add('GAdd', r.below(4), ng, t); P.add('GAdd', r.below(4), t, ng)
        cases.append(Case(P, [('c01_walk', [['#', P.to_json()]])], 'round-trip-cancel'))
    return cases

LEVEL_TEXT = ('Kernel-checked theorems about the model: Angle addition, subtraction and every blade-step operator map canonical angles to canonical angles (remainder in [0, pi/2 - 1e-10], blade >= 0) for ALL canonical inputs; '
              'Angle::new is canonical on the fast path unconditionally and on the general path whenever the computed total p*PI/d is finite with |total| <= 2^42 (C01_new_total: the repaired defect F1 - the lifted total is proved non-negative); '
              'the two sqrt sites (Geonum + Geonum general path, distance_to) never return NaN or a negative magnitude for any input and any libm; inv / normalize / div / invert_circle panic exactly on zero magnitude; '
              'C01_history: canonical-ness is an invariant of every sequence of angle additions, subtractions and step operators (induction over the list). '
              'C01_closure_pure / C01_closure_encoded / C01_closure_add: every Geonum operation that does not call libm, the libm gateways that re-encode a value (dot, cos, sin, project_to_angle) and both exact paths of Geonum + Geonum return a canonical angle for canonical operands. '
              'C01_program_closed: starting from ANY register file of canonical values, every register written by ANY program over the 80 closed opcodes of the op language shared with the correspondence harness (angle/geonum arithmetic in all spellings, step operators, products, quotients, reflection, wedge, distance, scalar, collections incl. sort) is canonical, for every libm - induction over the instruction list with data flow through registers. '
              'Finite-ness of magnitudes that pass through libm is decided by the whole-program predicate c01_walk on every register (S3 for those legs). Known finding F7 (p*PI overflow) is excluded from C01_new_total by its hypothesis.')
LEVEL_NOTE = ('Partial for the libm-dependent magnitudes. Trusted: Coq kernel + vm_compute; 4 standard-library axioms; hand-written model validated bit-for-bit each run; harness/emitter/predicates.')
