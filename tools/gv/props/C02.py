from .base import *

ID = 'C02'
THEOREMS = ['C02_fast_path', 'C02_dimension', 'C02_with_blade', 'C02_scalar', 'C02_decomp_exact', 'C02_new_is_from_total', 'C02_new_value', 'C02_fast_path_negative', 'C02_new_value_pd', 'C02_negative_at_most_one_turn', 'C02_lift_range', 'C02_from_cartesian_direction', 'C02_from_cartesian_value', 'C02_radians_direction', 'C02_new_direction', 'C02_atan2_premise_inhabited', 'C02_total_real_pi', 'C02_new_real_pi']
OWNED = {'ANew', 'ANewBlade', 'ANewCart', 'GNew', 'GNewBlade', 'GNewCart', 'GDim', 'GScalar', 'GNewAngle'}
RULE = ('Angle::new(p, d) on the exhaustive grid p in [-512,512] (quick) / [-4096,4096] (thorough) x d in {1,2,3,4,6,8,12,PI}, plus random classes: exact multiples of pi/2 written with any divisor, radians with divisor PI, '
        'half-integers, negatives, denormals, |2p/d| log-uniform to 2^40, remainders steered next to 0 / 1e-15 / 1e-10 / pi/2 at +-2 ulps; blade offsets {0..8,1000,10^6,2^31-1,2^31,2^32+2,2^40}; '
        'Cartesian (x,y) on axes, diagonals, random, tiny/huge; scalar values incl. +-0; dimension indices to 2^40. non-trivial = constructor result with non-zero blade or remainder; distinct by result bits')
TRUSTED = TRUSTED_COMMON
ASSUMPTIONS = ASSUME_COMMON + ['new_from_cartesian uses libm atan2: its value is decided by predicate cartesian_value against mpmath']
S3_LEGS = ["value of Angle::new against the REAL p*pi/d: theorems C02_total_real_pi / C02_new_real_pi (direction within a stated bound for finite quotients); predicate new_value re-decides every generated case incl. the fast path and |p/d| beyond the theorem's range", "negative p/d: 'at most one extra turn' is C02_negative_at_most_one_turn; new_from_cartesian / Geonum::new_from_cartesian values are theorems under atan2_acc (C02_from_cartesian_direction / _value) and decided per case by predicate cartesian_value"]

def generate(rng, tier):
    from .C01 import grid_cases
    cases = grid_cases(tier)
    n = 400 if tier == 'quick' else 12000
    for i in range(n):
        r = rng.fork(i)
        P = Prog()
        preds = []
        p, d = G.pd_class(r)
        a = P.add('ANew', P.f(p), P.f(d))
        preds.append(('new_value', [a, ['#', fb.bits(p)], ['#', fb.bits(d)]]))
        nb = r.choice(G.BLADE_OFFS)
        wb = P.add('ANewBlade', P.u(nb), P.f(p), P.f(d))
        preds.append(('with_blade_adds', [a, wb, ['#', nb]]))
        m = mag_dom(r)
        g1 = P.add('GNew', P.f(m), P.f(p), P.f(d))
        g2 = P.add('GNewBlade', P.f(m), P.u(nb), P.f(p), P.f(d))
        preds += [('angle_part_equal', [g1, a]), ('angle_part_equal', [g2, wb]),
                  ('bit_equal', [g1, P.add('GNewAngle', P.f(m), a)])]
        # cartesian
        k = r.below(5)
        if k == 0: x, y = r.choice([(1.0, 0.0), (0.0, 1.0), (-1.0, 0.0), (0.0, -1.0), (1.0, 1.0), (-2.0, 2.0), (-3.0, -3.0), (2.0, -2.0), (-1.0, -0.0), (-1.0, 0.0)])
        elif k == 1: x, y = r.uniform(-5, 5), r.uniform(-5, 5)
        elif k == 2: x, y = r.logu(1e-100, 1e100) * r.choice([1, -1]), r.logu(1e-100, 1e100) * r.choice([1, -1])
        elif k == 3: x, y = r.uniform(-1, 1), r.choice([1e-17, -1e-17, 1e-12, -1e-12, 5e-324])
        else:
            t = r.uniform(0, 2 * fb.PI); mm = r.logu(1e-3, 1e3); import math; x, y = mm * math.cos(t), mm * math.sin(t)
        ca = P.add('ANewCart', P.f(x), P.f(y)); cg = P.add('GNewCart', P.f(x), P.f(y))
        preds += [('cartesian_value', [ca, ['#', fb.bits(x)], ['#', fb.bits(y)]]), ('cartesian_value', [cg, ['#', fb.bits(x)], ['#', fb.bits(y)]]),
                  ('angle_part_equal', [cg, ca])]
        # scalar / dimension
        sv = r.choice([0.0, -0.0, 1.0, -1.0, 5e-324, -5e-324, 1e100, -1e100, m, -m])
        preds.append(('scalar_enc', [P.add('GScalar', P.f(sv)), ['#', fb.bits(sv)]]))
        kd = r.choice(G.BLADE_OFFS) if r.chance(0.5) else r.below(1 << 40)
        preds.append(('dimension_enc', [P.add('GDim', P.f(m), P.u(kd)), ['#', fb.bits(m)], ['#', kd]]))
        cases.append(Case(P, preds, 'ctor'))
    return cases

LEVEL_TEXT = ('Kernel-checked theorems about the model: Angle::new(k, 2.0) is exactly {blade k, remainder 0} for every integer 0 <= k < 2^53 (hence create_dimension); an explicit blade offset n < 2^53 adds exactly n quarter turns and leaves the remainder untouched; '
              'scalar(v) is |v| at blade 0 (v >= 0 incl. -0.0) or blade 2; on the general path (repaired defect F2) the result holds exactly k = floor(t/q) quarter turns with the exact remainder t - kq, or the 1e-10 snap fired (k+1, remainder 0), for every finite lifted total 0 < t <= 2^43; negative quarter turns -2^50 < d < 0 written with divisor 2 land exactly on d + 4*floor((6-d)/4) blades (3..6 above d, remainder 0), '
              'so the library total equals t within 1e-10 + 2^-52. C02_negative_at_most_one_turn / C02_lift_range: a negative total on the general path is lifted into [0, 2 pi + 2^-8] and yields at most 4 blades (exactly 4 only with a remainder below 2^-8: the rounding of the lift at totals up to 2^42). C02_new_direction (REAL pi): on the general path the result points along the computed total modulo whole turns within 1e-10 + 2e-14 + |t|*1e-15. C02_from_cartesian_direction / C02_from_cartesian_value: the Cartesian constructors reproduce the vector (x, y) component by component within r(6*2^-53 + u2 + 1e-10 + 3e-14) for any libm whose atan2 is within u2 of an angle reproducing its arguments (explicit premise atan2_acc, shown satisfiable, monitored on every recorded call). C02_total_real_pi / C02_new_real_pi: the computed total is the REAL p*pi/d within 5e-16 relative, so Angle::new(p, d) on the general path denotes p*pi/d modulo whole forward turns within 1e-10 + 3e-14 + |t|*2e-15 (|d| >= 2^-500). Every case of each run is additionally decided against mpmath (S3).')
LEVEL_NOTE = ('The fast path (integer quarter turns) is exact; the general path is covered by C02_new_real_pi. Trusted: Coq kernel + vm_compute; 4 standard-library axioms; plus the primitive-integer axioms (PrimInt63.*, Uint63.*_spec) of the Interval tactic for the real-pi theorems; hand-written model validated bit-for-bit each run; harness/emitter/predicates.')
