from .base import *

ID = 'C03'
THEOREMS = ['C03_spellings', 'C03_add_comm', 'C03_add_canon_carry', 'C03_add_zero_r', 'C03_add_zero_l',
            'C03_add_total', 'C03_add_assoc', 'C03_direction']
OWNED = {'AAdd', 'AMul', 'ARotate'}
RULE = ('pairs/triples of canonical angles: remainders from threshold classes (0, 1e-15, 1e-10, pi/2-1e-10, pi/2-1e-15 at -3..+3 ulps), '
        'pair sums steered onto pi/2 +- {ulps, 1e-15, 1e-10}, exact fractions of a quarter turn, arbitrary; blades 0..8, 1000.., 10^6, 2^31+-1, 2^32+2, 2^40, random < 2^40; '
        'all 9 spellings (+ x4, * x4, rotate) plus the swapped sum, a+0, 0+a and both associations of a triple. '
        'non-trivial = an owned op whose result differs from all its operands; distinct by (ops, result bits)')
TRUSTED = TRUSTED_COMMON
ASSUMPTIONS = ASSUME_COMMON
S3_LEGS = ['associativity of angle addition up to the 2e-10 boundary snap: theorem C03_add_assoc covers the totals; the predicate assoc_total re-decides it on the sampled triples of each run']

def pair_rems(r):
    k = r.below(8)
    if k < 3:
        ra = r.uniform(0.0, fb.Q - 2e-10)
        off = r.choice([0.0, 1e-15, -1e-15, 1e-10, -1e-10, 2e-15, -2e-15, 1.5e-10, -1.5e-10, 5e-16, -5e-16,
                        1e-14, -1e-14, 1e-13, -1e-13, 1e-12, -1e-12, 3e-12, 1e-11, -1e-11, 5e-11, -5e-11, 9.9e-11, -9.9e-11, 1e-9, -1e-9])
        rb = fb.nxt(fb.Q + off - ra, r.choice([-2, -1, 0, 1, 2]))
        rb = min(max(rb, 0.0), fb.nxt(fb.Q - 1e-10, -2))
        return ra, rb
    if k == 3:
        return r.choice([0.0, 5e-324, 1e-300, 1e-16]), r.choice([0.0, 5e-324, 1e-300, 1e-16])
    if k == 4:
        x = fb.nxt(fb.Q - 1e-10, -r.below(6) - 2)
        return x, fb.nxt(fb.Q - 1e-10, -r.below(6) - 2)
    return rem_class(r), rem_class(r)

def generate(rng, tier):
    n = 260 if tier == 'quick' else 6000
    cases = []
    for i in range(n):
        r = rng.fork(i)
        P = Prog()
        ra, rb = pair_rems(r)
        a = angle_rem(P, ra, blade_class(r))
        b = angle_rem(P, rb, blade_class(r))
        s = sp4(P, 'AAdd', a, b) + sp4(P, 'AMul', a, b) + [P.add('ARotate', a, b)]
        sw = P.add('AAdd', r.below(4), b, a)
        z = P.add('ANew', P.f(0.0), P.f(1.0))
        az = P.add('AAdd', r.below(4), a, z)
        za = P.add('AMul', r.below(4), z, a)
        preds = [('add_total', [a, b, s[0]]), ('all_bit_equal', [s]), ('bit_equal', [s[0], sw]),
                 ('num_equal_angle', [az, a]), ('num_equal_angle', [za, a]), ('canon_angle', [a]), ('canon_angle', [b])]
        if r.chance(0.5):
            c = canon_angle(P, r)
            ab_c = P.add('AAdd', 0, s[0], c)
            bc = P.add('AAdd', 0, b, c)
            a_bc = P.add('AAdd', 0, a, bc)
            preds += [('assoc_total', [ab_c, a_bc]), ('add_total', [s[0], c, ab_c])]
        cases.append(Case(P, preds, 'pair'))
    return cases

LEVEL_TEXT = ('Kernel-checked theorems about the Gallina model of Angle addition for ALL canonical angles: the nine spellings are one function, '
              'addition is bit-for-bit commutative (no hypothesis), preserves the canonical invariant with blade carry in {0,1}, has the zero angle as identity, '
              'and its total is the sum of totals within 1e-10 + 2^-51. The two associations of a triple differ by at most four addition tolerances (C03_add_assoc; the property text says two - four is what the per-step bound yields). '
              'C03_direction (REAL pi): the sum points along dirR a + dirR b within 1e-10 + 2^-51 + 1e-16 (dirR x = blade*pi/2 + rem). '
              'The model is tied to the Rust code by a bit-exact correspondence on boundary-directed programs on every run.')
LEVEL_NOTE = ('Trusted: Coq kernel + vm_compute; 4 classical/real-number axioms of the standard library; plus the primitive-integer axioms (PrimInt63.*, Uint63.*_spec) that the Interval tactic uses for the two bounds on the real pi in PiBounds.v (direction theorems only); the hand-written model (validated bit-for-bit against the implementation on the cases of each run, not proved equal to it); '
              'harness, emitter and predicates. No libm function is involved in this property.')
