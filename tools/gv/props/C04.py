from .base import *

ID = 'C04'
THEOREMS = ['C04_spellings', 'C04_divf_spellings', 'C04_sub_self', 'C04_sub_canon', 'C04_sub_blade',
            'C04_lift_range', 'C04_sub_total', 'C04_add_sub', 'C04_divf', 'C04_total_any', 'C04_direction']
OWNED = {'ASub', 'ADivA', 'ADivF'}
RULE = ('blade differences enumerated exhaustively over [-64,64] (quick) / [-4096,4096] (thorough) at several base blades, crossed with six remainder-gap classes '
        '(equal, gap < 1e-15, gap = 1e-15 +- ulps, gap < 1e-10, arbitrary, borrow); all 8 spellings of angle - angle and angle / angle; (a+b)-b; a-a; '
        'a / k for positive k (1, small integers, random, < 1) with totals up to 2^21 quarter turns, both spellings. non-trivial = owned op result differs from its operands')
TRUSTED = TRUSTED_COMMON
ASSUMPTIONS = ASSUME_COMMON
S3_LEGS = ["a / k divides the total by k: theorem C04_divf (canonical, within 1e-10 + 2^-52 + 2^-69 + 2^-49 theta/k of theta/k for positive k in [2^-900, 2^900], blades < 2^50); negative divisors and the rest by predicate divf_total per case", '(a+b)-b = a within 2e-10: theorem C04_add_sub (blade a >= 1); blade-0 minuends and the per-case decision by predicate roundtrip_total', 'wrap-around case of C04_sub_total (larger subtrahend): blade part proved (C04_sub_blade, C04_lift_range), value part by predicate sub_total']

def gap_pair(r):
    k = r.below(7)
    base = rem_class(r)
    if k == 0: return base, base
    if k == 1:
        g = r.choice([1e-16, 3e-16, 9e-16, 5e-17])
    elif k == 2:
        g = fb.nxt(1e-15, r.choice([-2, -1, 0, 1, 2]))
    elif k == 3:
        g = r.choice([2e-15, 1e-12, 9e-11, 1e-10, 1.1e-10])
    else:
        return base, rem_class(r)
    lo = min(base, fb.Q - 1e-9)
    hi = lo + g
    return (hi, lo) if r.chance(0.5) else (lo, hi)

def generate(rng, tier):
    cases = []
    span = 64 if tier == 'quick' else 4096
    bases = [0, 5, 1000, 2**31, 2**40] if tier == 'quick' else [0, 1, 2, 3, 5, 1000, 10**6, 2**31, 2**32 + 2, 2**40]
    diffs = list(range(-span, span + 1))
    i = 0
    per = 1 if tier == 'quick' else 2
    for d in diffs:
        for _ in range(per):
            r = rng.fork(i); i += 1
            base = r.choice(bases) + (span if r.chance(0.5) else 0)
            ba, bb = base + max(d, 0) , base + max(-d, 0)
            ra, rb = gap_pair(r)
            P = Prog()
            a = angle_rem(P, ra, ba); b = angle_rem(P, rb, bb)
            s = sp4(P, 'ASub', a, b) + sp4(P, 'ADivA', a, b)
            preds = [('sub_total', [a, b, s[0]]), ('all_bit_equal', [s]), ('canon_angle', [s[0]])]
            aa = P.add('ASub', r.below(4), a, a)
            preds.append(('is_zero_angle', [aa]))
            ab = P.add('AAdd', 0, a, b)
            back = P.add('ASub', r.below(4), ab, b)
            preds.append(('roundtrip_total', [a, back, ['#', 2]]))
            cases.append(Case(P, preds, 'blade-diff'))
    # dense small-difference table: every blade difference in [-9, 9] x every remainder gap class x both
    # orientations (the borrow / snap / lift logic has a different branch in almost every cell)
    gaps = [0.0, 5e-17, 3e-16, 9e-16, 1e-15, 2e-15, 1e-12, 5e-11, 9e-11, 1e-10, 1.1e-10, 1e-9]
    rng2 = rng.fork(5 * 10**6)
    for d in range(-9, 10):
        P = Prog(); preds = []
        base = rng2.choice([0, 3, 1000]) + 9
        for g in gaps:
            lo = rng2.choice([0.5, 0.25, 1.0, 0.1, 0.0, 0.0])          # lo = 0: the float difference IS the gap, exactly (incl. exactly 1e-15)
            for (ra, rb) in ((lo + g, lo), (lo, lo + g)):
                a = angle_rem(P, ra, base + max(d, 0)); b = angle_rem(P, rb, base + max(-d, 0))
                s_ = P.add('ASub', rng2.below(4), a, b)
                preds += [('sub_total', [a, b, s_]), ('canon_angle', [s_])]
                if d >= 0 and ra >= rb:
                    back = P.add('AAdd', 0, s_, b)
                    preds.append(('roundtrip_total', [a, back, ['#', 2]]))
        cases.append(Case(P, preds, 'dense-diff'))
    # scalar division
    n = 120 if tier == 'quick' else 3000
    for j in range(n):
        r = rng.fork(10**6 + j)
        P = Prog()
        bl = r.choice([0, 1, 2, 3, 7, 19, 100, 1001, 2**20, 2**21 - 1, r.below(2**21)])
        a = angle_rem(P, rem_class(r), bl)
        k = r.choice([1.0, 1.0, 2.0, 3.0, 4.0, 0.5, 7.0, 1e3, r.uniform(0.1, 50.0), r.logu(1e-3, 1e6)])
        kc = r.below(4)
        if kc == 0:
            # decimal fractions (not dyadic: the f64 divisor sits a hair off the decimal) on small blade counts,
            # and divisors chosen so that the quotient lands on a blade boundary: k = fl(blade / n)
            k = r.choice([0.1, 0.2, 0.3, 0.7, 1.1, 0.9, 2.5, 0.05, 1.7, 3.3, 0.6])
            if r.chance(0.5):
                bl = r.choice([1, 2, 3, 5, 7, 11, 10, 33, 100])
                a = angle_rem(P, r.choice([0.0, 0.0, 0.25, rem_class(r)]), bl)
        elif kc == 1 and bl > 0:
            k = float(bl) / float(r.choice([1, 2, 3, 5, 10, 11, 30, 100, 1 + r.below(1000)]))
        d0 = P.add('ADivF', 0, a, P.f(k)); d1 = P.add('ADivF', 1, a, P.f(k))
        preds = [('divf_total', [a, ['#', fb.bits(k)], d0]), ('bit_equal', [d0, d1]), ('canon_angle', [d0])]
        if k == 1.0:
            preds.append(('roundtrip_total', [a, d0, ['#', 1]]))
        cases.append(Case(P, preds, 'divf'))
    return cases

LEVEL_TEXT = ('Kernel-checked theorems about the model of Angle subtraction for ALL canonical operands: 8 spellings are one function, a-a is exactly the zero angle, '
              'the result is always canonical with a non-negative blade (never a negative angle), its blade is the lifted blade difference minus a borrow plus at most one carry '
              '(negative differences land in [0,3], congruent mod 4), and when the minuend has more blades the total is the difference of totals within 1e-10 + 3 ulp(4). '
              '(a+b)-b returns a within 2e-10 + 5 ulp(4) when a carries at least one blade (C04_add_sub). C04_divf: a / k (k > 0) is canonical and its total is theta(a)/k within 1e-10 + 2^-52 + 2^-69 + 2^-49 theta(a)/k. C04_total_any removes the blade-order premise: for ANY canonical pair the result denotes theta a - theta b plus a non-negative number of lifted whole turns within 1e-10 + 3*2^-52, and C04_direction states it with the REAL pi (within 1e-10 + 3*2^-52 + 2e-16 of dirR a - dirR b + 2 pi j).')
LEVEL_NOTE = ('Trusted: Coq kernel + vm_compute; 4 classical/real-number axioms of the standard library; plus the primitive-integer axioms (PrimInt63.*, Uint63.*_spec) that the Interval tactic uses for the two bounds on the real pi in PiBounds.v (value theorems only); the hand-written model (validated bit-for-bit on the cases of each run); harness, emitter, predicates. No libm involved.')
