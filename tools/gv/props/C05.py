from .base import *

ID = 'C05'
THEOREMS = ['C05_mul', 'C05_mul_spellings', 'C05_mul_comm', 'C05_mul_one', 'C05_mul_angle', 'C05_scale',
            'C05_angle_mul', 'C05_inv', 'C05_inv_angle', 'C05_div_spellings', 'C05_normalize', 'C05_pow_mag', 'C05_pow_angle', 'C05_assoc', 'C05_inv_inv']
OWNED = {'GMul', 'GDiv', 'GDivM', 'GInv', 'GScale', 'GNormalize', 'GPow', 'AMulG', 'AAddG'}
RULE = ('pairs/triples of geometric numbers from the C01 domain (magnitudes 0, 1, 1e+-100, k-ulp neighbours, log-uniform; remainder threshold classes; blades to 2^40): '
        'all 4 spellings of * and /, the div method, Angle*Geonum and Angle+Geonum in both forms, scale by {0,-0,+-1,+-tiny,+-huge,random}, inv, normalize, pow, identity, commutativity, associativity; '
        'zero-magnitude divisors for the documented panics. non-trivial = owned op result differs from its operands')
TRUSTED = TRUSTED_COMMON
ASSUMPTIONS = ASSUME_COMMON + ['pow: magnitude is libm pow(mag, n) (C05_pow_mag holds for every libm); its numeric accuracy is glibc\'s, checked by predicate pow_mag against mpmath']
S3_LEGS = ['associativity of * (theorem C05_assoc: magnitudes within 3 roundings, angles by C03) and inv(inv g) (theorem C05_inv_inv) are proved for finite non-underflowing products; outside those hypotheses (overflow / underflow to zero) only the predicate geonum_close decides', "pow: the property claims the magnitude only (C05_pow_mag, numeric accuracy of libm pow by predicate pow_mag); the angle is what the code computes - the blade-exact sum with Angle::new(n, 1), i.e. n half turns added (C05_pow_angle), not the rustdoc's n*theta; no further claim is made about it"]

SCALES = [0.0, -0.0, 1.0, -1.0, 5e-324, -5e-324, 1e-300, -1e-300, 1e100, -1e100, 2.0, -2.0, 0.5, -3.5]

def generate(rng, tier):
    n = 220 if tier == 'quick' else 5000
    cases = []
    for i in range(n):
        r = rng.fork(i)
        P = Prog()
        a = canon_geonum(P, r); b = canon_geonum(P, r)
        aa = P.add('GAngle', a); ba = P.add('GAngle', b)
        s = P.add('AAdd', 0, aa, ba)
        m = sp4(P, 'GMul', a, b)
        sw = P.add('GMul', r.below(4), b, a)
        preds = [('mul_exact', [a, b, m[0], s]), ('all_bit_equal', [m]), ('bit_equal', [m[0], sw])]
        # identity
        one = P.add('GNew', P.f(1.0), P.f(0.0), P.f(1.0))
        a1 = P.add('GMul', r.below(4), a, one)
        preds += [('mag_bits_equal', [a, a1]), ('num_equal_angle', [a, a1])]
        # scale
        f = r.choice(SCALES) if r.chance(0.6) else r.choice([r.uniform(-5, 5), r.logu(1e-6, 1e6), -r.logu(1e-6, 1e6)])
        sc = P.add('GScale', a, P.f(f))
        preds.append(('scale_enc', [a, ['#', fb.bits(f)], sc]))
        # angle * geonum, angle + geonum
        x = canon_angle(P, r)
        am = [P.add('AMulG', 0, x, a), P.add('AMulG', 1, x, a), P.add('AAddG', 0, x, a), P.add('AAddG', 1, x, a)]
        xs = P.add('AAdd', 0, x, aa)
        preds += [('all_bit_equal', [am]), ('mag_bits_equal', [a, am[0]]), ('angle_part_equal', [am[0], xs])]
        # inverse / division / normalize
        bz = (fb.fl(P.ins[P.ins[b][1][0]][1][0]) == 0.0)
        inv = P.add('GInv', b)
        dv = sp4(P, 'GDiv', a, b) + [P.add('GDivM', a, b)]
        nm = P.add('GNormalize', b)
        if bz:
            preds += [('is_panic', [inv]), ('is_panic', [nm])] + [('is_panic', [d]) for d in dv]
        else:
            ref = P.add('GMul', 0, a, inv)
            preds += [('inv_enc', [b, inv]), ('all_bit_equal', [dv + [ref]]), ('normalize_enc', [b, nm]),
                      ('not_panic', [dv[0]])]
            ii = P.add('GInv', inv)
            preds.append(('geonum_close', [P.add('GRotate', b, P.add('ANew', P.f(2.0), P.f(1.0))), ii, ['#', 1]]))
        # pow
        if r.chance(0.5):
            nexp = r.choice([0.0, 1.0, 2.0, 3.0, 0.5, -1.0, r.uniform(-3, 3)])
            pw = P.add('GPow', a, P.f(nexp))
            preds.append(('pow_mag', [a, ['#', fb.bits(nexp)], pw]))
        if r.chance(0.25):
            # whole exponents far outside the i32 range on magnitudes next to 1 (result stays in the domain)
            nbig = r.choice([3e9, -4e9, 2147483648.0, -2147483649.0, 1e10, 4294967296.0])
            mnear = 1.0 + r.choice([1e-9, -1e-9, 2e-10, -3e-10])
            gb = P.add('GNewAngle', P.f(mnear), P.add('GAngle', a))
            preds.append(('pow_mag', [gb, ['#', fb.bits(nbig)], P.add('GPow', gb, P.f(nbig))]))
        # associativity
        if r.chance(0.4):
            c = canon_geonum(P, r)
            l = P.add('GMul', 0, m[0], c)
            rr = P.add('GMul', 0, a, P.add('GMul', 0, b, c))
            preds.append(('geonum_close', [l, rr, ['#', 2]]))
        cases.append(Case(P, preds, 'product'))
    return cases

LEVEL_TEXT = ('Kernel-checked theorems about the model for ALL operands: product = (fmul of magnitudes, geometric_add of angles) in all 4 spellings, bit-for-bit commutative, '
              '[1,0] is an identity, angle of the product canonical with blade carry in {0,1} and total within 1e-10+2^-51; scale multiplies by |f| and adds exactly 2 blades iff f<0; '
              'Angle*Geonum / Angle+Geonum only rotate; inv/normalize panic exactly on zero magnitude, inv = (1/mag, +2 blades); the 5 division spellings equal a * inv b; pow magnitude is powF and its angle is the blade-exact sum with Angle::new(n, 1) (C05_pow_angle: what the code does; the property claims the magnitude only). '
              'C05_assoc: (ab)c and a(bc) have magnitudes within 5*2^-53 relative (+2^-572) and angle totals within four addition tolerances (also with the REAL pi, +2e-16). C05_inv_inv: inv(inv g) has the original magnitude within 5*2^-52 relative and the original angle plus exactly four blades, remainder untouched (magnitudes in [2^-500, 2^500]). The pow angle is decided by predicate search (S3).')
LEVEL_NOTE = ('Trusted: Coq kernel + vm_compute; 4 standard-library axioms; plus the primitive-integer axioms (PrimInt63.*, Uint63.*_spec) of the Interval tactic for the real-pi clause of C05_assoc; hand-written model validated bit-for-bit each run; harness/emitter/predicates; glibc pow only through the model parameter L (no assumption used by these theorems).')
