from .base import *

ID = 'C06'
THEOREMS = ['C06_sub_is_add_neg', 'C06_add_spellings', 'C06_translate', 'C06_paths', 'C06_radicand_total', 'C06_mag_value', 'C06_atan2_acc_def', 'C06_reencode_direction', 'C06_cartesian', 'C06_premises_inhabited', 'C06_cartesian_sub']
OWNED = {'GAdd', 'GSub', 'TTranslate'}
RULE = ('pairs of geometric numbers by angle relation (identical, exactly pi apart, within 1e-15..1e-6 of parallel / opposite incl. blades differing by 6, orthogonal, whole-turn twins, arbitrary) x magnitude relation '
        '(equal, 1-8 ulps apart, ratio 1e+-16, zero operand, small integers, log-uniform over the domain), blades to 2^40 (2^19 for the Cartesian leg); 4 spellings of + and -, translate, a-a, a+b vs b+a; '
        'running sums of up to 12 (quick) / 400 (thorough) terms. non-trivial = owned op result differs from its operands')
TRUSTED = TRUSTED_COMMON
ASSUMPTIONS = ASSUME_COMMON + ['libm sin, cos, atan2 enter only as the model parameter L; the structural theorems hold for every L']
S3_LEGS = ["the Cartesian value of the sum / difference on the general path is a theorem (C06_cartesian, C06_cartesian_sub) under the three libm accuracy premises, which are monitored per recorded call; every case of a run is additionally decided by the 60-digit mpmath oracle (predicate cart_sum) with tolerance (1e-10 + 64 eps + 4 ulp(blade*pi/2))*scale + min(4 sqrt(eps)*scale, 8 eps*scale^2/|a+b|), which also covers inputs outside the theorem's finiteness hypotheses"]

def pair_case(r, big=True):
    P = Prog()
    a, b, rel = geo_pair(P, r, True, big)
    s = sp4(P, 'GAdd', a, b) + [P.add('TTranslate', a, b)]
    d = sp4(P, 'GSub', a, b)
    nb = P.add('GNeg', b)
    dref = P.add('GAdd', 0, a, nb)
    sw = P.add('GAdd', r.below(4), b, a)
    aa = P.add('GSub', r.below(4), a, a)
    preds = [('all_bit_equal', [s]), ('all_bit_equal', [d + [dref]]), ('mag_zero', [aa]), ('canon_geonum', [aa])]
    preds += [('cart_sum', [a, b, s[0], ['#', 1]]), ('cart_sum', [a, b, d[0], ['#', -1]]), ('cart_sum', [b, a, sw, ['#', 1]])]
    return Case(P, preds, 'pair:' + rel)

def running(r, n):
    P = Prog()
    acc = canon_geonum(P, r, True, False)
    preds = []
    for _ in range(n):
        x = canon_geonum(P, r, True, False) if r.chance(0.7) else P.add(r.choice(['GNeg', 'GDual']), acc)
        nxt = P.add(r.choice(['GAdd', 'GSub']), r.below(4), acc, x)
        if P.ins[nxt][0] == 'GAdd':
            preds.append(('cart_sum', [acc, x, nxt, ['#', 1]]))
        else:
            preds.append(('cart_sum', [acc, x, nxt, ['#', -1]]))
        acc = nxt
        if r.chance(0.3):
            acc = P.add('GBase', acc)     # keep blades bounded, as the documentation suggests for control loops
    return Case(P, preds[-40:], 'running-sum')

def generate(rng, tier):
    n, nr, ln = (260, 30, 12) if tier == 'quick' else (8000, 200, 400)
    cases = [pair_case(rng.fork(i), big=(i % 3 != 0)) for i in range(n)]
    cases += [running(rng.fork(10**6 + i), 2 + rng.fork(i).below(ln)) for i in range(nr)]
    return cases

LEVEL_TEXT = ('Kernel-checked structural theorems for every libm: the 4 spellings of + and - and translate are one function; a - b IS a + negate(b); the three code paths are exactly as documented; '
              'the general path\'s magnitude sqrt(max(radicand, 0)) is never NaN and never negative for ANY input (this is the repaired defect F3). '
              'C06_mag_value (S2, REAL pi and cos): on the general path, for any libm with |cosF - cos| <= u on [-8,8], the magnitude of a + b is the Euclidean length of the Cartesian sum sqrt(|a|^2 + |b|^2 + 2|a||b|cos(dir b - dir a)) up to the square root of the radicand error (|a|^2+|b|^2)(u + 1e-14) + 10*2^-1075 plus one rounding. '
              'C06_cartesian (S2, REAL pi / cos / sin - the numeric heart of the property): on the general path the polar result [mag, angle] of a + b reproduces the Cartesian sum V = |a|(cos,sin)(dir a) + |b|(cos,sin)(dir b) component by component within T = sqrt(Bnd)(1+2^-53) + 2^-53|V| + 3E + (|a|+|b|+2E)(u2 + 1e-10 + 3e-14 + n*4e-15), E = (|a|+|b|)(u+3e-15) + 4*2^-1075, n = blade a + blade b < 2^40, for any libm with |cosF-cos|, |sinF-sin| <= u on [-8,8] and atan2 within u2 of an angle reproducing its arguments (atan2_acc, an explicit premise; monitored on every recorded call). C06_cartesian_sub: the same for a - b against the Cartesian difference. C06_reencode_direction (no libm): the re-encoding new_with_blade(n, at - fl(n*PI/2), PI) points along at within 1e-10 + 3e-14 + n*4e-15 modulo whole turns - the linear growth with the blade sum is inherent (float PI is not pi, the blade shift is rounded) and is exactly the allowance the predicate grants. '
              'The equal-angle and opposite-angle paths are exact (C14); every case of each run is additionally decided by a 60-digit oracle (S3).')
LEVEL_NOTE = ('Partial. Trusted: Coq kernel + vm_compute; 4 standard-library axioms; plus the primitive-integer axioms (PrimInt63.*, Uint63.*_spec) that the Interval tactic uses for the two bounds on the real pi in PiBounds.v (value theorem only); hand-written model validated bit-for-bit each run with the recorded libm table; the three libm premises are shown jointly satisfiable (C06_premises_inhabited: correctly rounded real cos / sin and a rounded, clamped real angle function).')
