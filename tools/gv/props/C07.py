from .base import *
from fractions import Fraction

ID = 'C07'
THEOREMS = ['C07_angle_steps', 'C07_geonum_steps', 'C07_base_angle', 'C07_is_opposite', 'C07_history', 'C07_four_more', 'C07_copy_blade', 'C07_grade_angle_range', 'C07_direction', 'C07_half_turns']
OWNED = {'ADual', 'AUndual', 'ANeg', 'AConj', 'ABase', 'AGrade', 'AIsGrade', 'AGradeAngle', 'AIsOpp', 'GDual', 'GUndual', 'GNeg',
         'GDiff', 'GInt', 'GIncr', 'GDecr', 'GBase', 'GCopyBlade', 'AAdd', 'ASub', 'AMul', 'ADivA'}
RULE = ('single applications of every step operator on canonical angles/geonums (threshold remainders, blades to 2^40); is_opposite on blade pairs around 2, 2^31, 2^32+2, 2^40 with equal / 1-ulp / 1e-15 / far remainders; '
        'copy_blade in both directions; histories: exhaustive sequences over the 12-operator alphabet to depth 2 (quick) / 3 (thorough) from grid start states (remainder = i/16 quarter turn), '
        'and random sequences of up to 60 (quick) / 400 (thorough) steps mixing step operators with additions/subtractions of grid angles, checked against an exact rational blade count. '
        'non-trivial = owned op result differs from its operands')
TRUSTED = TRUSTED_COMMON
ASSUMPTIONS = ASSUME_COMMON
S3_LEGS = ['copy_blade: theorem C07_copy_blade (exact blade when not smaller, else 3..6 above and congruent mod 4; blades < 2^50); predicate copy_blade_enc re-decides every generated case', 'grade_angle in [0, 2pi): theorem C07_grade_angle_range, predicate grade_angle_val per case', 'histories mixing additions/subtractions: exact rational reference (predicate history_total); the theorem C07_history covers arbitrary sequences of step operators']

ASTEP = [('ADual', 2), ('AUndual', 2), ('ANeg', 2), ('AConj', 2)]
GSTEP = [('GDual', 2), ('GUndual', 2), ('GNeg', 2), ('GDiff', 1), ('GIncr', 1), ('GInt', 3), ('GDecr', 3)]

def single(r):
    P = Prog()
    a = canon_angle(P, r)
    g = canon_geonum(P, r)
    preds = []
    for op, k in ASTEP:
        preds.append(('steps', [a, P.add(op, a), ['#', k]]))
    for op, k in GSTEP:
        preds.append(('steps', [g, P.add(op, g), ['#', k]]))
    preds.append(('base_enc', [a, P.add('ABase', a)]))
    preds.append(('base_enc', [g, P.add('GBase', g)]))
    preds.append(('grade_is', [a, P.add('AGrade', a)]))
    preds.append(('is_grade_flags', [a, [P.add('AIsGrade', k, a) for k in range(4)]]))
    preds.append(('grade_angle_val', [a, P.add('AGradeAngle', a)]))
    h = canon_geonum(P, r)
    preds.append(('copy_blade_enc', [g, h, P.add('GCopyBlade', g, h)]))
    preds.append(('copy_blade_enc', [h, g, P.add('GCopyBlade', h, g)]))
    return Case(P, preds, 'single')

def opp_case(r):
    P = Prog()
    rem = rem_class(r)
    b0 = r.choice([0, 1, 2, 3, 5, 2**31 - 2, 2**31 - 1, 2**31, 2**32, 2**32 + 2, 2**40, r.below(2**40)])
    d = r.choice([0, 1, 2, 2, 2, 2, 2, 2, 3, 4, 6, 2**32, 2**32 + 2, 2**31 + 2, 2**31 - 2])
    # remainder gaps of BOTH signs: equal, ulps, around the 1e-15 tolerance, and the whole band up to the 1e-10 boundary snap
    # (a difference taken with the library's own subtraction snaps gaps below 1e-10 on one side)
    gap = r.choice([0.0, 0.0, 5e-16, 1e-15, 2e-15, 1e-14, 1e-12, 5e-11, 9.9e-11, 1e-10, 2e-10, 1e-3]) * r.choice([1, -1])
    rem2 = r.choice([fb.nxt(rem, 1), fb.nxt(rem, -1)]) if r.chance(0.1) else rem + gap
    rem2 = min(max(rem2, 0.0), fb.Q - 2e-10)
    a = angle_rem(P, rem, b0 + d); b = angle_rem(P, rem2, b0)
    return Case(P, [('opposite_iff', [a, b, P.add('AIsOpp', a, b)]), ('opposite_iff', [b, a, P.add('AIsOpp', b, a)])], 'is_opposite')

ALPHA = ['ADual', 'AUndual', 'ANeg', 'AConj', 'GDual', 'GUndual', 'GNeg', 'GDiff', 'GIncr', 'GInt', 'GDecr', 'GBaseSkip']
DELTA = {'ADual': 2, 'AUndual': 2, 'ANeg': 2, 'AConj': 2, 'GDual': 2, 'GUndual': 2, 'GNeg': 2, 'GDiff': 1, 'GIncr': 1, 'GInt': 3, 'GDecr': 3}

def grid_angle(P, i, blade):
    """remainder i/16 of a quarter turn written as an exact multiple: Angle::new(i + 8*blade... , 16)"""
    return P.add('ANewBlade', P.u(blade), P.f(float(i)), P.f(32.0))   # i * pi/32 = (i/16) * pi/2

def apply_seq(P, seq, i, blade):
    a = grid_angle(P, i, blade)
    g = P.add('GNewAngle', P.f(2.5), a)
    total = Fraction(i, 16) + blade
    cur = g
    for op in seq:
        if op.startswith('A'):
            ang = P.add('GAngle', cur)
            ang = P.add(op, ang)
            cur = P.add('GNewAngle', P.f(2.5), ang)
        else:
            cur = P.add(op, cur)
        total += DELTA[op]
    return cur, total

def exhaustive(tier):
    import itertools
    depth = 2 if tier == 'quick' else 3
    ops = [o for o in ALPHA if o in DELTA]
    starts = [(0, 0), (5, 1), (8, 2), (15, 3)] if tier == 'quick' else [(i, b) for i in (0, 1, 5, 8, 15) for b in (0, 1, 2, 3, 1000, 2**40)][:16]
    cases = []
    for (i, b) in starts:
        for seq in itertools.product(ops, repeat=depth):
            P = Prog()
            cur, total = apply_seq(P, seq, i, b)
            cases.append(Case(P, [('history_total', [cur, ['#', total.numerator], ['#', total.denominator]])], 'history-exhaustive'))
    return cases

def random_history(r, maxlen):
    P = Prog()
    i, b = r.below(16), r.choice([0, 1, 2, 3, 7, 1000, 10**6, 2**31, 2**40])
    a = grid_angle(P, i, b)
    total = Fraction(i, 16) + b
    cur = a
    n = 2 + r.below(maxlen)
    for _ in range(n):
        k = r.below(10)
        if k < 4:
            op = r.choice(['ADual', 'AUndual', 'ANeg', 'AConj'])
            cur = P.add(op, cur); total += 2
        elif k < 7:
            j, bb = r.below(16), r.below(6)
            x = grid_angle(P, j, bb)
            cur = P.add(r.choice(['AAdd', 'AMul']), r.below(4), cur, x); total += Fraction(j, 16) + bb
        elif k < 9:
            j, bb = r.below(16), r.below(3)
            sub = Fraction(j, 16) + bb
            if sub <= total:
                x = grid_angle(P, j, bb)
                cur = P.add(r.choice(['ASub', 'ADivA']), r.below(4), cur, x); total -= sub
        else:
            g = P.add('GNewAngle', P.f(1.5), cur)
            op = r.choice(list(DELTA)[4:])
            g = P.add(op, g); total += DELTA[op]
            cur = P.add('GAngle', g)
    return Case(P, [('history_total', [cur, ['#', total.numerator], ['#', total.denominator]]), ('canon_angle', [cur])], 'history-random')

def generate(rng, tier):
    cases = []
    ns, no, nh, ml = (120, 80, 60, 60) if tier == 'quick' else (3000, 2000, 1500, 400)
    for i in range(ns): cases.append(single(rng.fork(i)))
    for i in range(no): cases.append(opp_case(rng.fork(10**5 + i)))
    cases += exhaustive(tier)
    for i in range(nh): cases.append(random_history(rng.fork(2 * 10**5 + i), ml))
    cases += rounding_twins(tier)
    return cases

def rounding_twins(tier):
    """the same grid total reached two ways - a sum of two grid angles and a directly constructed one - differs by
    a few ulps in the remainder; subtracting one from the other (both orders, blade offsets 0 / 4 / 8 on either
    side) must give exactly the predicted whole number of quarter turns: 0, 4 or 8, never a spurious turn"""
    cases = []
    offs = [(0, 0), (4, 0), (0, 4), (8, 0)] if tier == 'quick' else [(0, 0), (4, 0), (0, 4), (8, 0), (0, 8), (12, 4), (1000, 1004)]
    for i in range(16):
        P = Prog(); preds = []
        for j in range(16):
            for (ba, by) in offs:
                a = grid_angle(P, i, ba); x = grid_angle(P, j, 0)
                s_ = P.add('AAdd', (i + j) % 4, a, x)                       # total (i+j)/16 + ba, computed
                k = i + j
                y = grid_angle(P, k % 16, by + k // 16)                     # total (i+j)/16 + by, constructed
                ts, ty = Fraction(k, 16) + ba, Fraction(k, 16) + by
                if ts >= ty:
                    d = P.add('ASub', j % 4, s_, y); t = ts - ty
                    preds.append(('history_total', [d, ['#', t.numerator], ['#', t.denominator]]))
                if ty >= ts:
                    d = P.add('ADivA', j % 4, y, s_); t = ty - ts
                    preds.append(('history_total', [d, ['#', t.numerator], ['#', t.denominator]]))
        cases.append(Case(P, preds, 'rounding-twins'))
    return cases

LEVEL_TEXT = ('Kernel-checked theorems about the model for ALL canonical angles: dual/undual/negate/conjugate add exactly 2 blades, differentiate/increment 1, integrate/decrement 3, '
              'remainder numerically and magnitude bit-for-bit unchanged; base_angle keeps blade mod 4; grade = blade mod 4; is_opposite <-> |blade gap| = 2 and remainders match; '
              'C07_history: by induction over ANY list of step operators the blade is the start blade plus the sum of the per-operation rules; four derivatives / two duals / derivative-then-integral add exactly 4. '
              'copy_blade reaches the exact blade of the other when not smaller, else a blade 3..6 above and congruent mod 4, remainder and magnitude untouched (blades < 2^50); grade_angle of a canonical angle is finite and in [0, 4q). C07_direction / C07_half_turns (REAL pi): a k-step operator turns the direction by EXACTLY k*pi/2 (no error term), so dual/undual/negate/conjugate flip the sign of cos and sin exactly. Histories that mix in additions/subtractions are decided by exact-rational predicates (S3).')
LEVEL_NOTE = ('Trusted: Coq kernel + vm_compute; 4 standard-library axioms; plus the primitive-integer axioms (PrimInt63.*, Uint63.*_spec) that the Interval tactic uses for the two bounds on the real pi in PiBounds.v (direction theorems only); hand-written model validated bit-for-bit each run; harness/emitter/predicates. No libm involved.')
