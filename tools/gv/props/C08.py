from .base import *

ID = 'C08'
THEOREMS = ['C08_sub_shift', 'C08_measurements', 'C08_cone', 'C08_trig', 'C08_result_blades', 'C08_result_values', 'C08_project_result', 'C08_shift_def', 'C08_direction_shift', 'C08_sum_cartesian']
OWNED = {'GDot', 'GWedge', 'GMeet', 'GProject', 'GReject', 'GProjDim', 'GDist', 'GIsOrth', 'GCos', 'GSin', 'AProject', 'CCone', 'GAdd', 'GMul', 'GProjAngle'}
RULE = ('every binary measurement on operand pairs from the C01 domain repeated with whole-turn shifts 4n, n in {1, 250000, 2^19, 2^28, 2^30}, applied to the first, the second or both operands '
        '(and to the dimension index of project_to_dimension, the member and axis of select_cone); sums under shifts n <= 2^19 compared as Cartesian vectors. '
        'non-trivial = a measurement on a shifted pair; distinct by (measurement, operand bits, shift)')
TRUSTED = TRUSTED_COMMON
ASSUMPTIONS = ASSUME_COMMON
S3_LEGS = ['Cartesian value of SUMS under shifts: theorem C08_sum_cartesian (general path, libm accuracy premises, tolerance growing by 4e-15 per blade) plus predicate cart_close on every generated case (shifts up to 2^19)', 'product / wedge / meet / dual / rotation / projection RESULTS under shifts are theorems (C08_result_values, C08_project_result: bit-identical magnitude and remainder, blade moved by exactly 4(m+n)); reject and geo (which go through the general sum and atan2) by predicate measure_shift_equal only']

SHIFTS = [1, 250000, 2**19, 2**28, 2**30]

def shift(P, g, n):
    return P.add('GRotate', g, P.add('ANewBlade', P.u(4 * n), P.f(0.0), P.f(1.0)))

def generate(rng, tier):
    n = 220 if tier == 'quick' else 6000
    cases = []
    for i in range(n):
        r = rng.fork(i)
        P = Prog()
        a, b, rel = geo_pair(P, r, True, False)
        if r.chance(0.12):
            # same ray, nearly coincident lengths (a few ulps .. 2^-30 relative apart): the worst case for any
            # same-angle shortcut that keys on the exact blade count
            ang = P.add('GAngle', a); m0 = r.choice([1.0, 2.5, 1e3, 1e-3])
            a = P.add('GNewAngle', P.f(m0), ang)
            b = P.add('GNewAngle', P.f(r.choice([fb.nxt(m0, 1), fb.nxt(m0, 3), m0 * (1 + 2.0**-30), m0 * (1 - 2.0**-20), m0 * 2])), ang)
            rel = 'same-ray'
        na, nb = r.choice(SHIFTS + [0]), r.choice(SHIFTS + [0])
        if na == 0 and nb == 0: na = 1
        a2 = shift(P, a, na) if na else a
        b2 = shift(P, b, nb) if nb else b
        preds = []
        for op in ('GDot', 'GWedge', 'GMeet', 'GProject', 'GDist', 'GIsOrth'):
            # the theorems prove these measurements BIT-identical under whole-turn shifts: no ulp allowance
            preds.append(('measure_shift_equal', [P.add(op, a, b), P.add(op, a2, b2), ['#', 0 if op in ('GDot', 'GDist', 'GIsOrth', 'GWedge', 'GProject') else 4]]))
        rj1 = P.add('GReject', a, b); rj2 = P.add('GReject', a2, b2)
        if max(na, nb) <= 2**19:
            preds.append(('cart_close', [rj1, rj2, ['#', 4 * (na + nb) + 16], [a, a]]))
        aa, ab = P.add('GAngle', a), P.add('GAngle', b); aa2, ab2 = P.add('GAngle', a2), P.add('GAngle', b2)
        preds.append(('measure_shift_equal', [P.add('AProject', aa, ab), P.add('AProject', aa2, ab2), ['#', 4]]))
        preds.append(('measure_shift_equal', [P.add('GCos', aa), P.add('GCos', aa2), ['#', 0]]))
        preds.append(('measure_shift_equal', [P.add('GSin', aa), P.add('GSin', aa2), ['#', 0]]))
        preds.append(('measure_shift_equal', [P.add('GProjAngle', a, ab), P.add('GProjAngle', a2, ab2), ['#', 4]]))
        k = r.below(8); ns = r.choice(SHIFTS)
        preds.append(('measure_shift_equal', [P.add('GProjDim', a, P.u(k)), P.add('GProjDim', a, P.u(k + 4 * ns)), ['#', 0]]))
        preds.append(('measure_shift_equal', [P.add('GProjDim', a, P.u(k)), P.add('GProjDim', a2, P.u(k)), ['#', 4]]))
        # product: result blade shifts by exactly the predicted amount
        m1 = P.add('GMul', 0, a, b); m2 = P.add('GMul', 0, a2, b2)
        preds += [('measure_shift_equal', [m1, m2, ['#', 0]]), ('blade_shift_is', [m1, m2, ['#', 4 * (na + nb)]])]
        # cone selection
        c1 = P.add('CFrom', a, b); c2 = P.add('CFrom', a2, b2)
        h = r.choice([0.5, 1.0, fb.Q, 2.0, 3.0])
        ax = canon_geonum(P, r, False, False)
        s1 = P.add('CCone', c1, ax, P.f(h)); s2 = P.add('CCone', c2, shift(P, ax, r.choice(SHIFTS)), P.f(h))
        preds.append(('len_equal', [s1, s2]))
        # sums (Cartesian) for shifts up to 2^19
        if max(na, nb) <= 2**19:
            preds.append(('cart_close', [P.add('GAdd', 0, a, b), P.add('GAdd', 0, a2, b2), ['#', 4 * (na + nb) + 8], [a, b]]))
        cases.append(Case(P, preds, 'shift:' + rel))
    return cases

LEVEL_TEXT = ('Kernel-checked theorems for EVERY libm, ALL operands and ALL whole-turn shifts (unbounded n, either or both operands): the angle difference keeps its remainder bit-for-bit and its grade, hence dot, wedge magnitude, distance_to, is_orthogonal, '
              'Angle::project, projection magnitude, project_to_angle, the cone-selection predicate and Geonum::cos/sin are BIT-IDENTICAL; sums of angles shift by exactly 4(n+m) blades with identical remainder. '
              'The Cartesian value of Geonum sums under shifts is decided by predicate (S3). C08_result_values / C08_project_result (ShiftResults.v, every libm, all operands, all shifts): the product, wedge and meet of shifted operands ARE the shifted product / wedge / meet (magnitude and remainder bit-identical, blade count moved by exactly 4(m+n)), duals and rotations commute with the shift, and a projection onto a non-negligible axis follows the shift of the axis only. C08_direction_shift / C08_sum_cartesian (ShiftSum.v, REAL pi): the direction of an angle ignores whole turns exactly, and the general-path sum of shifted operands reproduces the Cartesian sum of the UNSHIFTED operands within the tolerance of C06_cartesian at the shifted blade sum.')
LEVEL_NOTE = ('Trusted: Coq kernel + vm_compute; 4 standard-library axioms; hand-written model validated bit-for-bit each run. The shift theorems need no assumption on libm (they are equalities of arguments passed to it); C08_sum_cartesian alone takes the three libm accuracy premises of C06_cartesian and adds the primitive-integer axioms (PrimInt63.*, Uint63.*_spec) of the Interval tactic through PiBounds.v.')
