from .base import *

ID = 'C09'
THEOREMS = ['C09_encoding', 'C09_value_def', 'C09_orthogonal', 'C09_diff_canon']
OWNED = {'GDot', 'GIsOrth'}
RULE = ('pairs by angle relation (identical, opposite, orthogonal exactly and +-ulps, nearly parallel/opposite, whole-turn twins up to 2^21 blades, arbitrary, blades to 2^40) x magnitude relation incl. zero; '
        'dot both ways, a.a, is_orthogonal. non-trivial = owned op result differs from its operands')
TRUSTED = TRUSTED_COMMON
ASSUMPTIONS = ASSUME_COMMON + ['libm cos enters as the model parameter L; C09_encoding assumes only that the computed value is finite']
S3_LEGS = ['value = |a||b|cos(delta) within |a||b|(1e-10+16eps), symmetry, bound by |a||b|, a.a = |a|^2: predicates dot_value, scalar_close, dot_self against mpmath']

def generate(rng, tier):
    n = 300 if tier == 'quick' else 8000
    cases = []
    for i in range(n):
        r = rng.fork(i)
        P = Prog()
        a, b, rel = geo_pair(P, r)
        d1 = P.add('GDot', a, b); d2 = P.add('GDot', b, a)
        aa = P.add('GDot', a, a)
        o1 = P.add('GIsOrth', a, b); o2 = P.add('GIsOrth', b, a)
        preds = [('dot_value', [a, b, d1]), ('dot_value', [b, a, d2]), ('scalar_close', [d1, d2, a, b, ['#', 2]]),
                 ('dot_self', [a, aa]), ('orth_iff', [d1, o1]), ('orth_iff', [d2, o2])]
        cases.append(Case(P, preds, 'pair:' + rel))
    return cases

LEVEL_TEXT = ('Kernel-checked theorems for every libm: the dot product is fabs(value) at blade 0 when value >= 0 and blade 2 when value < 0, remainder exactly 0, where value = fmul(fmul |a| |b|) cosF(grade_angle(b.angle - a.angle)); '
              'is_orthogonal is exactly "dot magnitude <_F 1e-10"; the angle difference fed to cos is canonical (never negative) for canonical operands. The numeric value, symmetry and the |a||b| bound are decided against mpmath (S3, partial).')
LEVEL_NOTE = ('Partial. Trusted: Coq kernel + vm_compute; 4 standard-library axioms; hand-written model validated bit-for-bit each run with the recorded libm table; glibc cos accuracy is not assumed by the theorems.')
