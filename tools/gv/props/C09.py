from .base import *

ID = 'C09'
THEOREMS = ['C09_encoding', 'C09_value_def', 'C09_orthogonal', 'C09_diff_canon', 'C09_self', 'C09_bound', 'C09_cos_value', 'C09_value', 'C09_orthogonal_value', 'C09_value_hyps_inhabited', 'C09_symmetry']
OWNED = {'GDot', 'GIsOrth'}
RULE = ('pairs by angle relation (identical, opposite, orthogonal exactly and +-ulps, nearly parallel/opposite, whole-turn twins up to 2^21 blades, arbitrary, blades to 2^40) x magnitude relation incl. zero; '
        'dot both ways, a.a, is_orthogonal. non-trivial = owned op result differs from its operands')
TRUSTED = TRUSTED_COMMON
ASSUMPTIONS = ASSUME_COMMON + ['libm cos enters as the model parameter L; C09_encoding assumes only that the computed value is finite']
S3_LEGS = ['value = |a||b|cos(delta) (C09_value), symmetry (C09_symmetry), bound (C09_bound), a.a = |a|^2 (C09_self) are theorems under cos_acc and finite non-underflowing products; predicates dot_value, scalar_close, dot_self against mpmath decide every generated case incl. those outside these hypotheses']

def generate(rng, tier):
    n = 300 if tier == 'quick' else 8000
    cases = []
    for i in range(n):
        r = rng.fork(i)
        P = Prog()
        a, b, rel = geo_pair(P, r)
        d1 = P.add('GDot', a, b); d2 = P.add('GDot', b, a)
        aa = P.add('GDot', a, a)
        o1 = P.add('GIsOrth', a, b); o2 = P.add('GIsOrth', b, a)
        preds = [('dot_value', [a, b, d1]), ('dot_value', [b, a, d2]), ('scalar_close', [d1, d2, a, b, ['#', 2]]),
                 ('dot_self', [a, aa]), ('orth_iff', [d1, o1]), ('orth_iff', [d2, o2])]
        cases.append(Case(P, preds, 'pair:' + rel))
    # orthogonality threshold hit exactly: parallel / opposite pairs whose |a||b| is 1e-10 -2..+2 ulps
    for i in range(40 if tier == 'quick' else 400):
        r = rng.fork(10**6 + i)
        P = Prog()
        ang = canon_angle(P, r, False)
        m1 = r.choice([1.0, 2.0, 0.5, 4.0])
        m2 = fb.nxt(1e-10 / m1, r.choice([-2, -1, 0, 0, 1, 2]))
        a = P.add('GNewAngle', P.f(m1), ang)
        b = P.add('GNewAngle', P.f(m2), ang if r.chance(0.5) else P.add('ANeg', ang))
        d = P.add('GDot', a, b); o = P.add('GIsOrth', a, b)
        cases.append(Case(P, [('dot_value', [a, b, d]), ('orth_iff', [d, o])], 'orth-threshold'))
    return cases

LEVEL_TEXT = ('Kernel-checked theorems for every libm: the dot product is fabs(value) at blade 0 when value >= 0 and blade 2 when value < 0, remainder exactly 0, where value = fmul(fmul |a| |b|) cosF(grade_angle(b.angle - a.angle)); '
              'is_orthogonal is exactly "dot magnitude <_F 1e-10"; the angle difference fed to cos is canonical (never negative) for canonical operands. C09_self: a.a is fl(|a||a|) at angle exactly 0 when cos(+0)=1; C09_bound: under |cosF| <= 1 the magnitude never exceeds fl(|a||b|). '
              'C09_cos_value / C09_value / C09_orthogonal_value (S2, REAL pi, all canonical operands and blades): for any libm with |cosF - cos| <= u on [-8,8] the cosine factor is within u + 1.0001e-10 of cos(dir b - dir a), every finite dot value is within |a||b|(u + 1.0002e-10) + 2^-1073 of |a||b|cos(dir b - dir a), and a pair reported orthogonal has |a||b||cos| < 1e-10 + that error; the hypothesis is shown satisfiable (u = 2^-52). C09_symmetry: a.b and b.a agree within twice that tolerance. The cases of each run are additionally decided against mpmath (S3).')
LEVEL_NOTE = ('Partial. Trusted: Coq kernel + vm_compute; 4 standard-library axioms; plus the primitive-integer axioms (PrimInt63.*, Uint63.*_spec) that the Interval tactic uses for the two bounds on the real pi in PiBounds.v (value theorems only); hand-written model validated bit-for-bit each run with the recorded libm table; glibc cos accuracy enters the value theorems only as the explicit premise cos_acc (monitored on every recorded call).')
