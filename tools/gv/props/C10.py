from .base import *

ID = 'C10'
THEOREMS = ['C10_wedge', 'C10_geo', 'C10_meet', 'C10_wedge_blades', 'C10_parallel', 'C10_special_hyps_inhabited', 'C10_wedge_value', 'C10_sin_value', 'C10_swap_magnitude', 'C10_swap_orientation', 'C10_lagrange']
OWNED = {'GWedge', 'GGeo', 'GMeet'}
RULE = ('pairs by angle relation (parallel, antiparallel, nearly parallel within 1e-15..1e-6, orthogonal, arbitrary; all 4 grades each side; blades to 2^40) x magnitude relation; wedge both ways, geo vs dot+wedge, '
        'meet vs dual(wedge(dual,dual)), Lagrange identity. non-trivial = owned op result differs from its operands')
TRUSTED = TRUSTED_COMMON
ASSUMPTIONS = ASSUME_COMMON + ['libm sin/cos enter as the model parameter L']
S3_LEGS = ['wedge magnitude (C10_wedge_value), swap magnitude / orientation (C10_swap_*), Lagrange identity (C10_lagrange) are theorems under sin_acc / cos_acc; predicates wedge_value, wedge_swap, lagrange against mpmath decide every generated case', 'meet / geo results: structure by theorem, values by predicate only']

def generate(rng, tier):
    n = 280 if tier == 'quick' else 8000
    cases = []
    for i in range(n):
        r = rng.fork(i)
        P = Prog()
        a, b, rel = geo_pair(P, r)
        w1 = P.add('GWedge', a, b); w2 = P.add('GWedge', b, a)
        d = P.add('GDot', a, b)
        geo = P.add('GGeo', a, b); ref = P.add('GAdd', 0, d, w1)
        meet = P.add('GMeet', a, b)
        mref = P.add('GDual', P.add('GWedge', P.add('GDual', a), P.add('GDual', b)))
        preds = [('wedge_value', [a, b, w1]), ('wedge_value', [b, a, w2]), ('wedge_swap', [a, b, w1, w2]),
                 ('lagrange', [a, b, d, w1]), ('bit_equal', [geo, ref]), ('bit_equal', [meet, mref]), ('canon_geonum_guard', [geo, [a, b]]), ('canon_geonum_guard', [meet, [a, b]])]
        if rel == 'same':
            preds.append(('mag_zero', [w1]))
        cases.append(Case(P, preds, 'pair:' + rel))
    return cases

LEVEL_TEXT = ('Kernel-checked theorems for every libm: wedge magnitude is fmul(fmul |a| |b|) (fabs sinF(..)) and its angle is (a.angle + b.angle) + pi/2, plus pi exactly when sinF(..) <_F 0; '
              'for canonical operands the wedge angle is canonical with blade a + blade b + 1 <= blade <= blade a + blade b + 4; geo IS dot + wedge; meet IS dual(wedge(dual a, dual b)). '
              'C10_parallel: a wedge a has magnitude exactly 0 when sin(+0)=0. C10_sin_value / C10_wedge_value (S2, REAL pi): for any libm with |sinF - sin| <= u on [-8,8] the wedge magnitude, when finite, is within |a||b|(u + 1.0002e-10) + 2^-1073 of |a||b||sin(dir b - dir a)|. C10_swap_magnitude: |a^b| and |b^a| agree within twice that tolerance. C10_swap_orientation: swapping the operands turns the wedge angle by exactly two blades (remainder untouched) whenever |sin(direction difference)| exceeds the value tolerance. C10_lagrange: |a.b|^2 + |a^b|^2 = |a|^2|b|^2 within 2e(2|a||b| + e), e the value tolerance. Every case of each run is additionally decided against mpmath (S3).')
LEVEL_NOTE = ('Partial. Trusted: Coq kernel + vm_compute; 4 standard-library axioms; plus the primitive-integer axioms (PrimInt63.*, Uint63.*_spec) that the Interval tactic uses for the two bounds on the real pi in PiBounds.v (value theorems only); hand-written model validated bit-for-bit each run with the recorded libm table.')
