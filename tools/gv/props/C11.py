from .base import *

ID = 'C11'
THEOREMS = ['C11_project_structure', 'C11_length_free', 'C11_half_turn', 'C11_reject_def', 'C11_to_angle', 'C11_angle_project', 'C11_project_value', 'C11_length_value', 'C11_to_angle_value', 'C11_project_signed', 'C11_reject_orthogonal', 'C11_recompose']
OWNED = {'GProject', 'GReject', 'AProject', 'GProjDim', 'GProjAngle'}
RULE = ('pairs by angle relation x magnitude relation with |b| around 1e-10 (0, 5e-11, 1e-10 +-ulp, 2e-10) and in the domain; projection onto b and onto b rescaled; rejection vs a - proj; proj + rej; '
        'Angle::project on angle pairs; project_to_dimension for k and k+4n up to 2^40; project_to_angle. non-trivial = owned op result differs from its operands')
TRUSTED = TRUSTED_COMMON
ASSUMPTIONS = ASSUME_COMMON + ['libm cos (and sin/atan2 through Geonum subtraction) enter as the model parameter L']
S3_LEGS = ['projection magnitude and sign (C11_project_value, C11_project_signed), length-free value, to-angle value, rejection orthogonality (C11_reject_orthogonal) are theorems under cos_acc / sin_acc; proj + rej = a is C11_recompose (general path of the subtraction); Pythagoras and project_to_dimension at high dimension are decided by predicates against mpmath only']

def generate(rng, tier):
    n = 260 if tier == 'quick' else 8000
    cases = []
    for i in range(n):
        r = rng.fork(i)
        P = Prog()
        a, b, rel = geo_pair(P, r, True, r.chance(0.5))
        if r.chance(0.25):
            mb = r.choice([0.0, 5e-11, fb.nxt(1e-10, -1), 1e-10, fb.nxt(1e-10, 1), 2e-10])
            b = P.add('GNewAngle', P.f(mb), P.add('GAngle', b))
        p = P.add('GProject', a, b)
        rj = P.add('GReject', a, b)
        rref = P.add('GSub', 0, a, p)
        s = P.add('GAdd', 0, p, rj)
        preds = [('project_struct', [a, b, p]), ('bit_equal', [rj, rref]), ('proj_rej_laws', [a, b, p, rj, s])]
        mbv = fb.fl(P.ins[P.ins[b][1][0]][1][0])
        if abs(mbv) >= 1e-10:
            b2 = P.add('GNewAngle', P.f(abs(mbv) * r.choice([2.0, 0.5, 1e3]) + 1e-9), P.add('GAngle', b))
            preds.append(('bit_equal', [p, P.add('GProject', a, b2)]))
        aa = P.add('GAngle', a); ab = P.add('GAngle', b)
        preds.append(('angle_project_value', [aa, ab, P.add('AProject', aa, ab), ['#', -1]]))
        k = r.choice([0, 1, 2, 3, 5, 1000, 10**6, 2**40]) if r.chance(0.5) else r.below(8)
        axis = P.add('ANewBlade', P.u(k), P.f(0.0), P.f(1.0))
        pd = P.add('GProjDim', a, P.u(k))
        preds.append(('angle_project_value', [aa, axis, pd, a]))
        nshift = 4 * r.choice([1, 250000, 2**20, 2**30])
        if k + nshift <= 2**40:
            preds.append(('float_close_ulps', [pd, P.add('GProjDim', a, P.u(k + nshift)), ['#', 0]]))
        t = canon_angle(P, r, r.chance(0.3))
        preds.append(('project_to_angle_enc', [a, t, P.add('GProjAngle', a, t)]))
        cases.append(Case(P, preds, 'pair:' + rel))
    return cases

LEVEL_TEXT = ('Kernel-checked theorems for every libm: projection onto a target with |b| <_F 1e-10 has zero magnitude (total); otherwise magnitude fmul |a| (fabs pf) along exactly b\'s angle when pf >= 0 and b\'s angle + pi (exactly two blades, same remainder) otherwise, '
              'independent of |b|; reject IS a - project; project_to_angle encodes the signed value at blade 0 / 2 with remainder 0; Angle::project and project_to_dimension are cosF of the canonical angle difference. '
              'C11_project_value / C11_length_value / C11_to_angle_value (S2, REAL pi): for any libm with |cosF - cos| <= u on [-8,8], Angle::project is within u + 1.0001e-10 of cos(dir onto - dir a) and the projected lengths (project, project_to_angle) are within |g|(u + 1.0002e-10) + 2^-1075 of |g||cos(dir onto - dir g)|. C11_project_signed / C11_reject_orthogonal (S2): the Cartesian point of the projection is +-|p|(cos,sin)(dir onto) with the signed length equal to the true coefficient |g|cos(delta) within 3|g|(u + 1.0002e-10); the rejection g - project is ORTHOGONAL to onto: its component along onto vanishes within 2T + 3|g|(u+1.0002e-10), T the tolerance of C06_cartesian for the subtraction (general path; cos/sin/atan2 accuracy as explicit premises). The exact paths (g parallel to onto) and project + reject = g are decided against mpmath (S3). C11_recompose (Recompose.v): projection + rejection reproduce the original vector component by component within the tolerance T of C06_cartesian_sub (the rejection being g - proj on the general path).')
LEVEL_NOTE = ('Partial. Trusted: Coq kernel + vm_compute; 4 standard-library axioms; plus the primitive-integer axioms (PrimInt63.*, Uint63.*_spec) that the Interval tactic uses for the two bounds on the real pi in PiBounds.v (value theorems only); hand-written model validated bit-for-bit each run with the recorded libm table.')
