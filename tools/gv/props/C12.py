from .base import *

ID = 'C12'
THEOREMS = ['C12_rotate', 'C12_rotate_total', 'C12_full_turn', 'C12_reflect', 'C12_reflect_length_free', 'C12_scale_rotate', 'C12_reflect_law', 'C12_rotate_direction', 'C12_reflect_direction', 'C12_double_reflection']
OWNED = {'GRotate', 'GReflect', 'GScaleRotate'}
RULE = ('numbers, axes and rotation angles from the C01 domain (all grades, remainders zero / threshold / arbitrary, blades to 2^40): rotate vs angle addition, composition of two rotations, full turn; '
        'reflect across an axis, across the rescaled axis, across the negated axis, twice, on-axis; scale_rotate with factors {0,-0,+-1,+-tiny,+-huge,random}; repeated reflections/rotations (histories of up to 8/40 steps). '
        'non-trivial = owned op result differs from its operands')
TRUSTED = TRUSTED_COMMON
ASSUMPTIONS = ASSUME_COMMON
S3_LEGS = ['reflection law (C12_reflect_law, C12_reflect_direction) and double reflection (C12_double_reflection) are theorems at the angle level (no libm); predicates reflect_law, direction_close re-decide them on each run within 3e-10 / 6e-10']

def generate(rng, tier):
    n = 260 if tier == 'quick' else 8000
    cases = []
    for i in range(n):
        r = rng.fork(i)
        P = Prog()
        g = canon_geonum(P, r); ax = canon_geonum(P, r, False)
        rot = canon_angle(P, r); rot2 = canon_angle(P, r)
        ga = P.add('GAngle', g)
        rg = P.add('GRotate', g, rot)
        preds = [('mag_bits_equal', [g, rg]), ('angle_part_equal', [rg, P.add('AAdd', 0, ga, rot)])]
        rr = P.add('GRotate', rg, rot2)
        both = P.add('GRotate', g, P.add('AAdd', 0, rot, rot2))
        preds.append(('geonum_close', [rr, both, ['#', 2]]))
        full = P.add('GRotate', g, P.add('ANew', P.f(2.0), P.f(1.0)))
        preds.append(('same_grade_rem_plus', [g, full, ['#', 4]]))
        rf = P.add('GReflect', g, ax)
        preds.append(('reflect_law', [g, ax, rf]))
        axs = P.add('GNewAngle', P.f(r.choice([1.0, 1e-50, 1e50, 3.0])), P.add('GAngle', ax))
        preds.append(('bit_equal', [rf, P.add('GReflect', g, axs)]))
        axn = P.add('GNeg', ax)
        preds.append(('same_grade_rem_plus', [rf, P.add('GReflect', g, axn), ['#', 4]]))
        rf2 = P.add('GReflect', rf, ax)
        preds += [('direction_close', [g, rf2, ['#', 6]]), ('mag_bits_equal', [g, rf2])]
        on = P.add('GNewAngle', P.f(2.0), P.add('GAngle', ax))
        preds.append(('direction_close', [on, P.add('GReflect', on, ax), ['#', 3]]))
        f = r.choice([0.0, -0.0, 1.0, -1.0, 5e-324, -5e-324, -1e-310, -1e-300, 1e-300, 1e100, -1e100, 2.0, -2.5]) if r.chance(0.6) else r.uniform(-4, 4)
        sr = P.add('GScaleRotate', g, P.f(f), rot)
        ref = P.add('AAdd', 0, P.add('ANeg', ga), rot) if f < 0 else P.add('AAdd', 0, ga, rot)
        preds.append(('scale_rotate_enc', [g, ['#', fb.bits(f)], rot, sr, ref]))
        # history
        cur = g
        for _ in range(r.below(8 if tier == 'quick' else 40)):
            cur = P.add('GReflect', cur, ax) if r.chance(0.5) else P.add('GRotate', cur, rot)
        preds += [('canon_geonum', [cur]), ('mag_bits_equal', [g, cur])]
        cases.append(Case(P, preds, 'isometry'))
    return cases

LEVEL_TEXT = ('Kernel-checked theorems about the model: rotation keeps the magnitude bit-exact and adds the rotation angle (total within 1e-10 + 2^-51, canonical); a full turn adds exactly four blades with the remainder untouched; '
              'reflection keeps the magnitude bit-exact, returns a canonical angle with at least twice the axis\'s blades, and does not depend on the axis length; scale_rotate multiplies by |f| and negates the angle first exactly when f <_F 0. '
              'C12_reflect_law: the reflected total equals 2*theta(axis) + 8q - theta(base p) within 3e-10 + 7 ulp(4), i.e. the direction 2 alpha - t modulo a full turn. C12_rotate_direction / C12_reflect_direction (REAL pi): the rotated direction is dirR g + dirR r within 1e-10 + 2^-51 + 1e-16, and the reflected direction is 2 dirR(axis) - dir(p) + 4 pi within 3e-10 + 7*2^-52 + 3e-16. C12_double_reflection: reflecting twice across the same axis returns the magnitude bit-exactly and the direction (cos and sin of it, REAL pi) within twice the reflection tolerance.')
LEVEL_NOTE = ('Partial. Trusted: Coq kernel + vm_compute; 4 standard-library axioms; plus the primitive-integer axioms (PrimInt63.*, Uint63.*_spec) that the Interval tactic uses for the two bounds on the real pi in PiBounds.v (direction theorems only); hand-written model validated bit-for-bit each run. No libm involved in rotate/reflect/scale_rotate.')
