from .base import *

ID = 'C13'
THEOREMS = ['C13_distance_encoding', 'C13_mag_diff', 'C13_invert_panic', 'C13_radicand_value', 'C13_distance_value', 'C13_radicand_def', 'C13_symmetry', 'C13_law_of_cosines', 'C13_distance_euclid', 'C13_triangle', 'C13_equals_sub', 'C13_dist_tol_def', 'C13_inversion_value']
OWNED = {'GDist', 'GMagDiff', 'GInvCircle'}
RULE = ('points from the C01 domain incl. coincident and k-ulp-apart points on one ray, whole-turn twins, collinear triples; distance both ways, to itself, vs |a-b|, triangle inequality over triples; mag_diff; '
        'circle inversion with radius and centre offset over eight decades, points on the circle, the centre itself, double inversion. non-trivial = owned op result differs from its operands')
TRUSTED = TRUSTED_COMMON
ASSUMPTIONS = ASSUME_COMMON + ['libm cos/sin/atan2 enter as the model parameter L']
S3_LEGS = ['distance value, symmetry, law of cosines, = |a-b| (C13_equals_sub), triangle inequality up to dist_tol (C13_triangle) and the inversion offset (C13_inversion_value) are theorems under cos_acc / sin_acc / atan2_acc; inversion being an involution and fixing the circle are decided by the predicate invert_laws (conditioning-scaled tolerances) only']

def generate(rng, tier):
    n = 240 if tier == 'quick' else 8000
    cases = []
    for i in range(n):
        r = rng.fork(i)
        P = Prog()
        a, b, rel = geo_pair(P, r, True, r.chance(0.4))
        c = canon_geonum(P, r, True, False)
        dab = P.add('GDist', a, b); dba = P.add('GDist', b, a)
        daa = P.add('GDist', a, a)
        sub = P.add('GSub', 0, a, b)
        preds = [('distance_value', [a, b, dab]), ('distance_value', [b, a, dba]), ('mags_close', [dab, dba, [a, b], ['#', 'distance not symmetric']]),
                 ('mag_zero', [daa]), ('canon_geonum', [daa]), ('mags_close', [dab, sub, [a, b], ['#', 'distance differs from |a - b|']]),
                 ('mag_diff_exact', [a, b, P.add('GMagDiff', a, b)])]
        dbc = P.add('GDist', b, c); dac = P.add('GDist', a, c)
        preds.append(('triangle', [dab, dbc, dac, [a, b, c]]))
        # inversion
        rad = r.choice([1.0, 1e-4, 1e4, r.logu(1e-4, 1e4)])
        k = r.below(6)
        if k == 5:
            # a small circle around a centre close to the origin, the point a relative 1e-7..1e-6 off the circle
            # (absolutely closer than 1e-10 to it): the inversion is well conditioned there and must move the point
            rad = r.choice([1e-4, 2e-4, 1e-4 * r.uniform(1.0, 9.0)])
            c = P.add('GNewAngle', P.f(r.choice([0.0, rad * r.uniform(0.0, 1.0)])), canon_angle(P, r, False))
            off = P.add('GNewAngle', P.f(rad * (1.0 + r.choice([1, -1]) * r.choice([2e-7, 5e-7, 9e-7]))), canon_angle(P, r, False))
            p = P.add('GAdd', 0, c, off)
        elif k == 0:
            p = c                                            # the centre itself: documented panic
        elif k == 1:
            off = P.add('GNewAngle', P.f(rad), canon_angle(P, r, False))
            p = P.add('GAdd', 0, c, off)                    # (nearly) on the circle
        else:
            p = canon_geonum(P, r, False, False)
        off = P.add('GSub', 0, p, c)
        inv = P.add('GInvCircle', p, c, P.f(rad))
        preds.append(('invert_laws', [p, c, ['#', fb.bits(rad)], off, inv]))
        if k >= 2 and r.chance(0.5):
            back = P.add('GInvCircle', inv, c, P.f(rad))
            off2 = P.add('GSub', 0, inv, c)
            preds.append(('invert_laws', [inv, c, ['#', fb.bits(rad)], off2, back]))
        cases.append(Case(P, preds, 'metric:' + rel))
    return cases

LEVEL_TEXT = ('Kernel-checked theorems for EVERY libm and EVERY input: distance_to returns a number at angle exactly 0 (blade 0, remainder 0) whose magnitude is never NaN and never negative (repaired defect F4); '
              'mag_diff is fabs(fsub ..); invert_circle panics exactly when the computed offset p - c has zero magnitude. '
              'C13_radicand_value / C13_distance_value (S2, REAL pi and cos): for any libm with |cosF - cos| <= u on [-8,8] the computed radicand is the squared Euclidean distance D = |a|^2 + |b|^2 - 2|a||b|cos(dir b - dir a) within (|a|^2+|b|^2)(u + 1.0003e-10) + 10*2^-1075, and the returned distance is sqrt(D) up to the square root of that error plus one rounding. '
              'C13_symmetry: d(a,b) and d(b,a) agree within twice that tolerance. C13_law_of_cosines / C13_distance_euclid: the radicand IS the squared Euclidean distance of the Cartesian points; C13_triangle: d(a,c)(1-2^-53) <= (d(a,b)+d(b,c))(1+2^-52) + 2(tol_ab+tol_bc+tol_ac); C13_equals_sub: distance_to(a,b) equals |a - b| (general path of the subtraction) within twice the value tolerance. C13_inversion_value: the inverted point is c + v with v on the same ray as the computed offset (its angle bit for bit), |v||p-c| = r^2 within 3*2^-52 r^2, and its Cartesian point is that of c plus that of v within the tolerance of C06_cartesian. The fixed-circle and involution corollaries are decided against mpmath (S3).')
LEVEL_NOTE = ('Partial. Trusted: Coq kernel + vm_compute; 4 standard-library axioms; plus the primitive-integer axioms (PrimInt63.*, Uint63.*_spec) that the Interval tactic uses for the two bounds on the real pi in PiBounds.v (value theorems only); hand-written model validated bit-for-bit each run with the recorded libm table.')
