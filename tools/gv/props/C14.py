from .base import *

ID = 'C14'
THEOREMS = ['C14_same', 'C14_opposite', 'C14_path_symmetric', 'C14_general_history', 'C14_general_upper', 'C14_general_bounds', 'C14_new_blade_upper', 'C14_upper_inhabited', 'C14_general_commutes', 'C14_grade_of_signs', 'C14_grade_from_direction', 'C14_running_sum', 'C14_step_blades', 'C14_running_defs', 'C14_running_inhabited']
OWNED = {'GAdd'}
RULE = ('pairs with identical angles, exactly opposite angles (built with negate/dual/conjugate), and angles more than 1e-9 rad from both; magnitudes equal / within 1e-10 / ulps apart / different; blades to 2^40; '
        'a+b and b+a; running sums. non-trivial = sum differs from both operands')
TRUSTED = TRUSTED_COMMON
ASSUMPTIONS = ASSUME_COMMON
S3_LEGS = ['general case: blade >= sum (C14_general_history), <= sum+4 with the bound inhabited (C14_general_upper/_bounds), commutes (C14_general_commutes), grade fixed by the signs of the Cartesian components (C14_grade_from_direction) are theorems; running sums over sequences are decided by predicates add_general_blades, grade_from_direction, same_blade_rem on generated sequences only']

def generate(rng, tier):
    n = 260 if tier == 'quick' else 8000
    cases = []
    for i in range(n):
        r = rng.fork(i)
        P = Prog()
        k = r.below(4)
        if k == 0:
            a, b, rel = geo_pair(P, r, True, True, 'same')
            s = P.add('GAdd', r.below(4), a, b); sw = P.add('GAdd', r.below(4), b, a)
            preds = [('add_same_angle', [a, b, s]), ('add_same_angle', [b, a, sw])]
        elif k == 1:
            a, b, rel = geo_pair(P, r, True, True, 'opposite')
            if r.chance(0.4):
                # magnitudes within the 1e-10 cancellation band
                ma = r.choice([1.0, 2.5, 1e-3])
                mb = ma + r.choice([0.0, 5e-11, -5e-11, 9.9e-11, 1.01e-10, -1.01e-10, 2e-10])
                a = P.add('GNewAngle', P.f(ma), P.add('GAngle', a)); b = P.add('GNewAngle', P.f(mb), P.add('GAngle', b))
            elif r.chance(0.35):
                # the magnitude difference hits the 1e-10 cancellation threshold exactly (+- ulps), either order
                ma, mb = eps_apart(r)
                a = P.add('GNewAngle', P.f(ma), P.add('GAngle', a)); b = P.add('GNewAngle', P.f(mb), P.add('GAngle', b))
            s = P.add('GAdd', r.below(4), a, b); sw = P.add('GAdd', r.below(4), b, a)
            preds = [('add_opposite', [a, b, s]), ('add_opposite', [b, a, sw]), ('canon_geonum', [s]), ('canon_geonum', [sw])]
        elif k == 3:
            # exactly opposite DIRECTION but not a half turn apart as values (blade gap 6, 10, 4k+2, equal remainders):
            # this is the GENERAL case - the opposite-angle policy must not fire, blade history is the sum
            a, b, rel = geo_pair(P, r, False, True, 'opp-turns')
            s = P.add('GAdd', r.below(4), a, b); sw = P.add('GAdd', r.below(4), b, a)
            preds = [('add_general_blades', [a, b, s]), ('add_general_blades', [b, a, sw]), ('same_blade_rem', [s, sw])]
        else:
            P2 = P
            ma, mb = mag_pair(r, False)
            if r.chance(0.25):
                # a zero-length summand that still carries blade history (left, right or both)
                ma, mb = r.choice([(0.0, mb), (ma, 0.0), (0.0, 0.0)])
            ra = rem_class(r); ba = blade_class(r, r.chance(0.5))
            # direction of b at least 1e-9 away from a and from a + pi
            off = r.choice([1e-9 * 3, 1e-6, 0.1, 0.7, 1.3, 2.0, 3.0, fb.PI - 1e-6, fb.PI + 1e-6, 4.0, 5.5, 2 * fb.PI - 1e-6])
            aa = angle_rem(P, ra, ba)
            ab = P.add('AAdd', 0, aa, P.add('ANewBlade', P.u(4 * r.choice([0, 0, 1, 250000])), P.f(off), P.f(fb.PI)))
            a = P.add('GNewAngle', P.f(ma), aa); b = P.add('GNewAngle', P.f(mb), ab)
            s = P.add('GAdd', r.below(4), a, b); sw = P.add('GAdd', r.below(4), b, a)
            preds = [('add_general_blades', [a, b, s]), ('add_general_blades', [b, a, sw]), ('same_blade_rem', [s, sw]),
                     ('grade_from_direction', [a, b, s])]
        if r.chance(0.2):
            # running sum through a cancellation: (x + (-x)) keeps 2k+2 blades at zero length, then add c
            x = canon_geonum(P, r, False, False); c = canon_geonum(P, r, False, False)
            z = P.add('GAdd', r.below(4), x, P.add('GNeg', x))
            zc = P.add('GAdd', r.below(4), z, c); cz = P.add('GAdd', r.below(4), c, z)
            preds += [('add_general_or_fast', [z, c, zc]), ('add_general_or_fast', [c, z, cz]), ('same_blade_rem', [zc, cz])]
        cases.append(Case(P, preds, 'policy'))
    return cases

LEVEL_TEXT = ('Kernel-checked theorems for every libm: identical angles -> the sum keeps that angle with magnitude fadd; exactly opposite -> |diff| < 1e-10 gives zero magnitude at new_with_blade(blade a + blade b, 0), '
              'otherwise the larger summand\'s angle is kept bit-for-bit; the opposite-test is symmetric so a+b and b+a take the same path. C14_general_history: on the general path the angle of the sum is canonical and carries at least blade a + blade b blades whenever the re-encoded total is finite and at most 2^42 (history is never lost). C14_general_upper / C14_general_bounds: the sum carries AT MOST one full turn (4 blades) more than blade a + blade b, and exactly one full turn only with a remainder below 2^-8 (the rounding of the re-encoding at totals up to 2^42; the predicate enforces 1e-10 + 8 ulp(blade*pi/2) on the cases of each run) - under the single explicit premise that atan2 returned a finite value in [-PI, PI] (monitored on every recorded call), for blade sums below 2^40; C14_new_blade_upper is the underlying fact about Angle::new (proved through a new upper bound on the lift of negative totals). C14_general_commutes: on the general path a+b and b+a carry bit-for-bit the same angle (every libm, every operand). C14_grade_from_direction: the grade of a+b IS the quadrant of the Cartesian sum V whenever V is further than the tolerance T of C06_cartesian from both axes (REAL pi, cos/sin/atan2 accuracy as explicit premises); within T of an axis it is decided by predicates (S3). C14_running_sum (RunSum.v, induction over sequences of ANY length): with atan2 finite and within [-PI, PI] as the only premise on libm, every accumulator of a running sum of canonical operands (blade budget below 2^40) has a canonical angle and a blade count between the smallest blade count among the operands and the sum of all blade counts plus one full turn per addition; C14_step_blades is the one-step form over all three paths.')
LEVEL_NOTE = ('Partial. Trusted: Coq kernel + vm_compute; 4 standard-library axioms; plus the primitive-integer axioms (PrimInt63.*, Uint63.*_spec) of the Interval tactic for the real-pi theorems; hand-written model validated bit-for-bit each run with the recorded libm table.')
