from .base import *

ID = 'C15'
THEOREMS = ['C15_cos_encoding', 'C15_sin_encoding', 'C15_tan', 'C15_adj_opp', 'C15_cos_value', 'C15_sin_value', 'C15_acc_inhabited', 'C15_pythagoras', 'C15_adj_value', 'C15_opp_value', 'C15_tan_value']
OWNED = {'GCos', 'GSin', 'GTan', 'GAdj', 'GOpp'}
RULE = ('canonical angles in all four quadrants, on the axes and within ulps / 1e-15 / 1e-10 of them, blades to 2^40; magnitudes over the domain; cos, sin, tan vs sin/cos, adj, opp. '
        'non-trivial = owned op result differs from its operands')
TRUSTED = TRUSTED_COMMON
ASSUMPTIONS = ASSUME_COMMON + ['libm cos/sin enter as the model parameter L; the encoding theorems assume only finiteness of the returned value']
S3_LEGS = ['|cos t|, |sin t|, cos^2+sin^2, tan, adj / opp values are theorems under cos_acc / sin_acc (C15_*_value, C15_pythagoras, C15_tan_value); predicates trig_enc, tan_enc, adj_opp_enc against mpmath decide every generated case']

def generate(rng, tier):
    n = 300 if tier == 'quick' else 8000
    cases = []
    for i in range(n):
        r = rng.fork(i)
        P = Prog()
        a = canon_angle(P, r)
        c = P.add('GCos', a); s = P.add('GSin', a); t = P.add('GTan', a)
        tref = P.add('GDiv', r.below(4), s, c)
        g = P.add('GNewAngle', P.f(mag_dom(r)), a)
        adj = P.add('GAdj', g); opp = P.add('GOpp', g)
        aref = P.add('GScale', c, P.add('GMag', g)); oref = P.add('GScale', s, P.add('GMag', g))
        preds = [('trig_enc', [a, c, s]), ('tan_enc', [a, t]), ('bit_equal', [t, tref]), ('adj_opp_enc', [g, adj, opp]),
                 ('bit_equal', [adj, aref]), ('bit_equal', [opp, oref])]
        cases.append(Case(P, preds, 'trig'))
    return cases

LEVEL_TEXT = ('Kernel-checked theorems for every libm: Geonum::cos is fabs(cosF t) at blade 0 (value >= 0) or 2 (value < 0), Geonum::sin is fabs(sinF t) at blade 1 or 3, remainder exactly 0; '
              'tan IS the quotient sin / cos (hence panics exactly on a zero cosine magnitude); adj / opp ARE cos / sin scaled by the magnitude. C15_cos_value / C15_sin_value (S2, real pi): under the explicit accuracy hypothesis |libm cos - cos| <= u on [-8,8] (resp. sin) the signed value carried is within u + 2.5e-15 of cos (sin) of the real direction (blade mod 4)*pi/2 + rem; the hypothesis is shown satisfiable with u = 2^-52. C15_pythagoras: under both accuracy hypotheses cos^2 + sin^2 = 1 within 5(u + 2.5e-15). C15_adj_value / C15_opp_value: adj and opp carry |g||cos| and |g||sin| within |g|(u + 3e-15) + 2^-1075. C15_tan_value: for |sin|, |cos| >= 1/1000 the tangent gateway carries |tan(dir)| within a relative 1.04(2000(u+2.5e-15) + 3*2^-52). Every case of each run is additionally decided against mpmath (S3).')
LEVEL_NOTE = ('Partial. Trusted: Coq kernel + vm_compute; 4 standard-library axioms plus the primitive-integer axioms (PrimInt63.*, Uint63.*_spec) that the Interval tactic uses for the two bounds on the real pi in PiBounds.v; hand-written model validated bit-for-bit each run with the recorded libm table.')
