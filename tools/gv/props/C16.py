from .base import *

ID = 'C16'
THEOREMS = ['C16_cmp_lex', 'C16_gcmp_lex', 'C16_order_laws', 'C16_gorder_laws', 'C16_partial_cmp', 'C16_gpartial_cmp',
            'C16_eq', 'C16_geq', 'C16_cmp_eq_implies_eq', 'C16_eq_cmp_refuted', 'C16_sort']
OWNED = {'AEq', 'ANe', 'ACmp', 'APartialCmp', 'ARel', 'GEq', 'GNe', 'GCmp', 'GPartialCmp', 'GRel', 'CSort'}
RULE = ('pairs/triples of canonical angles and geometric numbers: same-blade pairs whose remainders differ by 0, 1 ulp, < 1e-15, exactly 1e-15 +- ulps, > 1e-15; '
        'remainders -0.0 against +0.0 (obtained from the library itself); blades equal / one apart / a full turn apart / up to 2^40; magnitudes equal, 1 ulp apart, different; ==, !=, cmp, partial_cmp, <, <=, >, >= on every pair; '
        'vectors of up to 64 (quick) / 2000 (thorough) values with many duplicates and near-duplicates passed to sort(). non-trivial = owned op on operands that are not bit-identical; distinct by result bits')
TRUSTED = TRUSTED_COMMON + ["std's sort algorithm is not modelled: Vec::sort's output is compared with the model's stable insertion sort, and the theorem is about that reference sort and the total order the library owes to std"]
ASSUMPTIONS = ASSUME_COMMON
S3_LEGS = []

def near_pair(r):
    """two angles on the same (or a chosen) blade whose remainders are a controlled gap apart"""
    base = rem_class(r)
    base = min(max(base, 1e-3), fb.Q - 1e-3) if r.chance(0.7) else base
    k = r.below(8)
    if k == 0: other = base
    elif k == 1: other = fb.nxt(base, r.choice([1, -1, 2, -2]))
    elif k == 2: other = base + r.choice([1e-16, 3e-16, 7e-16, 9.9e-16])
    elif k == 3: other = fb.nxt(base + 1e-15, r.choice([-2, -1, 0, 1, 2]))
    elif k == 4: other = base + r.choice([1.1e-15, 2e-15, 1e-12, 1e-10])
    else: other = rem_class(r)
    other = min(max(other, 0.0), fb.Q - 2e-10)
    return base, other

def pair_case(r):
    P = Prog()
    ra, rb = near_pair(r)
    b0 = blade_class(r)
    b1 = b0 + r.choice([0, 0, 0, 0, 1, 4, -1 if b0 > 0 else 0, 2**20])
    a = angle_rem(P, ra, b0); b = angle_rem(P, rb, b1)
    preds = []
    def angle_preds(x, y):
        eq = P.add('AEq', x, y); ne = P.add('ANe', x, y)
        c = P.add('ACmp', x, y); pc = P.add('APartialCmp', x, y)
        rels = [P.add('ARel', k, x, y) for k in range(4)]
        return [('cmp_expected', [x, y, [c, pc]]), ('rel_expected', [x, y, rels]),
                ('eq_implies', [x, y, eq, ne]), ('eq_iff_cmp_equal', [x, y, eq, c])]
    preds += angle_preds(a, b) + angle_preds(b, a) + angle_preds(a, a)
    ma = mag_dom(r)
    mb = r.choice([ma, ma, fb.nxt(ma, 1) if ma > 0 else 0.0, mag_dom(r)])
    g = P.add('GNewAngle', P.f(ma), a); h = P.add('GNewAngle', P.f(mb), b)
    h2 = P.add('GNewAngle', P.f(mb), a)
    def geo_preds(x, y):
        eq = P.add('GEq', x, y); ne = P.add('GNe', x, y)
        c = P.add('GCmp', x, y); pc = P.add('GPartialCmp', x, y)
        rels = [P.add('GRel', k, x, y) for k in range(4)]
        return [('cmp_expected', [x, y, [c, pc]]), ('rel_expected', [x, y, rels]),
                ('eq_implies', [x, y, eq, ne]), ('eq_iff_cmp_equal', [x, y, eq, c])]
    preds += geo_preds(g, h) + geo_preds(h, g) + geo_preds(g, h2) + geo_preds(g, g)
    return Case(P, preds, 'pairs')

def sort_case(r, maxn):
    P = Prog()
    n = r.below(maxn + 1)
    pool = []
    regs = []
    for _ in range(n):
        if pool and r.chance(0.35):
            regs.append(r.choice(pool)); continue
        if pool and r.chance(0.3):
            # near-duplicate of an existing member: same angle, magnitude an ulp away or equal
            src = r.choice(pool)
            ang = P.add('GAngle', src)
            m = r.choice([1.0, 2.0, fb.nxt(1.0, 1), fb.nxt(2.0, -1), 0.0])
            g = P.add('GNewAngle', P.f(m), ang)
        else:
            g = P.add('GNewAngle', P.f(r.choice([0.0, 1.0, 2.0, fb.nxt(1.0, 1), mag_dom(r)])),
                      angle_rem(P, r.choice([0.0, 0.25, 0.5, 1.0, fb.nxt(0.5, 1), rem_class(r)]), r.choice([0, 1, 2, 3, 4, 5, 8, 1000, 2**40])))
        pool.append(g); regs.append(g)
    c = P.add('CFrom', *regs)
    s = P.add('CSort', c)
    s2 = P.add('CSort', s)
    return Case(P, [('sorted_perm', [c, s]), ('same_coll', [[s, s2]])], 'sort')

def generate(rng, tier):
    np_, ns, mx = (220, 60, 64) if tier == 'quick' else (6000, 300, 2000)
    cases = [pair_case(rng.fork(i)) for i in range(np_)]
    cases += [sort_case(rng.fork(10**6 + i), mx if i % 5 == 0 else 24) for i in range(ns)]
    cases += [negzero_case(rng.fork(2 * 10**6 + i)) for i in range(12 if tier == 'quick' else 200)]
    return cases

def negzero_case(r):
    """remainders -0.0 and +0.0 are the same number: ==, cmp and sort must treat them alike. A -0.0 remainder
    cannot be passed to a constructor; it comes out of the library itself (atan2(-0.0, x>0), Angle::new(-0.0, d))"""
    P = Prog()
    nz = [P.add('ANewCart', P.f(r.choice([1.0, 2.5, 1e-3])), P.f(-0.0)), P.add('ANew', P.f(-0.0), P.f(r.choice([1.0, 3.0, 4.0])))]
    pz = [P.add('ANew', P.f(0.0), P.f(r.choice([1.0, 3.0]))), P.add('ANewCart', P.f(1.0), P.f(0.0))]
    preds = []
    def angle_preds(x, y):
        eq = P.add('AEq', x, y); ne = P.add('ANe', x, y)
        c = P.add('ACmp', x, y); pc = P.add('APartialCmp', x, y)
        rels = [P.add('ARel', k, x, y) for k in range(4)]
        return [('cmp_expected', [x, y, [c, pc]]), ('rel_expected', [x, y, rels]),
                ('eq_implies', [x, y, eq, ne]), ('eq_iff_cmp_equal', [x, y, eq, c])]
    for x in nz:
        for y in pz:
            preds += angle_preds(x, y) + angle_preds(y, x)
    preds += angle_preds(nz[0], nz[1])
    m1, m2 = r.choice([(5.0, 1.0), (1.0, 1.0), (2.0, fb.nxt(2.0, 1))])
    g = P.add('GNewAngle', P.f(m1), nz[0]); h = P.add('GNewAngle', P.f(m2), pz[0])
    for (x, y) in [(g, h), (h, g)]:
        eq = P.add('GEq', x, y); ne = P.add('GNe', x, y)
        c = P.add('GCmp', x, y); pc = P.add('GPartialCmp', x, y)
        rels = [P.add('GRel', k, x, y) for k in range(4)]
        preds += [('cmp_expected', [x, y, [c, pc]]), ('rel_expected', [x, y, rels]), ('eq_implies', [x, y, eq, ne]), ('eq_iff_cmp_equal', [x, y, eq, c])]
    extra = [P.add('GNewAngle', P.f(r.choice([1.0, 3.0, 0.5])), r.choice(nz + pz)) for _ in range(6)]
    cfrom = P.add('CFrom', g, h, *extra); srt = P.add('CSort', cfrom)
    preds.append(('sorted_perm', [cfrom, srt]))
    return Case(P, preds, 'negzero')

LEVEL_TEXT = ('Kernel-checked theorems about the model: on finite values cmp never panics and IS the lexicographic order on (blade, remainder[, magnitude]); that order is reflexive, antisymmetric and transitive; '
              'partial_cmp = Some(cmp); == implies identical blades and remainders within the 1e-15 test (and equal magnitudes for Geonum); cmp = Equal implies ==; '
              'the reference stable sort to which Vec::sort is compared returns a sorted permutation without panic. '
              'The clause "a == b exactly when cmp says Equal" is REFUTED for the faithful model by a kernel-checked witness (C16_eq_cmp_refuted): known finding F6 (== is tolerant, cmp exact); '
              'the check reports that class as KNOWN-FINDING and any other disagreement as a violation.')
LEVEL_NOTE = ('Trusted: Coq kernel + vm_compute; 4 standard-library axioms; hand-written model validated bit-for-bit each run; std::sort itself is not modelled (its output is compared with the reference sort). No libm involved.')
