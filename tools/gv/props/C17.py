from .base import *

ID = 'C17'
THEOREMS = ['C17_truncate', 'C17_truncate_strict', 'C17_select_cone', 'C17_cone_excludes_zero', 'C17_scale_all',
            'C17_rotate_all', 'C17_total', 'C17_dominant', 'C17_conversions', 'C17_total_value', 'C17_rsum_def', 'C17_cone_pred_unfold', 'C17_cone_signed_cos', 'C17_cone_decides', 'C17_acos_acc_def', 'C17_cone_premises_inhabited']
OWNED = {'CNew', 'CDefault', 'CFrom', 'CFromIter', 'CLen', 'CIsEmpty', 'CIter', 'CIndex', 'CIntoIter', 'CIntoIterRef', 'CAsRefVec',
         'CAsRefSlice', 'CTruncate', 'CCone', 'CTotal', 'CDominant', 'CScaleAll', 'CRotateAll'}
RULE = ('collections of 0..64 members from the C01 domain with duplicates, zero magnitudes, magnitude ties and whole-turn twins; thresholds equal to member magnitudes +-ulp (strictness hit exactly), '
        'cone axes equal to members / zero axes / arbitrary, half-angles in [-1,4] including exact member angles harvested by a first pass (<= vs < hit exactly); factors and rotations from the scalar classes; '
        'sequences of up to 6 (quick) / 20 (thorough) collection operations, each compared with an element-wise plain-vector reference built from scalar operations in the same program. '
        'non-trivial = owned op result differs from its operands')
TRUSTED = TRUSTED_COMMON + ['Vec / iterator adaptors (filter, map, cloned, collect, sum, max_by) are modelled by list filter / map / fold_left, not verified']
ASSUMPTIONS = ASSUME_COMMON + ['select_cone uses libm cos and acos: its filter structure is proved for every libm; the numeric meaning of the predicate is decided by the mpmath reference within a 1e-7 rad band around the half-angle']
S3_LEGS = ["cone predicate: C17_cone_signed_cos shows it equals a comparison of signed cosines under cos_acc; C17_cone_decides adds the acos step under acos_acc (kept => cos(half+ua) - e <= cos(unsigned angle), dropped => cos(unsigned angle) < cos(half-ua) + e); in ANGLE units near 0 and pi the cosine form is weaker than the 1e-7 rad band of predicate cone_ref, which decides every generated case"]

def members(P, r, n):
    regs = []
    for _ in range(n):
        k = r.below(10)
        if regs and k < 2:
            regs.append(r.choice(regs))                       # duplicate
        elif regs and k == 2:
            src = r.choice(regs)                              # whole-turn twin
            regs.append(P.add('GRotate', src, P.add('ANewBlade', P.u(4 * r.choice([1, 2, 250000])), P.f(0.0), P.f(1.0))))
        elif k == 3:
            regs.append(P.add('GNewAngle', P.f(0.0), canon_angle(P, r, False)))
        elif regs and k == 4:
            src = r.choice(regs)                              # magnitude tie at another angle
            m = P.add('GMag', src)
            regs.append(P.add('GNewAngle', m, canon_angle(P, r, False)))
        else:
            regs.append(canon_geonum(P, r, True, r.chance(0.2)))
    return regs

def member_mags(P, regs):
    out = []
    for g in regs:
        op, args = P.ins[g]
        out.append(g)
    return out

def one_case(r, nops, harvest=None):
    P = Prog()
    n = r.choice([0, 1, 2, 3, 5, 8, 13, 21, 40, 64]) if r.chance(0.5) else r.below(12)
    regs = members(P, r, n)
    c = P.add(r.choice(['CFrom', 'CFromIter']), *regs)
    preds = [('coll_is', [c, regs])]
    views = [P.add(op, c) for op in ('CIter', 'CIntoIter', 'CIntoIterRef', 'CAsRefVec', 'CAsRefSlice')]
    preds.append(('same_coll', [[c] + views]))
    preds.append(('len_is', [c, P.add('CLen', c), P.add('CIsEmpty', c)]))
    if n == 0 and r.chance(0.5):
        e = P.add(r.choice(['CNew', 'CDefault']))
        preds.append(('same_coll', [[c, e]]))
    for i in ([0, n - 1, n, n + 3] if n else [0]):
        if i >= 0:
            preds.append(('index_ref', [c, ['#', i], P.add('CIndex', c, P.u(i))]))
    cur, cur_regs = c, list(regs)
    for _ in range(nops):
        k = r.below(6)
        if k == 0:
            # threshold at / next to a member magnitude (known when written as an immediate) or arbitrary
            t = r.choice([0.0, -0.0, 1.0, fb.nxt(1.0, 1), fb.nxt(1.0, -1), 1e-100, -1.0, 2.5, mag_dom(r)])
            res = P.add('CTruncate', cur, P.f(t))
            preds.append(('truncate_ref', [cur, ['#', fb.bits(t)], res]))
            cur, cur_regs = res, None
        elif k == 1:
            axis = r.choice(cur_regs) if (cur_regs and r.chance(0.5)) else canon_geonum(P, r, r.chance(0.2), False)
            h = r.choice([-1.0, -0.0, 0.0, 1e-9, 0.5, fb.Q, fb.PI, fb.nxt(fb.PI, 1), 4.0, r.uniform(-1, 4), r.uniform(0, 3.2)])
            if harvest and r.chance(0.5):
                h = r.choice(harvest)
            if cur_regs and r.chance(0.45):
                # boundary class: the axis is a member turned by a known angle th, the half-angle is th -+ a little
                # (outside the predicate's 1e-7 band): decides <= against the true unsigned angle, small and large
                th = r.choice([1e-3, 6e-3, 0.02, 0.03, 0.04, 0.0447, 0.1, 0.5, 1.0, 1.5, 2.0, 3.0, r.logu(1e-4, 3.1)])
                src = r.choice(cur_regs)
                axis = P.add('GRotate', src, P.add('ANew', P.f(th), P.f(fb.PI)) if r.chance(0.5) else P.add('ANewBlade', P.u(4 * r.choice([1, 250])), P.f(th), P.f(fb.PI)))
                h = th + r.choice([-1e-5, -3e-6, -1e-6, -3e-7, 3e-7, 1e-6, 3e-6, 1e-5])
            res = P.add('CCone', cur, axis, P.f(h))
            preds.append(('cone_ref', [cur, axis, ['#', fb.bits(h)], res]))
            cur, cur_regs = res, None
        elif k == 2:
            f = r.choice([0.0, -0.0, 1.0, -1.0, 2.0, -2.5, 1e-3, r.uniform(-3, 3)])
            res = P.add('CScaleAll', cur, P.f(f))
            if cur_regs is not None:
                ref = [P.add('GScale', g, P.f(f)) for g in cur_regs]
                preds.append(('coll_is', [res, ref])); cur_regs = ref
            cur = res
        elif k == 3:
            a = canon_angle(P, r, r.chance(0.3))
            res = P.add('CRotateAll', cur, a)
            if cur_regs is not None:
                ref = [P.add('GRotate', g, a) for g in cur_regs]
                preds.append(('coll_is', [res, ref])); cur_regs = ref
            cur = res
        elif k == 4:
            preds.append(('total_ref', [cur, P.add('CTotal', cur)]))
        else:
            preds.append(('dominant_ref', [cur, P.add('CDominant', cur)]))
        preds.append(('len_is', [cur, P.add('CLen', cur), P.add('CIsEmpty', cur)]))
    return Case(P, preds, 'collection')

def generate(rng, tier):
    n, nops = (150, 6) if tier == 'quick' else (3000, 20)
    # first pass: harvest exact unsigned angles between members and axes (acos outputs of the real library)
    harvest = [0.0, fb.Q, fb.PI, fb.Q / 2, 1.0]
    try:
        from ..engine import exec_cases
        probe = []
        for i in range(40):
            r = rng.fork(7 * 10**6 + i)
            P = Prog()
            g = canon_geonum(P, r, False, False); d = canon_geonum(P, r, False, False)
            c = P.add('CFrom', g)
            P.add('CCone', c, d, P.f(4.0))
            cs = Case(P, [], 'probe'); cs.cid = i
            probe.append(cs)
        outs, _ = exec_cases(probe, profiles=('debug',))
        for cs in probe:
            for e in outs['debug'][cs.cid][1]:
                if e[0] == 4 and fb.is_finite_bits(e[3]):
                    x = fb.fl(e[3])
                    harvest += [x, fb.nxt(x, 1), fb.nxt(x, -1)]
    except Exception:
        pass
    return [one_case(rng.fork(i), 1 + rng.fork(i).below(nops), harvest) for i in range(n)]

LEVEL_TEXT = ('Kernel-checked theorems about the model (Vec as list): truncate IS the order-preserving filter "threshold < magnitude" (strict, stated over the reals for finite values); select_cone IS an order-preserving filter whose predicate '
              'rejects every zero-magnitude member and every zero axis (for every libm); scale_all / rotate_all ARE element-wise maps preserving length and position; total_magnitude is the left fold from -0.0 and (C17_total_value) the sum of the member magnitudes within sum*((1+2^-53)^n - 1) + n*2^-1075*(1+2^-53)^n for non-negative magnitudes; '
              'dominant is None exactly when empty and otherwise a member with no strictly larger fellow; conversions, iteration and indexing are the identity on contents. '
              'C17_cone_signed_cos (S2, REAL pi): the signed cosine that select_cone feeds to acos is the cosine of the real direction difference between member and axis within 2.1u + 2.01e-10 (cos accurate to u); the final acos comparison is decided against an mpmath reference (S3). C17_cone_decides (ConeDecide.v): with acos accurate to ua on [-1,1] (explicit premise acos_acc, monitored per recorded call, jointly satisfiable with cos_acc: C17_cone_premises_inhabited) a KEPT member has cos(half+ua) - e <= cos(unsigned angle to the axis), a DROPPED member has cos(unsigned angle) < cos(half-ua) + e, e = 2.1u + 2.01e-10; nothing is kept when half+ua < 0, nothing dropped when half-ua >= pi.')
LEVEL_NOTE = ('Trusted: Coq kernel + vm_compute; 4 standard-library axioms; plus the primitive-integer axioms (PrimInt63.*, Uint63.*_spec) of the Interval tactic for C17_cone_signed_cos; hand-written model validated bit-for-bit each run (including std iterator plumbing, which is modelled not verified); libm only as the parameter L.')
