from .base import *

ID = 'C18'
THEOREMS = ['C18_affine', 'C18_projection', 'C18_waves', 'C18_ml', 'C18_ml2', 'C18_em', 'C18_spherical_wave', 'C18_constants', 'C18_optics', 'C18_aberrate']
OWNED = {o for o in __import__('gv.prog', fromlist=['OPS']).OPS if o.startswith('T')}
RULE = ('every helper of the six optional traits on arguments from the C01 domain inside its physical domain (positive distances/radii, refractive ratio >= |sin t|, variance > 0, magnification != 0), '
        'incl. negative charges (blade 2), all quadrants, high blades; each result compared bit-for-bit with the same formula composed from core operations in the same program, or with the documented magnitude/angle formula in mpmath. '
        'non-trivial = helper result differs from its operands')
TRUSTED = TRUSTED_COMMON
ASSUMPTIONS = ASSUME_COMMON + ['libm sin cos asin exp tanh ln pow atan2 enter as the model parameter L; closed-form theorems hold for every L']
S3_LEGS = ['numeric magnitude/angle formulas (inverse-power field, potentials, spherical wave, refraction, aberration, ABCD, magnification, regression, perceptron): predicates against mpmath / bit-exact Python float replicas']

def pos(r):
    # special values (exactly 1, 2, 1/2, powers of ten) now and then: fast paths for unit / identity arguments hide there
    return r.choice([1.0, 1.0, 2.0, 0.5, 10.0, 1e-3]) if r.chance(0.15) else r.logu(1e-3, 1e3)

def zpos(r):
    # zero is inside the domain of times, positions and charges (not of divisors: distances, intervals, velocities here)
    return 0.0 if r.chance(0.12) else pos(r)

def generate(rng, tier):
    n = 200 if tier == 'quick' else 5000
    cases = []
    for i in range(n):
        r = rng.fork(i)
        P = Prog()
        g = canon_geonum(P, r, False, r.chance(0.3)); h = canon_geonum(P, r, False, r.chance(0.3))   # helper operands with blade history too (grade logic on large blade counts)
        a = canon_angle(P, r, r.chance(0.3))
        preds = []
        # affine
        preds.append(('bit_equal', [P.add('TTranslate', g, h), P.add('GAdd', 0, g, h)]))
        preds.append(('bit_equal', [P.add('TShear', g, a), P.add('GRotate', g, a)]))
        ps = [canon_geonum(P, r, False, False) for _ in range(4)]
        e1 = P.add('GSub', 0, ps[1], ps[0]); e2 = P.add('GSub', 0, ps[2], ps[0]); e4 = P.add('GSub', 0, ps[3], ps[0])
        w1 = P.add('GWedge', e1, e2); w2 = P.add('GWedge', e2, e4)
        preds.append(('area_ref', [P.add('TArea', *ps), w1, w2]))
        # projection
        preds.append(('bit_equal', [P.add('TView', g, a), P.add('GRotate', g, a)]))
        preds.append(('bit_equal', [P.add('TCompose', g, h), P.add('GMul', 0, g, h)]))
        # waves
        t, x = [P.add('GNewAngle', P.f(zpos(r)), canon_angle(P, r, r.chance(0.25))) for _ in range(2)]
        vel = P.add('GNewAngle', P.f(pos(r)), canon_angle(P, r, r.chance(0.25)))
        ph = P.add('GSub', 0, x, P.add('GMul', 0, vel, t))
        pr = P.add('TPropagate', g, t, x, vel)
        preds += [('mag_bits_equal', [g, pr]), ('angle_part_equal', [pr, P.add('AAdd', 0, P.add('GAngle', g), P.add('GAngle', ph))])]
        k, w = [P.add('GNewAngle', P.f(pos(r)), canon_angle(P, r, r.chance(0.25))) for _ in range(2)]
        ph2 = P.add('GSub', 0, P.add('GMul', 0, k, x), P.add('GMul', 0, w, t))
        dp = P.add('TDisperse', x, t, k, w)
        preds += [('mag_is_one', [dp]), ('angle_part_equal', [dp, P.add('GAngle', ph2)])]
        iv = P.add('GNewAngle', P.f(pos(r)), canon_angle(P, r, False))
        df = P.add('GSub', 0, g, h)
        preds += [('mag_is_quotient', [P.add('TFreq', g, h, iv), df, iv, ['#', 1]]), ('mag_is_quotient', [P.add('TWavenum', g, h, iv), df, iv, ['#', 1]])]
        # ml
        b = canon_geonum(P, r, True, r.chance(0.2))
        preds.append(('forward_ref', [g, h, b, P.add('TForward', g, h, b), P.add('AAdd', 0, P.add('GAngle', g), P.add('GAngle', h))]))
        for kind in range(4):
            preds.append(('activate_ref', [g, ['#', kind], P.add('TActivate', kind, g)]))
        cov, var = r.uniform(-5, 5), r.logu(1e-3, 1e3)
        preds.append(('regression_ref', [['#', fb.bits(cov)], ['#', fb.bits(var)], P.add('TRegression', P.f(cov), P.f(var))]))
        lr, er = r.uniform(0.001, 1.0), r.uniform(-2, 2)
        preds.append(('perceptron_ref', [g, ['#', fb.bits(lr)], ['#', fb.bits(er)], h, P.add('TPerceptron', g, P.f(lr), P.f(er), h)]))
        # em
        ch = P.add('GNewAngle', P.f(zpos(r)), P.add('ANewBlade', P.u(r.choice([0, 2, 4, 6, 10, 1000, 1002, 2**31 + 2, 2**32 + 2])), P.f(0.0), P.f(1.0)) if r.chance(0.7) else canon_angle(P, r, r.chance(0.25)))
        dist = P.add('GNewAngle', P.f(pos(r)), canon_angle(P, r, r.chance(0.25)))
        pw = P.add('GScalar', P.f(r.choice([1.0, 2.0, 3.0, 0.5, r.uniform(0.5, 4)])))
        kc = P.add('GScalar', P.f(pos(r)))
        preds.append(('inverse_field_ref', [ch, dist, pw, a, kc, P.add('TInvField', ch, dist, pw, a, kc)]))
        from ..preds import K_COULOMB
        kreg = P.add('GScalar', P.f(K_COULOMB))
        preds.append(('bit_equal', [P.add('TEPot', ch, dist), P.add('GDiv', 0, P.add('GMul', 0, ch, kreg), dist)]))
        two = P.add('GScalar', P.f(2.0)); pi_ang = P.add('ANew', P.f(1.0), P.f(1.0))
        preds.append(('geonum_close', [P.add('TEField', ch, dist), P.add('TInvField', ch, dist, two, pi_ang, kreg), ['#', 0]]))
        preds.append(('poynting_ref', [P.add('TPoynting', g, h), P.add('GWedge', g, h)]))
        rr = P.add('GNewAngle', P.f(r.logu(1.0, 1e3) if r.chance(0.7) else pos(r)), canon_angle(P, r, False))
        cur = P.add('GScalar', P.f(pos(r))); perm = P.add('GScalar', P.f(pos(r) * 1e-6))
        preds.append(('wire_ref', [rr, cur, perm, P.add('TWireA', rr, cur, perm), P.add('TWireB', rr, cur, perm)]))
        wk = P.add('GScalar', P.f(r.uniform(0.1, 10))); sp = P.add('GScalar', P.f(r.uniform(0.1, 10))); tt = P.add('GScalar', P.f(r.uniform(0, 5)))
        preds.append(('spherical_ref', [rr, tt, wk, sp, P.add('TSphWave', rr, tt, wk, sp)]))
        preds.append(('constants_are', [[P.add('TConst', j) for j in range(5)]]))
        # optics
        nidx = P.add('GScalar', P.f(r.choice([1.0, 1.33, 1.5, 2.4, r.uniform(1.0, 3.0), 100.0, r.logu(1.0, 1e3)])))
        preds.append(('refract_ref', [g, nidx, P.add('TRefract', g, nidx)]))
        zs = [P.add('GNewAngle', P.f(r.uniform(0, 0.5)), canon_angle(P, r, False)) for _ in range(r.below(5))]
        preds.append(('aberrate_ref', [g, zs, P.add('TAberrate', g, *zs)]))
        fo = P.add('GScalar', P.f(pos(r))); wl = P.add('GScalar', P.f(pos(r)))
        preds.append(('otf_ref', [g, fo, wl, P.add('TOtf', g, fo, wl)]))
        gs = P.add('GNewAngle', P.f(pos(r)), canon_angle(P, r, False))
        abcd = [P.add('GScalar', P.f(r.uniform(0, 3))) for _ in range(4)]
        preds.append(('abcd_ref', [gs] + abcd + [P.add('TAbcd', gs, *abcd)]))
        if r.chance(0.3):
            # special matrices (identity, free space, thin lens, zero) on a ray that carries blade history
            gh = P.add('GNewAngle', P.f(pos(r)), angle_rem(P, rem_class(r), r.choice([4, 5, 8, 9, 12, 1000, 2**20 + 1])))
            m4 = r.choice([(1.0, 0.0, 0.0, 1.0), (1.0, 0.5, 0.0, 1.0), (1.0, 0.0, 0.25, 1.0), (0.0, 0.0, 0.0, 0.0), (1.0, 1.0, 1.0, 1.0), (2.0, 0.0, 0.0, 0.5)])
            sp = [P.add('GScalar', P.f(x)) for x in m4]
            preds.append(('abcd_ref', [gh] + sp + [P.add('TAbcd', gh, *sp)]))
        mg = P.add('GScalar', P.f(r.choice([1.0, 2.0, 0.5, r.uniform(0.2, 5)])))
        preds.append(('magnify_ref', [g, mg, P.add('TMagnify', g, mg)]))
        cases.append(Case(P, preds, 'helpers'))
    return cases

LEVEL_TEXT = ('Kernel-checked theorems for every libm, one per helper group: translate IS addition; shear and view ARE rotations; compose IS the product; quadrilateral area IS |e1^e2|/2 + |e3^e4|/2 of the edge differences; Poynting IS the wedge with magnitude / mu0; '
              'propagate / disperse rotate by the angle of x - vt / kx - wt; frequency and wavenumber ARE |a-b| / interval at blade 1; forward pass IS |x||w|+|b| at the summed angle; the four activations, the inverse-power field, potentials, wire fields, spherical wave, OTF, ABCD, magnification, refraction, aberration (as a fold), regression and perceptron '
              'equal the stated expressions over the float operations and libm functions; the four constants are computed by the documented expressions. Their numeric meaning against real-number formulas is decided by mpmath predicates (S3).')
LEVEL_NOTE = ('The closed forms are a second, independent transcription (documentation -> Gallina) proved equal to the first (code -> Gallina model); the first is tied to the code by the bit-exact correspondence. Trusted: Coq kernel, 4 std axioms, model, harness, predicates.')
