from .base import *

ID = 'C19'
THEOREMS = ['C19_activation_keeps_angle', 'C19_relu', 'C19_magnitudes', 'C19_negative_charge', 'C19_otf_phase', 'C19_magnify_intensity', 'C19_tanh_bound', 'C19_range_hyps_inhabited', 'C19_sigmoid_bound', 'C19_exp_range_inhabited', 'C19_inverse_field_value', 'C19_wire_field_value', 'C19_snell', 'C19_poynting_value', 'C19_mu0_value']
OWNED = {'TRefract', 'TMagnify', 'TInvField', 'TEField', 'TWireB', 'TArea', 'TActivate', 'TPropagate', 'TDisperse'}
RULE = ('metamorphic pairs: refraction with |sin t_in| <= n (Snell), magnification by m vs 1/m^2, inverse-power fields under r -> s r with s in [1e-3,1e3] and real powers in (0, 3.5] (integers and non-integers), flipped charge, wire field under r -> s r, '
        'quadrilaterals with corners in all quadrants and blade histories under a common translation / rotation and against the shoelace area, activations on all quadrants, propagation / dispersion magnitudes. '
        'non-trivial = helper result differs from its operands')
TRUSTED = TRUSTED_COMMON
ASSUMPTIONS = ASSUME_COMMON
S3_LEGS = ['Snell (C19_snell), 1/r^n value (C19_inverse_field_value, per-call pow premise), wire field (C19_wire_field_value), sigmoid / tanh bounds are theorems under explicit libm premises; the scaling laws as ratios, quadrilateral-area invariance under common translation / rotation and equality with the shoelace area are decided by predicates against mpmath only']

def generate(rng, tier):
    n = 200 if tier == 'quick' else 5000
    cases = []
    for i in range(n):
        r = rng.fork(i)
        P = Prog()
        preds = []
        g = canon_geonum(P, r, False, r.chance(0.3))
        # Snell
        nidx = P.add('GScalar', P.f(r.choice([1.0, 1.33, 1.5, 2.4, r.uniform(1.0, 3.0), 100.0, r.logu(1.0, 1e3)])))
        preds.append(('refract_ref', [g, nidx, P.add('TRefract', g, nidx)]))
        # magnify
        m = r.choice([1.0, -1.0, 2.0, 0.5, -2.0, fb.nxt(1.0, r.choice([-1, 1])), r.uniform(0.2, 5)])
        mg = P.add('GScalar', P.f(m))
        preds.append(('magnify_ref', [g, mg, P.add('TMagnify', g, mg)]))
        # inverse field scaling
        q = r.choice([1.0, 2.0, r.logu(1e-3, 1e3), r.logu(1e-3, 1e3)]); d = r.choice([1.0, 0.5, 2.0, r.logu(1e-2, 1e2), r.logu(1e-2, 1e2)]); s = r.choice([2.0, 0.5, 10.0, r.logu(1e-3, 1e3), r.logu(1e-3, 1e3)]); pw = r.choice([1.0, 2.0, 3.0, 0.5, 1.5, 2.5, 0.25, r.uniform(0.1, 3.5),
                                                                                             fb.nxt(float(r.choice([1, 2, 3])), r.choice([-2, -1, 1, 2])), float(r.choice([1, 2, 3])) + r.choice([-1e-11, 1e-11, -5e-11, 9e-11])])   # the property says q/r^n for real n: non-integer powers included
        a = canon_angle(P, r, r.chance(0.25))
        ch = P.add('GNewBlade', P.f(q), P.u(r.choice([0, 4, 8, 1000])), P.f(0.0), P.f(1.0)); chn = P.add('GNewBlade', P.f(q), P.u(r.choice([2, 6, 10, 1002])), P.f(0.0), P.f(1.0))
        kc = P.add('GScalar', P.f(r.logu(1e-3, 1e3))); pwr = P.add('GScalar', P.f(pw))
        d1 = P.add('GNewAngle', P.f(d), a); d2 = P.add('GNewAngle', P.f(d * s), a)
        f1 = P.add('TInvField', ch, d1, pwr, a, kc); f2 = P.add('TInvField', ch, d2, pwr, a, kc); fneg = P.add('TInvField', chn, d1, pwr, a, kc)
        import mpmath as mp
        want = mp.power(mp.mpf(d * s) / mp.mpf(d), pw)
        preds.append(('ratio_is', [f1, f2, ['#', mp.nstr(want, 40)], ['#', 50]]))
        preds += [('steps', [f1, fneg, ['#', 2]]), ('mag_bits_equal', [f1, fneg]), ('inverse_field_ref', [ch, d1, pwr, a, kc, f1]), ('inverse_field_ref', [chn, d1, pwr, a, kc, fneg])]
        if r.chance(0.25):
            # a ZERO charge that still carries a sign in its angle (magnitude 0 is inside the domain): zero field, same direction rule
            z0 = P.add('GNewBlade', P.f(0.0), P.u(r.choice([0, 4, 1000])), P.f(0.0), P.f(1.0)); z2 = P.add('GNewBlade', P.f(0.0), P.u(r.choice([2, 6, 1002])), P.f(0.0), P.f(1.0))
            zq = P.add('GNewAngle', P.f(0.0), canon_angle(P, r, False))
            fz0 = P.add('TInvField', z0, d1, pwr, a, kc); fz2 = P.add('TInvField', z2, d1, pwr, a, kc); fzq = P.add('TInvField', zq, d1, pwr, a, kc)
            preds += [('inverse_field_ref', [z0, d1, pwr, a, kc, fz0]), ('inverse_field_ref', [z2, d1, pwr, a, kc, fz2]), ('inverse_field_ref', [zq, d1, pwr, a, kc, fzq]),
                      ('steps', [fz0, fz2, ['#', 2]])]
        cur = P.add('GScalar', P.f(r.logu(1e-3, 1e3))); perm = P.add('GScalar', P.f(1.2566370614359173e-06))
        b1 = P.add('TWireB', d1, cur, perm); b2 = P.add('TWireB', d2, cur, perm)
        preds.append(('ratio_is', [b1, b2, ['#', mp.nstr(mp.mpf(d * s) / mp.mpf(d), 40)], ['#', 50]]))
        # quadrilateral area: invariance and shoelace (convex quadrilateral around a centre)
        import math
        rad = r.logu(0.1, 10.0); cx, cy = r.uniform(-3, 3), r.uniform(-3, 3)
        angs = sorted(r.uniform(0, 2 * math.pi) for _ in range(4))
        if min((angs[(j + 1) % 4] - angs[j]) % (2 * math.pi) for j in range(4)) > 0.2:
            pts = [P.add('GNewCart', P.f(cx + rad * math.cos(t)), P.f(cy + rad * math.sin(t))) for t in angs]
            if r.chance(0.3):
                pts = [P.add('GRotate', p, P.add('ANewBlade', P.u(4 * r.choice([1, 3, 250])), P.f(0.0), P.f(1.0))) for p in pts]
            ar = P.add('TArea', *pts)
            preds.append(('shoelace', [ar, pts]))
            tr = canon_geonum(P, r, False, False)
            moved = [P.add('TTranslate', p, tr) for p in pts]
            preds.append(('float_close_rel', [ar, P.add('TArea', *moved), pts + [tr, tr, tr, tr], ['#', 16]]))
            rot = canon_angle(P, r, False)
            turned = [P.add('GRotate', p, rot) for p in pts]
            preds.append(('float_close_rel', [ar, P.add('TArea', *turned), pts, ['#', 16]]))
        # activations, propagate, disperse
        for kind in range(4):
            preds.append(('activate_ref', [g, ['#', kind], P.add('TActivate', kind, g)]))
        t, x, vel, k, w = [P.add('GNewAngle', P.f(r.choice([1.0, 2.0, 0.5, 0.0, r.logu(1e-3, 1e3), r.logu(1e-3, 1e3), r.logu(1e-3, 1e3)])), canon_angle(P, r, r.chance(0.25))) for _ in range(5)]
        preds.append(('mag_bits_equal', [g, P.add('TPropagate', g, t, x, vel)]))
        preds.append(('mag_is_one', [P.add('TDisperse', x, t, k, w)]))
        cases.append(Case(P, preds, 'laws'))
    return cases

LEVEL_TEXT = ('Kernel-checked theorems for every libm: activations never change the angle; ReLU passes the magnitude bit-exactly iff cosF t >_F 0 and otherwise returns +0; propagation and refraction keep the magnitude bit-exactly, dispersion has magnitude exactly 1; '
              'a negative charge turns the inverse-power field by exactly two blades with the remainder untouched; OTF adds exactly one blade; magnification scales intensity by fl(1/fl(m m)). '
              'C19_tanh_bound: under the range hypothesis |tanhF| <= 1 the tanh activation never exceeds the input magnitude in absolute value. '
              'C19_snell (S2, REAL pi / sin): sin(refracted direction) = sin(incident direction)/n within ua + 1e-10 + 3e-14 + (u+3e-15)/n, magnitude untouched, angle canonical - sin accurate to u, the asin call returning an angle whose sine reproduces its argument within ua. C19_sigmoid_bound (under exp in [0, 2^999]: the sigmoid output is in [0, magnitude]), C19_inverse_field_value (magnitude k q / r^n with the REAL power within a relative 1.04(up + 3*2^-52) for a pow call accurate to up), C19_wire_field_value (mu I / (2 pi r) with the REAL pi within 4.2*2^-52 relative, no libm). '
              'Snell, 1/r^n and 1/r scaling, sigmoid bound and quadrilateral-area invariance / shoelace equality are decided against mpmath (S3, partial). C19_poynting_value (Poynting.v): |S| = |E||B||sin(angle between)|/mu0 with mu0 the double 4 pi 1e-7 (C19_mu0_value), at the angle of the wedge, within (B + 2^-53(|X|+B))/mu0 + 2^-1075, B the wedge allowance.')
LEVEL_NOTE = ('Partial. Trusted: Coq kernel + vm_compute; 4 standard-library axioms; plus the primitive-integer axioms (PrimInt63.*, Uint63.*_spec) of the Interval tactic for the real-pi theorem C19_wire_field_value; hand-written model validated bit-for-bit each run with the recorded libm table; numeric laws rest on testing against mpmath.')
