"""C20: feature independence.  Custom check: translator (tools/cfg2coq.py) regenerates the Coq
configuration model from /repo on every run, the finite-domain theorems are re-checked against it,
and the model's predictions are compared with real builds of all 64 feature subsets."""
import os, sys, json, time, shutil, subprocess, itertools, hashlib
from concurrent.futures import ThreadPoolExecutor
from .. import proofs
from ..runner import VERIF, WORK, REPO
from ..engine import write_replay

ID = 'C20'
ENGINE = 'coq-features+builds'
TECHNIQUE = 'translator (Cargo.toml + #[cfg] -> Coq table) regenerated every run; finite-domain theorems over all 64 subsets by vm_compute; real cargo builds of every subset compared by digest'
THEOREMS = ['C20_closed', 'C20_usable', 'C20_helpers_off', 'C20_default_empty', 'C20_all_alias', 'C20_core_cfg_free']
FEATS = ['optics', 'projection', 'ml', 'em', 'waves', 'affine']
LEVEL_TEXT = ('Kernel-checked theorems over the complete finite space (forall S : config, a record of six booleans = all 64 subsets) about a table regenerated from Cargo.toml and every #[cfg] attribute on each run: '
              'every subset is closed (nothing enabled refers to something disabled or missing), every enabled feature has its trait, its impl for Geonum, everything it owns and a public path, helpers of disabled features are absent (the default set is empty), '
              '`all` is all six with no inter-feature dependencies, and no feature gate touches a core file, a foreign feature\'s file, or a function body (no cfg!/cfg_attr) - hence core functions have ONE definition. '
              'The translator is validated by real builds: all 64 subsets (+ the alias) are built against /repo with default features off, must succeed, expose exactly the predicted helpers (negative probes must fail to compile), and produce bit-identical digests of a fixed battery of core and helper computations.')
LEVEL_NOTE = ('Trusted: Coq kernel + vm_compute (64-case enumeration); no axioms; tools/cfg2coq.py (regex-based translator, cross-checked by the real builds on every run); cargo/rustc; the probe battery samples behaviour, it does not prove bit-identity of all computations - '
              'that rests on C20_core_cfg_free (no cfg can select different code) being a faithful reading of the source.')
PROBE = os.path.join(VERIF, 'probe20')
if REPO != '/repo':
    _alt = os.path.join(WORK, 'probe20_src')
    os.makedirs(os.path.join(_alt, 'src'), exist_ok=True); os.makedirs(os.path.join(_alt, '.cargo'), exist_ok=True)
    shutil.copyfile(os.path.join(PROBE, 'src', 'main.rs'), os.path.join(_alt, 'src', 'main.rs'))
    shutil.copyfile(os.path.join(PROBE, '.cargo', 'config.toml'), os.path.join(_alt, '.cargo', 'config.toml'))
    open(os.path.join(_alt, 'Cargo.toml'), 'w').write(open(os.path.join(PROBE, 'Cargo.toml')).read().replace('path = "/repo"', 'path = "%s"' % REPO))
    PROBE = _alt

def subsets():
    out = []
    for k in range(64):
        out.append([f for i, f in enumerate(FEATS) if (k >> i) & 1])
    return out

def cargo(args, tdir, timeout=600):
    env = dict(os.environ)
    env['CARGO_TARGET_DIR'] = tdir
    env['CARGO_NET_OFFLINE'] = 'true'
    p = subprocess.run(['cargo'] + args, cwd=PROBE, env=env, capture_output=True, text=True, timeout=timeout)
    return p

def build_and_run(job):
    kind, feats, tdir = job
    fl = ' '.join(feats)
    if kind == 'run':
        p = cargo(['run', '--offline', '--quiet', '--no-default-features', '--features', fl], tdir)
        lines = {}
        if p.returncode == 0:
            for l in p.stdout.split('\n'):
                t = l.split()
                if len(t) == 2:
                    lines[t[0]] = t[1]
        return (kind, feats, p.returncode, lines, p.stderr[-1500:])
    else:
        p = cargo(['check', '--offline', '--quiet', '--no-default-features', '--features', fl], tdir)
        return (kind, feats, p.returncode, {}, p.stderr[-800:])

def run_check(tier, seed, replay=None):
    t0 = time.time()
    out = sys.stdout
    if replay:
        j = json.load(open(replay))
        feats = j.get('features', [])
        tdir = os.path.join(WORK, 'c20', 'replay')
        r = build_and_run((j.get('job', 'run'), feats, tdir))
        print('replay %s features=%s -> exit %d %s' % (j.get('job', 'run'), feats, r[2], r[3]), file=out)
        print(r[4][-600:], file=out)
        shutil.rmtree(tdir, ignore_errors=True)
        return 0
    # 1. translate
    gen = os.path.join(VERIF, 'coq', 'gen', 'FeaturesGen.v')
    tmp = gen + '.new'
    p = subprocess.run([sys.executable, os.path.join(VERIF, 'tools', 'cfg2coq.py'), REPO, tmp], capture_output=True, text=True)
    tinfo = {}
    if p.returncode != 0:
        print('ERROR: translator failed: ' + p.stderr[-1500:], file=out)
        return 2
    try: tinfo = json.loads(p.stdout.strip().splitlines()[-1])
    except Exception: pass
    if not os.path.exists(gen) or open(gen).read() != open(tmp).read():
        os.replace(tmp, gen)
    else:
        os.remove(tmp)
    # 2. theorems
    pr = proofs.check(ID, THEOREMS)
    proof_ok = pr['discharged'] == pr['obligations'] and not pr['failures']
    # 3. builds
    base = os.path.join(WORK, 'c20')
    shutil.rmtree(base, ignore_errors=True)
    os.makedirs(base)
    jobs = []
    subs = subsets()
    for i, s in enumerate(subs):
        jobs.append(('run', s, os.path.join(base, 'w%d' % (i % 16))))
    jobs.append(('run', ['all'], os.path.join(base, 'w0')))
    negs = []
    for s in (subs if tier == 'thorough' else [[]]):
        for f in FEATS:
            if f not in s:
                negs.append(('neg', s + ['neg_' + f], os.path.join(base, 'w%d' % (len(negs) % 16))))
    # group jobs by worker dir so that one cargo runs per target dir at a time
    by_dir = {}
    for j in jobs + negs:
        by_dir.setdefault(j[2], []).append(j)
    def worker(js):
        return [build_and_run(j) for j in js]
    results = []
    with ThreadPoolExecutor(max_workers=16) as ex:
        for rs in ex.map(worker, by_dir.values()):
            results += rs
    shutil.rmtree(base, ignore_errors=True)
    violations = []
    core = {}
    helper = {f: {} for f in FEATS}
    nbuild = 0
    for kind, feats, rc, lines, err in results:
        if kind == 'run':
            nbuild += 1
            want = set(FEATS) if feats == ['all'] else set(feats)
            if rc != 0:
                violations.append(('subset does not build or run', {'job': 'run', 'features': feats, 'stderr': err}))
                continue
            got = set(lines) - {'core'}
            if got != want:
                violations.append(('helpers exposed %s, expected %s' % (sorted(got), sorted(want)), {'job': 'run', 'features': feats}))
            core[tuple(feats)] = lines.get('core')
            for f in got & set(FEATS):
                helper[f][tuple(feats)] = lines[f]
        else:
            if rc == 0:
                violations.append(('a helper of a disabled feature is usable', {'job': 'neg', 'features': feats}))
    if len(set(core.values())) > 1:
        ref = core.get(()) 
        bad = [list(k) for k, v_ in core.items() if v_ != ref][:1]
        violations.append(('core results depend on the enabled features', {'job': 'run', 'features': bad[0] if bad else [], 'core_digests': {','.join(k): v_ for k, v_ in list(core.items())[:8]}}))
    for f in FEATS:
        vs = set(helper[f].values())
        if len(vs) > 1:
            ks = list(helper[f].items())
            ref = ks[0][1]
            bad = [list(k) for k, v_ in ks if v_ != ref][:1]
            violations.append(('%s helper results depend on the other enabled features' % f, {'job': 'run', 'features': bad[0], 'digests': {','.join(k): v_ for k, v_ in ks[:8]}}))
    lines_out = []
    rc_final = 0
    if violations:
        for msg, payload in violations[:5]:
            payload = dict(payload); payload.update({'property': ID, 'kind': 'build', 'message': msg})
            path = write_replay(ID, 'build', payload)
            lines_out.append('VIOLATION property=%s replay=%s' % (ID, os.path.relpath(path, VERIF)))
        rc_final = 1
    elif not proof_ok:
        path = write_replay(ID, 'broken', {'property': ID, 'kind': 'no-failing-input', 'no_longer_checks': [{'theorems': pr['failures']}],
                                           'builds_explored': nbuild, 'note': 'all subsets build, expose the predicted helpers and agree on every digest'})
        lines_out.append('VIOLATION property=%s replay=%s no-failing-input-found' % (ID, os.path.relpath(path, VERIF)))
        rc_final = 1
    wall = time.time() - t0
    ev = {'property_id': ID, 'tier': tier, 'seed': seed, 'level': 'proof',
          'coverage': {'obligations': pr['obligations'], 'discharged': pr['discharged'],
                       'checker_cmd': 'python tools/cfg2coq.py /repo coq/gen/FeaturesGen.v && make -C coq theories/Properties/C20.vo && coqc tools/pins/C20.v',
                       'trusted_base': ['Coq 8.16.1 kernel + vm_compute (64-subset enumeration); no axioms', 'tools/cfg2coq.py (translator, cross-checked by the builds of this run)', 'cargo / rustc', 'probe20 battery (samples behaviour)'],
                       'theorems': THEOREMS, 'axioms_reported': pr['axioms'], 'theorem_failures': pr['failures'], 'translator': tinfo,
                       'evaluations': nbuild + len(negs), 'distinct_nontrivial': len(core) + sum(len(v_) for v_ in helper.values()),
                       'rule': 'all 64 subsets of {optics, projection, ml, em, waves, affine} plus the alias `all`, each built with default features off and run on the fixed battery; negative probes: %s. non-trivial = one (subset, digest group) pair observed' % ('all 192 pairs (S, f not in S)' if tier == 'thorough' else 'the six helpers against the empty (default) subset'),
                       'samples': [{'features': list(k), 'core': v_} for k, v_ in list(core.items())[:3]] + [{'negative_probe': n[1]} for n in negs[:2]],
                       'exhaustive': True, 'programs': nbuild, 'negative_probes': len(negs), 'core_digest': sorted(set(core.values())),
                       'helper_digests': {f: sorted(set(helper[f].values())) for f in FEATS}},
          'assumptions': ['the probe battery is a sample of core/helper behaviour; bit-identity for all inputs rests on C20_core_cfg_free being a faithful reading of the source by the translator'],
          'wall_s': round(wall, 2), 'violations': len(violations)}
    # evidence of a run against a scratch checkout (GV_REPO, development aid) never lands in /verif/evidence
    evd = os.path.join(VERIF, 'evidence') if REPO == '/repo' else os.path.join(WORK, 'evidence')
    os.makedirs(evd, exist_ok=True)
    json.dump(ev, open(os.path.join(evd, ID + '.json'), 'w'), indent=1)
    print('C20 %s: theorems %d/%d, translator %s, builds %d (+%d negative probes), core digests %d distinct, %.1fs'
          % (tier, pr['discharged'], pr['obligations'], tinfo, nbuild, len(negs), len(set(core.values())), wall), file=out)
    for l in lines_out: print(l, file=out)
    return rc_final
