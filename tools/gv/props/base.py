"""defaults shared by all property specs"""
from ..engine import Case
from ..prog import Prog
from .. import fb
from ..gens import common as G

TRUSTED_COMMON = [
    'Coq 8.16.1 kernel and its vm_compute bytecode machine (proof-time evaluation of concrete floats; run-time evaluation of the model in the correspondence); native_compute is not used',
    'axioms (all from the standard library, via Reals/Flocq): ClassicalDedekindReals.sig_not_dec, ClassicalDedekindReals.sig_forall_dec, FunctionalExtensionality.functional_extensionality_dep, Classical_Prop.classic',
    'hand-written Gallina model coq/theories/{FloatBase,AngleM,GeonumM,CollM,TraitsM}.v tied to /repo by the bit-exact correspondence run on every check (differential testing: bounded by the generator)',
    'Rust harness /verif/harness (executor + in-process libm recorder), Python driver /verif/tools/gv (generator, emitter, predicates with mpmath at 60 digits)',
    'modelled, not verified: rustc/LLVM implement IEEE-754 binary64 and integer casts as documented on x86-64 (no FMA contraction); compiler_builtins fmod/ceil/trunc/round/__powidf2 exact; usize/i64 arithmetic modelled in unbounded Z (cases with blades beyond 2^62 skipped and counted); std Vec/iterators/sort/max_by/sum/clamp; glibc libm assumed only through explicit hypotheses of the theorems that use it (and recorded call-by-call in the correspondence)',
]
ASSUME_COMMON = [
    'theorems are about the Gallina model; the claim about the Rust code is exactly as strong as model = code, which is tested bit-for-bit on the cases of this run, not proved',
    'x86-64 SSE2 double arithmetic, round-to-nearest-even, glibc libm',
]

def sp4(P, op, a, b):
    """the four ownership spellings of a binary operator"""
    return [P.add(op, sp, a, b) for sp in range(4)]

def angle_rem(P, rem, blade=0):
    """an angle whose remainder is (within an ulp or two of) `rem` and whose blade is `blade`:
    new_with_blade(blade, rem, PI) -- radians passed with divisor PI"""
    if blade == 0:
        return P.add('ANew', P.f(rem), P.f(fb.PI))
    return P.add('ANewBlade', P.u(blade), P.f(rem), P.f(fb.PI))

REM_POINTS = [0.0, 1e-15, 1e-10, fb.Q - 1e-10, fb.Q - 1e-15, fb.Q / 2, fb.Q / 3, 1.0, 0.5, 1e-5, fb.Q - 1e-5]

def rem_class(r: fb.Rng):
    """a remainder in [0, pi/2): thresholds +-ulps, exact fractions, arbitrary"""
    k = r.below(10)
    if k < 4:
        x = fb.nxt(r.choice(REM_POINTS), r.choice([-3, -2, -1, 0, 0, 1, 2, 3]))
        return min(max(x, 0.0), fb.nxt(fb.Q - 1e-10, -2))
    if k < 6:
        return fb.Q * r.below(16) / 16.0
    if k == 6:
        return r.logu(1e-18, 1e-8)
    return r.uniform(0.0, fb.Q - 2e-10)

def blade_class(r: fb.Rng, big=True):
    k = r.below(10)
    if k < 5 or not big: return r.below(9)
    if k < 7: return r.choice([1000, 1001, 1002, 1003, 10**6, 10**6 + 1, 4 * 250000 + 2])
    if k < 9: return r.choice([2**31 - 1, 2**31, 2**31 + 1, 2**32 + 2, 2**40, 2**40 - 1])
    return r.below(1 << 40)

def canon_angle(P, r: fb.Rng, big=True):
    return angle_rem(P, rem_class(r), blade_class(r, big))

def mag_dom(r: fb.Rng, zero_ok=True):
    return G.mag_class(r, zero_ok)

def canon_geonum(P, r: fb.Rng, zero_ok=True, big=True):
    return P.add('GNewAngle', P.f(mag_dom(r, zero_ok)), canon_angle(P, r, big))
