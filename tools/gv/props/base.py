"""defaults shared by all property specs"""
from ..engine import Case
from ..prog import Prog
from .. import fb
from ..gens import common as G

TRUSTED_COMMON = [
    'Coq 8.16.1 kernel and its vm_compute bytecode machine (proof-time evaluation of concrete floats; run-time evaluation of the model in the correspondence); native_compute is not used',
    'axioms (all from the standard library, via Reals/Flocq): ClassicalDedekindReals.sig_not_dec, ClassicalDedekindReals.sig_forall_dec, FunctionalExtensionality.functional_extensionality_dep, Classical_Prop.classic',
    'hand-written Gallina model coq/theories/{FloatBase,AngleM,GeonumM,CollM,TraitsM}.v tied to /repo by the bit-exact correspondence run on every check (differential testing: bounded by the generator)',
    'Rust harness /verif/harness (executor + in-process libm recorder), Python driver /verif/tools/gv (generator, emitter, predicates with mpmath at 60 digits)',
    'modelled, not verified: rustc/LLVM implement IEEE-754 binary64 and integer casts as documented on x86-64 (no FMA contraction); compiler_builtins fmod/ceil/trunc/round/__powidf2 exact; usize/i64 arithmetic modelled in unbounded Z (cases with blades beyond 2^62 skipped and counted); std Vec/iterators/sort/max_by/sum/clamp; glibc libm assumed only through explicit hypotheses of the theorems that use it (and recorded call-by-call in the correspondence)',
]
ASSUME_COMMON = [
    'theorems are about the Gallina model; the claim about the Rust code is exactly as strong as model = code, which is tested bit-for-bit on the cases of this run, not proved',
    'x86-64 SSE2 double arithmetic, round-to-nearest-even, glibc libm',
]

def sp4(P, op, a, b):
    """the four ownership spellings of a binary operator"""
    return [P.add(op, sp, a, b) for sp in range(4)]

def angle_rem(P, rem, blade=0):
    """an angle whose remainder is (within an ulp or two of) `rem` and whose blade is `blade`:
    new_with_blade(blade, rem, PI) -- radians passed with divisor PI"""
    if blade == 0:
        return P.add('ANew', P.f(rem), P.f(fb.PI))
    return P.add('ANewBlade', P.u(blade), P.f(rem), P.f(fb.PI))

REM_POINTS = [0.0, 1e-15, 1e-10, fb.Q - 1e-10, fb.Q - 1e-15, fb.Q / 2, fb.Q / 3, 1.0, 0.5, 1e-5, fb.Q - 1e-5]

def rem_class(r: fb.Rng):
    """a remainder in [0, pi/2): thresholds +-ulps, exact fractions, arbitrary"""
    k = r.below(10)
    if k < 4:
        x = fb.nxt(r.choice(REM_POINTS), r.choice([-3, -2, -1, 0, 0, 1, 2, 3]))
        return min(max(x, 0.0), fb.nxt(fb.Q - 1e-10, -2))
    if k < 6:
        return fb.Q * r.below(16) / 16.0
    if k == 6:
        # tiny remainders, and the small-but-not-tiny band 1e-8..0.1 where small-angle shortcuts (sin x ~ x, cos x ~ 1 - x^2/2) go wrong
        return r.logu(1e-18, 1e-8) if r.chance(0.5) else r.logu(1e-8, 0.1)
    return r.uniform(0.0, fb.Q - 2e-10)

def blade_class(r: fb.Rng, big=True):
    k = r.below(10)
    if k < 5 or not big: return r.below(9)
    if k < 7: return r.choice([1000, 1001, 1002, 1003, 10**6, 10**6 + 1, 4 * 250000 + 2])
    # every grade on both sides of 2^31 and 2^32 (signed / unsigned 32-bit narrowing: bit 31 set or clear, wrap at 2^32)
    if k < 9: return r.choice([2**31 - 1, 2**31, 2**31 + 1, 2**31 + 2, 2**31 + 3, 2**32 - 1, 2**32, 2**32 + 2, 2**32 + 2**31 + 3, 2**33 + 1, 2**40, 2**40 - 1])
    return r.below(1 << 40)

def canon_angle(P, r: fb.Rng, big=True):
    return angle_rem(P, rem_class(r), blade_class(r, big))

def mag_dom(r: fb.Rng, zero_ok=True):
    return G.mag_class(r, zero_ok)

def canon_geonum(P, r: fb.Rng, zero_ok=True, big=True):
    return P.add('GNewAngle', P.f(mag_dom(r, zero_ok)), canon_angle(P, r, big))

def mag_pair(r: fb.Rng, zero_ok=True):
    k = r.below(8)
    m = mag_dom(r, False)
    if k == 0: return m, m
    if k == 1: return m, fb.nxt(m, r.choice([1, 2, 3, 8, -1, -3]))
    if k == 2: return m, m * r.choice([1e16, 1e-16, 1e8, 1e-8])
    if k == 3 and zero_ok: return (0.0, m) if r.chance(0.5) else (m, 0.0)
    if k == 4: return float(r.below(9) + 1), float(r.below(9) + 1)
    if k == 5: return r.logu(1e2, 1e6), r.logu(1e2, 1e6)
    if k == 6: return eps_apart(r)          # difference exactly at the 1e-10 cancellation threshold (+- ulps)
    return m, mag_dom(r, zero_ok)

def geo_pair(P, r: fb.Rng, zero_ok=True, big=True, rel=None):
    """two geometric numbers whose angles stand in a chosen relation; returns (a, b, relation)"""
    ma, mb = mag_pair(r, zero_ok)
    rel = rel or r.choice(['same', 'opposite', 'opp-turns', 'near-par', 'near-opp', 'orth', 'orth-near', 'turns', 'any', 'any', 'any'])
    ra = rem_class(r); ba = blade_class(r, big)
    aa = angle_rem(P, ra, ba)
    if rel == 'same':
        ab = aa
    elif rel == 'opposite':
        ab = P.add(r.choice(['ANeg', 'ADual', 'AConj']), aa)
    elif rel == 'opp-turns':
        # exactly opposite DIRECTION but NOT a half turn apart as values: blade gap 6, 10, 14, 4k+2 (equal remainders), either operand ahead
        k = r.choice([1, 2, 3, 250000, 2**29])
        turned = P.add('AAdd', 0, aa, P.add('ANewBlade', P.u(4 * k + 2), P.f(0.0), P.f(1.0)))
        if r.chance(0.5):
            ab = turned
        else:
            aa, ab = turned, aa
    elif rel in ('near-par', 'near-opp'):
        d = r.choice([1e-15, 2e-15, 1e-14, 1e-12, 1e-10, 2e-10, 1e-9, 1e-8, 1e-6, 3e-16, 1e-5, 1e-4, 1e-3, 5e-3, 9e-3, 2e-2, 4.9e-2, r.logu(1e-7, 0.1)]) * r.choice([1, -1])
        rb = min(max(ra + d, 0.0), fb.Q - 2e-10)
        if rb == ra: rb = min(ra + abs(d), fb.Q - 2e-10)
        extra = r.choice([0, 4, 8, 4 * 250000]) + (2 if rel == 'near-opp' else 0)
        if rel == 'near-opp' and r.chance(0.3): extra += 4     # blades differ by 6
        ab = angle_rem(P, rb, ba + extra)
    elif rel == 'orth':
        ab = P.add('AAdd', 0, aa, P.add('ANew', P.f(float(r.choice([1, 3]))), P.f(2.0)))
    elif rel == 'orth-near':
        rb = min(max(fb.nxt(ra, r.choice([-2, -1, 1, 2])), 0.0), fb.Q - 2e-10)
        ab = angle_rem(P, rb, ba + r.choice([1, 3, 5]))
    elif rel == 'turns':
        ab = P.add('AAdd', 0, aa, P.add('ANewBlade', P.u(4 * r.choice([1, 2, 250000, 2**19])), P.f(0.0), P.f(1.0)))
    else:
        ab = canon_angle(P, r, big)
    a = P.add('GNewAngle', P.f(ma), aa); b = P.add('GNewAngle', P.f(mb), ab)
    return a, b, rel


def eps_apart(r):
    """magnitudes (ma, mb) whose floating-point difference fl(ma - mb) is EXACTLY 1e-10 shifted by k ulps,
    k in -2..2 (the cancellation threshold of the opposite-angle path hit exactly), in either order"""
    while True:
        mb = r.choice([0.0, 1e-10, 2e-10, 3e-10, 1e-9, 2.5e-10, 7e-10])
        target = fb.nxt(1e-10, r.choice([-2, -1, 0, 0, 0, 1, 2]))
        ma = mb + target
        for adj in (0, 1, -1, 2, -2):
            cand = fb.nxt(ma, adj)
            if cand - mb == target:
                return (cand, mb) if r.chance(0.5) else (mb, cand)
