"""build the harness against /repo's working tree and execute programs on it"""
import os, subprocess, time
from .prog import parse_reg

VERIF = os.path.dirname(os.path.dirname(os.path.dirname(os.path.abspath(__file__))))
# development aid: GV_REPO points the machinery at a scratch checkout of geonum instead of /repo
# (registered checks never set it); each such checkout gets its own work directory
REPO = os.environ.get('GV_REPO', '/repo')
if REPO == '/repo':
    WORK = os.path.join(VERIF, '.work')
    HARNESS = os.path.join(VERIF, 'harness')
else:
    import hashlib as _h
    WORK = os.path.join(VERIF, '.work', 'alt_' + _h.sha1(REPO.encode()).hexdigest()[:10])
    HARNESS = os.path.join(WORK, 'harness_src')
TARGET = os.path.join(WORK, 'target')

def _prepare_alt_harness():
    import shutil
    src = os.path.join(VERIF, 'harness')
    os.makedirs(os.path.join(HARNESS, 'src'), exist_ok=True)
    os.makedirs(os.path.join(HARNESS, '.cargo'), exist_ok=True)
    for fn in ('src/main.rs', 'src/libmrec.rs', '.cargo/config.toml'):
        shutil.copyfile(os.path.join(src, fn), os.path.join(HARNESS, fn))
    toml = open(os.path.join(src, 'Cargo.toml')).read().replace('path = "/repo"', 'path = "%s"' % REPO)
    open(os.path.join(HARNESS, 'Cargo.toml'), 'w').write(toml)

class BuildError(Exception):
    pass

def build(profile):
    if REPO != '/repo':
        _prepare_alt_harness()
    env = dict(os.environ)
    env['CARGO_TARGET_DIR'] = TARGET
    env['CARGO_NET_OFFLINE'] = 'true'
    env['RUSTFLAGS'] = '--cfg geonum_verif'
    cmd = ['cargo', 'build', '--offline', '--quiet']
    if profile == 'release':
        cmd.append('--release')
    t = time.time()
    p = subprocess.run(cmd, cwd=HARNESS, env=env, capture_output=True, text=True, timeout=900)
    if p.returncode != 0:
        raise BuildError(p.stderr[-4000:])
    return time.time() - t

def exe(profile):
    return os.path.join(TARGET, profile, 'gvharness')

class Hang(Exception):
    pass

def _run_batch(profile, progs, timeout):
    inp = '\n'.join(p.line(cid) for cid, p in progs) + '\n'
    p = subprocess.run([exe(profile)], input=inp, capture_output=True, text=True, timeout=timeout)
    if p.returncode != 0:
        raise BuildError('harness exited %d: %s' % (p.returncode, p.stderr[-2000:]))
    out = {}
    for line in p.stdout.splitlines():
        if not line:
            continue
        body, _, lm = line.partition('|')
        parts = body.split(';')
        cid = int(parts[0])
        regs = [parse_reg(x) for x in parts[1:]]
        tbl = []
        if lm.strip():
            for e in lm.split(','):
                tbl.append(tuple(int(z) for z in e.split()))
        out[cid] = (regs, tbl)
    stats = {}
    for tok in p.stderr.split():
        if '=' in tok:
            k, _, v = tok.partition('=')
            try:
                stats[k] = int(v)
            except ValueError:
                pass
    return out, stats

def run(profile, progs):
    """progs: list of (id, Prog). returns {id: (regs, libm)} and stats.  A program on which the
    implementation crashes the process (stack overflow, abort) or does not terminate within 10 s is
    reported with the single pseudo-register ('X', reason)."""
    try:
        return _run_batch(profile, progs, 45 + len(progs) // 20)
    except (subprocess.TimeoutExpired, BuildError):
        pass
    # isolate the offending programs: small chunks in parallel, then single programs, short timeouts
    from concurrent.futures import ThreadPoolExecutor
    out, stats = {}, {'libm_calls': 0, 'sincos_mismatch': 0}
    def attempt(chunk):
        try:
            o, st = _run_batch(profile, chunk, 10 if len(chunk) == 1 else 20)
            return chunk, o, st, None
        except subprocess.TimeoutExpired:
            return chunk, None, None, 'does not terminate (10 s)'
        except BuildError as e:
            return chunk, None, None, 'process died: ' + str(e)[:200]
    progs = list(progs)
    chunks = [progs[i:i + 16] for i in range(0, len(progs), 16)]
    retry = []
    with ThreadPoolExecutor(max_workers=16) as ex:
        for chunk, o, st, why in ex.map(attempt, chunks):
            if why is None:
                out.update(o)
                for k, v in st.items(): stats[k] = stats.get(k, 0) + v
            else:
                retry += [[p] for p in chunk]
        for chunk, o, st, why in ex.map(attempt, retry):
            if why is None:
                out.update(o)
                for k, v in st.items(): stats[k] = stats.get(k, 0) + v
            else:
                out[chunk[0][0]] = ([('X', why)], [])
    return out, stats
