#!/usr/bin/env python3
"""(development-time) splices tools/design_part2.md (with the seeded-change table filled in from
seeded/*/meta.json) into DESIGN.md between the markers, before Appendix A."""
import json, os, re
V = os.path.dirname(os.path.dirname(os.path.abspath(__file__)))
rows = ['| id | property | change (one line) | needs | caught by |', '|---|---|---|---|---|']
for d in sorted(os.listdir(os.path.join(V, 'seeded'))):
    m = json.load(open(os.path.join(V, 'seeded', d, 'meta.json')))
    cell = lambda s: str(s).replace('|', '/').replace('\n', ' ')
    rows.append('| %s | %s | %s | %s | %s |' % (d, m.get('property'), cell(m.get('summary', ''))[:230], cell(m.get('needs', ''))[:200], cell(m.get('detected_by', ''))[:260]))
part = open(os.path.join(V, 'tools', 'design_part2.md')).read().replace('SEEDED_TABLE', '\n'.join(rows))
doc = open(os.path.join(V, 'DESIGN.md')).read()
B, E = '<!-- PART2-BEGIN -->', '<!-- PART2-END -->'
if B in doc:
    doc = doc[:doc.index(B)] + B + '\n' + part + '\n' + E + doc[doc.index(E) + len(E):]
else:
    k = doc.index('## Appendix A')
    doc = doc[:k] + B + '\n' + part + '\n' + E + '\n\n---------------------------------------------------------------------------------\n\n' + doc[k:]
open(os.path.join(V, 'DESIGN.md'), 'w').write(doc)
print('DESIGN.md updated,', len(rows) - 2, 'seeded changes')
