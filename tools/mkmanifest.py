#!/usr/bin/env python3
"""writes MANIFEST.json from the property specs that exist (tools/gv/props/Cxx.py)"""
import json, os, sys, importlib
sys.path.insert(0, os.path.dirname(os.path.abspath(__file__)))
VERIF = os.path.dirname(os.path.dirname(os.path.abspath(__file__)))
props = [json.loads(l) for l in open(os.path.join(VERIF, 'properties.jsonl'))]
checks, na = [], []
for p in props:
    pid = p['id']
    path = os.path.join(VERIF, 'tools', 'gv', 'props', pid + '.py')
    if not os.path.exists(path):
        na.append({'property_id': pid, 'reason': 'check not built yet (model and correspondence cover its functions; theorems pending)'})
        continue
    spec = importlib.import_module('gv.props.' + pid)
    checks.append({
        'property_id': pid,
        'quick_cmd': './check %s --tier quick' % pid,
        'thorough_cmd': './check %s --tier thorough' % pid,
        'evidence_file': 'evidence/%s.json' % pid,
        'replay_cmd_template': './check %s --replay {path}' % pid,
        'engine': getattr(spec, 'ENGINE', 'coq-model+corr'),
        'level_claimed': {'category': 'proof', 'text': spec.LEVEL_TEXT, 'design_ref': 'DESIGN.md section 5 (%s) and section 11' % pid},
        'level_note': spec.LEVEL_NOTE,
        'technique': getattr(spec, 'TECHNIQUE', 'Coq theorems about a Gallina/Flocq model of the code + bit-exact model/implementation correspondence (vm_compute) + predicate search'),
    })
m = {
    'version': 1,
    'setup_cmd': './setup.sh',
    'hooks': {'guard': 'geonum_verif', 'enable': 'RUSTFLAGS="--cfg geonum_verif" when building /verif/harness against /repo (no source hook is needed: the harness uses the public API only)',
              'baseline_off_cmd': 'cd /repo && cargo test --workspace --no-fail-fast --offline', 'source_commits': [], 'add_only': True},
    'engines': [
        {'name': 'coq-model+corr', 'path': 'coq/ harness/ tools/gv/', 'serves_properties': [c['property_id'] for c in checks if c['engine'] == 'coq-model+corr'],
         'kind_free_text': 'Coq 8.16 + Flocq: hand-written executable model of angle.rs/geonum_mod.rs/geocollection.rs/traits, theorems in coq/theories/Properties, tied to /repo by a bit-exact differential correspondence evaluated inside coqc (vm_compute) on op-programs executed by the Rust harness'},
        {'name': 'coq-features+builds', 'path': 'tools/cfg2coq.py coq/gen/', 'serves_properties': [c['property_id'] for c in checks if c['engine'] != 'coq-model+corr'],
         'kind_free_text': 'translator from Cargo.toml/#[cfg] to a Coq feature model regenerated on every run + real cargo builds of all 64 feature subsets'}],
    'checks': checks,
    'not_applicable': na,
    'notes': 'All checks rebuild the harness from /repo\'s working tree. `fix:` commits in /repo are unguarded defect repairs recorded in known_findings.json.',
}
json.dump(m, open(os.path.join(VERIF, 'MANIFEST.json'), 'w'), indent=1)
print('checks:', [c['property_id'] for c in checks], 'n/a:', len(na))
