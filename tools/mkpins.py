#!/usr/bin/env python3
"""(development-time helper, never run by a check) copies the theorem statements of
coq/theories/Properties/Cxx.v into tools/pins/Cxx.v as `Check name : stmt.` + `Print Assumptions`.
The pin file is committed; a later edit of Cxx.v that weakens a statement then fails the pin."""
import re, sys, os
V = os.path.dirname(os.path.dirname(os.path.abspath(__file__)))
for pid in sys.argv[1:]:
    src = open(os.path.join(V, 'coq/theories/Properties/%s.v' % pid)).read()
    head = src[:src.index('Theorem')]
    reqs = [l for l in head.splitlines() if re.match(r'\s*(From|Require|Open|Import|Local)', l)]
    out = '\n'.join(reqs) + '\nRequire Import GV.Properties.%s.\n' % pid
    for m in re.finditer(r'Theorem (\w+) :(.*?)\nProof\.', src, re.S):
        out += 'Check %s :%s.\nPrint Assumptions %s.\n' % (m.group(1), m.group(2).rstrip().rstrip('.'), m.group(1))
    open(os.path.join(V, 'tools/pins/%s.v' % pid), 'w').write(out)
    print(pid, len(re.findall(r'^Check', out, re.M)), 'pins')
