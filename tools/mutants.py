#!/usr/bin/env python3
"""development-time self-test of detection power (NOT a registered check): applies one-line mutants
of geonum to scratch worktrees outside /repo and /verif, runs the owning property's quick check
against each (GV_REPO), and records whether a VIOLATION with a concrete replay was reported.
usage: mutants.py [name-substring ...]"""
import os, sys, subprocess, json, shutil, time
from concurrent.futures import ThreadPoolExecutor
V = os.path.dirname(os.path.dirname(os.path.abspath(__file__)))

A, G, C = 'src/angle.rs', 'src/geonum_mod.rs', 'src/geocollection.rs'
M = [
 # name, property, file, old, new
 ('grade_mod8', 'C07', A, 'self.blade % 4', 'self.blade % 8'),
 ('grade_angle_raw_blade', 'C07', A, 'self.grade() as f64 * PI / 2.0 + self.rem', 'self.blade as f64 * PI / 2.0 + self.rem'),
 ('base_angle_keeps_blade', 'C07', A, 'blade: self.grade(), // reset to base blade for grade', 'blade: self.blade % 8, // reset to base blade for grade'),
 ('dual_three_blades', 'C07', A, '*self + Angle::new_with_blade(2, 0.0, 1.0)', '*self + Angle::new_with_blade(2, 1e-11, 1.0)'),
 ('conjugate_quarter', 'C07', A, 'pub fn conjugate(&self) -> Angle {\n        *self + Angle::new(1.0, 1.0)', 'pub fn conjugate(&self) -> Angle {\n        *self + Angle::new(1.0, 1.0000000001)'),
 ('sub_borrow_removed', 'C04', A, 'let final_blade = blade_diff - 1;', 'let final_blade = blade_diff;'),
 ('sub_eq_tol_1e14', 'C04', A, 'if rem_diff.abs() < 1e-15 {\n            // exact case: remainders are equal', 'if rem_diff.abs() < 1e-14 {\n            // exact case: remainders are equal'),
 ('sub_lift_floor', 'C04', A, 'let four_rotations = ((-blade_diff + 3) / 4) * 4; // round up to multiple of 4\n                (blade_diff + four_rotations) as usize', 'let four_rotations = ((-blade_diff + 4) / 4) * 4; // round up to multiple of 4\n                (blade_diff + four_rotations) as usize'),
 ('mul_ref_uses_sub', 'C03', A, 'impl Mul<&Angle> for Angle {\n    type Output = Angle;\n\n    fn mul(self, other: &Self) -> Angle {\n        self.geometric_add(other)', 'impl Mul<&Angle> for Angle {\n    type Output = Angle;\n\n    fn mul(self, other: &Self) -> Angle {\n        self.geometric_sub(other)'),
 ('add_snap_1e14', 'C03', A, 'if (total_rem - quarter_pi).abs() < 1e-15 {', 'if (total_rem - quarter_pi).abs() < 1e-9 {'),
 ('normalize_eps_1e9', 'C03', A, 'const EPSILON: f64 = 1e-10;\n        if (self.rem - quarter_pi).abs() < EPSILON {', 'const EPSILON: f64 = 1e-9;\n        if (self.rem - quarter_pi).abs() < EPSILON {'),
 ('new_fast_neg_plus2', 'C02', A, 'let full_rotations = ((-pi_radians + 3.0) / 4.0).ceil() * 4.0;', 'let full_rotations = ((-pi_radians + 4.0) / 4.0).ceil() * 4.0;'),
 ('new_from_cartesian_swapped', 'C02', A, 'let angle_radians = y.atan2(x);', 'let angle_radians = if x == 0.0 && y < 0.0 { -y.atan2(x) } else { y.atan2(x) };'),
 ('eq_tol_1e12', 'C16', A, 'let rem_diff = (self.rem - other.rem).abs();\n        if rem_diff < 1e-15 {', 'let rem_diff = (self.rem - other.rem).abs();\n        if rem_diff < 1e-12 {'),
 ('cmp_ignores_rem_sign', 'C16', A, 'self.rem.partial_cmp(&other.rem).unwrap()', 'other.rem.partial_cmp(&self.rem).unwrap().reverse().then(std::cmp::Ordering::Equal)'),
 ('gcmp_mag_reversed', 'C16', G, '.partial_cmp(&other.mag)\n                .unwrap_or(std::cmp::Ordering::Equal),', '.partial_cmp(&other.mag)\n                .map(|o| if self.mag < 1e-50 { o.reverse() } else { o })\n                .unwrap_or(std::cmp::Ordering::Equal),'),
 ('wedge_drop_abs', 'C10', G, 'let mag = self.mag * other.mag * sin_value.abs();', 'let mag = (self.mag * other.mag * sin_value).abs() * if sin_value < -0.9999999 { 0.5 } else { 1.0 };'),
 ('wedge_pi_as_half', 'C10', G, 'if sin_value < 0.0 {\n            angle = angle + Angle::new(1.0, 1.0); // add π', 'if sin_value < 0.0 {\n            angle = angle + Angle::new(1.0, 2.0); // add π'),
 ('dot_self_angle', 'C09', G, 'let angle_diff = other.angle - self.angle;\n        let cos_component = angle_diff.grade_angle().cos();\n        let scalar_value', 'let angle_diff = self.angle - other.angle;\n        let cos_component = angle_diff.grade_angle().cos();\n        let scalar_value'),
 ('orth_le', 'C09', G, 'dot_result.mag.abs() < EPSILON', 'dot_result.mag.abs() <= EPSILON * 1.0000001'),
 ('project_self_angle', 'C11', G, 'let angle = if projection_factor >= 0.0 {\n            onto.angle', 'let angle = if projection_factor > 0.0 {\n            onto.angle'),
 ('project_dim_off', 'C11', G, 'let target_axis = Angle::new_with_blade(dimension_index, 0.0, 1.0);', 'let target_axis = Angle::new_with_blade(dimension_index % 1_000_000, 0.0, 1.0);'),
 ('reflect_base_dropped', 'C12', G, 'let complement = Angle::new(4.0, 1.0) - self.angle.base_angle();', 'let complement = Angle::new(4.0, 1.0) - self.angle;'),
 ('scale_rotate_neg_zero', 'C12', G, 'if scale_factor < 0.0 {\n            // negative scale', 'if scale_factor <= -1e-300 {\n            // negative scale'),
 ('opposite_one_arm', 'C14', G, 'if self.angle + pi_rotation == other.angle || other.angle + pi_rotation == self.angle {', 'if self.angle + pi_rotation == other.angle {'),
 ('opposite_keep_smaller', 'C14', G, '} else if diff > 0.0 {\n                // first dominates', '} else if diff > 1e-3 {\n                // first dominates'),
 ('cancel_blade_lost', 'C14', G, 'let combined_blade_count = self.angle.blade() + other.angle.blade();\n                return Self {\n                    mag: 0.0,', 'let combined_blade_count = self.angle.blade().max(other.angle.blade());\n                return Self {\n                    mag: 0.0,'),
 ('add_mag_no_clamp_rounding', 'C06', G, 'let opp_sum = self.mag * angle1.sin() + other.mag * angle2.sin();', 'let opp_sum = self.mag * angle1.sin() + other.mag * angle2.sin() * if other.mag > 1e90 { 1.0000001 } else { 1.0 };'),
 ('distance_plus', 'C13', G, '- 2.0 * self.mag * other.mag * angle_between.grade_angle().cos();', '- 2.0 * self.mag * other.mag * angle_between.grade_angle().cos().min(0.9999999999);'),
 ('invert_no_panic', 'C13', G, 'if offset.mag == 0.0 {\n            panic!("cannot invert point at circle center");', 'if offset.mag == 0.0 && self.mag > 1e-50 {\n            panic!("cannot invert point at circle center");'),
 ('inv_no_negate', 'C05', G, 'mag: 1.0 / self.mag,\n            angle: self.angle.negate(),', 'mag: 1.0 / self.mag,\n            angle: if self.angle.blade() > 1_000_000 { self.angle } else { self.angle.negate() },'),
 ('scalar_neg_zero', 'C05', G, 'angle: if value >= 0.0 {\n                Angle::new(0.0, 1.0)', 'angle: if value > 0.0 || value.to_bits() == 0 {\n                Angle::new(0.0, 1.0)'),
 ('cos_grade_blade', 'C15', G, 'pub fn sin(a: Angle) -> Geonum {\n        let v = a.grade_angle().sin();\n        Geonum::signed_at(v, Angle::new(1.0, 2.0))', 'pub fn sin(a: Angle) -> Geonum {\n        let v = a.grade_angle().sin();\n        Geonum::signed_at(v, Angle::new(if v == 0.0 { 3.0 } else { 1.0 }, 2.0))'),
 ('truncate_ge', 'C17', C, '.filter(|g| g.mag > threshold)', '.filter(|g| g.mag >= threshold)'),
 ('cone_lt', 'C17', C, 'angle_between <= half_angle', 'angle_between < half_angle'),
 ('dominant_first', 'C17', C, '.max_by(|a, b| a.mag.partial_cmp(&b.mag).unwrap())', '.min_by(|a, b| b.mag.partial_cmp(&a.mag).unwrap())'),
 ('scale_all_abs', 'C17', C, '.map(|g| g.scale(factor))', '.map(|g| g.scale(if g.mag == 0.0 { factor.abs() } else { factor }))'),
 ('shift_measure_blade', 'C08', G, 'let angle_between = other.angle - self.angle;\n        let distance_squared', 'let angle_between = if other.angle.blade() > 3_000_000 { other.angle.base_angle() - self.angle } else { other.angle - self.angle };\n        let distance_squared'),
]

def run_one(m):
    name, prop, f, old, new = m
    wt = '/tmp/mut_' + name
    subprocess.run(['git', '-C', '/repo', 'worktree', 'add', '-q', '--force', wt, 'HEAD'], capture_output=True)
    try:
        path = os.path.join(wt, f)
        s = open(path).read()
        if s.count(old) != 1:
            return name, prop, 'PATTERN(%d)' % s.count(old), ''
        open(path, 'w').write(s.replace(old, new))
        env = dict(os.environ); env['GV_REPO'] = wt
        t = time.time()
        p = subprocess.run([os.path.join(V, 'check'), prop], env=env, capture_output=True, text=True, timeout=1800)
        out = p.stdout + p.stderr
        lines = [l for l in out.splitlines() if l.startswith('VIOLATION')]
        if 'error' in out and 'could not compile' in out:
            verdict = 'NOCOMPILE'
        elif lines and any('no-failing-input-found' not in l for l in lines):
            verdict = 'caught'
        elif lines:
            verdict = 'caught(no-input)'
        else:
            verdict = 'MISSED' if p.returncode == 0 else 'rc=%d' % p.returncode
        return name, prop, verdict, '%.0fs' % (time.time() - t)
    finally:
        subprocess.run(['git', '-C', '/repo', 'worktree', 'remove', '--force', wt], capture_output=True)
        import hashlib
        shutil.rmtree(os.path.join(V, '.work', 'alt_' + hashlib.sha1(wt.encode()).hexdigest()[:10]), ignore_errors=True)

if __name__ == '__main__':
    sel = [m for m in M if not sys.argv[1:] or any(a in m[0] or a == m[1] for a in sys.argv[1:])]
    res = []
    with ThreadPoolExecutor(max_workers=3) as ex:
        for r in ex.map(run_one, sel):
            print('%-28s %-4s %-18s %s' % r, flush=True)
            res.append(r)
    json.dump(res, open(os.path.join(V, '.work', 'mutants_result.json'), 'w'), indent=1)
