From Coq Require Import ZArith List Bool Reals Lra.
From Flocq Require Import Core BinarySingleNaN.
Require Import GV.FloatBase GV.FloatLemmas GV.AngleM GV.AngleProofs GV.GeonumM GV.GeonumProofs GV.NewProofs.
Open Scope R_scope.
Require Import GV.Properties.C01.
Check C01_angle_closed : forall a b, Canon a -> Canon b ->
  Canon (geometric_add a b) /\ Canon (geometric_sub a b).
Print Assumptions C01_angle_closed.
Check C01_steps_closed : forall a, Canon a ->
  Canon (dual a) /\ Canon (undual a) /\ Canon (negate a) /\ Canon (conjugate a) /\ Canon (base_angle a).
Print Assumptions C01_steps_closed.
Check C01_new_fast : forall p d, fast_path p d = true -> Canon (new p d).
Print Assumptions C01_new_fast.
Check C01_new_general : forall nt, fin nt -> 0 <= R_ nt -> Canon (from_total nt).
Print Assumptions C01_new_general.
Check C01_new_total : forall p d, fin (total_angle p d) -> Rabs (R_ (total_angle p d)) <= bpow radix2 42 ->
  Canon (new p d).
Print Assumptions C01_new_total.
Check C01_sqrt_sites : forall (L : libm) a b,
  nonneg_or_inf (mag (distance_to L a b)) /\
  (aeqb (ang a) (ang b) = false ->
   aeqb (add_vv (ang a) (new one one)) (ang b) || aeqb (add_vv (ang b) (new one one)) (ang a) = false ->
   nonneg_or_inf (mag (gadd_vv L a b))).
Print Assumptions C01_sqrt_sites.
Check C01_panics : forall (L : libm) g h r,
  (inv g = None <-> feq (mag g) zero = true) /\
  (normalize g = None <-> feq (mag g) zero = true) /\
  (gdiv_vv h g = None <-> feq (mag g) zero = true) /\
  (invert_circle L h g r = None <-> feq (mag (gsub_vv L h g)) zero = true).
Print Assumptions C01_panics.
Check C01_history : forall ops a, Canon a -> Forall aop_ok ops -> Canon (fold_left apply_aop ops a).
Print Assumptions C01_history.
