From Coq Require Import ZArith List Bool Reals Lra.
From Flocq Require Import Core BinarySingleNaN.
Require Import GV.FloatBase GV.FloatLemmas GV.AngleM GV.AngleProofs GV.GeonumM GV.GeonumProofs GV.NewProofs GV.CtorProofs GV.ClosureProofs GV.CollM GV.TraitsM GV.Interp GV.ProgClosure.
Import ListNotations.
Open Scope R_scope.
Require Import GV.Properties.C01.
Check C01_angle_closed : forall a b, Canon a -> Canon b ->
  Canon (geometric_add a b) /\ Canon (geometric_sub a b).
Print Assumptions C01_angle_closed.
Check C01_steps_closed : forall a, Canon a ->
  Canon (dual a) /\ Canon (undual a) /\ Canon (negate a) /\ Canon (conjugate a) /\ Canon (base_angle a).
Print Assumptions C01_steps_closed.
Check C01_new_fast : forall p d, fast_path p d = true -> Canon (new p d).
Print Assumptions C01_new_fast.
Check C01_new_general : forall nt, fin nt -> 0 <= R_ nt -> Canon (from_total nt).
Print Assumptions C01_new_general.
Check C01_new_total : forall p d, fin (total_angle p d) -> Rabs (R_ (total_angle p d)) <= bpow radix2 42 ->
  Canon (new p d).
Print Assumptions C01_new_total.
Check C01_sqrt_sites : forall (L : libm) a b,
  nonneg_or_inf (mag (distance_to L a b)) /\
  (aeqb (ang a) (ang b) = false ->
   aeqb (add_vv (ang a) (new one one)) (ang b) || aeqb (add_vv (ang b) (new one one)) (ang a) = false ->
   nonneg_or_inf (mag (gadd_vv L a b))).
Print Assumptions C01_sqrt_sites.
Check C01_panics : forall (L : libm) g h r,
  (inv g = None <-> feq (mag g) zero = true) /\
  (normalize g = None <-> feq (mag g) zero = true) /\
  (gdiv_vv h g = None <-> feq (mag g) zero = true) /\
  (invert_circle L h g r = None <-> feq (mag (gsub_vv L h g)) zero = true).
Print Assumptions C01_panics.
Check C01_history : forall ops a, Canon a -> Forall aop_ok ops -> Canon (fold_left apply_aop ops a).
Print Assumptions C01_history.
Check C01_geonum_closed_pure : forall g h r f, CanonG g -> CanonG h -> Canon r -> fin f ->
  CanonG (gmul_vv g h) /\ CanonG (grotate g r) /\ CanonG (gscale g f) /\ CanonG (gnegate g) /\
  CanonG (gdual g) /\ CanonG (gundual g) /\ CanonG (differentiate g) /\ CanonG (integrate g) /\
  CanonG (increment_blade g) /\ CanonG (decrement_blade g) /\ CanonG (gbase_angle g) /\
  CanonG (reflect g h) /\ CanonG (scale_rotate g f r) /\
  (forall i, inv g = Some i -> CanonG i) /\ (forall q, gdiv_vv g h = Some q -> CanonG q).
Print Assumptions C01_geonum_closed_pure.
Check C01_geonum_closed_encoded : forall (L : libm) g h a, CanonG g -> CanonG h -> Canon a -> (blade (ang g) < 2 ^ 53)%Z ->
  CanonG (distance_to L g h) /\ CanonG (project_to_angle L g a) /\
  (fin (dot_value L g h) -> CanonG (dot L g h)) /\
  (fin (cosF L (grade_angle a)) -> CanonG (gcos L a)) /\
  (fin (sinF L (grade_angle a)) -> CanonG (gsin L a)) /\
  CanonG (wedge L g h) /\ CanonG (gproject L g h).
Print Assumptions C01_geonum_closed_encoded.
Check C01_geonum_closed_add : forall (L : libm) g h, CanonG g -> CanonG h -> (blade (ang g) + blade (ang h) < 2 ^ 53)%Z ->
  (aeqb (ang g) (ang h) = false ->
   aeqb (add_vv (ang g) (new one one)) (ang h) || aeqb (add_vv (ang h) (new one one)) (ang g) = false ->
   fin (total_angle (sum_adjusted L g h) PI) /\ Rabs (R_ (total_angle (sum_adjusted L g h) PI)) <= bpow radix2 42) ->
  CanonG (gadd_vv L g h).
Print Assumptions C01_geonum_closed_add.
Check C01_program_closed : forall (L : libm) (p : prog) rs, Forall okv rs ->
  forallb (fun i => closed_op (fst i)) p = true ->
  Forall okv (fold_left (fun rs i => rs ++ [step L rs i]) p rs).
Print Assumptions C01_program_closed.
Check C01_program_closed_run : forall (L : libm) (p : prog),
  forallb (fun i => closed_op (fst i)) p = true -> Forall okv (run L p).
Print Assumptions C01_program_closed_run.
Check C01_okv_def : forall v, okv v = match v with VA a => Canon a | VG g => CanonG g | VC l => Forall CanonG l
                                        | VOG (Some g) => CanonG g | _ => True end.
Print Assumptions C01_okv_def.
