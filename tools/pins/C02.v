From Coq Require Import ZArith List Bool Reals Lra.
From Flocq Require Import Core BinarySingleNaN.
Require Import GV.FloatBase GV.FloatLemmas GV.AngleM GV.AngleProofs GV.GeonumM GV.GeonumProofs GV.NewProofs GV.CtorProofs GV.ClosureProofs GV.SumUpper.
Open Scope R_scope.
Require Import GV.Properties.C02.
Check C02_fast_path : forall k, (0 <= k < 2 ^ 53)%Z -> new (of_Z k) two = {| rem := zero; blade := k |}.
Print Assumptions C02_fast_path.
Check C02_dimension : forall m k, (0 <= k < 2 ^ 53)%Z ->
  create_dimension m k = {| mag := m; ang := {| rem := zero; blade := k |} |}.
Print Assumptions C02_dimension.
Check C02_with_blade : forall n p d, (0 <= n < 2 ^ 53)%Z -> canonp (rem (new p d)) ->
  steps_to (new p d) (new_with_blade n p d) n.
Print Assumptions C02_with_blade.
Check C02_scalar : forall v, fin v ->
  mag (scalar v) = fabs v /\
  ang (scalar v) = if Rle_bool 0 (R_ v) then {| rem := zero; blade := 0 |} else {| rem := zero; blade := 2 |}.
Print Assumptions C02_scalar.
Check C02_decomp_exact : forall nt, fin nt -> 0 < R_ nt <= bpow radix2 43 ->
  exists k : Z, (0 <= k)%Z /\ R_ nt = IZR k * R_ Q + R_ (ffmod nt Q) /\ 0 <= R_ (ffmod nt Q) < R_ Q /\
    ( (blade (from_total nt) = k /\ R_ (rem (from_total nt)) = R_ (ffmod nt Q))
   \/ (blade (from_total nt) = (k + 1)%Z /\ R_ (rem (from_total nt)) = 0 /\
       Rabs (R_ (ffmod nt Q) - R_ Q) <= R_ eps10 + / 4503599627370496) ).
Print Assumptions C02_decomp_exact.
Check C02_new_is_from_total : forall p d,
  new p d = if fast_path p d then {| rem := zero; blade := fast_blade p |}
            else from_total (lift_total (total_angle p d)).
Print Assumptions C02_new_is_from_total.
Check C02_new_value : forall nt, fin nt -> 0 < R_ nt <= bpow radix2 43 ->
  Rabs (theta (from_total nt) - R_ nt) <= R_ eps10 + / 4503599627370496.
Print Assumptions C02_new_value.
Check C02_fast_path_negative : forall d, (- 2 ^ 50 < d < 0)%Z ->
  new (of_Z d) two = {| rem := zero; blade := d + 4 * ((- d + 6) / 4) |}.
Print Assumptions C02_fast_path_negative.
Check C02_new_value_pd : forall p d, fin p -> fin d -> R_ d <> 0 ->
  Rabs (R_ p * R_ PI) <= bpow radix2 1000 -> Rabs (R_ p * R_ PI / R_ d) <= bpow radix2 998 -> bpow radix2 (-1000) <= Rabs (R_ d) ->
  fast_path p d = false -> 0 < R_ (total_angle p d) <= bpow radix2 43 ->
  Rabs (theta (new p d) - R_ p * R_ PI / R_ d)
    <= R_ eps10 + / 4503599627370496 + / 2251799813685248 * Rabs (R_ p * R_ PI / R_ d) + bpow radix2 (-70).
Print Assumptions C02_new_value_pd.
Check C02_negative_at_most_one_turn : forall p d, fast_path p d = false ->
  fin (total_angle p d) -> Rabs (R_ (total_angle p d)) <= bpow radix2 42 -> R_ (total_angle p d) < 0 ->
  (0 <= blade (new p d) <= 4)%Z /\ (blade (new p d) = 4%Z -> R_ (rem (new p d)) <= / 256).
Print Assumptions C02_negative_at_most_one_turn.
Check C02_lift_range : forall t, fin t -> Rabs (R_ t) <= bpow radix2 42 -> R_ t < 0 ->
  fin (lift_total t) /\ 0 <= R_ (lift_total t) <= 4 * R_ Q + / 256.
Print Assumptions C02_lift_range.
