From Coq Require Import ZArith List Bool Reals Lra.
From Flocq Require Import Core BinarySingleNaN.
Require Import GV.FloatBase GV.FloatLemmas GV.AngleM GV.AngleProofs GV.GeonumM GV.GeonumProofs GV.NewProofs GV.CtorProofs GV.ClosureProofs GV.SumUpper GV.PiBounds GV.TrigProofs GV.DotValue GV.DistValue GV.DirProofs GV.SumDir GV.ProdProofs GV.CartCtor GV.Atan2Ideal GV.RealPi.
Open Scope R_scope.
Require Import GV.Properties.C02.
Check C02_fast_path : forall k, (0 <= k < 2 ^ 53)%Z -> new (of_Z k) two = {| rem := zero; blade := k |}.
Print Assumptions C02_fast_path.
Check C02_dimension : forall m k, (0 <= k < 2 ^ 53)%Z ->
  create_dimension m k = {| mag := m; ang := {| rem := zero; blade := k |} |}.
Print Assumptions C02_dimension.
Check C02_with_blade : forall n p d, (0 <= n < 2 ^ 53)%Z -> canonp (rem (new p d)) ->
  steps_to (new p d) (new_with_blade n p d) n.
Print Assumptions C02_with_blade.
Check C02_scalar : forall v, fin v ->
  mag (scalar v) = fabs v /\
  ang (scalar v) = if Rle_bool 0 (R_ v) then {| rem := zero; blade := 0 |} else {| rem := zero; blade := 2 |}.
Print Assumptions C02_scalar.
Check C02_decomp_exact : forall nt, fin nt -> 0 < R_ nt <= bpow radix2 43 ->
  exists k : Z, (0 <= k)%Z /\ R_ nt = IZR k * R_ Q + R_ (ffmod nt Q) /\ 0 <= R_ (ffmod nt Q) < R_ Q /\
    ( (blade (from_total nt) = k /\ R_ (rem (from_total nt)) = R_ (ffmod nt Q))
   \/ (blade (from_total nt) = (k + 1)%Z /\ R_ (rem (from_total nt)) = 0 /\
       Rabs (R_ (ffmod nt Q) - R_ Q) <= R_ eps10 + / 4503599627370496) ).
Print Assumptions C02_decomp_exact.
Check C02_new_is_from_total : forall p d,
  new p d = if fast_path p d then {| rem := zero; blade := fast_blade p |}
            else from_total (lift_total (total_angle p d)).
Print Assumptions C02_new_is_from_total.
Check C02_new_value : forall nt, fin nt -> 0 < R_ nt <= bpow radix2 43 ->
  Rabs (theta (from_total nt) - R_ nt) <= R_ eps10 + / 4503599627370496.
Print Assumptions C02_new_value.
Check C02_fast_path_negative : forall d, (- 2 ^ 50 < d < 0)%Z ->
  new (of_Z d) two = {| rem := zero; blade := d + 4 * ((- d + 6) / 4) |}.
Print Assumptions C02_fast_path_negative.
Check C02_new_value_pd : forall p d, fin p -> fin d -> R_ d <> 0 ->
  Rabs (R_ p * R_ PI) <= bpow radix2 1000 -> Rabs (R_ p * R_ PI / R_ d) <= bpow radix2 998 -> bpow radix2 (-1000) <= Rabs (R_ d) ->
  fast_path p d = false -> 0 < R_ (total_angle p d) <= bpow radix2 43 ->
  Rabs (theta (new p d) - R_ p * R_ PI / R_ d)
    <= R_ eps10 + / 4503599627370496 + / 2251799813685248 * Rabs (R_ p * R_ PI / R_ d) + bpow radix2 (-70).
Print Assumptions C02_new_value_pd.
Check C02_negative_at_most_one_turn : forall p d, fast_path p d = false ->
  fin (total_angle p d) -> Rabs (R_ (total_angle p d)) <= bpow radix2 42 -> R_ (total_angle p d) < 0 ->
  (0 <= blade (new p d) <= 4)%Z /\ (blade (new p d) = 4%Z -> R_ (rem (new p d)) <= / 256).
Print Assumptions C02_negative_at_most_one_turn.
Check C02_lift_range : forall t, fin t -> Rabs (R_ t) <= bpow radix2 42 -> R_ t < 0 ->
  fin (lift_total t) /\ 0 <= R_ (lift_total t) <= 4 * R_ Q + / 256.
Print Assumptions C02_lift_range.
Check C02_from_cartesian_direction : forall (L : libm) (u2 : R) x y, atan2_acc L u2 -> fin x -> fin y ->
  let a := new_from_cartesian L x y in
  Canon a /\ (blade a <= 4)%Z /\
  exists theta, R_ x = sqrt (R_ x * R_ x + R_ y * R_ y) * cos theta /\ R_ y = sqrt (R_ x * R_ x + R_ y * R_ y) * sin theta /\
    Rabs (cos (dirR a) - cos theta) <= u2 + R_ eps10 + 3 / 100000000000000 /\
    Rabs (sin (dirR a) - sin theta) <= u2 + R_ eps10 + 3 / 100000000000000.
Print Assumptions C02_from_cartesian_direction.
Check C02_from_cartesian_value : forall (L : libm) (u2 : R) x y, atan2_acc L u2 -> fin x -> fin y ->
  fin (fsqrt (fadd (fmul x x) (fmul y y))) -> fin (fadd (fmul x x) (fmul y y)) ->
  bpow radix2 (-1000) <= R_ x * R_ x + R_ y * R_ y ->
  let g := gnew_from_cartesian L x y in
  let r := sqrt (R_ x * R_ x + R_ y * R_ y) in
  let T := r * (6 * / 9007199254740992 + u2 + R_ eps10 + 3 / 100000000000000) in
  Canon (ang g) /\ Rabs (R_ (mag g) * cos (dirR (ang g)) - R_ x) <= T /\ Rabs (R_ (mag g) * sin (dirR (ang g)) - R_ y) <= T.
Print Assumptions C02_from_cartesian_value.
Check C02_radians_direction : forall (at_ : F), fin at_ -> Rabs (R_ at_) <= R_ PI ->
  let a := new (fdiv at_ PI) one in
  Canon a /\ (blade a <= 4)%Z /\
  exists J : Z, (0 <= J)%Z /\ Rabs (dirR a - (R_ at_ + 2 * Rtrigo1.PI * IZR J)) <= R_ eps10 + 3 / 100000000000000.
Print Assumptions C02_radians_direction.
Check C02_new_direction : forall p d, fast_path p d = false ->
  fin (total_angle p d) -> Rabs (R_ (total_angle p d)) <= bpow radix2 42 ->
  exists J : Z, (0 <= J)%Z /\
    Rabs (dirR (new p d) - (R_ (total_angle p d) + 2 * Rtrigo1.PI * IZR J))
      <= R_ eps10 + 2 / 100000000000000 + Rabs (R_ (total_angle p d)) / 1000000000000000.
Print Assumptions C02_new_direction.
Check C02_atan2_premise_inhabited : exists L : libm, atan2_acc L (/ 1125899906842624).
Print Assumptions C02_atan2_premise_inhabited.
Check C02_total_real_pi : forall p d, fin (total_angle p d) -> bpow radix2 (-500) <= Rabs (R_ d) ->
  Rabs (R_ (total_angle p d) - R_ p * Rtrigo1.PI / R_ d)
    <= 5 / 10000000000000000 * Rabs (R_ (total_angle p d)) + bpow radix2 (-570).
Print Assumptions C02_total_real_pi.
Check C02_new_real_pi : forall p d, fast_path p d = false ->
  fin (total_angle p d) -> Rabs (R_ (total_angle p d)) <= bpow radix2 42 -> bpow radix2 (-500) <= Rabs (R_ d) ->
  exists J : Z, (0 <= J)%Z /\
    Rabs (dirR (new p d) - (R_ p * Rtrigo1.PI / R_ d + 2 * Rtrigo1.PI * IZR J))
      <= R_ eps10 + 3 / 100000000000000 + Rabs (R_ (total_angle p d)) * (2 / 1000000000000000).
Print Assumptions C02_new_real_pi.
